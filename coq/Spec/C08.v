(* C08 specifications, written from the standards and independent of the models of the Go code:
   MS-NLMP 2.2.1.1 NEGOTIATE_MESSAGE, 2.2.1.2 CHALLENGE_MESSAGE, 2.2.1.3 AUTHENTICATE_MESSAGE,
   2.2.2.1 AV_PAIR; RFC 2781 UTF-16; RFC 3629 UTF-8.  (X.690 definite lengths are in Prim/Der.v.)
   Definitions only. *)
From Coq Require Import List NArith Bool.
From Mant Require Import Prim.Bytes.
Import ListNotations.
Open Scope N_scope.

(* ---- reading a message ---- *)
Definition sub (msg : list N) (off len : N) : list N :=
  firstn (N.to_nat len) (skipn (N.to_nat off) msg).
Definition u16_at (msg : list N) (off : N) : N := le_val (sub msg off 2).
Definition u32_at (msg : list N) (off : N) : N := le_val (sub msg off 4).

(* A payload descriptor: Len (2 bytes), MaxLen (2 bytes), BufferOffset (4 bytes). *)
Record desc := { d_len : N; d_max : N; d_off : N }.
Definition desc_at (msg : list N) (at_ : N) : desc :=
  {| d_len := u16_at msg at_; d_max := u16_at msg (at_ + 2); d_off := u32_at msg (at_ + 4) |}.

(* The descriptor designates exactly the bytes [field]: right length, MaxLen = Len, inside the
   message, not inside the fixed header of [hdr] bytes. *)
Definition designates (msg : list N) (hdr : N) (d : desc) (field : list N) : Prop :=
  d_len d = lenN field /\ d_max d = d_len d /\ hdr <= d_off d /\ d_off d + d_len d <= lenN msg /\
  sub msg (d_off d) (d_len d) = field.

Definition disjoint (a b : desc) : Prop :=
  d_off a + d_len a <= d_off b \/ d_off b + d_len b <= d_off a.

Fixpoint pairwise {A} (P : A -> A -> Prop) (l : list A) : Prop :=
  match l with
  | [] => True
  | x :: l' => Forall (P x) l' /\ pairwise P l'
  end.

(* ---- character sets ---- *)
Inductive charset := Unicode | Oem.

Definition is_scalar (c : N) : Prop := c < 55296 \/ (57344 <= c /\ c <= 1114111).
Definition is_scalarb (c : N) : bool := (c <? 55296) || ((57344 <=? c) && (c <=? 1114111)).

(* RFC 2781 2.1 *)
Definition utf16_units (c : N) : list N :=
  if c <? 65536 then [c]
  else let c' := c - 65536 in [55296 + c' / 1024; 56320 + c' mod 1024].
Definition utf16le (text : list N) : list N :=
  flat_map (fun u => le_bytes 2 u) (flat_map utf16_units text).

(* RFC 3629 3 *)
Definition utf8_char (c : N) : list N :=
  if c <? 128 then [c]
  else if c <? 2048 then [192 + c / 64; 128 + c mod 64]
  else if c <? 65536 then [224 + c / 4096; 128 + (c / 64) mod 64; 128 + c mod 64]
  else [240 + c / 262144; 128 + (c / 4096) mod 64; 128 + (c / 64) mod 64; 128 + c mod 64].
Definition utf8 (text : list N) : list N := flat_map utf8_char text.

(* The OEM character set is a single-byte code page chosen by the peer's locale; the part every
   OEM code page shares is ASCII, so only ASCII text has a code-page-independent OEM encoding. *)
Definition oem_encode (text : list N) : option (list N) :=
  if forallb (fun c => c <? 128) text then Some text else None.

Definition encode_name (cs : charset) (text : list N) : option (list N) :=
  match cs with
  | Unicode => Some (utf16le text)
  | Oem => oem_encode text
  end.

(* ---- MS-NLMP constants ---- *)
Definition nlmp_signature : list N := [78; 84; 76; 77; 83; 83; 80; 0]. (* "NTLMSSP\0" *)
Definition bit_unicode : N := 0.   (* A  NTLMSSP_NEGOTIATE_UNICODE *)
Definition bit_oem : N := 1.       (* B  NTLM_NEGOTIATE_OEM *)
Definition bit_domain_supplied : N := 12.  (* K *)
Definition bit_workstation_supplied : N := 13. (* L *)
Definition bit_version : N := 25.  (* T  NTLMSSP_NEGOTIATE_VERSION *)

Definition charset_flags (cs : charset) (flags : N) : Prop :=
  match cs with
  | Unicode => N.testbit flags bit_unicode = true
  | Oem => N.testbit flags bit_unicode = false /\ N.testbit flags bit_oem = true
  end.

(* ---- 2.2.1.1 NEGOTIATE_MESSAGE carrying the names [domain] / [workstation] (text) in [cs] ---- *)
Definition negotiate_wf (msg : list N) (cs : charset) (domain workstation : list N) : Prop :=
  exists db wb,
    encode_name cs domain = Some db /\ encode_name cs workstation = Some wb /\
    sub msg 0 8 = nlmp_signature /\ u32_at msg 8 = 1 /\
    let flags := u32_at msg 12 in
    let hdr := if N.testbit flags bit_version then 40 else 32 in
    hdr <= lenN msg /\
    designates msg hdr (desc_at msg 16) db /\ designates msg hdr (desc_at msg 24) wb /\
    disjoint (desc_at msg 16) (desc_at msg 24) /\
    charset_flags cs flags /\
    (N.testbit flags bit_domain_supplied = true <-> domain <> []) /\
    (N.testbit flags bit_workstation_supplied = true <-> workstation <> []).

(* ---- 2.2.1.3 AUTHENTICATE_MESSAGE (with Version and MIC fields: 88-byte header) ---- *)
Definition authenticate_wf (msg : list N) (cs : charset) (flags : N)
    (lm nt domain user workstation key : list N) : Prop :=
  exists db ub wb,
    encode_name cs domain = Some db /\ encode_name cs user = Some ub /\ encode_name cs workstation = Some wb /\
    sub msg 0 8 = nlmp_signature /\ u32_at msg 8 = 3 /\ 88 <= lenN msg /\
    designates msg 88 (desc_at msg 12) lm /\ designates msg 88 (desc_at msg 20) nt /\
    designates msg 88 (desc_at msg 28) db /\ designates msg 88 (desc_at msg 36) ub /\
    designates msg 88 (desc_at msg 44) wb /\ designates msg 88 (desc_at msg 52) key /\
    pairwise disjoint [desc_at msg 12; desc_at msg 20; desc_at msg 28; desc_at msg 36; desc_at msg 44; desc_at msg 52] /\
    u32_at msg 60 = flags /\
    (N.testbit flags bit_version = false -> sub msg 64 8 = [0; 0; 0; 0; 0; 0; 0; 0]) /\
    (* the header and the six fields are the whole message *)
    lenN msg = 88 + lenN lm + lenN nt + lenN db + lenN ub + lenN wb + lenN key.

(* ---- 2.2.1.2 CHALLENGE_MESSAGE, as received ---- *)
Definition in_bounds (data : list N) (d : desc) : Prop := d_off d + d_len d <= lenN data.

Definition challenge_wf (data : list N) : Prop :=
  wf_bytes data /\ 56 <= lenN data /\ sub data 0 8 = nlmp_signature /\ u32_at data 8 = 2 /\
  in_bounds data (desc_at data 12) /\ in_bounds data (desc_at data 40).

Record challenge_fields := {
  cf_flags : N; cf_server_challenge : list N; cf_target_name : list N; cf_target_info : list N;
  cf_version : list N }.

(* What a CHALLENGE carries: MaxLen is ignored on receipt; Version is meaningful only with flag T. *)
Definition challenge_carried (data : list N) : challenge_fields :=
  let tn := desc_at data 12 in
  let ti := desc_at data 40 in
  let flags := u32_at data 20 in
  {| cf_flags := flags;
     cf_server_challenge := sub data 24 8;
     cf_target_name := sub data (d_off tn) (d_len tn);
     cf_target_info := sub data (d_off ti) (d_len ti);
     cf_version := if N.testbit flags bit_version then sub data 48 8 else [0; 0; 0; 0; 0; 0; 0; 0] |}.

(* The canonical sender-side layout: header, TargetName, TargetInfo. *)
Definition challenge_encode (flags : N) (server_challenge target_name target_info version : list N) : list N :=
  nlmp_signature ++ le_bytes 4 2
  ++ le_bytes 2 (lenN target_name) ++ le_bytes 2 (lenN target_name) ++ le_bytes 4 56
  ++ le_bytes 4 flags ++ server_challenge ++ [0; 0; 0; 0; 0; 0; 0; 0]
  ++ le_bytes 2 (lenN target_info) ++ le_bytes 2 (lenN target_info) ++ le_bytes 4 (56 + lenN target_name)
  ++ version ++ target_name ++ target_info.

(* ---- 2.2.2.1 AV_PAIR lists ---- *)
Definition av_pair_encode (p : N * list N) : list N :=
  le_bytes 2 (fst p) ++ le_bytes 2 (lenN (snd p)) ++ snd p.
Definition av_eol : list N := [0; 0; 0; 0].
Definition av_encode (pairs : list (N * list N)) : list N := flat_map av_pair_encode pairs ++ av_eol.

Definition av_ok (p : N * list N) : Prop := 0 < fst p /\ fst p < 65536 /\ lenN (snd p) < 65536.

(* The value an AvId has in the list: the last one written. *)
Definition av_value (pairs : list (N * list N)) (id : N) : option (list N) :=
  match find (fun p => fst p =? id) (rev pairs) with
  | Some p => Some (snd p)
  | None => None
  end.
