(* C04 — what "a structure round-trips all of its fields through the wire" means for the regenerated
   descriptions, and the decidable shape condition under which it is proved once and for all. *)
From Coq Require Import List NArith ZArith String Bool.
From Mant Require Import Prim.R Prim.Bytes Model.Flags Model.SmbTypes Model.SmbBlocks Model.SmbLayout Model.SmbAnalysis.
Import ListNotations.
Open Scope N_scope.

(* ---- decidable equality of the description language ---- *)
Fixpoint lenexp_eqb (a b : lenexp) : bool :=
  match a, b with
  | EConst x, EConst y => N.eqb x y
  | EField x, EField y => String.eqb x y
  | ELenOf x, ELenOf y => String.eqb x y
  | EVar x, EVar y => String.eqb x y
  | ERead, ERead => true
  | ERest, ERest => true
  | EAdd a1 a2, EAdd b1 b2 => lenexp_eqb a1 b1 && lenexp_eqb a2 b2
  | EMul a1 a2, EMul b1 b2 => lenexp_eqb a1 b1 && lenexp_eqb a2 b2
  | ESub a1 a2, ESub b1 b2 => lenexp_eqb a1 b1 && lenexp_eqb a2 b2
  | _, _ => false
  end.

Definition uop_eqb (a b : uop) : bool :=
  match a, b with
  | UGuard s1 e1, UGuard s2 e2 => stream_eqb s1 s2 && lenexp_eqb e1 e2
  | UInt s1 f1 w1 e1 a1, UInt s2 f2 w2 e2 a2 =>
      stream_eqb s1 s2 && String.eqb f1 f2 && Nat.eqb w1 w2 && endian_eqb e1 e2 && lenexp_eqb a1 a2
  | UAdv e1, UAdv e2 => lenexp_eqb e1 e2
  | UReset s1, UReset s2 => stream_eqb s1 s2
  | _, _ => false
  end.

Fixpoint uops_eqb (a b : list uop) : bool :=
  match a, b with
  | [], [] => true
  | x :: a', y :: b' => uop_eqb x y && uops_eqb a' b'
  | _, _ => false
  end.

(* ---- the all-integer fragment ---- *)
Definition ifield := (string * nat * endian)%type.

Fixpoint int_fields (ms : list mop) : option (list ifield) :=
  match ms with
  | [] => Some []
  | MInt SP f w e :: r => match int_fields r with Some l => Some ((f, w, e) :: l) | None => None end
  | _ => None
  end.

Definition read_triple (x : ifield) : list uop :=
  let '(f, w, e) := x in
  [UGuard SP (EConst (N.of_nat w)); UInt SP f w e (EConst (N.of_nat w)); UAdv (EConst (N.of_nat w))].

(* what the template's Unmarshal looks like for these fields *)
Definition expected_unmarshal (fs : list ifield) : list uop :=
  UReset SP :: flat_map read_triple fs ++ [UReset SD].

Definition total_width (fs : list ifield) : N :=
  fold_right (fun x acc => N.of_nat (snd (fst x)) + acc) 0 fs.

Fixpoint decl_matches (fs : list ifield) (decl : list (string * ctype)) : bool :=
  match fs, decl with
  | [], [] => true
  | (f, w, _) :: fs', (g, TInt w') :: d' => String.eqb f g && Nat.eqb w w' && decl_matches fs' d'
  | _, _ => false
  end.

Definition simple_fixed (c : cmd_desc) : bool :=
  negb (cd_andx c) && cd_params_first c && cd_translated c &&
  match int_fields (cd_marshal c) with
  | Some fs =>
      uops_eqb (cd_unmarshal c) (expected_unmarshal fs) &&
      nodupb String.eqb (map (fun x => fst (fst x)) fs) &&
      decl_matches fs (cd_decl c) &&
      N.even (total_width fs) && (total_width fs <=? 510) &&
      forallb (fun x => Nat.ltb 0 (snd (fst x))) fs
  | None => false
  end.

(* field values in declaration order, each within its declared width *)
Definition int_valuation (fs : list ifield) (ns : list N) : valuation :=
  combine (map (fun x => fst (fst x)) fs) (map FInt ns).

Definition values_fit (fs : list ifield) (ns : list N) : Prop :=
  Forall2 (fun x n => n < 2 ^ (8 * N.of_nat (snd (fst x)))) fs ns.

(* the property for one structure: a fresh structure decodes the encoding of v to exactly v, and the
   encoding is the concatenation of the fields' slots in declared order *)
Definition roundtrips (c : cmd_desc) : Prop :=
  forall fs, int_fields (cd_marshal c) = Some fs ->
  forall ns, values_fit fs ns ->
  let v := int_valuation fs ns in
  exists bs cs',
    cmd_marshal c cstate_new v = Ok (bs, cs', v) /\
    cmd_unmarshal c (zero_valuation c) bs = Ok v /\
    bs = [total_width fs / 2] ++ List.concat (map (fun '(x, n) => int_bytes (snd (fst x)) (snd x) n) (combine fs ns)) ++ [0; 0].
