(* C18 — what the standard and the property text demand, independently of the models.
   Definitions only. *)
From Coq Require Import List NArith Bool.
From Mant Require Import Prim.R Prim.Val Prim.Bytes Model.NbnsServer Model.NameSrvConc.
Import ListNotations.
Open Scope N_scope.

(* ------------------------------------------------------------------ RFC 1002 4.2.1.1: the flags word
      bit 15      R       0 request, 1 response
      bits 14-11  OPCODE  0 query, 5 registration, 6 release, 7 WACK, 8 refresh
                          (9 in the NAME REFRESH REQUEST diagram of 4.2.4)
      bits 10-4   NM_FLAGS, bits 3-0 RCODE
   A name server acts on REQUESTS; WACK exists only as a response, so no request service is
   assigned to opcode 7, nor to the unassigned opcodes. *)
Inductive service := SvcQuery | SvcRegistration | SvcRelease | SvcRefresh | SvcNone.

Definition rfc1002_service (response : bool) (opcode : N) : service :=
  if response then SvcNone
  else match opcode with
       | 0 => SvcQuery
       | 5 => SvcRegistration
       | 6 => SvcRelease
       | 8 | 9 => SvcRefresh
       | _ => SvcNone
       end.

(* the flags word with the given R bit, opcode (4 bits) and remaining 11 bits *)
Definition flags_word (response : bool) (opcode other : N) : N :=
  (if response then 32768 else 0) + opcode * 2048 + other.

Definition service_of_handler (h : handler) : service :=
  match h with
  | HQuery => SvcQuery | HRegistration => SvcRegistration | HRelease => SvcRelease
  | HRefresh => SvcRefresh | HNone => SvcNone
  end.

(* ------------------------------------------------------------------ a response is for its request *)

(* the owners the table holds for a name (active records only) *)
Definition owners_of (t : table) (name : bytes) : list bytes :=
  match query t name with Ok (os, _) => os | _ => [] end.

(* an answer record is built from question q of the request and an owner registered for q's name *)
Definition answers_question (t : table) (q : question) (a : rr) : Prop :=
  rr_name a = q_name q /\ rr_type a = q_type q /\ rr_class a = q_class q /\
  In (rr_rdata a) (owners_of t (nb_name (q_name q))) /\ rr_rdlength a = u16 (lenN (rr_rdata a)).

(* The complete list of answers a name query deserves: for each question in order one record per
   owner, stopping at the first name the table does not hold (name error). *)
Fixpoint expected_answers (t : table) (qs : list question) : list rr * bool :=
  match qs with
  | [] => ([], false)
  | q :: qs' =>
      match query t (nb_name (q_name q)) with
      | Ok (os, _) => let '(rest, e) := expected_answers t qs' in (map (answer_rr q) os ++ rest, e)
      | _ => ([], true)
      end
  end.

Definition rcode (flags : N) : N := flags mod 16.

Definition response_for_request (t : table) (req resp : packet) : Prop :=
  let h := p_hdr resp in
  h_id h = h_id (p_hdr req) /\
  N.testbit (h_flags h) 15 = true /\
  (* sections announced = sections present *)
  h_qd h = lenN (p_questions resp) /\ h_an h = u16 (lenN (p_answers resp)) /\
  h_ns h = lenN (p_authority resp) /\ h_ar h = lenN (p_additional resp) /\
  p_questions resp = [] /\ p_authority resp = [] /\ p_additional resp = [] /\
  (* every answer comes from a question of THIS request and an owner of that question's name *)
  Forall (fun a => exists q, In q (p_questions req) /\ answers_question t q a) (p_answers resp).

(* ------------------------------------------------------------------ isolation *)

(* every handler that has run parsed exactly the datagram it was started for *)
Definition isolated (s : rstate) : Prop :=
  Forall (fun h => match ht_seen h with None => True | Some b => b = ht_for h end) (rs_threads s).

(* ------------------------------------------------------------------ LLMNR demultiplexing *)

(* The events between the Store of query number ch (id) and now contain no other Store/Delete of
   the same id: the query is still outstanding and its id is not reused. *)
Fixpoint undisturbed (id : N) (evs : list dev) : bool :=
  match evs with
  | [] => true
  | DStore i :: r | DDelete i :: r => negb (N.eqb i id) && undisturbed id r
  | DRecv _ _ _ :: r => undisturbed id r
  end.

(* the first response carrying the id among the events *)
Fixpoint first_response (id : N) (evs : list dev) : option (N * bytes) :=
  match evs with
  | [] => None
  | DRecv i fl name :: r => if negb (llmnr_is_query fl) && N.eqb i id then Some (i, name) else first_response id r
  | _ :: r => first_response id r
  end.

(* ------------------------------------------------------------------ shutdown *)

Definition udp_stopped (s : ustate) : Prop := u_loop s = LExited /\ u_stop s = SDone.
Definition tcp_stopped (s : tstate) : Prop :=
  t_acc s = AExited /\ all_exited (t_conns s) = true /\ t_stop s = TDone.
