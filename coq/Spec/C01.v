(* C01 — what the password-hash primitives must compute, as the standards state it.  Definitions only.

   The algorithms themselves are the shared references written from the standards' text:
     Algo.MD4.md4 (RFC 1320), Algo.Utf16 (RFC 2781), Algo.Utf8 (RFC 3629), Algo.DES (FIPS 46-3, and the
     MS-NLMP / Samba str_to_key with odd parity), Algo.HMAC (RFC 2104), Algo.SHA1 (FIPS 180), Algo.PBKDF2 (RFC 8018).
   Passwords and user names are sequences of Unicode scalar values (code points); their byte form, where one is
   needed, is UTF-8 (RFC 3629).  Unicode simple lower-casing of user names is a parameter [lower] of the
   MS-Cache definitions (the executable instance is the Go standard library table). *)
From Coq Require Import List NArith ZArith Bool.
From Mant Require Import Prim.Bytes Prim.Dec Algo.Word Algo.MD4 Algo.SHA1 Algo.HMAC Algo.PBKDF2 Algo.DES
  Algo.Utf16 Algo.Utf8.
Import ListNotations.
Open Scope N_scope.

(* ---- MS-NLMP 3.3.1: NTOWFv1(Passwd) = MD4(UNICODE(Passwd)), UNICODE = UTF-16LE *)
Definition ntowfv1 (password : list N) : list N := md4 (utf16le_encode password).

(* ---- MS-NLMP 3.3.1: LMOWFv1 = ConcatenationOf(DES(UpperCase(Passwd)[0..6], "KGS!@#$%"),
                                                 DES(UpperCase(Passwd)[7..13], "KGS!@#$%")),
        the password (OEM / 7-bit ASCII bytes) upper-cased, zero-padded or truncated to 14 bytes; DES(K, D) takes a
        7-byte key expanded to 8 bytes with parity (str_to_key). *)
Definition lm_magic_spec : list N := [0x4B; 0x47; 0x53; 0x21; 0x40; 0x23; 0x24; 0x25].
Definition lmowfv1 (password : list N) : list N :=
  let p := firstn 14 (map to_upper password ++ zeros 14) in
  des7_encrypt (firstn 7 p) lm_magic_spec ++ des7_encrypt (skipn 7 p) lm_magic_spec.

Definition ascii7 (s : list N) : Prop := Forall (fun b => b < 128) s.

(* ---- MS-Cache v1 (DCC): MD4(NT hash || UTF-16LE(lowercase(user name)))
        MS-Cache v2 (DCC2): PBKDF2-HMAC-SHA1(password = DCC1, salt = UTF-16LE(lowercase(user name)), rounds, 16) *)
Section MSCache.
  Variable lower : N -> N.       (* simple lower-case mapping of one code point *)

  Definition mscache_salt (user : list N) : list N := utf16le_encode (map lower user).
  Definition mscache1 (nt : list N) (user : list N) : list N := md4 (nt ++ mscache_salt user).
  Definition mscache2 (nt : list N) (user : list N) (rounds : N) : list N :=
    pbkdf2_hmac_sha1 (mscache1 nt user) (mscache_salt user) rounds 16.

  (* output forms *)
  Definition hex_form (raw : list N) : list N := hex_of_bytes false raw.          (* lower-case hexadecimal *)
  (* hashcat mode 1100: <hex>:<lower-cased user name> *)
  Definition dcc1_line (nt : list N) (user : list N) : list N :=
    hex_form (mscache1 nt user) ++ [58] ++ utf8_encode (map lower user).
  (* hashcat mode 2100: $DCC2$<rounds in decimal>#<user name as supplied>#<hex> *)
  Definition dcc2_line (nt : list N) (user : list N) (rounds : N) : list N :=
    [36; 68; 67; 67; 50; 36] ++ print_dec rounds ++ [35] ++ utf8_encode user ++ [35]
      ++ hex_form (mscache2 nt user rounds).
End MSCache.

(* ---- reading a streaming hash object: the outputs of a history of writes and reads (raw or hexadecimal):
        every read returns the digest of the concatenation of all earlier writes, so a read changes nothing *)
Inductive hash_op : Type := HWrite (p : list N) | HRead | HReadHex.

Fixpoint reads_spec (H : list N -> list N) (written : list N) (ops : list hash_op) : list (list N) :=
  match ops with
  | [] => []
  | HWrite p :: r => reads_spec H (written ++ p) r
  | HRead :: r => H written :: reads_spec H written r
  | HReadHex :: r => hex_of_bytes false (H written) :: reads_spec H written r
  end.
