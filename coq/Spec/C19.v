(* C19 — what "decomposes faithfully" and "has a unique, non-placeholder name" mean. *)
From Coq Require Import List NArith ZArith String Bool Sorting.Permutation.
From Mant Require Import Model.Flags.
Import ListNotations.
Open Scope N_scope.

(* A flag table decomposes faithfully when, for EVERY word w, the reported names are exactly the
   literals of the table's bits that are set in w, in table order, each at most once, and distinct
   rows name distinct bits. *)
Definition faithful (t : list chain_entry) : Prop :=
  (forall w, decompose t w = set_bit_names t w) /\
  (forall w, NoDup (decompose t w)) /\
  (forall w name, In name (decompose t w) <->
     exists e, In e t /\ ce_lit e = name /\ N.testbit w (N.log2 (ce_mask e)) = true) /\
  NoDup (map ce_mask t).

(* Every predicate is a function of its own bit only. *)
Definition preds_own_bit (ps : list pred_entry) : Prop :=
  forall p, In p ps -> forall w w',
    N.testbit w (N.log2 (pe_mask p)) = N.testbit w' (N.log2 (pe_mask p)) ->
    pred_holds p w = pred_holds p w'.

Definition preds_are_bits (ps : list pred_entry) : Prop :=
  forall p, In p ps -> forall w,
    pred_holds p w = (if pred_positive p then N.testbit w (N.log2 (pe_mask p))
                      else negb (N.testbit w (N.log2 (pe_mask p)))).

(* A name table: distinct values have distinct names, no name is a placeholder, and every declared
   constant of the type has a name. *)
Definition named (cs : list const_entry) (t : list map_entry) : Prop :=
  (forall v1 v2 n, lookup t v1 = Some n -> lookup t v2 = Some n -> v1 = v2) /\
  (forall v n, lookup t v = Some n -> placeholder n = false) /\
  (forall c, In c cs -> exists n, lookup t (co_val c) = Some n).

(* map-driven decomposition followed by sort (UserAccountControl.String) *)
Definition chain_of_map (t : list map_entry) : list chain_entry :=
  map (fun e => (me_key e, me_val e, ""%string, 0%Z, false, me_text e)) t.

Definition has_prefix_name (p : string) (c : const_entry) : bool := String.prefix p (co_name c).
