(* C14 — the msDS-KeyCredentialLink value as the standards state it.  Definitions only.

   [MS-ADTS] 2.2.20: KEYCREDENTIALLINK_BLOB = Version (4 bytes, little-endian) followed by
   KEYCREDENTIALLINK_ENTRY structures: Length (2 bytes, little-endian, length of Value), Identifier (1 byte),
   Value.  Identifiers (2.2.20.6): 1 KeyID = SHA-256 of the KeyMaterial value; 2 KeyHash = SHA-256 of all
   entries following this entry; 3 KeyMaterial; 4 KeyUsage; 5 KeySource; 6 DeviceId; 7 CustomKeyInformation;
   8 KeyApproximateLastLogonTimeStamp; 9 KeyCreationTime.  Entries are sorted by identifier.
   KeyMaterial of an NGC key is a BCRYPT_RSAKEY_BLOB (bcrypt.h): Magic "RSA1", BitLength, cbPublicExp,
   cbModulus, cbPrime1, cbPrime2 (little-endian ULONGs), then PublicExponent, Modulus, Prime1, Prime2
   (big-endian numbers).  DeviceId is a GUID in the packet representation of [MS-DTYP] 2.3.4.2.
   CUSTOM_KEY_INFORMATION (2.2.20.4): Version = 1, Flags, then optional fields.  Time stamps are FILETIME
   tick counts (100 ns since 1601-01-01 UTC), little-endian 64 bit.
   [MS-ADTS] 3.1.1.2.2.2.1 (Object(DN-Binary)): the string form is B:<char count>:<hex digits>:<object DN>. *)
From Coq Require Import List NArith ZArith Bool.
From Mant Require Import Prim.Bytes Prim.Dec Algo.SHA256 Algo.Base64 Model.Guid.
Import ListNotations.
Open Scope N_scope.

(* what a key credential is built from: the credential version, an RSA key, a device, two time stamps *)
Record cred : Type := mkCred {
  sVersion : N;                      (* 0, 0x100 or 0x200 *)
  sKeySize : N;                      (* BitLength *)
  sExponent : N;
  sModulus : list N;
  sPrime1 : list N;
  sPrime2 : list N;
  sDevice : guid;
  sLastLogon : Z;                    (* ticks *)
  sCreation : Z }.

Definition guid_wf (g : guid) : Prop :=
  gA g < 2 ^ 32 /\ gB g < 2 ^ 16 /\ gC g < 2 ^ 16 /\ gD g < 2 ^ 16 /\ gE g < 2 ^ 48.

(* every field fits its type; a tick count of 0 stands for "now" and is not a value *)
Definition cred_ok (c : cred) : Prop :=
  sVersion c < 2 ^ 32 /\ sKeySize c < 2 ^ 32 /\ sExponent c < 2 ^ 32 /\
  wf_bytes (sModulus c) /\ wf_bytes (sPrime1 c) /\ wf_bytes (sPrime2 c) /\ guid_wf (sDevice c) /\
  (0 < sLastLogon c < 2 ^ 64)%Z /\ (0 < sCreation c < 2 ^ 64)%Z.

Definition entry (t : N) (v : list N) : list N := le_bytes 2 (lenN v) ++ [t] ++ v.

Definition spec_rsa_blob (c : cred) : list N :=
  [82; 83; 65; 49] ++ le_bytes 4 (sKeySize c) ++ le_bytes 4 4 ++ le_bytes 4 (lenN (sModulus c))
  ++ le_bytes 4 (lenN (sPrime1 c)) ++ le_bytes 4 (lenN (sPrime2 c))
  ++ be_bytes 4 (sExponent c) ++ sModulus c ++ sPrime1 c ++ sPrime2 c.

(* the 16-bit Length field must be able to describe the key material (the other values are short) *)
Definition fits (c : cred) : Prop := lenN (spec_rsa_blob c) <= 65535.

Definition spec_guid (g : guid) : list N :=
  le_bytes 4 (gA g) ++ le_bytes 2 (gB g) ++ le_bytes 2 (gC g) ++ be_bytes 2 (gD g) ++ be_bytes 6 (gE g).

Definition spec_ticks (t : Z) : list N := le_bytes 8 (Z.to_N t).

(* the entries covered by the key hash: usage NGC (1), source AD (0), CUSTOM_KEY_INFORMATION {1, 0} *)
Definition spec_tail (c : cred) : list N :=
  entry 3 (spec_rsa_blob c) ++ entry 4 [1] ++ entry 5 [0] ++ entry 6 (spec_guid (sDevice c))
  ++ entry 7 [1; 0] ++ entry 8 (spec_ticks (sLastLogon c)) ++ entry 9 (spec_ticks (sCreation c)).

Definition spec_key_id (c : cred) : list N := sha256 (spec_rsa_blob c).
Definition spec_key_hash (c : cred) : list N := sha256 (spec_tail c).

Definition spec_head (c : cred) : list N :=
  le_bytes 4 (sVersion c) ++ entry 1 (spec_key_id c) ++ entry 2 (spec_key_hash c).

Definition spec_blob (c : cred) : list N := spec_head c ++ spec_tail c.

(* the text form of the key identifier: hexadecimal for versions 0 and 1, base 64 from version 2 on *)
Definition spec_identifier (c : cred) : list N :=
  if (sVersion c =? 0) || (sVersion c =? 256) then hex_of_bytes false (spec_key_id c)
  else b64_encode (spec_key_id c).

(* bit i of a byte string: bit (i mod 8) of byte (i / 8) *)
Fixpoint flip_at (n : nat) (j : N) (l : list N) : list N :=
  match l, n with
  | [], _ => []
  | x :: r, O => N.lxor x (2 ^ j) :: r
  | x :: r, S n' => x :: flip_at n' j r
  end.
Definition flip_bit (b : list N) (i : N) : list N := flip_at (N.to_nat (i / 8)) (i mod 8) b.

(* a occurs in b as a contiguous block *)
Definition infix (a b : list N) : Prop := exists p s, b = p ++ a ++ s.

(* the DN-with-binary string form *)
Definition spec_dn_string (dn bin : list N) : list N :=
  [66; 58] ++ print_dec (2 * lenN bin) ++ [58] ++ hex_of_bytes false bin ++ [58] ++ dn.
