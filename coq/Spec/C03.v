(* C03 — domain predicates for the envelope theorems. *)
From Coq Require Import List NArith ZArith String Bool.
From Mant Require Import Prim.R Prim.Bytes Model.SmbTypes Model.SmbBlocks Model.SmbLayout Spec.C05 Model.SmbEnvelope.
Import ListNotations.
Open Scope N_scope.

(* every header field within the width MS-CIFS 2.2.3.1 gives it *)
Definition wf_header (h : smb_header) : Prop :=
  List.length (h_protocol h) = 4%nat /\ wf_bytes (h_protocol h) /\
  h_command h < 256 /\ h_status h < 2 ^ 32 /\ h_flags h < 256 /\ h_flags2 h < 65536 /\
  h_pidhigh h < 65536 /\ List.length (h_security h) = 8%nat /\ wf_bytes (h_security h) /\
  h_reserved h < 65536 /\ h_tid h < 65536 /\ h_pidlow h < 65536 /\ h_uid h < 65536 /\ h_mid h < 65536.

(* the dispatch check at one (code, reply flag) *)
Definition dispatch_ok_at (cmds : list cmd_desc) (rq rs : list (string * N * string)) (code : N) (reply : bool) : bool :=
  match factory_dispatch cmds rq rs code reply with
  | Some c => (cd_code c =? code) && Bool.eqb (cd_request c) (negb reply)
  | None => match table_lookup (if reply then rs else rq) code with None => true | Some _ => false end
  end.

Definition all_codes : list N := map N.of_nat (seq 0 256).
