(* C06 — SMB wire data types round-trip and consume exactly their own encoding.
   The property, independent of any particular type: decoding a value's own encoding, followed by
   arbitrary trailing bytes, gives back equal field values and reports exactly the length of the
   encoding.  Plus the representable domains of the types (MS-CIFS 2.2.1.x, MS-DTYP 2.3.3,
   MS-NLMP 2.2.2.10) and the reference arithmetic of the packed date.  Definitions only. *)
From Coq Require Import List NArith Lia Bool.
From Mant Require Import Prim.R Prim.Bytes Model.SmbTypes Model.SmbBlocks.
Import ListNotations.
Open Scope N_scope.

(* ------------------------------------------------------------------ *)
(* The property                                                        *)

(* for a pure encoder *)
Definition roundtrip {V} (dom : V -> Prop) (enc : V -> list N) (dec : list N -> R (V * N)) : Prop :=
  forall v suffix, dom v -> dec (enc v ++ suffix) = Ok (v, lenN (enc v)).

(* for a Marshal method that also updates derived fields of its receiver: [norm v] is the receiver
   after Marshal (equal field values; derived fields — lengths, the embedded string of a resume key,
   the space padding of a file name — in their canonical state) *)
Definition roundtrip_st {V} (dom : V -> Prop) (norm : V -> V)
           (enc : V -> R (list N * V)) (dec : list N -> R (V * N)) : Prop :=
  forall v suffix, dom v ->
    exists bs, enc v = Ok (bs, norm v) /\ dec (bs ++ suffix) = Ok (norm v, lenN bs).

Definition total {V} (dec : list N -> R V) : Prop := forall input, dec input <> Panic.

(* ------------------------------------------------------------------ *)
(* Domains                                                             *)

Definition nonzero (l : list N) : Prop := Forall (fun b => b <> 0) l.

(* SMB_STRING: the five buffer formats; at most 65535 bytes; the Length field states the length;
   no embedded NUL in the NUL-terminated formats 0x02 and 0x04 *)
Definition dom_string (s : smb_string) : Prop :=
  1 <= ss_fmt s <= 5 /\ ss_len s = lenN (ss_buf s) /\ lenN (ss_buf s) <= 65535 /\
  ((ss_fmt s = 2 \/ ss_fmt s = 4) -> nonzero (ss_buf s)).

(* the encoding (MS-CIFS 2.2.1.1.x): format byte; 16-bit little-endian length for the counted formats
   0x01, 0x03, 0x05; the bytes; a terminating NUL for 0x02, 0x03, 0x04 *)
Definition ref_string_bytes (s : smb_string) : list N :=
  let f := ss_fmt s in
  let buf := ss_buf s in
  if (f =? 1) || (f =? 5) then [f] ++ le16 (lenN buf) ++ buf
  else if f =? 3 then [f] ++ le16 (lenN buf) ++ buf ++ [0]
  else [f] ++ buf ++ [0].

(* OEM_STRING: as format 0x04 *)
Definition dom_oem (s : smb_string) : Prop :=
  ss_fmt s = 4 /\ ss_len s = lenN (ss_buf s) /\ lenN (ss_buf s) <= 65535 /\ nonzero (ss_buf s).

(* SMB_DATE: 7 bits of year from 1980, 4 bits of month, 5 bits of day: exactly 65536 values *)
Definition dom_date (d : smb_date) : Prop :=
  1980 <= d_year d <= 2107 /\ d_month d < 16 /\ d_day d < 32.
Definition date_ref_word (d : smb_date) : N := (d_year d - 1980) * 512 + d_month d * 32 + d_day d.
Definition date_ref_of_word (w : N) : smb_date := mk_date (1980 + w / 512) ((w / 32) mod 16) (w mod 32).

(* values of a fixed layout: one value per field, each fitting its width *)
Definition fld_ok (f : fld) (v : N) : Prop := v < 2 ^ (8 * N.of_nat (fst f)).
Definition dom_layout (fs : list fld) (vs : list N) : Prop := Forall2 fld_ok fs vs.

Definition dom_filetime (t : N * N) : Prop := fst t < 2 ^ 32 /\ snd t < 2 ^ 32.

(* SMB_RESUME_KEY: Reserved, ServerState[16], ClientState[4]; the embedded string is derived *)
Definition dom_rk (r : resume_key) : Prop :=
  length (rk_server r) = 16%nat /\ length (rk_client r) = 4%nat.
Definition norm_rk (r : resume_key) : resume_key :=
  mk_rk (mk_ss 5 21 (rk_stream r)) (rk_reserved r) (rk_server r) (rk_client r).

(* SMB_DIRECTORY_INFORMATION: file names of at most 12 bytes without NUL, equal modulo space padding *)
Definition dom_di (d : dir_info) : Prop :=
  dom_rk (di_rk d) /\ dom_filetime (di_time d) /\ dom_date (di_date d) /\ di_size d < 2 ^ 32 /\
  lenN (ss_buf (di_name d)) <= 12 /\ nonzero (ss_buf (di_name d)).
Definition norm_di (d : dir_info) : dir_info :=
  mk_di (norm_rk (di_rk d)) (di_attr d) (di_time d) (di_date d) (di_size d)
        (mk_ss 4 12 (pad12 (ss_buf (di_name d)))).

(* Parameters: WordCount states the number of 16-bit words, at most 255 *)
Definition dom_params (p : params) : Prop :=
  p_wc p = lenN (p_words p) /\ lenN (p_words p) <= 255 /\ Forall (fun w => w < 65536) (p_words p).

(* Data: ByteCount states the number of bytes, at most 65535 *)
Definition dom_data (d : datablk) : Prop :=
  d_bc d = lenN (d_bytes d) /\ lenN (d_bytes d) <= 65535.
