(* C11 specification: the NetBIOS session service SESSION MESSAGE packet of RFC 1002 section 4.3.1,
   and what "preserving message boundaries over a segmented / cut byte stream" means.
   Definitions only; independent of the Go code and of its model.

        0                   1                   2                   3
        0 1 2 3 4 5 6 7 8 9 0 1 2 3 4 5 6 7 8 9 0 1 2 3 4 5 6 7 8 9 0 1
       +-+-+-+-+-+-+-+-+-+-+-+-+-+-+-+-+-+-+-+-+-+-+-+-+-+-+-+-+-+-+-+-+
       |      TYPE     |     FLAGS     |            LENGTH             |
       +-+-+-+-+-+-+-+-+-+-+-+-+-+-+-+-+-+-+-+-+-+-+-+-+-+-+-+-+-+-+-+-+
   TYPE 0x00 = SESSION MESSAGE.  FLAGS: bits 0-6 reserved, must be zero; bit 7 (the least
   significant bit of the byte) is E, the length extension, "used as an additional, high-order bit
   on the LENGTH field": the trailer length is a 17-bit number, 0 .. 131071. *)
From Coq Require Import List Arith NArith Bool.
From Mant Require Import Prim.R Prim.Bytes.
Import ListNotations.
Open Scope N_scope.

Definition nbt_max_len : N := 131071.    (* 2^17 - 1 *)

Definition rfc_header (len : N) : list N :=
  [0 (* TYPE = SESSION MESSAGE *); (if len <? 65536 then 0 else 1) (* FLAGS = E *)]
  ++ be_bytes 2 (len mod 65536) (* LENGTH *).

(* The packet carrying payload p; None when p cannot be framed. *)
Definition rfc_frame (p : list N) : option (list N) :=
  if lenN p <=? nbt_max_len then Some (rfc_header (lenN p) ++ p) else None.

(* The RFC reading of a header: the trailer length it announces. *)
Definition rfc_header_length (h : list N) : option N :=
  match h with
  | [t; f; a; b] => if (t =? 0) && (f <? 2) then Some (f * 65536 + be_val [a; b]) else None
  | _ => None
  end.

Definition framable (p : list N) : Prop := lenN p <= nbt_max_len.

(* The byte stream produced by a sequence of payloads. *)
Fixpoint rfc_wire (ps : list (list N)) : list N :=
  match ps with
  | [] => []
  | p :: rest => rfc_header (lenN p) ++ p ++ rfc_wire rest
  end.

(* A segmentation of a byte string: any list of segments (empty ones allowed) whose
   concatenation is that byte string.  TCP may deliver the stream in any such way. *)
Definition segmentation_of (segs : list (list N)) (w : list N) : Prop := concat segs = w.

(* The payloads whose frames lie wholly inside the first k bytes of the stream. *)
Fixpoint whole_frames (k : nat) (ps : list (list N)) : list (list N) :=
  match ps with
  | [] => []
  | p :: rest =>
      if (4 + length p <=? k)%nat then p :: whole_frames (k - (4 + length p))%nat rest else []
  end.

(* What n successive receive calls must report when exactly the messages ms are completely
   available and the stream then ends: those messages, in order, then only errors. *)
Definition expected (n : nat) (ms : list (list N)) : list (R (list N)) :=
  firstn n (map Ok ms) ++ repeat Err (n - length ms)%nat.
