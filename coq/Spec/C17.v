(* C17 specification: the NBNS name table as an atomic map (RFC 1001 15.1, 15.2, 15.4; RFC 1002 5.1).

   The abstract state is a total function  name -> option arec.  An abstract record carries the
   name's type, its status, the SET of addresses that own it, one expiry instant and the refresh
   interval.  An address is the canonical 16-byte form of an IP (the 4-byte and the IPv4-in-IPv6
   form of one IPv4 address are the same address); a set of addresses is a duplicate-free list
   kept in order of arrival, with the usual membership / add / remove.

   The specification does not look at the implementation: it is written from the property
   statement.  Definitions only. *)
From Coq Require Import List NArith ZArith Bool.
From Mant Require Import Prim.Bytes.
Import ListNotations.

Definition aname := list N.
Definition addr := list N.

(* canonical form of an address: an IPv4 address is its IPv4-in-IPv6 form (RFC 4291 2.5.5.2) *)
Definition canon (a : list N) : addr :=
  if Nat.eqb (length a) 4 then [0; 0; 0; 0; 0; 0; 0; 0; 0; 0; 255; 255]%N ++ a else a.

Inductive ntype := Unique | Group.
Inductive nstatus := Active | Conflict.

Record arec := mkarec {
  a_type : ntype;
  a_status : nstatus;
  a_owners : list addr;   (* a set: see [set_mem], [set_add], [set_remove] and [arec_wf] *)
  a_expiry : Z;
  a_refresh : Z
}.

Definition amap := aname -> option arec.
Definition aempty : amap := fun _ => None.

Definition addr_eqb (a b : addr) : bool := bytes_eqb a b.
Definition set_mem (a : addr) (s : list addr) : bool := existsb (addr_eqb a) s.
Definition set_add (a : addr) (s : list addr) : list addr := if set_mem a s then s else s ++ [a].
Definition set_remove (a : addr) (s : list addr) : list addr := filter (fun b => negb (addr_eqb a b)) s.
Definition set_is_empty (s : list addr) : bool := match s with [] => true | _ => false end.

Definition aupd (m : amap) (n : aname) (r : option arec) : amap :=
  fun k => if bytes_eqb k n then r else m k.

Inductive aop :=
| ARegister (n : aname) (ty : ntype) (a : addr) (ttl : Z)
| AQuery (n : aname)
| ARelease (n : aname) (a : addr)
| ARefresh (n : aname) (a : addr)
| AMarkConflict (n : aname)
| ACleanExpired.

Inductive aout :=
| AOk
| AFail
| AOwners (s : list addr) (ty : ntype).

Definition is_group (t : ntype) : bool := match t with Group => true | Unique => false end.
Definition is_active (s : nstatus) : bool := match s with Active => true | Conflict => false end.

(* One atomic operation at clock reading [now].
   register: a free name is taken by the registrant (type, Active, {a}, now+ttl);
             a group name accepts a further group registrant (set add; a new member restarts
             the expiry with its own ttl, a member registering again changes nothing);
             every other combination (the name is unique, or a unique registration of a held
             name) is refused and changes nothing.
   query:    the owners and type of an ACTIVE name; anything else is "not found".
   release:  an owner leaves; the name disappears with its last owner; a non-owner is refused.
   refresh:  an owner restarts the expiry with the record's refresh interval.
   conflict: the name's status becomes Conflict.
   expiry:   every name whose expiry instant is strictly before [now] disappears. *)
Definition astep (now : Z) (m : amap) (o : aop) : amap * aout :=
  match o with
  | ARegister n ty a ttl =>
      match m n with
      | None => (aupd m n (Some (mkarec ty Active [a] (now + ttl)%Z ttl)), AOk)
      | Some r =>
          if is_group (a_type r) && is_group ty then
            if set_mem a (a_owners r) then (m, AOk)
            else (aupd m n (Some (mkarec Group (a_status r) (set_add a (a_owners r)) (now + ttl)%Z (a_refresh r))), AOk)
          else (m, AFail)
      end
  | AQuery n =>
      match m n with
      | Some r => if is_active (a_status r) then (m, AOwners (a_owners r) (a_type r)) else (m, AFail)
      | None => (m, AFail)
      end
  | ARelease n a =>
      match m n with
      | None => (m, AFail)
      | Some r =>
          if set_mem a (a_owners r) then
            let s := set_remove a (a_owners r) in
            if set_is_empty s then (aupd m n None, AOk)
            else (aupd m n (Some (mkarec (a_type r) (a_status r) s (a_expiry r) (a_refresh r))), AOk)
          else (m, AFail)
      end
  | ARefresh n a =>
      match m n with
      | None => (m, AFail)
      | Some r =>
          if set_mem a (a_owners r) then
            (aupd m n (Some (mkarec (a_type r) (a_status r) (a_owners r) (now + a_refresh r)%Z (a_refresh r))), AOk)
          else (m, AFail)
      end
  | AMarkConflict n =>
      match m n with
      | None => (m, AFail)
      | Some r => (aupd m n (Some (mkarec (a_type r) Conflict (a_owners r) (a_expiry r) (a_refresh r))), AOk)
      end
  | ACleanExpired =>
      (fun k => match m k with
                | Some r => if (a_expiry r <? now)%Z then None else Some r
                | None => None
                end, AOk)
  end.

Definition ahistory := list (Z * aop).

Fixpoint arun (m : amap) (h : ahistory) : amap * list aout :=
  match h with
  | [] => (m, [])
  | (now, o) :: h' =>
      let '(m1, x) := astep now m o in
      let '(m2, xs) := arun m1 h' in
      (m2, x :: xs)
  end.

(* Ownership invariants of the property text. *)
Definition arec_wf (r : arec) : Prop :=
  NoDup (a_owners r) /\
  match a_type r with
  | Unique => exists a, a_owners r = [a]      (* exactly one owner, one address *)
  | Group => a_owners r <> []                 (* no empty record *)
  end.

Definition amap_wf (m : amap) : Prop := forall n r, m n = Some r -> arec_wf r.

(* Two abstract maps are the same map. *)
Definition amap_eq (m1 m2 : amap) : Prop := forall n, m1 n = m2 n.
