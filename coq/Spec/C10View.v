(* C10: how the library's values are read as RFC 1001/1002 content, and the domain of the
   packet theorems (packets a caller can legitimately build).  Definitions only. *)
From Coq Require Import List NArith Bool.
From Mant Require Import Prim.Bytes Model.NbName Model.NbPacket Spec.C10.
Import ListNotations.
Open Scope N_scope.

(* ------------------------------------------------------------------ library value -> RFC content *)
(* the 16 bytes that the name stands for, and the labels of its scope identifier *)
Definition view_name (n : nbname) : rfc_name :=
  mk_rname (nb_pad (nb_name n)) (scope_labels (nb_scope n)).
Definition view_oname (o : option nbname) : rfc_name :=
  match o with Some n => view_name n | None => mk_rname [] [] end.
Definition view_question (q : nbquestion) : rfc_question :=
  mk_rq (view_oname (q_name q)) (q_type q) (q_class q).
Definition view_rr (r : nbrr) : rfc_rr :=
  mk_rrr (view_oname (rr_name r)) (rr_type r) (rr_class r) (rr_ttl r) (rr_rdata r).
Definition packet_view (p : nbpacket) : rfc_packet :=
  mk_rpkt (h_id (p_hdr p)) (h_flags (p_hdr p)) (map view_question (p_qs p))
          (map view_rr (p_an p)) (map view_rr (p_ns p)) (map view_rr (p_ar p)).

(* ------------------------------------------------------------------ RFC content -> library value *)
(* what the library hands back for RFC content: names without their padding, scope as dotted text,
   counts and RDLENGTH filled in *)
Definition dotted (labels : list (list N)) : list N :=
  match labels with
  | [] => []
  | l :: ls => l ++ flat_map (fun x => 46 :: x) ls
  end.
Definition lib_name (n : rfc_name) : nbname :=
  mk_nbname (strip_padding (rn_raw n)) (dotted (rn_scope n)).
Definition lib_question (q : rfc_question) : nbquestion :=
  mk_q (Some (lib_name (rq_name q))) (rq_type q) (rq_class q).
Definition lib_rr (r : rfc_rr) : nbrr :=
  mk_rr (Some (lib_name (rr_rname r))) (rr_rtype r) (rr_rclass r) (rr_rttl r) (lenN (rr_rrdata r)) (rr_rrdata r).
Definition lib_packet (p : rfc_packet) : nbpacket :=
  mk_pkt (mk_hdr (rp_id p) (rp_flags p) (lenN (rp_questions p)) (lenN (rp_answers p))
                 (lenN (rp_authority p)) (lenN (rp_additional p)))
         (map lib_question (rp_questions p)) (map lib_rr (rp_answers p))
         (map lib_rr (rp_authority p)) (map lib_rr (rp_additional p)).

(* ------------------------------------------------------------------ the domain of the packet theorems *)
(* a name the RFCs allow: <= 16 bytes, not starting with '*', scope a domain name, <= 255 octets on the wire *)
Definition nbname_ok (n : nbname) : Prop :=
  name_ok (nb_name n) /\ scope_ok (nb_scope n) /\ name_wire_octets (nb_scope n) <= 255.
Definition oname_ok (o : option nbname) : Prop :=
  match o with Some n => nbname_ok n | None => False end.
Definition question_ok (q : nbquestion) : Prop :=
  oname_ok (q_name q) /\ q_type q < 65536 /\ q_class q < 65536.
(* RDLength is a separate field of the Go struct: it must say the length of RData (0..65535) *)
Definition rr_ok (r : nbrr) : Prop :=
  oname_ok (rr_name r) /\ rr_type r < 65536 /\ rr_class r < 65536 /\ rr_ttl r < 4294967296
  /\ rr_rdlength r = lenN (rr_rdata r) /\ lenN (rr_rdata r) < 65536 /\ wf_bytes (rr_rdata r).
(* the header counts are separate fields too: they must say the section sizes (0..65535 each) *)
Definition packet_ok (p : nbpacket) : Prop :=
  h_id (p_hdr p) < 65536 /\ h_flags (p_hdr p) < 65536
  /\ h_qd (p_hdr p) = lenN (p_qs p) /\ h_an (p_hdr p) = lenN (p_an p)
  /\ h_ns (p_hdr p) = lenN (p_ns p) /\ h_ar (p_hdr p) = lenN (p_ar p)
  /\ lenN (p_qs p) < 65536 /\ lenN (p_an p) < 65536 /\ lenN (p_ns p) < 65536 /\ lenN (p_ar p) < 65536
  /\ Forall question_ok (p_qs p) /\ Forall rr_ok (p_an p) /\ Forall rr_ok (p_ns p) /\ Forall rr_ok (p_ar p).

(* what Unmarshal returns for the bytes of p: the same packet with each name as FirstLevelDecode
   returns it (finding C10/name-with-trailing-0x20: trailing 0x20 bytes are gone) *)
Definition read_back_name (n : nbname) : nbname := mk_nbname (strip_padding (nb_name n)) (nb_scope n).
Definition read_back_oname (o : option nbname) : option nbname := option_map read_back_name o.
Definition read_back_question (q : nbquestion) : nbquestion :=
  mk_q (read_back_oname (q_name q)) (q_type q) (q_class q).
Definition read_back_rr (r : nbrr) : nbrr :=
  mk_rr (read_back_oname (rr_name r)) (rr_type r) (rr_class r) (rr_ttl r) (rr_rdlength r) (rr_rdata r).
Definition read_back (p : nbpacket) : nbpacket :=
  mk_pkt (p_hdr p) (map read_back_question (p_qs p)) (map read_back_rr (p_an p))
         (map read_back_rr (p_ns p)) (map read_back_rr (p_ar p)).

(* packets outside the finding: no name ends in 0x20 *)
Definition no_trailing_space (n : list N) : Prop := last n 0 <> 32.
Definition oname_nts (o : option nbname) : Prop :=
  match o with Some n => no_trailing_space (nb_name n) | None => True end.
Definition packet_nts (p : nbpacket) : Prop :=
  Forall (fun q => oname_nts (q_name q)) (p_qs p)
  /\ Forall (fun r => oname_nts (rr_name r)) (p_an p ++ p_ns p ++ p_ar p).
