(* C12 specifications, as the standards state them.
   - RC4: the textbook algorithm, Algo/RC4.v [rc4 key data] (RFC 6229's reference description).
   - CMAC: NIST SP 800-38B / RFC 4493, Algo/CMAC.v [cmac_spec E bsz msg] for a block cipher E.
   - PKCS#7 padding: RFC 5652 section 6.3 — the input is padded at the trailing end with
     k - (lth mod k) octets all having value k - (lth mod k).
   - Group Policy Preferences cpassword: [MS-GPPREF] 2.2.1.1.4 — the UTF-16LE password, PKCS#7
     padded, AES-256-CBC under the published 32-byte key with a zero IV, base64 encoded.
   Definitions only. *)
From Coq Require Import List NArith Bool.
From Mant Require Import Prim.Bytes Algo.Word Algo.AES Algo.RC4 Algo.CMAC Algo.Base64 Algo.Utf16 Algo.Utf8 Algo.Hex.
Import ListNotations.
Open Scope N_scope.

(* ---- streaming: a history of calls on one cipher / hash object ---- *)

(* the bytes fed to a stream cipher or MAC by a sequence of calls *)
Definition stream_of (chunks : list (list N)) : list N := concat chunks.

(* ---- RFC 5652 6.3 ---- *)

(* the padding appended to a message of [lth] bytes for block size k *)
Definition pkcs7_padding (k lth : N) : list N :=
  let p := k - lth mod k in repeat p (N.to_nat p).

Definition pkcs7_pad_spec (k : N) (m : list N) : list N := m ++ pkcs7_padding k (lenN m).

(* [buf] is message [m] followed by p octets of value p, for some 1 <= p <= 255 *)
Definition pkcs7_padded (buf m : list N) : Prop :=
  exists p, 1 <= p <= 255 /\ buf = m ++ repeat p (N.to_nat p).

(* ---- [MS-GPPREF] 2.2.1.1.4 ---- *)

Definition ms_gpp_key : list N :=
  [0x4e; 0x99; 0x06; 0xe8; 0xfc; 0xb6; 0x6c; 0xc9; 0xfa; 0xf4; 0x93; 0x10; 0x62; 0x0f; 0xfe; 0xe8;
   0xf4; 0x96; 0xe8; 0x06; 0xcc; 0x05; 0x79; 0x90; 0x20; 0x9b; 0x09; 0xa4; 0x33; 0xb6; 0x6c; 0x1b].

(* the cpassword of a password given as Unicode code points *)
Definition gpp_cpassword (cps : list N) : list N :=
  b64_encode (aes_cbc_encrypt ms_gpp_key (zeros 16) (pkcs7_pad_spec 16 (utf16le_encode cps))).

(* the plaintext bytes (before UTF-16 decoding) behind a ciphertext, if the padding is valid *)
Definition gpp_plain_padded (ciphertext : list N) : list N :=
  aes_cbc_decrypt ms_gpp_key (zeros 16) ciphertext.

(* base64 as cpassword attributes are stored: trailing '=' removed *)
Fixpoint strip_b64_pad_rev (r : list N) : list N :=
  match r with
  | c :: r' => if c =? b64_pad then strip_b64_pad_rev r' else r
  | [] => []
  end.
Definition strip_b64_pad (s : list N) : list N := rev (strip_b64_pad_rev (rev s)).
