(* C20 specifications: what "standard semantics" means for the parsers and predicates of
   network/ip and windows/credentials.  Definitions only; nothing here refers to the models.
     IPv4 : RFC 791 (32-bit address, big-endian dotted quad), RFC 4632 (CIDR prefix a.b.c.d/len)
     IPv6 : RFC 4291 2.2 form 1 (eight 16-bit groups in hexadecimal, most significant first)
     white space : the Unicode White_Space property, UTF-8 encoded (RFC 3629)
     LM:NT : the "[LMHASH]:[NTHASH]" convention of pass-the-hash tools, 32 hex digits each *)
From Coq Require Import List NArith Bool.
From Mant Require Import Prim.Bytes Prim.Dec.
Import ListNotations.
Open Scope N_scope.

(* ------------------------------------------------------------------ IPv4 *)
Definition octet (x : N) : Prop := x < 256.

(* the 32-bit value of a.b.c.d *)
Definition ip4_value (a b c d : N) : N := a * 2 ^ 24 + b * 2 ^ 16 + c * 2 ^ 8 + d.

(* the netmask of a /len prefix: len leading one bits *)
Definition prefix_mask (len : N) : N := 2 ^ 32 - 2 ^ (32 - len).

(* x belongs to net/len  iff  the len leading bits of x and net agree *)
Definition same_prefix (len x net : N) : bool := N.shiftr x (32 - len) =? N.shiftr net (32 - len).

(* the same thing in mask arithmetic *)
Definition in_subnet_mask (len x net : N) : bool :=
  N.land x (prefix_mask len) =? N.land net (prefix_mask len).

(* the network address of x/len: host bits cleared *)
Definition network_of (len x : N) : N := N.shiftl (N.shiftr x (32 - len)) (32 - len).

Definition between (lo x hi : N) : bool := (lo <=? x) && (x <=? hi).

(* "a.b.c.d/len" in decimal without padding *)
Definition cidr_text (a b c d len : N) : list N :=
  print_dec a ++ [46] ++ print_dec b ++ [46] ++ print_dec c ++ [46] ++ print_dec d ++ [47] ++ print_dec len.

(* ------------------------------------------------------------------ IPv6 *)
Definition groups_ok (gs : list N) : Prop := length gs = 8%nat /\ Forall (fun x => x < 65536) gs.

(* the 128-bit value of the eight groups *)
Definition ip6_value (gs : list N) : N := fold_left (fun acc x => acc * 65536 + x) gs 0.

(* ------------------------------------------------------------------ TCP ports *)
Definition port (p : N) : Prop := p < 65536.

(* ------------------------------------------------------------------ white space *)
Definition white_space_cps : list N :=
  [ 9; 10; 11; 12; 13; 32; 133; 160; 5760;
    8192; 8193; 8194; 8195; 8196; 8197; 8198; 8199; 8200; 8201; 8202;
    8232; 8233; 8239; 8287; 12288 ].

(* RFC 3629 *)
Definition utf8_encode (cp : N) : list N :=
  if cp <? 128 then [cp]
  else if cp <? 2048 then [192 + cp / 64; 128 + cp mod 64]
  else if cp <? 65536 then [224 + cp / 4096; 128 + (cp / 64) mod 64; 128 + cp mod 64]
  else [240 + cp / 262144; 128 + (cp / 4096) mod 64; 128 + (cp / 64) mod 64; 128 + cp mod 64].

(* a (possibly empty) run of white-space characters *)
Definition white_space (w : list N) : Prop :=
  exists cps, Forall (fun c => In c white_space_cps) cps /\ w = flat_map utf8_encode cps.

(* ------------------------------------------------------------------ LM:NT hash specification *)
Definition hexdigit (c : N) : bool :=
  ((48 <=? c) && (c <=? 57)) || ((97 <=? c) && (c <=? 102)) || ((65 <=? c) && (c <=? 70)).

Definition hex32 (h : list N) : Prop := length h = 32%nat /\ forallb hexdigit h = true.

(* [hash_spec text lm nt]: text denotes the LM hash lm and the NT hash nt ([] = absent).
   A lone hash is the NT hash (pinned by the repository's TestParseLMNTHashes "Valid NT Hash Only"). *)
Inductive hash_spec : list N -> list N -> list N -> Prop :=
| HS_none : hash_spec [] [] []
| HS_nt h : hex32 h -> hash_spec h [] h
| HS_colon_nt h : hex32 h -> hash_spec (58 :: h) [] h
| HS_lm_nt l h : hex32 l -> hex32 h -> hash_spec (l ++ 58 :: h) l h.
