(* C13 specifications, written independently of the models.
   RFC 4122 section 4.1.2 (layout of a UUID, all fields most significant byte first) and
   MS-DTYP 2.3.4.2 (GUID packet representation) / 2.3.4.3 (curly braced string) together with the
   five .NET format specifiers N D B P X.  Definitions only. *)
From Coq Require Import List NArith Lia Bool.
From Mant Require Import Prim.Bytes Prim.Dec Prim.HexNum.
Import ListNotations.
Open Scope N_scope.

Definition octets (bs : list N) (lo n : nat) : list N := firstn n (skipn lo bs).
Definition octet (bs : list N) (i : nat) : N := nth i bs 0.

(* ---------------- RFC 4122 *)

(*  0..3 time_low | 4..5 time_mid | 6..7 time_hi_and_version | 8 clk_seq_hi_res | 9 clk_seq_low | 10..15 node *)
Definition rfc_time_low (bs : list N) : N := be_val (octets bs 0 4).
Definition rfc_time_mid (bs : list N) : N := be_val (octets bs 4 2).
Definition rfc_time_hi_and_version (bs : list N) : N := be_val (octets bs 6 2).
Definition rfc_version (bs : list N) : N := rfc_time_hi_and_version bs / 2 ^ 12.
(* the 60-bit timestamp: 100 ns intervals since 1582-10-15 *)
Definition rfc_timestamp (bs : list N) : N :=
  rfc_time_low bs + 2 ^ 32 * rfc_time_mid bs + 2 ^ 48 * (rfc_time_hi_and_version bs mod 2 ^ 12).
(* the 14-bit clock sequence: low 6 bits of clk_seq_hi_res, then clk_seq_low *)
Definition rfc_clock_seq (bs : list N) : N := 256 * (octet bs 8 mod 64) + octet bs 9.
(* the variant of this RFC is the bit pattern 10x in the top of clk_seq_hi_res *)
Definition rfc_variant_4122 (bs : list N) : bool := octet bs 8 / 64 =? 2.
Definition rfc_node (bs : list N) : list N := octets bs 10 6.

(* section 4.2.2: building a version-1 UUID from a timestamp, a 14-bit clock sequence and a node *)
Definition rfc_v1_encode (ts cs : N) (node : list N) : list N :=
  be_bytes 4 (ts mod 2 ^ 32) ++ be_bytes 2 ((ts / 2 ^ 32) mod 2 ^ 16) ++ be_bytes 2 (1 * 2 ^ 12 + ts / 2 ^ 48)
  ++ [128 + cs / 256; cs mod 256] ++ node.

(* section 3: the string representation, lower case on output *)
Definition rfc_text (bs : list N) : list N :=
  hex_of_bytes false (octets bs 0 4) ++ [45] ++ hex_of_bytes false (octets bs 4 2) ++ [45] ++
  hex_of_bytes false (octets bs 6 2) ++ [45] ++ hex_of_bytes false (octets bs 8 2) ++ [45] ++
  hex_of_bytes false (octets bs 10 6).

(* 32 hexadecimal digits regrouped 8-4-4-4-12 *)
Definition hyphenate (h : list N) : list N :=
  octets h 0 8 ++ [45] ++ octets h 8 4 ++ [45] ++ octets h 12 4 ++ [45] ++ octets h 16 4 ++ [45] ++ octets h 20 12.

(* ---------------- MS-DTYP 2.3.4 *)

Record dtyp_guid : Type := mkDtyp { Data1 : N; Data2 : N; Data3 : N; Data4 : list N (* 8 bytes *) }.

Definition dtyp_ok (g : dtyp_guid) : Prop :=
  Data1 g < 2 ^ 32 /\ Data2 g < 2 ^ 16 /\ Data3 g < 2 ^ 16 /\ length (Data4 g) = 8%nat /\ wf_bytes (Data4 g).

(* 2.3.4.2: Data1, Data2, Data3 little-endian, Data4 as is *)
Definition dtyp_encode (g : dtyp_guid) : list N :=
  le_bytes 4 (Data1 g) ++ le_bytes 2 (Data2 g) ++ le_bytes 2 (Data3 g) ++ Data4 g.
Definition dtyp_decode (bs : list N) : dtyp_guid :=
  mkDtyp (le_val (octets bs 0 4)) (le_val (octets bs 4 2)) (le_val (octets bs 6 2)) (octets bs 8 8).

(* the 32 hexadecimal digits of a GUID in reading order *)
Definition dtyp_hex (g : dtyp_guid) : list N :=
  hex_fix 8 (Data1 g) ++ hex_fix 4 (Data2 g) ++ hex_fix 4 (Data3 g) ++ hex_of_bytes false (Data4 g).

(* Guid.ToString format specifiers *)
Definition fmt_n (h : list N) : list N := h.
Definition fmt_d (h : list N) : list N := hyphenate h.
Definition fmt_b (h : list N) : list N := [123] ++ hyphenate h ++ [125].     (* 2.3.4.3 *)
Definition fmt_p (h : list N) : list N := [40] ++ hyphenate h ++ [41].
Definition fmt_x (h : list N) : list N :=
  let ox := [48; 120] in
  [123] ++ ox ++ octets h 0 8 ++ [44] ++ ox ++ octets h 8 4 ++ [44] ++ ox ++ octets h 12 4 ++ [44; 123]
  ++ ox ++ octets h 16 2 ++ [44] ++ ox ++ octets h 18 2 ++ [44] ++ ox ++ octets h 20 2 ++ [44] ++ ox ++ octets h 22 2
  ++ [44] ++ ox ++ octets h 24 2 ++ [44] ++ ox ++ octets h 26 2 ++ [44] ++ ox ++ octets h 28 2 ++ [44] ++ ox ++ octets h 30 2
  ++ [125; 125].

Definition is_hex32 (h : list N) : Prop := length h = 32%nat /\ forallb is_lhex h = true.
