(* C02 — what MS-NLMP says an NTLMv1 / NTLMv2 response is, written as an INDEPENDENT VERIFIER: the party
   that knows the password (or the hash) and the challenge it sent, and receives a response.
   Definitions only.  The primitives (DES, MD4, MD5, HMAC, UTF-16) are the reference algorithms of
   coq/Algo, written from FIPS 46-3 / RFC 1320 / RFC 1321 / RFC 2104 / RFC 2781.

   Strings are Go strings (byte lists); UNICODE(s) is the UTF-16LE encoding of the text the string denotes
   (go_utf16le: RFC 3629 decoding followed by RFC 2781 encoding on every valid UTF-8 string —
   Proofs/C02Text.v).  Upper-casing is a parameter: every theorem holds for any upper-casing function. *)
From Coq Require Import List Arith NArith Bool.
From Mant Require Import Prim.R Prim.Bytes Prim.Dec Prim.C02Text Algo.MD4 Algo.MD5 Algo.HMAC Algo.DES.
Import ListNotations.
Open Scope N_scope.

(* ---- MS-NLMP 6 (Appendix A): DESL(K, D) ----
   DESL(K, D) = ConcatenationOf( DES(K[0..6], D), DES(K[7..13], D), DES(ConcatenationOf(K[14..15], Z(5)), D) )
   where DES(K, D) uses the 7-byte K expanded to 8 bytes with odd parity (Algo.DES.str_to_key). *)
Definition desl (k d : list N) : list N :=
  des7_encrypt (firstn 7 k) d
  ++ des7_encrypt (firstn 7 (skipn 7 k)) d
  ++ des7_encrypt (skipn 14 k ++ [0; 0; 0; 0; 0]) d.

(* The contract of the NTLMv1 methods on fields of any length: a response is produced exactly for a 16-byte
   hash (given, or NTOWFv1 of the password when none is given) and an 8-byte challenge; anything else is an
   error, never a panic. *)
Definition ntowfv1_of (password : list N) : list N := md4 (go_utf16le password).
Definition hash_outcome (nthash password sc : list N) : R (list N) :=
  if (lenN nthash =? 0) && (lenN password =? 0) then Err else
  let h := if lenN nthash =? 0 then ntowfv1_of password else nthash in
  if negb (lenN h =? 16) then Err else
  if negb (lenN sc =? 8) then Err else Ok (desl h sc).
Definition nt_response_outcome (nthash sc : list N) : R (list N) :=
  if negb (lenN nthash =? 16) then Err else
  if negb (lenN sc =? 8) then Err else Ok (desl nthash sc).

(* a byte has odd parity: an odd number of its 8 bits are set *)
Definition bit_count8 (b : N) : nat :=
  length (filter (fun i => N.testbit b i) [0; 1; 2; 3; 4; 5; 6; 7]).
Definition odd_parity (b : N) : bool := Nat.odd (bit_count8 b).

(* the number of 1 bits of a non-negative integer *)
Fixpoint pos_ones (p : positive) : nat :=
  match p with xH => 1 | xO q => pos_ones q | xI q => S (pos_ones q) end.
Definition count_ones (n : N) : nat := match n with N0 => O | Npos p => pos_ones p end.

(* the 7 key bits of group g (0..7) of a 7-byte key, most significant first: bits 7g .. 7g+6 of the 56 *)
Definition key_group (k7 : list N) (g : nat) : list bool := firstn 7 (skipn (7 * g) (bytes_to_bits k7)).
(* the 7 high bits of a byte *)
Definition high7 (b : N) : list bool := firstn 7 (byte_bits b).

(* ---- MS-NLMP 3.3.1 / 3.3.2 ---- *)
Definition unicode (s : list N) : list N := go_utf16le s.

(* NTOWFv1(Passwd) = MD4(UNICODE(Passwd)) *)
Definition ntowfv1 (password : list N) : list N := md4 (unicode password).

Section Upper.
Variable upper : list N -> list N.

(* NTOWFv2(Passwd, User, UserDom) = HMAC_MD5(MD4(UNICODE(Passwd)), UNICODE(ConcatenationOf(Uppercase(User), UserDom))) *)
Definition ntowfv2 (password user domain : list N) : list N :=
  hmac_md5 (ntowfv1 password) (unicode (upper user ++ domain)).

(* ---- MS-NLMP 2.2.2.1 AV_PAIR, 2.2.2.7 NTLMv2_CLIENT_CHALLENGE ---- *)
(* Reads AV_PAIRs (AvId, AvLen, Value) up to and including MsvAvEOL (AvId 0, AvLen 0); returns what follows. *)
Fixpoint av_list_rest (fuel : nat) (b : list N) : option (list N) :=
  match fuel with
  | O => None
  | S f =>
      match b with
      | i0 :: i1 :: l0 :: l1 :: r =>
          let id := i0 + 256 * i1 in
          let len := N.to_nat (l0 + 256 * l1) in
          if (length r <? len)%nat then None
          else if id =? 0 then (if (len =? 0)%nat then Some r else None)
          else av_list_rest f (skipn len r)
      | _ => None
      end
  end.
Definition av_pairs_rest (b : list N) : option (list N) := av_list_rest (length b) b.

(* a byte string that is exactly one AV_PAIR list (TargetInfo of a CHALLENGE message) *)
Definition target_info_wf (ti : list N) : bool :=
  match av_pairs_rest ti with Some [] => true | _ => false end.

(* RespType 1, HiRespType 1, Reserved1 (2), Reserved2 (4), TimeStamp (8), ChallengeFromClient (8),
   Reserved3 (4), AvPairs ended by MsvAvEOL; MS-NLMP 3.3.2 computes the response over this followed by Z(4),
   so four trailing zero bytes are accepted *)
Definition blob_wf (blob cc : list N) : bool :=
  match blob with
  | 1 :: 1 :: 0 :: 0 :: 0 :: 0 :: 0 :: 0 :: _ :: _ :: _ :: _ :: _ :: _ :: _ :: _ :: r =>
      bytes_eqb (firstn 8 r) cc && (8 <=? length r)%nat &&
      match skipn 8 r with
      | 0 :: 0 :: 0 :: 0 :: avs =>
          match av_pairs_rest avs with
          | Some [] => true
          | Some [0; 0; 0; 0] => true
          | _ => false
          end
      | _ => false
      end
  | _ => false
  end.

(* The server side of NTLMv2 authentication (MS-NLMP 3.3.2): NTProofStr = HMAC_MD5(ResponseKeyNT,
   ConcatenationOf(ServerChallenge, temp)), response = NTProofStr ++ temp; temp is the client blob and
   carries the client challenge. *)
Definition verify_v2 (password user domain sc resp cc : list N) : bool :=
  let key := ntowfv2 password user domain in
  bytes_eqb (firstn 16 resp) (hmac_md5 key (sc ++ skipn 16 resp)) && blob_wf (skipn 16 resp) cc.

(* LMv2: HMAC_MD5(ResponseKeyLM, ServerChallenge ++ ClientChallenge) ++ ClientChallenge (ResponseKeyLM = NTOWFv2) *)
Definition verify_lmv2 (password user domain sc resp : list N) : bool :=
  let key := ntowfv2 password user domain in
  (length resp =? 24)%nat && bytes_eqb (firstn 16 resp) (hmac_md5 key (sc ++ skipn 16 resp)).

(* ---- hashcat -m 5600 (NetNTLMv2): user::domain:ServerChallenge:NTProofStr:blob, split on ':' ---- *)
Fixpoint split_colon (s : list N) : list (list N) :=
  match s with
  | [] => [[]]
  | x :: r =>
      if x =? 58 then [] :: split_colon r
      else match split_colon r with
           | p :: ps => (x :: p) :: ps
           | [] => [[x]]
           end
  end.

Definition hashcat_verify (password line cc : list N) : bool :=
  match split_colon line with
  | [user; []; domain; c; p; b] =>
      (length c =? 16)%nat && (length p =? 32)%nat &&
      match unhex c, unhex p, unhex b with
      | Some sc, Some proof, Some blob => verify_v2 password user domain sc (proof ++ blob) cc
      | _, _, _ => false
      end
  | _ => false
  end.

End Upper.
