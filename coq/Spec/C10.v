(* C10 specification, written from the standards and independent of the library's code:
   - RFC 1001 section 14.1: first-level encoding of NetBIOS names (half-ASCII);
   - RFC 1001 section 14 / RFC 883: scope identifiers are domain names;
   - RFC 1002 section 4.2: name service packets (RFC 883/1035 message layout, names as
     label sequences ending in the root label, compressed-name pointers allowed).
   Definitions only. *)
From Coq Require Import List NArith Bool.
From Mant Require Import Prim.Bytes.
Import ListNotations.
Open Scope N_scope.

(* ------------------------------------------------------------------ RFC 1001 14.1 *)

(* "Each half-octet of the NetBIOS name is encoded into one byte of the 32 byte field.  The
   first half octet is encoded into the first byte, the second half-octet into the second
   byte ... the half-octet is treated as a value and added to the value of ASCII 'A'". *)
Definition half_ascii (b : N) : list N := [65 + b / 16; 65 + b mod 16].

(* the name is padded with spaces to 16 bytes *)
Definition nb_pad (name : list N) : list N := name ++ repeatN 32 (16 - length name).

(* the 32-character form, followed by "." and the scope identifier when there is one *)
Definition rfc1001_encode (name scope : list N) : list N :=
  flat_map half_ascii (nb_pad name) ++ match scope with [] => [] | _ => 46 :: scope end.

(* the inverse mapping on one pair of characters 'A'..'P' *)
Definition un_half_ascii (c1 c2 : N) : option N :=
  if (65 <=? c1) && (c1 <=? 80) && (65 <=? c2) && (c2 <=? 80)
  then Some ((c1 - 65) * 16 + (c2 - 65)) else None.

Fixpoint rfc1001_decode32 (l : list N) : option (list N) :=
  match l with
  | [] => Some []
  | c1 :: c2 :: r =>
      match un_half_ascii c1 c2, rfc1001_decode32 r with
      | Some b, Some bs => Some (b :: bs)
      | _, _ => None
      end
  | _ => None
  end.

(* RFC 1001 5.2: names are 16 bytes and "may not start with an asterisk" *)
Definition name_ok (name : list N) : Prop :=
  wf_bytes name /\ (length name <= 16)%nat /\ hd 0 name <> 42.

(* what survives of a name when trailing 0x20 bytes cannot be told from padding *)
Definition strip_padding (name : list N) : list N :=
  rev ((fix drop (l : list N) : list N :=
          match l with c :: r => if c =? 32 then drop r else l | [] => [] end) (rev name)).

(* ------------------------------------------------------------------ scope identifiers *)

(* the text of a scope identifier read as labels separated by "."; "" = no scope, no labels *)
Fixpoint scope_split (cur : list N) (s : list N) : list (list N) :=
  match s with
  | [] => [rev cur]
  | c :: r => if c =? 46 then rev cur :: scope_split [] r else scope_split (c :: cur) r
  end.
Definition scope_labels (s : list N) : list (list N) :=
  match s with [] => [] | _ => scope_split [] s end.

Definition letter_digit_hyphen (c : N) : Prop :=
  (97 <= c <= 122) \/ (65 <= c <= 90) \/ (48 <= c <= 57) \/ c = 45.

(* RFC 883 / 1035 2.3.1 label (digits allowed first, RFC 1123 2.1): 1..63 letters, digits and
   hyphens, the hyphen neither first nor last *)
Definition rfc_label (l : list N) : Prop :=
  l <> [] /\ (length l <= 63)%nat /\ Forall letter_digit_hyphen l /\ hd 0 l <> 45 /\ last l 0 <> 45.

Definition scope_ok (s : list N) : Prop := Forall rfc_label (scope_labels s).

(* octets of the name on the wire: 1 + 32 for the first label, 1 + |label| per scope label
   (= 1 + |s| for a non-empty scope text), 1 for the root label; RFC 1002 4.2.1.2: <= 255 *)
Definition name_wire_octets (scope : list N) : N :=
  34 + match scope with [] => 0 | _ => 1 + lenN scope end.

(* ------------------------------------------------------------------ RFC 1002 4.2 packets *)

Record rfc_name := mk_rname { rn_raw : list N (* the 16 bytes *); rn_scope : list (list N) }.
Record rfc_question := mk_rq { rq_name : rfc_name; rq_type : N; rq_class : N }.
Record rfc_rr := mk_rrr { rr_rname : rfc_name; rr_rtype : N; rr_rclass : N; rr_rttl : N; rr_rrdata : list N }.
Record rfc_packet := mk_rpkt {
  rp_id : N; rp_flags : N;   (* NAME_TRN_ID; R, OPCODE, NM_FLAGS, RCODE as one 16-bit word *)
  rp_questions : list rfc_question;
  rp_answers : list rfc_rr; rp_authority : list rfc_rr; rp_additional : list rfc_rr }.

(* --- the writer (no name compression) *)
Definition rfc_label_wire (l : list N) : list N := lenN l :: l.
Definition rfc_name_wire (n : rfc_name) : list N :=
  flat_map rfc_label_wire (flat_map half_ascii (rn_raw n) :: rn_scope n) ++ [0].
Definition rfc_question_wire (q : rfc_question) : list N :=
  rfc_name_wire (rq_name q) ++ be_bytes 2 (rq_type q) ++ be_bytes 2 (rq_class q).
Definition rfc_rr_wire (r : rfc_rr) : list N :=
  rfc_name_wire (rr_rname r) ++ be_bytes 2 (rr_rtype r) ++ be_bytes 2 (rr_rclass r)
  ++ be_bytes 4 (rr_rttl r) ++ be_bytes 2 (lenN (rr_rrdata r)) ++ rr_rrdata r.
Definition rfc1002_encode (p : rfc_packet) : list N :=
  be_bytes 2 (rp_id p) ++ be_bytes 2 (rp_flags p)
  ++ be_bytes 2 (lenN (rp_questions p)) ++ be_bytes 2 (lenN (rp_answers p))
  ++ be_bytes 2 (lenN (rp_authority p)) ++ be_bytes 2 (lenN (rp_additional p))
  ++ flat_map rfc_question_wire (rp_questions p) ++ flat_map rfc_rr_wire (rp_answers p)
  ++ flat_map rfc_rr_wire (rp_authority p) ++ flat_map rfc_rr_wire (rp_additional p).

(* --- the reader.  [msg] is the whole message (compressed-name pointers are offsets into it),
   [rest] the unread part; results carry the new unread part. *)
Fixpoint rfc_labels (fuel : nat) (msg rest : list N) : option (list (list N) * list N) :=
  match fuel with
  | O => None
  | S f =>
      match rest with
      | [] => None
      | c :: r =>
          if c =? 0 then Some ([], r)
          else if c <? 64 then
            if lenN r <? c then None
            else match rfc_labels f msg (skipn (N.to_nat c) r) with
                 | Some (ls, r') => Some (firstn (N.to_nat c) r :: ls, r')
                 | None => None
                 end
          else if 192 <=? c then
            match r with
            | [] => None
            | c2 :: r2 =>
                match rfc_labels f msg (skipn (N.to_nat ((c - 192) * 256 + c2)) msg) with
                | Some (ls, _) => Some (ls, r2)
                | None => None
                end
            end
          else None (* label types 01 and 10 are reserved *)
      end
  end.

Definition rfc_read_name (msg rest : list N) : option (rfc_name * list N) :=
  match rfc_labels (S (length msg)) msg rest with
  | Some (first :: scope, r) =>
      if lenN first =? 32 then
        match rfc1001_decode32 first with
        | Some raw => Some (mk_rname raw scope, r)
        | None => None
        end
      else None
  | _ => None
  end.

Definition rfc_u16 (l : list N) : option (N * list N) :=
  match l with a :: b :: r => Some (a * 256 + b, r) | _ => None end.
Definition rfc_u32 (l : list N) : option (N * list N) :=
  match l with a :: b :: c :: d :: r => Some (((a * 256 + b) * 256 + c) * 256 + d, r) | _ => None end.

Fixpoint rfc_read_questions (n : nat) (msg rest : list N) : option (list rfc_question * list N) :=
  match n with
  | O => Some ([], rest)
  | S n' =>
      match rfc_read_name msg rest with
      | Some (nm, r1) =>
          match rfc_u16 r1 with
          | Some (ty, r2) =>
              match rfc_u16 r2 with
              | Some (cl, r3) =>
                  match rfc_read_questions n' msg r3 with
                  | Some (qs, r4) => Some (mk_rq nm ty cl :: qs, r4)
                  | None => None
                  end
              | None => None
              end
          | None => None
          end
      | None => None
      end
  end.

Fixpoint rfc_read_rrs (n : nat) (msg rest : list N) : option (list rfc_rr * list N) :=
  match n with
  | O => Some ([], rest)
  | S n' =>
      match rfc_read_name msg rest with
      | Some (nm, r1) =>
          match rfc_u16 r1 with
          | Some (ty, r2) =>
              match rfc_u16 r2 with
              | Some (cl, r3) =>
                  match rfc_u32 r3 with
                  | Some (ttl, r4) =>
                      match rfc_u16 r4 with
                      | Some (rdl, r5) =>
                          if lenN r5 <? rdl then None
                          else match rfc_read_rrs n' msg (skipn (N.to_nat rdl) r5) with
                               | Some (rrs, r6) => Some (mk_rrr nm ty cl ttl (firstn (N.to_nat rdl) r5) :: rrs, r6)
                               | None => None
                               end
                      | None => None
                      end
                  | None => None
                  end
              | None => None
              end
          | None => None
          end
      | None => None
      end
  end.

(* the packet and the bytes left after the last record *)
Definition rfc1002_parse (msg : list N) : option (rfc_packet * list N) :=
  match rfc_u16 msg with
  | Some (id, r1) =>
  match rfc_u16 r1 with
  | Some (fl, r2) =>
  match rfc_u16 r2 with
  | Some (qd, r3) =>
  match rfc_u16 r3 with
  | Some (an, r4) =>
  match rfc_u16 r4 with
  | Some (ns, r5) =>
  match rfc_u16 r5 with
  | Some (ar, r6) =>
      match rfc_read_questions (N.to_nat qd) msg r6 with
      | Some (qs, r7) =>
      match rfc_read_rrs (N.to_nat an) msg r7 with
      | Some (ans, r8) =>
      match rfc_read_rrs (N.to_nat ns) msg r8 with
      | Some (nss, r9) =>
      match rfc_read_rrs (N.to_nat ar) msg r9 with
      | Some (ars, r10) => Some (mk_rpkt id fl qs ans nss ars, r10)
      | None => None end
      | None => None end
      | None => None end
      | None => None end
  | None => None end
  | None => None end
  | None => None end
  | None => None end
  | None => None end
  | None => None end.

(* a packet whose fields fit their wire widths *)
Definition rfc_name_wf (n : rfc_name) : Prop :=
  wf_bytes (rn_raw n) /\ length (rn_raw n) = 16%nat
  /\ Forall (fun l => l <> [] /\ (length l <= 63)%nat) (rn_scope n).
Definition rfc_question_wf (q : rfc_question) : Prop :=
  rfc_name_wf (rq_name q) /\ rq_type q < 65536 /\ rq_class q < 65536.
Definition rfc_rr_wf (r : rfc_rr) : Prop :=
  rfc_name_wf (rr_rname r) /\ rr_rtype r < 65536 /\ rr_rclass r < 65536 /\ rr_rttl r < 4294967296
  /\ lenN (rr_rrdata r) < 65536 /\ wf_bytes (rr_rrdata r).
Definition rfc_packet_wf (p : rfc_packet) : Prop :=
  rp_id p < 65536 /\ rp_flags p < 65536
  /\ lenN (rp_questions p) < 65536 /\ lenN (rp_answers p) < 65536
  /\ lenN (rp_authority p) < 65536 /\ lenN (rp_additional p) < 65536
  /\ Forall rfc_question_wf (rp_questions p) /\ Forall rfc_rr_wf (rp_answers p)
  /\ Forall rfc_rr_wf (rp_authority p) /\ Forall rfc_rr_wf (rp_additional p).
