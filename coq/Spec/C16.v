(* C16 specifications: MS-DTYP 2.4.2.2 binary SID and its 2.4.2.1 string form; DNs as Active
   Directory renders them (RFC 4514 escaping of special characters by a backslash). *)
From Coq Require Import List NArith Lia Bool.
From Mant Require Import Prim.Bytes Prim.Dec.
Import ListNotations.
Open Scope N_scope.

(* SID: Revision(1) SubAuthorityCount(1) IdentifierAuthority(6, big-endian) SubAuthority[](4 LE each) *)
Definition sid_encode (auth : N) (subs : list N) : list N :=
  [1; lenN subs] ++ be_bytes 6 auth ++ concat (map (le_bytes 4) subs).

Definition sid_string (auth : N) (subs : list N) : list N :=
  [83; 45; 49; 45] (* "S-1-" *) ++ print_dec auth ++ concat (map (fun s => 45 :: print_dec s) subs).

(* DNs *)
Definition rdn := (list N * list N)%type. (* attribute type, raw value *)

Definition special (c : N) : bool :=
  (c =? 44) || (c =? 92) || (c =? 43) || (c =? 34) || (c =? 60) || (c =? 62) || (c =? 59) || (c =? 61).

(* [hx c]: the renderer writes byte c as a backslash and two upper-case hexadecimal digits (Active
   Directory does so for line feed and carriage return, "\0A" and "\0D"; RFC 4514 2.4 allows it for any
   byte).  The theorems hold for every choice of [hx]. *)
Definition hexdigit (n : N) : N := if n <? 10 then 48 + n else 55 + n.

Definition escape_hx (hx : N -> bool) (v : list N) : list N :=
  flat_map (fun c => if hx c then [92; hexdigit (c / 16); hexdigit (c mod 16)]
                     else if special c then [92; c] else [c]) v.

Definition escape (v : list N) : list N := escape_hx (fun _ => false) v.

Fixpoint join (sep : list N) (parts : list (list N)) : list N :=
  match parts with
  | [] => []
  | [p] => p
  | p :: rest => p ++ sep ++ join sep rest
  end.

Definition render_rdn_hx hx (r : rdn) : list N := fst r ++ [61] ++ escape_hx hx (snd r).
Definition render_dn_hx hx (rs : list rdn) : list N := join [44] (map (render_rdn_hx hx) rs).
Definition render_rdn (r : rdn) : list N := render_rdn_hx (fun _ => false) r.
Definition render_dn (rs : list rdn) : list N := render_dn_hx (fun _ => false) rs.

Definition is_dc (r : rdn) : bool := bytes_eqb (fst r) [68; 67].
Definition plain (v : list N) : bool := forallb (fun c => negb (special c)) v.
Definition nohex (hx : N -> bool) (v : list N) : bool := forallb (fun c => negb (hx c)) v.

(* attribute types contain none of the special characters; DC values are DNS labels (no special and no
   hex-escaped byte) *)
Definition dn_ok_hx hx (rs : list rdn) : Prop :=
  Forall (fun r => plain (fst r) = true /\ (is_dc r = true -> plain (snd r) = true /\ nohex hx (snd r) = true)) rs.

Definition dn_ok (rs : list rdn) : Prop :=
  Forall (fun r => plain (fst r) = true /\ (is_dc r = true -> plain (snd r) = true)) rs.

Definition dns_domain (rs : list rdn) : list N := join [46] (map snd (filter is_dc rs)).
