(* C15 — Windows time and duration conversions are exact, inverse and overflow-free.
   The reference: the conversions as plain arithmetic in unbounded Z (floor division), with the
   epochs DERIVED from the proleptic Gregorian calendar rather than copied from the source.
   Definitions only.

   A tick is 100 ns.  An instant is (unix second, nanosecond within the second), the pair a
   Go time.Time is observed through; it is valid when 0 <= nanosecond < 10^9.
   [ticks_of_time epoch t] is the number of whole ticks from the instant lying [epoch] ticks
   before 1970-01-01T00:00:00Z up to t; [time_of_ticks epoch n] the instant n ticks after it. *)
From Coq Require Import List NArith ZArith Bool.
From Mant Require Import Prim.Dec.
Import ListNotations.
Open Scope Z_scope.

Definition instant : Type := (Z * Z)%type.
Definition valid_time (t : instant) : Prop := 0 <= snd t < 10 ^ 9.

Definition ticks_of_time (epoch : Z) (t : instant) : Z := (fst t * 10 ^ 9 + snd t) / 100 + epoch.
Definition time_of_ticks (epoch : Z) (ticks : Z) : instant :=
  let ns := (ticks - epoch) * 100 in (ns / 10 ^ 9, ns mod 10 ^ 9).
(* an instant rounded down to a whole tick *)
Definition floor_tick (t : instant) : instant := (fst t, snd t - snd t mod 100).

(* Representable ranges of the 64-bit result types *)
Definition in_i64 (z : Z) : Prop := - 2 ^ 63 <= z < 2 ^ 63.
Definition in_u64 (z : Z) : Prop := 0 <= z < 2 ^ 64.
Definition in_u32 (z : Z) : Prop := 0 <= z < 2 ^ 32.
(* the reading of a 64-bit pattern as a signed integer *)
Definition signed64 (u : Z) : Z := if u <? 2 ^ 63 then u else u - 2 ^ 64.

(* Days from 1970-01-01 to y-m-d in the proleptic Gregorian calendar (any year, floor division). *)
Definition days_from_civil (y m d : Z) : Z :=
  let y' := if m <=? 2 then y - 1 else y in
  let era := y' / 400 in
  let yoe := y' - era * 400 in
  let doy := (153 * (m + (if m >? 2 then -3 else 9)) + 2) / 5 + d - 1 in
  let doe := yoe * 365 + yoe / 4 - yoe / 100 + doy in
  era * 146097 + doe - 719468.

Definition ticks_per_day : Z := 86400 * 10 ^ 7.
(* MS-DTYP 2.3.3: FILETIME counts from 1601-01-01 UTC; RFC 4122 4.1.4: from 1582-10-15 UTC *)
Definition filetime_epoch_spec : Z := - days_from_civil 1601 1 1 * ticks_per_day.
Definition uuid_epoch_spec : Z := - days_from_civil 1582 10 15 * ticks_per_day.

(* The two "never" sentinels of Active Directory large-integer attributes *)
Definition never_max : Z := 9223372036854775807.      (* 0x7FFFFFFFFFFFFFFF *)
Definition never_min : Z := -9223372036854775808.     (* -0x8000000000000000 *)

(* ---- FILETIME ---- *)
Definition filetime_value (lo hi : Z) : Z := signed64 (lo + 2 ^ 32 * hi).   (* as ToInt64 reads it *)
Definition filetime_of_time_exact (t : instant) : Z := ticks_of_time filetime_epoch_spec t.
Definition time_of_filetime_exact (v : Z) : instant := time_of_ticks filetime_epoch_spec v.

(* ---- LDAP (Active Directory) large integers as decimal strings ---- *)
(* s is a decimal spelling of v: optional sign, one or more digits (leading zeros allowed) *)
Definition decimal_of (s : list N) (v : Z) : Prop :=
  exists digits, digits <> [] /\ forallb is_digit digits = true /\
    ((s = digits /\ v = Z.of_N (dec_val digits)) \/
     (s = 43%N :: digits /\ v = Z.of_N (dec_val digits)) \/
     (s = 45%N :: digits /\ v = - Z.of_N (dec_val digits))).

(* unix seconds of an LDAP timestamp; instants before 1970 are reported as 0 (documented) *)
Definition ldap_timestamp_to_unix_exact (v : Z) : Z :=
  if v <? filetime_epoch_spec then 0 else fst (time_of_ticks filetime_epoch_spec v).
(* LDAP timestamp of the whole second of an instant *)
Definition ldap_unix_to_timestamp_exact (t : instant) : Z := ticks_of_time filetime_epoch_spec (fst t, 0).
(* whole seconds in an interval of v ticks; intervals are stored negated *)
Definition ldap_duration_to_seconds_exact (v : Z) : Z := Z.abs v / 10 ^ 7.
Definition ldap_seconds_to_duration_exact (s : Z) : list N := print_decZ (s * 10 ^ 7).

(* ---- key credential DateTime, UUID v1/v2 timestamps: unsigned tick counts ---- *)
Definition datetime_time_exact (ticks : Z) : instant := time_of_ticks filetime_epoch_spec ticks.
Definition uuid_time_exact (ts : Z) : instant := time_of_ticks uuid_epoch_spec ts.
Definition uuid_of_time_exact (t : instant) : Z := ticks_of_time uuid_epoch_spec t.
