(* C13, GUID text: for each of the formats N D B P X, printing then parsing returns the fields,
   and parsing then printing returns the lower-cased input, for every string of the format in
   any letter case. *)
From Coq Require Import List Arith NArith ZArith Lia Bool.
From Coq Require Import ZifyN ZifyNat ZifyBool.
From Mant Require Import Prim.R Prim.Bytes Prim.Dec Prim.HexNum Prim.GoStr Model.Guid Spec.C13
  Proofs.C13Uuid Proofs.C13Guid.
Import ListNotations.
Open Scope N_scope.

(* the fields denoted by 32 hexadecimal digits *)
Definition g_of_hex (h : list N) : guid :=
  mkGuid (hexval (octets h 0 8)) (hexval (octets h 8 4)) (hexval (octets h 12 4))
         (hexval (octets h 16 4)) (hexval (octets h 20 12)).

(* ---------------- pieces of a 32-digit string *)

Lemma forallb_firstn {A} (f : A -> bool) n l : forallb f l = true -> forallb f (firstn n l) = true.
Proof.
  revert l; induction n as [|n IH]; intros [|x l] H; try reflexivity.
  cbn [forallb firstn] in *. apply andb_true_iff in H. destruct H as [H1 H2]. now rewrite H1, IH.
Qed.
Lemma forallb_skipn {A} (f : A -> bool) n l : forallb f l = true -> forallb f (skipn n l) = true.
Proof.
  revert l; induction n as [|n IH]; intros [|x l] H; try reflexivity; try exact H.
  cbn [forallb skipn] in *. apply andb_true_iff in H. destruct H as [H1 H2]. now apply IH.
Qed.
Lemma forallb_rev {A} (f : A -> bool) l : forallb f l = true -> forallb f (rev l) = true.
Proof. rewrite !forallb_forall. intros H x Hx. apply H. now apply in_rev. Qed.

Lemma octets_lhex h k n : forallb is_lhex h = true -> forallb is_lhex (octets h k n) = true.
Proof. intros H. unfold octets. now apply forallb_firstn, forallb_skipn. Qed.

Lemma octets_len h k n : (k + n <= length h)%nat -> length (octets h k n) = n.
Proof. intros H. unfold octets. rewrite firstn_length, skipn_length. lia. Qed.

Ltac piece_facts Hh :=
  destruct Hh as [?Hlen ?Hhex];
  repeat match goal with
         | |- context [octets ?h ?k ?n] =>
             lazymatch goal with
             | _ : length (octets h k n) = n |- _ => fail
             | _ => assert (length (octets h k n) = n) by (apply octets_len; lia);
                    assert (forallb is_lhex (octets h k n) = true) by (apply octets_lhex; assumption)
             end
         end.

(* ---------------- prep: TrimSpace + ToLower on strings of the GUID alphabet *)

Definition galpha (c : N) : bool :=
  is_lhex c || (c =? 45) || (c =? 123) || (c =? 125) || (c =? 40) || (c =? 41) || (c =? 44) || (c =? 120).

Lemma galpha_lower_plain c : galpha (to_lower c) = true -> plain c = true.
Proof.
  unfold galpha, is_lhex, to_lower, plain, is_ascii_space.
  destruct ((65 <=? c) && (c <=? 90)) eqn:E; lia.
Qed.

Lemma trim_space_all_plain s : forallb plain s = true -> trim_space s = s.
Proof.
  intros H. apply trim_space_plain.
  - destruct s as [|c s]; [exact I|]. cbn [forallb] in H. now apply andb_true_iff in H.
  - apply forallb_rev in H. destruct (rev s) as [|c r]; [exact I|]. cbn [forallb] in H. now apply andb_true_iff in H.
Qed.

(* whatever the letter case of s: if its lower-casing is a string over the alphabet, prep yields it *)
Lemma prep_of_lower s t : lower s = t -> forallb galpha t = true -> prep s = t.
Proof.
  intros <- H. unfold prep. rewrite trim_space_all_plain; [reflexivity|].
  unfold lower in H. rewrite forallb_forall in *. intros c Hc. apply galpha_lower_plain.
  apply H. now apply in_map.
Qed.

Lemma galpha_lower c : galpha c = true -> to_lower c = c.
Proof. unfold galpha, is_lhex, to_lower. destruct ((65 <=? c) && (c <=? 90)) eqn:E; lia. Qed.

Lemma lower_galpha t : forallb galpha t = true -> lower t = t.
Proof.
  unfold lower. induction t as [|c t IH]; intros H; [reflexivity|].
  cbn [forallb] in H. apply andb_true_iff in H. destruct H as [H1 H2].
  cbn [map]. now rewrite galpha_lower, IH.
Qed.

Lemma prep_galpha t : forallb galpha t = true -> prep t = t.
Proof. intros H. apply prep_of_lower; [now apply lower_galpha|exact H]. Qed.

Lemma lhex_galpha x : forallb is_lhex x = true -> forallb galpha x = true.
Proof.
  rewrite !forallb_forall. intros H c Hc. unfold galpha. rewrite (H c Hc). reflexivity.
Qed.

Ltac galpha_solve :=
  rewrite ?forallb_app;
  repeat match goal with H : forallb is_lhex ?x = true |- context [forallb galpha ?x] => rewrite (lhex_galpha x H) end;
  reflexivity.

(* ---------------- format D (and the body of B and P) *)

Ltac nosep := apply lhex_none; [assumption|reflexivity].

Lemma len_ne {A} (x : list A) n : length x = S n -> x <> [].
Proof. destruct x; [discriminate|discriminate]. Qed.

Ltac parse_ok :=
  rewrite parse_uint_hex_lhex;
  [ | assumption | eapply len_ne; eassumption
    | match goal with H : length ?x = _ |- context [length ?x] => rewrite H end; vm_compute; discriminate ].

Lemma from_d_core s h : is_hex32 h -> prep s = hyphenate h -> guid_from_d s = Ok (g_of_hex h).
Proof.
  intros Hh Hp. unfold guid_from_d. rewrite Hp. unfold hyphenate, g_of_hex. piece_facts Hh.
  cbn [app].
  rewrite !split_byte_sep by nosep. rewrite split_byte_none by nosep.
  do 5 parse_ok. reflexivity.
Qed.

Lemma hyphenate_galpha h : is_hex32 h -> forallb galpha (hyphenate h) = true.
Proof. intros Hh. unfold hyphenate. piece_facts Hh. galpha_solve. Qed.

Lemma from_n_core s h : is_hex32 h -> prep s = h -> guid_from_n s = Ok (g_of_hex h).
Proof.
  intros Hh Hp. unfold guid_from_n. rewrite Hp. unfold g_of_hex.
  change (sub h 0 8) with (octets h 0 8). change (sub h 8 12) with (octets h 8 4).
  change (sub h 12 16) with (octets h 12 4). change (sub h 16 20) with (octets h 16 4).
  change (sub h 20 32) with (octets h 20 12).
  piece_facts Hh. unfold lenN. rewrite Hlen. change (negb (N.of_nat 32 =? 32)) with false. cbv iota.
  do 5 parse_ok. reflexivity.
Qed.

Lemma enclosed_inner (op : N) body cl :
  sub ([op] ++ body ++ [cl]) 1 (length ([op] ++ body ++ [cl]) - 1) = body.
Proof.
  unfold sub. cbn [app length skipn]. rewrite app_length. cbn [length].
  replace (S (length body + 1) - 1 - 1)%nat with (length body) by lia.
  rewrite firstn_app, firstn_all, Nat.sub_diag. cbn [firstn]. apply app_nil_r.
Qed.

Lemma enclosed_last (op : N) body cl : nth (length ([op] ++ body ++ [cl]) - 1) ([op] ++ body ++ [cl]) 0 = cl.
Proof.
  cbn [app length]. rewrite app_length. cbn [length].
  replace (S (length body + 1) - 1)%nat with (S (length body)) by lia. cbn [nth].
  rewrite app_nth2 by lia. now rewrite Nat.sub_diag.
Qed.

Lemma from_enclosed_core op cl s h : is_hex32 h -> prep s = [op] ++ hyphenate h ++ [cl] ->
  guid_from_enclosed op cl s = Ok (g_of_hex h).
Proof.
  intros Hh Hp. unfold guid_from_enclosed. rewrite Hp. rewrite enclosed_last, enclosed_inner.
  assert (L : (lenN ([op] ++ hyphenate h ++ [cl]) <? 2) = false).
  { unfold lenN. cbn [app length]. rewrite app_length. cbn [length]. lia. }
  rewrite L. cbn [app nth]. rewrite !N.eqb_refl. cbn [negb orb].
  apply from_d_core; [exact Hh|]. apply prep_galpha. now apply hyphenate_galpha.
Qed.

(* ---------------- format X *)

Definition x_string (p8 p4a p4b y0 y1 y2 y3 y4 y5 y6 y7 : list N) : list N :=
  ([123] ++ s0x) ++ p8 ++ c0x ++ p4a ++ c0x ++ p4b ++ ([44; 123] ++ s0x) ++ y0 ++ c0x ++ y1 ++ c0x ++ y2
  ++ c0x ++ y3 ++ c0x ++ y4 ++ c0x ++ y5 ++ c0x ++ y6 ++ c0x ++ y7 ++ [125; 125].

Lemma fmt_x_string h : fmt_x h =
  x_string (octets h 0 8) (octets h 8 4) (octets h 12 4) (octets h 16 2) (octets h 18 2) (octets h 20 2)
           (octets h 22 2) (octets h 24 2) (octets h 26 2) (octets h 28 2) (octets h 30 2).
Proof. reflexivity. Qed.

Lemma x_string_match p8 p4a p4b y0 y1 y2 y3 y4 y5 y6 y7 :
  length p8 = 8%nat -> length p4a = 4%nat -> length p4b = 4%nat ->
  Forall (fun y => length y = 2%nat /\ forallb is_lhex y = true) [y0; y1; y2; y3; y4; y5; y6; y7] ->
  forallb is_lhex p8 = true -> forallb is_lhex p4a = true -> forallb is_lhex p4b = true ->
  match_pat pat_x (x_string p8 p4a p4b y0 y1 y2 y3 y4 y5 y6 y7) = true.
Proof.
  intros L8 L4a L4b Hy H8 H4a H4b.
  repeat match goal with H : Forall _ (_ :: _) |- _ => inversion H; clear H; subst end.
  repeat match goal with H : _ /\ _ |- _ => destruct H end.
  unfold pat_x, x_string.
  rewrite match_pat_lit. rewrite match_pat_hex by assumption.
  rewrite match_pat_lit. rewrite match_pat_hex by assumption.
  rewrite match_pat_lit. rewrite match_pat_hex by assumption.
  rewrite match_pat_lit. rewrite match_pat_hex by assumption.
  do 7 (rewrite match_pat_lit; rewrite match_pat_hex by assumption).
  reflexivity.
Qed.

Lemma split_x p rest : forallb (fun x => negb (x =? 44)) p = true ->
  split_byte 44 (s0x ++ p ++ c0x ++ rest) = (s0x ++ p) :: split_byte 44 (s0x ++ rest).
Proof.
  intros H. replace (s0x ++ p ++ c0x ++ rest) with ((s0x ++ p) ++ 44 :: (s0x ++ rest)).
  - apply split_byte_sep. rewrite forallb_app, H. reflexivity.
  - rewrite <- app_assoc. reflexivity.
Qed.

Lemma go_from_0x p : go_from (s0x ++ p) 2 = Ok p.
Proof. exact (go_from_app s0x p). Qed.

Lemma x_bytes_spec ys : Forall (fun y => length y = 2%nat /\ forallb is_lhex y = true) ys ->
  forallb is_lhex (concat ys) = true /\ length (concat ys) = (2 * length ys)%nat /\
  forall acc, x_bytes (map (app s0x) ys) acc = Ok (acc * 256 ^ N.of_nat (length ys) + hexval (concat ys)).
Proof.
  induction 1 as [|y ys [Hl Hx] Hys (IH1 & IH2 & IH3)].
  - repeat split. intros acc. cbn [map x_bytes length concat]. f_equal. change (hexval []) with 0.
    change (N.of_nat 0) with 0. rewrite N.pow_0_r. lia.
  - cbn [concat map length]. split; [|split].
    + rewrite forallb_app, Hx, IH1. reflexivity.
    + rewrite app_length, Hl, IH2. lia.
    + intros acc. cbn [x_bytes]. rewrite go_from_0x. cbn [bind].
      rewrite parse_uint_hex_lhex; [|exact Hx|eapply len_ne; exact Hl|rewrite Hl; vm_compute; discriminate].
      cbn [bind]. rewrite IH3. f_equal. rewrite hexval_app by assumption. rewrite IH2.
      replace (16 ^ N.of_nat (2 * length ys)) with (256 ^ N.of_nat (length ys)).
      * replace (N.of_nat (S (length ys))) with (1 + N.of_nat (length ys)) by lia.
        rewrite N.pow_add_r. change (256 ^ 1) with 256. lia.
      * change 256 with (16 ^ 2). rewrite <- N.pow_mul_r. f_equal. lia.
Qed.

Lemma hex_pieces_x h : length h = 32%nat ->
  octets h 16 4 = concat [octets h 16 2; octets h 18 2] /\
  octets h 20 12 = concat [octets h 20 2; octets h 22 2; octets h 24 2; octets h 26 2; octets h 28 2; octets h 30 2].
Proof. intros Hlen. explode h Hlen. split; reflexivity. Qed.

Ltac nocomma := apply lhex_none; [assumption|reflexivity].

Lemma from_x_core s h : is_hex32 h -> prep s = fmt_x h -> guid_from_x s = Ok (g_of_hex h).
Proof.
  intros Hh Hp. unfold guid_from_x. rewrite Hp. rewrite fmt_x_string.
  destruct (hex_pieces_x h (proj1 Hh)) as [ED EE]. unfold g_of_hex. rewrite ED, EE.
  piece_facts Hh.
  assert (Y : Forall (fun y => length y = 2%nat /\ forallb is_lhex y = true)
                [octets h 16 2; octets h 18 2; octets h 20 2; octets h 22 2; octets h 24 2; octets h 26 2;
                 octets h 28 2; octets h 30 2]) by (repeat constructor; assumption).
  rewrite x_string_match by assumption. cbn [negb].
  unfold x_string. rewrite !remove_byte_app.
  repeat match goal with |- context [remove_byte 123 (octets ?h ?k ?n)] =>
    rewrite (remove_byte_none 123 (octets h k n)) by nocomma end.
  repeat match goal with |- context [remove_byte 125 (octets ?h ?k ?n)] =>
    rewrite (remove_byte_none 125 (octets h k n)) by nocomma end.
  change (remove_byte 125 (remove_byte 123 ([123] ++ s0x))) with s0x.
  change (remove_byte 125 (remove_byte 123 c0x)) with c0x.
  change (remove_byte 125 (remove_byte 123 ([44; 123] ++ s0x))) with c0x.
  change (remove_byte 125 (remove_byte 123 [125; 125])) with (@nil N).
  rewrite app_nil_r.
  rewrite !split_x by nocomma.
  rewrite split_byte_none by (rewrite forallb_app; rewrite (lhex_none 44 (octets h 30 2)) by (assumption || reflexivity); reflexivity).
  cbn [length Nat.eqb negb nth].
  rewrite !go_from_0x. cbn [bind].
  do 3 (parse_ok; cbn [bind]).
  cbn [sub Nat.sub skipn firstn].
  inversion Y as [|? ? Y0 Y']; subst. inversion Y' as [|? ? Y1 Y'']; subst.
  assert (YD : Forall (fun y => length y = 2%nat /\ forallb is_lhex y = true) [octets h 16 2; octets h 18 2])
    by (repeat constructor; tauto).
  destruct (x_bytes_spec _ YD) as (_ & _ & XD). destruct (x_bytes_spec _ Y'') as (_ & _ & XE).
  cbn [map] in XD, XE. rewrite XD. cbn [bind]. rewrite XE. cbn [bind].
  repeat f_equal; lia.
Qed.

(* ---------------- FromString: the first matching expression decides *)

Lemma not_hex_run k p x c r : (length x < k)%nat -> is_lhex c = false ->
  match_pat (THex k :: p) (x ++ c :: r) = false.
Proof.
  intros Hl Hc. cbn [match_pat]. destruct (k <=? length (x ++ c :: r))%nat; [|reflexivity].
  cbn [andb]. rewrite firstn_app, forallb_app.
  destruct (k - length x)%nat as [|m] eqn:E; [lia|]. cbn [firstn forallb]. rewrite Hc.
  cbn [andb]. rewrite andb_false_r. reflexivity.
Qed.

Lemma match_d h : is_hex32 h -> match_pat pat_d (hyphenate h) = true.
Proof.
  intros Hh. unfold pat_d, hyphenate, hy. piece_facts Hh.
  do 4 (rewrite match_pat_hex by assumption; rewrite match_pat_lit).
  rewrite <- (app_nil_r (octets h 20 12)). rewrite match_pat_hex by assumption. reflexivity.
Qed.

Lemma match_n h : is_hex32 h -> match_pat pat_n h = true.
Proof.
  intros [Hl Hx]. unfold pat_n. rewrite <- (app_nil_r h). now rewrite match_pat_hex.
Qed.

Lemma match_enclosed op cl h : is_hex32 h ->
  match_pat ([TLit [op]] ++ pat_d ++ [TLit [cl]]) ([op] ++ hyphenate h ++ [cl]) = true.
Proof.
  intros Hh. unfold pat_d. cbn [app]. change (op :: hyphenate h ++ [cl]) with ([op] ++ hyphenate h ++ [cl]).
  rewrite match_pat_lit. unfold hyphenate, hy. piece_facts Hh. rewrite <- !app_assoc.
  do 4 (rewrite match_pat_hex by assumption; rewrite match_pat_lit).
  rewrite match_pat_hex by assumption. cbn [match_pat has_prefix_b length skipn]. now rewrite N.eqb_refl.
Qed.

Lemma from_string_n s h : is_hex32 h -> prep s = h -> guid_from_string s = Ok (g_of_hex h).
Proof.
  intros Hh Hp. unfold guid_from_string. rewrite Hp, match_n by exact Hh.
  apply from_n_core; [exact Hh|]. apply prep_galpha, lhex_galpha, Hh.
Qed.

Lemma from_string_d s h : is_hex32 h -> prep s = hyphenate h -> guid_from_string s = Ok (g_of_hex h).
Proof.
  intros Hh Hp. unfold guid_from_string. rewrite Hp.
  assert (N1 : match_pat pat_n (hyphenate h) = false).
  { unfold hyphenate, pat_n. pose proof Hh as Hh'. piece_facts Hh'. cbn [app]. apply not_hex_run; [lia|reflexivity]. }
  rewrite N1, match_d by exact Hh.
  apply from_d_core; [exact Hh|]. apply prep_galpha. now apply hyphenate_galpha.
Qed.

Lemma enclosed_galpha op cl h : is_hex32 h -> galpha op = true -> galpha cl = true ->
  forallb galpha ([op] ++ hyphenate h ++ [cl]) = true.
Proof.
  intros Hh Ho Hc. rewrite !forallb_app, hyphenate_galpha by exact Hh. cbn [forallb]. now rewrite Ho, Hc.
Qed.

Lemma from_string_b s h : is_hex32 h -> prep s = fmt_b h -> guid_from_string s = Ok (g_of_hex h).
Proof.
  intros Hh Hp. unfold guid_from_string, fmt_b in *. rewrite Hp.
  assert (N1 : match_pat pat_n ([123] ++ hyphenate h ++ [125]) = false)
    by (apply (not_hex_run 32 [] [] 123); [simpl; lia|reflexivity]).
  assert (N2 : match_pat pat_d ([123] ++ hyphenate h ++ [125]) = false)
    by (apply (not_hex_run 8 _ [] 123); [simpl; lia|reflexivity]).
  rewrite N1, N2. unfold pat_b. rewrite match_enclosed by exact Hh.
  apply from_enclosed_core; [exact Hh|]. apply prep_galpha. now apply enclosed_galpha.
Qed.

Lemma from_string_p s h : is_hex32 h -> prep s = fmt_p h -> guid_from_string s = Ok (g_of_hex h).
Proof.
  intros Hh Hp. unfold guid_from_string, fmt_p in *. rewrite Hp.
  assert (N1 : match_pat pat_n ([40] ++ hyphenate h ++ [41]) = false)
    by (apply (not_hex_run 32 [] [] 40); [simpl; lia|reflexivity]).
  assert (N2 : match_pat pat_d ([40] ++ hyphenate h ++ [41]) = false)
    by (apply (not_hex_run 8 _ [] 40); [simpl; lia|reflexivity]).
  assert (N3 : match_pat pat_b ([40] ++ hyphenate h ++ [41]) = false) by reflexivity.
  rewrite N1, N2, N3. unfold pat_p. rewrite match_enclosed by exact Hh.
  apply from_enclosed_core; [exact Hh|]. apply prep_galpha. now apply enclosed_galpha.
Qed.

Lemma fmt_x_galpha h : is_hex32 h -> forallb galpha (fmt_x h) = true.
Proof. intros Hh. rewrite fmt_x_string. unfold x_string. piece_facts Hh. galpha_solve. Qed.

Lemma from_string_x s h : is_hex32 h -> prep s = fmt_x h -> guid_from_string s = Ok (g_of_hex h).
Proof.
  intros Hh Hp. unfold guid_from_string. rewrite Hp.
  assert (N1 : match_pat pat_n (fmt_x h) = false)
    by (apply (not_hex_run 32 [] [] 123); [simpl; lia|reflexivity]).
  assert (N2 : match_pat pat_d (fmt_x h) = false)
    by (apply (not_hex_run 8 _ [] 123); [simpl; lia|reflexivity]).
  assert (N3 : match_pat pat_b (fmt_x h) = false).
  { unfold pat_b. cbn [app]. change (fmt_x h) with ([123] ++ ([48] ++ 120 :: skipn 3 (fmt_x h))).
    rewrite match_pat_lit. apply not_hex_run; [simpl; lia|reflexivity]. }
  assert (N4 : match_pat pat_p (fmt_x h) = false) by reflexivity.
  rewrite N1, N2, N3, N4.
  assert (M : match_pat pat_x (fmt_x h) = true).
  { rewrite fmt_x_string. pose proof Hh as Hh'. piece_facts Hh'. apply x_string_match; try assumption.
    repeat constructor; assumption. }
  rewrite M. apply from_x_core; [exact Hh|]. apply prep_galpha. now apply fmt_x_galpha.
Qed.

(* ---------------- printing *)

Lemma hex_pad_hexval x k : length x = k -> forallb is_lhex x = true -> hex_pad k (hexval x) = x.
Proof.
  intros Hl Hx. destruct (hexval_lhex x Hx) as [_ Hb]. rewrite Hl in Hb.
  rewrite hex_pad_small by exact Hb. rewrite <- Hl. now apply hex_fix_hexval.
Qed.

Lemma hex32_concat h : length h = 32%nat ->
  h = octets h 0 8 ++ octets h 8 4 ++ octets h 12 4 ++ octets h 16 4 ++ octets h 20 12.
Proof. intros Hlen. explode h Hlen. reflexivity. Qed.

Lemma x_subs h : length h = 32%nat ->
  sub (octets h 16 4) 0 2 = octets h 16 2 /\ sub (octets h 16 4) 2 4 = octets h 18 2 /\
  sub (octets h 20 12) 0 2 = octets h 20 2 /\ sub (octets h 20 12) 2 4 = octets h 22 2 /\
  sub (octets h 20 12) 4 6 = octets h 24 2 /\ sub (octets h 20 12) 6 8 = octets h 26 2 /\
  sub (octets h 20 12) 8 10 = octets h 28 2 /\ sub (octets h 20 12) 10 12 = octets h 30 2.
Proof. intros Hlen. explode h Hlen. repeat split; reflexivity. Qed.

Theorem print_of_hex h : is_hex32 h ->
  guid_to_n (g_of_hex h) = fmt_n h /\ guid_to_d (g_of_hex h) = fmt_d h /\ guid_to_b (g_of_hex h) = fmt_b h
  /\ guid_to_p (g_of_hex h) = fmt_p h /\ guid_to_x (g_of_hex h) = fmt_x h /\ guid_ok (g_of_hex h).
Proof.
  intros Hh. pose proof (proj1 Hh) as L.
  assert (D : guid_to_d (g_of_hex h) = hyphenate h).
  { unfold guid_to_d, g_of_hex, hyphenate. cbn [gA gB gC gD gE]. pose proof Hh as Hh'. piece_facts Hh'.
    rewrite !hex_pad_hexval by assumption. reflexivity. }
  split; [|split; [exact D|split; [|split; [|split]]]].
  - unfold guid_to_n, g_of_hex, fmt_n. cbn [gA gB gC gD gE]. pose proof Hh as Hh'. piece_facts Hh'.
    rewrite !hex_pad_hexval by assumption. symmetry. now apply hex32_concat.
  - unfold guid_to_b, fmt_b. now rewrite D.
  - unfold guid_to_p, fmt_p. now rewrite D.
  - unfold guid_to_x, g_of_hex. cbn [gA gB gC gD gE]. pose proof Hh as Hh'. piece_facts Hh'.
    rewrite !hex_pad_hexval by assumption.
    destruct (x_subs h L) as (E1 & E2 & E3 & E4 & E5 & E6 & E7 & E8).
    rewrite E1, E2, E3, E4, E5, E6, E7, E8. reflexivity.
  - unfold guid_ok, g_of_hex. cbn [gA gB gC gD gE]. pose proof Hh as Hh'. piece_facts Hh'.
    repeat match goal with
           | Hx : forallb is_lhex ?x = true, Hl : length ?x = _ |- _ =>
               let B := fresh "B" in pose proof (proj2 (hexval_lhex x Hx)) as B; rewrite Hl in B; clear Hx
           end.
    change (16 ^ N.of_nat 8) with (2 ^ 32) in *. change (16 ^ N.of_nat 4) with (2 ^ 16) in *.
    change (16 ^ N.of_nat 12) with (2 ^ 48) in *. repeat split; assumption.
Qed.

Lemma pieces_hex32 x8 x4a x4b x4c x12 :
  length x8 = 8%nat -> length x4a = 4%nat -> length x4b = 4%nat -> length x4c = 4%nat -> length x12 = 12%nat ->
  forallb is_lhex x8 = true -> forallb is_lhex x4a = true -> forallb is_lhex x4b = true ->
  forallb is_lhex x4c = true -> forallb is_lhex x12 = true ->
  let h := x8 ++ x4a ++ x4b ++ x4c ++ x12 in
  is_hex32 h /\ octets h 0 8 = x8 /\ octets h 8 4 = x4a /\ octets h 12 4 = x4b /\ octets h 16 4 = x4c
  /\ octets h 20 12 = x12.
Proof.
  intros L1 L2 L3 L4 L5 H1 H2 H3 H4 H5 h. split.
  - split.
    + unfold h. rewrite !app_length, L1, L2, L3, L4, L5. reflexivity.
    + unfold h. rewrite !forallb_app, H1, H2, H3, H4, H5. reflexivity.
  - clear H1 H2 H3 H4 H5. subst h. explode x8 L1. explode x4a L2. explode x4b L3. explode x4c L4. explode x12 L5.
    repeat split; reflexivity.
Qed.

Lemma hexval_hex_fix' k n : n < 16 ^ N.of_nat k -> hexval (hex_fix k n) = n.
Proof. intros H. unfold hexval. now rewrite hexval_hex_fix. Qed.

Theorem fields_hex g : guid_ok g -> is_hex32 (guid_to_n g) /\ g_of_hex (guid_to_n g) = g.
Proof.
  intros (HA & HB & HC & HD & HE). destruct g as [A B C D E]. cbn [gA gB gC gD gE] in *.
  unfold guid_to_n. cbn [gA gB gC gD gE].
  change (2 ^ 32) with (16 ^ N.of_nat 8) in HA. change (2 ^ 16) with (16 ^ N.of_nat 4) in HB, HC, HD.
  change (2 ^ 48) with (16 ^ N.of_nat 12) in HE.
  rewrite !hex_pad_small by assumption.
  destruct (pieces_hex32 (hex_fix 8 A) (hex_fix 4 B) (hex_fix 4 C) (hex_fix 4 D) (hex_fix 12 E))
    as (Hh & E1 & E2 & E3 & E4 & E5); try apply length_hex_fix; try apply lhex_hex_fix.
  split; [exact Hh|]. unfold g_of_hex. rewrite E1, E2, E3, E4, E5.
  rewrite !hexval_hex_fix' by assumption. reflexivity.
Qed.

(* the digits are those of MS-DTYP's Data1..Data4 *)
Lemma hex_be_bytes w n : n < 2 ^ (8 * N.of_nat w) -> hex_of_bytes false (be_bytes w n) = hex_fix (2 * w) n.
Proof.
  intros H. pose proof (hex_fix_le_val (le_bytes w n) (wf_le_bytes w n)) as P.
  rewrite length_le_bytes, le_val_le_bytes, N.mod_small in P by exact H. symmetry. exact P.
Qed.

Theorem guid_to_n_dtyp g : guid_ok g -> guid_to_n g = dtyp_hex (dtyp_of g).
Proof.
  intros (HA & HB & HC & HD & HE). unfold guid_to_n, dtyp_hex, dtyp_of. cbn [Data1 Data2 Data3 Data4].
  change (2 ^ 32) with (16 ^ N.of_nat 8) in HA. change (2 ^ 16) with (16 ^ N.of_nat 4) in HB, HC, HD.
  change (2 ^ 48) with (16 ^ N.of_nat 12) in HE.
  rewrite !hex_pad_small by assumption. rewrite hex_of_bytes_app.
  rewrite (hex_be_bytes 2), (hex_be_bytes 6); [reflexivity| |].
  - change (2 ^ (8 * N.of_nat 6)) with (16 ^ N.of_nat 12). exact HE.
  - change (2 ^ (8 * N.of_nat 2)) with (16 ^ N.of_nat 4). exact HD.
Qed.

(* ---------------- the five formats, uniformly *)

Inductive gfmt : Type := FN | FD | FB | FP | FX.

Definition fmt_of (f : gfmt) : list N -> list N :=
  match f with FN => fmt_n | FD => fmt_d | FB => fmt_b | FP => fmt_p | FX => fmt_x end.
Definition guid_to (f : gfmt) : guid -> list N :=
  match f with FN => guid_to_n | FD => guid_to_d | FB => guid_to_b | FP => guid_to_p | FX => guid_to_x end.
Definition guid_from (f : gfmt) : list N -> R guid :=
  match f with FN => guid_from_n | FD => guid_from_d | FB => guid_from_b | FP => guid_from_p | FX => guid_from_x end.

Lemma fmt_galpha f h : is_hex32 h -> forallb galpha (fmt_of f h) = true.
Proof.
  intros Hh. destruct f; cbn [fmt_of].
  - apply lhex_galpha, Hh.
  - now apply hyphenate_galpha.
  - now apply enclosed_galpha.
  - now apply enclosed_galpha.
  - now apply fmt_x_galpha.
Qed.

Lemma parse_of_prep f s h : is_hex32 h -> prep s = fmt_of f h ->
  guid_from_string s = Ok (g_of_hex h) /\ guid_from f s = Ok (g_of_hex h).
Proof.
  intros Hh Hp. destruct f; cbn [fmt_of guid_from] in *.
  - split; [now apply from_string_n|now apply from_n_core].
  - split; [now apply from_string_d|now apply from_d_core].
  - split; [now apply from_string_b|now apply from_enclosed_core].
  - split; [now apply from_string_p|now apply from_enclosed_core].
  - split; [now apply from_string_x|now apply from_x_core].
Qed.

(* parse then print, any letter case *)
Theorem guid_text_canonical f s h : is_hex32 h -> lower s = fmt_of f h ->
  guid_from_string s = Ok (g_of_hex h) /\ guid_from f s = Ok (g_of_hex h)
  /\ guid_to f (g_of_hex h) = lower s /\ guid_ok (g_of_hex h).
Proof.
  intros Hh Hl.
  assert (Hp : prep s = fmt_of f h) by (apply prep_of_lower; [exact Hl|now apply fmt_galpha]).
  destruct (parse_of_prep f s h Hh Hp) as [P1 P2].
  destruct (print_of_hex h Hh) as (Q1 & Q2 & Q3 & Q4 & Q5 & Q6).
  split; [exact P1|]. split; [exact P2|]. split; [|exact Q6]. rewrite Hl. destruct f; assumption.
Qed.

Lemma lower_upper_galpha t : forallb galpha t = true -> lower (upper t) = t.
Proof.
  unfold lower, upper. induction t as [|c t IH]; intros H; [reflexivity|].
  cbn [forallb] in H. apply andb_true_iff in H. destruct H as [H1 H2]. cbn [map]. rewrite IH by exact H2.
  f_equal. unfold galpha, is_lhex, to_lower, to_upper in *.
  destruct ((97 <=? c) && (c <=? 122)) eqn:E1.
  - destruct ((65 <=? c - 32) && (c - 32 <=? 90)) eqn:E2; lia.
  - destruct ((65 <=? c) && (c <=? 90)) eqn:E2; lia.
Qed.

(* print then parse, lower and upper case *)
Theorem guid_text_fields f g : guid_ok g ->
  guid_from_string (guid_to f g) = Ok g /\ guid_from f (guid_to f g) = Ok g
  /\ guid_from_string (upper (guid_to f g)) = Ok g /\ guid_from f (upper (guid_to f g)) = Ok g
  /\ guid_to f g = fmt_of f (dtyp_hex (dtyp_of g)).
Proof.
  intros Hg. destruct (fields_hex g Hg) as [Hh Hgh]. set (h := guid_to_n g) in *.
  destruct (print_of_hex h Hh) as (Q1 & Q2 & Q3 & Q4 & Q5 & _). rewrite Hgh in *.
  assert (T : guid_to f g = fmt_of f h) by (destruct f; assumption).
  pose proof (fmt_galpha f h Hh) as G.
  destruct (guid_text_canonical f (guid_to f g) h Hh) as (A1 & A2 & _); [rewrite T; now apply lower_galpha|].
  destruct (guid_text_canonical f (upper (guid_to f g)) h Hh) as (B1 & B2 & _);
    [rewrite T; now apply lower_upper_galpha|].
  rewrite Hgh in *. repeat split; try assumption.
  rewrite T. unfold h. now rewrite guid_to_n_dtyp.
Qed.
