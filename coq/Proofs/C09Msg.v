(* C09: whole messages.  The library decodes every wire form of a message (relation [wire_msg],
   any RFC 1035 4.1.4 compression); the plain RFC encoding is a wire form; the library's encoder
   produces exactly the plain RFC encoding; round trip; totality of every decoder. *)
From Coq Require Import List NArith ZArith Lia Bool.
From Coq Require Import ZifyN ZifyNat ZifyBool.
From Mant Require Import Prim.R Prim.Bytes Gen.ConstsC09 Model.Llmnr Spec.C09 Proofs.C09Base Proofs.C09Name.
Import ListNotations.
Open Scope N_scope.

(* ------------------------------------------------------------------ *)
(* Theorem E: the library reads every wire form *)

Lemma decode_question_wire d off q fin :
  wire_question d off q fin -> question_ok labels_ok q ->
  decode_question d off = Ok (lib_q q, fin).
Proof.
  intros (e & Hw & Ht & Hc & ->) (Hn & _ & _).
  unfold decode_question. rewrite (decode_name_wire _ _ _ _ Hw (labels_ok_nodot _ Hn)).
  cbn [bind snd fst]. pose proof (u16_at_lt _ _ _ Hc) as Hl.
  destruct (N.ltb_spec (lenN d) (e + 4)); [lia|].
  rewrite (be16_at_u16 _ _ _ Ht), (be16_at_u16 _ _ _ Hc). cbn [bind].
  unfold lib_q. rewrite name_text_join, text_nonempty by apply Hn. reflexivity.
Qed.

Lemma decode_rr_wire d off r fin :
  wire_rr d off r fin -> rr_ok labels_ok r -> decode_rr d off = Ok (lib_rr r, fin).
Proof.
  intros (e & Hw & Ht & Hc & Httl & Hrdl & Hrd & ->) (Hn & _).
  unfold decode_rr. rewrite (decode_name_wire _ _ _ _ Hw (labels_ok_nodot _ Hn)).
  cbn [bind snd fst]. pose proof (u16_at_lt _ _ _ Hrdl) as Hl.
  destruct (N.ltb_spec (lenN d) (e + 10)); [lia|].
  rewrite (be16_at_u16 _ _ _ Ht), (be16_at_u16 _ _ _ Hc), (be32_at_u32 _ _ _ Httl), (be16_at_u16 _ _ _ Hrdl).
  cbn [bind]. destruct (bytes_at_some _ _ _ _ Hrd) as (Hle & _ & _).
  destruct (N.ltb_spec (lenN d) (e + 10 + lenN (rr_rdata r))); [lia|].
  rewrite (go_slice_bytes_at _ _ _ _ Hrd). cbn [bind].
  unfold lib_rr. rewrite name_text_join, text_nonempty by apply Hn. reflexivity.
Qed.

Lemma decode_n_wire {A B} (W : list N -> N -> A -> N -> Prop) (ok : A -> Prop) (conv : A -> B)
      (dec : list N -> N -> R (B * N)) d :
  (forall off x fin, W d off x fin -> ok x -> dec d off = Ok (conv x, fin)) ->
  forall off l fin, wire_list W d off l fin -> Forall ok l ->
    decode_n dec d (length l) off = Ok (map conv l, fin).
Proof.
  intros Hdec off l fin Hw. induction Hw as [off | off x mid l fin Hx Hl IH]; intros Hok.
  - reflexivity.
  - inversion Hok as [|? ? Hokx Hokl]; subst. cbn [length decode_n map].
    rewrite (Hdec _ _ _ Hx Hokx). cbn [bind snd fst]. rewrite (IH Hokl). reflexivity.
Qed.

Lemma to_nat_lenN {A} (l : list A) : N.to_nat (lenN l) = length l.
Proof. unfold lenN. lia. Qed.

Theorem decode_message_wire d m :
  wire_msg d m -> msg_ok labels_ok m -> decode_message d = Ok (lib_msg m).
Proof.
  intros (Hid & Hfl & Hqd & Han & Hns & Har & o1 & o2 & o3 & o4 & W1 & W2 & W3 & W4)
         (_ & _ & _ & _ & _ & _ & Q & A1 & A2 & A3).
  unfold decode_message, HeaderSize, c09_header_size. pose proof (u16_at_lt _ _ _ Har) as Hl.
  destruct (N.ltb_spec (lenN d) 12); [lia|].
  rewrite (be16_at_u16 _ _ _ Hid), (be16_at_u16 _ _ _ Hfl), (be16_at_u16 _ _ _ Hqd),
    (be16_at_u16 _ _ _ Han), (be16_at_u16 _ _ _ Hns), (be16_at_u16 _ _ _ Har). cbn [bind].
  rewrite !to_nat_lenN.
  rewrite (decode_n_wire wire_question (question_ok labels_ok) lib_q decode_question d
             (decode_question_wire d) _ _ _ W1 Q). cbn [bind snd fst].
  rewrite (decode_n_wire wire_rr (rr_ok labels_ok) lib_rr decode_rr d (decode_rr_wire d) _ _ _ W2 A1).
  cbn [bind snd fst].
  rewrite (decode_n_wire wire_rr (rr_ok labels_ok) lib_rr decode_rr d (decode_rr_wire d) _ _ _ W3 A2).
  cbn [bind snd fst].
  rewrite (decode_n_wire wire_rr (rr_ok labels_ok) lib_rr decode_rr d (decode_rr_wire d) _ _ _ W4 A3).
  cbn [bind snd fst]. reflexivity.
Qed.

(* ------------------------------------------------------------------ *)
(* Theorem G: the plain encoding is a wire form *)

Lemma wire_question_plain q pre post : question_ok labels_ok q ->
  wire_question (pre ++ rfc_encode_question q ++ post) (lenN pre) q (lenN pre + lenN (rfc_encode_question q)).
Proof.
  intros (Hn & Ht & Hc). unfold wire_question, rfc_encode_question.
  set (nb := rfc_encode_name (rq_name q)).
  exists (lenN pre + lenN nb). split; [|split; [|split]].
  - rewrite <- !app_assoc. apply wire_name_plain. now apply labels_ok_len.
  - rewrite <- !app_assoc. rewrite (app_assoc pre nb).
    apply u16_at_mid; [exact Ht|now rewrite lenN_app].
  - rewrite <- !app_assoc. rewrite (app_assoc pre nb), (app_assoc (pre ++ nb)).
    apply u16_at_mid; [exact Hc|rewrite !lenN_app, lenN_be_bytes; lia].
  - rewrite !lenN_app, !lenN_be_bytes. lia.
Qed.

Lemma lenN_rr_fixed r : lenN (rr_fixed r) = 10 + lenN (rr_rdata r).
Proof. unfold rr_fixed. rewrite !lenN_app, !lenN_be_bytes. lia. Qed.

(* the fixed part of a record, wherever it sits *)
Lemma rr_fixed_at r pre post e : rr_ok (fun _ => True) r -> e = lenN pre ->
  let d := pre ++ rr_fixed r ++ post in
  u16_at d e = Some (rr_type r) /\ u16_at d (e + 2) = Some (rr_class r)
  /\ u32_at d (e + 4) = Some (rr_ttl r) /\ u16_at d (e + 8) = Some (lenN (rr_rdata r))
  /\ bytes_at d (e + 10) (lenN (rr_rdata r)) = Some (rr_rdata r).
Proof.
  intros (_ & Ht & Hc & Httl & Hrd) -> d. subst d. unfold rr_fixed.
  set (t := be_bytes 2 (rr_type r)). set (c := be_bytes 2 (rr_class r)).
  set (ttl := be_bytes 4 (rr_ttl r)). set (rl := be_bytes 2 (lenN (rr_rdata r))).
  assert (Lt : lenN t = 2) by apply lenN_be_bytes. assert (Lc : lenN c = 2) by apply lenN_be_bytes.
  assert (Lttl : lenN ttl = 4) by apply lenN_be_bytes. assert (Lrl : lenN rl = 2) by apply lenN_be_bytes.
  rewrite <- !app_assoc. split; [|split; [|split; [|split]]].
  - apply u16_at_mid; [exact Ht|reflexivity].
  - rewrite (app_assoc pre t). apply u16_at_mid; [exact Hc|rewrite lenN_app; lia].
  - rewrite (app_assoc pre t), (app_assoc (pre ++ t) c).
    apply u32_at_mid; [exact Httl|rewrite !lenN_app; lia].
  - rewrite (app_assoc pre t), (app_assoc (pre ++ t) c), (app_assoc ((pre ++ t) ++ c) ttl).
    apply u16_at_mid; [lia|rewrite !lenN_app; lia].
  - rewrite (app_assoc pre t), (app_assoc (pre ++ t) c), (app_assoc ((pre ++ t) ++ c) ttl),
      (app_assoc (((pre ++ t) ++ c) ++ ttl) rl).
    apply bytes_at_mid'; [rewrite !lenN_app; lia|reflexivity].
Qed.

Lemma rr_ok_weaken P r : rr_ok P r -> rr_ok (fun _ => True) r.
Proof. intros (_ & H). split; [exact I|exact H]. Qed.

Lemma wire_rr_plain r pre post : rr_ok labels_ok r ->
  wire_rr (pre ++ rfc_encode_rr r ++ post) (lenN pre) r (lenN pre + lenN (rfc_encode_rr r)).
Proof.
  intros Hok. pose proof Hok as (Hn & _). unfold wire_rr, rfc_encode_rr.
  set (nb := rfc_encode_name (rr_name r)).
  exists (lenN pre + lenN nb).
  destruct (rr_fixed_at r (pre ++ nb) post (lenN pre + lenN nb) (rr_ok_weaken _ _ Hok)) as (H1 & H2 & H3 & H4 & H5);
    [now rewrite lenN_app|].
  rewrite <- !app_assoc in *.
  repeat split; try assumption.
  - apply wire_name_plain. now apply labels_ok_len.
  - rewrite lenN_app, lenN_rr_fixed. lia.
Qed.

Lemma wire_list_plain {A} (W : list N -> N -> A -> N -> Prop) (enc : A -> list N) (ok : A -> Prop) :
  (forall x pre post, ok x -> W (pre ++ enc x ++ post) (lenN pre) x (lenN pre + lenN (enc x))) ->
  forall l, Forall ok l -> forall pre post,
    wire_list W (pre ++ flat_map enc l ++ post) (lenN pre) l (lenN pre + lenN (flat_map enc l)).
Proof.
  intros HW l Hl. induction Hl as [|x l Hx Hl IH]; intros pre post.
  - cbn [flat_map]. change (lenN []) with 0. rewrite N.add_0_r. constructor.
  - cbn [flat_map]. rewrite <- app_assoc.
    apply wl_cons with (mid := lenN pre + lenN (enc x)); [apply HW; exact Hx|].
    specialize (IH (pre ++ enc x) post). rewrite <- app_assoc in IH.
    rewrite lenN_app in IH. rewrite lenN_app. rewrite N.add_assoc. exact IH.
Qed.

Lemma rfc_header_len m : lenN (rfc_header m) = 12.
Proof. unfold rfc_header. rewrite !lenN_app, !lenN_be_bytes. reflexivity. Qed.

Theorem wire_msg_plain m : msg_ok labels_ok m -> wire_msg (rfc_encode_msg m) m.
Proof.
  intros (Hid & Hfl & Lq & La & Ln & Lr & Q & A1 & A2 & A3).
  unfold wire_msg, rfc_encode_msg.
  set (q := flat_map rfc_encode_question (rm_qd m)). set (a := flat_map rfc_encode_rr (rm_an m)).
  set (n := flat_map rfc_encode_rr (rm_ns m)). set (r := flat_map rfc_encode_rr (rm_ar m)).
  assert (HL := rfc_header_len m).
  unfold rfc_header in *. rewrite <- !app_assoc.
  set (b1 := be_bytes 2 (rm_id m)) in *. set (b2 := be_bytes 2 (rm_flags m)) in *.
  set (b3 := be_bytes 2 (lenN (rm_qd m))) in *. set (b4 := be_bytes 2 (lenN (rm_an m))) in *.
  set (b5 := be_bytes 2 (lenN (rm_ns m))) in *. set (b6 := be_bytes 2 (lenN (rm_ar m))) in *.
  assert (L1 : lenN b1 = 2) by apply lenN_be_bytes. assert (L2 : lenN b2 = 2) by apply lenN_be_bytes.
  assert (L3 : lenN b3 = 2) by apply lenN_be_bytes. assert (L4 : lenN b4 = 2) by apply lenN_be_bytes.
  assert (L5 : lenN b5 = 2) by apply lenN_be_bytes. assert (L6 : lenN b6 = 2) by apply lenN_be_bytes.
  split; [|split; [|split; [|split; [|split; [|split]]]]].
  - apply (u16_at_mid []); [exact Hid|reflexivity].
  - apply (u16_at_mid b1); [exact Hfl|lia].
  - rewrite (app_assoc b1). apply u16_at_mid; [lia|rewrite lenN_app; lia].
  - rewrite (app_assoc b1), (app_assoc (b1 ++ b2)). apply u16_at_mid; [lia|rewrite !lenN_app; lia].
  - rewrite (app_assoc b1), (app_assoc (b1 ++ b2)), (app_assoc ((b1 ++ b2) ++ b3)).
    apply u16_at_mid; [lia|rewrite !lenN_app; lia].
  - rewrite (app_assoc b1), (app_assoc (b1 ++ b2)), (app_assoc ((b1 ++ b2) ++ b3)),
      (app_assoc (((b1 ++ b2) ++ b3) ++ b4)).
    apply u16_at_mid; [lia|rewrite !lenN_app; lia].
  - set (h := b1 ++ b2 ++ b3 ++ b4 ++ b5 ++ b6) in *.
    replace (b1 ++ b2 ++ b3 ++ b4 ++ b5 ++ b6 ++ q ++ a ++ n ++ r) with (h ++ q ++ a ++ n ++ r)
      by (unfold h; now rewrite <- !app_assoc).
    exists (12 + lenN q), (12 + lenN q + lenN a), (12 + lenN q + lenN a + lenN n),
      (12 + lenN q + lenN a + lenN n + lenN r).
    split; [|split; [|split]].
    + rewrite <- HL. apply (wire_list_plain wire_question rfc_encode_question (question_ok labels_ok));
        [intros; now apply wire_question_plain|exact Q].
    + replace (12 + lenN q) with (lenN (h ++ q)) by (rewrite lenN_app; lia).
      rewrite (app_assoc h q).
      apply (wire_list_plain wire_rr rfc_encode_rr (rr_ok labels_ok)); [intros; now apply wire_rr_plain|exact A1].
    + replace (12 + lenN q + lenN a) with (lenN ((h ++ q) ++ a)) by (rewrite !lenN_app; lia).
      rewrite (app_assoc h q), (app_assoc (h ++ q) a).
      apply (wire_list_plain wire_rr rfc_encode_rr (rr_ok labels_ok)); [intros; now apply wire_rr_plain|exact A2].
    + replace (12 + lenN q + lenN a + lenN n) with (lenN (((h ++ q) ++ a) ++ n)) by (rewrite !lenN_app; lia).
      rewrite (app_assoc h q), (app_assoc (h ++ q) a), (app_assoc ((h ++ q) ++ a) n).
      rewrite <- (app_nil_r r) at 1.
      apply (wire_list_plain wire_rr rfc_encode_rr (rr_ok labels_ok)); [intros; now apply wire_rr_plain|exact A3].
Qed.

(* ------------------------------------------------------------------ *)
(* Theorem I: the library's encoder emits exactly the plain RFC 1035 encoding *)

Lemma encode_question_rfc q : question_ok labels_ok q ->
  encode_question (lib_q q) = Ok (rfc_encode_question q).
Proof.
  intros (Hn & _). unfold encode_question, lib_q. cbn [q_name q_type q_class].
  rewrite name_text_join, (encode_name_rfc _ Hn). reflexivity.
Qed.

Lemma wrap16_small n : n <= 65535 -> wrap16 n = n.
Proof. intros H. unfold wrap16. apply N.mod_small. lia. Qed.

Lemma encode_rr_rfc r : rr_ok labels_ok r -> encode_rr (lib_rr r) = Ok (rfc_encode_rr r).
Proof.
  intros (Hn & _ & _ & _ & Hrd). unfold encode_rr, lib_rr. cbn [r_name r_type r_class r_ttl r_data].
  rewrite name_text_join, (encode_name_rfc _ Hn). cbn [bind]. rewrite wrap16_small by exact Hrd. reflexivity.
Qed.

Lemma encode_all_rfc {A B} (enc : B -> R (list N)) (renc : A -> list N) (conv : A -> B) (ok : A -> Prop) :
  (forall x, ok x -> enc (conv x) = Ok (renc x)) ->
  forall l, Forall ok l -> encode_all enc (map conv l) = Ok (flat_map renc l).
Proof.
  intros H l Hl. induction Hl as [|x l Hx Hl IH]; [reflexivity|].
  cbn [map encode_all flat_map]. rewrite (H _ Hx). cbn [bind]. rewrite IH. reflexivity.
Qed.

Lemma lenN_map {A B} (f : A -> B) l : lenN (map f l) = lenN l.
Proof. unfold lenN. now rewrite map_length. Qed.

Theorem encode_message_rfc m : msg_ok labels_ok m ->
  encode_message (lib_msg m) = Ok (rfc_encode_msg m).
Proof.
  intros (Hid & Hfl & Lq & La & Ln & Lr & Q & A1 & A2 & A3).
  unfold encode_message, lib_msg. cbn [m_questions m_answers m_authority m_additional].
  rewrite (encode_all_rfc encode_question rfc_encode_question lib_q _ encode_question_rfc _ Q).
  rewrite (encode_all_rfc encode_rr rfc_encode_rr lib_rr _ encode_rr_rfc _ A1).
  rewrite (encode_all_rfc encode_rr rfc_encode_rr lib_rr _ encode_rr_rfc _ A2).
  rewrite (encode_all_rfc encode_rr rfc_encode_rr lib_rr _ encode_rr_rfc _ A3).
  cbn [bind]. unfold encode_header, rfc_encode_msg, rfc_header.
  cbn [m_id m_flags m_questions m_answers m_authority m_additional].
  rewrite !lenN_map. rewrite !wrap16_small by assumption. unfold be16.
  now rewrite <- !app_assoc.
Qed.

(* ------------------------------------------------------------------ *)
(* library structures <-> abstract content *)

Lemma abs_lib_name s : name_text (split_dot s) = s.
Proof. rewrite name_text_join. apply join_split. Qed.

Lemma text_labels_ok_labels s : text_labels_ok s -> labels_ok (split_dot s).
Proof.
  intros H. split; [apply split_dot_nonempty|].
  pose proof (split_dot_all_nodot s) as Hd. unfold text_labels_ok in H.
  revert H Hd. generalize (split_dot s). induction 1 as [|l n Hl Hn IH]; intros Hd; constructor.
  - split; [exact Hl|]. now inversion Hd.
  - apply IH. now inversion Hd.
Qed.

Lemma lib_abs_q q : lib_q (abs_q q) = q.
Proof. destruct q. unfold lib_q, abs_q. cbn. now rewrite abs_lib_name. Qed.

Lemma lib_abs_rr r : lib_rr (abs_rr r) = normalize_rr r.
Proof. destruct r. unfold lib_rr, abs_rr, normalize_rr. cbn. now rewrite abs_lib_name. Qed.

Lemma map_lib_abs_q l : map lib_q (map abs_q l) = l.
Proof. rewrite map_map. rewrite <- (map_id l) at 2. apply map_ext. apply lib_abs_q. Qed.

Lemma map_lib_abs_rr l : map lib_rr (map abs_rr l) = map normalize_rr l.
Proof. rewrite map_map. apply map_ext. apply lib_abs_rr. Qed.

Lemma lib_abs_msg m : lib_msg (abs_msg m) = normalize m.
Proof.
  unfold lib_msg, abs_msg, normalize. cbn [rm_id rm_flags rm_qd rm_an rm_ns rm_ar].
  rewrite !lenN_map, map_lib_abs_q, !map_lib_abs_rr. reflexivity.
Qed.

Lemma abs_msg_ok (P : list N -> Prop) (P' : name -> Prop) m :
  (forall s, P s -> P' (split_dot s)) -> lib_msg_ok P m -> msg_ok P' (abs_msg m).
Proof.
  intros HP (Hid & Hfl & Lq & La & Ln & Lr & Q & RR).
  unfold msg_ok, abs_msg. cbn [rm_id rm_flags rm_qd rm_an rm_ns rm_ar]. rewrite !lenN_map.
  repeat split; try assumption.
  - apply Forall_forall. intros q' Hin. apply in_map_iff in Hin. destruct Hin as (q & <- & Hin).
    rewrite Forall_forall in Q. destruct (Q _ Hin) as (H1 & H2 & H3).
    unfold question_ok, abs_q. cbn. auto.
  - apply Forall_forall. intros r' Hin. apply in_map_iff in Hin. destruct Hin as (r & <- & Hin).
    destruct (RR r) as (H1 & H2); [apply in_or_app; now left|]. unfold rr_ok, abs_rr. cbn. auto.
  - apply Forall_forall. intros r' Hin. apply in_map_iff in Hin. destruct Hin as (r & <- & Hin).
    destruct (RR r) as (H1 & H2); [apply in_or_app; right; apply in_or_app; now left|]. unfold rr_ok, abs_rr. cbn. auto.
  - apply Forall_forall. intros r' Hin. apply in_map_iff in Hin. destruct Hin as (r & <- & Hin).
    destruct (RR r) as (H1 & H2); [apply in_or_app; right; apply in_or_app; now right|]. unfold rr_ok, abs_rr. cbn. auto.
Qed.

(* Encode ignores the stored counts and RDLength fields *)
Lemma encode_rr_normalize r : encode_rr (normalize_rr r) = encode_rr r.
Proof. reflexivity. Qed.

Lemma encode_all_ext {A} (f g : A -> R (list N)) l : (forall x, f x = g x) -> encode_all f l = encode_all g l.
Proof. intros H. induction l as [|x l IH]; [reflexivity|]. cbn [encode_all]. now rewrite H, IH. Qed.

Lemma encode_all_map_normalize l : encode_all encode_rr (map normalize_rr l) = encode_all encode_rr l.
Proof. induction l as [|x l IH]; [reflexivity|]. cbn [map encode_all]. now rewrite IH. Qed.

Lemma encode_message_normalize m : encode_message (normalize m) = encode_message m.
Proof.
  unfold encode_message, normalize, encode_header.
  cbn [m_id m_flags m_questions m_answers m_authority m_additional].
  rewrite !encode_all_map_normalize, !lenN_map. reflexivity.
Qed.

(* Round trip of the library codec, all four sections *)
Theorem message_roundtrip m : lib_msg_ok text_labels_ok m ->
  exists b, encode_message m = Ok b /\ decode_message b = Ok (normalize m).
Proof.
  intros Hok.
  assert (Hok' : msg_ok labels_ok (abs_msg m)) by (eapply abs_msg_ok; [apply text_labels_ok_labels|exact Hok]).
  exists (rfc_encode_msg (abs_msg m)). split.
  - rewrite <- encode_message_normalize, <- lib_abs_msg. now apply encode_message_rfc.
  - rewrite <- lib_abs_msg. apply decode_message_wire; [now apply wire_msg_plain|exact Hok'].
Qed.

(* ------------------------------------------------------------------ *)
(* Totality of the record and message decoders *)

Theorem decode_question_total d off : decode_question d off <> Panic.
Proof.
  unfold decode_question. pose proof (decode_name_total d off) as Hn.
  destruct (decode_name d off) as [no| |] eqn:E; cbn [bind]; [|discriminate|congruence].
  destruct (N.ltb_spec (lenN d) (snd no + 4)) as [|Hle]; [discriminate|].
  pose proof (be16_at_no_panic d (snd no)) as H1. pose proof (be16_at_no_panic d (snd no + 2)) as H2.
  destruct (be16_at d (snd no)); cbn [bind]; [|discriminate|exfalso; apply H1; [lia|reflexivity]].
  destruct (be16_at d (snd no + 2)); cbn [bind]; [discriminate|discriminate|exfalso; apply H2; [lia|reflexivity]].
Qed.

Theorem decode_rr_total d off : decode_rr d off <> Panic.
Proof.
  unfold decode_rr. pose proof (decode_name_total d off) as Hn.
  destruct (decode_name d off) as [no| |] eqn:E; cbn [bind]; [|discriminate|congruence].
  destruct (N.ltb_spec (lenN d) (snd no + 10)) as [|Hle]; [discriminate|].
  pose proof (be16_at_no_panic d (snd no)) as H1. pose proof (be16_at_no_panic d (snd no + 2)) as H2.
  pose proof (be32_at_no_panic d (snd no + 4)) as H3. pose proof (be16_at_no_panic d (snd no + 8)) as H4.
  destruct (be16_at d (snd no)); cbn [bind]; [|discriminate|exfalso; apply H1; [lia|reflexivity]].
  destruct (be16_at d (snd no + 2)); cbn [bind]; [|discriminate|exfalso; apply H2; [lia|reflexivity]].
  destruct (be32_at d (snd no + 4)); cbn [bind]; [|discriminate|exfalso; apply H3; [lia|reflexivity]].
  destruct (be16_at d (snd no + 8)) as [rdl| |]; cbn [bind]; [|discriminate|exfalso; apply H4; [lia|reflexivity]].
  destruct (N.ltb_spec (lenN d) (snd no + 10 + rdl)) as [|Hle2]; [discriminate|].
  rewrite go_slice_ok by lia. discriminate.
Qed.

Lemma decode_n_total {A} (dec : list N -> N -> R (A * N)) d :
  (forall off, dec d off <> Panic) -> forall n off, decode_n dec d n off <> Panic.
Proof.
  intros H. induction n as [|n IH]; intros off; cbn [decode_n]; [discriminate|].
  specialize (H off). destruct (dec d off) as [xo| |]; cbn [bind]; [|discriminate|congruence].
  specialize (IH (snd xo)). destruct (decode_n dec d n (snd xo)); cbn [bind]; [discriminate|discriminate|congruence].
Qed.

Theorem decode_message_total d : decode_message d <> Panic.
Proof.
  unfold decode_message, HeaderSize, c09_header_size. destruct (N.ltb_spec (lenN d) 12) as [|Hle]; [discriminate|].
  pose proof (be16_at_no_panic d 0) as H0. pose proof (be16_at_no_panic d 2) as H2.
  pose proof (be16_at_no_panic d 4) as H4. pose proof (be16_at_no_panic d 6) as H6.
  pose proof (be16_at_no_panic d 8) as H8. pose proof (be16_at_no_panic d 10) as H10.
  destruct (be16_at d 0); cbn [bind]; [|discriminate|exfalso; apply H0; [lia|reflexivity]].
  destruct (be16_at d 2); cbn [bind]; [|discriminate|exfalso; apply H2; [lia|reflexivity]].
  destruct (be16_at d 4) as [qd| |]; cbn [bind]; [|discriminate|exfalso; apply H4; [lia|reflexivity]].
  destruct (be16_at d 6) as [an| |]; cbn [bind]; [|discriminate|exfalso; apply H6; [lia|reflexivity]].
  destruct (be16_at d 8) as [ns| |]; cbn [bind]; [|discriminate|exfalso; apply H8; [lia|reflexivity]].
  destruct (be16_at d 10) as [ar| |]; cbn [bind]; [|discriminate|exfalso; apply H10; [lia|reflexivity]].
  pose proof (decode_n_total decode_question d (decode_question_total d)) as TQ.
  pose proof (decode_n_total decode_rr d (decode_rr_total d)) as TR.
  specialize (TQ (N.to_nat qd) 12).
  destruct (decode_n decode_question d (N.to_nat qd) 12) as [qs| |]; cbn [bind]; [|discriminate|congruence].
  pose proof (TR (N.to_nat an) (snd qs)) as T1.
  destruct (decode_n decode_rr d (N.to_nat an) (snd qs)) as [ans| |]; cbn [bind]; [|discriminate|congruence].
  pose proof (TR (N.to_nat ns) (snd ans)) as T2.
  destruct (decode_n decode_rr d (N.to_nat ns) (snd ans)) as [aut| |]; cbn [bind]; [|discriminate|congruence].
  pose proof (TR (N.to_nat ar) (snd aut)) as T3.
  destruct (decode_n decode_rr d (N.to_nat ar) (snd aut)) as [add| |]; cbn [bind]; [discriminate|discriminate|congruence].
Qed.
