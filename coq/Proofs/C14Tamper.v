(* C14 — tampering: flipping any bit at or after the stored key hash of a serialised credential makes
   FromBytes + CheckIntegrity refuse the blob, unless SHA-256 itself fails:
   - a bit of the stored hash value: refused, unconditionally;
   - a bit of the covered entries: accepted only if the hashed bytes m' of the corrupted blob satisfy
       sha256 m' = sha256 m with m' <> m                      (a collision with the original bytes m), or
       sha256 m' occurs inside m'                              (a message that contains its own image:
         the corruption re-delimited the entries so that a later one reads as a KeyHash entry whose
         value, taken from the covered bytes themselves, is the hash of those bytes).
   No injectivity or other property of SHA-256 is assumed. *)
From Coq Require Import List Arith NArith ZArith Lia Bool.
From Coq Require Import ZifyN ZifyNat ZifyBool.
From Mant Require Import Prim.R Prim.Bytes Prim.Dec Algo.SHA256 Model.Guid Model.WinTime Model.KeyCred
  Spec.C14 Proofs.AlgoProofs Proofs.C14Base Proofs.C14Codec Proofs.C14Proofs.
Import ListNotations.
Open Scope N_scope.

Opaque sha256.

(* ------------------------------------------------------------------ flipping a bit *)

Lemma lxor_pow2_neq x j : N.lxor x (2 ^ j) <> x.
Proof.
  intros H. assert (E : N.lxor x (N.lxor x (2 ^ j)) = N.lxor x x) by now rewrite H.
  rewrite <- N.lxor_assoc, N.lxor_nilpotent, N.lxor_0_l in E.
  pose proof (N.pow_nonzero 2 j). lia.
Qed.

Lemma flip_at_length n j l : length (flip_at n j l) = length l.
Proof. revert n; induction l as [|x l IH]; intros [|n]; cbn [flip_at length]; auto. Qed.

Lemma flip_at_neq n j l : (n < length l)%nat -> flip_at n j l <> l.
Proof.
  revert n; induction l as [|x l IH]; intros [|n] H; cbn [length] in H; try lia; cbn [flip_at].
  - intros E. injection E as E. now apply lxor_pow2_neq in E.
  - intros E. injection E as E. revert E. apply IH. lia.
Qed.

Lemma flip_at_app n j a b : (length a <= n)%nat -> flip_at n j (a ++ b) = a ++ flip_at (n - length a) j b.
Proof.
  revert n; induction a as [|x a IH]; intros n H.
  - cbn [app length]. now rewrite Nat.sub_0_r.
  - cbn [length] in H. destruct n as [|n]; [lia|]. cbn [app flip_at length Nat.sub]. rewrite IH by lia. reflexivity.
Qed.

Lemma flip_at_app_l n j a b : (n < length a)%nat -> flip_at n j (a ++ b) = flip_at n j a ++ b.
Proof.
  revert n; induction a as [|x a IH]; intros n H; cbn [length] in H; [lia|].
  destruct n as [|n]; cbn [app flip_at]; [reflexivity|]. rewrite IH by lia. reflexivity.
Qed.

(* ------------------------------------------------------------------ what FromBytes can make of the key hash *)

Lemma infix_refl_mid (p a s : list N) : infix a (p ++ a ++ s).
Proof. now exists p, s. Qed.

Lemma infix_app_l (a b p : list N) : infix a b -> infix a (p ++ b).
Proof. intros (p' & s & ->). exists (p ++ p'), s. now rewrite <- app_assoc. Qed.

Lemma infix_app_r (a b s : list N) : infix a b -> infix a (b ++ s).
Proof. intros (p & s' & ->). exists p, (s' ++ s). now rewrite <- !app_assoc. Qed.

(* one entry either leaves the stored hash alone or replaces it by its own value; RawBytes is not touched *)
Lemma apply_entry_keyhash now k t data k1 :
  apply_entry now k t data = Ok k1 ->
  kRaw k1 = kRaw k /\ (kKeyHash k1 = kKeyHash k \/ kKeyHash k1 = data).
Proof.
  unfold apply_entry. intros H.
  destruct (t =? 1); [injection H as <-; split; [reflexivity | now left]|].
  destruct (t =? 2); [injection H as <-; split; [reflexivity | now right]|].
  destruct (t =? 3).
  { destruct (rsa_from_bytes data); try discriminate; injection H as <-; split; try reflexivity; now left. }
  destruct (t =? 4).
  { destruct (lenN data =? 1).
    - destruct (go_index data 0); try discriminate. cbn [bind] in H. injection H as <-. split; [reflexivity | now left].
    - injection H as <-. split; [reflexivity | now left]. }
  destruct (t =? 5).
  { destruct (lenN data <? 1); [discriminate|].
    destruct (go_index data 0); try discriminate. cbn [bind] in H. injection H as <-. split; [reflexivity | now left]. }
  destruct (t =? 6).
  { destruct (guid_from_raw data); try discriminate; injection H as <-; split; try reflexivity; now left. }
  destruct (t =? 7).
  { destruct (cki_from_bytes (kCki k) data); try discriminate. cbn [bind] in H. injection H as <-.
    split; [reflexivity | now left]. }
  destruct (t =? 8).
  { destruct (convert_from_binary_time_go _ _ _ _); try discriminate. cbn [bind] in H. injection H as <-.
    split; [reflexivity | now left]. }
  destruct (t =? 9).
  { destruct (convert_from_binary_time_go _ _ _ _); try discriminate. cbn [bind] in H. injection H as <-.
    split; [reflexivity | now left]. }
  injection H as <-. split; [reflexivity | now left].
Qed.

(* after walking ANY bytes, the stored hash is the one held before or a block of those bytes *)
Lemma walk_keyhash now : forall n rem k k',
  (length rem <= n)%nat -> walk now k rem = Ok k' ->
  kRaw k' = kRaw k /\ (kKeyHash k' = kKeyHash k \/ infix (kKeyHash k') rem).
Proof.
  induction n as [|n IH]; intros rem k k' Hn H.
  - rewrite walk_short in H by lia. injection H as <-. split; [reflexivity | now left].
  - destruct rem as [|a [|b [|t [|x tl]]]];
      try (rewrite walk_short in H by (cbn [length]; lia); injection H as <-; split; [reflexivity | now left]).
    rewrite walk_step in H. cbv zeta in H.
    destruct (lenN (x :: tl) <? le_val [a; b]); [discriminate|].
    set (len := N.to_nat (le_val [a; b])) in *.
    destruct (apply_entry now k t (firstn len (x :: tl))) as [k1| |] eqn:E1; try discriminate. cbn [bind] in H.
    apply apply_entry_keyhash in E1. destruct E1 as (R1 & K1).
    assert (Hl : (length (skipn len (x :: tl)) <= n)%nat) by (rewrite skipn_length; cbn [length] in *; lia).
    destruct (IH _ _ _ Hl H) as (R2 & K2).
    assert (Erem : a :: b :: t :: x :: tl = [a; b; t] ++ firstn len (x :: tl) ++ skipn len (x :: tl))
      by (now rewrite firstn_skipn).
    split; [congruence|]. rewrite Erem.
    destruct K2 as [K2|K2].
    + destruct K1 as [K1|K1]; [left; congruence|]. right. rewrite K2, K1. apply infix_refl_mid.
    + right. apply infix_app_l, infix_app_l. exact K2.
Qed.

(* ------------------------------------------------------------------ the two theorems *)

(* a bit of the stored hash value (bytes head_len - 32 .. head_len - 1): always refused *)
Definition hash_offset : N := 4 + 35 + 3.       (* version, KeyID entry, header of the KeyHash entry *)
Definition covered_offset : N := hash_offset + 32.

Lemma verify_head now v id h rest :
  v < 2 ^ 32 -> 0 < lenN id <= 65535 -> 0 < lenN h <= 65535 ->
  kc_verify now (le_bytes 4 v ++ entry 1 id ++ entry 2 h ++ rest) = Ok true ->
  exists k' m', walk now (set_keyhash (set_identifier (set_version (set_raw zero_kc
                   (le_bytes 4 v ++ entry 1 id ++ entry 2 h ++ rest)) v) (id_from_binary id v)) h) rest = Ok k' /\
                hwalk rest rest = Ok m' /\ sha256 m' = kKeyHash k'.
Proof.
  intros Hv Hid Hh. unfold kc_verify. rewrite from_bytes_head by assumption.
  set (raw := le_bytes 4 v ++ entry 1 id ++ entry 2 h ++ rest).
  set (k2 := set_keyhash _ h).
  destruct (walk now k2 rest) as [k'| |] eqn:Ew; try discriminate. cbn [bind].
  destruct (walk_keyhash now (length rest) rest k2 k' (le_n _) Ew) as (Hraw & _).
  change (kRaw k2) with raw in Hraw.
  unfold check_integrity, compute_key_hash. rewrite Hraw.
  destruct (N.ltb_spec (lenN raw) 4) as [H|_].
  { unfold raw in H. rewrite lenN_app, lenN_le_bytes in H. lia. }
  unfold raw. rewrite covered_head by assumption.
  destruct (hwalk_appends (length rest) rest rest (le_n _)) as (e & Ee). rewrite Ee. cbn [bind fst snd].
  intros H. injection H as H. apply bytes_eqb_spec in H. unfold compute_hash in H.
  exists k', (rest ++ e). auto.
Qed.

Theorem tamper now c i :
  cred_ok c -> fits c ->
  8 * covered_offset <= i < 8 * lenN (spec_blob c) ->
  kc_verify now (flip_bit (spec_blob c) i) = Ok true ->
  exists m', kc_covered (spec_blob c) = Ok (spec_tail c) /\
             kc_covered (flip_bit (spec_blob c) i) = Ok m' /\
             ((sha256 m' = sha256 (spec_tail c) /\ m' <> spec_tail c) \/ infix (sha256 m') m').
Proof.
  intros Hok Hfit Hi Hacc. pose proof Hok as (Hv & _).
  assert (Hid : 0 < lenN (spec_key_id c) <= 65535) by (unfold spec_key_id; rewrite lenN_sha256; lia).
  assert (Hh : 0 < lenN (spec_key_hash c) <= 65535) by (unfold spec_key_hash; rewrite lenN_sha256; lia).
  assert (Lhead : length (spec_head c) = N.to_nat covered_offset).
  { unfold spec_head, entry. rewrite !app_length, !length_le_bytes. cbn [length].
    unfold spec_key_id, spec_key_hash. rewrite !sha256_length. reflexivity. }
  (* the corrupted blob is the untouched head followed by a different tail of the same length *)
  set (n := N.to_nat (i / 8)) in *.
  assert (Hn : (length (spec_head c) <= n < length (spec_blob c))%nat).
  { rewrite Lhead. unfold n. pose proof (N.div_mod i 8). unfold lenN in Hi.
    assert (i / 8 < N.of_nat (length (spec_blob c))) by (apply N.div_lt_upper_bound; lia).
    assert (covered_offset <= i / 8) by (apply N.div_le_lower_bound; lia). lia. }
  set (tail' := flip_at (n - length (spec_head c)) (i mod 8) (spec_tail c)).
  assert (Eflip : flip_bit (spec_blob c) i = spec_head c ++ tail').
  { unfold flip_bit. fold n. unfold spec_blob. apply flip_at_app. lia. }
  assert (Hlen : length tail' = length (spec_tail c)) by apply flip_at_length.
  assert (Hneq : tail' <> spec_tail c).
  { apply flip_at_neq. unfold spec_blob in Hn. rewrite app_length in Hn. lia. }
  rewrite Eflip in *. unfold spec_head in Hacc |- *. rewrite <- !app_assoc in Hacc |- *.
  destruct (verify_head now _ _ _ _ Hv Hid Hh Hacc) as (k' & m' & Ew & Em & Eh).
  exists m'. split; [|split].
  - rewrite <- blob_with_hash. now apply covered_blob.
  - rewrite covered_head by assumption. exact Em.
  - destruct (hwalk_appends (length tail') tail' tail' (le_n _)) as (e & Ee).
    rewrite Ee in Em. injection Em as <-.
    destruct (walk_keyhash now (length tail') tail' _ k' (le_n _) Ew) as (_ & [K|K]).
    + left. cbn [kKeyHash set_keyhash] in K. rewrite Eh, K. split; [reflexivity|].
      intros E. apply Hneq. apply (f_equal (firstn (length tail'))) in E.
      rewrite firstn_app, firstn_all, Nat.sub_diag in E. cbn [firstn] in E. rewrite app_nil_r in E.
      rewrite E, Hlen. apply firstn_all.
    + right. rewrite Eh. now apply infix_app_r.
Qed.

(* the stored hash value itself: any flipped bit is refused outright *)
Theorem tamper_hash now c i :
  cred_ok c -> fits c ->
  8 * hash_offset <= i < 8 * covered_offset ->
  kc_verify now (flip_bit (spec_blob c) i) = Ok false.
Proof.
  intros Hok Hfit Hi. pose proof Hok as (Hv & _).
  assert (Hid : 0 < lenN (spec_key_id c) <= 65535) by (unfold spec_key_id; rewrite lenN_sha256; lia).
  set (pre := le_bytes 4 (sVersion c) ++ entry 1 (spec_key_id c) ++ le_bytes 2 32 ++ [2]).
  assert (Lpre : length pre = N.to_nat hash_offset).
  { unfold pre, entry. rewrite !app_length, !length_le_bytes. cbn [length].
    unfold spec_key_id. rewrite !sha256_length. reflexivity. }
  assert (Eblob : spec_blob c = pre ++ spec_key_hash c ++ spec_tail c).
  { unfold spec_blob, spec_head, pre, entry. unfold spec_key_hash at 1. rewrite lenN_sha256.
    now rewrite <- !app_assoc. }
  set (n := N.to_nat (i / 8)) in *.
  assert (Hn : (length pre <= n < length pre + 32)%nat).
  { rewrite Lpre. unfold n. pose proof (N.div_mod i 8). unfold covered_offset in Hi.
    assert (i / 8 < hash_offset + 32) by (apply N.div_lt_upper_bound; lia).
    assert (hash_offset <= i / 8) by (apply N.div_le_lower_bound; lia). lia. }
  assert (L32 : length (spec_key_hash c) = 32%nat) by (unfold spec_key_hash; apply sha256_length).
  set (h' := flip_at (n - length pre) (i mod 8) (spec_key_hash c)).
  assert (Lh' : length h' = 32%nat) by (unfold h'; now rewrite flip_at_length).
  assert (Hneq : h' <> spec_key_hash c) by (apply flip_at_neq; lia).
  assert (Eflip : flip_bit (spec_blob c) i = le_bytes 4 (sVersion c) ++ entry 1 (spec_key_id c) ++ entry 2 h' ++ spec_tail c).
  { unfold flip_bit. fold n. rewrite Eblob. rewrite flip_at_app by lia. rewrite flip_at_app_l by lia.
    fold h'. assert (E32 : lenN h' = 32) by (unfold lenN; now rewrite Lh').
    unfold pre, entry. rewrite E32. now rewrite <- !app_assoc. }
  assert (Hh' : 0 < lenN h' <= 65535) by (unfold lenN; rewrite Lh'; lia).
  rewrite Eflip. unfold kc_verify. rewrite from_bytes_head by assumption.
  rewrite walk_tail by assumption. cbn [bind].
  unfold check_integrity, compute_key_hash.
  cbn [kRaw set_raw set_version set_identifier set_keyhash set_rsa set_usage set_source set_device set_cki
       set_lastlogon set_creation zero_kc].
  match goal with |- context [lenN ?r <? 4] => destruct (N.ltb_spec (lenN r) 4) as [H|_] end.
  { rewrite lenN_app, lenN_le_bytes in H. lia. }
  fold (blob_with c h'). rewrite covered_blob by assumption. cbn [bind fst snd].
  cbn [kKeyHash set_raw set_version set_identifier set_keyhash set_rsa set_usage set_source set_device set_cki
       set_lastlogon set_creation zero_kc].
  unfold compute_hash. fold (spec_key_hash c).
  destruct (bytes_eqb (spec_key_hash c) h') eqn:E; [|reflexivity].
  apply bytes_eqb_spec in E. congruence.
Qed.
