(* The decidable side conditions of the generic C19 theorems, evaluated on the tables that go2coq
   regenerated from the Go source on this run.  Each is a finite computation (the tables are finite),
   so vm_compute is a proof here.  If the source changes so that a condition becomes false, this file
   stops compiling and the failing lemma names the table. *)
From Coq Require Import List NArith ZArith String Bool Sorting.Permutation.
From Mant Require Import Model.Flags Spec.C19 Proofs.C19Proofs Gen.Tables Gen.TablesNt.
Import ListNotations.
Open Scope string_scope.

Lemma faithful_of_ok t : table_ok_weak t = true -> faithful t.
Proof.
  intros H. repeat split.
  - now apply decompose_exact_weak.
  - now apply decompose_nodup.
  - now apply decompose_in.
  - now apply decompose_in.
  - now apply masks_distinct.
Qed.

Lemma named_of_ok cs t : names_ok t = true -> rows_complete cs t = true -> named cs t.
Proof.
  intros H1 H2. repeat split.
  - now apply names_unique.
  - now apply names_not_placeholder.
  - now apply rows_complete_lookup.
Qed.

Lemma preds_own_bit_of_ok ps : forallb pred_ok ps = true -> preds_own_bit ps.
Proof. intros H p Hp. apply pred_own_bit. rewrite forallb_forall in H. auto. Qed.

Lemma preds_are_bits_of_ok ps : forallb pred_ok ps = true -> preds_are_bits ps.
Proof. intros H p Hp. apply pred_is_its_bit. rewrite forallb_forall in H. auto. Qed.

Lemma map_decompose_chain t w : map_decompose t w = decompose (chain_of_map t) w.
Proof.
  unfold map_decompose, decompose, chain_of_map.
  induction t as [|e t IH]; [reflexivity|]. cbn [map filter].
  unfold entry_holds at 1, test, ce_mask, ce_cmp, ce_eq. cbn [Z.to_N].
  destruct (negb (N.land w (Z.to_N (me_val e)) =? 0)%N); cbn [map]; now rewrite IH.
Qed.

(* sorting *)
Lemma insert_perm s l : Permutation (insert_sorted s l) (s :: l).
Proof.
  induction l as [|x l IH]; [reflexivity|]. cbn [insert_sorted]. destruct (String.leb s x); [reflexivity|].
  rewrite IH. apply perm_swap.
Qed.

Lemma sort_perm l : Permutation (sort_strings l) l.
Proof.
  induction l as [|x l IH]; [reflexivity|]. cbn [sort_strings fold_right]. fold (sort_strings l).
  rewrite insert_perm. now constructor.
Qed.

Lemma sortedb_cons2 x y l : sortedb (x :: y :: l) = String.leb x y && sortedb (y :: l).
Proof. reflexivity. Qed.

Lemma insert_sorted_sorted s l : sortedb l = true -> sortedb (insert_sorted s l) = true.
Proof.
  induction l as [|x l IH]; intros H; [reflexivity|]. cbn [insert_sorted].
  destruct (String.leb s x) eqn:E.
  - rewrite sortedb_cons2. now rewrite E, H.
  - assert (Hxs : String.leb x s = true) by (destruct (String.leb_total s x); congruence).
    destruct l as [|y l].
    + cbn [insert_sorted]. rewrite sortedb_cons2. now rewrite Hxs.
    + rewrite sortedb_cons2 in H. apply andb_true_iff in H. destruct H as [Hxy Hs]. specialize (IH Hs).
      cbn [insert_sorted] in *. destruct (String.leb s y) eqn:E2.
      * rewrite sortedb_cons2. now rewrite Hxs, IH.
      * rewrite sortedb_cons2. now rewrite Hxy, IH.
Qed.

Lemma sort_sorted l : sortedb (sort_strings l) = true.
Proof.
  induction l as [|x l IH]; [reflexivity|]. cbn [sort_strings fold_right]. fold (sort_strings l).
  now apply insert_sorted_sorted.
Qed.

(* ---- flag chains ---- *)
Lemma ok_flags : table_ok chain_flags_Flags_String = true. Proof. vm_cast_no_check (@eq_refl bool true). Qed.
Lemma ok_flags2 : table_ok chain_flags2_Flags2_String = true. Proof. vm_cast_no_check (@eq_refl bool true). Qed.
Lemma ok_capabilities : table_ok chain_capabilities_Capabilities_String = true. Proof. vm_cast_no_check (@eq_refl bool true). Qed.
Lemma ok_ckiflags : table_ok_weak chain_key_CustomKeyInformationFlags_FromBytes = true. Proof. vm_cast_no_check (@eq_refl bool true). Qed.
Lemma ok_uac : table_ok (chain_of_map map_ldap_attributes_UserAccountControlMap) = true. Proof. vm_cast_no_check (@eq_refl bool true). Qed.

(* every chain covers every non-reserved single-bit constant of its package *)
Definition chain_covers (cs : list const_entry) (t : list chain_entry) : bool :=
  forallb (fun c => negb (single_bit (Z.to_N (co_val c))) || Z.eqb (co_val c) 0
                    || existsb (fun e => Z.eqb (ce_maskz e) (co_val c)) t) cs.
Lemma cover_flags : chain_covers consts_flags chain_flags_Flags_String = true. Proof. vm_cast_no_check (@eq_refl bool true). Qed.
Lemma cover_flags2 : chain_covers consts_flags2 chain_flags2_Flags2_String = true. Proof. vm_cast_no_check (@eq_refl bool true). Qed.
Lemma cover_capabilities : chain_covers (consts_of "Capabilities" consts_capabilities) chain_capabilities_Capabilities_String = true.
Proof. vm_cast_no_check (@eq_refl bool true). Qed.

(* ---- predicates ---- *)
Lemma ok_preds_flags : forallb pred_ok preds_flags = true. Proof. vm_cast_no_check (@eq_refl bool true). Qed.
Lemma ok_preds_flags2 : forallb pred_ok preds_flags2 = true. Proof. vm_cast_no_check (@eq_refl bool true). Qed.
Lemma ok_preds_securitymode : forallb pred_ok preds_securitymode = true. Proof. vm_cast_no_check (@eq_refl bool true). Qed.
(* no two predicates of the same polarity test the same bit, and each tests a declared constant *)
Definition preds_cover (cs : list const_entry) (ps : list pred_entry) : bool :=
  forallb (fun c => Nat.leb (List.length (filter (fun p => Z.eqb (pe_maskz p) (co_val c) && pred_positive p) ps)) 1) cs
  && forallb (fun p => existsb (fun c => String.eqb (co_name c) (let '(_, _, mi, _, _, _) := p in mi)
                                         && Z.eqb (co_val c) (pe_maskz p)) cs) ps.
Lemma cover_preds_flags : preds_cover consts_flags preds_flags = true. Proof. vm_cast_no_check (@eq_refl bool true). Qed.
Lemma cover_preds_flags2 : preds_cover consts_flags2 preds_flags2 = true. Proof. vm_cast_no_check (@eq_refl bool true). Qed.
Lemma cover_preds_securitymode : preds_cover consts_securitymode preds_securitymode = true. Proof. vm_cast_no_check (@eq_refl bool true). Qed.

(* ---- name tables ---- *)
Definition L := consts_ldap_attributes.
Lemma names_codes : names_ok map_codes_CommandCodeNames = true. Proof. vm_cast_no_check (@eq_refl bool true). Qed.
Lemma complete_codes : rows_complete (consts_of "CommandCode" consts_codes) map_codes_CommandCodeNames = true. Proof. vm_cast_no_check (@eq_refl bool true). Qed.
Lemma idents_codes : names_match_idents map_codes_CommandCodeNames && rows_declared consts_codes map_codes_CommandCodeNames = true. Proof. vm_cast_no_check (@eq_refl bool true). Qed.

Lemma names_nttrans : names_ok map_subcommands_NtTransactSubcommandsToString = true. Proof. vm_cast_no_check (@eq_refl bool true). Qed.
Lemma complete_nttrans : rows_complete (consts_of "NtTransactSubcommand" consts_subcommands) map_subcommands_NtTransactSubcommandsToString = true. Proof. vm_cast_no_check (@eq_refl bool true). Qed.
Lemma names_trans2 : names_ok map_subcommands_Transaction2SubcommandsToString = true. Proof. vm_cast_no_check (@eq_refl bool true). Qed.
Lemma complete_trans2 : rows_complete (consts_of "Transaction2Subcommand" consts_subcommands) map_subcommands_Transaction2SubcommandsToString = true. Proof. vm_cast_no_check (@eq_refl bool true). Qed.
Lemma names_trans : names_ok map_subcommands_TransactionSubcommandsToString = true. Proof. vm_cast_no_check (@eq_refl bool true). Qed.
Lemma complete_trans : rows_complete (consts_of "TransactionSubcommand" consts_subcommands) map_subcommands_TransactionSubcommandsToString = true. Proof. vm_cast_no_check (@eq_refl bool true). Qed.
Lemma idents_subcommands :
  names_match_idents map_subcommands_NtTransactSubcommandsToString && rows_declared consts_subcommands map_subcommands_NtTransactSubcommandsToString &&
  names_match_idents map_subcommands_Transaction2SubcommandsToString && rows_declared consts_subcommands map_subcommands_Transaction2SubcommandsToString &&
  names_match_idents map_subcommands_TransactionSubcommandsToString && rows_declared consts_subcommands map_subcommands_TransactionSubcommandsToString = true.
Proof. vm_cast_no_check (@eq_refl bool true). Qed.

Lemma names_session : names_ok map_netbios_SessionMessageTypeToString = true. Proof. vm_cast_no_check (@eq_refl bool true). Qed.
Lemma complete_session : rows_complete (consts_of "SESSION_MESSAGE_TYPE" consts_netbios) map_netbios_SessionMessageTypeToString = true. Proof. vm_cast_no_check (@eq_refl bool true). Qed.
Lemma idents_session : names_match_idents map_netbios_SessionMessageTypeToString && rows_declared consts_netbios map_netbios_SessionMessageTypeToString = true. Proof. vm_cast_no_check (@eq_refl bool true). Qed.

Lemma names_sam : names_ok map_ldap_attributes_SAMAccountTypeMap = true. Proof. vm_cast_no_check (@eq_refl bool true). Qed.
Lemma complete_sam : rows_complete (consts_of "SAMAccountType" L) map_ldap_attributes_SAMAccountTypeMap = true. Proof. vm_cast_no_check (@eq_refl bool true). Qed.
Lemma names_mspki : names_ok map_ldap_attributes_MSPKIEnrollmentFlagMap = true. Proof. vm_cast_no_check (@eq_refl bool true). Qed.
Lemma complete_mspki : rows_complete (consts_of "MSPKIEnrollmentFlag" L) map_ldap_attributes_MSPKIEnrollmentFlagMap = true. Proof. vm_cast_no_check (@eq_refl bool true). Qed.
Lemma names_pwd : names_ok map_ldap_attributes_PasswordPropertiesMap = true. Proof. vm_cast_no_check (@eq_refl bool true). Qed.
Lemma complete_pwd : rows_complete (consts_of "PasswordProperties" L) map_ldap_attributes_PasswordPropertiesMap = true. Proof. vm_cast_no_check (@eq_refl bool true). Qed.
Lemma names_dfl : names_ok map_ldap_attributes_DomainFunctionalityLevelToWindowsVersion = true. Proof. vm_cast_no_check (@eq_refl bool true). Qed.
Lemma complete_dfl : rows_complete (consts_of "DomainFunctionalityLevel" L) map_ldap_attributes_DomainFunctionalityLevelToWindowsVersion = true. Proof. vm_cast_no_check (@eq_refl bool true). Qed.
Lemma idents_ldap :
  names_match_idents map_ldap_attributes_SAMAccountTypeMap && rows_declared L map_ldap_attributes_SAMAccountTypeMap &&
  names_match_idents map_ldap_attributes_PasswordPropertiesMap && rows_declared L map_ldap_attributes_PasswordPropertiesMap &&
  names_match_idents map_ldap_attributes_UserAccountControlMap && rows_declared L map_ldap_attributes_UserAccountControlMap &&
  rows_declared L map_ldap_attributes_MSPKIEnrollmentFlagMap && rows_declared L map_ldap_attributes_DomainFunctionalityLevelToWindowsVersion = true.
Proof. vm_cast_no_check (@eq_refl bool true). Qed.

Lemma names_nt : names_ok map_nt_status_NTStatusToStringName = true. Proof. vm_cast_no_check (@eq_refl bool true). Qed.
Lemma complete_nt : rows_complete (consts_of "NT_STATUS" consts_nt_status) map_nt_status_NTStatusToStringName = true. Proof. vm_cast_no_check (@eq_refl bool true). Qed.
Lemma idents_nt : names_match_idents map_nt_status_NTStatusToStringName && rows_declared consts_nt_status map_nt_status_NTStatusToStringName = true. Proof. vm_cast_no_check (@eq_refl bool true). Qed.
Lemma errors_nt : errors_complete (consts_of "NT_STATUS" consts_nt_status) map_nt_status_NTStatusToGoErrorMap = true. Proof. vm_cast_no_check (@eq_refl bool true). Qed.
(* the error variable of a status is the one named after it: NT_STATUS_X -> ERROR_X *)
Lemma error_idents_nt :
  forallb (fun e => String.eqb (me_text e) ("ERROR_" ++ substring 10 (String.length (me_key e)) (me_key e)))
          map_nt_status_NTStatusToGoErrorMap && rows_declared consts_nt_status map_nt_status_NTStatusToGoErrorMap
  && nodupb Z.eqb (map me_val map_nt_status_NTStatusToGoErrorMap) = true.
Proof. vm_cast_no_check (@eq_refl bool true). Qed.

(* ---- switch-based names (key-credential enumerations) ---- *)
Definition switch_complete (prefix : string) (cs : list const_entry) (t : list switch_entry) : bool :=
  forallb (fun c => negb (String.prefix prefix (co_name c)) || existsb (fun '(_, v, _) => Z.eqb v (co_val c)) t) cs.
Lemma ok_switch_key :
  switch_ok consts_key switch_key_CustomKeyInformationVolumeType_String &&
  switch_ok consts_key switch_key_KeyCredentialEntryType_String &&
  switch_ok consts_key switch_key_KeyCredentialVersion_String &&
  switch_ok consts_key switch_key_KeySource_String &&
  switch_ok consts_key switch_key_KeyUsage_String = true.
Proof. vm_cast_no_check (@eq_refl bool true). Qed.
Lemma complete_switch_key :
  switch_complete "KeyCredentialEntryType_" consts_key switch_key_KeyCredentialEntryType_String &&
  switch_complete "KeyCredentialVersion_" consts_key switch_key_KeyCredentialVersion_String &&
  switch_complete "KeySource_" consts_key switch_key_KeySource_String &&
  switch_complete "KeyUsage_" consts_key switch_key_KeyUsage_String = true.
Proof. vm_cast_no_check (@eq_refl bool true). Qed.
