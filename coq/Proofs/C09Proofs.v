(* C09: the statements of Properties/C09.v, assembled from C09Name / C09Msg / C09Rfc / C09Comp. *)
From Coq Require Import List NArith ZArith Lia Bool.
From Coq Require Import ZifyN ZifyNat ZifyBool.
From Mant Require Import Prim.R Prim.Bytes Gen.ConstsC09 Model.Llmnr Spec.C09
     Proofs.C09Base Proofs.C09Name Proofs.C09Msg Proofs.C09Rfc Proofs.C09Comp.
Import ListNotations.
Open Scope N_scope.

Lemma p_name_roundtrip : forall n pre post, labels_ok n ->
  encode_name (name_text n) = Ok (rfc_encode_name n)
  /\ decode_name (pre ++ rfc_encode_name n ++ post) (lenN pre)
     = Ok (name_text n, lenN pre + lenN (rfc_encode_name n)).
Proof.
  intros n pre post H. rewrite name_text_join. split; [now apply encode_name_rfc|now apply name_roundtrip].
Qed.

Lemma p_name_roundtrip_text : forall s pre post, text_labels_ok s ->
  exists b, encode_name s = Ok b /\ decode_name (pre ++ b ++ post) (lenN pre) = Ok (s, lenN pre + lenN b).
Proof.
  intros s pre post H. pose proof (text_labels_ok_labels _ H) as Hl.
  exists (rfc_encode_name (split_dot s)).
  destruct (p_name_roundtrip _ pre post Hl) as [H1 H2]. rewrite abs_lib_name in H1, H2. auto.
Qed.

Lemma p_message_roundtrip : forall m, lib_msg_ok text_labels_ok m ->
  exists b, encode_message m = Ok b /\ decode_message b = Ok (normalize m).
Proof. exact message_roundtrip. Qed.

Lemma p_message_roundtrip_consistent : forall m, lib_msg_ok text_labels_ok m -> consistent m ->
  exists b, encode_message m = Ok b /\ decode_message b = Ok m.
Proof.
  intros m H Hc. destruct (message_roundtrip m H) as (b & H1 & H2). exists b. unfold consistent in Hc.
  rewrite Hc in H2. auto.
Qed.

Lemma p_rfc_reads_lib : forall m, lib_msg_ok text_name_ok m ->
  encode_message m = Ok (rfc_encode_msg (abs_msg m))
  /\ rfc_decode_msg (rfc_encode_msg (abs_msg m)) = Some (abs_msg m).
Proof.
  intros m Hok.
  assert (Hok' : msg_ok name_ok (abs_msg m)) by (eapply abs_msg_ok; [apply text_name_ok_name|exact Hok]).
  destruct (rfc_reads_lib_abs _ Hok') as [H1 H2]. split; [|exact H2].
  rewrite <- encode_message_normalize, <- lib_abs_msg. exact H1.
Qed.

Lemma p_lib_reads_rfc : forall m, msg_ok labels_ok m ->
  decode_message (rfc_encode_msg m) = Ok (lib_msg m)
  /\ decode_message (rfc_encode_compressed m) = Ok (lib_msg m).
Proof. intros m H. split; [now apply lib_reads_rfc_plain|now apply lib_reads_rfc_compressed]. Qed.

Lemma p_lib_reads_wire : forall d m, wire_msg d m -> msg_ok labels_ok m -> decode_message d = Ok (lib_msg m).
Proof. exact decode_message_wire. Qed.

Lemma p_compressed_is_wire : forall m, msg_ok labels_ok m -> wire_msg (rfc_encode_compressed m) m.
Proof. exact wire_msg_compressed. Qed.

Lemma p_backward_pointers : forall d start n fin,
  wire_name d start start n fin -> n <> [] -> Forall (fun l => ~ In 46 l) n ->
  decode_name d start = Ok (name_text n, fin).
Proof.
  intros d start n fin Hw Hne Hnd. rewrite (decode_name_wire _ _ _ _ Hw Hnd).
  f_equal. f_equal. rewrite name_text_join. now apply text_nonempty.
Qed.

Lemma p_pointer_to_root_only : forall d start fin,
  wire_name d start start [] fin -> decode_name d start = Ok ([46], fin).
Proof. intros d start fin Hw. now rewrite (decode_name_wire _ _ _ _ Hw (Forall_nil _)). Qed.

Lemma p_pointers_rejected : forall d start, ptr_violation d start start -> decode_name d start = Err.
Proof. exact decode_name_violation. Qed.

(* the fuel of the model's two loops always suffices: more fuel never changes the outcome class
   to Panic; stated as: the model's decoder (which reports fuel exhaustion as Panic) never panics *)
Lemma p_total_decode_name : forall d off, decode_name d off <> Panic.
Proof. exact decode_name_total. Qed.

Lemma p_root : encode_name [] = Ok [0] /\ decode_name [0] 0 = Ok ([46], 1)
  /\ forall pre post, decode_name (pre ++ [0] ++ post) (lenN pre) = Ok ([46], lenN pre + 1).
Proof.
  split; [reflexivity|]. split; [reflexivity|]. intros pre post.
  apply p_pointer_to_root_only. apply wn_end. rewrite byte_at_app_r0. reflexivity.
Qed.

(* the reference decoder also follows backward pointers, so both decoders agree on every wire form *)
Lemma p_decoders_agree : forall d m, wire_msg d m -> msg_ok name_ok m ->
  decode_message d = Ok (lib_msg m) /\ rfc_decode_msg d = Some m.
Proof.
  intros d m Hw Hok. split; [|now apply rfc_decode_msg_wire].
  apply decode_message_wire; [exact Hw|]. eapply msg_ok_weaken; [apply name_ok_labels|exact Hok].
Qed.

(* valid names pass ValidateDomainName (so AddQuestion / AddAnswer / Validate accept them) *)
Lemma lenN_join_dot n : n <> [] -> lenN (join_dot n) + 2 = name_wire_len n.
Proof.
  induction n as [|l r IH]; intros Hne; [congruence|].
  destruct r as [|l2 r].
  - cbn [join_dot]. unfold name_wire_len. cbn [fold_right]. lia.
  - rewrite join_dot_cons by discriminate. rewrite lenN_app, lenN_cons.
    specialize (IH ltac:(discriminate)). unfold name_wire_len in *. cbn [fold_right] in *. lia.
Qed.

Lemma p_valid_names_validate : forall s, text_name_ok s -> validate_name s = 0.
Proof.
  intros s [Hl Hw]. unfold validate_name, MaxDomainLength, c09_max_domain_length.
  pose proof (lenN_join_dot (split_dot s) (split_dot_nonempty s)) as Hj. rewrite join_split in Hj.
  destruct (N.ltb_spec 255 (lenN s)); [lia|].
  replace (forallb (fun l => lenN l <=? MaxLabelLength) (split_dot s)) with true; [reflexivity|].
  symmetry. apply forallb_forall. intros l Hin. unfold text_labels_ok in Hl. rewrite Forall_forall in Hl.
  specialize (Hl l Hin). unfold MaxLabelLength, c09_max_label_length. lia.
Qed.

Lemma p_add_question_valid : forall m q, text_name_ok (q_name q) ->
  add_question m q = (0, set_questions m (m_questions m ++ [q]) (wrap16 (lenN (m_questions m ++ [q])))).
Proof. intros m q H. unfold add_question. now rewrite (p_valid_names_validate _ H). Qed.

(* the encoder refuses every name with a label longer than 63 bytes (the two top bits of the
   length octet are reserved for pointers) *)
Lemma encode_labels_long n l : In l n -> 63 < lenN l -> encode_labels n = Err.
Proof.
  induction n as [|x n IH]; intros Hin Hl; [contradiction|].
  cbn [encode_labels]. unfold MaxLabelLength, c09_max_label_length.
  destruct (N.ltb_spec 63 (lenN x)) as [|Hx]; [reflexivity|].
  destruct Hin as [->|Hin]; [lia|]. rewrite (IH Hin Hl). reflexivity.
Qed.

Lemma p_long_label_rejected : forall s l, In l (split_dot s) -> 63 < lenN l -> encode_name s = Err.
Proof.
  intros s l Hin Hl. unfold encode_name. destruct s as [|c s].
  - cbn in Hin. destruct Hin as [<-|[]]. unfold lenN in Hl. simpl in Hl. lia.
  - rewrite (encode_labels_long _ _ Hin Hl). reflexivity.
Qed.
