(* Proofs for windows/credentials ParseLMNTHashes / NewCredentials (Model/HashCred.v). *)
From Coq Require Import List NArith ZArith Lia Bool.
From Coq Require Import ZifyN ZifyNat ZifyBool.
From Mant Require Import Prim.R Prim.Bytes Prim.Dec Model.StrC20 Model.HashCred Spec.C20 Proofs.C20Str.
Import ListNotations.
Open Scope N_scope.

(* ------------------------------------------------------------------ white space *)

Lemma utf8_white_space_tokens : map utf8_encode white_space_cps = space_tokens.
Proof. vm_compute. reflexivity. Qed.

Lemma white_space_tokens w : white_space w -> ws_tokens w.
Proof.
  intros (cps & Hcps & ->). exists (map utf8_encode cps). split.
  - apply Forall_forall. intros t Ht. apply in_map_iff in Ht. destruct Ht as (cp & <- & Hcp).
    rewrite Forall_forall in Hcps. rewrite <- utf8_white_space_tokens. apply in_map. now apply Hcps.
  - apply flat_map_concat_map.
Qed.

(* ------------------------------------------------------------------ hex strings *)

Lemma is_hexc_hexdigit c : is_hexc c = hexdigit c.
Proof.
  unfold is_hexc, unhex_digit, hexdigit.
  destruct ((48 <=? c) && (c <=? 57)); [reflexivity|].
  destruct ((97 <=? c) && (c <=? 102)); [reflexivity|].
  destruct ((65 <=? c) && (c <=? 70)); reflexivity.
Qed.

Lemma forallb_is_hexc l : forallb is_hexc l = forallb hexdigit l.
Proof. induction l as [|c l IH]; [reflexivity|]. cbn [forallb]. now rewrite IH, is_hexc_hexdigit. Qed.

Lemma hex32_nob h : hex32 h -> nob 58 h = true.
Proof. intros (_ & H). eapply nob_of_class; [exact H|reflexivity]. Qed.

Lemma hex32_lenN h : hex32 h -> lenN h =? 32 = true.
Proof. intros (H & _). unfold lenN. rewrite H. reflexivity. Qed.

Lemma take_hex32_app h r : hex32 h -> take_hex32 (h ++ r) = Some r.
Proof.
  intros (Hl & Hh). unfold take_hex32.
  assert (E1 : firstn 32 (h ++ r) = h).
  { rewrite <- Hl, firstn_app, firstn_all, Nat.sub_diag. cbn [firstn]. apply app_nil_r. }
  assert (E2 : skipn 32 (h ++ r) = r).
  { rewrite <- Hl, skipn_app, skipn_all, Nat.sub_diag. reflexivity. }
  rewrite E1, E2, forallb_is_hexc, Hh, app_length, Hl.
  destruct (Nat.leb_spec 32 (32 + length r)); [reflexivity|lia].
Qed.

Lemma take_hex32_some s r : take_hex32 s = Some r -> exists h, hex32 h /\ s = h ++ r.
Proof.
  unfold take_hex32. destruct (Nat.leb_spec 32 (length s)) as [Hl|]; [|discriminate].
  destruct (forallb is_hexc (firstn 32 s)) eqn:Hh; [|discriminate]. cbn [andb].
  intros H. inversion H; subst. exists (firstn 32 s). split.
  - split; [apply firstn_length_le; exact Hl|]. now rewrite <- forallb_is_hexc.
  - symmetry. apply firstn_skipn.
Qed.

Lemma take_hex32_colon h : take_hex32 (58 :: h) = None.
Proof.
  unfold take_hex32. destruct (Nat.leb 32 (length (58 :: h))); [|reflexivity].
  cbn [firstn forallb]. reflexivity.
Qed.

(* ------------------------------------------------------------------ the expression is the grammar *)

Lemma hash_re_complete t lm nt : hash_spec t lm nt -> hash_re t = true.
Proof.
  intros H. unfold hash_re, opt_group. destruct H as [|h Hh|h Hh|l h Hl Hh].
  - reflexivity.
  - rewrite <- (app_nil_r h) at 1. rewrite (take_hex32_app h [] Hh). reflexivity.
  - rewrite take_hex32_colon. cbn [existsb take_colon_hex32 N.eqb Pos.eqb].
    rewrite <- (app_nil_r h) at 1. rewrite (take_hex32_app h [] Hh). reflexivity.
  - rewrite (take_hex32_app l (58 :: h) Hl). cbn [existsb take_colon_hex32 N.eqb Pos.eqb].
    rewrite <- (app_nil_r h) at 1. rewrite (take_hex32_app h [] Hh). reflexivity.
Qed.

Lemma take_colon_hex32_some s r : take_colon_hex32 s = Some r -> exists h, hex32 h /\ s = 58 :: h ++ r.
Proof.
  destruct s as [|c s']; [discriminate|]. cbn [take_colon_hex32].
  destruct (N.eqb_spec c 58) as [->|]; [|discriminate].
  intros H. destruct (take_hex32_some _ _ H) as (h & Hh & ->). now exists h.
Qed.

Lemma second_group r1 :
  existsb is_nil (opt_group take_colon_hex32 r1) = true ->
  r1 = [] \/ exists h, hex32 h /\ r1 = 58 :: h.
Proof.
  unfold opt_group. destruct (take_colon_hex32 r1) as [r'|] eqn:E.
  - destruct (take_colon_hex32_some _ _ E) as (h & Hh & ->). cbn [existsb].
    destruct r' as [|? ?]; cbn [is_nil orb].
    + intros _. right. exists h. now rewrite app_nil_r.
    + discriminate.
  - cbn [existsb]. destruct r1; [now left|discriminate].
Qed.

Lemma hash_re_sound t : hash_re t = true -> exists lm nt, hash_spec t lm nt.
Proof.
  unfold hash_re. unfold opt_group at 2. destruct (take_hex32 t) as [r|] eqn:E.
  - destruct (take_hex32_some _ _ E) as (h & Hh & ->). cbn [existsb].
    intros H. apply orb_true_iff in H. destruct H as [H|H].
    + destruct (second_group _ H) as [->|(h' & Hh' & ->)].
      * rewrite app_nil_r. exists [], h. now constructor.
      * exists h, h'. now constructor.
    + rewrite orb_false_r in H. destruct (second_group _ H) as [Hn|(h' & Hh' & He)].
      * apply app_eq_nil in Hn. destruct Hn as [-> ->]. destruct Hh as (Hl & _). discriminate.
      * (* h ++ r = 58 :: h' : impossible, h starts with a hex digit *)
        destruct Hh as (Hl & Hf). destruct h as [|c h0]; [discriminate|].
        cbn [app] in He. inversion He; subst. cbn [forallb] in Hf. discriminate.
  - cbn [existsb]. rewrite orb_false_r. intros H.
    destruct (second_group _ H) as [->|(h' & Hh' & ->)].
    + exists [], []. constructor.
    + exists [], h'. now constructor.
Qed.

(* ------------------------------------------------------------------ after validation *)

Definition finish (s : list N) : R (list N * list N) :=
  let s' := if contains_byte 58 s then s else 58 :: s in
  let parts := split_on 58 s' in
  let* lm := go_index parts 0 in
  let* nt := go_index parts 1 in
  Ok (if lenN lm =? 32 then lm else [], if lenN nt =? 32 then nt else []).

Lemma parse_lmnt_unfold input :
  parse_lmnt input = if hash_re (trim_space input) then finish (trim_space input) else Err.
Proof. unfold parse_lmnt, finish. destruct (hash_re (trim_space input)); reflexivity. Qed.

Lemma go_index_0 {A} (x y : A) : go_index [x; y] 0 = Ok x.
Proof. reflexivity. Qed.
Lemma go_index_1 {A} (x y : A) : go_index [x; y] 1 = Ok y.
Proof. reflexivity. Qed.

Lemma finish_spec t lm nt : hash_spec t lm nt -> finish t = Ok (lm, nt).
Proof.
  intros H. unfold finish. destruct H as [|h Hh|h Hh|l h Hl Hh].
  - reflexivity.
  - rewrite contains_byte_nob, (hex32_nob h Hh). cbn [negb].
    change (58 :: h) with ([] ++ 58 :: h). rewrite split_on_app by reflexivity.
    rewrite split_on_nosep by now apply hex32_nob.
    rewrite go_index_0, go_index_1. cbn [bind]. rewrite (hex32_lenN h Hh). reflexivity.
  - rewrite contains_byte_nob, nob_cons. cbn [N.eqb Pos.eqb negb andb].
    change (58 :: h) with ([] ++ 58 :: h). rewrite split_on_app by reflexivity.
    rewrite split_on_nosep by now apply hex32_nob.
    rewrite go_index_0, go_index_1. cbn [bind]. rewrite (hex32_lenN h Hh). reflexivity.
  - rewrite contains_byte_nob, nob_app, nob_cons. cbn [N.eqb Pos.eqb negb andb].
    rewrite andb_false_r. cbn [negb].
    rewrite split_on_app by now apply hex32_nob.
    rewrite split_on_nosep by now apply hex32_nob.
    rewrite go_index_0, go_index_1. cbn [bind]. rewrite (hex32_lenN l Hl), (hex32_lenN h Hh). reflexivity.
Qed.

(* ------------------------------------------------------------------ main results *)

Theorem parse_lmnt_ok_iff s lm nt :
  parse_lmnt s = Ok (lm, nt) <-> hash_spec (trim_space s) lm nt.
Proof.
  rewrite parse_lmnt_unfold. split.
  - destruct (hash_re (trim_space s)) eqn:E; [|discriminate].
    destruct (hash_re_sound _ E) as (lm' & nt' & Hs). rewrite (finish_spec _ _ _ Hs).
    intros H. inversion H; subst. exact Hs.
  - intros Hs. rewrite (hash_re_complete _ _ _ Hs). now apply finish_spec.
Qed.

Theorem parse_lmnt_err_iff s :
  parse_lmnt s = Err <-> ~ exists lm nt, hash_spec (trim_space s) lm nt.
Proof.
  rewrite parse_lmnt_unfold. split.
  - destruct (hash_re (trim_space s)) eqn:E.
    + destruct (hash_re_sound _ E) as (lm' & nt' & Hs). rewrite (finish_spec _ _ _ Hs). discriminate.
    + intros _ (lm & nt & Hs). rewrite (hash_re_complete _ _ _ Hs) in E. discriminate.
  - intros Hn. destruct (hash_re (trim_space s)) eqn:E; [|reflexivity].
    exfalso. apply Hn. now apply hash_re_sound.
Qed.

Theorem parse_lmnt_total s : parse_lmnt s <> Panic.
Proof.
  rewrite parse_lmnt_unfold. destruct (hash_re (trim_space s)) eqn:E; [|discriminate].
  destruct (hash_re_sound _ E) as (lm' & nt' & Hs). rewrite (finish_spec _ _ _ Hs). discriminate.
Qed.

(* surrounding white space never matters, whatever the string is *)
Theorem parse_lmnt_pad w1 s w2 :
  white_space w1 -> white_space w2 -> parse_lmnt (w1 ++ s ++ w2) = parse_lmnt s.
Proof.
  intros H1 H2. rewrite !parse_lmnt_unfold.
  now rewrite trim_space_pad by now apply white_space_tokens.
Qed.

Lemma hexdigit_not_space c : hexdigit c = true -> space_first c = false /\ space_last c = false.
Proof. unfold hexdigit, space_first, space_last, space_tail. intros H. lia. Qed.

Lemma hex32_rev_head h :
  hex32 h -> exists c r, rev h = c :: r /\ hexdigit c = true.
Proof.
  intros (Hl & Hf). destruct (rev h) as [|c r] eqn:E.
  - apply (f_equal (@length N)) in E. rewrite rev_length, Hl in E. discriminate.
  - exists c, r. split; [reflexivity|]. rewrite forallb_forall in Hf. apply Hf, in_rev. rewrite E. now left.
Qed.

(* a text of the grammar has no white space at either end *)
Lemma hash_spec_trimmed t lm nt : hash_spec t lm nt -> trim_space t = t.
Proof.
  intros H. apply trim_space_fixed.
  - apply strip_any_first. destruct H as [|h Hh|h Hh|l h Hl Hh]; try exact I; try reflexivity.
    + destruct Hh as (Hl & Hf). destruct h as [|c h0]; [exact I|].
      cbn [forallb] in Hf. apply andb_true_iff in Hf. now apply hexdigit_not_space.
    + destruct Hl as (Hl & Hf). destruct l as [|c l0]; [discriminate|]. cbn [app].
      cbn [forallb] in Hf. apply andb_true_iff in Hf. now apply hexdigit_not_space.
  - apply strip_any_last. destruct H as [|h Hh|h Hh|l h Hl Hh]; try exact I.
    + destruct (hex32_rev_head h Hh) as (c & r & -> & Hc). now apply hexdigit_not_space.
    + cbn [rev]. destruct (hex32_rev_head h Hh) as (c & r & -> & Hc). cbn [app]. now apply hexdigit_not_space.
    + rewrite rev_app_distr. cbn [rev]. destruct (hex32_rev_head h Hh) as (c & r & -> & Hc).
      cbn [app]. now apply hexdigit_not_space.
Qed.

(* a syntactically valid specification, padded or not, never loses a hash *)
Theorem parse_lmnt_valid w1 t w2 lm nt :
  hash_spec t lm nt -> white_space w1 -> white_space w2 ->
  parse_lmnt (w1 ++ t ++ w2) = Ok (lm, nt).
Proof.
  intros Hs H1 H2. rewrite parse_lmnt_pad by assumption.
  apply parse_lmnt_ok_iff. now rewrite (hash_spec_trimmed _ _ _ Hs).
Qed.

(* ------------------------------------------------------------------ letter case *)

Definition case_map (f : N -> N) : Prop :=
  keeps_space_bytes f /\ (forall c, hexdigit (f c) = hexdigit c) /\ (forall c, (f c =? 58) = (c =? 58)).

Lemma to_upper_case_map : case_map to_upper.
Proof.
  split; [exact to_upper_keeps|]. split; intros c; unfold to_upper, hexdigit;
    destruct ((97 <=? c) && (c <=? 122)) eqn:E; try reflexivity; lia.
Qed.

Lemma to_lower_case_map : case_map to_lower.
Proof.
  split; [exact to_lower_keeps|]. split; intros c; unfold to_lower, hexdigit;
    destruct ((65 <=? c) && (c <=? 90)) eqn:E; try reflexivity; lia.
Qed.

Lemma hex32_map f h : (forall c, hexdigit (f c) = hexdigit c) -> (hex32 (map f h) <-> hex32 h).
Proof.
  intros Hf. unfold hex32. rewrite map_length.
  assert (E : forallb hexdigit (map f h) = forallb hexdigit h).
  { induction h as [|c h IH]; [reflexivity|]. cbn [map forallb]. now rewrite IH, Hf. }
  rewrite E. tauto.
Qed.

Lemma hash_spec_map f t lm nt :
  case_map f -> hash_spec t lm nt -> hash_spec (map f t) (map f lm) (map f nt).
Proof.
  intros (_ & Hh & Hc) H. assert (F58 : f 58 = 58) by (apply N.eqb_eq; rewrite Hc; reflexivity).
  destruct H as [|h H1|h H1|l h H1 H2]; cbn [map].
  - constructor.
  - constructor. now apply hex32_map.
  - rewrite F58. constructor. now apply hex32_map.
  - rewrite map_app. cbn [map]. rewrite F58. constructor; now apply hex32_map.
Qed.

Lemma hash_spec_unmap f t lm' nt' :
  case_map f -> hash_spec (map f t) lm' nt' -> exists lm nt, hash_spec t lm nt.
Proof.
  intros (_ & Hh & Hc) H. remember (map f t) as u eqn:Eu. destruct H as [|h H1|h H1|l h H1 H2].
  - symmetry in Eu. apply map_eq_nil in Eu. subst. exists [], []. constructor.
  - subst h. exists [], t. constructor. now apply (hex32_map f).
  - destruct t as [|c t']; [discriminate|]. cbn [map] in Eu. inversion Eu as [[E1 E2]].
    assert (c = 58) by (apply N.eqb_eq; rewrite <- Hc, <- E1; apply N.eqb_refl). subst c h.
    exists [], t'. constructor. now apply (hex32_map f).
  - symmetry in Eu. apply map_eq_app in Eu. destruct Eu as (t1 & t2 & -> & E1 & E2).
    destruct t2 as [|c t2']; [discriminate|]. cbn [map] in E2. inversion E2 as [[E3 E4]].
    assert (c = 58) by (apply N.eqb_eq; rewrite <- Hc, E3; reflexivity). subst c l h.
    exists t1, t2'. constructor; now apply (hex32_map f).
Qed.

Definition map_pair (f : N -> N) (p : list N * list N) : list N * list N := (map f (fst p), map f (snd p)).

(* converting the whole input to upper (or lower) case converts the result and nothing else *)
Theorem parse_lmnt_case f s :
  case_map f -> parse_lmnt (map f s) = rmap (map_pair f) (parse_lmnt s).
Proof.
  intros Hf. pose proof Hf as (Hk & _).
  destruct (parse_lmnt s) as [[lm nt]| |] eqn:E; cbn [rmap map_pair fst snd].
  - apply parse_lmnt_ok_iff. rewrite trim_space_map by exact Hk.
    apply hash_spec_map; [exact Hf|]. now apply parse_lmnt_ok_iff.
  - destruct (parse_lmnt (map f s)) as [[lm' nt']| |] eqn:E2; [exfalso|reflexivity|].
    + apply parse_lmnt_ok_iff in E2. rewrite trim_space_map in E2 by exact Hk.
      destruct (hash_spec_unmap _ _ _ _ Hf E2) as (lm & nt & Hs).
      apply parse_lmnt_ok_iff in Hs. congruence.
    + now apply parse_lmnt_total in E2.
  - now apply parse_lmnt_total in E.
Qed.

(* ------------------------------------------------------------------ NewCredentials *)

Lemma new_credentials_spec d u p h :
  new_credentials d u p h = rmap (fun hs => Creds d u p (fst hs) (snd hs)) (parse_lmnt h).
Proof. unfold new_credentials. destruct (parse_lmnt h); reflexivity. Qed.

Lemma new_credentials_total d u p h : new_credentials d u p h <> Panic.
Proof.
  rewrite new_credentials_spec. pose proof (parse_lmnt_total h).
  destruct (parse_lmnt h); [discriminate|discriminate|congruence].
Qed.
