(* The C20 results in the exact form in which Properties/C20.v states them. *)
From Coq Require Import List NArith ZArith Lia Bool.
From Coq Require Import ZifyN ZifyNat ZifyBool.
From Mant Require Import Prim.R Prim.Bytes Prim.Dec Model.StrC20 Model.Ip Model.Ports Model.HashCred
  Spec.C20 Proofs.C20Str Proofs.C20Ip Proofs.C20Ports Proofs.C20Hash.
Import ListNotations.
Open Scope N_scope.

Lemma ok5 a b c d m : octet a -> octet b -> octet c -> octet d -> octet m -> ipv4_ok (IPv4 a b c d m).
Proof. intros. unfold ipv4_ok. cbn [v4a v4b v4c v4d v4m]. tauto. Qed.

Lemma main_ipv4_roundtrip a b c d m :
  octet a -> octet b -> octet c -> octet d -> octet m ->
  ipv4_string (IPv4 a b c d m) = cidr_text a b c d m /\
  ipv4_of_string (cidr_text a b c d m) = Ok (IPv4 a b c d m).
Proof.
  intros Ha Hb Hc Hd Hm. split; [reflexivity|].
  change (cidr_text a b c d m) with (ipv4_string (IPv4 a b c d m)). apply ipv4_roundtrip. now apply ok5.
Qed.

Lemma main_ipv4_value a b c d m :
  octet a -> octet b -> octet c -> octet d -> octet m ->
  ipv4_to_u32 (IPv4 a b c d m) = ip4_value a b c d /\ ip4_value a b c d < 2 ^ 32.
Proof.
  intros Ha Hb Hc Hd Hm. split.
  - apply (ipv4_to_u32_value (IPv4 a b c d m)). now apply ok5.
  - apply (ipv4_value_bound (IPv4 a b c d m)). now apply ok5.
Qed.

Lemma main_ipv4_subnet a b c d m na nb nc nd len :
  octet a -> octet b -> octet c -> octet d -> octet m ->
  octet na -> octet nb -> octet nc -> octet nd -> len <= 32 ->
  ipv4_in_subnet (IPv4 a b c d m) (IPv4 na nb nc nd len)
  = (N.land (ip4_value a b c d) (prefix_mask len) =? N.land (ip4_value na nb nc nd) (prefix_mask len)).
Proof.
  intros. apply (ipv4_in_subnet_spec (IPv4 a b c d m) (IPv4 na nb nc nd len)); try apply ok5;
    try assumption; unfold octet; cbn [v4m]; lia.
Qed.

Lemma main_ipv4_subnet_prefix a b c d m na nb nc nd len :
  octet a -> octet b -> octet c -> octet d -> octet m ->
  octet na -> octet nb -> octet nc -> octet nd -> len <= 32 ->
  ipv4_in_subnet (IPv4 a b c d m) (IPv4 na nb nc nd len)
  = same_prefix len (ip4_value a b c d) (ip4_value na nb nc nd).
Proof.
  intros. apply (ipv4_in_subnet_prefix (IPv4 a b c d m) (IPv4 na nb nc nd len)); try apply ok5;
    try assumption; unfold octet; cbn [v4m]; lia.
Qed.

Lemma main_ipv4_mask a b c d len :
  octet a -> octet b -> octet c -> octet d -> len <= 32 ->
  exists a' b' c' d',
    ipv4_compute_mask (IPv4 a b c d len) = IPv4 a' b' c' d' len /\
    octet a' /\ octet b' /\ octet c' /\ octet d' /\
    ip4_value a' b' c' d' = N.land (ip4_value a b c d) (prefix_mask len) /\
    ip4_value a' b' c' d' = network_of len (ip4_value a b c d) /\
    ipv4_cidr_mask (IPv4 a b c d len) = cidr_text a' b' c' d' len.
Proof.
  intros Ha Hb Hc Hd Hl.
  assert (Hok : ipv4_ok (IPv4 a b c d len)) by (apply ok5; try assumption; unfold octet; lia).
  destruct (ipv4_compute_mask_spec _ Hok Hl) as (Hr & Hm & Hn & Hland).
  unfold ipv4_cidr_mask.
  destruct (ipv4_compute_mask (IPv4 a b c d len)) as [a' b' c' d' m'] eqn:E.
  cbn [v4m] in Hm. subst m'. destruct Hr as (Ha' & Hb' & Hc' & Hd' & _).
  cbn [v4a v4b v4c v4d] in *. exists a', b', c', d'.
  unfold ipv4_value in Hn, Hland. cbn [v4a v4b v4c v4d v4m] in Hn, Hland.
  repeat split; assumption.
Qed.

Lemma main_ipv4_range a b c d m sa sb sc sd sm ea eb ec ed em :
  octet a -> octet b -> octet c -> octet d -> octet m ->
  octet sa -> octet sb -> octet sc -> octet sd -> octet sm ->
  octet ea -> octet eb -> octet ec -> octet ed -> octet em ->
  ipv4_in_range (IPv4 a b c d m) (IPv4 sa sb sc sd sm) (IPv4 ea eb ec ed em)
  = between (ip4_value sa sb sc sd) (ip4_value a b c d) (ip4_value ea eb ec ed) /\
  ipv4range_contains (IPv4 sa sb sc sd sm) (IPv4 ea eb ec ed em) (IPv4 a b c d m)
  = between (ip4_value sa sb sc sd) (ip4_value a b c d) (ip4_value ea eb ec ed).
Proof.
  intros. unfold ipv4range_contains. split;
    apply (ipv4_in_range_spec (IPv4 a b c d m) (IPv4 sa sb sc sd sm) (IPv4 ea eb ec ed em)); now apply ok5.
Qed.

Lemma main_ipv6_value gs :
  groups_ok gs ->
  fst (ipv6_to_u128 gs) * 2 ^ 64 + snd (ipv6_to_u128 gs) = ip6_value gs /\
  fst (ipv6_to_u128 gs) < 2 ^ 64 /\ snd (ipv6_to_u128 gs) < 2 ^ 64 /\ ip6_value gs < 2 ^ 128.
Proof.
  intros H. destruct (ipv6_to_u128_value gs H) as (V & B1 & B2).
  repeat split; try assumption. now apply ip6_value_bound.
Qed.

Lemma main_ipv6_range i s e :
  groups_ok i -> groups_ok s -> groups_ok e ->
  ipv6_in_range i s e = between (ip6_value s) (ip6_value i) (ip6_value e) /\
  ipv6range_contains s e i = between (ip6_value s) (ip6_value i) (ip6_value e).
Proof. intros. unfold ipv6range_contains. split; now apply ipv6_in_range_spec. Qed.

Lemma main_hashes_upper s :
  parse_lmnt (map to_upper s) = rmap (map_pair to_upper) (parse_lmnt s).
Proof. apply parse_lmnt_case, to_upper_case_map. Qed.

Lemma main_hashes_lower s :
  parse_lmnt (map to_lower s) = rmap (map_pair to_lower) (parse_lmnt s).
Proof. apply parse_lmnt_case, to_lower_case_map. Qed.

(* upper- and lower-case spellings of one input have the same outcome and the same hashes up to case *)
Lemma main_hashes_case s :
  rmap (map_pair to_lower) (parse_lmnt (map to_upper s)) = parse_lmnt (map to_lower s).
Proof.
  rewrite main_hashes_upper, main_hashes_lower.
  assert (E : forall l, map to_lower (map to_upper l) = map to_lower l).
  { intros l. rewrite map_map. apply map_ext. intros c. unfold to_lower, to_upper.
    destruct ((97 <=? c) && (c <=? 122)) eqn:E1; destruct ((65 <=? c) && (c <=? 90)) eqn:E2;
      repeat match goal with |- context [if ?b then _ else _] => destruct b eqn:? end; lia. }
  destruct (parse_lmnt s) as [[lm nt]| |]; cbn [rmap map_pair fst snd]; [|reflexivity|reflexivity].
  unfold map_pair. cbn [fst snd]. now rewrite !E.
Qed.

Lemma main_creds d u p w1 t w2 lm nt :
  hash_spec t lm nt -> white_space w1 -> white_space w2 ->
  new_credentials d u p (w1 ++ t ++ w2) = Ok (Creds d u p lm nt) /\
  can_pass_the_hash (Creds d u p lm nt) = negb (is_nil nt) && negb (is_nil u).
Proof.
  intros Hs H1 H2. split; [|reflexivity].
  rewrite new_credentials_spec, (parse_lmnt_valid _ _ _ _ _ Hs H1 H2). reflexivity.
Qed.
