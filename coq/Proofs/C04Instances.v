(* One obligation per structure of the all-integer fragment: the regenerated description still satisfies the
   decidable shape condition, hence (simple_fixed_roundtrips) it round-trips every field value. Written by
   tools/gen_smb_known.py from the pinned tree; a structure that leaves the fragment breaks its own lemma. *)
From Coq Require Import List NArith String Bool.
From Mant Require Import Model.SmbLayout Model.SmbAnalysis Spec.C04 Proofs.C04Proofs Gen.SmbLayouts.

Lemma fixed_CheckDirectoryResponse : simple_fixed cmd_CheckDirectoryResponse = true. Proof. vm_cast_no_check (@eq_refl bool true). Qed.
Lemma rt_CheckDirectoryResponse : roundtrips cmd_CheckDirectoryResponse. Proof. exact (simple_fixed_roundtrips _ fixed_CheckDirectoryResponse). Qed.
Lemma fixed_ClosePrintFileRequest : simple_fixed cmd_ClosePrintFileRequest = true. Proof. vm_cast_no_check (@eq_refl bool true). Qed.
Lemma rt_ClosePrintFileRequest : roundtrips cmd_ClosePrintFileRequest. Proof. exact (simple_fixed_roundtrips _ fixed_ClosePrintFileRequest). Qed.
Lemma fixed_ClosePrintFileResponse : simple_fixed cmd_ClosePrintFileResponse = true. Proof. vm_cast_no_check (@eq_refl bool true). Qed.
Lemma rt_ClosePrintFileResponse : roundtrips cmd_ClosePrintFileResponse. Proof. exact (simple_fixed_roundtrips _ fixed_ClosePrintFileResponse). Qed.
Lemma fixed_CloseResponse : simple_fixed cmd_CloseResponse = true. Proof. vm_cast_no_check (@eq_refl bool true). Qed.
Lemma rt_CloseResponse : roundtrips cmd_CloseResponse. Proof. exact (simple_fixed_roundtrips _ fixed_CloseResponse). Qed.
Lemma fixed_CreateDirectoryResponse : simple_fixed cmd_CreateDirectoryResponse = true. Proof. vm_cast_no_check (@eq_refl bool true). Qed.
Lemma rt_CreateDirectoryResponse : roundtrips cmd_CreateDirectoryResponse. Proof. exact (simple_fixed_roundtrips _ fixed_CreateDirectoryResponse). Qed.
Lemma fixed_CreateNewResponse : simple_fixed cmd_CreateNewResponse = true. Proof. vm_cast_no_check (@eq_refl bool true). Qed.
Lemma rt_CreateNewResponse : roundtrips cmd_CreateNewResponse. Proof. exact (simple_fixed_roundtrips _ fixed_CreateNewResponse). Qed.
Lemma fixed_CreateResponse : simple_fixed cmd_CreateResponse = true. Proof. vm_cast_no_check (@eq_refl bool true). Qed.
Lemma rt_CreateResponse : roundtrips cmd_CreateResponse. Proof. exact (simple_fixed_roundtrips _ fixed_CreateResponse). Qed.
Lemma fixed_DeleteDirectoryResponse : simple_fixed cmd_DeleteDirectoryResponse = true. Proof. vm_cast_no_check (@eq_refl bool true). Qed.
Lemma rt_DeleteDirectoryResponse : roundtrips cmd_DeleteDirectoryResponse. Proof. exact (simple_fixed_roundtrips _ fixed_DeleteDirectoryResponse). Qed.
Lemma fixed_DeleteResponse : simple_fixed cmd_DeleteResponse = true. Proof. vm_cast_no_check (@eq_refl bool true). Qed.
Lemma rt_DeleteResponse : roundtrips cmd_DeleteResponse. Proof. exact (simple_fixed_roundtrips _ fixed_DeleteResponse). Qed.
Lemma fixed_FindClose2Request : simple_fixed cmd_FindClose2Request = true. Proof. vm_cast_no_check (@eq_refl bool true). Qed.
Lemma rt_FindClose2Request : roundtrips cmd_FindClose2Request. Proof. exact (simple_fixed_roundtrips _ fixed_FindClose2Request). Qed.
Lemma fixed_FindClose2Response : simple_fixed cmd_FindClose2Response = true. Proof. vm_cast_no_check (@eq_refl bool true). Qed.
Lemma rt_FindClose2Response : roundtrips cmd_FindClose2Response. Proof. exact (simple_fixed_roundtrips _ fixed_FindClose2Response). Qed.
Lemma fixed_FlushRequest : simple_fixed cmd_FlushRequest = true. Proof. vm_cast_no_check (@eq_refl bool true). Qed.
Lemma rt_FlushRequest : roundtrips cmd_FlushRequest. Proof. exact (simple_fixed_roundtrips _ fixed_FlushRequest). Qed.
Lemma fixed_FlushResponse : simple_fixed cmd_FlushResponse = true. Proof. vm_cast_no_check (@eq_refl bool true). Qed.
Lemma rt_FlushResponse : roundtrips cmd_FlushResponse. Proof. exact (simple_fixed_roundtrips _ fixed_FlushResponse). Qed.
Lemma fixed_LockAndReadRequest : simple_fixed cmd_LockAndReadRequest = true. Proof. vm_cast_no_check (@eq_refl bool true). Qed.
Lemma rt_LockAndReadRequest : roundtrips cmd_LockAndReadRequest. Proof. exact (simple_fixed_roundtrips _ fixed_LockAndReadRequest). Qed.
Lemma fixed_LockByteRangeRequest : simple_fixed cmd_LockByteRangeRequest = true. Proof. vm_cast_no_check (@eq_refl bool true). Qed.
Lemma rt_LockByteRangeRequest : roundtrips cmd_LockByteRangeRequest. Proof. exact (simple_fixed_roundtrips _ fixed_LockByteRangeRequest). Qed.
Lemma fixed_LockByteRangeResponse : simple_fixed cmd_LockByteRangeResponse = true. Proof. vm_cast_no_check (@eq_refl bool true). Qed.
Lemma rt_LockByteRangeResponse : roundtrips cmd_LockByteRangeResponse. Proof. exact (simple_fixed_roundtrips _ fixed_LockByteRangeResponse). Qed.
Lemma fixed_NtCancelRequest : simple_fixed cmd_NtCancelRequest = true. Proof. vm_cast_no_check (@eq_refl bool true). Qed.
Lemma rt_NtCancelRequest : roundtrips cmd_NtCancelRequest. Proof. exact (simple_fixed_roundtrips _ fixed_NtCancelRequest). Qed.
Lemma fixed_NtRenameResponse : simple_fixed cmd_NtRenameResponse = true. Proof. vm_cast_no_check (@eq_refl bool true). Qed.
Lemma rt_NtRenameResponse : roundtrips cmd_NtRenameResponse. Proof. exact (simple_fixed_roundtrips _ fixed_NtRenameResponse). Qed.
Lemma fixed_NtTransactResponse : simple_fixed cmd_NtTransactResponse = true. Proof. vm_cast_no_check (@eq_refl bool true). Qed.
Lemma rt_NtTransactResponse : roundtrips cmd_NtTransactResponse. Proof. exact (simple_fixed_roundtrips _ fixed_NtTransactResponse). Qed.
Lemma fixed_NtTransactSecondaryResponse : simple_fixed cmd_NtTransactSecondaryResponse = true. Proof. vm_cast_no_check (@eq_refl bool true). Qed.
Lemma rt_NtTransactSecondaryResponse : roundtrips cmd_NtTransactSecondaryResponse. Proof. exact (simple_fixed_roundtrips _ fixed_NtTransactSecondaryResponse). Qed.
Lemma fixed_OpenPrintFileResponse : simple_fixed cmd_OpenPrintFileResponse = true. Proof. vm_cast_no_check (@eq_refl bool true). Qed.
Lemma rt_OpenPrintFileResponse : roundtrips cmd_OpenPrintFileResponse. Proof. exact (simple_fixed_roundtrips _ fixed_OpenPrintFileResponse). Qed.
Lemma fixed_ProcessExitRequest : simple_fixed cmd_ProcessExitRequest = true. Proof. vm_cast_no_check (@eq_refl bool true). Qed.
Lemma rt_ProcessExitRequest : roundtrips cmd_ProcessExitRequest. Proof. exact (simple_fixed_roundtrips _ fixed_ProcessExitRequest). Qed.
Lemma fixed_ProcessExitResponse : simple_fixed cmd_ProcessExitResponse = true. Proof. vm_cast_no_check (@eq_refl bool true). Qed.
Lemma rt_ProcessExitResponse : roundtrips cmd_ProcessExitResponse. Proof. exact (simple_fixed_roundtrips _ fixed_ProcessExitResponse). Qed.
Lemma fixed_QueryInformation2Request : simple_fixed cmd_QueryInformation2Request = true. Proof. vm_cast_no_check (@eq_refl bool true). Qed.
Lemma rt_QueryInformation2Request : roundtrips cmd_QueryInformation2Request. Proof. exact (simple_fixed_roundtrips _ fixed_QueryInformation2Request). Qed.
Lemma fixed_QueryInformationDiskRequest : simple_fixed cmd_QueryInformationDiskRequest = true. Proof. vm_cast_no_check (@eq_refl bool true). Qed.
Lemma rt_QueryInformationDiskRequest : roundtrips cmd_QueryInformationDiskRequest. Proof. exact (simple_fixed_roundtrips _ fixed_QueryInformationDiskRequest). Qed.
Lemma fixed_QueryInformationDiskResponse : simple_fixed cmd_QueryInformationDiskResponse = true. Proof. vm_cast_no_check (@eq_refl bool true). Qed.
Lemma rt_QueryInformationDiskResponse : roundtrips cmd_QueryInformationDiskResponse. Proof. exact (simple_fixed_roundtrips _ fixed_QueryInformationDiskResponse). Qed.
Lemma fixed_ReadMpxRequest : simple_fixed cmd_ReadMpxRequest = true. Proof. vm_cast_no_check (@eq_refl bool true). Qed.
Lemma rt_ReadMpxRequest : roundtrips cmd_ReadMpxRequest. Proof. exact (simple_fixed_roundtrips _ fixed_ReadMpxRequest). Qed.
Lemma fixed_ReadRequest : simple_fixed cmd_ReadRequest = true. Proof. vm_cast_no_check (@eq_refl bool true). Qed.
Lemma rt_ReadRequest : roundtrips cmd_ReadRequest. Proof. exact (simple_fixed_roundtrips _ fixed_ReadRequest). Qed.
Lemma fixed_RenameResponse : simple_fixed cmd_RenameResponse = true. Proof. vm_cast_no_check (@eq_refl bool true). Qed.
Lemma rt_RenameResponse : roundtrips cmd_RenameResponse. Proof. exact (simple_fixed_roundtrips _ fixed_RenameResponse). Qed.
Lemma fixed_SeekRequest : simple_fixed cmd_SeekRequest = true. Proof. vm_cast_no_check (@eq_refl bool true). Qed.
Lemma rt_SeekRequest : roundtrips cmd_SeekRequest. Proof. exact (simple_fixed_roundtrips _ fixed_SeekRequest). Qed.
Lemma fixed_SeekResponse : simple_fixed cmd_SeekResponse = true. Proof. vm_cast_no_check (@eq_refl bool true). Qed.
Lemma rt_SeekResponse : roundtrips cmd_SeekResponse. Proof. exact (simple_fixed_roundtrips _ fixed_SeekResponse). Qed.
Lemma fixed_SetInformation2Response : simple_fixed cmd_SetInformation2Response = true. Proof. vm_cast_no_check (@eq_refl bool true). Qed.
Lemma rt_SetInformation2Response : roundtrips cmd_SetInformation2Response. Proof. exact (simple_fixed_roundtrips _ fixed_SetInformation2Response). Qed.
Lemma fixed_SetInformationResponse : simple_fixed cmd_SetInformationResponse = true. Proof. vm_cast_no_check (@eq_refl bool true). Qed.
Lemma rt_SetInformationResponse : roundtrips cmd_SetInformationResponse. Proof. exact (simple_fixed_roundtrips _ fixed_SetInformationResponse). Qed.
Lemma fixed_Transaction2Response : simple_fixed cmd_Transaction2Response = true. Proof. vm_cast_no_check (@eq_refl bool true). Qed.
Lemma rt_Transaction2Response : roundtrips cmd_Transaction2Response. Proof. exact (simple_fixed_roundtrips _ fixed_Transaction2Response). Qed.
Lemma fixed_Transaction2SecondaryResponse : simple_fixed cmd_Transaction2SecondaryResponse = true. Proof. vm_cast_no_check (@eq_refl bool true). Qed.
Lemma rt_Transaction2SecondaryResponse : roundtrips cmd_Transaction2SecondaryResponse. Proof. exact (simple_fixed_roundtrips _ fixed_Transaction2SecondaryResponse). Qed.
Lemma fixed_TransactionResponse : simple_fixed cmd_TransactionResponse = true. Proof. vm_cast_no_check (@eq_refl bool true). Qed.
Lemma rt_TransactionResponse : roundtrips cmd_TransactionResponse. Proof. exact (simple_fixed_roundtrips _ fixed_TransactionResponse). Qed.
Lemma fixed_TransactionSecondaryResponse : simple_fixed cmd_TransactionSecondaryResponse = true. Proof. vm_cast_no_check (@eq_refl bool true). Qed.
Lemma rt_TransactionSecondaryResponse : roundtrips cmd_TransactionSecondaryResponse. Proof. exact (simple_fixed_roundtrips _ fixed_TransactionSecondaryResponse). Qed.
Lemma fixed_TreeConnectResponse : simple_fixed cmd_TreeConnectResponse = true. Proof. vm_cast_no_check (@eq_refl bool true). Qed.
Lemma rt_TreeConnectResponse : roundtrips cmd_TreeConnectResponse. Proof. exact (simple_fixed_roundtrips _ fixed_TreeConnectResponse). Qed.
Lemma fixed_TreeDisconnectRequest : simple_fixed cmd_TreeDisconnectRequest = true. Proof. vm_cast_no_check (@eq_refl bool true). Qed.
Lemma rt_TreeDisconnectRequest : roundtrips cmd_TreeDisconnectRequest. Proof. exact (simple_fixed_roundtrips _ fixed_TreeDisconnectRequest). Qed.
Lemma fixed_TreeDisconnectResponse : simple_fixed cmd_TreeDisconnectResponse = true. Proof. vm_cast_no_check (@eq_refl bool true). Qed.
Lemma rt_TreeDisconnectResponse : roundtrips cmd_TreeDisconnectResponse. Proof. exact (simple_fixed_roundtrips _ fixed_TreeDisconnectResponse). Qed.
Lemma fixed_UnlockByteRangeRequest : simple_fixed cmd_UnlockByteRangeRequest = true. Proof. vm_cast_no_check (@eq_refl bool true). Qed.
Lemma rt_UnlockByteRangeRequest : roundtrips cmd_UnlockByteRangeRequest. Proof. exact (simple_fixed_roundtrips _ fixed_UnlockByteRangeRequest). Qed.
Lemma fixed_UnlockByteRangeResponse : simple_fixed cmd_UnlockByteRangeResponse = true. Proof. vm_cast_no_check (@eq_refl bool true). Qed.
Lemma rt_UnlockByteRangeResponse : roundtrips cmd_UnlockByteRangeResponse. Proof. exact (simple_fixed_roundtrips _ fixed_UnlockByteRangeResponse). Qed.
Lemma fixed_WriteAndCloseResponse : simple_fixed cmd_WriteAndCloseResponse = true. Proof. vm_cast_no_check (@eq_refl bool true). Qed.
Lemma rt_WriteAndCloseResponse : roundtrips cmd_WriteAndCloseResponse. Proof. exact (simple_fixed_roundtrips _ fixed_WriteAndCloseResponse). Qed.
Lemma fixed_WriteAndUnlockResponse : simple_fixed cmd_WriteAndUnlockResponse = true. Proof. vm_cast_no_check (@eq_refl bool true). Qed.
Lemma rt_WriteAndUnlockResponse : roundtrips cmd_WriteAndUnlockResponse. Proof. exact (simple_fixed_roundtrips _ fixed_WriteAndUnlockResponse). Qed.
Lemma fixed_WriteMpxResponse : simple_fixed cmd_WriteMpxResponse = true. Proof. vm_cast_no_check (@eq_refl bool true). Qed.
Lemma rt_WriteMpxResponse : roundtrips cmd_WriteMpxResponse. Proof. exact (simple_fixed_roundtrips _ fixed_WriteMpxResponse). Qed.
Lemma fixed_WritePrintFileResponse : simple_fixed cmd_WritePrintFileResponse = true. Proof. vm_cast_no_check (@eq_refl bool true). Qed.
Lemma rt_WritePrintFileResponse : roundtrips cmd_WritePrintFileResponse. Proof. exact (simple_fixed_roundtrips _ fixed_WritePrintFileResponse). Qed.
Lemma fixed_WriteRawFinal : simple_fixed cmd_WriteRawFinal = true. Proof. vm_cast_no_check (@eq_refl bool true). Qed.
Lemma rt_WriteRawFinal : roundtrips cmd_WriteRawFinal. Proof. exact (simple_fixed_roundtrips _ fixed_WriteRawFinal). Qed.
Lemma fixed_WriteRawInterim : simple_fixed cmd_WriteRawInterim = true. Proof. vm_cast_no_check (@eq_refl bool true). Qed.
Lemma rt_WriteRawInterim : roundtrips cmd_WriteRawInterim. Proof. exact (simple_fixed_roundtrips _ fixed_WriteRawInterim). Qed.
Lemma fixed_WriteResponse : simple_fixed cmd_WriteResponse = true. Proof. vm_cast_no_check (@eq_refl bool true). Qed.
Lemma rt_WriteResponse : roundtrips cmd_WriteResponse. Proof. exact (simple_fixed_roundtrips _ fixed_WriteResponse). Qed.
