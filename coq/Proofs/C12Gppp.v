(* C12, Group Policy Preferences passwords: GPPPEncrypt is base64(AES-256-CBC(published key,
   zero IV, PKCS#7(UTF-16LE(password)))); GPPPDecryptBase64 / GPPPDecryptBytes invert it for
   every Unicode password; neither decoder panics on any input. *)
From Coq Require Import List Arith NArith Lia Bool.
From Coq Require Import ZifyN ZifyNat ZifyBool.
From Mant Require Import Prim.R Prim.Bytes Algo.Word Algo.AES Algo.Base64 Algo.Utf16 Algo.Utf8.
From Mant Require Import Proofs.AlgoProofs Model.Pkcs7 Model.Gppp Gen.ConstsC12 Spec.C12.
From Mant Require Import Proofs.C12Pkcs7 Proofs.C12Cmac.
Import ListNotations.
Open Scope N_scope.

(* ================================================================== *)
(* []rune(s) on valid UTF-8 is the RFC 3629 decoder *)

Lemma go_runes_fuel_nil f : go_runes_fuel f [] = [].
Proof. destruct f; reflexivity. Qed.

Ltac runes_step IH H :=
  match type of H with
  | option_map (cons ?c) (utf8_decode ?t) = Some ?cps =>
      let E := fresh "E" in
      destruct (utf8_decode t) as [tl|] eqn:E; cbn [option_map] in H; [|discriminate];
      injection H as <-; f_equal; apply IH; [cbn [length] in *; lia | exact E]
  end.

Lemma go_runes_fuel_valid fuel : forall s cps,
  (length s <= fuel)%nat -> utf8_decode s = Some cps -> go_runes_fuel fuel s = cps.
Proof.
  induction fuel as [|f IH]; intros s cps Hlen H.
  - destruct s; [|cbn in Hlen; lia]. cbn in H. now injection H as <-.
  - destruct s as [|b0 r]; [cbn in H; now injection H as <-|].
    cbn [go_runes_fuel go_decode_rune]. cbn [utf8_decode] in H.
    destruct (b0 <? 0x80).
    { cbn [skipn]. runes_step IH H. }
    destruct (in_range 0xC2 0xDF b0).
    { destruct r as [|b1 r1]; [discriminate|]. destruct (utf8_tail b1); [|discriminate].
      cbn [skipn]. runes_step IH H. }
    destruct (in_range 0xE0 0xEF b0).
    { destruct r as [|b1 [|b2 r2]]; try discriminate. cbv zeta in H |- *.
      destruct (in_range _ _ b1 && utf8_tail b2); [|discriminate].
      cbn [skipn]. runes_step IH H. }
    destruct (in_range 0xF0 0xF4 b0); [|discriminate].
    destruct r as [|b1 [|b2 [|b3 r3]]]; try discriminate. cbv zeta in H |- *.
    destruct (in_range _ _ b1 && utf8_tail b2 && utf8_tail b3); [|discriminate].
    cbn [skipn]. runes_step IH H.
Qed.

Theorem go_runes_valid s cps : utf8_decode s = Some cps -> go_runes s = cps.
Proof. intros H. unfold go_runes. now apply go_runes_fuel_valid. Qed.

Corollary go_runes_utf8 cps : Forall scalar_value cps -> go_runes (utf8_encode cps) = cps.
Proof. intros H. apply go_runes_valid. now apply utf8_decode_encode. Qed.

(* EncodeUTF16LE on a valid UTF-8 string is RFC 2781 UTF-16LE of its code points *)
Lemma enc_utf16le_go_spec s : enc_utf16le_go s = utf16le_encode (go_runes s).
Proof. reflexivity. Qed.

(* ================================================================== *)
(* DecodeUTF16LE on an even number of bytes *)

Lemma lor_low_high lo hi : lo < 256 -> N.lor lo (hi * 256) = lo + hi * 256.
Proof.
  intros Hlo.
  assert (Hland : N.land lo (hi * 256) = 0).
  { apply N.bits_inj_0. intros k. rewrite N.land_spec.
    change 256 with (2 ^ 8). rewrite <- N.shiftl_mul_pow2.
    destruct (N.lt_ge_cases k 8) as [Hk|Hk].
    - rewrite N.shiftl_spec_low by exact Hk. apply andb_false_r.
    - replace (N.testbit lo k) with false; [reflexivity|]. symmetry.
      destruct (N.eq_dec lo 0) as [->|Hnz]; [apply N.bits_0|].
      apply N.bits_above_log2. apply N.lt_le_trans with 8; [|exact Hk].
      apply N.log2_lt_pow2; [lia|exact Hlo]. }
  rewrite <- N.lxor_lor by exact Hland. symmetry. now apply N.add_nocarry_lxor.
Qed.

Lemma dec_units_go_le us :
  Forall (fun u => u < 0x10000) us -> dec_units_go (units_to_le us) = Ok us.
Proof.
  induction 1 as [|u us Hu Hus IH]; [reflexivity|].
  unfold units_to_le in *. cbn [flat_map unit_le app dec_units_go]. rewrite IH. cbn [bind].
  do 2 f_equal.
  assert (Hq : u / 256 < 256) by (apply N.div_lt_upper_bound; lia).
  rewrite (N.mod_small (u / 256)) by exact Hq.
  rewrite lor_low_high by (apply N.mod_lt; discriminate).
  rewrite (N.div_mod u 256) at 3 by discriminate. lia.
Qed.

Lemma list_ind2 {A} (P : list A -> Prop) :
  P [] -> (forall a, P [a]) -> (forall a b r, P r -> P (a :: b :: r)) -> forall l, P l.
Proof.
  intros H0 H1 H2. fix IH 1. intros [|a [|b r]]; [exact H0 | apply H1 | apply H2, IH].
Qed.

(* the units DecodeUTF16LE builds: b[i] | b[i+1]<<8 *)
Fixpoint units_lor (b : list N) : list N :=
  match b with
  | lo :: hi :: r => N.lor lo (hi * 256) :: units_lor r
  | _ => []
  end.

Lemma dec_units_go_all b : dec_units_go b = Ok (units_lor b).
Proof.
  induction b as [| a | lo hi r IH] using list_ind2; try reflexivity.
  cbn [dec_units_go units_lor]. now rewrite IH.
Qed.

Lemma dec_units_go_even b : lenN b mod 2 = 0 -> dec_units_go b = Ok (units_lor b).
Proof. intros _. apply dec_units_go_all. Qed.

Lemma units_lor_spec b : wf_bytes b -> units_lor b = units_of_le b.
Proof.
  induction b as [| a | lo hi r IH] using list_ind2; intros H; try reflexivity.
  inversion_clear H as [|? ? Hlo H']. inversion_clear H' as [|? ? Hhi Hr].
  cbn [units_lor units_of_le]. rewrite IH by exact Hr. f_equal.
  rewrite lor_low_high by exact Hlo. lia.
Qed.

Lemma dec_utf16le_go_total b : lenN b mod 2 = 0 -> dec_utf16le_go b <> Panic.
Proof. intros H. unfold dec_utf16le_go. rewrite dec_units_go_even by exact H. discriminate. Qed.

(* on byte strings DecodeUTF16LE is RFC 2781 decoding followed by UTF-8 encoding *)
Lemma dec_utf16le_go_spec b :
  wf_bytes b -> lenN b mod 2 = 0 -> dec_utf16le_go b = Ok (utf8_encode (utf16le_decode b)).
Proof.
  intros Hwf H. unfold dec_utf16le_go, utf16le_decode.
  rewrite dec_units_go_even by exact H. cbn [bind]. now rewrite units_lor_spec.
Qed.

(* ================================================================== *)
(* blocks of 16 *)

Definition blocks16 (data : list N) : Prop := exists k, length data = (16 * k)%nat.

Lemma full_blocks_spec data : full_blocks data = true <-> blocks16 data.
Proof.
  unfold full_blocks, blocks16, lenN. rewrite N.eqb_eq. split.
  - intros H. apply N.mod_divides in H; [|discriminate]. destruct H as [c Hc].
    exists (N.to_nat c). lia.
  - intros [k Hk]. rewrite Hk. replace (N.of_nat (16 * k)) with (N.of_nat k * 16) by lia.
    apply N.mod_mul. discriminate.
Qed.

Lemma blocks16_ind (P : list N -> Prop) :
  P [] ->
  (forall b r, length b = 16%nat -> blocks16 r -> P r -> P (b ++ r)) ->
  forall data, blocks16 data -> P data.
Proof.
  intros H0 Hstep data [k Hk]. revert data Hk. induction k as [|k IH]; intros data Hk.
  - destruct data; [exact H0|cbn in Hk; lia].
  - rewrite <- (firstn_skipn 16 data).
    assert (Hs : length (skipn 16 data) = (16 * k)%nat) by (rewrite skipn_length; lia).
    apply Hstep; [rewrite firstn_length; lia | now exists k | now apply IH].
Qed.

Lemma xor_bytes_involutive a b : xor_bytes (xor_bytes a b) b = a.
Proof.
  revert b; induction a as [|x a IH]; intros [|y b]; cbn [xor_bytes]; try reflexivity.
  - now rewrite !xor_bytes_nil_r.
  - rewrite IH. f_equal. rewrite N.lxor_assoc, N.lxor_nilpotent. apply N.lxor_0_r.
Qed.

Section CBC.
  Variable E D : list N -> list N.
  Hypothesis E_len : forall b, length b = 16%nat -> length (E b) = 16%nat.
  Hypothesis E_wf : forall b, wf_bytes b -> wf_bytes (E b).
  Hypothesis D_E : forall b, length b = 16%nat -> wf_bytes b -> D (E b) = b.

  Lemma cbc_encrypt_app b r iv :
    length b = 16%nat ->
    cbc_encrypt E 16 iv (b ++ r) = E (xor_bytes b iv) ++ cbc_encrypt E 16 (E (xor_bytes b iv)) r.
  Proof.
    intros Hb. unfold cbc_encrypt. rewrite chunks_app_block by (lia || exact Hb). reflexivity.
  Qed.

  Lemma cbc_decrypt_app c r iv :
    length c = 16%nat ->
    cbc_decrypt D 16 iv (c ++ r) = xor_bytes (D c) iv ++ cbc_decrypt D 16 c r.
  Proof.
    intros Hc. unfold cbc_decrypt. rewrite chunks_app_block by (lia || exact Hc). reflexivity.
  Qed.

  Lemma cbc_roundtrip data : blocks16 data -> forall iv,
    wf_bytes data -> wf_bytes iv ->
    cbc_decrypt D 16 iv (cbc_encrypt E 16 iv data) = data /\
    length (cbc_encrypt E 16 iv data) = length data /\
    wf_bytes (cbc_encrypt E 16 iv data).
  Proof.
    intros Hb. induction Hb as [|b r Hlen Hr IH] using blocks16_ind; intros iv Hwf Hiv.
    - repeat split. constructor.
    - apply wf_bytes_app in Hwf. destruct Hwf as [Hwb Hwr].
      rewrite cbc_encrypt_app by exact Hlen.
      set (c := E (xor_bytes b iv)).
      assert (Hx : wf_bytes (xor_bytes b iv)) by now apply wf_xor_bytes.
      assert (Hxl : length (xor_bytes b iv) = 16%nat) by now rewrite length_xor_bytes.
      assert (Hc : length c = 16%nat) by now apply E_len.
      assert (Hcw : wf_bytes c) by now apply E_wf.
      destruct (IH c Hwr Hcw) as (IH1 & IH2 & IH3).
      rewrite cbc_decrypt_app by exact Hc. unfold c at 1. rewrite D_E by assumption.
      rewrite xor_bytes_involutive, IH1. repeat split.
      + rewrite !app_length, IH2. lia.
      + apply wf_bytes_app. split; assumption.
  Qed.
End CBC.

(* ================================================================== *)
(* the two directions *)

Lemma pad_spec_wf m : wf_bytes m -> wf_bytes (pkcs7_pad_spec 16 m).
Proof.
  intros H. unfold pkcs7_pad_spec, pkcs7_padding. apply wf_bytes_app. split; [exact H|].
  assert (Hm := N.mod_lt (lenN m) 16 ltac:(discriminate)).
  apply Forall_forall. intros x Hx. apply repeat_spec in Hx. subst x. lia.
Qed.

Lemma pad_spec_blocks m : blocks16 (pkcs7_pad_spec 16 m).
Proof.
  apply full_blocks_spec. unfold full_blocks. apply N.eqb_eq.
  apply (pad_spec_length m 16). lia.
Qed.

Lemma repad_multiple_of_4 s : lenN s mod 4 = 0 -> gppp_repad s = s.
Proof. intros H. unfold gppp_repad. rewrite H. reflexivity. Qed.

Lemma b64_encode_len4 l : lenN (b64_encode l) mod 4 = 0.
Proof.
  unfold lenN. rewrite b64_encode_length.
  replace (N.of_nat (4 * ((length l + 2) / 3))) with (N.of_nat ((length l + 2) / 3) * 4) by lia.
  apply N.mod_mul. discriminate.
Qed.

Section GpppEnc.
  Variable aes_enc : list N -> list N -> list N.
  Variable key : list N.
  Hypothesis key_ok : key_size_ok key = true.

  (* GPPPEncrypt never fails and is the layered encoding *)
  Theorem gppp_encrypt_with_spec s :
    gppp_encrypt_with aes_enc key s =
    Ok (b64_encode (cbc_encrypt (aes_enc key) 16 (zeros 16) (pkcs7_pad_spec 16 (enc_utf16le_go s)))).
  Proof.
    unfold gppp_encrypt_with. rewrite pad_spec by lia. cbn [bind]. rewrite key_ok. cbn [negb].
    replace (full_blocks _) with true by (symmetry; apply full_blocks_spec, pad_spec_blocks).
    reflexivity.
  Qed.
End GpppEnc.

Section GpppProofs.
  Variable aes_enc aes_dec : list N -> list N -> list N.
  Variable key : list N.
  Hypothesis key_ok : key_size_ok key = true.
  Hypothesis enc_len : forall b, length b = 16%nat -> length (aes_enc key b) = 16%nat.
  Hypothesis enc_wf : forall b, wf_bytes b -> wf_bytes (aes_enc key b).
  Hypothesis dec_enc : forall b, length b = 16%nat -> wf_bytes b -> aes_dec key (aes_enc key b) = b.

  (* decrypting the ciphertext of the UTF-16LE text of a Unicode password *)
  Lemma decrypt_bytes_of_encrypt cps :
    Forall scalar_value cps ->
    gppp_decrypt_bytes_with aes_dec key
      (cbc_encrypt (aes_enc key) 16 (zeros 16) (pkcs7_pad_spec 16 (utf16le_encode cps)))
    = Ok (utf8_encode cps).
  Proof.
    intros Hcps. set (pt := utf16le_encode cps).
    assert (Hptwf : wf_bytes pt) by apply utf16le_encode_wf.
    destruct (cbc_roundtrip (aes_enc key) (aes_dec key) enc_len enc_wf dec_enc
                _ (pad_spec_blocks pt) (zeros 16) (pad_spec_wf pt Hptwf) (wf_zeros 16))
      as (Hrt & Hlen & Hwf).
    unfold gppp_decrypt_bytes_with. rewrite key_ok. cbn [negb].
    replace (full_blocks _) with true.
    2:{ symmetry. apply full_blocks_spec. destruct (pad_spec_blocks pt) as [k Hk].
        exists k. now rewrite Hlen. }
    cbn [negb]. unfold zero_iv. fold (zeros 16). rewrite Hrt.
    destruct (unpad_pad pt 16 ltac:(lia)) as (padded & Hp & Hu).
    rewrite pad_spec in Hp by lia. injection Hp as <-. rewrite Hu. cbn [bind].
    assert (Heven : lenN pt mod 2 = 0).
    { unfold pt, utf16le_encode, lenN. rewrite units_to_le_length.
      replace (N.of_nat (2 * length (utf16_encode cps))) with (N.of_nat (length (utf16_encode cps)) * 2) by lia.
      apply N.mod_mul. discriminate. }
    rewrite Heven. cbn [N.eqb negb].
    rewrite dec_utf16le_go_spec by assumption.
    unfold pt. now rewrite utf16le_decode_encode.
  Qed.

  (* C12_gpp_inverse: GPPPDecryptBase64 (GPPPEncrypt p) = p and GPPPDecryptBytes on the raw
     ciphertext likewise, for every Unicode password p (given as its code points) *)
  Theorem gppp_roundtrip cps :
    Forall scalar_value cps ->
    exists enc,
      gppp_encrypt_with aes_enc key (utf8_encode cps) = Ok enc /\
      gppp_decrypt_b64_with aes_dec key enc = Ok (utf8_encode cps) /\
      exists ct, b64_decode enc = Some ct /\ gppp_decrypt_bytes_with aes_dec key ct = Ok (utf8_encode cps).
  Proof.
    intros Hcps. eexists. split; [apply gppp_encrypt_with_spec, key_ok|].
    rewrite enc_utf16le_go_spec, go_runes_utf8 by exact Hcps.
    set (pt := utf16le_encode cps).
    assert (Hptwf : wf_bytes pt) by apply utf16le_encode_wf.
    destruct (cbc_roundtrip (aes_enc key) (aes_dec key) enc_len enc_wf dec_enc
                _ (pad_spec_blocks pt) (zeros 16) (pad_spec_wf pt Hptwf) (wf_zeros 16))
      as (_ & _ & Hwf).
    unfold gppp_decrypt_b64_with.
    rewrite repad_multiple_of_4 by apply b64_encode_len4.
    rewrite b64_decode_encode by exact Hwf.
    split; [now apply decrypt_bytes_of_encrypt|].
    eexists. split; [reflexivity|]. now apply decrypt_bytes_of_encrypt.
  Qed.
End GpppProofs.

(* ---- no decoder panics, whatever the cipher and the key (C07 reuses these) ---- *)

Theorem gppp_decrypt_bytes_with_total aes_dec key ct :
  gppp_decrypt_bytes_with aes_dec key ct <> Panic.
Proof.
  unfold gppp_decrypt_bytes_with.
  destruct (negb (key_size_ok key)); [discriminate|].
  destruct (negb (full_blocks ct)); [discriminate|].
  destruct (pkcs7_unpad _) as [pt| |] eqn:Hu; cbn [bind]; try discriminate.
  - destruct (N.eqb_spec (lenN pt mod 2) 0) as [He|]; cbn [negb]; [|discriminate].
    now apply dec_utf16le_go_total.
  - exfalso. now apply (unpad_total _ Hu).
Qed.

Theorem gppp_decrypt_b64_with_total aes_dec key s :
  gppp_decrypt_b64_with aes_dec key s <> Panic.
Proof.
  unfold gppp_decrypt_b64_with. destruct (b64_decode _); [|discriminate].
  apply gppp_decrypt_bytes_with_total.
Qed.

(* ================================================================== *)
(* the executable instance: FIPS 197 AES under the key in the source *)

(* the key in the source is the one Microsoft published *)
Theorem gppp_key_is_published : c12_gppp_aes_key = ms_gpp_key.
Proof. reflexivity. Qed.

Lemma gppp_key_wf : wf_bytes c12_gppp_aes_key.
Proof. apply wf_bytesb_spec. vm_compute. reflexivity. Qed.

Lemma aes_block_enc_len key b : length b = 16%nat -> length (aes_block_enc key b) = 16%nat.
Proof. apply aes_cipher_length. Qed.

Lemma aes_block_enc_wf b : wf_bytes b -> wf_bytes (aes_block_enc c12_gppp_aes_key b).
Proof. intros H. apply aes_cipher_wf; [apply aes_round_keys_wf, gppp_key_wf | exact H]. Qed.

Lemma cbc_enc_block_eq key iv d : cbc_encrypt (aes_block_enc key) 16 iv d = aes_cbc_encrypt key iv d.
Proof. reflexivity. Qed.
Lemma cbc_dec_block_eq key iv d : cbc_decrypt (aes_block_dec key) 16 iv d = aes_cbc_decrypt key iv d.
Proof. reflexivity. Qed.

(* C12_gpp_is_aes256cbc (encrypt): for every Go string *)
Theorem gppp_encrypt_is_aes256cbc s :
  gppp_encrypt s =
  Ok (b64_encode (aes_cbc_encrypt ms_gpp_key (zeros 16) (pkcs7_pad_spec 16 (utf16le_encode (go_runes s))))).
Proof.
  unfold gppp_encrypt. rewrite (gppp_encrypt_with_spec aes_block_enc c12_gppp_aes_key eq_refl s).
  rewrite cbc_enc_block_eq, gppp_key_is_published, enc_utf16le_go_spec. reflexivity.
Qed.

(* … in particular for a Unicode password it is the cpassword of [MS-GPPREF] *)
Corollary gppp_encrypt_cpassword cps :
  Forall scalar_value cps -> gppp_encrypt (utf8_encode cps) = Ok (gpp_cpassword cps).
Proof.
  intros H. rewrite gppp_encrypt_is_aes256cbc, go_runes_utf8 by exact H. reflexivity.
Qed.

(* C12_gpp_is_aes256cbc (decrypt): GPPPDecryptBytes succeeds exactly on a whole number of blocks
   whose AES-256-CBC decryption under the published key and zero IV is validly PKCS#7-padded
   UTF-16LE text, and returns that text *)
Lemma cbc_decrypt_wf D data : (forall b, wf_bytes b -> wf_bytes (D b)) ->
  blocks16 data -> forall iv, wf_bytes data -> wf_bytes iv -> wf_bytes (cbc_decrypt D 16 iv data).
Proof.
  intros HD Hb. induction Hb as [|b r Hlen Hr IH] using blocks16_ind; intros iv Hwf Hiv.
  - constructor.
  - apply wf_bytes_app in Hwf. destruct Hwf as [Hwb Hwr].
    unfold cbc_decrypt. rewrite chunks_app_block by (lia || exact Hlen).
    cbn [cbc_decrypt_blocks concat]. apply wf_bytes_app. split.
    + apply wf_xor_bytes; [now apply HD | exact Hiv].
    + now apply IH.
Qed.

Theorem gppp_decrypt_bytes_is_aes256cbc ct s :
  wf_bytes ct ->
  (gppp_decrypt_bytes ct = Ok s <->
   lenN ct mod 16 = 0 /\
   exists pt, pkcs7_padded (gpp_plain_padded ct) pt /\ lenN pt mod 2 = 0 /\
              s = utf8_encode (utf16le_decode pt)).
Proof.
  intros Hwf. unfold gppp_decrypt_bytes, gppp_decrypt_bytes_with.
  replace (key_size_ok c12_gppp_aes_key) with true by reflexivity. cbn [negb].
  unfold full_blocks.
  destruct (N.eqb_spec (lenN ct mod 16) 0) as [H16|H16]; cbn [negb];
    [|split; [discriminate | intros [? _]; contradiction]].
  assert (Hplain : cbc_decrypt (aes_block_dec c12_gppp_aes_key) 16 zero_iv ct = gpp_plain_padded ct).
  { unfold gpp_plain_padded, zero_iv. fold (zeros 16). rewrite cbc_dec_block_eq, gppp_key_is_published. reflexivity. }
  rewrite Hplain.
  assert (Hpwf : wf_bytes (gpp_plain_padded ct)).
  { rewrite <- Hplain. apply cbc_decrypt_wf; [| |exact Hwf|apply wf_zeros].
    - intros b Hb. apply aes_inv_cipher_wf; [|exact Hb].
      apply Forall_rev, aes_round_keys_wf, gppp_key_wf.
    - apply full_blocks_spec. unfold full_blocks. now apply N.eqb_eq. }
  clear Hplain. generalize dependent (gpp_plain_padded ct). intros plain Hpwf.
  split.
  - intros H. split; [exact H16|].
    destruct (pkcs7_unpad plain) as [pt| |] eqn:Hu; cbn [bind] in H; try discriminate H.
    exists pt. apply (unpad_iff _ _ Hpwf) in Hu.
    destruct (N.eqb_spec (lenN pt mod 2) 0) as [He|]; cbn [negb] in H; [|discriminate H].
    assert (Hptwf : wf_bytes pt).
    { destruct Hu as (p & _ & Heq). rewrite Heq in Hpwf. now apply wf_bytes_app in Hpwf. }
    rewrite dec_utf16le_go_spec in H by assumption. injection H as <-. auto.
  - intros (_ & pt & Hpad & He & ->).
    assert (Hptwf : wf_bytes pt).
    { destruct Hpad as (p & _ & Heq). rewrite Heq in Hpwf. now apply wf_bytes_app in Hpwf. }
    apply (unpad_iff _ _ Hpwf) in Hpad. rewrite Hpad. cbn [bind]. rewrite He. cbn [N.eqb negb].
    now apply dec_utf16le_go_spec.
Qed.
