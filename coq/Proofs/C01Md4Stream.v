(* C01: the streaming interface of Manticore's MD4 (New / Write / Sum / HexSum) computes RFC 1320's digest of
   the concatenation of everything written, however the message is cut into writes, and reading the digest
   changes nothing. *)
From Coq Require Import List NArith ZArith Lia Bool.
From Coq Require Import ZifyN ZifyNat ZifyBool.
From Mant Require Import Prim.Bytes Prim.Dec Algo.Word Algo.MD4 Gen.ConstsC01 Model.Md4Go Spec.C01
  Proofs.AlgoProofs Proofs.C01Md4Compress.
Import ListNotations.
Open Scope N_scope.

(* ------------------------------------------------------------------ *)
(* uint64 arithmetic of Write and Sum *)

Module Arith.
  Ltac Zify.zify_post_hook ::= Z.div_mod_to_equations.

  Lemma count_eq L n : let M := 18446744073709551616 in
    ((8 * L) mod M + ((n mod M) * 8) mod M) mod M = (8 * (L + n)) mod M.
  Proof. intro M. subst M. lia. Qed.

  Lemma buffered_eq L n : let M := 18446744073709551616 in
    (((8 * (L + n)) mod M) / 8 + M - n mod M) mod M mod 64 = L mod 64.
  Proof. intro M. subst M. lia. Qed.

  Lemma idx_eq L : let M := 18446744073709551616 in ((8 * L) mod M / 8) mod 64 = L mod 64.
  Proof. intro M. subst M. lia. Qed.

  Lemma mod64_split (n t : nat) : (t < 64)%nat -> N.of_nat (64 * n + t) mod 64 = N.of_nat t.
  Proof. intros H. lia. Qed.

  Lemma padlen_lt r : r < 56 ->
    (56 + 18446744073709551616 - r) mod 18446744073709551616 = 56 - r.
  Proof. intros H. lia. Qed.

  Lemma padlen_ge r : 56 <= r -> r < 64 ->
    ((56 + 18446744073709551616 - r) mod 18446744073709551616 + 64) mod 18446744073709551616 = 120 - r.
  Proof. intros H1 H2. lia. Qed.
End Arith.

Lemma w64_mod x : w64 x = x mod 18446744073709551616.
Proof. apply w64_spec. Qed.

(* md4.count after Write(p) when it was 8*L mod 2^64 *)
Lemma count_after L n : w64 (w64 (8 * L) + w64 (w64 n * 8)) = w64 (8 * (L + n)).
Proof. rewrite !w64_mod. apply Arith.count_eq. Qed.

(* `buffered` of Write: the number of bytes waiting in the buffer, whatever the wrap-arounds *)
Lemma buffered_after L n : w64 (w64 (8 * (L + n)) / 8 + 2 ^ 64 - w64 n) mod 64 = L mod 64.
Proof. change (2 ^ 64) with 18446744073709551616. rewrite !w64_mod. apply Arith.buffered_eq. Qed.

(* ------------------------------------------------------------------ *)
(* absorbing whole blocks *)

Definition absorb (h : md4_state) (bytes : list N) : md4_state := md4_blocks h (words_le bytes).

Lemma words_le_block64 k rest : length k = 64%nat ->
  words_le (k ++ rest) = words_le k ++ words_le rest.
Proof.
  intros H.
  do 64 (destruct k as [|? k]; [discriminate H|]). destruct k; [|discriminate H].
  reflexivity.
Qed.

Lemma length_words_le_block64 k : length k = 64%nat -> length (words_le k) = 16%nat.
Proof.
  intros H.
  do 64 (destruct k as [|? k]; [discriminate H|]). destruct k; [|discriminate H].
  reflexivity.
Qed.

Lemma fold_blocks16_one {S} (f : S -> list N -> S) st blk : length blk = 16%nat ->
  fold_blocks16 f st blk = f st blk.
Proof.
  intros H. rewrite <- (app_nil_r blk) at 1. rewrite fold_blocks16_first by exact H. reflexivity.
Qed.

Lemma absorb_nil h : absorb h [] = h.
Proof. reflexivity. Qed.

Lemma absorb_block h blk rest : length blk = 64%nat ->
  absorb h (blk ++ rest) = absorb (md4_compress h (words_le blk)) rest.
Proof.
  intros H. unfold absorb, md4_blocks.
  rewrite words_le_block64 by exact H.
  rewrite fold_blocks16_first by (apply length_words_le_block64; exact H). reflexivity.
Qed.

Lemma absorb_app n : forall h pre x, length pre = (64 * n)%nat ->
  absorb h (pre ++ x) = absorb (absorb h pre) x.
Proof.
  induction n as [|n IH]; intros h pre x H.
  - destruct pre; [reflexivity|discriminate H].
  - rewrite <- (firstn_skipn 64 pre).
    assert (H1 : length (firstn 64 pre) = 64%nat) by (rewrite firstn_length; lia).
    assert (H2 : length (skipn 64 pre) = (64 * n)%nat) by (rewrite skipn_length; lia).
    set (blk := firstn 64 pre) in *. set (rest := skipn 64 pre) in *.
    rewrite <- app_assoc, (absorb_block h blk (rest ++ x) H1), (absorb_block h blk rest H1).
    apply IH. exact H2.
Qed.

Lemma wf_absorb n : forall h pre, wf_regs h -> length pre = (64 * n)%nat -> wf_regs (absorb h pre).
Proof.
  induction n as [|n IH]; intros h pre Hwf H.
  - destruct pre; [exact Hwf|discriminate H].
  - rewrite <- (firstn_skipn 64 pre).
    assert (H1 : length (firstn 64 pre) = 64%nat) by (rewrite firstn_length; lia).
    assert (H2 : length (skipn 64 pre) = (64 * n)%nat) by (rewrite skipn_length; lia).
    rewrite absorb_block by exact H1. apply IH; [apply wf_md4_compress|exact H2].
Qed.

(* ------------------------------------------------------------------ *)
(* the block loop of Write *)

Lemma write_blocks_spec fuel : forall h rest, wf_regs h -> (length rest <= fuel)%nat ->
  exists n pre tl, rest = pre ++ tl /\ length pre = (64 * n)%nat /\ (length tl < 64)%nat /\
    write_blocks fuel h rest = (absorb h pre, tl).
Proof.
  induction fuel as [|fuel IH]; intros h rest Hwf Hlen.
  - destruct rest; [|cbn in Hlen; lia].
    exists 0%nat, [], []. cbn. repeat split; auto. lia.
  - cbn [write_blocks]. unfold lenN.
    destruct (N.leb_spec 64 (N.of_nat (length rest))) as [Hge|Hlt].
    + assert (H1 : length (firstn 64 rest) = 64%nat) by (rewrite firstn_length; lia).
      assert (H2 : (length (skipn 64 rest) <= fuel)%nat) by (rewrite skipn_length; lia).
      rewrite process_chunk_rfc by exact Hwf.
      destruct (IH (md4_compress h (words_le (firstn 64 rest))) (skipn 64 rest)
                  (wf_md4_compress _ _) H2) as (n & pre & tl & E & Hp & Ht & W).
      exists (S n), (firstn 64 rest ++ pre), tl. repeat split.
      * rewrite <- app_assoc, <- E, firstn_skipn. reflexivity.
      * rewrite app_length, H1, Hp. lia.
      * exact Ht.
      * rewrite W, absorb_block by exact H1. reflexivity.
    + exists 0%nat, [], rest. repeat split; auto. lia.
Qed.

(* ------------------------------------------------------------------ *)
(* the invariant of the running object after the message msg has been written *)

Definition Inv (st : md4st) (msg : list N) : Prop :=
  exists n pre tail,
    msg = pre ++ tail /\ length pre = (64 * n)%nat /\ (length tail < 64)%nat /\
    st_h st = absorb md4_init pre /\
    length (st_buf st) = 64%nat /\ firstn (length tail) (st_buf st) = tail /\
    st_count st = w64 (8 * lenN msg).

Lemma inv_new : Inv md4_new [].
Proof.
  exists 0%nat, [], []. repeat split; try reflexivity. cbn. lia.
Qed.

Lemma firstn_app_exact {A} (a b : list A) n : length a = n -> firstn n (a ++ b) = a.
Proof. intros <-. rewrite firstn_app, Nat.sub_diag, firstn_all. cbn. apply app_nil_r. Qed.

Lemma skipn_all_ge {A} (l : list A) n : (length l <= n)%nat -> skipn n l = [].
Proof. intros H. apply length_zero_iff_nil. rewrite skipn_length. lia. Qed.

Lemma copy_into_0 buf src : (length src <= length buf)%nat ->
  copy_into buf 0 src = src ++ skipn (length src) buf.
Proof.
  intros H. unfold copy_into. rewrite Nat.sub_0_r.
  rewrite (firstn_all2 (n := length buf) src) by exact H.
  change (firstn 0 buf) with (@nil N). reflexivity.
Qed.

Theorem write_inv st msg p : Inv st msg -> Inv (md4_write st p) (msg ++ p).
Proof.
  intros (n & pre & tail & Emsg & Hpre & Htail & Hh & Hbuf & Hfirst & Hcount).
  set (t := length tail) in *.
  assert (HL : lenN msg mod 64 = N.of_nat t).
  { subst msg. unfold lenN. rewrite app_length, Hpre. apply Arith.mod64_split. exact Htail. }
  unfold md4_write.
  rewrite Hcount, count_after, buffered_after, HL.
  set (count' := w64 (8 * (lenN msg + lenN p))).
  assert (Hc' : count' = w64 (8 * lenN (msg ++ p))) by (unfold count'; rewrite lenN_app; reflexivity).
  assert (Hwf : wf_regs (st_h st)).
  { rewrite Hh. apply (wf_absorb n); [apply wf_md4_init|exact Hpre]. }
  rewrite Nat2N.id.
  replace (N.to_nat (64 - N.of_nat t)) with (64 - t)%nat by lia.
  unfold lenN at 1.
  destruct (N.leb_spec (64 - N.of_nat t) (N.of_nat (length p))) as [Hge|Hlt].
  - (* the buffer is completed and processed, then whole blocks straight from p *)
    set (rem := (64 - t)%nat).
    assert (Hrem : length (firstn rem p) = rem) by (rewrite firstn_length; lia).
    set (buf1 := copy_into (st_buf st) t (firstn rem p)).
    assert (Ebuf1 : buf1 = tail ++ firstn rem p).
    { unfold buf1, copy_into. rewrite Hbuf. fold rem.
      rewrite (firstn_all2 (n := rem)) by lia.
      rewrite Hfirst, Hrem, skipn_all_ge by lia. rewrite app_nil_r. reflexivity. }
    assert (Lbuf1 : length buf1 = 64%nat) by (rewrite Ebuf1, app_length, Hrem; lia).
    rewrite process_chunk_rfc by exact Hwf.
    destruct (write_blocks_spec (length (skipn rem p)) (md4_compress (st_h st) (words_le buf1)) (skipn rem p)
                (wf_md4_compress _ _) (le_n _)) as (n2 & pre2 & tl2 & E2 & Hp2 & Ht2 & W).
    rewrite W.
    exists (n + 1 + n2)%nat, (pre ++ buf1 ++ pre2), tl2. cbn [st_h st_count st_buf].
    repeat split.
    + rewrite Emsg, Ebuf1, <- !app_assoc. do 2 f_equal.
      rewrite <- E2, firstn_skipn. reflexivity.
    + rewrite !app_length, Hpre, Lbuf1, Hp2. lia.
    + exact Ht2.
    + rewrite (absorb_app n) by exact Hpre. rewrite <- Hh.
      rewrite absorb_block by exact Lbuf1. reflexivity.
    + rewrite copy_into_0 by lia. rewrite app_length, skipn_length. lia.
    + rewrite copy_into_0 by lia. apply firstn_app_exact. reflexivity.
    + exact Hc'.
  - (* everything fits in the buffer *)
    exists n, pre, (tail ++ p). cbn [st_h st_count st_buf].
    assert (Lp : (length p < 64 - t)%nat) by lia.
    assert (Ebuf : copy_into (st_buf st) t p = tail ++ p ++ skipn (t + length p) (st_buf st)).
    { unfold copy_into. rewrite Hbuf, (firstn_all2 (n := (64 - t)%nat)) by lia.
      rewrite Hfirst. reflexivity. }
    repeat split.
    + rewrite Emsg, app_assoc. reflexivity.
    + exact Hpre.
    + rewrite app_length. fold t. lia.
    + exact Hh.
    + rewrite Ebuf, !app_length, skipn_length, Hbuf. fold t. lia.
    + rewrite Ebuf, app_assoc. apply firstn_app_exact. reflexivity.
    + exact Hc'.
Qed.

Lemma writes_inv chunks : forall st msg, Inv st msg ->
  Inv (fold_left md4_write chunks st) (msg ++ concat chunks).
Proof.
  induction chunks as [|p chunks IH]; intros st msg H.
  - cbn. rewrite app_nil_r. exact H.
  - cbn [fold_left concat]. rewrite app_assoc. apply IH. apply write_inv. exact H.
Qed.

(* ------------------------------------------------------------------ *)
(* Sum: the padding written by Sum is RFC 1320's *)

Lemma firstn_zeros k m : (k <= m)%nat -> firstn k (zeros m) = zeros k.
Proof.
  unfold zeros. revert m. induction k as [|k IH]; intros m H; [reflexivity|].
  destruct m as [|m]; [lia|]. cbn. f_equal. apply IH. lia.
Qed.

Lemma sum_padding_rfc L :
  sum_padding (w64 (8 * L)) = [0x80] ++ zeros (md_zero_count L).
Proof.
  unfold sum_padding, sum_padlen, md_zero_count.
  change (2 ^ 64) with 18446744073709551616.
  rewrite !w64_mod, Arith.idx_eq.
  assert (Hr := N.mod_lt L 64 ltac:(discriminate)).
  set (r := L mod 64) in *.
  destruct (N.leb_spec 56 r) as [Hge|Hlt].
  - destruct (N.ltb_spec r 56) as [?|_]; [lia|].
    rewrite Arith.padlen_ge by assumption.
    replace (N.to_nat (120 - r)) with (S (N.to_nat (119 - r))) by lia.
    cbn [firstn app]. f_equal. apply firstn_zeros. lia.
  - destruct (N.ltb_spec r 56) as [_|?]; [|lia].
    rewrite Arith.padlen_lt by assumption.
    replace (N.to_nat (56 - r)) with (S (N.to_nat (55 - r))) by lia.
    cbn [firstn app]. f_equal. apply firstn_zeros. lia.
Qed.

Lemma md4_digest_output h : md4_digest h = md4_output h.
Proof.
  destruct h as [[[a b] c] d]. unfold md4_digest, md4_output. rewrite !word_le_spec. reflexivity.
Qed.

(* the digest Sum returns when the object has absorbed msg *)
Theorem sum_inv st msg : Inv st msg -> fst (md4_sum st) = md4 msg.
Proof.
  intros H. unfold md4_sum, md4_finalize. cbn [fst].
  assert (Hc : st_count st = w64 (8 * lenN msg)) by (destruct H as (? & ? & ? & ? & ? & ? & ? & ? & ? & Hc); exact Hc).
  rewrite Hc.
  pose proof (write_inv _ _ (le_bytes 8 (w64 (8 * lenN msg)))
                (write_inv _ _ (sum_padding (w64 (8 * lenN msg))) H)) as H2.
  rewrite sum_padding_rfc in *.
  rewrite <- app_assoc in H2.
  change (msg ++ ([128] ++ zeros (md_zero_count (lenN msg))) ++ le_bytes 8 (w64 (8 * lenN msg)))
    with (md4_pad msg) in H2.
  destruct H2 as (n & pre & tail & E & Hp & Ht & Hh & _).
  assert (Hlen := md4_pad_length msg).
  rewrite E, app_length, Hp in Hlen.
  assert (Ht0 : length tail = 0%nat).
  { rewrite Nat.add_comm, Nat.mul_comm, Nat.mod_add in Hlen by discriminate.
    rewrite Nat.mod_small in Hlen by exact Ht. exact Hlen. }
  apply length_zero_iff_nil in Ht0. subst tail. rewrite app_nil_r in E. subst pre.
  rewrite Hh, md4_digest_output. reflexivity.
Qed.

Lemma sum_pure st : snd (md4_sum st) = st.
Proof. reflexivity. Qed.

(* ------------------------------------------------------------------ *)
(* main statements *)

Theorem md4_streaming chunks :
  fst (md4_sum (fold_left md4_write chunks md4_new)) = md4 (concat chunks).
Proof. apply sum_inv. apply (writes_inv chunks md4_new [] inv_new). Qed.

Theorem md4_sum_data_rfc data : md4_sum_data data = md4 data.
Proof.
  unfold md4_sum_data. rewrite <- (app_nil_r data) at 2.
  apply (md4_streaming [data]).
Qed.

(* histories *)
Definition spec_op (op : md4op) : hash_op :=
  match op with OpWrite p => HWrite p | OpSum => HRead | OpHexSum => HReadHex end.

Lemma md4_run_inv ops : forall st written, Inv st written ->
  md4_run st ops = reads_spec md4 written (map spec_op ops).
Proof.
  induction ops as [|op ops IH]; intros st written H; [reflexivity|].
  destruct op as [p| |]; cbn [md4_run reads_spec map spec_op].
  - apply IH. apply write_inv. exact H.
  - unfold md4_sum at 1. f_equal; [apply (sum_inv st written H)|apply IH; exact H].
  - unfold md4_hexsum, md4_sum at 1. f_equal; [|apply IH; exact H].
    f_equal. apply (sum_inv st written H).
Qed.

Theorem md4_reads_pure ops : md4_run md4_new ops = reads_spec md4 [] (map spec_op ops).
Proof. apply md4_run_inv. apply inv_new. Qed.

(* the record of the repaired defect: with the unrepaired Sum (padding written into the live object) the second
   read of Write("abc"); Sum; Sum is not the digest of "abc" *)
Lemma md4_sum_unrepaired_not_pure :
  let st := md4_write md4_new [97; 98; 99] in
  let '(d1, st1) := md4_sum_unrepaired st in
  let '(d2, _) := md4_sum_unrepaired st1 in
  d1 = md4 [97; 98; 99] /\ d2 <> md4 [97; 98; 99].
Proof. vm_compute. split; [reflexivity|discriminate]. Qed.
