(* C10 proofs, part 5: the known finding at packet level (witness), what it does not affect
   (the wire bytes), and the length bound of names on the wire. *)
From Coq Require Import List Arith NArith Lia Bool.
From Coq Require Import ZifyN ZifyNat ZifyBool.
From Mant Require Import Prim.R Prim.Bytes Model.NbName Model.NbPacket Spec.C10 Spec.C10View
  Proofs.C10Name Proofs.C10Spec Proofs.C10Packet.
Import ListNotations.
Open Scope N_scope.

Lemma strip_padding_name_ok name : name_ok name -> name_ok (strip_padding name).
Proof.
  intros (Hwf & Hlen & Hstar). destruct (strip_padding_decomp name) as [k Hk].
  pose proof (strip_padding_length name) as Hl.
  revert Hk Hl. generalize (strip_padding name). intros s Hk Hl.
  split; [|split].
  - rewrite Hk in Hwf. apply wf_bytes_app in Hwf. tauto.
  - lia.
  - destruct s as [|c s]; [cbn; lia|]. rewrite Hk in Hstar. exact Hstar.
Qed.

Lemma read_back_name_ok n : nbname_ok n -> nbname_ok (read_back_name n).
Proof.
  destruct n as [name scope]. intros (Hn & Hs & Ho). unfold read_back_name, nbname_ok in *.
  cbn [nb_name nb_scope] in *. split; [now apply strip_padding_name_ok|]. now split.
Qed.

Lemma view_read_back_name n : (length (nb_name n) <= 16)%nat -> view_name (read_back_name n) = view_name n.
Proof.
  destruct n as [name scope]. unfold view_name, read_back_name. cbn [nb_name nb_scope].
  intros H. now rewrite nb_pad_strip.
Qed.

Lemma append_name_read_back n : nbname_ok n -> append_name (Some (read_back_name n)) = append_name (Some n).
Proof.
  intros Hn. rewrite (append_name_rfc n Hn), (append_name_rfc _ (read_back_name_ok n Hn)).
  rewrite view_read_back_name; [reflexivity|]. destruct Hn as ((_ & Hl & _) & _). exact Hl.
Qed.

Lemma marshal_list_map_ext {A} (f : A -> R (list N)) (g : A -> A) l :
  Forall (fun x => f (g x) = f x) l -> marshal_list f (map g l) = marshal_list f l.
Proof.
  induction 1 as [|x l Hx Hl IH]; [reflexivity|]. cbn [map marshal_list]. now rewrite Hx, IH.
Qed.

(* the packet that comes back marshals to the very same bytes: nothing is lost on the wire *)
Theorem marshal_read_back p : packet_ok p -> marshal (read_back p) = marshal p.
Proof.
  intros (_ & _ & _ & _ & _ & _ & _ & _ & _ & _ & Fq & Fa & Fn & Fr).
  unfold marshal, read_back. cbn [p_hdr p_qs p_an p_ns p_ar].
  assert (Hrr : forall l, Forall rr_ok l -> marshal_list marshal_rr (map read_back_rr l) = marshal_list marshal_rr l).
  { intros l Hl. apply marshal_list_map_ext. eapply Forall_impl; [|exact Hl].
    intros [[n|] ty cl ttl rdl rd] (Hn & _); cbn in Hn; [|contradiction].
    unfold marshal_rr, read_back_rr. cbn [rr_name rr_type rr_class rr_ttl rr_rdlength rr_rdata read_back_oname option_map].
    now rewrite append_name_read_back. }
  rewrite !Hrr by assumption. f_equal.
  apply marshal_list_map_ext. eapply Forall_impl; [|exact Fq].
  intros [[n|] ty cl] (Hn & _); cbn in Hn; [|contradiction].
  unfold marshal_question, read_back_question. cbn [q_name q_type q_class read_back_oname option_map].
  now rewrite append_name_read_back.
Qed.

(* a legitimate name never exceeds 255 octets on the wire *)
Lemma lenN_flat_map_dotted ls :
  ls <> [] -> lenN (flat_map rfc_label_wire ls) = 1 + lenN (dotted ls).
Proof.
  destruct ls as [|l ls]; [contradiction|]. intros _. revert l.
  induction ls as [|m ls IH]; intros l.
  - cbn [flat_map dotted]. unfold rfc_label_wire. rewrite !app_nil_r, lenN_cons. reflexivity.
  - specialize (IH m). cbn [flat_map dotted] in *. unfold rfc_label_wire in *.
    rewrite !lenN_app, !lenN_cons in *. lia.
Qed.

Theorem name_wire_length n : nbname_ok n ->
  lenN (rfc_name_wire (view_name n)) = name_wire_octets (nb_scope n) /\ name_wire_octets (nb_scope n) <= 255.
Proof.
  destruct n as [name scope]. intros ((Hwf & Hlen & _) & Hscope & Hoct). cbn [nb_name nb_scope] in *.
  split; [|exact Hoct].
  unfold rfc_name_wire, view_name, name_wire_octets. cbn [rn_raw rn_scope nb_name nb_scope flat_map]. unfold rfc_label_wire at 1.
  rewrite lenN_app, lenN_app, lenN_cons, lenN_encoded_pad by exact Hlen.
  destruct scope as [|c r]; [reflexivity|].
  rewrite lenN_flat_map_dotted.
  - rewrite dotted_scope_labels. rewrite !lenN_cons, lenN_nil. lia.
  - rewrite scope_labels_split_dot by discriminate. apply split_dot_nonnil.
Qed.

(* and Marshal refuses a name that would exceed them (before the repair the length byte wrapped) *)
Theorem append_name_too_long name scope :
  name_ok name -> scope_ok scope -> 255 < name_wire_octets scope ->
  append_name (Some (mk_nbname name scope)) = Err.
Proof.
  intros Hname Hscope Hlong. unfold append_name. rewrite first_level_encode_rfc by assumption. cbn [bind].
  destruct Hname as (_ & Hlen & _). unfold rfc1001_encode, name_wire_octets in *.
  rewrite lenN_app, lenN_encoded_pad by exact Hlen.
  destruct scope as [|c r]; [lia|].
  destruct (N.ltb_spec 255 (32 + lenN (46 :: c :: r) + 2)); [reflexivity|]. rewrite (lenN_cons 46) in *. lia.
Qed.

(* the witness packet of the finding: a name query for "SERVER" + 9 spaces + suffix 0x20 (the file
   server service), id 0x1234, flags 0x0110 *)
Definition finding_packet : nbpacket :=
  mk_pkt (mk_hdr 4660 272 1 0 0 0)
         [mk_q (Some (mk_nbname [83; 69; 82; 86; 69; 82; 32; 32; 32; 32; 32; 32; 32; 32; 32; 32] [])) 32 1]
         [] [] [].

Lemma finding_packet_ok : packet_ok finding_packet.
Proof.
  unfold packet_ok, finding_packet. cbn [p_hdr p_qs p_an p_ns p_ar h_id h_flags h_qd h_an h_ns h_ar].
  repeat split; try (apply Forall_nil).
  apply Forall_cons; [|apply Forall_nil].
  unfold question_ok, oname_ok, nbname_ok, name_ok, scope_ok, name_wire_octets.
  cbn [q_name q_type q_class nb_name nb_scope scope_labels length hd].
  repeat split; try lia; try apply Forall_nil.
  apply wf_bytesb_spec. reflexivity.
Qed.

Theorem packet_exact_refuted :
  exists p bs, packet_ok p /\ marshal p = Ok bs /\ unmarshal bs <> Ok (lenN bs, p).
Proof.
  exists finding_packet. eexists. split; [exact finding_packet_ok|]. split.
  - vm_compute. reflexivity.
  - vm_compute. intros H. discriminate H.
Qed.
