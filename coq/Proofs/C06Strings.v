(* C06: SMB_STRING (five buffer formats), OEM_STRING, SMB_RESUME_KEY. *)
From Coq Require Import List Arith NArith Lia Bool.
From Coq Require Import ZifyN ZifyNat ZifyBool.
From Mant Require Import Prim.R Prim.Bytes Gen.ConstsC06 Model.SmbTypes Spec.C06 Proofs.C06Layout.
Import ListNotations.
Open Scope N_scope.

Lemma lenN_one {A} (x : A) : lenN [x] = 1.
Proof. reflexivity. Qed.

(* ---------------- the NUL scan ---------------- *)

Lemma find_nul_app buf : forall rest i, nonzero buf ->
  find_nul (buf ++ 0 :: rest) i = Some (i + lenN buf).
Proof.
  induction buf as [|b buf IH]; intros rest i H.
  - cbn [app find_nul]. change (0 =? 0) with true. cbv iota. rewrite lenN_nil. f_equal. lia.
  - inversion H as [|? ? Hb Hbuf]; subst. cbn [app find_nul].
    destruct (N.eqb_spec b 0); [contradiction|]. rewrite IH by exact Hbuf. rewrite lenN_cons. f_equal. lia.
Qed.

Lemma find_nul_bound l : forall i p, find_nul l i = Some p -> i <= p /\ p < i + lenN l.
Proof.
  induction l as [|b l IH]; intros i p H; [discriminate|].
  cbn [find_nul] in H. rewrite lenN_cons. destruct (b =? 0).
  - inversion H; subst. lia.
  - apply IH in H. lia.
Qed.

(* ---------------- decoding an own encoding ---------------- *)

Lemma counted_spec f buf tail extra : lenN buf <= 65535 -> extra <= lenN tail ->
  ss_unmarshal_counted f ([f] ++ le16 (lenN buf) ++ buf ++ tail) extra
  = Ok (mk_ss f (lenN buf) buf, lenN buf + 3 + extra).
Proof.
  intros Hlen Hextra. unfold ss_unmarshal_counted.
  assert (L : lenN ([f] ++ le16 (lenN buf) ++ buf ++ tail) = 3 + lenN buf + lenN tail).
  { rewrite !lenN_app, lenN_one. unfold le16. rewrite lenN_le_bytes. lia. }
  rewrite L. destruct (N.ltb_spec (3 + lenN buf + lenN tail) 3); [lia|].
  rewrite (go_slice_at [f] (le16 (lenN buf))); [|reflexivity|unfold le16; now rewrite lenN_le_bytes].
  cbn [bind]. unfold le16 at 1. rewrite go_le_uint_exact. cbn [bind].
  change (2 ^ (8 * N.of_nat 2)) with 65536. rewrite N.mod_small by lia.
  destruct (N.ltb_spec (3 + lenN buf + lenN tail) (lenN buf + 3 + extra)); [lia|].
  replace ([f] ++ le16 (lenN buf) ++ buf ++ tail) with (([f] ++ le16 (lenN buf)) ++ buf ++ tail)
    by now rewrite <- app_assoc.
  rewrite (go_slice_at ([f] ++ le16 (lenN buf)) buf); [reflexivity| |reflexivity].
  rewrite lenN_app, lenN_one. unfold le16. rewrite lenN_le_bytes. reflexivity.
Qed.

Lemma nul_spec f buf tail : nonzero buf -> lenN buf <= 65535 ->
  ss_unmarshal_nul f ([f] ++ buf ++ [0] ++ tail) = Ok (mk_ss f (lenN buf) buf, lenN buf + 2).
Proof.
  intros Hnz Hlen. unfold ss_unmarshal_nul.
  change (skipn 1 ([f] ++ buf ++ [0] ++ tail)) with (buf ++ 0 :: tail).
  rewrite find_nul_app by exact Hnz.
  rewrite (go_slice_at [f] buf); [|reflexivity|reflexivity]. cbn [bind].
  unfold wrap16. rewrite N.mod_small by lia. do 2 f_equal. lia.
Qed.

Lemma head_dispatch f l : smb_string_unmarshal (f :: l) =
  if f =? 1 then ss_unmarshal_counted f (f :: l) 0
  else if f =? 2 then ss_unmarshal_nul f (f :: l)
  else if f =? 3 then ss_unmarshal_counted f (f :: l) 1
  else if f =? 4 then ss_unmarshal_nul f (f :: l)
  else if f =? 5 then ss_unmarshal_counted f (f :: l) 0
  else Err.
Proof.
  unfold smb_string_unmarshal. rewrite lenN_cons.
  destruct (N.ltb_spec (1 + lenN l) 1); [lia|]. rewrite go_index_head. reflexivity.
Qed.

Theorem string_roundtrip :
  roundtrip_st dom_string (fun s => s) smb_string_marshal smb_string_unmarshal.
Proof.
  intros [f len buf] suffix [Hf [Hl [Hmax Hnz]]]. cbn [ss_fmt ss_len ss_buf] in *. subst len.
  assert (Hcase : f = 1 \/ f = 2 \/ f = 3 \/ f = 4 \/ f = 5) by lia.
  assert (Hno : (65535 <? lenN buf) = false) by (destruct (N.ltb_spec 65535 (lenN buf)); [lia|reflexivity]).
  unfold smb_string_marshal. cbn [ss_fmt ss_buf].
  destruct Hcase as [-> | [-> | [-> | [-> | ->]]]]; cbn [N.eqb Pos.eqb orb]; rewrite ?Hno.
  - eexists. split; [reflexivity|]. rewrite <- !app_assoc.
    change ([1] ++ le16 (lenN buf) ++ buf ++ suffix) with (1 :: (le16 (lenN buf) ++ buf ++ suffix)) at 1.
    rewrite head_dispatch. cbn [N.eqb Pos.eqb].
    change (1 :: le16 (lenN buf) ++ buf ++ suffix) with ([1] ++ le16 (lenN buf) ++ buf ++ suffix).
    rewrite counted_spec; [|exact Hmax|rewrite ?lenN_app, ?lenN_one; lia]. do 2 f_equal.
    rewrite !lenN_app, lenN_one. unfold le16. rewrite lenN_le_bytes. lia.
  - eexists. split; [reflexivity|]. rewrite <- !app_assoc.
    change ([2] ++ buf ++ [0] ++ suffix) with (2 :: (buf ++ [0] ++ suffix)) at 1.
    rewrite head_dispatch. cbn [N.eqb Pos.eqb].
    change (2 :: buf ++ [0] ++ suffix) with ([2] ++ buf ++ [0] ++ suffix).
    rewrite nul_spec; [|apply Hnz; now left|exact Hmax]. do 2 f_equal.
    rewrite !lenN_app, !lenN_one. lia.
  - eexists. split; [reflexivity|]. rewrite <- !app_assoc.
    change ([3] ++ le16 (lenN buf) ++ buf ++ [0] ++ suffix)
      with (3 :: (le16 (lenN buf) ++ buf ++ [0] ++ suffix)) at 1.
    rewrite head_dispatch. cbn [N.eqb Pos.eqb].
    change (3 :: le16 (lenN buf) ++ buf ++ [0] ++ suffix)
      with ([3] ++ le16 (lenN buf) ++ buf ++ [0] ++ suffix).
    rewrite counted_spec; [|exact Hmax|rewrite ?lenN_app, ?lenN_one; lia]. do 2 f_equal.
    rewrite !lenN_app, !lenN_one. unfold le16. rewrite lenN_le_bytes. lia.
  - eexists. split; [reflexivity|]. rewrite <- !app_assoc.
    change ([4] ++ buf ++ [0] ++ suffix) with (4 :: (buf ++ [0] ++ suffix)) at 1.
    rewrite head_dispatch. cbn [N.eqb Pos.eqb].
    change (4 :: buf ++ [0] ++ suffix) with ([4] ++ buf ++ [0] ++ suffix).
    rewrite nul_spec; [|apply Hnz; now right|exact Hmax]. do 2 f_equal.
    rewrite !lenN_app, !lenN_one. lia.
  - eexists. split; [reflexivity|]. rewrite <- !app_assoc.
    change ([5] ++ le16 (lenN buf) ++ buf ++ suffix) with (5 :: (le16 (lenN buf) ++ buf ++ suffix)) at 1.
    rewrite head_dispatch. cbn [N.eqb Pos.eqb].
    change (5 :: le16 (lenN buf) ++ buf ++ suffix) with ([5] ++ le16 (lenN buf) ++ buf ++ suffix).
    rewrite counted_spec; [|exact Hmax|rewrite ?lenN_app, ?lenN_one; lia]. do 2 f_equal.
    rewrite !lenN_app, lenN_one. unfold le16. rewrite lenN_le_bytes. lia.
Qed.

Lemma string_marshal_ref s : dom_string s -> smb_string_marshal s = Ok (ref_string_bytes s, s).
Proof.
  destruct s as [f len buf]. intros [Hf [Hl [Hmax Hnz]]]. cbn [ss_fmt ss_len ss_buf] in *. subst len.
  assert (Hcase : f = 1 \/ f = 2 \/ f = 3 \/ f = 4 \/ f = 5) by lia.
  assert (Hno : (65535 <? lenN buf) = false) by (destruct (N.ltb_spec 65535 (lenN buf)); [lia|reflexivity]).
  unfold smb_string_marshal, ref_string_bytes. cbn [ss_fmt ss_buf].
  destruct Hcase as [-> | [-> | [-> | [-> | ->]]]]; cbn [N.eqb Pos.eqb orb]; rewrite ?Hno; reflexivity.
Qed.

Lemma string_unmarshal_ref s suffix : dom_string s ->
  smb_string_unmarshal (ref_string_bytes s ++ suffix) = Ok (s, lenN (ref_string_bytes s)).
Proof.
  intros H. destruct (string_roundtrip s suffix H) as [bs [Hm Hu]].
  rewrite (string_marshal_ref s H) in Hm. assert (E : bs = ref_string_bytes s) by congruence.
  subst bs. exact Hu.
Qed.

Theorem oem_roundtrip : roundtrip_st dom_oem (fun s => s) oem_marshal oem_unmarshal.
Proof.
  intros [f len buf] suffix [Hf [Hl [Hmax Hnz]]]. cbn [ss_fmt ss_len ss_buf] in *. subst f.
  unfold oem_marshal, oem_unmarshal. cbn [ss_len ss_buf].
  apply (string_roundtrip (mk_ss 4 len buf) suffix).
  unfold dom_string. cbn [ss_fmt ss_len ss_buf]. repeat split; try lia; try assumption.
  intros _. exact Hnz.
Qed.

(* ---------------- totality ---------------- *)

Lemma counted_total f b extra : ss_unmarshal_counted f b extra <> Panic.
Proof.
  unfold ss_unmarshal_counted. destruct (N.ltb_spec (lenN b) 3) as [|H3]; [discriminate|].
  destruct (go_slice_ok_len b 1 3) as [lb [Hlb Hl]]; [lia|lia|]. rewrite Hlb. cbn [bind].
  destruct (go_le_uint_ok 2 lb) as [len Hlen]; [unfold lenN in Hl; lia|]. rewrite Hlen. cbn [bind].
  destruct (N.ltb_spec (lenN b) (len + 3 + extra)); [discriminate|].
  destruct (go_slice_ok_len b 3 (3 + len)) as [body [Hbody _]]; [lia|lia|]. rewrite Hbody. discriminate.
Qed.

Lemma nul_total f b : ss_unmarshal_nul f b <> Panic.
Proof.
  unfold ss_unmarshal_nul. destruct (find_nul (skipn 1 b) 1) as [p|] eqn:E; [|discriminate].
  apply find_nul_bound in E. destruct E as [E1 E2].
  assert (lenN (skipn 1 b) <= lenN b - 1) by (unfold lenN; rewrite skipn_length; lia).
  destruct (go_slice_ok_len b 1 p) as [body [Hbody _]]; [lia|lia|]. rewrite Hbody. discriminate.
Qed.

Theorem string_total : total smb_string_unmarshal.
Proof.
  intros [|f l]; [discriminate|]. rewrite head_dispatch.
  destruct (f =? 1); [apply counted_total|]. destruct (f =? 2); [apply nul_total|].
  destruct (f =? 3); [apply counted_total|]. destruct (f =? 4); [apply nul_total|].
  destruct (f =? 5); [apply counted_total|discriminate].
Qed.

Theorem oem_total : total oem_unmarshal.
Proof. exact string_total. Qed.

(* The buffer-format codes the model uses are the constants of SMB_STRING.go (regenerated from the
   source on every run by go2coq; this lemma stops checking if one of them changes). *)
Lemma format_codes_tie :
  c06_fmt_variable_block_16bit = 1 /\ c06_fmt_nul_oem = 2 /\ c06_fmt_nul_oem_16bit = 3 /\
  c06_fmt_nul_ascii = 4 /\ c06_fmt_variable_block = 5.
Proof. repeat split; reflexivity. Qed.

(* The reported count never exceeds the input (format 0x03 requires the terminator it counts, after
   "fix: SMB_STRING.Unmarshal (format 0x03) requires the null terminator it counts as consumed"). *)
Theorem string_consumed_bound input s n :
  smb_string_unmarshal input = Ok (s, n) -> n <= lenN input.
Proof.
  destruct input as [|f l]; [discriminate|]. rewrite head_dispatch.
  assert (C : forall extra, ss_unmarshal_counted f (f :: l) extra = Ok (s, n) -> n <= lenN (f :: l)).
  { intros extra. unfold ss_unmarshal_counted. destruct (lenN (f :: l) <? 3); [discriminate|].
    destruct (go_slice (f :: l) 1 3) as [lb| |]; try discriminate. cbn [bind].
    destruct (go_le_uint 2 lb) as [len| |]; try discriminate. cbn [bind].
    destruct (N.ltb_spec (lenN (f :: l)) (len + 3 + extra)); [discriminate|].
    destruct (go_slice (f :: l) 3 (3 + len)) as [body| |]; try discriminate. cbn [bind].
    intros E. inversion E; subst. lia. }
  assert (Z : ss_unmarshal_nul f (f :: l) = Ok (s, n) -> n <= lenN (f :: l)).
  { unfold ss_unmarshal_nul. destruct (find_nul (skipn 1 (f :: l)) 1) as [p|] eqn:E; [|discriminate].
    apply find_nul_bound in E. cbn [skipn] in E. rewrite lenN_cons.
    destruct (go_slice (f :: l) 1 p) as [body| |]; try discriminate. cbn [bind].
    intros E2. inversion E2; subst. lia. }
  destruct (f =? 1); [apply C|]. destruct (f =? 2); [exact Z|].
  destruct (f =? 3); [apply C|]. destruct (f =? 4); [exact Z|].
  destruct (f =? 5); [apply C|discriminate].
Qed.

(* the input that used to report 4 bytes consumed out of 3 is refused *)
Lemma string_fmt3_no_overrun : smb_string_unmarshal [3; 0; 0] = Err.
Proof. vm_compute. reflexivity. Qed.

(* ---------------- SMB_RESUME_KEY ---------------- *)

Definition rk_bytes (r : resume_key) : list N := [5] ++ le16 21 ++ rk_stream r.

Lemma lenN_rk_stream r : dom_rk r -> lenN (rk_stream r) = 21.
Proof.
  intros [Hs Hc]. unfold rk_stream. rewrite !lenN_app, lenN_one. unfold lenN. rewrite Hs, Hc. reflexivity.
Qed.

Lemma lenN_rk_bytes r : dom_rk r -> lenN (rk_bytes r) = 24.
Proof.
  intros H. unfold rk_bytes. rewrite !lenN_app, lenN_one, (lenN_rk_stream r H).
  unfold le16. rewrite lenN_le_bytes. reflexivity.
Qed.

Lemma rk_string_dom r : dom_rk r -> dom_string (mk_ss 5 21 (rk_stream r)).
Proof.
  intros H. unfold dom_string. cbn [ss_fmt ss_len ss_buf]. rewrite (lenN_rk_stream r H).
  repeat split; try lia; try (intros [E|E]; discriminate).
Qed.

Lemma rk_ref r : dom_rk r -> ref_string_bytes (mk_ss 5 21 (rk_stream r)) = rk_bytes r.
Proof.
  intros H. unfold ref_string_bytes, rk_bytes. cbn [ss_fmt ss_buf N.eqb Pos.eqb orb].
  now rewrite (lenN_rk_stream r H).
Qed.

Lemma resume_key_marshal_spec r : dom_rk r -> resume_key_marshal r = Ok (rk_bytes r, norm_rk r).
Proof.
  intros H. unfold resume_key_marshal. rewrite (lenN_rk_stream r H). change (wrap16 21) with 21.
  rewrite (string_marshal_ref _ (rk_string_dom r H)), (rk_ref r H). reflexivity.
Qed.

Lemma resume_key_unmarshal_spec r suffix : dom_rk r ->
  resume_key_unmarshal (rk_bytes r ++ suffix) = Ok (norm_rk r, 24).
Proof.
  intros H. unfold resume_key_unmarshal.
  pose proof (string_unmarshal_ref _ suffix (rk_string_dom r H)) as Hu.
  rewrite (rk_ref r H) in Hu. rewrite Hu. cbn [bind ss_buf].
  rewrite (lenN_rk_stream r H). change (21 <? 21) with false. cbv iota.
  rewrite (lenN_rk_bytes r H).
  unfold rk_stream at 1. cbn [app]. rewrite go_index_head. cbn [bind].
  destruct H as [Hs Hc].
  unfold rk_stream at 1. rewrite (go_slice_at [rk_reserved r] (rk_server r));
    [|reflexivity|unfold lenN; rewrite Hs; reflexivity].
  cbn [bind]. unfold rk_stream at 1.
  replace ([rk_reserved r] ++ rk_server r ++ rk_client r)
    with (([rk_reserved r] ++ rk_server r) ++ rk_client r) by now rewrite <- app_assoc.
  rewrite (go_slice_at_end ([rk_reserved r] ++ rk_server r) (rk_client r));
    [| rewrite lenN_app; unfold lenN; cbn [length]; rewrite Hs; reflexivity
     | unfold lenN; rewrite Hc; reflexivity].
  reflexivity.
Qed.

Theorem resume_key_roundtrip :
  roundtrip_st dom_rk norm_rk resume_key_marshal resume_key_unmarshal.
Proof.
  intros r suffix H. exists (rk_bytes r). split; [now apply resume_key_marshal_spec|].
  rewrite (lenN_rk_bytes r H). now apply resume_key_unmarshal_spec.
Qed.

Theorem resume_key_total : total resume_key_unmarshal.
Proof.
  intros data. unfold resume_key_unmarshal. pose proof (string_total data) as T.
  destruct (smb_string_unmarshal data) as [[s n]| |]; [|discriminate|congruence]. cbn [bind].
  destruct (N.ltb_spec (lenN (ss_buf s)) 21) as [|H]; [discriminate|].
  destruct (go_index_ok (ss_buf s) 0) as [x Hx]; [lia|]. rewrite Hx. cbn [bind].
  destruct (go_slice_ok_len (ss_buf s) 1 17) as [a [Ha _]]; [lia|lia|]. rewrite Ha. cbn [bind].
  destruct (go_slice_ok_len (ss_buf s) 17 21) as [c [Hc _]]; [lia|lia|]. rewrite Hc. discriminate.
Qed.
