(* C14 — basic lemmas: Go slices on concatenations, the two entry walks of KeyCredential.go
   (one unfolding equation each, fuel is never exhausted), totality of every decoder. *)
From Coq Require Import List Arith NArith ZArith Lia Bool.
From Coq Require Import ZifyN ZifyNat ZifyBool.
From Mant Require Import Prim.R Prim.Bytes Prim.Dec Algo.SHA256 Algo.Base64 Model.Guid Model.WinTime Model.KeyCred
  Proofs.C15Proofs.
Import ListNotations.
Open Scope N_scope.

(* ------------------------------------------------------------------ slices *)

Lemma go_upto_ok {A} (l : list A) n : n <= lenN l -> go_upto l n = Ok (firstn (N.to_nat n) l).
Proof. intros H. unfold go_upto. destruct (N.leb_spec n (lenN l)); [reflexivity | lia]. Qed.

Lemma go_from_ok {A} (l : list A) n : n <= lenN l -> go_from l n = Ok (skipn (N.to_nat n) l).
Proof. intros H. unfold go_from. destruct (N.leb_spec n (lenN l)); [reflexivity | lia]. Qed.

Lemma go_index_ok {A} (l : list A) i : i < lenN l -> exists x, go_index l i = Ok x /\ nth_error l (N.to_nat i) = Some x.
Proof.
  intros H. unfold go_index. destruct (N.ltb_spec i (lenN l)); [|lia].
  destruct (nth_error l (N.to_nat i)) eqn:E; [eauto|].
  apply nth_error_None in E. unfold lenN in H. lia.
Qed.

Lemma go_upto_app {A} (a b : list A) : go_upto (a ++ b) (lenN a) = Ok a.
Proof.
  rewrite go_upto_ok by (rewrite lenN_app; lia). unfold lenN. rewrite Nat2N.id.
  rewrite firstn_app, firstn_all, Nat.sub_diag. cbn [firstn]. now rewrite app_nil_r.
Qed.

Lemma firstn_lenN_app {A} (a b : list A) : firstn (N.to_nat (lenN a)) (a ++ b) = a.
Proof.
  unfold lenN. rewrite Nat2N.id, firstn_app, firstn_all, Nat.sub_diag. cbn [firstn]. now rewrite app_nil_r.
Qed.

Lemma skipn_lenN_app {A} (a b : list A) : skipn (N.to_nat (lenN a)) (a ++ b) = b.
Proof. unfold lenN. rewrite Nat2N.id, skipn_app, skipn_all, Nat.sub_diag. reflexivity. Qed.

Lemma lenN_firstn {A} (l : list A) n : n <= lenN l -> lenN (firstn (N.to_nat n) l) = n.
Proof. unfold lenN. intros H. rewrite firstn_length. lia. Qed.

Lemma lenN_skipn {A} (l : list A) n : lenN (skipn (N.to_nat n) l) = lenN l - n.
Proof. unfold lenN. rewrite skipn_length. lia. Qed.

Lemma lenN_length {A} (l : list A) : lenN l = N.of_nat (length l).
Proof. reflexivity. Qed.

Lemma le16_val (n : N) : n <= 65535 -> le_val (le_bytes 2 n) = n.
Proof. intros H. apply le_val_small. change (2 ^ (8 * N.of_nat 2)) with 65536. lia. Qed.

(* ------------------------------------------------------------------ the entry walk of FromBytes *)

Lemma kc_walk_short f now k rem : (length rem <= 3)%nat -> kc_walk (S f) now k rem = Ok k.
Proof.
  intros H. cbn [kc_walk]. destruct (N.leb_spec (lenN rem) 3) as [_|H']; [reflexivity|].
  unfold lenN in H'. lia.
Qed.

(* one turn of the loop on a remainder of more than three bytes *)
Lemma kc_walk_step f now k a b t x tl :
  kc_walk (S f) now k (a :: b :: t :: x :: tl) =
  let len := le_val [a; b] in
  if lenN (x :: tl) <? len then Err else
  let* k' := apply_entry now k t (firstn (N.to_nat len) (x :: tl)) in
  kc_walk f now k' (skipn (N.to_nat len) (x :: tl)).
Proof.
  cbn [kc_walk]. set (rem := a :: b :: t :: x :: tl).
  assert (Hl : lenN rem = 4 + lenN tl) by (unfold rem, lenN; cbn [length]; lia).
  destruct (N.leb_spec (lenN rem) 3) as [H|_]; [lia|].
  rewrite go_upto_ok by lia. cbn [bind]. change (firstn (N.to_nat 2) rem) with [a; b].
  change (go_le_uint 2 [a; b]) with (Ok (le_val [a; b])). cbn [bind].
  destruct (go_index_ok rem 2) as (y & -> & Hy); [lia|].
  change (nth_error rem (N.to_nat 2)) with (Some t) in Hy. injection Hy as <-. cbn [bind].
  rewrite go_from_ok by lia. change (skipn (N.to_nat 3) rem) with (x :: tl). cbn [bind].
  cbv zeta. destruct (N.ltb_spec (lenN (x :: tl)) (le_val [a; b])) as [H|H]; [reflexivity|].
  rewrite go_upto_ok by exact H. cbn [bind]. rewrite go_from_ok by exact H. cbn [bind]. reflexivity.
Qed.

Lemma kc_walk_fuel f1 : forall f2 now k rem,
  (length rem < f1)%nat -> (length rem < f2)%nat -> kc_walk f1 now k rem = kc_walk f2 now k rem.
Proof.
  induction f1 as [|f1 IH]; intros f2 now k rem H1 H2; [lia|].
  destruct f2 as [|f2]; [lia|].
  destruct rem as [|a [|b [|t [|x tl]]]]; try (rewrite !kc_walk_short by (cbn [length]; lia); reflexivity).
  rewrite !kc_walk_step. cbv zeta.
  destruct (lenN (x :: tl) <? le_val [a; b]); [reflexivity|].
  destruct (apply_entry now k t _) as [k'| |]; cbn [bind]; try reflexivity.
  apply IH; rewrite skipn_length; cbn [length] in *; lia.
Qed.

(* the walk with the fuel FromBytes gives it *)
Definition walk (now : gotime) (k : kcred) (rem : list N) : R kcred := kc_walk (S (length rem)) now k rem.

Lemma walk_short now k rem : (length rem <= 3)%nat -> walk now k rem = Ok k.
Proof. apply kc_walk_short. Qed.

Lemma walk_step now k a b t x tl :
  walk now k (a :: b :: t :: x :: tl) =
  let len := le_val [a; b] in
  if lenN (x :: tl) <? len then Err else
  let* k' := apply_entry now k t (firstn (N.to_nat len) (x :: tl)) in
  walk now k' (skipn (N.to_nat len) (x :: tl)).
Proof.
  unfold walk at 1. rewrite kc_walk_step. cbv zeta.
  destruct (lenN (x :: tl) <? le_val [a; b]); [reflexivity|].
  destruct (apply_entry now k t _) as [k'| |]; cbn [bind]; try reflexivity.
  unfold walk. apply kc_walk_fuel; rewrite ?skipn_length; cbn [length]; lia.
Qed.

(* a well-delimited entry followed by anything: length (2, little-endian) type (1) value *)
Definition ent (t : N) (data : list N) : list N := le16 (lenN data) ++ [t] ++ data.

Lemma walk_ent now k t data rest :
  lenN data <= 65535 -> data ++ rest <> [] ->
  walk now k (ent t data ++ rest) = let* k' := apply_entry now k t data in walk now k' rest.
Proof.
  intros Hlen Hne. unfold ent, le16. cbn [le_bytes app].
  destruct (data ++ rest) as [|x tl] eqn:E; [congruence|].
  rewrite walk_step. cbv zeta.
  assert (Hv : le_val [lenN data mod 256; lenN data / 256 mod 256] = lenN data).
  { change [lenN data mod 256; lenN data / 256 mod 256] with (le_bytes 2 (lenN data)). now apply le16_val. }
  rewrite Hv, <- E.
  destruct (N.ltb_spec (lenN (data ++ rest)) (lenN data)) as [H|_]; [rewrite lenN_app in H; lia|].
  now rewrite firstn_lenN_app, skipn_lenN_app.
Qed.

(* ------------------------------------------------------------------ the entry walk of ComputeKeyHash *)

Lemma hash_walk_short f rem data : (length rem <= 3)%nat -> hash_walk (S f) rem data = Ok data.
Proof.
  intros H. cbn [hash_walk]. destruct (N.leb_spec (lenN rem) 3) as [_|H']; [reflexivity|].
  unfold lenN in H'. lia.
Qed.

Lemma hash_walk_step f a b t x tl data :
  hash_walk (S f) (a :: b :: t :: x :: tl) data =
  let len := le_val [a; b] in
  if lenN (x :: tl) <? len then Ok data else
  let rem2 := skipn (N.to_nat len) (x :: tl) in
  hash_walk f rem2 (if t =? 2 then data ++ rem2 else data).
Proof.
  cbn [hash_walk]. set (rem := a :: b :: t :: x :: tl).
  assert (Hl : lenN rem = 4 + lenN tl) by (unfold rem, lenN; cbn [length]; lia).
  destruct (N.leb_spec (lenN rem) 3) as [H|_]; [lia|].
  rewrite go_upto_ok by lia. cbn [bind]. change (firstn (N.to_nat 2) rem) with [a; b].
  change (go_le_uint 2 [a; b]) with (Ok (le_val [a; b])). cbn [bind].
  destruct (go_index_ok rem 2) as (y & -> & Hy); [lia|].
  change (nth_error rem (N.to_nat 2)) with (Some t) in Hy. injection Hy as <-. cbn [bind].
  rewrite go_from_ok by lia. change (skipn (N.to_nat 3) rem) with (x :: tl). cbn [bind].
  cbv zeta. destruct (N.ltb_spec (lenN (x :: tl)) (le_val [a; b])) as [H|H]; [reflexivity|].
  rewrite go_from_ok by exact H. cbn [bind]. reflexivity.
Qed.

Lemma hash_walk_fuel f1 : forall f2 rem data,
  (length rem < f1)%nat -> (length rem < f2)%nat -> hash_walk f1 rem data = hash_walk f2 rem data.
Proof.
  induction f1 as [|f1 IH]; intros f2 rem data H1 H2; [lia|].
  destruct f2 as [|f2]; [lia|].
  destruct rem as [|a [|b [|t [|x tl]]]]; try (rewrite !hash_walk_short by (cbn [length]; lia); reflexivity).
  rewrite !hash_walk_step. cbv zeta.
  destruct (lenN (x :: tl) <? le_val [a; b]); [reflexivity|].
  apply IH; rewrite skipn_length; cbn [length] in *; lia.
Qed.

Definition hwalk (rem data : list N) : R (list N) := hash_walk (S (length rem)) rem data.

Lemma hwalk_short rem data : (length rem <= 3)%nat -> hwalk rem data = Ok data.
Proof. apply hash_walk_short. Qed.

Lemma hwalk_step a b t x tl data :
  hwalk (a :: b :: t :: x :: tl) data =
  let len := le_val [a; b] in
  if lenN (x :: tl) <? len then Ok data else
  let rem2 := skipn (N.to_nat len) (x :: tl) in
  hwalk rem2 (if t =? 2 then data ++ rem2 else data).
Proof.
  unfold hwalk at 1. rewrite hash_walk_step. cbv zeta.
  destruct (lenN (x :: tl) <? le_val [a; b]); [reflexivity|].
  unfold hwalk. apply hash_walk_fuel; rewrite ?skipn_length; cbn [length]; lia.
Qed.

Lemma hwalk_ent t data rest acc :
  lenN data <= 65535 -> data ++ rest <> [] ->
  hwalk (ent t data ++ rest) acc = hwalk rest (if t =? 2 then acc ++ rest else acc).
Proof.
  intros Hlen Hne. unfold ent, le16. cbn [le_bytes app].
  destruct (data ++ rest) as [|x tl] eqn:E; [congruence|].
  rewrite hwalk_step. cbv zeta.
  assert (Hv : le_val [lenN data mod 256; lenN data / 256 mod 256] = lenN data).
  { change [lenN data mod 256; lenN data / 256 mod 256] with (le_bytes 2 (lenN data)). now apply le16_val. }
  rewrite Hv, <- E.
  destruct (N.ltb_spec (lenN (data ++ rest)) (lenN data)) as [H|_]; [rewrite lenN_app in H; lia|].
  now rewrite skipn_lenN_app.
Qed.

(* the walk never fails and only ever appends to what it has collected *)
Lemma hwalk_appends : forall n rem data, (length rem <= n)%nat -> exists extra, hwalk rem data = Ok (data ++ extra).
Proof.
  induction n as [|n IH]; intros rem data Hn.
  - exists []. rewrite hwalk_short by lia. now rewrite app_nil_r.
  - destruct rem as [|a [|b [|t [|x tl]]]];
      try (exists []; rewrite hwalk_short by (cbn [length]; lia); now rewrite app_nil_r).
    rewrite hwalk_step. cbv zeta.
    destruct (lenN (x :: tl) <? le_val [a; b]); [exists []; now rewrite app_nil_r|].
    set (rem2 := skipn _ (x :: tl)).
    assert (H2 : (length rem2 <= n)%nat) by (unfold rem2; rewrite skipn_length; cbn [length] in *; lia).
    destruct (t =? 2).
    + destruct (IH rem2 (data ++ rem2) H2) as (e & ->). exists (rem2 ++ e). now rewrite app_assoc.
    + apply IH, H2.
Qed.

Lemma kc_covered_eq raw : 4 <= lenN raw -> kc_covered raw = hwalk (skipn 4 raw) [].
Proof. intros H. unfold kc_covered. rewrite go_from_ok by exact H. reflexivity. Qed.

Lemma kc_covered_ok raw : 4 <= lenN raw -> exists d, kc_covered raw = Ok d.
Proof.
  intros H. rewrite kc_covered_eq by exact H.
  destruct (hwalk_appends (length (skipn 4 raw)) (skipn 4 raw) [] (le_n _)) as (e & ->). eauto.
Qed.

(* ------------------------------------------------------------------ totality *)

Lemma ver_from_bytes_total value : ver_from_bytes value <> Panic.
Proof.
  unfold ver_from_bytes. destruct (N.ltb_spec (lenN value) 4) as [|H]; [discriminate|].
  rewrite go_upto_ok by exact H. cbn [bind]. unfold go_le_uint.
  rewrite firstn_length. change (N.to_nat 4) with 4%nat.
  destruct (Nat.leb_spec 4 (Nat.min 4 (length value))) as [|H']; [discriminate|].
  unfold lenN in H. lia.
Qed.

Lemma ver_from_bytes_ok value : 4 <= lenN value -> ver_from_bytes value = Ok (le_val (firstn 4 value)).
Proof.
  intros H. unfold ver_from_bytes. destruct (N.ltb_spec (lenN value) 4); [lia|].
  rewrite go_upto_ok by exact H. cbn [bind]. unfold go_le_uint.
  rewrite firstn_length. change (N.to_nat 4) with 4%nat.
  destruct (Nat.leb_spec 4 (Nat.min 4 (length value))) as [_|H']; [|unfold lenN in H; lia].
  now rewrite firstn_firstn.
Qed.

Lemma rd32_not_panic value lo : lo + 4 <= lenN value -> exists v, rd32 value lo = Ok v.
Proof.
  intros H. unfold rd32. rewrite go_slice_ok by lia. cbn [bind]. unfold go_le_uint.
  set (s := firstn _ _).
  assert (Hs : length s = 4%nat).
  { unfold s. rewrite firstn_length, skipn_length. unfold lenN in H. lia. }
  rewrite Hs. cbn [Nat.leb]. eauto.
Qed.

Lemma rsa_from_bytes_total value : rsa_from_bytes value <> Panic.
Proof.
  unfold rsa_from_bytes. destruct (N.ltb_spec (lenN value) 24) as [|H]; [discriminate|].
  rewrite go_upto_ok by lia. cbn [bind]. destruct (negb _); [discriminate|].
  destruct (rd32_not_panic value 4) as (ks & ->); [lia|]. cbn [bind].
  destruct (rd32_not_panic value 8) as (es & ->); [lia|]. cbn [bind].
  destruct (rd32_not_panic value 12) as (ms & ->); [lia|]. cbn [bind].
  destruct (rd32_not_panic value 16) as (p1s & ->); [lia|]. cbn [bind].
  destruct (rd32_not_panic value 20) as (p2s & ->); [lia|]. cbn [bind].
  destruct (N.ltb_spec (lenN value - 24) (es + ms + p1s + p2s)) as [|Hb]; [discriminate|].
  cbv zeta. rewrite !go_slice_ok by lia. cbn [bind]. discriminate.
Qed.

Lemma cki_from_bytes_total c blob : cki_from_bytes c blob <> Panic.
Proof.
  unfold cki_from_bytes. cbv zeta.
  assert (Hn : wrap32 (lenN blob) <= lenN blob) by (unfold wrap32; apply N.mod_le; lia).
  set (n := wrap32 (lenN blob)) in *.
  destruct (N.ltb_spec (lenN blob) 2) as [|H2]; [discriminate|].
  destruct (go_index_ok blob 0) as (v & -> & _); [lia|]. cbn [bind].
  destruct (negb (v =? 1)); [discriminate|].
  destruct (go_index_ok blob 1) as (f & -> & _); [lia|]. cbn [bind].
  destruct (N.ltb_spec 2 n); destruct (N.leb_spec 3 n); cbn [andb negb]; try discriminate.
  destruct (go_index_ok blob 2) as (vol & -> & _); [lia|]. cbn [bind].
  destruct (N.ltb_spec 3 n); destruct (N.leb_spec 4 n); cbn [andb negb]; try discriminate.
  destruct (go_index_ok blob 3) as (nt & -> & _); [lia|]. cbn [bind].
  destruct (N.ltb_spec 4 n); destruct (N.leb_spec 5 n); cbn [andb negb]; try discriminate.
  destruct (go_index_ok blob 4) as (fek & -> & _); [lia|]. cbn [bind].
  destruct (N.ltb_spec 5 n); destruct (N.leb_spec 9 n); cbn [andb negb]; try discriminate.
  rewrite go_slice_ok by lia. cbn [bind]. unfold go_le_uint.
  match goal with |- context [(4 <=? length ?s)%nat] => assert (Hs : length s = 4%nat) end.
  { rewrite firstn_length, skipn_length. unfold lenN in *. lia. }
  rewrite Hs. cbn [Nat.leb bind].
  destruct (N.ltb_spec 9 n); destruct (N.leb_spec 19 n); cbn [andb negb]; try discriminate.
  rewrite go_slice_ok by lia. cbn [bind].
  destruct (N.ltb_spec 19 n); cbn [negb]; try discriminate.
  rewrite go_from_ok by lia. cbn [bind]. discriminate.
Qed.

Lemma guid_from_raw_total' bs : guid_from_raw bs <> Panic.
Proof. unfold guid_from_raw. destruct (lenN bs <? 16); discriminate. Qed.

Lemma apply_entry_total now k t data : apply_entry now k t data <> Panic.
Proof.
  unfold apply_entry.
  destruct (t =? 1); [discriminate|]. destruct (t =? 2); [discriminate|].
  destruct (t =? 3).
  { pose proof (rsa_from_bytes_total data). destruct (rsa_from_bytes data); congruence. }
  destruct (t =? 4).
  { destruct (N.eqb_spec (lenN data) 1) as [H|]; [|discriminate].
    destruct (go_index_ok data 0) as (u & -> & _); [lia|]. discriminate. }
  destruct (t =? 5).
  { destruct (N.ltb_spec (lenN data) 1) as [|H]; [discriminate|].
    destruct (go_index_ok data 0) as (u & -> & _); [lia|]. discriminate. }
  destruct (t =? 6).
  { pose proof (guid_from_raw_total' data). destruct (guid_from_raw data); congruence. }
  destruct (t =? 7).
  { pose proof (cki_from_bytes_total (kCki k) data). destruct (cki_from_bytes (kCki k) data); cbn [bind]; congruence. }
  destruct (t =? 8).
  { pose proof (convert_from_binary_time_total now data (Z.of_N (kSource k)) (Z.of_N (kVersion k))).
    destruct (convert_from_binary_time_go _ _ _ _); cbn [bind]; congruence. }
  destruct (t =? 9).
  { pose proof (convert_from_binary_time_total now data (Z.of_N (kSource k)) (Z.of_N (kVersion k))).
    destruct (convert_from_binary_time_go _ _ _ _); cbn [bind]; congruence. }
  discriminate.
Qed.

Lemma kc_walk_total f : forall now k rem, kc_walk f now k rem <> Panic.
Proof.
  induction f as [|f IH]; intros now k rem; [discriminate|].
  destruct rem as [|a [|b [|t [|x tl]]]]; try (rewrite kc_walk_short by (cbn [length]; lia); discriminate).
  rewrite kc_walk_step. cbv zeta. destruct (_ <? _); [discriminate|].
  pose proof (apply_entry_total now k t (firstn (N.to_nat (le_val [a; b])) (x :: tl))).
  destruct (apply_entry _ _ _ _); cbn [bind]; try congruence; apply IH.
Qed.

Theorem kc_from_bytes_total now k0 raw : kc_from_bytes now k0 raw <> Panic.
Proof.
  unfold kc_from_bytes. pose proof (ver_from_bytes_total raw) as Hv.
  destruct (ver_from_bytes raw) as [v| |] eqn:E; cbn [bind]; try congruence.
  assert (H4 : 4 <= lenN raw).
  { unfold ver_from_bytes in E. destruct (N.ltb_spec (lenN raw) 4); [discriminate | lia]. }
  rewrite go_from_ok by exact H4. cbn [bind]. apply kc_walk_total.
Qed.

Lemma id_to_binary_total s v : id_to_binary s v <> Panic.
Proof. unfold id_to_binary. destruct (is_hex_version v); [destruct (unhex s) | destruct (b64_decode _)]; discriminate. Qed.

Lemma write_entry_total t data : write_entry t data <> Panic.
Proof. unfold write_entry. destruct (_ <? _); discriminate. Qed.

Lemma kc_to_bytes_total k : kc_to_bytes k <> Panic.
Proof.
  unfold kc_to_bytes.
  apply bind_not_panic.
  { destruct (_ =? 0); [discriminate|]. apply bind_not_panic; [apply id_to_binary_total | intros; apply write_entry_total]. }
  intros e1 _. apply bind_not_panic; [apply write_entry_total|]. intros e2 _.
  apply bind_not_panic; [apply write_entry_total|]. intros e3 _.
  apply bind_not_panic; [apply write_entry_total|]. intros e4 _.
  apply bind_not_panic; [destruct (_ =? 0); [discriminate | apply write_entry_total]|]. intros e4' _.
  apply bind_not_panic; [apply write_entry_total|]. intros e5 _.
  apply bind_not_panic; [apply write_entry_total|]. intros e6 _. cbv zeta.
  apply bind_not_panic; [destruct (_ =? 0); [discriminate | apply write_entry_total]|]. intros e7 _.
  apply bind_not_panic; [apply write_entry_total|]. intros e8 _.
  apply bind_not_panic; [apply write_entry_total|]. intros e9 _. discriminate.
Qed.

Lemma kc_to_bytes_len k b : kc_to_bytes k = Ok b -> 4 <= lenN b.
Proof.
  unfold kc_to_bytes. intros H.
  repeat (apply bind_ok in H; destruct H as (? & _ & H)). cbv zeta in H.
  repeat (apply bind_ok in H; destruct H as (? & _ & H)).
  injection H as <-. rewrite !lenN_cons. lia.
Qed.

Theorem compute_key_hash_total k : compute_key_hash k <> Panic.
Proof.
  unfold compute_key_hash. destruct (N.ltb_spec (lenN (kRaw k)) 4) as [|H].
  - pose proof (kc_to_bytes_total k). destruct (kc_to_bytes k) as [b| |] eqn:E; try congruence.
    destruct (kc_covered_ok b (kc_to_bytes_len k b E)) as (d & ->). discriminate.
  - destruct (kc_covered_ok (kRaw k) H) as (d & ->). discriminate.
Qed.

Theorem check_integrity_total k : check_integrity k <> Panic.
Proof.
  unfold check_integrity. pose proof (compute_key_hash_total k).
  destruct (compute_key_hash k); cbn [bind]; congruence.
Qed.

Theorem kc_verify_total now raw : kc_verify now raw <> Panic.
Proof.
  unfold kc_verify. pose proof (kc_from_bytes_total now zero_kc raw).
  destruct (kc_from_bytes now zero_kc raw) as [k| |]; cbn [bind]; try congruence.
  pose proof (check_integrity_total k). destruct (check_integrity k); cbn [bind]; congruence.
Qed.

Lemma parse_int64_total s : parse_int64 s <> Panic.
Proof.
  unfold parse_int64. destruct s as [|c r]; [discriminate|].
  destruct (parse_dec _); [|discriminate]. destruct (_ && _); discriminate.
Qed.

Theorem dn_parse_total raw : dn_parse raw <> Panic.
Proof.
  unfold dn_parse. destruct (cut 58 raw) as [[? r1]|]; [|discriminate].
  destruct (cut 58 r1) as [[p1 r2]|]; [|discriminate].
  destruct (cut 58 r2) as [[p2 p3]|]; [|discriminate].
  pose proof (parse_int64_total p1). destruct (parse_int64 p1); cbn [bind]; try congruence.
  destruct (unhex p2); [|discriminate]. destruct (_ =? _)%Z; discriminate.
Qed.
