(* Decidable obligations of C03 on the dispatch tables and layouts regenerated from the Go source. *)
From Coq Require Import List NArith ZArith String Bool.
From Mant Require Import Prim.R Prim.Bytes Model.SmbTypes Model.SmbBlocks Model.SmbLayout Model.SmbEnvelope
  Spec.C03 Gen.SmbLayouts.
Import ListNotations.

(* all 256 command codes x reply flag: the factories construct the structure whose declared command
   code is the code and whose kind matches the flag (512 cases, computed by the kernel) *)
Lemma dispatch_sweep :
  forallb (fun code => dispatch_ok_at all_cmds req_table resp_table code false &&
                       dispatch_ok_at all_cmds req_table resp_table code true) all_codes = true.
Proof. vm_cast_no_check (@eq_refl bool true). Qed.

(* the constant named in each case clause has the value of the structure's declared code *)
Lemma tables_nonempty : (Nat.leb 50 (List.length req_table) && Nat.leb 50 (List.length resp_table))%bool = true.
Proof. vm_cast_no_check (@eq_refl bool true). Qed.
