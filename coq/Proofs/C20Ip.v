(* Proofs for network/ip: print/parse round trips, 32- and 128-bit values, mask, subnet and range
   arithmetic of Model/Ip.v against Spec/C20.v. *)
From Coq Require Import List NArith ZArith Lia Bool.
From Coq Require Import ZifyN ZifyNat ZifyBool.
From Mant Require Import Prim.R Prim.Bytes Prim.Dec Model.StrC20 Model.Ip Spec.C20 Proofs.C20Str.
Import ListNotations.
Open Scope N_scope.

(* what the Go types guarantee about the fields *)
Definition ipv4_ok (i : ipv4) : Prop :=
  octet (v4a i) /\ octet (v4b i) /\ octet (v4c i) /\ octet (v4d i) /\ octet (v4m i).

Definition ipv4_value (i : ipv4) : N := ip4_value (v4a i) (v4b i) (v4c i) (v4d i).

(* ------------------------------------------------------------------ print / parse *)

Lemma wrap8_small a : a < 256 -> wrap8 a = a.
Proof. intros H. unfold wrap8. now apply N.mod_small. Qed.

Lemma wrap16_small a : a < 65536 -> wrap16 a = a.
Proof. intros H. unfold wrap16. now apply N.mod_small. Qed.

Lemma ipv4_string_is_cidr_text i :
  ipv4_string i = cidr_text (v4a i) (v4b i) (v4c i) (v4d i) (v4m i).
Proof. reflexivity. Qed.

Lemma ipv4_roundtrip i : ipv4_ok i -> ipv4_of_string (ipv4_string i) = Ok i.
Proof.
  destruct i as [a b c d m]. unfold ipv4_ok, octet. cbn [v4a v4b v4c v4d v4m].
  intros (Ha & Hb & Hc & Hd & Hm).
  unfold ipv4_of_string, ipv4_string. cbn [v4a v4b v4c v4d v4m].
  set (addr := print_dec a ++ [c_dot] ++ print_dec b ++ [c_dot] ++ print_dec c ++ [c_dot] ++ print_dec d).
  assert (E : print_dec a ++ [c_dot] ++ print_dec b ++ [c_dot] ++ print_dec c ++ [c_dot] ++
              print_dec d ++ [c_slash] ++ print_dec m = addr ++ c_slash :: print_dec m).
  { unfold addr. repeat rewrite <- app_assoc. reflexivity. }
  rewrite E. clear E.
  rewrite split_on_app.
  2:{ unfold addr. rewrite !nob_app, !print_dec_nob by reflexivity. reflexivity. }
  rewrite split_on_nosep by (apply print_dec_nob; reflexivity).
  rewrite parse_uint10_print by (change (2 ^ 8) with 256; exact Hm).
  unfold addr.
  change (print_dec a ++ [c_dot] ++ print_dec b ++ [c_dot] ++ print_dec c ++ [c_dot] ++ print_dec d)
    with (print_dec a ++ c_dot :: print_dec b ++ c_dot :: print_dec c ++ c_dot :: print_dec d).
  rewrite !split_on_app by (apply print_dec_nob; reflexivity).
  rewrite split_on_nosep by (apply print_dec_nob; reflexivity).
  rewrite !parse_uint10_print by (change (2 ^ 8) with 256; assumption).
  now rewrite !wrap8_small by assumption.
Qed.

Lemma ipv4_of_string_total s : ipv4_of_string s <> Panic.
Proof.
  unfold ipv4_of_string.
  destruct (split_on c_slash s) as [|addr [|mask [|? ?]]]; try discriminate.
  destruct (parse_uint10 8 mask); [|discriminate].
  destruct (split_on c_dot addr) as [|oa [|ob [|oc [|od [|? ?]]]]]; try discriminate.
  destruct (parse_uint10 8 oa), (parse_uint10 8 ob), (parse_uint10 8 oc), (parse_uint10 8 od); discriminate.
Qed.

(* whatever is accepted has in-range fields (they are stored in uint8) *)
Lemma ipv4_of_string_ok s i : ipv4_of_string s = Ok i -> ipv4_ok i.
Proof.
  unfold ipv4_of_string.
  destruct (split_on c_slash s) as [|addr [|mask [|? ?]]]; try discriminate.
  destruct (parse_uint10 8 mask); [|discriminate].
  destruct (split_on c_dot addr) as [|oa [|ob [|oc [|od [|? ?]]]]]; try discriminate.
  destruct (parse_uint10 8 oa), (parse_uint10 8 ob), (parse_uint10 8 oc), (parse_uint10 8 od); try discriminate.
  intros H. inversion H; subst. unfold ipv4_ok, octet, wrap8. cbn [v4a v4b v4c v4d v4m].
  repeat split; apply N.mod_lt; lia.
Qed.

(* ------------------------------------------------------------------ bit arithmetic *)

Lemma testbit_small y k i : y < 2 ^ k -> k <= i -> N.testbit y i = false.
Proof.
  intros Hy Hk. rewrite <- (N.mod_small y (2 ^ k)) by exact Hy. now apply N.mod_pow2_bits_high.
Qed.

Lemma lor_add_shift x y k : y < 2 ^ k -> N.lor (x * 2 ^ k) y = x * 2 ^ k + y.
Proof.
  intros Hy. rewrite <- N.shiftl_mul_pow2.
  assert (H0 : N.land (N.shiftl x k) y = 0).
  { apply N.bits_inj_0. intros i. rewrite N.land_spec.
    destruct (N.ltb_spec i k) as [Hlt|Hge].
    - now rewrite N.shiftl_spec_low.
    - rewrite (testbit_small y k i Hy Hge). apply andb_false_r. }
  rewrite (N.add_nocarry_lxor _ _ H0). symmetry. now apply N.lxor_lor.
Qed.

Lemma ipv4_to_u32_value i : ipv4_ok i -> ipv4_to_u32 i = ipv4_value i.
Proof.
  destruct i as [a b c d m]. unfold ipv4_ok, octet, ipv4_value, ipv4_to_u32, ip4_value, wrap32.
  cbn [v4a v4b v4c v4d v4m]. intros (Ha & Hb & Hc & Hd & _).
  rewrite !N.shiftl_mul_pow2.
  change (2 ^ 24) with 16777216. change (2 ^ 16) with 65536. change (2 ^ 8) with 256.
  rewrite !N.mod_small by lia.
  replace (a * 16777216) with (a * 2 ^ 24) by (change (2 ^ 24) with 16777216; lia).
  rewrite lor_add_shift by (change (2 ^ 24) with 16777216; lia).
  replace (a * 2 ^ 24 + b * 65536) with ((a * 256 + b) * 2 ^ 16) by (change (2 ^ 24) with 16777216; change (2 ^ 16) with 65536; lia).
  rewrite lor_add_shift by (change (2 ^ 16) with 65536; lia).
  replace ((a * 256 + b) * 2 ^ 16 + c * 256) with (((a * 256 + b) * 256 + c) * 2 ^ 8) by (change (2 ^ 16) with 65536; change (2 ^ 8) with 256; lia).
  rewrite lor_add_shift by (change (2 ^ 8) with 256; lia).
  change (2 ^ 8) with 256. lia.
Qed.

Lemma ipv4_value_bound i : ipv4_ok i -> ipv4_value i < 2 ^ 32.
Proof.
  destruct i as [a b c d m]. unfold ipv4_ok, octet, ipv4_value, ip4_value. cbn [v4a v4b v4c v4d v4m].
  intros (Ha & Hb & Hc & Hd & _).
  change (2 ^ 24) with 16777216. change (2 ^ 16) with 65536. change (2 ^ 8) with 256.
  change (2 ^ 32) with 4294967296. lia.
Qed.

(* the mask expression of ComputeMask / IsInSubnet is the /len netmask for every len in 0..32 *)
Lemma ipv4_mask_of_spec m : m <= 32 -> ipv4_mask_of m = prefix_mask m.
Proof.
  intros Hm.
  assert (Hall : forallb (fun n => ipv4_mask_of (N.of_nat n) =? prefix_mask (N.of_nat n)) (seq 0 33) = true)
    by (vm_compute; reflexivity).
  rewrite forallb_forall in Hall. specialize (Hall (N.to_nat m)).
  rewrite N2Nat.id in Hall. apply N.eqb_eq, Hall, in_seq. lia.
Qed.

(* for MaskBits above 32 the uint8 shift count wraps to 33..255 and the mask is 0 *)
Lemma ipv4_mask_of_over m : 32 < m -> m < 256 -> ipv4_mask_of m = 0.
Proof.
  intros H1 H2.
  assert (Hall : forallb (fun n => ipv4_mask_of (N.of_nat n) =? 0) (seq 33 223) = true)
    by (vm_compute; reflexivity).
  rewrite forallb_forall in Hall. specialize (Hall (N.to_nat m)).
  rewrite N2Nat.id in Hall. apply N.eqb_eq, Hall, in_seq. lia.
Qed.

Lemma prefix_mask_ones m : m <= 32 -> prefix_mask m = N.shiftl (N.ones m) (32 - m).
Proof.
  intros Hm. unfold prefix_mask. rewrite N.shiftl_mul_pow2, N.ones_equiv.
  assert (Hp : 2 ^ m * 2 ^ (32 - m) = 2 ^ 32) by (rewrite <- N.pow_add_r; f_equal; lia).
  assert (H1 : 0 < 2 ^ m) by (apply N.neq_0_lt_0, N.pow_nonzero; lia).
  rewrite <- N.sub_1_r, N.mul_sub_distr_r, Hp. lia.
Qed.

Lemma land_prefix_mask x m : x < 2 ^ 32 -> m <= 32 -> N.land x (prefix_mask m) = network_of m x.
Proof.
  intros Hx Hm. rewrite prefix_mask_ones by exact Hm. unfold network_of.
  set (k := 32 - m). apply N.bits_inj. intros i.
  rewrite N.land_spec. destruct (N.ltb_spec i k) as [Hlt|Hge].
  - rewrite !N.shiftl_spec_low by exact Hlt. apply andb_false_r.
  - rewrite !N.shiftl_spec_high' by exact Hge. rewrite N.shiftr_spec'.
    replace (i - k + k) with i by lia.
    destruct (N.ltb_spec (i - k) m) as [Hin|Hout].
    + rewrite N.ones_spec_low by exact Hin. apply andb_true_r.
    + rewrite N.ones_spec_high by exact Hout.
      rewrite (testbit_small x 32 i Hx) by lia. reflexivity.
Qed.

Lemma network_of_le x m : network_of m x <= x.
Proof.
  unfold network_of. rewrite N.shiftl_mul_pow2, N.shiftr_div_pow2, N.mul_comm.
  apply N.mul_div_le. apply N.pow_nonzero. lia.
Qed.

(* mask arithmetic and "the leading len bits agree" are the same predicate *)
Lemma in_subnet_mask_same_prefix m x net :
  x < 2 ^ 32 -> net < 2 ^ 32 -> m <= 32 -> in_subnet_mask m x net = same_prefix m x net.
Proof.
  intros Hx Hn Hm. unfold in_subnet_mask, same_prefix.
  rewrite !land_prefix_mask by assumption. unfold network_of. rewrite !N.shiftl_mul_pow2.
  assert (Hp : 2 ^ (32 - m) <> 0) by (apply N.pow_nonzero; lia).
  destruct (N.eqb_spec (N.shiftr x (32 - m)) (N.shiftr net (32 - m))) as [->|Hne].
  - apply N.eqb_refl.
  - apply N.eqb_neq. intros H. apply Hne. now apply N.mul_cancel_r in H.
Qed.

(* ------------------------------------------------------------------ IsInSubnet, ComputeMask, IsInRange *)

Lemma ipv4_in_subnet_spec i net :
  ipv4_ok i -> ipv4_ok net -> v4m net <= 32 ->
  ipv4_in_subnet i net = in_subnet_mask (v4m net) (ipv4_value i) (ipv4_value net).
Proof.
  intros Hi Hn Hm. unfold ipv4_in_subnet, in_subnet_mask.
  now rewrite ipv4_mask_of_spec, !ipv4_to_u32_value by assumption.
Qed.

Lemma ipv4_in_subnet_prefix i net :
  ipv4_ok i -> ipv4_ok net -> v4m net <= 32 ->
  ipv4_in_subnet i net = same_prefix (v4m net) (ipv4_value i) (ipv4_value net).
Proof.
  intros Hi Hn Hm. rewrite ipv4_in_subnet_spec by assumption.
  apply in_subnet_mask_same_prefix; try assumption; now apply ipv4_value_bound.
Qed.

(* prefix lengths above 32 have no standard meaning; the code then uses the zero mask *)
Lemma ipv4_in_subnet_over i net :
  ipv4_ok net -> 32 < v4m net -> ipv4_in_subnet i net = true.
Proof.
  intros (_ & _ & _ & _ & Hn) Hm. unfold ipv4_in_subnet.
  rewrite ipv4_mask_of_over by assumption. rewrite !N.land_0_r. reflexivity.
Qed.

Lemma bytes_of_u32 x :
  x < 2 ^ 32 ->
  ip4_value ((x / 2 ^ 24) mod 256) ((x / 2 ^ 16) mod 256) ((x / 2 ^ 8) mod 256) (x mod 256) = x.
Proof.
  intros Hx. unfold ip4_value.
  change (2 ^ 24) with 16777216 in *. change (2 ^ 16) with 65536 in *. change (2 ^ 8) with 256 in *.
  change (2 ^ 32) with 4294967296 in *.
  pose proof (N.div_mod x 256). pose proof (N.div_mod (x / 256) 256). pose proof (N.div_mod (x / 65536) 256).
  pose proof (N.div_mod (x / 16777216) 256).
  assert (x / 256 / 256 = x / 65536) by (rewrite N.div_div by lia; reflexivity).
  assert (x / 65536 / 256 = x / 16777216) by (rewrite N.div_div by lia; reflexivity).
  assert (x / 16777216 < 256) by (apply N.div_lt_upper_bound; lia).
  pose proof (N.mod_lt x 256). pose proof (N.mod_lt (x / 256) 256). pose proof (N.mod_lt (x / 65536) 256).
  pose proof (N.mod_lt (x / 16777216) 256).
  lia.
Qed.

Lemma land_255 x : N.land x 255 = x mod 256.
Proof. change 255 with (N.ones 8). rewrite N.land_ones. reflexivity. Qed.

Lemma ipv4_compute_mask_spec i :
  ipv4_ok i -> v4m i <= 32 ->
  ipv4_ok (ipv4_compute_mask i) /\
  v4m (ipv4_compute_mask i) = v4m i /\
  ipv4_value (ipv4_compute_mask i) = network_of (v4m i) (ipv4_value i) /\
  ipv4_value (ipv4_compute_mask i) = N.land (ipv4_value i) (prefix_mask (v4m i)).
Proof.
  intros Hi Hm. pose proof (ipv4_value_bound i Hi) as Hb.
  unfold ipv4_compute_mask.
  rewrite ipv4_mask_of_spec, ipv4_to_u32_value by assumption.
  rewrite land_prefix_mask by assumption.
  set (x := network_of (v4m i) (ipv4_value i)).
  assert (Hx : x < 2 ^ 32) by (pose proof (network_of_le (ipv4_value i) (v4m i)); unfold x; lia).
  rewrite !land_255, !N.shiftr_div_pow2. unfold wrap8. rewrite !N.mod_mod by lia.
  unfold ipv4_ok, octet, ipv4_value. cbn [v4a v4b v4c v4d v4m].
  assert (Hv : ip4_value ((x / 2 ^ 24) mod 256) ((x / 2 ^ 16) mod 256) ((x / 2 ^ 8) mod 256) (x mod 256) = x)
    by now apply bytes_of_u32.
  destruct Hi as (_ & _ & _ & _ & Hmm).
  repeat split; try (apply N.mod_lt; lia); try exact Hmm; exact Hv.
Qed.

Lemma ipv4_in_range_spec i s e :
  ipv4_ok i -> ipv4_ok s -> ipv4_ok e ->
  ipv4_in_range i s e = between (ipv4_value s) (ipv4_value i) (ipv4_value e).
Proof. intros Hi Hs He. unfold ipv4_in_range, between. now rewrite !ipv4_to_u32_value by assumption. Qed.

(* ------------------------------------------------------------------ IPv6 *)

Lemma split_join parts :
  parts <> [] -> Forall (fun p => nob c_colon p = true) parts ->
  split_on c_colon (join_with [c_colon] parts) = parts.
Proof.
  intros Hne Hall. induction Hall as [|p rest Hp Hrest IH]; [congruence|].
  destruct rest as [|q rest'].
  - cbn [join_with]. now apply split_on_nosep.
  - change (join_with [c_colon] (p :: q :: rest')) with (p ++ c_colon :: join_with [c_colon] (q :: rest')).
    rewrite split_on_app by exact Hp. f_equal. apply IH. discriminate.
Qed.

Lemma parse_groups_print gs :
  Forall (fun x => x < 65536) gs -> parse_groups (map print_hex gs) = Some gs.
Proof.
  induction 1 as [|x gs Hx Hgs IH]; [reflexivity|].
  cbn [map parse_groups]. rewrite parse_uint16_print by (change (2 ^ 16) with 65536; exact Hx).
  rewrite IH, wrap16_small by exact Hx. reflexivity.
Qed.

Lemma ipv6_roundtrip gs : groups_ok gs -> ipv6_of_string (ipv6_string gs) = Ok gs.
Proof.
  intros (Hlen & Hall). unfold ipv6_of_string, ipv6_string.
  rewrite split_join.
  - rewrite map_length, Hlen. cbn [Nat.eqb]. now rewrite parse_groups_print.
  - destruct gs; [discriminate|discriminate].
  - apply Forall_forall. intros p Hp. apply in_map_iff in Hp. destruct Hp as (x & <- & _).
    apply print_hex_nob. reflexivity.
Qed.

Lemma ipv6_of_string_total s : ipv6_of_string s <> Panic.
Proof.
  unfold ipv6_of_string. destruct (Nat.eqb _ 8); [|discriminate].
  destruct (parse_groups _); discriminate.
Qed.

Lemma parse_groups_ok parts gs :
  parse_groups parts = Some gs -> length gs = length parts /\ Forall (fun x => x < 65536) gs.
Proof.
  revert gs. induction parts as [|p ps IH]; intros gs H.
  - inversion H. split; [reflexivity|constructor].
  - cbn [parse_groups] in H. destruct (parse_uint16 16 p); [|discriminate].
    destruct (parse_groups ps) as [gs'|]; [|discriminate]. inversion H; subst.
    destruct (IH gs' eq_refl) as (Hl & Hf). split; [cbn; now rewrite Hl|].
    constructor; [|exact Hf]. unfold wrap16. apply N.mod_lt. lia.
Qed.

Lemma ipv6_of_string_ok s gs : ipv6_of_string s = Ok gs -> groups_ok gs.
Proof.
  unfold ipv6_of_string. destruct (Nat.eqb (length (split_on c_colon s)) 8) eqn:E; [|discriminate].
  destruct (parse_groups _) as [gs'|] eqn:Eg; [|discriminate]. intros H. inversion H; subst.
  apply parse_groups_ok in Eg. destruct Eg as (Hl & Hf). split; [|exact Hf].
  apply Nat.eqb_eq in E. congruence.
Qed.

Lemma u64_of_groups_value a b c d :
  a < 65536 -> b < 65536 -> c < 65536 -> d < 65536 ->
  u64_of_groups a b c d = ((a * 65536 + b) * 65536 + c) * 65536 + d.
Proof.
  intros Ha Hb Hc Hd. unfold u64_of_groups, wrap64. rewrite !N.shiftl_mul_pow2.
  change (2 ^ 48) with 281474976710656. change (2 ^ 32) with 4294967296. change (2 ^ 16) with 65536.
  rewrite !N.mod_small by lia.
  replace (a * 281474976710656) with (a * 2 ^ 48) by (change (2 ^ 48) with 281474976710656; lia).
  rewrite lor_add_shift by (change (2 ^ 48) with 281474976710656; lia).
  replace (a * 2 ^ 48 + b * 4294967296) with ((a * 65536 + b) * 2 ^ 32)
    by (change (2 ^ 48) with 281474976710656; change (2 ^ 32) with 4294967296; lia).
  rewrite lor_add_shift by (change (2 ^ 32) with 4294967296; lia).
  replace ((a * 65536 + b) * 2 ^ 32 + c * 65536) with (((a * 65536 + b) * 65536 + c) * 2 ^ 16)
    by (change (2 ^ 32) with 4294967296; change (2 ^ 16) with 65536; lia).
  rewrite lor_add_shift by (change (2 ^ 16) with 65536; lia).
  change (2 ^ 16) with 65536. lia.
Qed.

(* ToUInt128 is the 128-bit value split into two 64-bit halves *)
Lemma ipv6_to_u128_value gs :
  groups_ok gs ->
  fst (ipv6_to_u128 gs) * 2 ^ 64 + snd (ipv6_to_u128 gs) = ip6_value gs /\
  fst (ipv6_to_u128 gs) < 2 ^ 64 /\ snd (ipv6_to_u128 gs) < 2 ^ 64.
Proof.
  intros (Hlen & Hall).
  destruct gs as [|g0 [|g1 [|g2 [|g3 [|g4 [|g5 [|g6 [|g7 [|? ?]]]]]]]]]; try discriminate.
  repeat match goal with H : Forall _ (_ :: _) |- _ => inversion H; clear H; subst end.
  unfold ipv6_to_u128, g, ip6_value. cbn [nth fold_left fst snd].
  rewrite !u64_of_groups_value by assumption.
  change (2 ^ 64) with 18446744073709551616. lia.
Qed.

Lemma ipv6_in_range_spec i s e :
  groups_ok i -> groups_ok s -> groups_ok e ->
  ipv6_in_range i s e = between (ip6_value s) (ip6_value i) (ip6_value e).
Proof.
  intros Hi Hs He.
  destruct (ipv6_to_u128_value i Hi) as (Vi & Bi1 & Bi2).
  destruct (ipv6_to_u128_value s Hs) as (Vs & Bs1 & Bs2).
  destruct (ipv6_to_u128_value e He) as (Ve & Be1 & Be2).
  unfold ipv6_in_range, between. rewrite <- Vi, <- Vs, <- Ve.
  destruct (ipv6_to_u128 i) as [ih il], (ipv6_to_u128 s) as [sh sl], (ipv6_to_u128 e) as [eh el].
  cbn [fst snd] in *. change (2 ^ 64) with 18446744073709551616 in *. lia.
Qed.

Lemma ipv6_in_subnet_spec i s :
  groups_ok i -> groups_ok s -> ipv6_in_subnet i s = (ip6_value i =? ip6_value s).
Proof.
  intros Hi Hs.
  destruct (ipv6_to_u128_value i Hi) as (Vi & Bi1 & Bi2).
  destruct (ipv6_to_u128_value s Hs) as (Vs & Bs1 & Bs2).
  unfold ipv6_in_subnet. rewrite <- Vi, <- Vs.
  destruct (ipv6_to_u128 i) as [ih il], (ipv6_to_u128 s) as [sh sl].
  cbn [fst snd] in *. change (2 ^ 64) with 18446744073709551616 in *. lia.
Qed.

Lemma ip6_value_bound gs : groups_ok gs -> ip6_value gs < 2 ^ 128.
Proof.
  intros H. destruct (ipv6_to_u128_value gs H) as (V & B1 & B2). rewrite <- V.
  change (2 ^ 128) with (2 ^ 64 * 2 ^ 64). nia.
Qed.

(* ------------------------------------------------------------------ *)
(* Exact language of NewIPv4FromString: five decimal fields of value <= 255 laid out as
   "A.B.C.D/M" (leading zeros tolerated, nothing else), denoting exactly their numeric values. *)

Lemma parse_uint10_some bits s n :
  parse_uint10 bits s = Some n -> forallb is_digit s = true /\ n < 2 ^ bits.
Proof.
  unfold parse_uint10, parse_dec. destruct s as [|c r]; [discriminate|].
  destruct (forallb is_digit (c :: r)); [|discriminate].
  destruct (N.ltb_spec (dec_val (c :: r)) (2 ^ bits)) as [Hlt|]; [|discriminate].
  intros Hs. inversion Hs; subst. now split.
Qed.

Lemma digits_nob c s : forallb is_digit s = true -> is_digit c = false -> nob c s = true.
Proof. intros. now apply (nob_of_class is_digit). Qed.

Lemma join_split sep s : join_with [sep] (split_on sep s) = s.
Proof.
  induction s as [|c r IH]; [reflexivity|]. cbn [split_on].
  pose proof (split_on_nonnil sep r) as Hnn.
  destruct (N.eqb_spec c sep) as [->|Hne]; destruct (split_on sep r) as [|h t]; try congruence.
  - change (join_with [sep] ([] :: h :: t)) with (sep :: join_with [sep] (h :: t)). now rewrite IH.
  - destruct t as [|h' t'].
    + cbn [join_with] in *. now rewrite IH.
    + change (join_with [sep] ((c :: h) :: h' :: t')) with (c :: join_with [sep] (h :: h' :: t')).
      now rewrite IH.
Qed.

Lemma ipv4_parse_exact s a b c d m :
  ipv4_of_string s = Ok (IPv4 a b c d m) <->
  exists da db dc dd dm,
    s = da ++ [c_dot] ++ db ++ [c_dot] ++ dc ++ [c_dot] ++ dd ++ [c_slash] ++ dm /\
    parse_uint10 8 da = Some a /\ parse_uint10 8 db = Some b /\ parse_uint10 8 dc = Some c /\
    parse_uint10 8 dd = Some d /\ parse_uint10 8 dm = Some m.
Proof.
  split.
  - unfold ipv4_of_string.
    destruct (split_on c_slash s) as [|addr [|mask [|? ?]]] eqn:E1; try discriminate.
    destruct (parse_uint10 8 mask) as [m'|] eqn:Pm; [|discriminate].
    destruct (split_on c_dot addr) as [|oa [|ob [|oc [|od [|? ?]]]]] eqn:E2; try discriminate.
    destruct (parse_uint10 8 oa) as [a'|] eqn:Pa; [|discriminate].
    destruct (parse_uint10 8 ob) as [b'|] eqn:Pb; [|discriminate].
    destruct (parse_uint10 8 oc) as [c'|] eqn:Pc; [|discriminate].
    destruct (parse_uint10 8 od) as [d'|] eqn:Pd; [|discriminate].
    intros H. inversion H; subst. clear H.
    exists oa, ob, oc, od, mask.
    rewrite !wrap8_small by (change 256 with (2 ^ 8); eapply parse_uint10_some; eassumption).
    repeat split; try assumption.
    rewrite <- (join_split c_slash s), E1. cbn [join_with].
    rewrite <- (join_split c_dot addr), E2. cbn [join_with].
    repeat rewrite <- app_assoc. reflexivity.
  - intros (da & db & dc & dd & dm & -> & Pa & Pb & Pc & Pd & Pm).
    destruct (parse_uint10_some _ _ _ Pa) as (Da & Ba). destruct (parse_uint10_some _ _ _ Pb) as (Db & Bb).
    destruct (parse_uint10_some _ _ _ Pc) as (Dc & Bc). destruct (parse_uint10_some _ _ _ Pd) as (Dd & Bd).
    destruct (parse_uint10_some _ _ _ Pm) as (Dm & Bm).
    unfold ipv4_of_string.
    set (addr := da ++ [c_dot] ++ db ++ [c_dot] ++ dc ++ [c_dot] ++ dd).
    assert (E : da ++ [c_dot] ++ db ++ [c_dot] ++ dc ++ [c_dot] ++ dd ++ [c_slash] ++ dm = addr ++ c_slash :: dm).
    { unfold addr. repeat rewrite <- app_assoc. reflexivity. }
    rewrite E. clear E.
    rewrite split_on_app.
    2:{ unfold addr. rewrite !nob_app, (digits_nob c_slash da), (digits_nob c_slash db), (digits_nob c_slash dc),
          (digits_nob c_slash dd) by (assumption || reflexivity). reflexivity. }
    rewrite split_on_nosep by (apply digits_nob; [assumption|reflexivity]).
    rewrite Pm. unfold addr.
    change (da ++ [c_dot] ++ db ++ [c_dot] ++ dc ++ [c_dot] ++ dd)
      with (da ++ c_dot :: db ++ c_dot :: dc ++ c_dot :: dd).
    rewrite !split_on_app by (apply digits_nob; [assumption|reflexivity]).
    rewrite split_on_nosep by (apply digits_nob; [assumption|reflexivity]).
    rewrite Pa, Pb, Pc, Pd.
    now rewrite !wrap8_small by (change 256 with (2 ^ 8); assumption).
Qed.

(* Exact language of NewIPv6FromString: eight colon-separated non-empty hexadecimal fields of value
   <= 0xffff (either case, leading zeros tolerated), denoting exactly their numeric values. *)
Lemma parse_uint16_some bits s n :
  parse_uint16 bits s = Some n -> forallb is_hexc s = true /\ n < 2 ^ bits.
Proof.
  unfold parse_uint16, parse_hex. destruct s as [|c r]; [discriminate|].
  destruct (forallb is_hexc (c :: r)); [|discriminate].
  destruct (N.ltb_spec (hex_val (c :: r)) (2 ^ bits)) as [Hlt|]; [|discriminate].
  intros Hs. inversion Hs; subst. now split.
Qed.

Lemma parse_groups_forall2 parts gs :
  parse_groups parts = Some gs <-> Forall2 (fun p x => parse_uint16 16 p = Some x) parts gs.
Proof.
  revert gs. induction parts as [|p ps IH]; intros gs.
  - cbn [parse_groups]. split; intros H; [inversion H; constructor|inversion H; reflexivity].
  - cbn [parse_groups]. split.
    + destruct (parse_uint16 16 p) as [x|] eqn:Px; [|discriminate].
      destruct (parse_groups ps) as [gs'|] eqn:Pg; [|discriminate].
      intros H. inversion H; subst. constructor.
      * rewrite wrap16_small; [exact Px|]. change 65536 with (2 ^ 16). eapply parse_uint16_some; eassumption.
      * now apply IH.
    + intros H. inversion H as [|p' x ps' gs' Px Hrest]; subst.
      rewrite Px. apply IH in Hrest. rewrite Hrest.
      rewrite wrap16_small; [reflexivity|]. change 65536 with (2 ^ 16). eapply parse_uint16_some; eassumption.
Qed.

Lemma ipv6_parse_exact s gs :
  ipv6_of_string s = Ok gs <->
  exists parts, length parts = 8%nat /\ s = join_with [c_colon] parts /\
                Forall2 (fun p x => parse_uint16 16 p = Some x) parts gs.
Proof.
  unfold ipv6_of_string. split.
  - destruct (Nat.eqb (length (split_on c_colon s)) 8) eqn:E; [|discriminate].
    destruct (parse_groups (split_on c_colon s)) as [gs'|] eqn:Pg; [|discriminate].
    intros H. inversion H; subst. exists (split_on c_colon s).
    split; [now apply Nat.eqb_eq|]. split; [symmetry; apply join_split|]. now apply parse_groups_forall2.
  - intros (parts & Hl & -> & Hf).
    assert (Hnob : Forall (fun p => nob c_colon p = true) parts).
    { clear Hl. induction Hf as [|p x ps gs' Px Hrest IH]; constructor; [|exact IH].
      apply (nob_of_class is_hexc); [|reflexivity]. eapply parse_uint16_some; eassumption. }
    rewrite split_join; [|destruct parts; discriminate|exact Hnob].
    rewrite Hl. cbn [Nat.eqb]. apply parse_groups_forall2 in Hf. now rewrite Hf.
Qed.
