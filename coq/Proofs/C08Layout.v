(* Reading pieces out of a message built as a concatenation; flag bits. *)
From Coq Require Import List Arith NArith ZArith Lia Bool.
From Coq Require Import ZifyN ZifyNat ZifyBool.
From Mant Require Import Prim.R Prim.Bytes Spec.C08 Model.NtlmSsp.
Import ListNotations.
Open Scope N_scope.

Lemma sub_app_skip (p x : list N) o l : sub (p ++ x) (lenN p + o) l = sub x o l.
Proof.
  unfold sub. f_equal. unfold lenN.
  replace (N.to_nat (N.of_nat (length p) + o)) with (length p + N.to_nat o)%nat by lia.
  rewrite skipn_app. rewrite skipn_all2 by lia. cbn [app]. f_equal. lia.
Qed.

Lemma sub_app_head (p x : list N) : sub (p ++ x) 0 (lenN p) = p.
Proof.
  unfold sub. cbn [N.to_nat skipn]. unfold lenN. rewrite Nat2N.id, firstn_app, firstn_all, Nat.sub_diag.
  cbn [firstn]. apply app_nil_r.
Qed.

Lemma sub_zero_len msg o : sub msg o 0 = [].
Proof. reflexivity. Qed.

(* piece k of a concatenation sits at the sum of the lengths of the pieces before it *)
Lemma sub_concat (ps : list (list N)) : forall k,
  sub (concat ps) (lenN (concat (firstn k ps))) (lenN (nth k ps [])) = nth k ps [].
Proof.
  induction ps as [|p ps IH]; intros k.
  - destruct k; reflexivity.
  - destruct k as [|k].
    + cbn [firstn concat nth]. change (lenN (@nil N)) with 0. apply sub_app_head.
    + cbn [firstn concat nth]. rewrite lenN_app, sub_app_skip. apply IH.
Qed.

Lemma lenN_sub msg o l : o + l <= lenN msg -> lenN (sub msg o l) = l.
Proof.
  intros H. unfold sub, lenN in *. rewrite firstn_length, skipn_length. lia.
Qed.

Lemma lenN_repeatN {A} (x : A) n : lenN (repeatN x n) = N.of_nat n.
Proof. unfold lenN. now rewrite repeatN_length. Qed.

(* flags *)
Lemma land_pow2 f k : N.land f (2 ^ k) = if N.testbit f k then 2 ^ k else 0.
Proof.
  apply N.bits_inj. intros n. rewrite N.land_spec, N.pow2_bits_eqb.
  destruct (N.eqb_spec k n) as [->|Hne].
  - destruct (N.testbit f n) eqn:E; [now rewrite N.pow2_bits_true|now rewrite N.bits_0].
  - rewrite andb_false_r. destruct (N.testbit f k); [|now rewrite N.bits_0].
    rewrite N.pow2_bits_false; [reflexivity|exact Hne].
Qed.

Lemma has_flag_bit f k : has_flag f (2 ^ k) = N.testbit f k.
Proof.
  unfold has_flag. rewrite land_pow2. destruct (N.testbit f k); [|reflexivity].
  destruct (N.eqb_spec (2 ^ k) 0) as [E|]; [|reflexivity].
  exfalso. revert E. apply N.pow_nonzero. lia.
Qed.

Lemma le_val_le16 x : x < 65536 -> le_val (le16 (wrap16 x)) = x.
Proof.
  intros H. unfold le16, wrap16. rewrite le_val_le_bytes. change (2 ^ (8 * N.of_nat 2)) with 65536.
  rewrite N.mod_mod by lia. now apply N.mod_small.
Qed.
Lemma le_val_le32w x : x < 4294967296 -> le_val (le32 (wrap32 x)) = x.
Proof.
  intros H. unfold le32, wrap32. rewrite le_val_le_bytes. change (2 ^ (8 * N.of_nat 4)) with 4294967296.
  rewrite N.mod_mod by lia. now apply N.mod_small.
Qed.
Lemma le_val_le32 x : x < 4294967296 -> le_val (le32 x) = x.
Proof.
  intros H. unfold le32. rewrite le_val_le_bytes. change (2 ^ (8 * N.of_nat 4)) with 4294967296.
  now apply N.mod_small.
Qed.
