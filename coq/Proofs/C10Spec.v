(* C10 proofs, part 2: the RFC 1002 reader of Spec/C10.v reads what the RFC 1002 writer of
   Spec/C10.v writes (the specification is consistent with itself). *)
From Coq Require Import List Arith NArith ZArith Lia Bool.
From Coq Require Import ZifyN ZifyNat ZifyBool.
From Mant Require Import Prim.Bytes Spec.C10 Proofs.C10Name.
Import ListNotations.
Open Scope N_scope.

Ltac Zify.zify_post_hook ::= Z.div_mod_to_equations.

Lemma be_bytes_2 x : be_bytes 2 x = [(x / 256) mod 256; x mod 256].
Proof. reflexivity. Qed.
Lemma be_bytes_4 x : be_bytes 4 x = [(x / 256 / 256 / 256) mod 256; (x / 256 / 256) mod 256; (x / 256) mod 256; x mod 256].
Proof. reflexivity. Qed.

Lemma rfc_u16_be x r : x < 65536 -> rfc_u16 (be_bytes 2 x ++ r) = Some (x, r).
Proof.
  intros Hx. rewrite be_bytes_2. cbn [app rfc_u16]. f_equal. f_equal. lia.
Qed.

Lemma rfc_u32_be x r : x < 4294967296 -> rfc_u32 (be_bytes 4 x ++ r) = Some (x, r).
Proof.
  intros Hx. rewrite be_bytes_4. cbn [app rfc_u32]. f_equal. f_equal. lia.
Qed.

Lemma skipn_lenN_app {A} (l r : list A) : skipn (N.to_nat (lenN l)) (l ++ r) = r.
Proof. unfold lenN. rewrite Nat2N.id, skipn_app, skipn_all, Nat.sub_diag. reflexivity. Qed.

Lemma firstn_lenN_app {A} (l r : list A) : firstn (N.to_nat (lenN l)) (l ++ r) = l.
Proof. unfold lenN. rewrite Nat2N.id, firstn_app, firstn_all, Nat.sub_diag. cbn [firstn]. apply app_nil_r. Qed.

Definition label_wf (l : list N) : Prop := l <> [] /\ (length l <= 63)%nat.

Lemma rfc_labels_wire msg labels rest : forall fuel,
  Forall label_wf labels -> (length labels < fuel)%nat ->
  rfc_labels fuel msg (flat_map rfc_label_wire labels ++ 0 :: rest) = Some (labels, rest).
Proof.
  induction labels as [|l ls IH]; intros fuel Hwf Hfuel.
  - destruct fuel as [|f]; [simpl in Hfuel; lia|]. reflexivity.
  - destruct fuel as [|f]; [simpl in Hfuel; lia|].
    inversion Hwf as [|? ? [Hne Hlen] Hwf']; subst.
    cbn [flat_map rfc_label_wire app rfc_labels]. rewrite <- app_assoc.
    assert (H0 : lenN l =? 0 = false) by (destruct l; [contradiction|unfold lenN; simpl length; lia]).
    assert (H1 : lenN l <? 64 = true) by (unfold lenN; lia).
    assert (H2 : lenN (l ++ flat_map rfc_label_wire ls ++ 0 :: rest) <? lenN l = false)
      by (rewrite lenN_app; lia).
    rewrite H0, H1, H2, skipn_lenN_app, firstn_lenN_app.
    rewrite IH; [reflexivity|exact Hwf'|simpl in Hfuel; lia].
Qed.

Lemma un_half_ascii_half_ascii b : b < 256 -> un_half_ascii (65 + b / 16) (65 + b mod 16) = Some b.
Proof.
  intros Hb.
  assert (H : match un_half_ascii (65 + b / 16) (65 + b mod 16) with Some x => x =? b | None => false end = true).
  { revert b Hb. apply byte_sweep. vm_compute. reflexivity. }
  destruct (un_half_ascii (65 + b / 16) (65 + b mod 16)); [|discriminate]. apply N.eqb_eq in H. now subst.
Qed.

Lemma rfc1001_decode32_encode raw : wf_bytes raw -> rfc1001_decode32 (flat_map half_ascii raw) = Some raw.
Proof.
  induction 1 as [|b l Hb Hl IH]; [reflexivity|].
  cbn [flat_map half_ascii app rfc1001_decode32]. now rewrite un_half_ascii_half_ascii, IH.
Qed.

Lemma length_flat_map_labels labels : (length labels <= length (flat_map rfc_label_wire labels))%nat.
Proof.
  induction labels as [|l ls IH]; [simpl; lia|].
  cbn [flat_map rfc_label_wire length app]. rewrite app_length. lia.
Qed.

Lemma rfc_read_name_wire msg n rest :
  rfc_name_wf n -> (length (rfc_name_wire n) <= length msg)%nat ->
  rfc_read_name msg (rfc_name_wire n ++ rest) = Some (n, rest).
Proof.
  destruct n as [raw scope]. intros (Hwf & Hlen & Hscope) Hmsg. cbn [rn_raw rn_scope] in *.
  unfold rfc_read_name, rfc_name_wire in *. cbn [rn_raw rn_scope] in *.
  rewrite <- app_assoc. cbn [app].
  rewrite rfc_labels_wire.
  - assert (E : lenN (flat_map half_ascii raw) =? 32 = true)
      by (unfold lenN; rewrite length_encoded, Hlen; reflexivity).
    rewrite E, rfc1001_decode32_encode by exact Hwf. reflexivity.
  - constructor; [|exact Hscope]. split.
    + destruct raw; [discriminate|]. discriminate.
    + rewrite length_encoded, Hlen. lia.
  - rewrite app_length in Hmsg. cbn [length] in Hmsg.
    pose proof (length_flat_map_labels (flat_map half_ascii raw :: scope)) as Hl. lia.
Qed.

Lemma rfc_read_questions_wire msg qs : forall rest,
  Forall rfc_question_wf qs -> (length (flat_map rfc_question_wire qs) <= length msg)%nat ->
  rfc_read_questions (length qs) msg (flat_map rfc_question_wire qs ++ rest) = Some (qs, rest).
Proof.
  induction qs as [|q qs IH]; intros rest Hwf Hmsg; [reflexivity|].
  inversion Hwf as [|? ? (Hn & Ht & Hc) Hwf']; subst.
  cbn [length flat_map rfc_read_questions] in *. rewrite app_length in Hmsg.
  unfold rfc_question_wire at 1. unfold rfc_question_wire at 1 in Hmsg. rewrite !app_length in Hmsg.
  rewrite <- !app_assoc.
  rewrite rfc_read_name_wire by (auto; lia).
  rewrite rfc_u16_be by exact Ht. rewrite rfc_u16_be by exact Hc.
  rewrite IH by (auto; lia). destruct q; reflexivity.
Qed.

Lemma rfc_read_rrs_wire msg rrs : forall rest,
  Forall rfc_rr_wf rrs -> (length (flat_map rfc_rr_wire rrs) <= length msg)%nat ->
  rfc_read_rrs (length rrs) msg (flat_map rfc_rr_wire rrs ++ rest) = Some (rrs, rest).
Proof.
  induction rrs as [|r rrs IH]; intros rest Hwf Hmsg; [reflexivity|].
  inversion Hwf as [|? ? (Hn & Ht & Hc & Httl & Hrdl & Hrd) Hwf']; subst.
  cbn [length flat_map rfc_read_rrs] in *. rewrite app_length in Hmsg.
  unfold rfc_rr_wire at 1. unfold rfc_rr_wire at 1 in Hmsg. rewrite !app_length in Hmsg.
  rewrite <- !app_assoc.
  rewrite rfc_read_name_wire by (auto; lia).
  rewrite rfc_u16_be by exact Ht. rewrite rfc_u16_be by exact Hc.
  rewrite rfc_u32_be by exact Httl. rewrite rfc_u16_be by exact Hrdl.
  assert (H : lenN (rr_rrdata r ++ flat_map rfc_rr_wire rrs ++ rest) <? lenN (rr_rrdata r) = false)
    by (rewrite lenN_app; lia).
  rewrite H, skipn_lenN_app, firstn_lenN_app.
  rewrite IH by (auto; lia). destruct r; reflexivity.
Qed.

Lemma to_nat_lenN {A} (l : list A) : N.to_nat (lenN l) = length l.
Proof. unfold lenN. apply Nat2N.id. Qed.

Theorem rfc1002_parse_encode v : rfc_packet_wf v -> rfc1002_parse (rfc1002_encode v) = Some (v, []).
Proof.
  intros (Hid & Hfl & Hq & Ha & Hn & Hr & Hqs & Han & Hns & Har).
  unfold rfc1002_parse.
  assert (Hlen : forall a b c d e f q a' n' r' : list N,
            (length (a ++ b ++ c ++ d ++ e ++ f ++ q ++ a' ++ n' ++ r') =
             length a + length b + length c + length d + length e + length f
             + length q + length a' + length n' + length r')%nat).
  { intros. rewrite !app_length. lia. }
  set (msg := rfc1002_encode v). unfold rfc1002_encode in msg.
  assert (Hmsg := Hlen (be_bytes 2 (rp_id v)) (be_bytes 2 (rp_flags v)) (be_bytes 2 (lenN (rp_questions v)))
                       (be_bytes 2 (lenN (rp_answers v))) (be_bytes 2 (lenN (rp_authority v)))
                       (be_bytes 2 (lenN (rp_additional v))) (flat_map rfc_question_wire (rp_questions v))
                       (flat_map rfc_rr_wire (rp_answers v)) (flat_map rfc_rr_wire (rp_authority v))
                       (flat_map rfc_rr_wire (rp_additional v))).
  fold msg in Hmsg.
  unfold msg at 1.
  rewrite rfc_u16_be by exact Hid. rewrite rfc_u16_be by exact Hfl.
  rewrite rfc_u16_be by exact Hq. rewrite rfc_u16_be by exact Ha.
  rewrite rfc_u16_be by exact Hn. rewrite rfc_u16_be by exact Hr.
  rewrite !to_nat_lenN.
  rewrite rfc_read_questions_wire by (auto; lia).
  rewrite rfc_read_rrs_wire by (auto; lia).
  rewrite rfc_read_rrs_wire by (auto; lia).
  rewrite <- (app_nil_r (flat_map rfc_rr_wire (rp_additional v))).
  rewrite rfc_read_rrs_wire by (auto; lia).
  destruct v; reflexivity.
Qed.
