(* C02 — the three NTLMv1 response entry points against DESL of MS-NLMP. *)
From Coq Require Import List Arith NArith Lia Bool.
From Coq Require Import ZifyN ZifyNat ZifyBool.
From Mant Require Import Prim.R Prim.Bytes Prim.Dec Prim.C02Text Algo.MD4 Algo.DES Model.Ntlmv1 Spec.C02
  Proofs.AlgoProofs Proofs.C02Parity.
Import ListNotations.
Open Scope N_scope.

Lemma lenN_eq {A} (l : list A) n : length l = n -> lenN l = N.of_nat n.
Proof. intros <-. reflexivity. Qed.

Lemma firstn_exact {A} (l : list A) n : length l = n -> firstn n l = l.
Proof. intros <-. apply firstn_all. Qed.

(* des.NewCipher(ParityAdjust(k7)) ; Encrypt(challenge) is DES with the MS-NLMP 7-byte key *)
Lemma des_block_pa k sc :
  length k = 7%nat -> length sc = 8%nat -> des_block (parity_adjust k) sc = Ok (des7_encrypt k sc).
Proof.
  intros Hk Hs. unfold des_block, des7_encrypt.
  rewrite (lenN_eq _ _ (parity_adjust_length k Hk)), (lenN_eq _ _ Hs). cbn [N.of_nat Pos.of_succ_nat Pos.succ N.eqb Pos.eqb negb N.ltb N.compare Pos.compare Pos.compare_cont].
  rewrite (firstn_exact _ _ Hs), parity_adjust_spec. reflexivity.
Qed.

Lemma lenN_pa k : length k = 7%nat -> lenN (parity_adjust k) = 8.
Proof. intros H. now rewrite (lenN_eq _ _ (parity_adjust_length k H)). Qed.

Ltac list16 l H :=
  destruct l as [|? [|? [|? [|? [|? [|? [|? [|? [|? [|? [|? [|? [|? [|? [|? [|? [|? ?]]]]]]]]]]]]]]]]];
  try discriminate H.

Ltac step_des Hs :=
  repeat (rewrite des_block_pa by (reflexivity || exact Hs); cbn [bind]).

(* Hash on a 16-byte hash and an 8-byte challenge *)
Lemma hash_core h sc :
  length h = 16%nat -> length sc = 8%nat ->
  (if 21 <? lenN h then Panic else
   let raw := h ++ repeatN 0 (21 - length h) in
   let* key1 := go_slice raw 0 7 in
   let* ct1 := des_block (parity_adjust key1) sc in
   let* key2 := go_slice raw 7 14 in
   let* ct2 := des_block (parity_adjust key2) sc in
   let* key3 := go_slice raw 14 21 in
   let* ct3 := des_block (parity_adjust key3) sc in
   Ok (ct1 ++ ct2 ++ ct3)) = Ok (desl h sc).
Proof.
  intros Hh Hs. list16 h Hh.
  cbn -[des_block parity_adjust des7_encrypt]. step_des Hs.
  unfold desl. cbn [firstn skipn app]. reflexivity.
Qed.

(* the complete behaviour of Hash *)
Theorem ntlmv1_hash_char nthash password sc :
  ntlmv1_hash nthash password sc = hash_outcome nthash password sc.
Proof.
  unfold ntlmv1_hash, hash_outcome.
  destruct ((lenN nthash =? 0) && (lenN password =? 0)); [reflexivity|].
  change (nt_hash password) with (ntowfv1_of password).
  remember (if lenN nthash =? 0 then ntowfv1_of password else nthash) as h eqn:Eh. clear Eh.
  destruct (N.eqb_spec (lenN h) 16) as [Hh|]; cbn [negb]; [|reflexivity].
  destruct (N.eqb_spec (lenN sc) 8) as [Hs|]; cbn [negb]; [|reflexivity].
  apply hash_core; unfold lenN in *; lia.
Qed.

Lemma response_core h sc :
  length h = 16%nat -> length sc = 8%nat ->
  (let* key1 := go_upto h 7 in
   let* key2 := go_slice h 7 14 in
   let* key3 := go_slice h 14 16 in
   let key3 := key3 ++ repeatN 0 5 in
   let key1 := parity_adjust key1 in
   let key2 := parity_adjust key2 in
   let key3 := parity_adjust key3 in
   if negb (lenN key1 =? 8) || negb (lenN key2 =? 8) || negb (lenN key3 =? 8) then Err else
   let* r1 := des_block key1 sc in
   let* r2 := des_block key2 sc in
   let* r3 := des_block key3 sc in
   Ok (r1 ++ r2 ++ r3)) = Ok (desl h sc).
Proof.
  intros Hh Hs. list16 h Hh.
  cbn -[des_block parity_adjust des7_encrypt].
  rewrite !lenN_pa by reflexivity. cbn [N.eqb Pos.eqb negb orb].
  step_des Hs. unfold desl. cbn [firstn skipn app]. reflexivity.
Qed.

Theorem nt_response_char nthash sc : nt_response nthash sc = nt_response_outcome nthash sc.
Proof.
  unfold nt_response, nt_response_outcome.
  destruct (N.eqb_spec (lenN nthash) 16) as [Hh|]; cbn [negb]; [|reflexivity].
  destruct (N.eqb_spec (lenN sc) 8) as [Hs|]; cbn [negb]; [|reflexivity].
  apply response_core; unfold lenN in *; lia.
Qed.

Section Upper.
Variable upper : list N -> list N.

Lemma lm_hash_length password : length (lm_hash upper password) = 16%nat.
Proof. unfold lm_hash. rewrite app_length, !des_encrypt_length. reflexivity. Qed.

Theorem lm_response_char password sc :
  lm_response upper password sc =
  if negb (lenN sc =? 8) then Err else Ok (desl (lm_hash upper password) sc).
Proof.
  unfold lm_response, lm_response_of.
  destruct (N.eqb_spec (lenN sc) 8) as [Hs|]; cbn [negb]; [|reflexivity].
  apply response_core; [apply lm_hash_length | unfold lenN in *; lia].
Qed.
End Upper.

Lemma ntowfv1_length password : length (ntowfv1 password) = 16%nat.
Proof. apply md4_length. Qed.

(* ---- whichever entry point computes them ---- *)
Theorem v1_agree nthash password sc :
  length nthash = 16%nat -> length sc = 8%nat ->
  ntlmv1_hash nthash password sc = Ok (desl nthash sc) /\ nt_response nthash sc = Ok (desl nthash sc).
Proof.
  intros Hh Hs. rewrite ntlmv1_hash_char, nt_response_char. unfold hash_outcome, nt_response_outcome.
  assert (E1 : lenN nthash = 16) by (unfold lenN; rewrite Hh; reflexivity).
  assert (E2 : lenN sc = 8) by (unfold lenN; rewrite Hs; reflexivity).
  rewrite E1, E2. cbn [N.eqb Pos.eqb andb negb]. rewrite E1. split; reflexivity.
Qed.

Theorem v1_string nthash password sc :
  length nthash = 16%nat -> length sc = 8%nat ->
  ntlmv1_string nthash password sc = Ok (Prim.Dec.hex_of_bytes true (desl nthash sc)).
Proof.
  intros Hh Hs. unfold ntlmv1_string. destruct (v1_agree nthash password sc Hh Hs) as [E _].
  rewrite E. reflexivity.
Qed.

(* through NewNTLMv1WithPassword: NT hash = NTOWFv1(password) *)
Theorem v1_password_agree upper password sc :
  length sc = 8%nat ->
  exists nth pw c, new_with_password password sc = Ok (nth, pw, c) /\
    ntlmv1_hash nth pw c = Ok (desl (ntowfv1 password) sc) /\
    nt_response nth c = Ok (desl (ntowfv1 password) sc) /\
    lm_response upper pw c = Ok (desl (lm_hash upper password) sc).
Proof.
  intros Hs. exists (nt_hash password), password, sc. unfold new_with_password.
  rewrite (lenN_eq _ _ Hs). cbn [N.of_nat Pos.of_succ_nat Pos.succ N.eqb Pos.eqb negb].
  split; [reflexivity|].
  destruct (v1_agree (nt_hash password) password sc (ntowfv1_length password) Hs) as [H1 H2].
  split; [exact H1 | split; [exact H2|]].
  rewrite lm_response_char, (lenN_eq _ _ Hs). reflexivity.
Qed.

(* the struct-literal route: no NT hash, a password *)
Theorem v1_hash_from_password password sc :
  password <> [] -> length sc = 8%nat ->
  ntlmv1_hash [] password sc = Ok (desl (ntowfv1 password) sc).
Proof.
  intros Hp Hs. rewrite ntlmv1_hash_char. unfold hash_outcome.
  destruct password as [|x p]; [congruence|].
  change (lenN (@nil N)) with 0. rewrite lenN_cons.
  destruct (N.eqb_spec (1 + lenN p) 0) as [E|_]; [lia|]. cbn [N.eqb andb].
  change (ntowfv1_of (x :: p)) with (ntowfv1 (x :: p)).
  rewrite (lenN_eq _ _ (ntowfv1_length (x :: p))), (lenN_eq _ _ Hs). reflexivity.
Qed.

(* ---- totality ---- *)
Theorem ntlmv1_hash_total nthash password sc : ntlmv1_hash nthash password sc <> Panic.
Proof.
  rewrite ntlmv1_hash_char. unfold hash_outcome.
  destruct ((lenN nthash =? 0) && (lenN password =? 0)); [discriminate|].
  cbv zeta. destruct (negb _); [discriminate|]. destruct (negb _); discriminate.
Qed.

Theorem nt_response_total nthash sc : nt_response nthash sc <> Panic.
Proof.
  rewrite nt_response_char. unfold nt_response_outcome.
  destruct (negb _); [discriminate|]. destruct (negb _); discriminate.
Qed.

Theorem lm_response_total upper password sc : lm_response upper password sc <> Panic.
Proof. rewrite lm_response_char. destruct (negb _); discriminate. Qed.

Theorem ntlmv1_string_total nthash password sc : ntlmv1_string nthash password sc <> Panic.
Proof.
  unfold ntlmv1_string. pose proof (ntlmv1_hash_total nthash password sc).
  destruct (ntlmv1_hash nthash password sc); [discriminate | discriminate | congruence].
Qed.
