(* C01: the LM hash.  Manticore spreads 7 key bytes over 8 with an inline formula that leaves the low (parity)
   bit of every byte unspecified; MS-NLMP's str_to_key sets odd parity.  (1) The two agree on the 56 key bits for
   every 7-byte input; (2) the DES key schedule never looks at the 8 parity positions; hence the LM hash computed
   by the Go code is LMOWFv1 for 7-bit ASCII passwords of every length. *)
From Coq Require Import List Arith NArith Lia Bool.
From Coq Require Import ZifyN ZifyNat ZifyBool.
From Mant Require Import Prim.Bytes Prim.Dec Algo.Word Algo.DES Model.C01Text Model.NtLmDcc Spec.C01
  Proofs.AlgoProofs Proofs.C01Text Proofs.C01Md4Stream.
Import ListNotations.
Open Scope N_scope.

Definition half (b : N) : N := b / 2.       (* the 7 key bits of a DES key byte *)

(* ------------------------------------------------------------------ *)
(* (1) 56 key bits: a sweep over all pairs of bytes, lifted to all 7-byte inputs *)

Definition hb7 (b1 b2 b3 b4 b5 b6 b7 : bool) : N :=
  64 * bN b1 + 32 * bN b2 + 16 * bN b3 + 8 * bN b4 + 4 * bN b5 + 2 * bN b6 + bN b7.

Lemma half_expand b1 b2 b3 b4 b5 b6 b7 p :
  half (128 * bN b1 + 64 * bN b2 + 32 * bN b3 + 16 * bN b4 + 8 * bN b5 + 4 * bN b6 + 2 * bN b7 + bN p)
  = hb7 b1 b2 b3 b4 b5 b6 b7.
Proof. destruct b1, b2, b3, b4, b5, b6, b7, p; reflexivity. Qed.

Definition tb (x : N) (i : N) : bool := N.testbit x i.

(* the eight key bytes, halved: Go formula (left) against the bits str_to_key selects (right); byte j depends
   on input bytes j-1 (x) and j (y) only *)
Definition pair_ok (x y : N) : bool :=
  (half x =? hb7 (tb x 7) (tb x 6) (tb x 5) (tb x 4) (tb x 3) (tb x 2) (tb x 1)) &&
  (half (N.lor (shl8 x 7) (N.shiftr y 1)) =? hb7 (tb x 0) (tb y 7) (tb y 6) (tb y 5) (tb y 4) (tb y 3) (tb y 2)) &&
  (half (N.lor (shl8 x 6) (N.shiftr y 2)) =? hb7 (tb x 1) (tb x 0) (tb y 7) (tb y 6) (tb y 5) (tb y 4) (tb y 3)) &&
  (half (N.lor (shl8 x 5) (N.shiftr y 3)) =? hb7 (tb x 2) (tb x 1) (tb x 0) (tb y 7) (tb y 6) (tb y 5) (tb y 4)) &&
  (half (N.lor (shl8 x 4) (N.shiftr y 4)) =? hb7 (tb x 3) (tb x 2) (tb x 1) (tb x 0) (tb y 7) (tb y 6) (tb y 5)) &&
  (half (N.lor (shl8 x 3) (N.shiftr y 5)) =? hb7 (tb x 4) (tb x 3) (tb x 2) (tb x 1) (tb x 0) (tb y 7) (tb y 6)) &&
  (half (N.lor (shl8 x 2) (N.shiftr y 6)) =? hb7 (tb x 5) (tb x 4) (tb x 3) (tb x 2) (tb x 1) (tb x 0) (tb y 7)) &&
  (half (shl8 y 1) =? hb7 (tb y 6) (tb y 5) (tb y 4) (tb y 3) (tb y 2) (tb y 1) (tb y 0)).

Definition all_bytes : list N := map N.of_nat (seq 0 256).

Lemma in_all_bytes x : x < 256 -> In x all_bytes.
Proof.
  intros H. unfold all_bytes. rewrite <- (N2Nat.id x). apply in_map. apply in_seq. lia.
Qed.

(* 65 536 cases, computed *)
Lemma pair_sweep : forallb (fun x => forallb (fun y => pair_ok x y) all_bytes) all_bytes = true.
Proof. vm_compute. reflexivity. Qed.

Lemma pair_ok_all x y : x < 256 -> y < 256 -> pair_ok x y = true.
Proof.
  intros Hx Hy.
  pose proof (proj1 (forallb_forall _ _) pair_sweep x (in_all_bytes x Hx)) as H1.
  exact (proj1 (forallb_forall _ _) H1 y (in_all_bytes y Hy)).
Qed.

(* factoring: both expansions of a 7-byte string, byte by byte *)
Lemma str_to_key_half h0 h1 h2 h3 h4 h5 h6 :
  map half (str_to_key [h0; h1; h2; h3; h4; h5; h6]) =
  [ hb7 (tb h0 7) (tb h0 6) (tb h0 5) (tb h0 4) (tb h0 3) (tb h0 2) (tb h0 1);
    hb7 (tb h0 0) (tb h1 7) (tb h1 6) (tb h1 5) (tb h1 4) (tb h1 3) (tb h1 2);
    hb7 (tb h1 1) (tb h1 0) (tb h2 7) (tb h2 6) (tb h2 5) (tb h2 4) (tb h2 3);
    hb7 (tb h2 2) (tb h2 1) (tb h2 0) (tb h3 7) (tb h3 6) (tb h3 5) (tb h3 4);
    hb7 (tb h3 3) (tb h3 2) (tb h3 1) (tb h3 0) (tb h4 7) (tb h4 6) (tb h4 5);
    hb7 (tb h4 4) (tb h4 3) (tb h4 2) (tb h4 1) (tb h4 0) (tb h5 7) (tb h5 6);
    hb7 (tb h5 5) (tb h5 4) (tb h5 3) (tb h5 2) (tb h5 1) (tb h5 0) (tb h6 7);
    hb7 (tb h6 6) (tb h6 5) (tb h6 4) (tb h6 3) (tb h6 2) (tb h6 1) (tb h6 0) ].
Proof.
  unfold str_to_key, bytes_to_bits. cbn [flat_map byte_bits app expand7 map].
  rewrite !half_expand. reflexivity.
Qed.

Lemma lm_spread_half h0 h1 h2 h3 h4 h5 h6 :
  map half (lm_spread [h0; h1; h2; h3; h4; h5; h6]) =
  [ half h0;
    half (N.lor (shl8 h0 7) (N.shiftr h1 1));
    half (N.lor (shl8 h1 6) (N.shiftr h2 2));
    half (N.lor (shl8 h2 5) (N.shiftr h3 3));
    half (N.lor (shl8 h3 4) (N.shiftr h4 4));
    half (N.lor (shl8 h4 3) (N.shiftr h5 5));
    half (N.lor (shl8 h5 2) (N.shiftr h6 6));
    half (shl8 h6 1) ].
Proof. reflexivity. Qed.

Lemma andb8 a b c d e f g h : a && b && c && d && e && f && g && h = true ->
  a = true /\ b = true /\ c = true /\ d = true /\ e = true /\ f = true /\ g = true /\ h = true.
Proof. destruct a, b, c, d, e, f, g, h; cbn; intros H; try discriminate H; repeat split. Qed.

(* Go's inline spread and MS-NLMP's str_to_key agree on the 56 key bits, for every 7-byte input *)
Theorem lm_spread_key_bits h : length h = 7%nat -> wf_bytes h ->
  map half (lm_spread h) = map half (str_to_key h).
Proof.
  intros Hlen Hwf.
  do 7 (destruct h as [|? h]; [discriminate Hlen|]). destruct h; [|discriminate Hlen].
  rename n into h0, n0 into h1, n1 into h2, n2 into h3, n3 into h4, n4 into h5, n5 into h6.
  repeat match goal with H : wf_bytes (_ :: _) |- _ => inversion H; subst; clear H end.
  repeat match goal with H : Forall _ (_ :: _) |- _ => inversion H; subst; clear H end.
  rewrite str_to_key_half, lm_spread_half.
  pose proof (andb8 _ _ _ _ _ _ _ _ (pair_ok_all h0 h1 ltac:(assumption) ltac:(assumption))) as P01.
  pose proof (andb8 _ _ _ _ _ _ _ _ (pair_ok_all h1 h2 ltac:(assumption) ltac:(assumption))) as P12.
  pose proof (andb8 _ _ _ _ _ _ _ _ (pair_ok_all h2 h3 ltac:(assumption) ltac:(assumption))) as P23.
  pose proof (andb8 _ _ _ _ _ _ _ _ (pair_ok_all h3 h4 ltac:(assumption) ltac:(assumption))) as P34.
  pose proof (andb8 _ _ _ _ _ _ _ _ (pair_ok_all h4 h5 ltac:(assumption) ltac:(assumption))) as P45.
  pose proof (andb8 _ _ _ _ _ _ _ _ (pair_ok_all h5 h6 ltac:(assumption) ltac:(assumption))) as P56.
  destruct P01 as (A0 & A1 & _). destruct P12 as (_ & _ & A2 & _). destruct P23 as (_ & _ & _ & A3 & _).
  destruct P34 as (_ & _ & _ & _ & A4 & _). destruct P45 as (_ & _ & _ & _ & _ & A5 & _).
  destruct P56 as (_ & _ & _ & _ & _ & _ & A6 & A7).
  apply N.eqb_eq in A0, A1, A2, A3, A4, A5, A6, A7.
  rewrite A0, A1, A2, A3, A4, A5, A6, A7. reflexivity.
Qed.

(* ------------------------------------------------------------------ *)
(* (2) the DES key schedule ignores the parity positions 8, 16, ..., 64: PC-1 never selects them *)

Lemma tb_half a a' j : half a = half a' -> 1 <= j -> N.testbit a j = N.testbit a' j.
Proof.
  intros H Hj. unfold half in H.
  replace j with (N.succ (N.pred j)) by lia.
  rewrite <- !N.div2_bits, H. reflexivity.
Qed.

Theorem des_subkeys_ignore_parity k k' : length k = 8%nat -> length k' = 8%nat ->
  map half k = map half k' -> des_subkeys k = des_subkeys k'.
Proof.
  intros Hk Hk' H.
  do 8 (destruct k as [|? k]; [discriminate Hk|]). destruct k; [|discriminate Hk].
  do 8 (destruct k' as [|? k']; [discriminate Hk'|]). destruct k'; [|discriminate Hk'].
  cbn [map] in H. injection H as E0 E1 E2 E3 E4 E5 E6 E7.
  unfold des_subkeys.
  match goal with |- des_ks _ (firstn 28 ?a) (skipn 28 ?a) = des_ks _ (firstn 28 ?b) (skipn 28 ?b) =>
    assert (E : a = b); [|rewrite E; reflexivity] end.
  unfold bytes_to_bits. cbn [flat_map byte_bits app permute des_PC1 map nth pred].
  repeat (f_equal; try (apply tb_half; [assumption|lia])).
Qed.

Corollary des_encrypt_ignore_parity k k' block : length k = 8%nat -> length k' = 8%nat ->
  map half k = map half k' -> des_encrypt k block = des_encrypt k' block.
Proof. intros Hk Hk' H. unfold des_encrypt. rewrite (des_subkeys_ignore_parity k k' Hk Hk' H). reflexivity. Qed.

(* DES keyed with Go's spread = DES keyed with str_to_key, for every 7-byte half *)
Theorem lm_half_des h block : length h = 7%nat -> wf_bytes h ->
  des_encrypt (lm_spread h) block = des7_encrypt h block.
Proof.
  intros Hlen Hwf. unfold des7_encrypt.
  apply des_encrypt_ignore_parity.
  - reflexivity.
  - apply str_to_key_length. exact Hlen.
  - apply lm_spread_key_bits; assumption.
Qed.

(* ------------------------------------------------------------------ *)
(* the LM hash of a 7-bit ASCII password of any length *)

Lemma lm_pad14_spec p : lm_pad14 p = firstn 14 (p ++ zeros 14).
Proof.
  unfold lm_pad14. rewrite firstn_app.
  destruct (Nat.ltb_spec 14 (length p)) as [H|H].
  - rewrite firstn_length. replace (14 - Nat.min 14 (length p))%nat with 0%nat by lia.
    replace (14 - length p)%nat with 0%nat by lia. reflexivity.
  - rewrite firstn_all2 by lia. f_equal. symmetry. apply firstn_zeros. lia.
Qed.

Lemma to_upper_lt c : c < 128 -> to_upper c < 256.
Proof. intros H. unfold to_upper. destruct ((97 <=? c) && (c <=? 122)); lia. Qed.

Theorem lm_hash_spec upper_cp pw : ascii7 pw -> lm_hash upper_cp pw = lmowfv1 pw.
Proof.
  intros Hascii. unfold lm_hash, lmowfv1.
  rewrite go_to_upper_ascii by exact Hascii.
  rewrite lm_pad14_spec.
  set (p := firstn 14 (map to_upper pw ++ zeros 14)).
  assert (Lp : length p = 14%nat).
  { unfold p. rewrite firstn_length, app_length, length_zeros. lia. }
  assert (Wp : wf_bytes p).
  { unfold p. apply wf_bytes_firstn. apply wf_bytes_app. split; [|apply wf_zeros].
    unfold wf_bytes. apply Forall_forall. intros x Hx. apply in_map_iff in Hx.
    destruct Hx as (c & <- & Hc). apply to_upper_lt. eapply Forall_forall in Hascii; eassumption. }
  change lm_magic with lm_magic_spec.
  rewrite !lm_half_des; try reflexivity.
  - rewrite skipn_length. lia.
  - apply wf_bytes_skipn. exact Wp.
  - rewrite firstn_length. lia.
  - apply wf_bytes_firstn. exact Wp.
Qed.
