(* C12: the FIPS 197 inverse cipher (5.3) inverts the cipher (5.1) on 16-byte blocks, for every
   list of round keys made of bytes — discharges the hypothesis of C12_gpp_inverse for the
   executable AES of Algo/AES.v.
     InvSubBytes o SubBytes = id          : the two tables, swept over the 256 bytes
     InvShiftRows o ShiftRows = id        : the two index tables, on 16 symbolic bytes
     InvMixColumns o MixColumns = id      : GF(2^8) multiplication by a constant is additive
                                            (structural), so the composed column map is additive
                                            and it is the identity on (s,0,0,0), (0,s,0,0), ...
                                            (four sweeps over the 256 bytes)
     AddRoundKey is an involution. *)
From Coq Require Import List Arith NArith Lia Bool.
From Coq Require Import ZifyN ZifyNat ZifyBool.
From Mant Require Import Prim.Bytes Algo.Word Algo.AES Algo.RC4 Proofs.AlgoProofs.
Import ListNotations.
Open Scope N_scope.

(* ---------------- xor rearrangements, bit by bit ---------------- *)

Ltac xor_bits :=
  apply N.bits_inj; intros k; rewrite ?N.lxor_spec;
  repeat match goal with |- context [N.testbit ?x k] => destruct (N.testbit x k) end; reflexivity.

Lemma lxor_swap4 a a' g g' :
  N.lxor (N.lxor a a') (N.lxor g g') = N.lxor (N.lxor a g) (N.lxor a' g').
Proof. xor_bits. Qed.

Lemma xor4_add p q r s p' q' r' s' :
  xor4 (N.lxor p p') (N.lxor q q') (N.lxor r r') (N.lxor s s') =
  N.lxor (xor4 p q r s) (xor4 p' q' r' s').
Proof. unfold xor4. xor_bits. Qed.

(* ---------------- gmul c is additive ---------------- *)

Lemma gmul_loop_add n : forall a b b',
  gmul_loop n a (N.lxor b b') = N.lxor (gmul_loop n a b) (gmul_loop n a b').
Proof.
  induction n as [|n IH]; intros a b b'; cbn [gmul_loop]; [reflexivity|].
  replace (N.div2 (N.lxor b b')) with (N.lxor (N.div2 b) (N.div2 b'))
    by (rewrite !N.div2_spec; symmetry; apply N.shiftr_lxor).
  rewrite IH.
  replace (if N.odd (N.lxor b b') then a else 0)
    with (N.lxor (if N.odd b then a else 0) (if N.odd b' then a else 0)).
  - apply lxor_swap4.
  - rewrite <- !N.bit0_odd, N.lxor_spec.
    destruct (N.testbit b 0), (N.testbit b' 0); cbn [xorb];
      rewrite ?N.lxor_0_r, ?N.lxor_0_l, ?N.lxor_nilpotent; reflexivity.
Qed.

Lemma gmul_add c x y : gmul c (N.lxor x y) = N.lxor (gmul c x) (gmul c y).
Proof. apply gmul_loop_add. Qed.

Lemma gmul_0_r c : gmul c 0 = 0.
Proof.
  unfold gmul. generalize 8%nat as n. intros n; revert c.
  induction n as [|n IH]; intros c; cbn [gmul_loop]; [reflexivity|].
  change (N.div2 0) with 0. rewrite IH. reflexivity.
Qed.

(* ---------------- the column maps are additive ---------------- *)

Definition zipx (a b : list N) : list N := xor_bytes a b.

Lemma mix_column_add a0 a1 a2 a3 b0 b1 b2 b3 :
  mix_column (N.lxor a0 b0) (N.lxor a1 b1) (N.lxor a2 b2) (N.lxor a3 b3) =
  zipx (mix_column a0 a1 a2 a3) (mix_column b0 b1 b2 b3).
Proof.
  unfold mix_column, zipx. cbn [xor_bytes]. rewrite !gmul_add, <- !xor4_add. reflexivity.
Qed.

Lemma inv_mix_column_add a0 a1 a2 a3 b0 b1 b2 b3 :
  inv_mix_column (N.lxor a0 b0) (N.lxor a1 b1) (N.lxor a2 b2) (N.lxor a3 b3) =
  zipx (inv_mix_column a0 a1 a2 a3) (inv_mix_column b0 b1 b2 b3).
Proof.
  unfold inv_mix_column, zipx. cbn [xor_bytes]. rewrite !gmul_add, <- !xor4_add. reflexivity.
Qed.

(* InvMixColumns o MixColumns on one column *)
Definition col_rt (s0 s1 s2 s3 : N) : list N :=
  match mix_column s0 s1 s2 s3 with
  | [t0; t1; t2; t3] => inv_mix_column t0 t1 t2 t3
  | _ => []
  end.

Lemma col_rt_add a0 a1 a2 a3 b0 b1 b2 b3 :
  col_rt (N.lxor a0 b0) (N.lxor a1 b1) (N.lxor a2 b2) (N.lxor a3 b3) =
  zipx (col_rt a0 a1 a2 a3) (col_rt b0 b1 b2 b3).
Proof.
  unfold col_rt. rewrite mix_column_add. unfold mix_column at 1 2. unfold zipx at 1. cbn [xor_bytes].
  rewrite inv_mix_column_add. reflexivity.
Qed.

Lemma col_rt_basis s : s < 256 ->
  col_rt s 0 0 0 = [s; 0; 0; 0] /\ col_rt 0 s 0 0 = [0; s; 0; 0] /\
  col_rt 0 0 s 0 = [0; 0; s; 0] /\ col_rt 0 0 0 s = [0; 0; 0; s].
Proof.
  intros Hs.
  pose (chk := fun s => bytes_eqb (col_rt s 0 0 0) [s; 0; 0; 0] && bytes_eqb (col_rt 0 s 0 0) [0; s; 0; 0]
                        && bytes_eqb (col_rt 0 0 s 0) [0; 0; s; 0] && bytes_eqb (col_rt 0 0 0 s) [0; 0; 0; s]).
  assert (H : chk s = true) by (apply (byte_sweep chk); [vm_compute; reflexivity | exact Hs]).
  unfold chk in H. rewrite !andb_true_iff in H. destruct H as [[[H1 H2] H3] H4].
  rewrite !bytes_eqb_spec in *. auto.
Qed.

Lemma col_rt_id s0 s1 s2 s3 :
  s0 < 256 -> s1 < 256 -> s2 < 256 -> s3 < 256 -> col_rt s0 s1 s2 s3 = [s0; s1; s2; s3].
Proof.
  intros H0 H1 H2 H3.
  destruct (col_rt_basis s0 H0) as (B0 & _ & _ & _).
  destruct (col_rt_basis s1 H1) as (_ & B1 & _ & _).
  destruct (col_rt_basis s2 H2) as (_ & _ & B2 & _).
  destruct (col_rt_basis s3 H3) as (_ & _ & _ & B3).
  replace s0 with (N.lxor (N.lxor s0 0) (N.lxor 0 0)) at 1 by (now rewrite !N.lxor_0_r).
  replace s1 with (N.lxor (N.lxor 0 s1) (N.lxor 0 0)) at 1 by (now rewrite !N.lxor_0_r, N.lxor_0_l).
  replace s2 with (N.lxor (N.lxor 0 0) (N.lxor s2 0)) at 1 by (now rewrite !N.lxor_0_r, N.lxor_0_l).
  replace s3 with (N.lxor (N.lxor 0 0) (N.lxor 0 s3)) at 1 by (now rewrite !N.lxor_0_l).
  rewrite !col_rt_add, B0, B1, B2, B3. unfold zipx. cbn [xor_bytes].
  rewrite ?N.lxor_0_r, ?N.lxor_0_l. reflexivity.
Qed.

Lemma inv_mix_columns_mix_columns st :
  length st = 16%nat -> wf_bytes st -> inv_mix_columns (mix_columns st) = st.
Proof.
  intros H Hwf. list16 st H.
  repeat match goal with H : wf_bytes (_ :: _) |- _ => inversion_clear H end.
  repeat match goal with H : Forall _ (_ :: _) |- _ => inversion_clear H end.
  unfold inv_mix_columns, mix_columns. cbn [map_columns].
  unfold mix_column. cbn [app map_columns].
  repeat match goal with
  | |- context [inv_mix_column (xor4 (gmul 2 ?a) (gmul 3 ?b) ?c ?d) _ _ _] =>
      change (inv_mix_column (xor4 (gmul 2 a) (gmul 3 b) c d) (xor4 a (gmul 2 b) (gmul 3 c) d)
                             (xor4 a b (gmul 2 c) (gmul 3 d)) (xor4 (gmul 3 a) b c (gmul 2 d)))
        with (col_rt a b c d);
      rewrite (col_rt_id a b c d) by assumption
  end.
  reflexivity.
Qed.

(* ---------------- the other layers ---------------- *)

Lemma inv_sub_byte_sub_byte b : b < 256 -> inv_sub_byte (sub_byte b) = b.
Proof.
  intros Hb. apply N.eqb_eq.
  apply (byte_sweep (fun b => inv_sub_byte (sub_byte b) =? b)); [vm_compute; reflexivity | exact Hb].
Qed.

Lemma inv_sub_bytes_sub_bytes st : wf_bytes st -> inv_sub_bytes (sub_bytes st) = st.
Proof.
  unfold inv_sub_bytes, sub_bytes. induction 1 as [|x st Hx Hst IH]; [reflexivity|].
  cbn [map]. now rewrite inv_sub_byte_sub_byte, IH.
Qed.

Lemma inv_shift_rows_shift_rows st : length st = 16%nat -> inv_shift_rows (shift_rows st) = st.
Proof. intros H. list16 st H. reflexivity. Qed.

Lemma add_round_key_involutive st rk : add_round_key (add_round_key st rk) rk = st.
Proof.
  unfold add_round_key. revert rk; induction st as [|x st IH]; intros [|y rk]; cbn [xor_bytes]; try reflexivity.
  - f_equal. specialize (IH []). destruct st; [reflexivity|]. exact IH.
  - rewrite IH. f_equal. rewrite N.lxor_assoc, N.lxor_nilpotent. apply N.lxor_0_r.
Qed.

Lemma sub_bytes_wf st : wf_bytes (sub_bytes st).
Proof. apply map_wf, sub_byte_wf. Qed.

(* SubBytes then ShiftRows, and back *)
Lemma isb_isr_sr_sb st :
  length st = 16%nat -> wf_bytes st -> inv_sub_bytes (inv_shift_rows (shift_rows (sub_bytes st))) = st.
Proof.
  intros H Hwf. rewrite inv_shift_rows_shift_rows by (now rewrite length_sub_bytes).
  now apply inv_sub_bytes_sub_bytes.
Qed.

(* ---------------- the rounds ---------------- *)

Lemma rounds_inverse rks : rks <> [] -> Forall wf_bytes rks ->
  forall st rest, rest <> [] -> length st = 16%nat -> wf_bytes st ->
  inv_cipher_rounds (rev (removelast rks) ++ rest) (add_round_key (cipher_rounds rks st) (last rks []))
  = inv_cipher_rounds rest (shift_rows (sub_bytes st)).
Proof.
  induction rks as [|r1 rks IH]; intros Hne Hwfk st rest Hrest Hlen Hwf; [contradiction|].
  destruct rks as [|r2 rks].
  - cbn [removelast rev app last cipher_rounds]. now rewrite add_round_key_involutive.
  - inversion_clear Hwfk as [|? ? Hr1 Hwfk'].
    change (removelast (r1 :: r2 :: rks)) with (r1 :: removelast (r2 :: rks)).
    change (last (r1 :: r2 :: rks) []) with (last (r2 :: rks) []).
    cbn [rev]. rewrite <- app_assoc. cbn [app].
    change (cipher_rounds (r1 :: r2 :: rks) st)
      with (cipher_rounds (r2 :: rks) (add_round_key (mix_columns (shift_rows (sub_bytes st))) r1)).
    set (st1 := add_round_key (mix_columns (shift_rows (sub_bytes st))) r1).
    assert (Hsr_len : length (shift_rows (sub_bytes st)) = 16%nat) by apply length_shift_rows.
    assert (Hsr_wf : wf_bytes (shift_rows (sub_bytes st))) by apply select_wf, sub_bytes_wf.
    assert (Hl1 : length st1 = 16%nat).
    { unfold st1. rewrite length_add_round_key. now apply length_mix_columns. }
    assert (Hw1 : wf_bytes st1).
    { unfold st1, add_round_key. apply wf_xor_bytes; [now apply mix_columns_wf | exact Hr1]. }
    rewrite (IH ltac:(discriminate) Hwfk' st1 (r1 :: rest) ltac:(discriminate) Hl1 Hw1).
    destruct rest as [|k rest']; [contradiction|].
    cbn [inv_cipher_rounds]. rewrite isb_isr_sr_sb by assumption.
    unfold st1. rewrite add_round_key_involutive.
    now rewrite inv_mix_columns_mix_columns.
Qed.

Theorem aes_inv_cipher_cipher rks block :
  Forall wf_bytes rks -> length block = 16%nat -> wf_bytes block ->
  aes_inv_cipher (rev rks) (aes_cipher rks block) = block.
Proof.
  intros Hwfk Hlen Hwf. destruct rks as [|rk0 rks]; [reflexivity|].
  inversion_clear Hwfk as [|? ? Hrk0 Hwfk'].
  cbn [aes_cipher].
  set (s0 := add_round_key block rk0).
  assert (Hl0 : length s0 = 16%nat) by (unfold s0; now rewrite length_add_round_key).
  assert (Hw0 : wf_bytes s0) by (unfold s0, add_round_key; now apply wf_xor_bytes).
  destruct rks as [|r1 rks].
  - cbn [rev app cipher_rounds aes_inv_cipher inv_cipher_rounds]. unfold s0.
    apply add_round_key_involutive.
  - assert (Hne : r1 :: rks <> []) by discriminate.
    assert (Hrev : rev (r1 :: rks) = last (r1 :: rks) [] :: rev (removelast (r1 :: rks))).
    { rewrite (app_removelast_last [] Hne) at 1. rewrite rev_app_distr. reflexivity. }
    change (rev (rk0 :: r1 :: rks)) with (rev (r1 :: rks) ++ [rk0]). rewrite Hrev.
    cbn [app aes_inv_cipher].
    rewrite (rounds_inverse (r1 :: rks) Hne Hwfk' s0 [rk0] ltac:(discriminate) Hl0 Hw0).
    cbn [inv_cipher_rounds]. rewrite isb_isr_sr_sb by assumption.
    unfold s0. apply add_round_key_involutive.
Qed.

(* for the key schedule of any key made of bytes *)
Corollary aes_decrypt_encrypt key block :
  wf_bytes key -> length block = 16%nat -> wf_bytes block ->
  aes_inv_cipher (rev (aes_round_keys key)) (aes_cipher (aes_round_keys key) block) = block.
Proof. intros Hk. apply aes_inv_cipher_cipher. now apply aes_round_keys_wf. Qed.
