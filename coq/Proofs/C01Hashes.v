(* C01: NT hash, MS-Cache v1 (DCC) and v2 (DCC2) computed by the Go compositions equal MS-NLMP / MS-Cache as
   defined in Spec/C01.v, in raw, hexadecimal and hashcat form. *)
From Coq Require Import List NArith ZArith Lia Bool.
From Coq Require Import ZifyN ZifyNat ZifyBool.
From Mant Require Import Prim.Bytes Prim.Dec Algo.Word Algo.MD4 Algo.PBKDF2 Algo.Utf16 Algo.Utf8
  Model.Md4Go Model.C01Text Model.NtLmDcc Spec.C01
  Proofs.AlgoProofs Proofs.C01Md4Stream Proofs.C01Text.
Import ListNotations.
Open Scope N_scope.

Lemma md4_of_rfc x : md4_of x = md4 x.
Proof. exact (md4_sum_data_rfc x). Qed.

(* strings.ToLower(hex.EncodeToString(h)) is hex.EncodeToString(h): the digits are already lower-case *)
Lemma to_lower_hex_digit d : to_lower (hex_digit false d) = hex_digit false d.
Proof.
  unfold to_lower, hex_digit. destruct (d <? 10) eqn:E.
  - destruct ((65 <=? 48 + d) && (48 + d <=? 90)) eqn:F; [lia|reflexivity].
  - destruct ((65 <=? 87 + d) && (87 + d <=? 90)) eqn:F; [lia|reflexivity].
Qed.

Lemma hex_lower_spec h : hex_lower h = hex_form h.
Proof.
  unfold hex_lower, hex_form, hex_of_bytes. induction h as [|b h IH]; [reflexivity|].
  cbn [flat_map]. rewrite map_app, IH. f_equal.
  unfold hex_of_byte. cbn [map]. rewrite !to_lower_hex_digit. reflexivity.
Qed.

(* ------------------------------------------------------------------ NT *)
Theorem nt_hash_spec pw cps : utf8_decode pw = Some cps -> nt_hash pw = ntowfv1 cps.
Proof.
  intros H. unfold nt_hash, ntowfv1. rewrite md4_of_rfc, (encode_utf16le_valid pw cps H). reflexivity.
Qed.

Theorem nt_hash_hex_spec pw cps : utf8_decode pw = Some cps -> nt_hash_hex pw = hex_form (ntowfv1 cps).
Proof. intros H. unfold nt_hash_hex. rewrite hex_lower_spec, (nt_hash_spec pw cps H). reflexivity. Qed.

(* ------------------------------------------------------------------ MS-Cache *)
Section MSCacheProofs.
  Variable lower_cp : N -> N.
  Hypothesis lower_ascii : forall c, c < 128 -> lower_cp c = to_lower c.
  Hypothesis lower_scalar : forall c, scalar_value c -> scalar_value (lower_cp c).

  (* usernameBytes := utf16.EncodeUTF16LE(strings.ToLower(username)) *)
  Lemma salt_spec ucps : Forall scalar_value ucps ->
    encode_utf16le (go_to_lower lower_cp (utf8_encode ucps)) = mscache_salt lower_cp ucps.
  Proof.
    intros H. rewrite encode_utf16le_spec.
    destruct (go_to_lower_spec lower_cp lower_ascii lower_scalar ucps H) as [_ ->]. reflexivity.
  Qed.

  Theorem dcc_from_nt_spec nt ucps : Forall scalar_value ucps ->
    dcc_from_nt lower_cp nt (utf8_encode ucps) = mscache1 lower_cp nt ucps.
  Proof. intros H. unfold dcc_from_nt, mscache1. rewrite md4_of_rfc, salt_spec by exact H. reflexivity. Qed.

  Theorem dcc_from_password_spec pw pcps ucps : utf8_decode pw = Some pcps -> Forall scalar_value ucps ->
    dcc_from_password lower_cp pw (utf8_encode ucps) = mscache1 lower_cp (ntowfv1 pcps) ucps.
  Proof.
    intros Hp Hu. unfold dcc_from_password. rewrite (nt_hash_spec pw pcps Hp). apply dcc_from_nt_spec. exact Hu.
  Qed.

  Theorem dcc_hex_spec nt pw pcps ucps : utf8_decode pw = Some pcps -> Forall scalar_value ucps ->
    dcc_from_nt_hex lower_cp nt (utf8_encode ucps) = hex_form (mscache1 lower_cp nt ucps) /\
    dcc_from_password_hex lower_cp pw (utf8_encode ucps) = hex_form (mscache1 lower_cp (ntowfv1 pcps) ucps).
  Proof.
    intros Hp Hu. unfold dcc_from_nt_hex, dcc_from_password_hex. rewrite !hex_lower_spec.
    rewrite dcc_from_nt_spec, (dcc_from_password_spec pw pcps ucps Hp Hu) by exact Hu. split; reflexivity.
  Qed.

  Theorem dcc_hashcat_spec nt pw pcps ucps : utf8_decode pw = Some pcps -> Forall scalar_value ucps ->
    dcc_from_nt_hashcat lower_cp nt (utf8_encode ucps) = dcc1_line lower_cp nt ucps /\
    dcc_from_password_hashcat lower_cp pw (utf8_encode ucps) = dcc1_line lower_cp (ntowfv1 pcps) ucps.
  Proof.
    intros Hp Hu. unfold dcc_from_nt_hashcat, dcc_from_password_hashcat, dcc1_line.
    destruct (dcc_hex_spec nt pw pcps ucps Hp Hu) as [-> ->].
    destruct (go_to_lower_spec lower_cp lower_ascii lower_scalar ucps Hu) as [-> _]. split; reflexivity.
  Qed.

  (* DCC2: the 16 raw bytes, then the line *)
  Theorem dcc2_raw_spec nt ucps rounds : Forall scalar_value ucps ->
    dcc2_raw lower_cp (utf8_encode ucps) nt (Z.of_N rounds) = mscache2 lower_cp nt ucps rounds.
  Proof.
    intros H. unfold dcc2_raw, mscache2, mscache1.
    rewrite md4_of_rfc, salt_spec, pbkdf2_hmac_sha1_fast_eq, N2Z.id by exact H. reflexivity.
  Qed.

  Lemma print_decZ_pos rounds : 1 <= rounds -> print_decZ (Z.of_N rounds) = print_dec rounds.
  Proof. intros H. destruct rounds as [|p]; [lia|reflexivity]. Qed.

  Theorem dcc2_with_nt_spec nt ucps rounds : Forall scalar_value ucps -> 1 <= rounds ->
    dcc2_with_nt lower_cp (utf8_encode ucps) nt (Z.of_N rounds) = dcc2_line lower_cp nt ucps rounds.
  Proof.
    intros H Hr. unfold dcc2_with_nt, dcc2_line, dcc2_prefix, hex_form.
    rewrite dcc2_raw_spec, print_decZ_pos by assumption. reflexivity.
  Qed.

  Theorem dcc2_hash_spec pw pcps ucps rounds : utf8_decode pw = Some pcps -> Forall scalar_value ucps -> 1 <= rounds ->
    dcc2_hash lower_cp (utf8_encode ucps) pw (Z.of_N rounds) = dcc2_line lower_cp (ntowfv1 pcps) ucps rounds /\
    dcc2_with_password lower_cp (utf8_encode ucps) pw (Z.of_N rounds) = dcc2_line lower_cp (ntowfv1 pcps) ucps rounds.
  Proof.
    intros Hp Hu Hr. unfold dcc2_hash, dcc2_with_password. rewrite (nt_hash_spec pw pcps Hp).
    split; apply dcc2_with_nt_spec; assumption.
  Qed.
End MSCacheProofs.

(* ------------------------------------------------------------------ forms *)
(* the hexadecimal form is lower-case and decodes back to the raw bytes; the decimal rounds field parses back *)
Theorem forms_decode raw rounds : wf_bytes raw ->
  unhex (hex_form raw) = Some raw /\ map to_lower (hex_form raw) = hex_form raw /\
  length (hex_form raw) = (2 * length raw)%nat /\ parse_dec (print_dec rounds) = Some rounds.
Proof.
  intros H. unfold hex_form. repeat split.
  - apply unhex_hex. exact H.
  - apply (hex_lower_spec raw).
  - apply length_hex_of_bytes.
  - apply parse_print_dec.
Qed.

(* the hypotheses on the rune mapping are satisfiable: the byte-wise ASCII mapping meets them *)
Lemma ascii_lower_ok :
  (forall c, c < 128 -> to_lower c = to_lower c) /\ (forall c, scalar_value c -> scalar_value (to_lower c)).
Proof.
  split; [reflexivity|]. intros c H. unfold to_lower, scalar_value in *.
  destruct ((65 <=? c) && (c <=? 90)) eqn:E; [left; lia|exact H].
Qed.
