(* C01: the statements of Properties/C01.v that need a few lines of glue over the lemmas of the other proof files. *)
From Coq Require Import List NArith ZArith Lia Bool.
From Mant Require Import Prim.R Prim.Bytes Prim.Dec Algo.Word Algo.MD4 Algo.DES Algo.PBKDF2 Algo.Utf16 Algo.Utf8
  Gen.ConstsC01 Model.Md4Go Model.C01Text Model.NtLmDcc Spec.C01
  Proofs.C01Md4Compress Proofs.C01Md4Stream Proofs.C01Text Proofs.C01Lm Proofs.C01Hashes Proofs.C01CaseTable.
Import ListNotations.
Open Scope N_scope.

Lemma main_md4_bit_identities : forall b c d, b < 2 ^ 32 -> c < 2 ^ 32 -> d < 2 ^ 32 ->
  N.lxor d (N.land b (N.lxor c d)) = md4_F b c d /\
  N.lor (N.land b c) (N.land d (N.lor b c)) = md4_G b c d /\
  N.lxor (N.lxor b c) d = md4_H b c d.
Proof. intros b c d Hb Hc Hd. repeat split; [apply go_F_eq; assumption|apply go_G_eq]. Qed.

Lemma main_md4_compress : forall a b c d chunk, a < 2 ^ 32 -> b < 2 ^ 32 -> c < 2 ^ 32 -> d < 2 ^ 32 ->
  process_chunk (a, b, c, d) chunk = md4_compress (a, b, c, d) (words_le chunk).
Proof. intros a b c d chunk Ha Hb Hc Hd. apply process_chunk_rfc. cbn. auto. Qed.

Lemma main_nt : forall pw cps, utf8_decode pw = Some cps ->
  nt_hash pw = ntowfv1 cps /\ nt_hash_hex pw = hex_form (ntowfv1 cps).
Proof. intros pw cps H. split; [apply nt_hash_spec|apply nt_hash_hex_spec]; exact H. Qed.

Lemma main_lm : forall upper_cp pw, ascii7 pw ->
  lm_hash upper_cp pw = lmowfv1 pw /\ lm_hash_hex upper_cp pw = hex_form (lmowfv1 pw).
Proof.
  intros upper_cp pw H. split; [apply lm_hash_spec; exact H|].
  unfold lm_hash_hex. rewrite hex_lower_spec, lm_hash_spec by exact H. reflexivity.
Qed.

Lemma main_dcc : forall lower_cp,
  (forall c, c < 128 -> lower_cp c = to_lower c) -> (forall c, scalar_value c -> scalar_value (lower_cp c)) ->
  forall nt pw pcps ucps, utf8_decode pw = Some pcps -> Forall scalar_value ucps ->
  dcc_from_nt lower_cp nt (utf8_encode ucps) = mscache1 lower_cp nt ucps /\
  dcc_from_password lower_cp pw (utf8_encode ucps) = mscache1 lower_cp (ntowfv1 pcps) ucps.
Proof.
  intros lower_cp H1 H2 nt pw pcps ucps Hp Hu. split.
  - apply dcc_from_nt_spec; assumption.
  - apply dcc_from_password_spec; assumption.
Qed.

Lemma main_dcc_forms : forall lower_cp,
  (forall c, c < 128 -> lower_cp c = to_lower c) -> (forall c, scalar_value c -> scalar_value (lower_cp c)) ->
  forall nt pw pcps ucps, utf8_decode pw = Some pcps -> Forall scalar_value ucps ->
  dcc_from_nt_hex lower_cp nt (utf8_encode ucps) = hex_form (mscache1 lower_cp nt ucps) /\
  dcc_from_password_hex lower_cp pw (utf8_encode ucps) = hex_form (mscache1 lower_cp (ntowfv1 pcps) ucps) /\
  dcc_from_nt_hashcat lower_cp nt (utf8_encode ucps) = dcc1_line lower_cp nt ucps /\
  dcc_from_password_hashcat lower_cp pw (utf8_encode ucps) = dcc1_line lower_cp (ntowfv1 pcps) ucps.
Proof.
  intros lower_cp H1 H2 nt pw pcps ucps Hp Hu.
  destruct (dcc_hex_spec lower_cp H1 H2 nt pw pcps ucps Hp Hu) as [A B].
  destruct (dcc_hashcat_spec lower_cp H1 H2 nt pw pcps ucps Hp Hu) as [C D]. auto.
Qed.

Lemma main_dcc2 : forall lower_cp,
  (forall c, c < 128 -> lower_cp c = to_lower c) -> (forall c, scalar_value c -> scalar_value (lower_cp c)) ->
  forall nt pw pcps ucps rounds, utf8_decode pw = Some pcps -> Forall scalar_value ucps -> 1 <= rounds ->
  dcc2_raw lower_cp (utf8_encode ucps) nt (Z.of_N rounds) = mscache2 lower_cp nt ucps rounds /\
  dcc2_with_nt lower_cp (utf8_encode ucps) nt (Z.of_N rounds) = dcc2_line lower_cp nt ucps rounds /\
  dcc2_with_password lower_cp (utf8_encode ucps) pw (Z.of_N rounds) = dcc2_line lower_cp (ntowfv1 pcps) ucps rounds /\
  dcc2_hash lower_cp (utf8_encode ucps) pw (Z.of_N rounds) = dcc2_line lower_cp (ntowfv1 pcps) ucps rounds.
Proof.
  intros lower_cp H1 H2 nt pw pcps ucps rounds Hp Hu Hr.
  destruct (dcc2_hash_spec lower_cp H1 H2 pw pcps ucps rounds Hp Hu Hr) as [A B].
  repeat split; try assumption.
  - apply dcc2_raw_spec; assumption.
  - apply dcc2_with_nt_spec; assumption.
Qed.

Lemma main_go_lower_table_ok :
  (forall c, c < 128 -> go_lower_cp c = to_lower c) /\ (forall c, scalar_value c -> scalar_value (go_lower_cp c)).
Proof. split; [exact go_lower_ascii|exact go_lower_scalar]. Qed.
