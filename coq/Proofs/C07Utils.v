(* C07 / C04: the null-terminated string helpers of commands/utils/utils.go. *)
From Coq Require Import List Arith NArith Lia Bool.
From Coq Require Import ZifyN ZifyNat ZifyBool.
From Mant Require Import Prim.Bytes Model.SmbUtils.
Import ListNotations.
Open Scope N_scope.

Lemma unicode_scan_len : forall n data, (length data <= n)%nat -> lenN (unicode_scan data) <= lenN data.
Proof.
  induction n as [|n IH]; intros data H.
  - destruct data; [cbn; lia|cbn in H; lia].
  - destruct data as [|a [|b rest]]; cbn [unicode_scan]; try (unfold lenN; cbn; lia).
    destruct ((a =? 0) && (b =? 0)); [unfold lenN; cbn; lia|].
    assert (Hr : (length rest <= n)%nat) by (cbn in H; lia).
    specialize (IH rest Hr). rewrite !lenN_cons. lia.
Qed.

(* the offset never points past the data (the decoders slice data[offset:] with it) *)
Theorem nt_unicode_offset_in_range data : snd (get_nt_unicode data) <= lenN data.
Proof. unfold get_nt_unicode, clamp. cbn [snd]. destruct (N.ltb_spec (lenN data) (lenN (unicode_scan data) + 2)); lia. Qed.

Theorem nt_unicode_string_within data : lenN (fst (get_nt_unicode data)) <= lenN data.
Proof. unfold get_nt_unicode. cbn [fst]. apply (unicode_scan_len (length data)). apply le_n. Qed.

Lemma byte_scan_len data : lenN (byte_scan data) <= lenN data.
Proof.
  induction data as [|a rest IH]; cbn [byte_scan]; [lia|].
  destruct (a =? 0); rewrite ?lenN_cons; [change (lenN (@nil N)) with 0; lia|lia].
Qed.

Theorem nt_string_offset_in_range data : snd (get_nt_string data) <= lenN data.
Proof. unfold get_nt_string, clamp. cbn [snd]. destruct (N.ltb_spec (lenN data) (lenN (byte_scan data) + 1)); lia. Qed.

(* code units of a string: pairs of bytes, none of them the terminator 00 00 *)
Fixpoint units_ok (s : list N) : Prop :=
  match s with
  | [] => True
  | a :: b :: rest => ((a =? 0) && (b =? 0) = false) /\ units_ok rest
  | _ => False
  end.

Lemma unicode_scan_app s : forall rest, units_ok s -> unicode_scan (s ++ 0 :: 0 :: rest) = s.
Proof.
  assert (G : forall n s, (length s <= n)%nat -> forall rest, units_ok s -> unicode_scan (s ++ 0 :: 0 :: rest) = s).
  { induction n as [|n IH]; intros s0 Hn rest H.
    - destruct s0; [reflexivity|cbn in Hn; lia].
    - destruct s0 as [|a [|b r]]; [reflexivity|destruct H|].
      destruct H as [Hab Hr]. cbn [app unicode_scan]. rewrite Hab. f_equal. f_equal.
      apply IH; [cbn in Hn; lia|exact Hr]. }
  intros rest H. apply (G (length s) s (le_n _) rest H).
Qed.

(* reading back a terminated UTF-16 string followed by anything: the string, and the offset just after 00 00 *)
Theorem nt_unicode_roundtrip s rest : units_ok s ->
  get_nt_unicode (s ++ 0 :: 0 :: rest) = (s, lenN s + 2).
Proof.
  intros H. unfold get_nt_unicode. rewrite (unicode_scan_app s rest H). f_equal.
  unfold clamp. rewrite lenN_app, !lenN_cons. destruct (N.ltb_spec (lenN s + (1 + (1 + lenN rest))) (lenN s + 2)); lia.
Qed.

Lemma byte_scan_app s : forall rest, Forall (fun b => b <> 0) s -> byte_scan (s ++ 0 :: rest) = s.
Proof.
  induction s as [|a s IH]; intros rest H; [reflexivity|].
  inversion H as [|? ? Ha Hs]; subst. cbn [app byte_scan]. destruct (N.eqb_spec a 0); [contradiction|].
  now rewrite IH.
Qed.

Theorem nt_string_roundtrip s rest : Forall (fun b => b <> 0) s ->
  get_nt_string (s ++ 0 :: rest) = (s, lenN s + 1).
Proof.
  intros H. unfold get_nt_string. rewrite (byte_scan_app s rest H). f_equal.
  unfold clamp. rewrite lenN_app, lenN_cons. destruct (N.ltb_spec (lenN s + (1 + lenN rest)) (lenN s + 1)); lia.
Qed.
