(* C02 — ParityBit / ParityAdjust against the odd-parity key expansion of MS-NLMP (Algo.DES.str_to_key).
   Structure: (1) the shift-and-mask bit extraction of the Go code is N.testbit; (2) one 7-bit group:
   all 128 values, by case analysis; (3) the factoring lemma: a bit string is processed group by group, so
   (2) lifts to every key of every length; (4) the cut to a multiple of 7 drops only what the group-wise
   processing ignores anyway. *)
From Coq Require Import List Arith NArith Lia Bool.
From Coq Require Import ZifyN ZifyNat ZifyBool.
From Mant Require Import Prim.R Prim.Bytes Algo.DES Model.Ntlmv1 Spec.C02 Proofs.AlgoProofs.
Import ListNotations.
Open Scope N_scope.

(* (1) *)
Lemma land1_shiftr b i : N.land (N.shiftr b i) 1 = bN (N.testbit b i).
Proof.
  change 1 with (N.ones 1) at 1. rewrite N.land_ones. change (2 ^ 1) with 2.
  rewrite <- N.bit0_mod. rewrite N.shiftr_spec'. rewrite N.add_0_l.
  destruct (N.testbit b i); reflexivity.
Qed.

Lemma byte_key_bits_spec b : byte_key_bits b = map bN (byte_bits b).
Proof. unfold byte_key_bits, byte_bits. cbn [map]. rewrite !land1_shiftr. reflexivity. Qed.

Lemma key_bits_spec k : key_bits k = map bN (bytes_to_bits k).
Proof.
  unfold key_bits, bytes_to_bits. induction k as [|b k IH]; [reflexivity|].
  cbn [flat_map]. rewrite map_app, IH, byte_key_bits_spec. reflexivity.
Qed.

(* (2) one group: 2^7 = 128 cases *)
Definition group_byte (b1 b2 b3 b4 b5 b6 b7 : bool) : N :=
  let b := pa_byte (map bN [b1; b2; b3; b4; b5; b6; b7]) 0 0 in N.lor b (wrap8 (parity_bit b)).

Lemma group_byte_spec b1 b2 b3 b4 b5 b6 b7 :
  [group_byte b1 b2 b3 b4 b5 b6 b7] = expand7 [b1; b2; b3; b4; b5; b6; b7].
Proof. destruct b1, b2, b3, b4, b5, b6, b7; vm_compute; reflexivity. Qed.

Lemma group_odd_parity b1 b2 b3 b4 b5 b6 b7 :
  forallb odd_parity (expand7 [b1; b2; b3; b4; b5; b6; b7]) = true.
Proof. destruct b1, b2, b3, b4, b5, b6, b7; vm_compute; reflexivity. Qed.

(* the 7 high bits of the produced byte are the 7 key bits of the group *)
Lemma group_high7 b1 b2 b3 b4 b5 b6 b7 :
  map high7 (expand7 [b1; b2; b3; b4; b5; b6; b7]) = [[b1; b2; b3; b4; b5; b6; b7]].
Proof. destruct b1, b2, b3, b4, b5, b6, b7; vm_compute; reflexivity. Qed.

(* (3) factoring: both sides consume 7 bits at a time *)
Lemma expand7_cons7 b1 b2 b3 b4 b5 b6 b7 r :
  expand7 (b1 :: b2 :: b3 :: b4 :: b5 :: b6 :: b7 :: r) = expand7 [b1; b2; b3; b4; b5; b6; b7] ++ expand7 r.
Proof. reflexivity. Qed.

Lemma list_ind7 {A} (P : list A -> Prop) :
  (forall l, (length l < 7)%nat -> P l) ->
  (forall b1 b2 b3 b4 b5 b6 b7 r, P r -> P (b1 :: b2 :: b3 :: b4 :: b5 :: b6 :: b7 :: r)) ->
  forall l, P l.
Proof.
  intros Hs Hc l.
  assert (H : forall n l, (length l <= n)%nat -> P l).
  { induction n as [|n IH]; intros l0 Hl.
    - apply Hs. lia.
    - destruct l0 as [|b1 [|b2 [|b3 [|b4 [|b5 [|b6 [|b7 r]]]]]]]; try (apply Hs; cbn [length]; lia).
      apply Hc. apply IH. cbn [length] in Hl. lia. }
  apply (H (length l)). lia.
Qed.

Lemma pa_chunks_short (l : list N) : (length l < 7)%nat -> pa_chunks l = [].
Proof.
  intros H. destruct l as [|b1 [|b2 [|b3 [|b4 [|b5 [|b6 [|b7 r]]]]]]]; try reflexivity.
  cbn [length] in H. lia.
Qed.

Lemma expand7_short (l : list bool) : (length l < 7)%nat -> expand7 l = [].
Proof.
  intros H. destruct l as [|b1 [|b2 [|b3 [|b4 [|b5 [|b6 [|b7 r]]]]]]]; try reflexivity.
  cbn [length] in H. lia.
Qed.

Lemma pa_chunks_spec bs : pa_chunks (map bN bs) = expand7 bs.
Proof.
  induction bs as [l Hl | b1 b2 b3 b4 b5 b6 b7 r IH] using list_ind7.
  - rewrite pa_chunks_short by (rewrite map_length; exact Hl). now rewrite expand7_short.
  - rewrite expand7_cons7, <- group_byte_spec, <- IH. reflexivity.
Qed.

(* (4) keyBits[:len-len%7] *)
Lemma pa_chunks_cut (l : list N) :
  pa_chunks (firstn (length l - Nat.modulo (length l) 7) l) = pa_chunks l.
Proof.
  induction l as [l Hl | b1 b2 b3 b4 b5 b6 b7 r IH] using list_ind7.
  - rewrite Nat.mod_small by exact Hl. rewrite Nat.sub_diag. cbn [firstn].
    now rewrite (pa_chunks_short l Hl).
  - assert (E : (length (b1 :: b2 :: b3 :: b4 :: b5 :: b6 :: b7 :: r)
                 - Nat.modulo (length (b1 :: b2 :: b3 :: b4 :: b5 :: b6 :: b7 :: r)) 7
                 = 7 + (length r - Nat.modulo (length r) 7))%nat).
    { cbn [length].
      replace (S (S (S (S (S (S (S (length r)))))))) with (length r + 1 * 7)%nat by lia.
      rewrite Nat.mod_add by lia.
      pose proof (Nat.mod_le (length r) 7). lia. }
    rewrite E. cbn [Nat.add firstn pa_chunks]. rewrite IH. reflexivity.
Qed.

(* ParityAdjust is the MS-NLMP key expansion — for every byte string, of every length *)
Theorem parity_adjust_spec k : parity_adjust k = str_to_key k.
Proof.
  unfold parity_adjust, str_to_key. rewrite pa_chunks_cut, key_bits_spec. apply pa_chunks_spec.
Qed.

Lemma expand7_odd_parity bs : forallb odd_parity (expand7 bs) = true.
Proof.
  induction bs as [l Hl | b1 b2 b3 b4 b5 b6 b7 r IH] using list_ind7.
  - now rewrite expand7_short.
  - rewrite expand7_cons7, forallb_app, group_odd_parity, IH. reflexivity.
Qed.

Lemma parity_adjust_odd k : forallb odd_parity (parity_adjust k) = true.
Proof. rewrite parity_adjust_spec. apply expand7_odd_parity. Qed.

Lemma parity_adjust_length k : length k = 7%nat -> length (parity_adjust k) = 8%nat.
Proof. intros H. rewrite parity_adjust_spec. now apply str_to_key_length. Qed.

(* the key bits are carried unchanged: byte g of the expansion has bits 7g..7g+6 of the key on top *)
Lemma expand7_high7 bs g :
  (7 * S g <= length bs)%nat ->
  high7 (nth g (expand7 bs) 0) = firstn 7 (skipn (7 * g) bs).
Proof.
  revert g. induction bs as [l Hl | b1 b2 b3 b4 b5 b6 b7 r IH] using list_ind7; intros g Hg.
  - lia.
  - rewrite expand7_cons7. destruct g as [|g].
    + pose proof (group_high7 b1 b2 b3 b4 b5 b6 b7) as Hh.
      destruct (expand7 [b1; b2; b3; b4; b5; b6; b7]) as [|x [|y t]]; try discriminate Hh.
      assert (Hx : high7 x = [b1; b2; b3; b4; b5; b6; b7]) by (cbn [map] in Hh; congruence).
      cbn [app nth]. rewrite Hx. reflexivity.
    + pose proof (group_high7 b1 b2 b3 b4 b5 b6 b7) as Hh.
      destruct (expand7 [b1; b2; b3; b4; b5; b6; b7]) as [|x [|y t]]; try discriminate Hh.
      cbn [app nth]. rewrite IH by (cbn [length] in Hg; lia).
      replace (7 * S g)%nat with (7 + 7 * g)%nat by lia. reflexivity.
Qed.

Theorem parity_adjust_groups k7 g :
  length k7 = 7%nat -> (g < 8)%nat ->
  high7 (nth g (parity_adjust k7) 0) = key_group k7 g.
Proof.
  intros Hk Hg. rewrite parity_adjust_spec. unfold str_to_key, key_group.
  apply expand7_high7.
  assert (length (bytes_to_bits k7) = 56%nat).
  { destruct k7 as [|a [|b [|c [|d [|e [|f [|h [|i r]]]]]]]]; try discriminate Hk. reflexivity. }
  lia.
Qed.

(* ParityBit on byte values: 1 exactly when the number of set bits is even *)
Lemma parity_bit_byte b : b < 256 -> parity_bit b = bN (negb (odd_parity b)).
Proof.
  intros Hb.
  pose proof (byte_sweep (fun b => parity_bit b =? bN (negb (odd_parity b)))) as H.
  cbv beta in H. specialize (H ltac:(vm_compute; reflexivity) b Hb). lia.
Qed.

(* ParityBit in general: the parity bit flips once per set bit *)
Lemma parity_pos_spec p acc : acc < 2 ->
  parity_pos p acc = if Nat.even (pos_ones p) then acc else N.lxor acc 1.
Proof.
  revert acc. induction p as [q IH|q IH|]; intros acc Ha; cbn [parity_pos pos_ones].
  - rewrite IH by (assert (acc = 0 \/ acc = 1) as [-> | ->] by lia; cbn; lia).
    rewrite Nat.even_succ, <- Nat.negb_even. destruct (Nat.even (pos_ones q)); cbn [negb]; [reflexivity|].
    assert (acc = 0 \/ acc = 1) as [-> | ->] by lia; reflexivity.
  - now apply IH.
  - reflexivity.
Qed.

Theorem parity_bit_spec n : parity_bit n = if Nat.even (count_ones n) then 1 else 0.
Proof.
  destruct n as [|p]; [reflexivity|]. unfold parity_bit, count_ones.
  rewrite parity_pos_spec by lia. destruct (Nat.even (pos_ones p)); reflexivity.
Qed.
