(* C01: the text layer — Go's []rune(s) on valid UTF-8, Manticore's EncodeUTF16LE / DecodeUTF16LE against
   RFC 2781, strings.ToLower / ToUpper on the strings the theorems quantify over. *)
From Coq Require Import List NArith Lia Bool.
From Coq Require Import ZifyN ZifyNat ZifyBool.
From Mant Require Import Prim.R Prim.Bytes Prim.Dec Algo.Utf16 Algo.Utf8 Model.C01Text Proofs.AlgoProofs.
Import ListNotations.
Open Scope N_scope.

(* ------------------------------------------------------------------ *)
(* []rune(s) on a valid UTF-8 string is its RFC 3629 decoding *)

Lemma go_runes_valid_len n : forall s cps, (length s <= n)%nat ->
  utf8_decode s = Some cps -> go_runes s = cps.
Proof.
  induction n as [|n IH]; intros s cps Hlen H.
  - destruct s; [cbn in H; now inversion H|cbn in Hlen; lia].
  - destruct s as [|b0 r]; [cbn in H; now inversion H|].
    cbn [length] in Hlen.
    cbn [utf8_decode] in H. cbn [go_runes].
    destruct (b0 <? 128).
    { destruct (utf8_decode r) as [c|] eqn:E; [|discriminate H]. cbn in H. inversion H. subst cps.
      f_equal. apply IH; [lia|exact E]. }
    destruct (in_range 194 223 b0).
    { destruct r as [|b1 r1]; [discriminate H|].
      destruct (utf8_tail b1); [|discriminate H].
      destruct (utf8_decode r1) as [c|] eqn:E; [|discriminate H]. cbn in H. inversion H. subst cps.
      f_equal. apply IH; [cbn [length] in Hlen; lia|exact E]. }
    destruct (in_range 224 239 b0).
    { destruct r as [|b1 [|b2 r2]]; try discriminate H.
      destruct (in_range _ _ b1 && utf8_tail b2); [|discriminate H].
      destruct (utf8_decode r2) as [c|] eqn:E; [|discriminate H]. cbn in H. inversion H. subst cps.
      f_equal. apply IH; [cbn [length] in Hlen; lia|exact E]. }
    destruct (in_range 240 244 b0); [|discriminate H].
    destruct r as [|b1 [|b2 [|b3 r3]]]; try discriminate H.
    destruct (in_range _ _ b1 && utf8_tail b2 && utf8_tail b3); [|discriminate H].
    destruct (utf8_decode r3) as [c|] eqn:E; [|discriminate H]. cbn in H. inversion H. subst cps.
    f_equal. apply IH; [cbn [length] in Hlen; lia|exact E].
Qed.

Theorem go_runes_valid s cps : utf8_decode s = Some cps -> go_runes s = cps.
Proof. apply (go_runes_valid_len (length s)). apply le_n. Qed.

Corollary go_runes_utf8_encode cps : Forall scalar_value cps -> go_runes (utf8_encode cps) = cps.
Proof. intros H. apply go_runes_valid. apply utf8_decode_encode. exact H. Qed.

(* an all-ASCII string is its own list of code points *)
Lemma utf8_decode_ascii s : is_ascii_str s = true -> utf8_decode s = Some s.
Proof.
  induction s as [|b s IH]; intros H; [reflexivity|].
  cbn [is_ascii_str forallb] in H. apply andb_prop in H. destruct H as [Hb Hs].
  cbn [utf8_decode]. rewrite Hb, (IH Hs). reflexivity.
Qed.

Lemma go_runes_ascii s : is_ascii_str s = true -> go_runes s = s.
Proof. intros H. apply go_runes_valid. apply utf8_decode_ascii. exact H. Qed.

Lemma utf8_encode_ascii s : is_ascii_str s = true -> utf8_encode s = s.
Proof.
  induction s as [|b s IH]; intros H; [reflexivity|].
  cbn [is_ascii_str forallb] in H. apply andb_prop in H. destruct H as [Hb Hs].
  unfold utf8_encode in *. cbn [flat_map]. unfold utf8_encode_cp at 1. rewrite Hb. cbn [app].
  f_equal. apply IH. exact Hs.
Qed.

(* ------------------------------------------------------------------ *)
(* EncodeUTF16LE writes RFC 2781 code units low byte first *)

Lemma go_unit_bytes_le u : go_unit_bytes u = unit_le u.
Proof.
  unfold go_unit_bytes, unit_le, wrap8. rewrite N.shiftr_div_pow2. reflexivity.
Qed.

Theorem encode_utf16le_spec s : encode_utf16le s = utf16le_encode (go_runes s).
Proof.
  unfold encode_utf16le, utf16le_encode, units_to_le.
  induction (utf16_encode (go_runes s)) as [|u us IH]; [reflexivity|].
  cbn [flat_map]. rewrite go_unit_bytes_le, IH. reflexivity.
Qed.

Corollary encode_utf16le_valid s cps : utf8_decode s = Some cps ->
  encode_utf16le s = utf16le_encode cps.
Proof. intros H. rewrite encode_utf16le_spec, (go_runes_valid s cps H). reflexivity. Qed.

(* ------------------------------------------------------------------ *)
(* DecodeUTF16LE reads the same units back *)

Lemma lor_shift8 a b : a < 256 -> N.lor a (N.shiftl b 8) = a + 256 * b.
Proof.
  intros Ha.
  assert (Hd : N.land a (N.shiftl b 8) = 0).
  { apply N.bits_inj. intro n. rewrite N.land_spec, N.bits_0.
    destruct (N.lt_ge_cases n 8) as [Hn|Hn].
    - rewrite N.shiftl_spec_low by exact Hn. apply andb_false_r.
    - replace (N.testbit a n) with false; [reflexivity|].
      symmetry. rewrite <- (N.mod_small a (2 ^ 8)) by exact Ha.
      apply N.mod_pow2_bits_high. exact Hn. }
  rewrite <- N.lxor_lor by exact Hd. rewrite <- N.add_nocarry_lxor by exact Hd.
  rewrite N.shiftl_mul_pow2. change (2 ^ 8) with 256. lia.
Qed.

Lemma go_units_le_spec b : wf_bytes b -> go_units_le b = units_of_le b.
Proof.
  revert b. fix IH 1. intros [|b0 [|b1 r]] H; try reflexivity.
  cbn [go_units_le units_of_le].
  inversion H as [|? ? H0 H']; subst. inversion H' as [|? ? H1 H'']; subst.
  rewrite lor_shift8 by exact H0. f_equal. apply IH. exact H''.
Qed.

Theorem decode_encode_utf16le cps : Forall scalar_value cps ->
  decode_utf16le (utf16le_encode cps) = Ok (utf8_encode cps).
Proof.
  intros H. unfold decode_utf16le.
  rewrite go_units_le_spec by apply utf16le_encode_wf.
  change (utf16_decode (units_of_le (utf16le_encode cps))) with (utf16le_decode (utf16le_encode cps)).
  rewrite utf16le_decode_encode by exact H. reflexivity.
Qed.

(* the round trip on the Go string: DecodeUTF16LE(EncodeUTF16LE(s)) = s for every valid UTF-8 string s,
   given as the encoding of its scalar values *)
Theorem utf16le_roundtrip cps : Forall scalar_value cps ->
  encode_utf16le (utf8_encode cps) = utf16le_encode cps /\
  decode_utf16le (encode_utf16le (utf8_encode cps)) = Ok (utf8_encode cps).
Proof.
  intros H.
  assert (E : encode_utf16le (utf8_encode cps) = utf16le_encode cps).
  { apply encode_utf16le_valid. apply utf8_decode_encode. exact H. }
  split; [exact E|]. rewrite E. apply decode_encode_utf16le. exact H.
Qed.

Theorem decode_utf16le_total b : decode_utf16le b <> Panic.
Proof. discriminate. Qed.

(* the unrepaired loop panicked on the one-byte input 0x3d (and on every odd length) *)
Lemma decode_utf16le_unrepaired_panics : decode_utf16le_unrepaired [0x3d] = Panic.
Proof. reflexivity. Qed.

(* ------------------------------------------------------------------ *)
(* strings.ToLower / ToUpper on the strings of the theorems *)

Section CaseMap.
  Variable lower_cp : N -> N.
  Hypothesis lower_ascii : forall c, c < 128 -> lower_cp c = to_lower c.
  Hypothesis lower_scalar : forall c, scalar_value c -> scalar_value (lower_cp c).

  Lemma to_lower_ascii_lt c : c < 128 -> to_lower c < 128.
  Proof.
    intros H. unfold to_lower.
    destruct ((65 <=? c) && (c <=? 90)) eqn:E; lia.
  Qed.

  Lemma map_lower_ascii s : is_ascii_str s = true ->
    map to_lower s = map lower_cp s /\ is_ascii_str (map to_lower s) = true.
  Proof.
    induction s as [|b s IH]; intros H; [split; reflexivity|].
    cbn [is_ascii_str forallb] in H. apply andb_prop in H. destruct H as [Hb Hs].
    destruct (IH Hs) as [E A]. apply N.ltb_lt in Hb.
    cbn [map is_ascii_str forallb]. split.
    - rewrite lower_ascii by exact Hb. f_equal. exact E.
    - apply andb_true_intro. split; [apply N.ltb_lt, to_lower_ascii_lt; exact Hb|exact A].
  Qed.

  (* the runes of the lower-cased user name are the lower-cased runes, and the lower-cased string is their UTF-8 *)
  Theorem go_to_lower_spec cps : Forall scalar_value cps ->
    go_to_lower lower_cp (utf8_encode cps) = utf8_encode (map lower_cp cps) /\
    go_runes (go_to_lower lower_cp (utf8_encode cps)) = map lower_cp cps.
  Proof.
    intros H.
    assert (Hs : Forall scalar_value (map lower_cp cps)).
    { apply Forall_forall. intros c Hc. apply in_map_iff in Hc. destruct Hc as (c0 & <- & Hc0).
      apply lower_scalar. eapply Forall_forall; eassumption. }
    unfold go_to_lower. destruct (is_ascii_str (utf8_encode cps)) eqn:A.
    - assert (E : utf8_encode cps = cps).
      { pose proof (utf8_decode_ascii _ A) as D. rewrite utf8_decode_encode in D by exact H.
        injection D as D'. symmetry. exact D'. }
      rewrite E in *. destruct (map_lower_ascii cps A) as [M A'].
      rewrite <- M. split.
      + symmetry. apply utf8_encode_ascii. exact A'.
      + apply go_runes_ascii. exact A'.
    - rewrite (go_runes_utf8_encode cps H). split; [reflexivity|].
      apply go_runes_utf8_encode. exact Hs.
  Qed.
End CaseMap.

(* strings.ToUpper on a 7-bit ASCII string is the byte map (whatever the rune mapping) *)
Lemma go_to_upper_ascii upper_cp s : Forall (fun b => b < 128) s ->
  go_to_upper upper_cp s = map to_upper s.
Proof.
  intros H. unfold go_to_upper.
  replace (is_ascii_str s) with true; [reflexivity|].
  symmetry. apply forallb_forall. intros x Hx. apply N.ltb_lt. eapply Forall_forall in H; eassumption.
Qed.
