(* SPNEGO: what the constructors emit is the DER framing of its content, and the extractor
   returns the wrapped token, for every token (induction-free: built on C08Der / C08Asn1Lemmas). *)
From Coq Require Import List Arith NArith ZArith Lia Bool.
From Coq Require Import ZifyN ZifyNat ZifyBool.
From Mant Require Import Prim.R Prim.Bytes Prim.Der Model.C08Asn1 Model.Spnego Gen.ConstsC08
  Proofs.C08Der Proofs.C08Asn1Lemmas.
Import ListNotations.
Open Scope N_scope.

Definition spnego_oid_content : list N := [43; 6; 1; 5; 5; 2].
Definition ntlm_oid_content : list N := [43; 6; 1; 4; 1; 130; 55; 2; 2; 10].
Definition spnego_oid_der : list N := tlv 6 spnego_oid_content.
Definition ntlm_oid_der : list N := tlv 6 ntlm_oid_content.

Lemma marshal_spnego_oid : marshal_oid c08_spnego_oid = Some spnego_oid_der.
Proof. vm_compute. reflexivity. Qed.
Lemma marshal_ntlm_oid : marshal_oid ntlm_oid = Some ntlm_oid_der.
Proof. vm_compute. reflexivity. Qed.

Lemma lenN_der_len n : n < 2 ^ 31 -> lenN (der_len n) <= 5.
Proof.
  intros H. unfold der_len. destruct (N.ltb_spec n 128); [cbn; lia|].
  rewrite lenN_cons. assert ((length (be_digits n) <= 4)%nat).
  { apply be_digits_length. change (256 ^ N.of_nat 4) with (2 * 2 ^ 31). lia. }
  unfold lenN. lia.
Qed.

Lemma lenN_tlv b c : lenN c < 2 ^ 31 -> lenN c < lenN (tlv b c) <= lenN c + 6.
Proof.
  intros H. unfold tlv. rewrite lenN_cons, lenN_app. pose proof (lenN_der_len _ H). lia.
Qed.

(* The hand-written GSS-API framing is the DER TLV [APPLICATION 0] of the content. *)
Lemma gss_wrap_tlv o body : lenN o + lenN body < 2 ^ 63 ->
  gss_wrap o body = tlv 96 (o ++ body).
Proof.
  intros H. unfold gss_wrap, tlv. rewrite gss_header_len_der by exact H.
  rewrite lenN_app. reflexivity.
Qed.

Lemma land_long k : 0 < k < 128 -> N.land (128 + k) 128 <> 0 /\ N.land (128 + k) 127 = k.
Proof.
  intros H.
  assert (E : forallb (fun k => negb (N.land (128 + k) 128 =? 0) && (N.land (128 + k) 127 =? k))
                (map N.of_nat (seq 0 128)) = true) by (vm_compute; reflexivity).
  rewrite forallb_forall in E. specialize (E k).
  assert (In k (map N.of_nat (seq 0 128))).
  { apply in_map_iff. exists (N.to_nat k). split; [lia|]. apply in_seq. lia. }
  apply E in H0. apply andb_true_iff in H0. destruct H0 as [H1 H2].
  split; [|now apply N.eqb_eq]. intros C. rewrite C in H1. discriminate.
Qed.

Lemma land_short n : n < 128 -> N.land n 128 = 0.
Proof.
  intros H.
  assert (E : forallb (fun k => N.land k 128 =? 0) (map N.of_nat (seq 0 128)) = true) by (vm_compute; reflexivity).
  rewrite forallb_forall in E. apply N.eqb_eq, E.
  apply in_map_iff. exists (N.to_nat n). split; [lia|]. apply in_seq. lia.
Qed.

Lemma go_index_0 {A} (x : A) l : go_index (x :: l) 0 = Ok x.
Proof. unfold go_index. rewrite lenN_cons. destruct (N.ltb_spec 0 (1 + lenN l)); [reflexivity|lia]. Qed.
Lemma go_index_1 {A} (x y : A) l : go_index (x :: y :: l) 1 = Ok y.
Proof. unfold go_index. rewrite !lenN_cons. destruct (N.ltb_spec 1 (1 + (1 + lenN l))); [reflexivity|lia]. Qed.

(* Skipping the header of a DER-framed token yields its content. *)
Lemma skip_gss_header_tlv x : lenN x < 2 ^ 31 -> skip_gss_header (tlv 96 x) = Ok x.
Proof.
  intros Hx. unfold skip_gss_header, tlv, der_len.
  destruct (N.ltb_spec (lenN x) 128) as [Hs|Hl].
  - cbn [app]. rewrite !lenN_cons. destruct (N.ltb_spec (1 + (1 + lenN x)) 2); [lia|].
    rewrite go_index_0. cbn [bind]. change (96 =? c08_gss_api_spnego) with true. cbn [negb].
    rewrite go_index_1. cbn [bind]. rewrite land_short by exact Hs. cbn [N.eqb negb].
    destruct (N.ltb_spec (1 + (1 + lenN x)) 2); [lia|].
    unfold go_from. rewrite !lenN_cons. destruct (N.leb_spec 2 (1 + (1 + lenN x))); [|lia]. reflexivity.
  - cbn [app].
    assert (Hk : (length (be_digits (lenN x)) <= 4)%nat).
    { apply be_digits_length. change (256 ^ N.of_nat 4) with (2 * 2 ^ 31). lia. }
    pose proof (be_digits_nonempty (lenN x) ltac:(lia)) as Hne.
    set (ds := be_digits (lenN x)) in *.
    rewrite !lenN_cons, lenN_app.
    destruct (N.ltb_spec (1 + (1 + (lenN ds + lenN x))) 2); [lia|].
    rewrite go_index_0. cbn [bind]. change (96 =? c08_gss_api_spnego) with true. cbn [negb].
    rewrite go_index_1. cbn [bind].
    destruct (land_long (lenN ds)) as [L1 L2]; [unfold lenN; lia|].
    destruct (N.eqb_spec (N.land (128 + lenN ds) 128) 0); [contradiction|]. cbn [negb]. rewrite L2.
    destruct (N.ltb_spec (1 + (1 + (lenN ds + lenN x))) (2 + lenN ds)); [lia|].
    unfold go_from. rewrite !lenN_cons, lenN_app.
    destruct (N.leb_spec (2 + lenN ds) (1 + (1 + (lenN ds + lenN x)))); [|lia].
    replace (N.to_nat (2 + lenN ds)) with (S (S (length ds))) by (unfold lenN; lia).
    cbn [skipn]. rewrite skipn_app, skipn_all, Nat.sub_diag. reflexivity.
Qed.

Lemma unmarshal_oid_spnego rest :
  unmarshal_oid (spnego_oid_der ++ rest) = Some ([1; 3; 6; 1; 5; 5; 2], rest).
Proof.
  unfold unmarshal_oid, spnego_oid_der.
  apply parse_field_plain_hit; try reflexivity; try (vm_compute; congruence).
Qed.

Definition tok_field (t : list N) : list N := tlv 162 (tlv 4 t).

(* ---- NegTokenInit ---- *)
Definition init_body (t : list N) : list N := tlv 48 (tlv 160 (tlv 48 ntlm_oid_der) ++ tok_field t).

Lemma neg_token_init_content_spec t : lenN t + 16 < 2 ^ 31 ->
  neg_token_init_content (tlv 160 (tlv 48 ntlm_oid_der) ++ tok_field t)
  = Some {| nti_mech_types := [ntlm_oid]; nti_req_flags := (0, []); nti_mech_token := Some t; nti_mic := None |}.
Proof.
  intros Ht. unfold neg_token_init_content.
  pose proof (lenN_tlv 4 t ltac:(lia)) as L4.
  pose proof (parse_field_explicit_hit false 16 true seqof_oid_content [] 0 48 ntlm_oid_der (tok_field t) [ntlm_oid]) as E0.
  change (160 + 0) with 160 in E0. rewrite E0; try reflexivity; try (vm_compute; congruence). clear E0.
  unfold tok_field.
  rewrite <- (app_nil_r (tlv 162 (tlv 4 t))).
  pose proof (parse_field_explicit_other true 3 false bitstring_content (0, []) 1 2 (tlv 4 t) []) as E1.
  change (160 + 2) with 162 in E1. rewrite E1; try lia; try (unfold tlv; discriminate). clear E1.
  unfold miss.
  pose proof (parse_field_explicit_hit true 4 false octets_field None 2 4 t [] (Some t)) as E2.
  change (160 + 2) with 162 in E2. rewrite E2; try reflexivity; try lia; try (vm_compute; congruence).
Qed.

Lemma unmarshal_init_body t : lenN t + 64 < 2 ^ 31 ->
  unmarshal_neg_token_init (init_body t)
  = Some {| nti_mech_types := [ntlm_oid]; nti_req_flags := (0, []); nti_mech_token := Some t; nti_mic := None |}.
Proof.
  intros Ht. unfold unmarshal_neg_token_init, init_body.
  rewrite <- (app_nil_r (tlv 48 _)).
  pose proof (lenN_tlv 4 t ltac:(lia)) as L4.
  pose proof (lenN_tlv 162 (tlv 4 t) ltac:(lia)) as L162.
  rewrite (parse_field_plain_hit false 16 true neg_token_init_content nti_zero 48
             (tlv 160 (tlv 48 ntlm_oid_der) ++ tok_field t) []
             {| nti_mech_types := [ntlm_oid]; nti_req_flags := (0, []); nti_mech_token := Some t; nti_mic := None |}).
  - reflexivity.
  - vm_compute; congruence.
  - reflexivity.
  - reflexivity.
  - reflexivity.
  - rewrite lenN_app. unfold tok_field. change (lenN (tlv 160 (tlv 48 ntlm_oid_der))) with 16. lia.
  - apply neg_token_init_content_spec. lia.
Qed.

Lemma lenN_init_body t : lenN t + 64 < 2 ^ 31 -> lenN (init_body t) <= lenN t + 34.
Proof.
  intros Ht. unfold init_body, tok_field.
  pose proof (lenN_tlv 4 t ltac:(lia)) as L4.
  pose proof (lenN_tlv 162 (tlv 4 t) ltac:(lia)) as L162.
  assert (L : lenN (tlv 160 (tlv 48 ntlm_oid_der) ++ tlv 162 (tlv 4 t)) <= lenN t + 28).
  { rewrite lenN_app. change (lenN (tlv 160 (tlv 48 ntlm_oid_der))) with 16. lia. }
  assert (L' : lenN (tlv 160 (tlv 48 ntlm_oid_der) ++ tlv 162 (tlv 4 t)) < 2 ^ 31) by lia.
  pose proof (lenN_tlv 48 _ L'). lia.
Qed.

Theorem create_init_shape t : lenN t + 64 < 2 ^ 31 ->
  create_neg_token_init (Some t) = Ok (tlv 96 (spnego_oid_der ++ init_body t)).
Proof.
  intros Ht. unfold create_neg_token_init, marshal_neg_token_init.
  rewrite marshal_ntlm_oid, marshal_spnego_oid.
  rewrite gss_wrap_tlv; [reflexivity|].
  pose proof (lenN_init_body t Ht). change (lenN spnego_oid_der) with 8.
  change (2 ^ 63) with (4294967296 * 2 ^ 31). fold (tok_field t). fold (init_body t). lia.
Qed.

Theorem extract_wrap_init t : lenN t + 64 < 2 ^ 31 ->
  exists w, create_neg_token_init (Some t) = Ok w /\ extract_ntlm_token w = Ok t.
Proof.
  intros Ht. eexists. split; [apply create_init_shape; exact Ht|].
  unfold extract_ntlm_token.
  pose proof (lenN_init_body t Ht).
  rewrite skip_gss_header_tlv by (rewrite lenN_app; change (lenN spnego_oid_der) with 8; lia).
  cbn [bind]. rewrite unmarshal_oid_spnego. rewrite unmarshal_init_body by exact Ht. reflexivity.
Qed.

(* ---- NegTokenResp ---- *)
Definition state_field (state : Z) : list N :=
  if (state =? 0)%Z then [] else tlv 160 (tlv 10 (int_marshal_content state)).
Definition mech_field (oc : option (list N)) : list N :=
  match oc with None => [] | Some c => tlv 161 (tlv 6 c) end.
Definition resp_body (state : Z) (oc : option (list N)) (t : list N) : list N :=
  tlv 48 (state_field state ++ mech_field oc ++ tok_field t).

(* The NegState values RFC 4178 defines. *)
Definition neg_state (z : Z) : Prop := (z = 0 \/ z = 1 \/ z = 2 \/ z = 3)%Z.

(* [mech] is absent, or an identifier whose DER content octets are [c] and decode back to it. *)
Definition mech_coded (mech : list N) (oc : option (list N)) : Prop :=
  match oc with
  | None => mech = []
  | Some c => mech <> [] /\ oid_marshal_content mech = Some c /\ oid_content c = Some mech /\ lenN c < 1000
  end.

Lemma state_field_cases state : neg_state state ->
  (state = 0%Z /\ state_field state = []) \/
  (state <> 0%Z /\ state_field state = tlv 160 (tlv 10 [Z.to_N state]) /\ int32_content [Z.to_N state] = Some state).
Proof.
  intros [ -> | [ -> | [ -> | -> ] ] ]; [left; split; reflexivity| right | right | right]; (split; [discriminate|split; reflexivity]).
Qed.

Lemma marshal_resp_shape state mech oc t : mech_coded mech oc ->
  marshal_neg_token_resp state mech (Some t) = Some (resp_body state oc t).
Proof.
  intros Hm. unfold marshal_neg_token_resp, resp_body, state_field, mech_field, tok_field.
  destruct oc as [c|]; cbn [mech_coded] in Hm.
  - destruct Hm as (Hne & E1 & _ & _). destruct mech as [|a mech]; [contradiction|].
    unfold marshal_oid. rewrite E1. reflexivity.
  - subst mech. reflexivity.
Qed.

Lemma lenN_tok_field t : lenN t + 16 < 2 ^ 31 -> lenN t < lenN (tok_field t) <= lenN t + 12.
Proof.
  intros H. unfold tok_field. pose proof (lenN_tlv 4 t ltac:(lia)).
  pose proof (lenN_tlv 162 (tlv 4 t) ltac:(lia)). lia.
Qed.

Lemma tok_field_hit t : lenN t + 16 < 2 ^ 31 ->
  parse_field (Some 2) true 4 false octets_field None (tok_field t) = Some (Some t, []).
Proof.
  intros Ht. unfold tok_field. rewrite <- (app_nil_r (tlv 162 (tlv 4 t))).
  pose proof (lenN_tlv 4 t ltac:(lia)) as L4.
  pose proof (parse_field_explicit_hit true 4 false octets_field None 2 4 t [] (Some t)) as E2.
  change (160 + 2) with 162 in E2. apply E2; try reflexivity; try lia; try (vm_compute; congruence).
Qed.

Lemma tok_field_other {A} k utag ucomp (content : list N -> option A) dflt optional t :
  k < 31 -> k <> 2 -> lenN t + 16 < 2 ^ 31 ->
  parse_field (Some k) optional utag ucomp content dflt (tok_field t)
  = miss optional dflt (tok_field t).
Proof.
  intros Hk Hk2 Ht. unfold tok_field. rewrite <- (app_nil_r (tlv 162 (tlv 4 t))).
  pose proof (lenN_tlv 4 t ltac:(lia)) as L4.
  pose proof (parse_field_explicit_other optional utag ucomp content dflt k 2 (tlv 4 t) []) as E.
  change (160 + 2) with 162 in E. apply E; try lia. unfold tlv. discriminate.
Qed.

Lemma mech_field_other {A} k utag ucomp (content : list N -> option A) dflt optional c rest :
  k < 31 -> k <> 1 -> lenN c < 1000 ->
  parse_field (Some k) optional utag ucomp content dflt (tlv 161 (tlv 6 c) ++ rest)
  = miss optional dflt (tlv 161 (tlv 6 c) ++ rest).
Proof.
  intros Hk Hk1 Hc.
  pose proof (lenN_tlv 6 c ltac:(lia)) as L6.
  pose proof (parse_field_explicit_other optional utag ucomp content dflt k 1 (tlv 6 c) rest) as E.
  change (160 + 1) with 161 in E. apply E; try lia. unfold tlv. discriminate.
Qed.

Lemma resp_content_spec state mech oc t :
  neg_state state -> mech_coded mech oc -> lenN t + 16 < 2 ^ 31 ->
  neg_token_resp_content (state_field state ++ mech_field oc ++ tok_field t)
  = Some {| ntr_state := state; ntr_mech := mech; ntr_token := Some t; ntr_mic := None |}.
Proof.
  intros Hs Hm Ht. unfold neg_token_resp_content.
  (* field 0 *)
  assert (F0 : parse_field (Some 0) true 10 false int32_content 0%Z (state_field state ++ mech_field oc ++ tok_field t)
               = Some (state, mech_field oc ++ tok_field t)).
  { destruct (state_field_cases state Hs) as [[-> E]|(Hnz & E & Hi)]; rewrite E.
    - cbn [app]. destruct oc as [c|]; cbn [mech_field mech_coded] in *.
      + destruct Hm as (_ & _ & _ & Hc). rewrite mech_field_other by lia. reflexivity.
      + cbn [app]. rewrite tok_field_other by lia. reflexivity.
    - pose proof (parse_field_explicit_hit true 10 false int32_content 0%Z 0 10 [Z.to_N state]
                    (mech_field oc ++ tok_field t) state) as E0.
      change (160 + 0) with 160 in E0.
      apply E0; [lia|vm_compute; congruence|reflexivity|reflexivity|reflexivity| |exact Hi].
      destruct Hs as [ -> | [ -> | [ -> | -> ] ] ]; vm_compute; reflexivity. }
  rewrite F0.
  (* field 1 *)
  assert (F1 : parse_field (Some 1) true 6 false oid_content [] (mech_field oc ++ tok_field t)
               = Some (mech, tok_field t)).
  { destruct oc as [c|]; cbn [mech_field mech_coded] in *.
    - destruct Hm as (_ & _ & Hd & Hc).
      pose proof (lenN_tlv 6 c ltac:(lia)) as L6.
      pose proof (parse_field_explicit_hit true 6 false oid_content [] 1 6 c (tok_field t) mech) as E1.
      change (160 + 1) with 161 in E1.
      apply E1; [lia|vm_compute; congruence|reflexivity|reflexivity|reflexivity|lia|exact Hd].
    - subst mech. cbn [app]. rewrite tok_field_other by lia. reflexivity. }
  rewrite F1, tok_field_hit by exact Ht. reflexivity.
Qed.

(* The first parse attempt of ExtractNTLMToken (as a NegTokenInit) fails on a NegTokenResp. *)
Lemma init_content_on_resp state oc t mech :
  neg_state state -> mech_coded mech oc -> lenN t + 16 < 2 ^ 31 ->
  neg_token_init_content (state_field state ++ mech_field oc ++ tok_field t) = None.
Proof.
  intros Hs Hm Ht. unfold neg_token_init_content.
  assert (F0 : parse_field (Some 0) false 16 true seqof_oid_content [] (state_field state ++ mech_field oc ++ tok_field t) = None).
  { destruct (state_field_cases state Hs) as [[-> E]|(Hnz & E & Hi)]; rewrite E.
    - cbn [app]. destruct oc as [c|]; cbn [mech_field mech_coded] in *.
      + destruct Hm as (_ & _ & _ & Hc). rewrite mech_field_other by lia. reflexivity.
      + cbn [app]. rewrite tok_field_other by lia. reflexivity.
    - pose proof (parse_field_explicit_inner_mismatch false 16 true seqof_oid_content [] 0 10 [Z.to_N state]
                    (mech_field oc ++ tok_field t)) as E0.
      change (160 + 0) with 160 in E0.
      rewrite E0; [reflexivity|lia|vm_compute; congruence|right; left; vm_compute; congruence|].
      destruct Hs as [ -> | [ -> | [ -> | -> ] ] ]; vm_compute; reflexivity. }
  rewrite F0. reflexivity.
Qed.

Lemma lenN_resp_inner state oc t mech :
  neg_state state -> mech_coded mech oc -> lenN t + 16 < 2 ^ 31 ->
  lenN (state_field state ++ mech_field oc ++ tok_field t) <= lenN t + 1040.
Proof.
  intros Hs Hm Ht. rewrite !lenN_app. pose proof (lenN_tok_field t Ht).
  assert (lenN (state_field state) <= 5).
  { destruct Hs as [ -> | [ -> | [ -> | -> ] ] ]; vm_compute; congruence. }
  assert (lenN (mech_field oc) <= 1012).
  { destruct oc as [c|]; cbn [mech_field mech_coded] in *; [|cbn; lia].
    destruct Hm as (_ & _ & _ & Hc). pose proof (lenN_tlv 6 c ltac:(lia)).
    pose proof (lenN_tlv 161 (tlv 6 c) ltac:(lia)). lia. }
  lia.
Qed.

Theorem create_resp_shape state mech oc t :
  neg_state state -> mech_coded mech oc -> lenN t + 2048 < 2 ^ 31 ->
  create_neg_token_resp state mech (Some t) = Ok (tlv 96 (spnego_oid_der ++ resp_body state oc t)).
Proof.
  intros Hs Hm Ht. unfold create_neg_token_resp.
  rewrite (marshal_resp_shape state mech oc t Hm), marshal_spnego_oid.
  rewrite gss_wrap_tlv; [reflexivity|].
  pose proof (lenN_resp_inner state oc t mech Hs Hm ltac:(lia)) as L.
  unfold resp_body. assert (L' : lenN (state_field state ++ mech_field oc ++ tok_field t) < 2 ^ 31) by lia.
  pose proof (lenN_tlv 48 _ L').
  change (lenN spnego_oid_der) with 8. change (2 ^ 63) with (4294967296 * 2 ^ 31). lia.
Qed.

Theorem extract_wrap_resp state mech oc t :
  neg_state state -> mech_coded mech oc -> lenN t + 2048 < 2 ^ 31 ->
  exists w, create_neg_token_resp state mech (Some t) = Ok w /\ extract_ntlm_token w = Ok t /\
            parse_neg_token_resp w = Ok {| ntr_state := state; ntr_mech := mech; ntr_token := Some t; ntr_mic := None |}.
Proof.
  intros Hs Hm Ht. eexists. split; [apply (create_resp_shape state mech oc t); assumption|].
  pose proof (lenN_resp_inner state oc t mech Hs Hm ltac:(lia)) as L.
  assert (L' : lenN (state_field state ++ mech_field oc ++ tok_field t) < 2 ^ 31) by lia.
  pose proof (lenN_tlv 48 _ L') as L48.
  assert (Hskip : skip_gss_header (tlv 96 (spnego_oid_der ++ resp_body state oc t)) = Ok (spnego_oid_der ++ resp_body state oc t)).
  { apply skip_gss_header_tlv. rewrite lenN_app. change (lenN spnego_oid_der) with 8. unfold resp_body. lia. }
  assert (Hresp : unmarshal_neg_token_resp (resp_body state oc t)
                  = Some {| ntr_state := state; ntr_mech := mech; ntr_token := Some t; ntr_mic := None |}).
  { unfold unmarshal_neg_token_resp, resp_body. rewrite <- (app_nil_r (tlv 48 _)).
    rewrite (parse_field_plain_hit false 16 true neg_token_resp_content ntr_zero 48
               (state_field state ++ mech_field oc ++ tok_field t) []
               {| ntr_state := state; ntr_mech := mech; ntr_token := Some t; ntr_mic := None |});
      [reflexivity|vm_compute; congruence|reflexivity|reflexivity|reflexivity|lia|].
    apply resp_content_spec; try assumption. lia. }
  assert (Hinit : unmarshal_neg_token_init (resp_body state oc t) = None).
  { unfold unmarshal_neg_token_init, resp_body. rewrite <- (app_nil_r (tlv 48 _)).
    rewrite (parse_field_plain_content_none false 16 true neg_token_init_content nti_zero 48
               (state_field state ++ mech_field oc ++ tok_field t) []);
      [reflexivity|vm_compute; congruence|reflexivity|reflexivity|reflexivity|lia|].
    apply (init_content_on_resp state oc t mech); try assumption. lia. }
  split.
  - unfold extract_ntlm_token. rewrite Hskip. cbn [bind]. rewrite unmarshal_oid_spnego, Hinit.
    unfold extract_from_resp. rewrite Hresp. reflexivity.
  - unfold parse_neg_token_resp. rewrite Hskip. cbn [bind]. rewrite unmarshal_oid_spnego, Hresp. reflexivity.
Qed.

(* The mechanisms spnego.go names. *)
Definition kerberos_oid : list N := [1; 2; 840; 113554; 1; 2; 2].
Lemma mech_coded_nil : mech_coded [] None.
Proof. reflexivity. Qed.
Lemma mech_coded_ntlm : mech_coded ntlm_oid (Some ntlm_oid_content).
Proof. repeat split; try discriminate; vm_compute; congruence. Qed.
Lemma mech_coded_kerberos : mech_coded kerberos_oid (Some [42; 134; 72; 134; 247; 18; 1; 2; 2]).
Proof. repeat split; try discriminate; vm_compute; congruence. Qed.
Lemma mech_coded_spnego : mech_coded c08_spnego_oid (Some spnego_oid_content).
Proof. repeat split; try discriminate; vm_compute; congruence. Qed.

(* An absent token is reported absent (no token is invented). *)
Lemma extract_absent_init : exists w, create_neg_token_init None = Ok w /\ extract_ntlm_token w = Err.
Proof. eexists. split; [vm_compute; reflexivity|]. vm_compute. reflexivity. Qed.
