(* C06: generic lemmas — slices of concatenations, fixed layouts. *)
From Coq Require Import List Arith NArith Lia Bool.
From Coq Require Import ZifyN ZifyNat ZifyBool.
From Mant Require Import Prim.R Prim.Bytes Model.SmbTypes Spec.C06.
Import ListNotations.
Open Scope N_scope.

(* ---------------- slices of concatenations ---------------- *)

Lemma go_slice_at {A} (pre x post : list A) lo hi :
  lenN pre = lo -> lo + lenN x = hi -> go_slice (pre ++ x ++ post) lo hi = Ok x.
Proof. intros <- <-. apply go_slice_app_mid. Qed.

Lemma go_slice_at_end {A} (pre x : list A) lo hi :
  lenN pre = lo -> lo + lenN x = hi -> go_slice (pre ++ x) lo hi = Ok x.
Proof. intros H1 H2. rewrite <- (app_nil_r x) at 1. now apply go_slice_at. Qed.

Lemma go_from_at {A} (pre post : list A) lo : lenN pre = lo -> go_from (pre ++ post) lo = Ok post.
Proof. intros <-. apply go_from_app. Qed.

Lemma go_upto_app {A} (x post : list A) hi : lenN x = hi -> go_upto (x ++ post) hi = Ok x.
Proof.
  intros <-. unfold go_upto. rewrite lenN_app.
  destruct (N.leb_spec (lenN x) (lenN x + lenN post)); [|lia].
  unfold lenN. rewrite Nat2N.id, firstn_app, firstn_all, Nat.sub_diag. simpl. now rewrite app_nil_r.
Qed.

Lemma go_index_at {A} (pre : list A) x post i :
  lenN pre = i -> go_index (pre ++ x :: post) i = Ok x.
Proof.
  intros <-. unfold go_index. rewrite lenN_app, lenN_cons.
  destruct (N.ltb_spec (lenN pre) (lenN pre + (1 + lenN post))); [|lia].
  unfold lenN. rewrite Nat2N.id, nth_error_app2 by lia. now rewrite Nat.sub_diag.
Qed.

Lemma go_index_head {A} (x : A) l : go_index (x :: l) 0 = Ok x.
Proof. apply (go_index_at [] x l). reflexivity. Qed.

Lemma go_index_ok {A} (l : list A) i : i < lenN l -> exists x, go_index l i = Ok x.
Proof.
  intros H. unfold go_index. destruct (N.ltb_spec i (lenN l)); [|lia].
  destruct (nth_error l (N.to_nat i)) eqn:E; [eauto|].
  apply nth_error_None in E. unfold lenN in H. lia.
Qed.

Lemma go_from_ok {A} (l : list A) lo : lo <= lenN l -> go_from l lo = Ok (skipn (N.to_nat lo) l).
Proof. intros H. unfold go_from. destruct (N.leb_spec lo (lenN l)); [reflexivity|lia]. Qed.

Lemma go_upto_ok {A} (l : list A) hi : hi <= lenN l -> go_upto l hi = Ok (firstn (N.to_nat hi) l).
Proof. intros H. unfold go_upto. destruct (N.leb_spec hi (lenN l)); [reflexivity|lia]. Qed.

Lemma go_slice_ok_len {A} (l : list A) lo hi :
  lo <= hi -> hi <= lenN l -> exists s, go_slice l lo hi = Ok s /\ lenN s = hi - lo.
Proof.
  intros H1 H2. rewrite go_slice_ok by assumption. eexists. split; [reflexivity|].
  unfold lenN in *. rewrite firstn_length, skipn_length. lia.
Qed.

Lemma go_le_uint_ok w (s : list N) : (w <= length s)%nat -> exists v, go_le_uint w s = Ok v.
Proof. intros H. unfold go_le_uint. destruct (Nat.leb_spec w (length s)); [eauto|lia]. Qed.

Lemma go_be_uint_ok w (s : list N) : (w <= length s)%nat -> exists v, go_be_uint w s = Ok v.
Proof. intros H. unfold go_be_uint. destruct (Nat.leb_spec w (length s)); [eauto|lia]. Qed.

Lemma go_le_uint_exact w n : go_le_uint w (le_bytes w n) = Ok (n mod 2 ^ (8 * N.of_nat w)).
Proof. rewrite <- (app_nil_r (le_bytes w n)). apply go_le_uint_app. Qed.

Lemma go_be_uint_exact w n : go_be_uint w (be_bytes w n) = Ok (n mod 2 ^ (8 * N.of_nat w)).
Proof. rewrite <- (app_nil_r (be_bytes w n)). apply go_be_uint_app. Qed.

(* ---------------- fixed layouts ---------------- *)

Definition widths (fs : list fld) : N := fold_right (fun f a => N.of_nat (fst f) + a) 0 fs.

Lemma lenN_fld_bytes f v : lenN (fld_bytes f v) = N.of_nat (fst f).
Proof. unfold fld_bytes. destruct (snd f); [apply lenN_le_bytes | apply lenN_be_bytes]. Qed.

Lemma fld_read_bytes f v : fld_ok f v -> fld_read f (fld_bytes f v) = Ok v.
Proof.
  unfold fld_ok, fld_read, fld_bytes. intros H. destruct (snd f).
  - rewrite go_le_uint_exact. now rewrite N.mod_small.
  - rewrite go_be_uint_exact. now rewrite N.mod_small.
Qed.

Lemma lenN_put_fields fs vs : dom_layout fs vs -> lenN (put_fields fs vs) = widths fs.
Proof.
  induction 1 as [|f v fs vs Hv Hrest IH]; [reflexivity|].
  cbn [put_fields widths fold_right]. rewrite lenN_app, lenN_fld_bytes. fold (widths fs). now rewrite IH.
Qed.

Lemma get_put_fields fs vs : dom_layout fs vs -> forall pre suffix,
  get_fields fs (pre ++ put_fields fs vs ++ suffix) (lenN pre) = Ok vs.
Proof.
  induction 1 as [|f v fs vs Hv Hrest IH]; intros pre suffix; [reflexivity|].
  cbn [put_fields get_fields]. rewrite <- app_assoc.
  rewrite (go_slice_at pre (fld_bytes f v)); [|reflexivity|now rewrite lenN_fld_bytes].
  cbn [bind]. rewrite fld_read_bytes by exact Hv. cbn [bind].
  replace (pre ++ fld_bytes f v ++ put_fields fs vs ++ suffix)
    with ((pre ++ fld_bytes f v) ++ put_fields fs vs ++ suffix) by now rewrite <- app_assoc.
  replace (lenN pre + N.of_nat (fst f)) with (lenN (pre ++ fld_bytes f v))
    by now rewrite lenN_app, lenN_fld_bytes.
  rewrite IH. reflexivity.
Qed.

Lemma get_put_fields0 fs vs suffix : dom_layout fs vs ->
  get_fields fs (put_fields fs vs ++ suffix) 0 = Ok vs.
Proof. intros H. apply (get_put_fields fs vs H [] suffix). Qed.

Lemma get_fields_ok fs : forall data off,
  off + widths fs <= lenN data -> exists vs, get_fields fs data off = Ok vs.
Proof.
  induction fs as [|f fs IH]; intros data off H; [eexists; reflexivity|].
  cbn [widths fold_right] in H. fold (widths fs) in H. cbn [get_fields].
  destruct (go_slice_ok_len data off (off + N.of_nat (fst f))) as [s [Hs Hl]]; [lia|lia|].
  rewrite Hs. cbn [bind].
  assert (Hr : exists v, fld_read f s = Ok v).
  { unfold fld_read. destruct (snd f); [apply go_le_uint_ok | apply go_be_uint_ok]; unfold lenN in Hl; lia. }
  destruct Hr as [v Hv]. rewrite Hv. cbn [bind].
  destruct (IH data (off + N.of_nat (fst f))) as [vs Hvs]; [lia|]. rewrite Hvs. cbn [bind]. eauto.
Qed.

(* A decoder of the shape  if len < k then Err else get_fields ...  *)
Lemma layout_roundtrip fs k (dec : list N -> R (list N * N)) :
  widths fs = k ->
  (forall data, dec data = if lenN data <? k then Err else
                           let* vs := get_fields fs data 0 in Ok (vs, k)) ->
  roundtrip (dom_layout fs) (put_fields fs) dec.
Proof.
  intros Hk Hdec vs suffix Hdom. rewrite Hdec.
  rewrite lenN_app, (lenN_put_fields fs vs Hdom), Hk.
  destruct (N.ltb_spec (k + lenN suffix) k); [lia|].
  rewrite get_put_fields0 by exact Hdom. reflexivity.
Qed.

Lemma layout_total fs k (dec : list N -> R (list N * N)) :
  widths fs = k ->
  (forall data, dec data = if lenN data <? k then Err else
                           let* vs := get_fields fs data 0 in Ok (vs, k)) ->
  total dec.
Proof.
  intros Hk Hdec data. rewrite Hdec.
  destruct (N.ltb_spec (lenN data) k); [discriminate|].
  destruct (get_fields_ok fs data 0) as [vs Hvs]; [lia|]. rewrite Hvs. discriminate.
Qed.

(* Membership in the byte range, for exhaustive sweeps lifted by forallb_forall *)
Definition bytes256 : list N := map N.of_nat (seq 0 256).

Lemma in_bytes256 b : b < 256 -> In b bytes256.
Proof.
  intros H. unfold bytes256. rewrite <- (N2Nat.id b). apply in_map. apply in_seq. lia.
Qed.

Lemma sweep2 (P : N -> N -> bool) :
  forallb (fun b0 => forallb (fun b1 => P b0 b1) bytes256) bytes256 = true ->
  forall b0 b1, b0 < 256 -> b1 < 256 -> P b0 b1 = true.
Proof.
  intros H b0 b1 H0 H1. rewrite forallb_forall in H. specialize (H b0 (in_bytes256 b0 H0)).
  rewrite forallb_forall in H. exact (H b1 (in_bytes256 b1 H1)).
Qed.
