(* C17: the value-level name-table model refines the abstract atomic map, for every history. *)
From Coq Require Import List Arith NArith ZArith Lia Bool.
From Coq Require Import ZifyN ZifyNat ZifyBool.
From Mant Require Import Prim.Bytes Model.NameTable Spec.C17.
Import ListNotations.

(* ------------------------------------------------------------------ byte-string equality *)

Lemma bytes_eqb_refl a : bytes_eqb a a = true.
Proof. now apply bytes_eqb_spec. Qed.

Lemma bytes_eqb_false a b : bytes_eqb a b = false <-> a <> b.
Proof.
  split.
  - intros H E. apply bytes_eqb_spec in E. congruence.
  - intros H. destruct (bytes_eqb a b) eqn:E; [|reflexivity]. apply bytes_eqb_spec in E. contradiction.
Qed.

Lemma bytes_eqb_sym a b : bytes_eqb a b = bytes_eqb b a.
Proof.
  destruct (bytes_eqb a b) eqn:E1, (bytes_eqb b a) eqn:E2; try reflexivity.
  - apply bytes_eqb_spec in E1. subst. rewrite bytes_eqb_refl in E2. discriminate.
  - apply bytes_eqb_spec in E2. subst. rewrite bytes_eqb_refl in E1. discriminate.
Qed.

Ltac beq k n H :=
  destruct (bytes_eqb k n) eqn:H; [apply bytes_eqb_spec in H | apply bytes_eqb_false in H].

(* ------------------------------------------------------------------ net.IP.Equal is equality of canonical forms *)

Lemma ip_equal_iff a b : ip_equal a b = true <-> canon a = canon b.
Proof.
  unfold ip_equal, canon. fold v4in6.
  destruct (Nat.eqb_spec (length a) (length b)) as [Hl|Hl].
  - rewrite bytes_eqb_spec. destruct (Nat.eqb_spec (length a) 4) as [H4|H4].
    + rewrite <- Hl, H4. cbn [Nat.eqb]. split; [congruence|]. intros H. now apply app_inv_head in H.
    + destruct (Nat.eqb_spec (length b) 4) as [H4'|H4']; [lia|]. tauto.
  - destruct (Nat.eqb_spec (length a) 4) as [Ha4|Ha4].
    + destruct (Nat.eqb_spec (length b) 4) as [Hb4|Hb4]; [lia|].
      destruct (Nat.eqb_spec (length b) 16) as [Hb16|Hb16]; cbn [andb].
      * rewrite andb_true_iff, !bytes_eqb_spec. split.
        -- intros [H1 H2]. rewrite <- H1, H2. apply firstn_skipn.
        -- intros H. subst b. change 12%nat with (length v4in6).
           rewrite firstn_app, Nat.sub_diag, firstn_all, firstn_O, app_nil_r.
           rewrite skipn_app, Nat.sub_diag, skipn_all, skipn_O. auto.
      * destruct (Nat.eqb (length a) 16); cbn [andb]; split; try discriminate;
          intros H; apply (f_equal (@length N)) in H; rewrite app_length in H; change (length v4in6) with 12%nat in H; lia.
    + cbn [andb]. destruct (Nat.eqb_spec (length b) 4) as [Hb4|Hb4].
      * destruct (Nat.eqb_spec (length a) 16) as [Ha16|Ha16]; cbn [andb].
        -- rewrite andb_true_iff, !bytes_eqb_spec. split.
           ++ intros [H1 H2]. rewrite <- H1, <- H2. symmetry. apply firstn_skipn.
           ++ intros H. subst a. change 12%nat with (length v4in6).
              rewrite firstn_app, Nat.sub_diag, firstn_all, firstn_O, app_nil_r.
              rewrite skipn_app, Nat.sub_diag, skipn_all, skipn_O. auto.
        -- split; try discriminate.
           intros H; apply (f_equal (@length N)) in H; rewrite app_length in H; change (length v4in6) with 12%nat in H; lia.
      * rewrite andb_false_r. split; try discriminate. intros H. subst. contradiction.
Qed.

Lemma ip_equal_canon a b : ip_equal a b = addr_eqb (canon a) (canon b).
Proof.
  apply eq_iff_eq_true. unfold addr_eqb. rewrite bytes_eqb_spec. apply ip_equal_iff.
Qed.

Lemma ip_equal_refl a : ip_equal a a = true.
Proof. now apply ip_equal_iff. Qed.

Lemma ip_equal_sym a b : ip_equal a b = ip_equal b a.
Proof. rewrite !ip_equal_canon. apply bytes_eqb_sym. Qed.

Lemma has_owner_canon a l : has_owner a l = set_mem (canon a) (map canon l).
Proof.
  unfold has_owner, set_mem. induction l as [|b l IH]; [reflexivity|].
  cbn [existsb map]. rewrite IH, ip_equal_canon. unfold addr_eqb. now rewrite bytes_eqb_sym.
Qed.

Lemma set_mem_In a s : set_mem a s = true <-> In a s.
Proof.
  unfold set_mem. rewrite existsb_exists. unfold addr_eqb. split.
  - intros [x [H1 H2]]. apply bytes_eqb_spec in H2. now subst.
  - intros H. exists a. split; [exact H|apply bytes_eqb_refl].
Qed.

Lemma set_remove_notin a s : ~ In a s -> set_remove a s = s.
Proof.
  intros H. unfold set_remove. induction s as [|b s IH]; [reflexivity|].
  cbn [filter]. unfold addr_eqb. beq a b E.
  - subst. exfalso. apply H. now left.
  - cbn [negb]. f_equal. apply IH. intros Hin. apply H. now right.
Qed.

(* cutting out the first Equal address removes the address, when the owners are distinct addresses *)
Lemma remove_first_spec a l :
  NoDup (map canon l) ->
  match remove_first a l with
  | Some l' => set_mem (canon a) (map canon l) = true /\ map canon l' = set_remove (canon a) (map canon l)
  | None => set_mem (canon a) (map canon l) = false
  end.
Proof.
  induction l as [|b l IH]; intros Hnd; [reflexivity|].
  cbn [remove_first map]. inversion Hnd as [|? ? Hnotin Hnd']; subst.
  unfold set_mem, set_remove. cbn [existsb filter].
  rewrite ip_equal_canon. unfold addr_eqb. rewrite (bytes_eqb_sym (canon b) (canon a)).
  beq (canon a) (canon b) E.
  - cbn [orb negb]. split; [reflexivity|]. rewrite E. symmetry. now apply set_remove_notin.
  - cbn [orb negb]. specialize (IH Hnd'). destruct (remove_first a l) as [l'|].
    + destruct IH as [IH1 IH2]. split; [exact IH1|]. cbn [map]. now rewrite IH2.
    + exact IH.
Qed.

Lemma set_remove_In a b s : In b (set_remove a s) <-> In b s /\ b <> a.
Proof.
  unfold set_remove. rewrite filter_In. unfold addr_eqb. split; intros [H1 H2]; split; auto.
  - intros E. subst. rewrite bytes_eqb_refl in H2. discriminate.
  - beq a b E; [subst; contradiction|reflexivity].
Qed.

Lemma set_remove_NoDup a s : NoDup s -> NoDup (set_remove a s).
Proof. intros H. unfold set_remove. now apply NoDup_filter. Qed.

(* ------------------------------------------------------------------ the association list is a map *)

Lemma tget_tdel_same {V} (t : list (name * V)) n : tget (tdel t n) n = None.
Proof.
  induction t as [|[k r] t IH]; [reflexivity|]. cbn [tdel]. beq k n E; [exact IH|].
  cbn [tget]. apply bytes_eqb_false in E. now rewrite E.
Qed.

Lemma tget_tdel_other {V} (t : list (name * V)) n k : k <> n -> tget (tdel t n) k = tget t k.
Proof.
  intros Hne. induction t as [|[k0 r] t IH]; [reflexivity|]. cbn [tdel tget]. beq k0 n E.
  - subst. beq n k E2; [subst; contradiction|exact IH].
  - cbn [tget]. now rewrite IH.
Qed.

Lemma tget_tset_same {V} (t : list (name * V)) n r : tget (tset t n r) n = Some r.
Proof. unfold tset. cbn [tget]. now rewrite bytes_eqb_refl. Qed.

Lemma tget_tset_other {V} (t : list (name * V)) n r k : k <> n -> tget (tset t n r) k = tget t k.
Proof.
  intros Hne. unfold tset. cbn [tget]. beq n k E; [subst; contradiction|]. now apply tget_tdel_other.
Qed.

Lemma keys_tdel {V} (t : list (name * V)) n k : In k (map fst (tdel t n)) -> In k (map fst t) /\ k <> n.
Proof.
  induction t as [|[k0 r] t IH]; [intros []|]. cbn [tdel]. beq k0 n E.
  - intros H. apply IH in H. cbn [map fst In]. tauto.
  - cbn [map fst In]. intros [H|H]; [subst; tauto|]. apply IH in H. tauto.
Qed.

Lemma NoDup_tdel {V} (t : list (name * V)) n : NoDup (map fst t) -> NoDup (map fst (tdel t n)).
Proof.
  induction t as [|[k0 r] t IH]; [auto|]. cbn [map fst tdel]. intros H. inversion H as [|? ? Hn Hd]; subst.
  beq k0 n E; [auto|]. cbn [map fst]. constructor; [|auto]. intros Hin. apply keys_tdel in Hin. tauto.
Qed.

Lemma NoDup_tset {V} (t : list (name * V)) n r : NoDup (map fst t) -> NoDup (map fst (tset t n r)).
Proof.
  intros H. unfold tset. cbn [map fst]. constructor; [|now apply NoDup_tdel].
  intros Hin. apply keys_tdel in Hin. tauto.
Qed.

Lemma tget_None_notin {V} (t : list (name * V)) k : tget t k = None <-> ~ In k (map fst t).
Proof.
  induction t as [|[k0 r] t IH]; [cbn; tauto|]. cbn [tget map fst In]. beq k0 k E.
  - split; [discriminate|]. intros H. exfalso. apply H. now left.
  - rewrite IH. tauto.
Qed.

Lemma tget_In {V} (t : list (name * V)) k r : NoDup (map fst t) -> (tget t k = Some r <-> In (k, r) t).
Proof.
  induction t as [|[k0 r0] t IH]; intros Hnd; [cbn; split; [discriminate|tauto]|].
  cbn [map fst] in Hnd. inversion Hnd as [|? ? Hn Hd]; subst.
  cbn [tget In]. beq k0 k E.
  - subst. split; [intros H; inversion H; now left|].
    intros [H|H]; [now inversion H|]. exfalso. apply Hn. now apply (in_map fst) in H.
  - rewrite (IH Hd). split; [tauto|]. intros [H|H]; [inversion H; subst; contradiction|exact H].
Qed.

Lemma tget_filter {V} (p : V -> bool) (t : list (name * V)) k :
  NoDup (map fst t) ->
  tget (filter (fun kr => p (snd kr)) t) k =
  match tget t k with Some r => if p r then Some r else None | None => None end.
Proof.
  induction t as [|[k0 r0] t IH]; intros Hnd; [reflexivity|].
  cbn [map fst] in Hnd. inversion Hnd as [|? ? Hn Hd]; subst.
  cbn [filter snd tget]. beq k0 k E.
  - subst. destruct (p r0) eqn:Hp.
    + cbn [tget]. now rewrite bytes_eqb_refl.
    + rewrite (IH Hd). apply tget_None_notin in Hn. now rewrite Hn.
  - destruct (p r0); [cbn [tget]; apply bytes_eqb_false in E; rewrite E|]; now apply IH.
Qed.

Lemma NoDup_filter_keys {V} (f : name * V -> bool) (t : list (name * V)) :
  NoDup (map fst t) -> NoDup (map fst (filter f t)).
Proof.
  induction t as [|kr t IH]; [auto|]. cbn [map filter]. intros H. inversion H as [|? ? Hn Hd]; subst.
  destruct (f kr); [|auto]. cbn [map]. constructor; [|auto].
  intros Hin. apply Hn. apply in_map_iff in Hin. destruct Hin as [x [H1 H2]].
  apply filter_In in H2. apply in_map_iff. exists x. tauto.
Qed.

(* ------------------------------------------------------------------ abstraction *)

Definition abs_ty (n : N) : ntype := if (n =? ty_group)%N then Group else Unique.
Definition abs_st (n : N) : nstatus := if (n =? st_active)%N then Active else Conflict.
Definition abs_rec (r : record) : arec :=
  mkarec (abs_ty (r_type r)) (abs_st (r_status r)) (map canon (r_owners r)) (r_ttl r) (r_refresh r).
Definition abs (t : table) : amap :=
  fun n => match tget t n with Some r => Some (abs_rec r) | None => None end.

Definition abs_op (o : op) : aop :=
  match o with
  | Register n ty a ttl => ARegister n (abs_ty ty) (canon a) ttl
  | Query n => AQuery n
  | Release n a => ARelease n (canon a)
  | Refresh n a => ARefresh n (canon a)
  | MarkConflict n => AMarkConflict n
  | CleanExpired => ACleanExpired
  end.

Definition abs_out (x : out) : option aout :=
  match x with
  | OOk => Some AOk
  | OErr => Some AFail
  | OPanic => None
  | OOwners l ty => Some (AOwners (map canon l) (abs_ty ty))
  end.

(* the name types of the property's alphabet: Unique and Group *)
Definition ty_ok (ty : N) : Prop := ty = ty_unique \/ ty = ty_group.
Definition op_typed (o : op) : Prop :=
  match o with Register _ ty _ _ => ty_ok ty | _ => True end.

(* the concrete ownership invariant *)
Definition rec_ok (r : record) : Prop :=
  (r_type r = ty_unique /\ exists a, r_owners r = [a]) \/
  (r_type r = ty_group /\ r_owners r <> [] /\ NoDup (map canon (r_owners r))).

Definition inv (t : table) : Prop :=
  NoDup (map fst t) /\ forall n r, tget t n = Some r -> rec_ok r.

Lemma inv_empty : inv empty.
Proof. split; [constructor|]. intros n r H. discriminate. Qed.

Lemma inv_tset t n r : inv t -> rec_ok r -> inv (tset t n r).
Proof.
  intros [Hnd Hrec] Hr. split; [now apply NoDup_tset|].
  intros k r' H. destruct (list_eq_dec N.eq_dec k n) as [->|Hne].
  - rewrite tget_tset_same in H. now inversion H; subst.
  - rewrite tget_tset_other in H by exact Hne. eauto.
Qed.

Lemma inv_tdel t n : inv t -> inv (tdel t n).
Proof.
  intros [Hnd Hrec]. split; [now apply NoDup_tdel|].
  intros k r' H. destruct (list_eq_dec N.eq_dec k n) as [->|Hne].
  - rewrite tget_tdel_same in H. discriminate.
  - rewrite tget_tdel_other in H by exact Hne. eauto.
Qed.

Lemma inv_filter (p : record -> bool) t : inv t -> inv (filter (fun kr => p (snd kr)) t).
Proof.
  intros [Hnd Hrec]. split; [now apply NoDup_filter_keys|].
  intros k r H. rewrite tget_filter in H by exact Hnd.
  destruct (tget t k) as [r0|] eqn:E; [|discriminate]. destruct (p r0); [|discriminate].
  inversion H; subst. eauto.
Qed.

Lemma abs_tset t n r : amap_eq (abs (tset t n r)) (aupd (abs t) n (Some (abs_rec r))).
Proof.
  intros k. unfold abs, aupd. beq k n E.
  - subst. now rewrite tget_tset_same.
  - now rewrite tget_tset_other.
Qed.

Lemma abs_tdel t n : amap_eq (abs (tdel t n)) (aupd (abs t) n None).
Proof.
  intros k. unfold abs, aupd. beq k n E.
  - subst. now rewrite tget_tdel_same.
  - now rewrite tget_tdel_other.
Qed.

Lemma is_group_abs_ty n : is_group (abs_ty n) = (n =? ty_group)%N.
Proof. unfold abs_ty. now destruct (n =? ty_group)%N. Qed.

Lemma is_active_abs_st n : is_active (abs_st n) = (n =? st_active)%N.
Proof. unfold abs_st. now destruct (n =? st_active)%N. Qed.

Lemma rec_ok_wf r : rec_ok r -> arec_wf (abs_rec r).
Proof.
  intros [[Hty [a Ha]]|[Hty [Hne Hnd]]]; unfold arec_wf, abs_rec; cbn [a_owners a_type]; rewrite Hty.
  - rewrite Ha. cbn. split; [repeat constructor; intros []|eauto].
  - split; [exact Hnd|]. cbn. intros H. apply map_eq_nil in H. contradiction.
Qed.

Lemma amap_eq_refl m : amap_eq m m.
Proof. intros k; reflexivity. Qed.

Lemma amap_eq_sym m1 m2 : amap_eq m1 m2 -> amap_eq m2 m1.
Proof. intros H k. symmetry. apply H. Qed.

Lemma amap_eq_trans m1 m2 m3 : amap_eq m1 m2 -> amap_eq m2 m3 -> amap_eq m1 m3.
Proof. intros H1 H2 k. now rewrite H1. Qed.

Lemma aupd_ext_r m n r1 r2 : r1 = r2 -> amap_eq (aupd m n r1) (aupd m n r2).
Proof. intros -> k. reflexivity. Qed.

Lemma aupd_ext m1 m2 n r : amap_eq m1 m2 -> amap_eq (aupd m1 n r) (aupd m2 n r).
Proof. intros H k. unfold aupd. destruct (bytes_eqb k n); [reflexivity|apply H]. Qed.

Lemma NoDup_app_one {A} (l : list A) a : NoDup l -> ~ In a l -> NoDup (l ++ [a]).
Proof.
  induction l as [|b l IH]; intros Hnd Hin; cbn [app].
  - constructor; [intros []|constructor].
  - inversion Hnd as [|? ? Hb Hl]; subst. constructor.
    + rewrite in_app_iff. cbn [In]. intros [H|[H|[]]]; [contradiction|]. subst. apply Hin. now left.
    + apply IH; [exact Hl|]. intros H. apply Hin. now right.
Qed.

(* ------------------------------------------------------------------ one step *)

Ltac get_rec t n r Hget Ha :=
  destruct (tget t n) as [r|] eqn:Hget;
  [assert (Ha : abs t n = Some (abs_rec r)) by (unfold abs; now rewrite Hget)
  |assert (Ha : abs t n = None) by (unfold abs; now rewrite Hget)]; rewrite Ha.

Lemma step_refines now t o :
  inv t -> op_typed o ->
  inv (fst (step now t o)) /\
  abs_out (snd (step now t o)) = Some (snd (astep now (abs t) (abs_op o))) /\
  amap_eq (abs (fst (step now t o))) (fst (astep now (abs t) (abs_op o))).
Proof.
  intros Hinv Hty. pose proof Hinv as [Hnd Hrec].
  destruct o as [n ty a ttl|n|n a|n a|n|]; cbn [step astep abs_op].
  - (* Register *)
    get_rec t n r Hget Ha.
    + cbn [a_type a_owners a_status a_refresh abs_rec]. rewrite !is_group_abs_ty.
      pose proof (Hrec _ _ Hget) as Hok.
      destruct ((r_type r =? ty_group)%N && (ty =? ty_group)%N) eqn:Hgg.
      * apply andb_true_iff in Hgg. destruct Hgg as [Hg1 Hg2]. apply N.eqb_eq in Hg1, Hg2.
        rewrite <- has_owner_canon. destruct (has_owner a (r_owners r)) eqn:Hown.
        -- cbn [fst snd abs_out]. repeat split; auto; try (intros k; reflexivity).
        -- cbn [fst snd abs_out]. split; [|split; [reflexivity|]].
           ++ apply inv_tset; [exact Hinv|]. right. cbn [with_ttl with_owners r_type r_owners].
              destruct Hok as [[Hu _]|[_ [Hne Hndo]]]; [unfold ty_unique, ty_group in *; lia|].
              split; [exact Hg1|]. split; [now destruct (r_owners r)|].
              rewrite map_app. cbn [map]. rewrite has_owner_canon in Hown.
              apply NoDup_app_one; [exact Hndo|]. intros Hin. apply (proj2 (set_mem_In _ _)) in Hin. exact (eq_true_false_abs _ Hin Hown).
           ++ eapply amap_eq_trans; [apply abs_tset|]. apply aupd_ext_r.
              unfold abs_rec. cbn [with_ttl with_owners r_type r_status r_owners r_ttl r_refresh].
              unfold abs_ty at 1. rewrite Hg1. cbn [N.eqb ty_group Pos.eqb].
              unfold set_add. rewrite has_owner_canon in Hown. rewrite Hown, map_app. reflexivity.
      * assert (Herr : ((r_type r =? ty_unique)%N || (ty =? ty_unique)%N) = true).
        { unfold ty_ok, ty_unique, ty_group in *.
          destruct Hok as [[Hu _]|[Hg _]]; destruct Hty as [Ht|Ht]; rewrite ?Hu, ?Hg, ?Ht in *; cbn in *; auto; discriminate. }
        rewrite Herr. cbn [fst snd abs_out]. repeat split; auto; try (intros k; reflexivity).
    + cbn [fst snd abs_out]. split; [|split; [reflexivity|]].
      * apply inv_tset; [exact Hinv|]. destruct Hty as [Ht|Ht]; [left|right]; cbn [r_type r_owners]; split; eauto.
        split; [discriminate|]. cbn. repeat constructor. intros [].
      * eapply amap_eq_trans; [apply abs_tset|]. apply aupd_ext_r. reflexivity.
  - (* Query *)
    get_rec t n r Hget Ha.
    + cbn [a_status abs_rec]. rewrite is_active_abs_st.
      destruct (r_status r =? st_active)%N; cbn [fst snd abs_out]; repeat split; auto; try (intros k; reflexivity).
    + cbn [fst snd abs_out]. repeat split; auto; try (intros k; reflexivity).
  - (* Release *)
    get_rec t n r Hget Ha.
    + cbn [a_type a_owners a_status a_expiry a_refresh abs_rec].
      pose proof (Hrec _ _ Hget) as Hok.
      destruct Hok as [[Hu [b Hb]]|[Hg [Hne Hndo]]].
      * rewrite Hu, Hb. cbn [N.eqb ty_unique ty_group map].
        unfold set_mem. cbn [existsb]. rewrite orb_false_r.
        rewrite ip_equal_canon. unfold addr_eqb. rewrite (bytes_eqb_sym (canon b) (canon a)).
        unfold set_remove. cbn [filter]. unfold addr_eqb.
        destruct (bytes_eqb (canon a) (canon b)) eqn:E; cbn [negb set_is_empty fst snd abs_out].
        -- split; [now apply inv_tdel|]. split; [reflexivity|]. apply abs_tdel.
        -- repeat split; auto; try (intros k; reflexivity).
      * rewrite Hg. cbn [N.eqb ty_group Pos.eqb].
        pose proof (remove_first_spec a (r_owners r) Hndo) as Hrm.
        destruct (remove_first a (r_owners r)) as [l'|].
        -- destruct Hrm as [Hmem Hrem]. rewrite Hmem, <- Hrem.
           destruct l' as [|c l'].
           ++ cbn [map set_is_empty fst snd abs_out]. split; [now apply inv_tdel|]. split; [reflexivity|]. apply abs_tdel.
           ++ cbn [map set_is_empty fst snd abs_out]. split; [|split; [reflexivity|]].
              ** apply inv_tset; [exact Hinv|]. right. cbn [with_owners r_type r_owners].
                 split; [exact Hg|]. split; [discriminate|]. rewrite Hrem. now apply set_remove_NoDup.
              ** eapply amap_eq_trans; [apply abs_tset|]. apply aupd_ext_r. unfold abs_rec. cbn [with_owners r_type r_status r_owners r_ttl r_refresh]. rewrite Hg. reflexivity.
        -- rewrite Hrm. cbn [fst snd abs_out]. repeat split; auto; try (intros k; reflexivity).
    + cbn [fst snd abs_out]. repeat split; auto; try (intros k; reflexivity).
  - (* Refresh *)
    get_rec t n r Hget Ha.
    + cbn [a_type a_owners a_status a_expiry a_refresh abs_rec]. rewrite <- has_owner_canon.
      destruct (has_owner a (r_owners r)); cbn [fst snd abs_out].
      * split; [|split; [reflexivity|]].
        -- apply inv_tset; [exact Hinv|]. apply (Hrec _ _ Hget).
        -- eapply amap_eq_trans; [apply abs_tset|]. apply aupd_ext_r. reflexivity.
      * repeat split; auto; try (intros k; reflexivity).
    + cbn [fst snd abs_out]. repeat split; auto; try (intros k; reflexivity).
  - (* MarkConflict *)
    get_rec t n r Hget Ha; cbn [fst snd abs_out].
    + split; [|split; [reflexivity|]].
      * apply inv_tset; [exact Hinv|]. apply (Hrec _ _ Hget).
      * eapply amap_eq_trans; [apply abs_tset|]. apply aupd_ext_r. reflexivity.
    + repeat split; auto; try (intros k; reflexivity).
  - (* CleanExpired *)
    cbn [fst snd abs_out]. split; [|split; [reflexivity|]].
    + apply (inv_filter (fun r => negb (expired now r))). exact Hinv.
    + intros k. unfold abs.
      rewrite (tget_filter (fun r => negb (expired now r))) by exact Hnd.
      destruct (tget t k) as [r|]; [|reflexivity]. cbn [a_expiry abs_rec]. unfold expired.
      destruct (r_ttl r <? now)%Z; reflexivity.
Qed.

(* ------------------------------------------------------------------ histories *)

Lemma astep_ext now m1 m2 o :
  amap_eq m1 m2 ->
  snd (astep now m1 o) = snd (astep now m2 o) /\
  amap_eq (fst (astep now m1 o)) (fst (astep now m2 o)).
Proof.
  intros H. destruct o as [n ty a ttl|n|n a|n a|n|]; cbn [astep].
  1-5: rewrite (H n); destruct (m2 n) as [r|];
    repeat match goal with |- context [if ?c then _ else _] => destruct c end;
    cbn [fst snd]; split; auto; apply aupd_ext; auto.
  cbn [fst snd]. split; [reflexivity|]. intros k. now rewrite (H k).
Qed.

Definition abs_hist (h : history) : ahistory := map (fun p => (fst p, abs_op (snd p))) h.
Definition hist_typed (h : history) : Prop := Forall (fun p => op_typed (snd p)) h.

Lemma run_cons t now o h :
  run t ((now, o) :: h) =
  (fst (run (fst (step now t o)) h), snd (step now t o) :: snd (run (fst (step now t o)) h)).
Proof. cbn [run]. destruct (step now t o) as [t1 x]. cbn [fst snd]. now destruct (run t1 h). Qed.

Lemma arun_cons m now o h :
  arun m ((now, o) :: h) =
  (fst (arun (fst (astep now m o)) h), snd (astep now m o) :: snd (arun (fst (astep now m o)) h)).
Proof. cbn [arun]. destruct (astep now m o) as [m1 x]. cbn [fst snd]. now destruct (arun m1 h). Qed.

Lemma run_refines h : forall t m,
  inv t -> amap_eq (abs t) m -> hist_typed h ->
  inv (fst (run t h)) /\
  map abs_out (snd (run t h)) = map Some (snd (arun m (abs_hist h))) /\
  amap_eq (abs (fst (run t h))) (fst (arun m (abs_hist h))).
Proof.
  induction h as [|[now o] h IH]; intros t m Hinv Heq Hty.
  - cbn. auto.
  - inversion Hty as [|? ? Ho Hh]; subst. cbn [snd] in Ho.
    cbn [abs_hist map fst snd]. fold (abs_hist h). rewrite run_cons, arun_cons. cbn [fst snd map].
    destruct (step_refines now t o Hinv Ho) as [Hi [Hout Hab]].
    destruct (astep_ext now (abs t) m (abs_op o) Heq) as [He1 He2].
    assert (Hm1 : amap_eq (abs (fst (step now t o))) (fst (astep now m (abs_op o)))).
    { eapply amap_eq_trans; eauto. }
    destruct (IH _ _ Hi Hm1 Hh) as [Hi' [Houts Hab']].
    split; [exact Hi'|]. split; [|exact Hab'].
    rewrite Hout, He1, Houts. reflexivity.
Qed.

Lemma abs_empty : amap_eq (abs empty) aempty.
Proof. intros k. reflexivity. Qed.

Theorem refines_from_empty h :
  hist_typed h ->
  map abs_out (snd (run empty h)) = map Some (snd (arun aempty (abs_hist h))) /\
  amap_eq (abs (fst (run empty h))) (fst (arun aempty (abs_hist h))).
Proof. intros H. apply (run_refines h empty aempty inv_empty abs_empty H). Qed.

Theorem reachable_inv h : hist_typed h -> inv (fst (run empty h)).
Proof. intros H. apply (run_refines h empty aempty inv_empty abs_empty H). Qed.

(* the invariants in the words of the property, for every record of every reachable table *)
Theorem reachable_records h n r :
  hist_typed h -> In (n, r) (fst (run empty h)) ->
  (forall r', In (n, r') (fst (run empty h)) -> r' = r) /\
  (r_type r = ty_unique \/ r_type r = ty_group) /\
  (r_type r = ty_unique -> exists a, r_owners r = [a]) /\
  (r_type r = ty_group -> r_owners r <> [] /\ NoDup (map canon (r_owners r))).
Proof.
  intros Hty Hin. destruct (reachable_inv h Hty) as [Hnd Hrec].
  pose proof (proj2 (tget_In _ _ _ Hnd) Hin) as Hget.
  split.
  - intros r' Hin'. apply (tget_In _ _ _ Hnd) in Hin'. congruence.
  - destruct (Hrec _ _ Hget) as [[Hu Ho]|[Hg Ho]]; unfold ty_unique, ty_group in *.
    + split; [now left|]. split; [auto|]. intros H. rewrite Hu in H. discriminate.
    + split; [now right|]. split; [|auto]. intros H. rewrite Hg in H. discriminate.
Qed.

Theorem reachable_wf h : hist_typed h -> amap_wf (abs (fst (run empty h))).
Proof.
  intros Hty n r H. destruct (reachable_inv h Hty) as [Hnd Hrec]. unfold abs in H.
  destruct (tget (fst (run empty h)) n) as [r0|] eqn:E; [|discriminate].
  inversion H; subst. apply rec_ok_wf. eauto.
Qed.

(* ------------------------------------------------------------------ query *)

Theorem query_exact h now n :
  hist_typed h ->
  let t := fst (run empty h) in
  fst (step now t (Query n)) = t /\
  match snd (step now t (Query n)) with
  | OOwners l ty =>
      exists r, abs t n = Some r /\ a_status r = Active /\ map canon l = a_owners r /\
                abs_ty ty = a_type r /\ NoDup (map canon l) /\ l <> []
  | OErr => forall r, abs t n = Some r -> a_status r = Conflict
  | _ => False
  end.
Proof.
  intros Hty t. destruct (reachable_inv h Hty) as [Hnd Hrec]. fold t in Hnd, Hrec.
  cbn [step]. unfold abs. destruct (tget t n) as [r|] eqn:Hget.
  - destruct (r_status r =? st_active)%N eqn:Hs; cbn [fst snd]; (split; [reflexivity|]).
    + exists (abs_rec r). split; [reflexivity|]. cbn [abs_rec a_status a_owners a_type].
      unfold abs_st. rewrite Hs. repeat split; auto.
      * destruct (Hrec _ _ Hget) as [[_ [a Ho]]|[_ [_ Ho]]]; [rewrite Ho; cbn; repeat constructor; intros []|exact Ho].
      * destruct (Hrec _ _ Hget) as [[_ [a Ho]]|[_ [Ho _]]]; [rewrite Ho; discriminate|exact Ho].
    + intros r0 H. inversion H; subst. cbn [abs_rec a_status]. unfold abs_st. now rewrite Hs.
  - cbn [fst snd]. split; [reflexivity|]. intros r0 H. discriminate.
Qed.

(* ------------------------------------------------------------------ a unique name is held by one address *)

Theorem unique_exclusive h n r :
  hist_typed h ->
  let t := fst (run empty h) in
  tget t n = Some r -> r_type r = ty_unique ->
  exists a, r_owners r = [a] /\
    (forall now ty b ttl, step now t (Register n ty b ttl) = (t, OErr)) /\
    (forall now b, ip_equal a b = false -> step now t (Release n b) = (t, OErr)) /\
    (forall now b, ip_equal a b = false -> step now t (Refresh n b) = (t, OErr)).
Proof.
  intros Hty t Hget Hu. destruct (reachable_inv h Hty) as [Hnd Hrec]. fold t in Hnd, Hrec.
  destruct (Hrec _ _ Hget) as [[_ [a Ho]]|[Hg _]]; [|unfold ty_unique, ty_group in *; congruence].
  exists a. split; [exact Ho|]. split; [|split].
  - intros now ty b ttl. cbn [step]. rewrite Hget, Hu. reflexivity.
  - intros now b Hne. cbn [step]. rewrite Hget, Hu, Ho, Hne. reflexivity.
  - intros now b Hne. cbn [step]. rewrite Hget, Ho. unfold has_owner. cbn [existsb]. rewrite Hne. reflexivity.
Qed.

(* ------------------------------------------------------------------ no operation panics, whatever the arguments *)

Definition inv_weak (t : table) : Prop :=
  NoDup (map fst t) /\ forall n r, tget t n = Some r -> r_owners r <> [].

Lemma inv_weak_tset t n r : inv_weak t -> r_owners r <> [] -> inv_weak (tset t n r).
Proof.
  intros [Hnd Hrec] Hr. split; [now apply NoDup_tset|].
  intros k r' H. destruct (list_eq_dec N.eq_dec k n) as [->|Hne].
  - rewrite tget_tset_same in H. now inversion H; subst.
  - rewrite tget_tset_other in H by exact Hne. eauto.
Qed.

Lemma inv_weak_tdel t n : inv_weak t -> inv_weak (tdel t n).
Proof.
  intros [Hnd Hrec]. split; [now apply NoDup_tdel|].
  intros k r' H. destruct (list_eq_dec N.eq_dec k n) as [->|Hne].
  - rewrite tget_tdel_same in H. discriminate.
  - rewrite tget_tdel_other in H by exact Hne. eauto.
Qed.

Lemma step_total now t o :
  inv_weak t -> inv_weak (fst (step now t o)) /\ snd (step now t o) <> OPanic.
Proof.
  intros Hinv. pose proof Hinv as [Hnd Hrec].
  destruct o as [n ty a ttl|n|n a|n a|n|]; cbn [step].
  - destruct (tget t n) as [r|] eqn:Hget.
    + repeat match goal with |- context [if ?c then _ else _] => destruct c end; cbn [fst snd];
        (split; [|discriminate]); auto; apply inv_weak_tset; auto; cbn; try discriminate.
      now destruct (r_owners r).
    + cbn [fst snd]. split; [|discriminate]. apply inv_weak_tset; auto. cbn. discriminate.
  - destruct (tget t n) as [r|]; [destruct (r_status r =? st_active)%N|]; cbn [fst snd]; split; auto; discriminate.
  - destruct (tget t n) as [r|] eqn:Hget; [|cbn [fst snd]; split; auto; discriminate].
    destruct (r_type r =? ty_group)%N.
    + destruct (remove_first a (r_owners r)) as [[|c l']|]; cbn [fst snd]; (split; [|discriminate]); auto.
      * now apply inv_weak_tdel.
      * apply inv_weak_tset; auto. cbn. discriminate.
    + pose proof (Hrec _ _ Hget) as Hne. destruct (r_owners r) as [|b l]; [contradiction|].
      destruct (ip_equal b a); cbn [fst snd]; (split; [|discriminate]); auto. now apply inv_weak_tdel.
  - destruct (tget t n) as [r|] eqn:Hget; [destruct (has_owner a (r_owners r))|]; cbn [fst snd];
      (split; [|discriminate]); auto. apply inv_weak_tset; auto. cbn. eauto.
  - destruct (tget t n) as [r|] eqn:Hget; cbn [fst snd]; (split; [|discriminate]); auto.
    apply inv_weak_tset; auto. cbn. eauto.
  - cbn [fst snd]. split; [|discriminate]. split; [now apply NoDup_filter_keys|].
    intros k r H. rewrite (tget_filter (fun r => negb (expired now r))) in H by exact Hnd.
    destruct (tget t k) as [r0|] eqn:E; [|discriminate]. destruct (negb (expired now r0)); [|discriminate].
    inversion H; subst. eauto.
Qed.

Theorem run_total h : forall t, inv_weak t -> Forall (fun x => x <> OPanic) (snd (run t h)).
Proof.
  induction h as [|[now o] h IH]; intros t Hinv; [constructor|].
  rewrite run_cons. cbn [snd]. destruct (step_total now t o Hinv) as [Hi Hp]. constructor; auto.
Qed.

Theorem run_total_empty h : Forall (fun x => x <> OPanic) (snd (run empty h)).
Proof. apply run_total. split; [constructor|]. intros n r H. discriminate. Qed.

(* the out-of-enum NameType values are outside the property: with them a held name can be taken over *)
Lemma untyped_takeover :
  let h := [(0%Z, Register [65%N] ty_group [10; 0; 0; 1]%N 5%Z); (1%Z, Register [65%N] 2%N [10; 0; 0; 2]%N 5%Z);
            (2%Z, Query [65%N])] in
  snd (run empty h) = [OOk; OOk; OOwners [[10; 0; 0; 2]%N] 2%N].
Proof. vm_compute. reflexivity. Qed.
