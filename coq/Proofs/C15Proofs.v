(* C15 — proofs: the fixed-width Go arithmetic of Model/WinTime.v equals the unbounded
   arithmetic of Spec/C15.v on the whole representable domain; inverse pairs; totality. *)
From Coq Require Import List NArith ZArith Lia Bool.
From Coq Require Import ZifyN ZifyNat ZifyBool.
From Mant Require Import Prim.R Prim.Bytes Prim.Dec Gen.ConstsC15 Model.WinTime Spec.C15.
Import ListNotations.
Open Scope Z_scope.

(* ------------------------------------------------------------------ constants *)

(* The epochs written in the Go source are the ones the calendar gives. *)
Lemma filetime_epoch_spec_val : filetime_epoch_spec = 116444736000000000.
Proof. vm_compute. reflexivity. Qed.
Lemma uuid_epoch_spec_val : uuid_epoch_spec = 122192928000000000.
Proof. vm_compute. reflexivity. Qed.
Lemma filetime_epoch_ok : filetime_epoch = filetime_epoch_spec.
Proof. vm_compute. reflexivity. Qed.
Lemma ldap_epoch_ok : ldap_epoch = filetime_epoch_spec.
Proof. vm_compute. reflexivity. Qed.
Lemma uuidv1_epoch_ok : uuidv1_epoch = uuid_epoch_spec.
Proof. vm_compute. reflexivity. Qed.
Lemma uuidv2_epoch_ok : uuidv2_epoch = uuid_epoch_spec.
Proof. vm_compute. reflexivity. Qed.
Lemma datetime_epoch_ok : - fst date_1601 * 10 ^ 7 = filetime_epoch_spec.
Proof. vm_compute. reflexivity. Qed.

Ltac pows :=
  change (10 ^ 9) with 1000000000 in *; change (10 ^ 7) with 10000000 in *;
  change (2 ^ 63) with 9223372036854775808 in *; change (2 ^ 64) with 18446744073709551616 in *;
  change (2 ^ 32) with 4294967296 in *; change (2 ^ 31) with 2147483648 in *.
Ltac zdiv := Z.to_euclidean_division_equations; lia.
Ltac unfold_spec :=
  cbv [valid_time ticks_of_time time_of_ticks floor_tick in_i64 in_u64 in_u32 signed64
       filetime_value filetime_of_time_exact time_of_filetime_exact
       ldap_timestamp_to_unix_exact ldap_unix_to_timestamp_exact ldap_duration_to_seconds_exact
       datetime_time_exact uuid_time_exact uuid_of_time_exact never_max never_min fst snd] in *;
  rewrite ?filetime_epoch_spec_val, ?uuid_epoch_spec_val in *; pows.

(* ------------------------------------------------------------------ wrap-around *)

Lemma wrap64s_id z : in_i64 z -> wrap64s z = z.
Proof. unfold in_i64, wrap64s. pows. intros H. zdiv. Qed.

Lemma wrap64s_range z : in_i64 (wrap64s z).
Proof. unfold in_i64, wrap64s. pows. zdiv. Qed.

Lemma wrap64u_id z : in_u64 z -> wrap64u z = z.
Proof. unfold in_u64, wrap64u. pows. intros H. zdiv. Qed.

Lemma wrap64s_signed64 z : wrap64s z = signed64 (z mod 2 ^ 64).
Proof.
  unfold wrap64s, signed64. pows.
  destruct (Z.ltb_spec (z mod 18446744073709551616) 9223372036854775808); zdiv.
Qed.

(* ------------------------------------------------------------------ time.Unix *)

(* For a sub-second nanosecond offset of either sign, time.Unix carries it into the second. *)
Lemma time_unix_spec sec nsec :
  - e9 < nsec < e9 -> in_i64 sec -> in_i64 (sec - 1) ->
  time_unix sec nsec = (sec + nsec / e9, nsec mod e9).
Proof.
  unfold time_unix, e9, in_i64. pows. intros Hn Hs Hs1.
  destruct ((nsec <? 0) || (nsec >=? 1000000000)) eqn:Hc.
  - assert (Hq : Z.quot nsec 1000000000 = 0) by zdiv.
    rewrite Hq, Z.add_0_r, Z.mul_0_l, Z.sub_0_r.
    rewrite (wrap64s_id sec) by (unfold in_i64; pows; lia).
    destruct (Z.ltb_spec nsec 0) as [Hneg|Hpos].
    + rewrite wrap64s_id by (unfold in_i64; pows; lia). f_equal; zdiv.
    + exfalso. lia.
  - f_equal; zdiv.
Qed.

Lemma time_unix_valid sec nsec : 0 <= nsec < e9 -> time_unix sec nsec = (sec, nsec).
Proof.
  unfold time_unix, e9. intros H.
  destruct ((nsec <? 0) || (nsec >=? 1000000000)) eqn:Hc; [exfalso; lia|reflexivity].
Qed.

(* ------------------------------------------------------------------ bit operations of FILETIME *)

Lemma land_ones32 a : Z.land a 4294967295 = a mod 2 ^ 32.
Proof. change 4294967295 with (Z.ones 32). apply Z.land_ones. lia. Qed.

Lemma lor_high_low a b : 0 <= b < 2 ^ 32 -> Z.lor (a * 2 ^ 32) b = a * 2 ^ 32 + b.
Proof.
  intros Hb.
  assert (Hland : Z.land (a * 2 ^ 32) b = 0).
  { apply Z.bits_inj'. intros n Hn. rewrite Z.land_spec, Z.bits_0.
    destruct (Z.ltb_spec n 32) as [Hlt|Hge].
    - rewrite <- Z.shiftl_mul_pow2 by lia. rewrite Z.shiftl_spec_low by lia. reflexivity.
    - assert (Hbn : Z.testbit b n = false).
      { destruct (Z.eq_dec b 0) as [->|Hnz]; [apply Z.bits_0|].
        apply Z.bits_above_log2; [lia|].
        apply Z.log2_lt_pow2; [lia|].
        assert (2 ^ 32 <= 2 ^ n) by (apply Z.pow_le_mono_r; lia). lia. }
      rewrite Hbn. apply andb_false_r. }
  rewrite <- Z.lxor_lor by exact Hland. symmetry. apply Z.add_nocarry_lxor. exact Hland.
Qed.

(* ToInt64 reads the two halves as the signed 64-bit integer they spell. *)
Lemma filetime_to_int64_spec lo hi :
  in_u32 lo -> in_u32 hi -> filetime_to_int64_go (lo, hi) = filetime_value lo hi.
Proof.
  unfold in_u32, filetime_to_int64_go, filetime_value. cbn [fst snd]. intros Hlo Hhi.
  rewrite !land_ones32, Z.shiftl_mul_pow2 by lia.
  rewrite (Z.mod_small lo), (Z.mod_small hi) by lia.
  assert (Hw : wrap64s (hi * 2 ^ 32) = (if hi <? 2 ^ 31 then hi else hi - 2 ^ 32) * 2 ^ 32).
  { unfold wrap64s. pows. destruct (Z.ltb_spec hi 2147483648); zdiv. }
  rewrite Hw, lor_high_low by exact Hlo.
  unfold signed64. pows.
  destruct (Z.ltb_spec hi 2147483648); destruct (Z.ltb_spec (lo + 4294967296 * hi) 9223372036854775808); lia.
Qed.

Lemma filetime_value_range lo hi : in_u32 lo -> in_u32 hi -> in_i64 (filetime_value lo hi).
Proof.
  unfold in_u32, in_i64, filetime_value, signed64. pows. intros Hlo Hhi.
  destruct (Z.ltb_spec (lo + 4294967296 * hi) 9223372036854775808); lia.
Qed.

(* The two halves stored by NewFILETIMEFromTime spell the 64-bit value. *)
Lemma split_halves v :
  in_i64 v ->
  let lo := Z.land v 4294967295 in
  let hi := Z.land (Z.shiftr v 32) 4294967295 in
  in_u32 lo /\ in_u32 hi /\ lo + 2 ^ 32 * hi = v mod 2 ^ 64 /\ filetime_value lo hi = v.
Proof.
  intros Hv lo hi. subst lo hi. rewrite !land_ones32, Z.shiftr_div_pow2 by lia.
  unfold in_i64, in_u32, filetime_value, signed64 in *. pows.
  assert (H1 : v mod 4294967296 + 4294967296 * ((v / 4294967296) mod 4294967296) = v mod 18446744073709551616) by zdiv.
  repeat split; try zdiv.
  rewrite H1. destruct (Z.ltb_spec (v mod 18446744073709551616) 9223372036854775808); zdiv.
Qed.

(* ------------------------------------------------------------------ FILETIME *)

Lemma filetime_epoch_val : filetime_epoch = 116444736000000000.
Proof. reflexivity. Qed.

Lemma ticks_of_time_split epoch t :
  valid_time t -> ticks_of_time epoch t = fst t * 10 ^ 7 + snd t / 100 + epoch.
Proof. destruct t as [sec nsec]. unfold_spec. intros H. zdiv. Qed.

Lemma time_of_ticks_valid epoch n : valid_time (time_of_ticks epoch n).
Proof. unfold_spec. zdiv. Qed.

Lemma ticks_of_time_of_ticks epoch n : ticks_of_time epoch (time_of_ticks epoch n) = n.
Proof. unfold_spec. zdiv. Qed.

Lemma time_of_ticks_of_time epoch t :
  valid_time t -> time_of_ticks epoch (ticks_of_time epoch t) = floor_tick t.
Proof. destruct t as [sec nsec]. unfold_spec. intros H. f_equal; zdiv. Qed.

Theorem filetime_from_time_exact t :
  valid_time t ->
  let ft := filetime_from_time_go t in
  let T := filetime_of_time_exact t in
  in_u32 (fst ft) /\ in_u32 (snd ft) /\
  fst ft + 2 ^ 32 * snd ft = T mod 2 ^ 64 /\
  (in_i64 T -> filetime_to_int64_go ft = T /\ filetime_value (fst ft) (snd ft) = T).
Proof.
  intros Hv ft T. subst ft. unfold filetime_from_time_go.
  set (value := wrap64s _).
  assert (Hval : value = wrap64s T).
  { subst value T. unfold filetime_of_time_exact. rewrite ticks_of_time_split by exact Hv.
    rewrite filetime_epoch_val. destruct t as [sec nsec]. unfold wrap64s. unfold_spec. zdiv. }
  destruct (split_halves value) as (H1 & H2 & H3 & H4).
  { rewrite Hval. apply wrap64s_range. }
  cbn [fst snd]. repeat split; try apply H1; try apply H2.
  - rewrite H3, Hval. unfold wrap64s. pows. zdiv.
  - rewrite filetime_to_int64_spec by assumption. rewrite H4, Hval. apply wrap64s_id. assumption.
  - rewrite H4, Hval. apply wrap64s_id. assumption.
Qed.

Theorem filetime_get_time_exact lo hi :
  in_u32 lo -> in_u32 hi ->
  filetime_get_time_go (lo, hi) = time_of_filetime_exact (filetime_value lo hi).
Proof.
  intros Hlo Hhi. unfold filetime_get_time_go.
  rewrite filetime_to_int64_spec by assumption.
  pose proof (filetime_value_range lo hi Hlo Hhi) as Hr.
  set (v := filetime_value lo hi) in *. clearbody v.
  rewrite filetime_epoch_val.
  change (Z.quot 116444736000000000 10000000) with 11644473600.
  unfold in_i64 in Hr. pows.
  rewrite (wrap64s_id (Z.quot v 10000000 - 11644473600)) by (unfold in_i64; pows; zdiv).
  rewrite (wrap64s_id (Z.rem v 10000000 * 100)) by (unfold in_i64; pows; zdiv).
  rewrite time_unix_spec; unfold e9, in_i64; pows; try zdiv.
  unfold_spec. f_equal; zdiv.
Qed.

(* ticks -> time -> ticks *)
Theorem filetime_inverse_ticks lo hi :
  in_u32 lo -> in_u32 hi -> filetime_from_time_go (filetime_get_time_go (lo, hi)) = (lo, hi).
Proof.
  intros Hlo Hhi. rewrite filetime_get_time_exact by assumption.
  pose proof (filetime_value_range lo hi Hlo Hhi) as Hr.
  set (t := time_of_filetime_exact _).
  assert (Hvt : valid_time t) by apply time_of_ticks_valid.
  destruct (filetime_from_time_exact t Hvt) as (H1 & H2 & H3 & _).
  assert (HT : filetime_of_time_exact t = filetime_value lo hi) by apply ticks_of_time_of_ticks.
  rewrite HT in H3.
  destruct (filetime_from_time_go t) as [lo' hi']. cbn [fst snd] in *.
  unfold in_u32, in_i64, filetime_value, signed64 in *. pows.
  destruct (Z.ltb_spec (lo + 4294967296 * hi) 9223372036854775808);
    assert (lo' = lo /\ hi' = hi) as [-> ->] by zdiv; reflexivity.
Qed.

(* time -> ticks -> time: the instant rounded down to a tick *)
Theorem filetime_inverse_time t :
  valid_time t -> in_i64 (filetime_of_time_exact t) ->
  filetime_get_time_go (filetime_from_time_go t) = floor_tick t.
Proof.
  intros Hv Hr. destruct (filetime_from_time_exact t Hv) as (H1 & H2 & _ & H4).
  destruct (H4 Hr) as [_ H5].
  destruct (filetime_from_time_go t) as [lo hi]. cbn [fst snd] in *.
  rewrite filetime_get_time_exact, H5 by assumption.
  apply time_of_ticks_of_time. exact Hv.
Qed.

Lemma filetime_unix_timestamp_exact lo hi :
  in_u32 lo -> in_u32 hi ->
  filetime_get_unix_timestamp_go (lo, hi) = fst (time_of_filetime_exact (filetime_value lo hi)).
Proof. intros. unfold filetime_get_unix_timestamp_go. rewrite filetime_get_time_exact by assumption. reflexivity. Qed.

(* ---- FILETIME binary form ---- *)

Lemma firstn_app_exact {A} (a r : list A) n : length a = n -> firstn n (a ++ r) = a.
Proof. intros <-. rewrite firstn_app, Nat.sub_diag, firstn_all, firstn_O. apply app_nil_r. Qed.

Lemma skipn_app_exact {A} (a r : list A) n : length a = n -> skipn n (a ++ r) = r.
Proof. intros <-. rewrite skipn_app, Nat.sub_diag, skipn_all, skipn_O. reflexivity. Qed.

Lemma filetime_unmarshal_long data :
  (8 <= lenN data)%N ->
  filetime_unmarshal data =
  Ok (8, (Z.of_N (le_val (firstn 4 data)), Z.of_N (le_val (firstn 4 (skipn 4 data))))).
Proof.
  intros Hlen. unfold filetime_unmarshal.
  destruct (N.ltb_spec (lenN data) 8) as [Hs|_]; [lia|].
  rewrite !go_slice_ok by lia. cbn [bind].
  change (N.to_nat (4 - 0)) with 4%nat. change (N.to_nat (8 - 4)) with 4%nat.
  change (N.to_nat 0) with 0%nat. change (N.to_nat 4) with 4%nat. change (skipn 0 data) with data.
  unfold lenN in Hlen.
  unfold go_le_uint. rewrite !firstn_length, skipn_length.
  destruct (Nat.leb_spec 4 (Nat.min 4 (length data))) as [_|Hbad]; [|lia].
  destruct (Nat.leb_spec 4 (Nat.min 4 (length data - 4))) as [_|Hbad]; [|lia].
  cbn [bind]. rewrite !firstn_firstn. reflexivity.
Qed.

Theorem filetime_unmarshal_total data : filetime_unmarshal data <> Panic.
Proof.
  destruct (N.ltb_spec (lenN data) 8) as [Hs|Hl].
  - unfold filetime_unmarshal. destruct (N.ltb_spec (lenN data) 8); [discriminate|lia].
  - rewrite filetime_unmarshal_long by exact Hl. discriminate.
Qed.

Theorem filetime_unmarshal_short data : (lenN data < 8)%N -> filetime_unmarshal data = Err.
Proof. intros H. unfold filetime_unmarshal. destruct (N.ltb_spec (lenN data) 8); [reflexivity|lia]. Qed.

Theorem filetime_unmarshal_marshal lo hi rest :
  in_u32 lo -> in_u32 hi ->
  filetime_unmarshal (filetime_marshal (lo, hi) ++ rest) = Ok (8, (lo, hi)).
Proof.
  unfold in_u32. pows. intros Hlo Hhi. unfold filetime_marshal, le32. cbn [fst snd].
  rewrite filetime_unmarshal_long.
  2:{ rewrite !lenN_app, !lenN_le_bytes. lia. }
  rewrite <- !app_assoc.
  assert (H4 : forall n r, firstn 4 (le_bytes 4 n ++ r) = le_bytes 4 n).
  { intros n r. apply firstn_app_exact, length_le_bytes. }
  assert (S4 : forall n r, skipn 4 (le_bytes 4 n ++ r) = r).
  { intros n r. apply skipn_app_exact, length_le_bytes. }
  rewrite S4, !H4, !le_val_small.
  - rewrite !Z2N.id by lia. reflexivity.
  - change (2 ^ (8 * N.of_nat 4))%N with 4294967296%N. lia.
  - change (2 ^ (8 * N.of_nat 4))%N with 4294967296%N. lia.
Qed.

Lemma filetime_marshal_value lo hi :
  in_u32 lo -> in_u32 hi ->
  Z.of_N (le_val (filetime_marshal (lo, hi))) = lo + 2 ^ 32 * hi /\ length (filetime_marshal (lo, hi)) = 8%nat.
Proof.
  intros Hlo Hhi.
  pose proof (filetime_unmarshal_marshal lo hi [] Hlo Hhi) as H.
  unfold filetime_marshal, le32 in *. cbn [fst snd] in *.
  split; [|rewrite app_length, !length_le_bytes; reflexivity].
  unfold in_u32 in *. pows.
  set (a := Z.to_N lo) in *. set (b := Z.to_N hi) in *.
  assert (Ha : le_val (le_bytes 4 a) = a).
  { apply le_val_small. change (2 ^ (8 * N.of_nat 4))%N with 4294967296%N. lia. }
  assert (Hb : le_val (le_bytes 4 b) = b).
  { apply le_val_small. change (2 ^ (8 * N.of_nat 4))%N with 4294967296%N. lia. }
  assert (Happ : forall x y, le_val (x ++ y) = (le_val x + 2 ^ (8 * N.of_nat (length x)) * le_val y)%N).
  { induction x as [|c x IH]; intros y.
    - cbn [app le_val length]. change (2 ^ (8 * N.of_nat 0))%N with 1%N. lia.
    - cbn [app le_val]. rewrite IH. change (length (c :: x)) with (S (length x)). rewrite pow256_S. lia. }
  rewrite Happ, length_le_bytes, Ha, Hb. change (2 ^ (8 * N.of_nat 4))%N with 4294967296%N. lia.
Qed.

(* ------------------------------------------------------------------ decimal int64 strings *)

Lemma is_digit_not_sign c : is_digit c = true -> ((c =? 43) || (c =? 45))%N = false /\ (c =? 45)%N = false.
Proof. unfold is_digit. intros H. split; lia. Qed.

Lemma parse_dec_digits digits :
  digits <> [] -> forallb is_digit digits = true -> parse_dec digits = Some (dec_val digits).
Proof. intros Hne Hd. unfold parse_dec. destruct digits; [congruence|]. rewrite Hd. reflexivity. Qed.

Lemma parse_int64_unsigned digits :
  digits <> [] -> forallb is_digit digits = true ->
  parse_int64 digits =
  if Z.of_N (dec_val digits) <=? 9223372036854775807 then Ok (Z.of_N (dec_val digits)) else Err.
Proof.
  intros Hne Hd. pose proof (parse_dec_digits digits Hne Hd) as Hp.
  destruct digits as [|c r]; [congruence|].
  assert (Hc : is_digit c = true) by (cbn [forallb] in Hd; apply andb_true_iff in Hd; tauto).
  destruct (is_digit_not_sign c Hc) as [H1 H2].
  unfold parse_int64. rewrite H1, H2, Hp.
  destruct (Z.leb_spec (-9223372036854775808) (Z.of_N (dec_val (c :: r)))); [|lia]. reflexivity.
Qed.

Lemma parse_int64_plus digits :
  digits <> [] -> forallb is_digit digits = true ->
  parse_int64 (43%N :: digits) =
  if Z.of_N (dec_val digits) <=? 9223372036854775807 then Ok (Z.of_N (dec_val digits)) else Err.
Proof.
  intros Hne Hd. pose proof (parse_dec_digits digits Hne Hd) as Hp.
  unfold parse_int64. change ((43 =? 45)%N) with false. change (((43 =? 43) || false)%N) with true.
  cbn match. rewrite Hp.
  destruct (Z.leb_spec (-9223372036854775808) (Z.of_N (dec_val digits))); [|lia]. reflexivity.
Qed.

Lemma parse_int64_minus digits :
  digits <> [] -> forallb is_digit digits = true ->
  parse_int64 (45%N :: digits) =
  if -9223372036854775808 <=? - Z.of_N (dec_val digits) then Ok (- Z.of_N (dec_val digits)) else Err.
Proof.
  intros Hne Hd. pose proof (parse_dec_digits digits Hne Hd) as Hp.
  unfold parse_int64. change ((45 =? 45)%N) with true. change (((45 =? 43) || true)%N) with true.
  cbn match. rewrite Hp.
  destruct (Z.leb_spec (- Z.of_N (dec_val digits)) 9223372036854775807); [|lia].
  rewrite andb_true_r. reflexivity.
Qed.

(* strconv.ParseInt reads every decimal spelling of an int64, and rejects those out of range *)
Lemma parse_int64_decimal s v : decimal_of s v -> in_i64 v -> parse_int64 s = Ok v.
Proof.
  unfold in_i64. pows. intros (digits & Hne & Hd & [[-> ->]|[[-> ->]|[-> ->]]]) Hr.
  - rewrite parse_int64_unsigned by assumption.
    destruct (Z.leb_spec (Z.of_N (dec_val digits)) 9223372036854775807); [reflexivity|lia].
  - rewrite parse_int64_plus by assumption.
    destruct (Z.leb_spec (Z.of_N (dec_val digits)) 9223372036854775807); [reflexivity|lia].
  - rewrite parse_int64_minus by assumption.
    destruct (Z.leb_spec (-9223372036854775808) (- Z.of_N (dec_val digits))); [reflexivity|lia].
Qed.

Lemma parse_int64_out_of_range s v : decimal_of s v -> ~ in_i64 v -> parse_int64 s = Err.
Proof.
  unfold in_i64. pows. intros (digits & Hne & Hd & [[-> ->]|[[-> ->]|[-> ->]]]) Hr.
  - rewrite parse_int64_unsigned by assumption.
    destruct (Z.leb_spec (Z.of_N (dec_val digits)) 9223372036854775807); [lia|reflexivity].
  - rewrite parse_int64_plus by assumption.
    destruct (Z.leb_spec (Z.of_N (dec_val digits)) 9223372036854775807); [lia|reflexivity].
  - rewrite parse_int64_minus by assumption.
    destruct (Z.leb_spec (-9223372036854775808) (- Z.of_N (dec_val digits))); [lia|reflexivity].
Qed.

Lemma parse_int64_no_panic s : parse_int64 s <> Panic.
Proof.
  unfold parse_int64. destruct s as [|c r]; [discriminate|].
  destruct (parse_dec _); [|discriminate].
  destruct (_ && _); discriminate.
Qed.

Lemma print_dec_digits n :
  print_dec n <> [] /\ forallb is_digit (print_dec n) = true /\ dec_val (print_dec n) = n.
Proof.
  pose proof (parse_print_dec n) as H. unfold parse_dec in H.
  destruct (print_dec n) as [|c r] eqn:E; [discriminate|].
  destruct (forallb is_digit (c :: r)); [|discriminate].
  injection H as H. repeat split; [discriminate|exact H].
Qed.

(* the canonical decimal string (fmt %d) of any integer is a decimal spelling of it *)
Lemma decimal_of_print v : decimal_of (print_decZ v) v.
Proof.
  destruct v as [|p|p]; unfold print_decZ.
  - exists [48%N]. repeat split; [discriminate|]. left. split; reflexivity.
  - destruct (print_dec_digits (Npos p)) as (H1 & H2 & H3).
    exists (print_dec (Npos p)). repeat split; try assumption. left. rewrite H3. split; reflexivity.
  - destruct (print_dec_digits (Npos p)) as (H1 & H2 & H3).
    exists (print_dec (Npos p)). repeat split; try assumption. right. right. rewrite H3. split; reflexivity.
Qed.

Lemma decimal_nonempty s v : decimal_of s v -> (lenN s =? 0)%N = false.
Proof.
  intros (digits & Hne & _ & [[-> _]|[[-> _]|[-> _]]]); unfold lenN.
  - destruct digits; [congruence|]. cbn [length]. lia.
  - cbn [length]. lia.
  - cbn [length]. lia.
Qed.

(* ------------------------------------------------------------------ LDAP timestamps and durations *)

Lemma ldap_epoch_val : ldap_epoch = 116444736000000000.
Proof. reflexivity. Qed.

Theorem ldap_timestamp_exact s v :
  decimal_of s v -> in_i64 v ->
  ldap_timestamp_to_unix_go s = Ok (ldap_timestamp_to_unix_exact v).
Proof.
  intros Hd Hr. unfold ldap_timestamp_to_unix_go.
  rewrite (decimal_nonempty s v Hd), (parse_int64_decimal s v Hd Hr), ldap_epoch_val.
  unfold_spec.
  destruct (Z.ltb_spec v 116444736000000000) as [Hlt|Hge]; [reflexivity|].
  rewrite wrap64s_id by (unfold in_i64; pows; lia).
  f_equal. zdiv.
Qed.

Theorem ldap_timestamp_out_of_range s v :
  decimal_of s v -> ~ in_i64 v -> ldap_timestamp_to_unix_go s = Ok 0.
Proof.
  intros Hd Hr. unfold ldap_timestamp_to_unix_go.
  rewrite (decimal_nonempty s v Hd), (parse_int64_out_of_range s v Hd Hr). reflexivity.
Qed.

Theorem ldap_timestamp_total s : exists z, ldap_timestamp_to_unix_go s = Ok z.
Proof.
  unfold ldap_timestamp_to_unix_go. destruct (lenN s =? 0)%N; [eauto|].
  pose proof (parse_int64_no_panic s) as Hp.
  destruct (parse_int64 s) as [v| |]; [|eauto|congruence].
  destruct (v <? ldap_epoch); eauto.
Qed.

Theorem ldap_duration_exact s v :
  decimal_of s v -> in_i64 v ->
  ldap_duration_to_seconds_go s = Ok (ldap_duration_to_seconds_exact v).
Proof.
  intros Hd Hr. unfold ldap_duration_to_seconds_go.
  rewrite (decimal_nonempty s v Hd), (parse_int64_decimal s v Hd Hr).
  unfold_spec.
  destruct (Z.ltb_spec (Z.quot v 10000000) 0) as [Hneg|Hpos].
  - rewrite wrap64s_id by (unfold in_i64; pows; zdiv). f_equal. zdiv.
  - f_equal. zdiv.
Qed.

Theorem ldap_duration_out_of_range s v :
  decimal_of s v -> ~ in_i64 v -> ldap_duration_to_seconds_go s = Ok 0.
Proof.
  intros Hd Hr. unfold ldap_duration_to_seconds_go.
  rewrite (decimal_nonempty s v Hd), (parse_int64_out_of_range s v Hd Hr). reflexivity.
Qed.

Theorem ldap_duration_total s : exists z, ldap_duration_to_seconds_go s = Ok z.
Proof.
  unfold ldap_duration_to_seconds_go. destruct (lenN s =? 0)%N; [eauto|].
  pose proof (parse_int64_no_panic s) as Hp.
  destruct (parse_int64 s) as [v| |]; [|eauto|congruence].
  destruct (Z.quot v 10000000 <? 0); eauto.
Qed.

Theorem ldap_seconds_to_duration_exact_thm s :
  ldap_seconds_to_duration_go s = ldap_seconds_to_duration_exact s /\
  decimal_of (ldap_seconds_to_duration_go s) (s * 10 ^ 7).
Proof.
  unfold ldap_seconds_to_duration_go, ldap_seconds_to_duration_exact. pows.
  split; [reflexivity|apply decimal_of_print].
Qed.

Theorem ldap_unix_to_timestamp_exact_thm t :
  in_i64 (ldap_unix_to_timestamp_exact t) ->
  ldap_unix_to_timestamp_go t = ldap_unix_to_timestamp_exact t.
Proof.
  destruct t as [sec nsec]. unfold ldap_unix_to_timestamp_go. rewrite ldap_epoch_val.
  unfold wrap64s. unfold_spec. intros Hr. zdiv.
Qed.

(* seconds -> duration string -> seconds, also through the negative spelling AD stores *)
Theorem ldap_duration_inverse s :
  in_i64 (s * 10 ^ 7) ->
  ldap_duration_to_seconds_go (ldap_seconds_to_duration_go s) = Ok (Z.abs s) /\
  ldap_duration_to_seconds_go (print_decZ (- (Z.abs s * 10 ^ 7))) = Ok (Z.abs s).
Proof.
  intros Hr. split.
  - rewrite (ldap_duration_exact _ (s * 10 ^ 7)); [|apply (proj2 (ldap_seconds_to_duration_exact_thm s))|exact Hr].
    unfold_spec. f_equal. zdiv.
  - rewrite (ldap_duration_exact _ (- (Z.abs s * 10 ^ 7))); [|apply decimal_of_print|].
    + unfold_spec. f_equal. zdiv.
    + unfold_spec. lia.
Qed.

(* time -> timestamp -> unix seconds (from 1970 on; earlier instants are reported as 0) *)
Theorem ldap_timestamp_inverse_unix t :
  in_i64 (ldap_unix_to_timestamp_exact t) ->
  ldap_timestamp_to_unix_go (print_decZ (ldap_unix_to_timestamp_go t)) = Ok (if fst t <? 0 then 0 else fst t).
Proof.
  intros Hr. rewrite ldap_unix_to_timestamp_exact_thm by exact Hr.
  rewrite (ldap_timestamp_exact _ _ (decimal_of_print _) Hr).
  destruct t as [sec nsec]. unfold_spec.
  destruct (Z.ltb_spec sec 0); destruct (Z.ltb_spec ((sec * 1000000000 + 0) / 100 + 116444736000000000) 116444736000000000);
    f_equal; zdiv.
Qed.

(* timestamp -> unix seconds -> timestamp: the timestamp rounded down to a whole second *)
Theorem ldap_timestamp_inverse_ticks v :
  in_i64 v -> filetime_epoch_spec <= v ->
  exists u, ldap_timestamp_to_unix_go (print_decZ v) = Ok u /\
            ldap_unix_to_timestamp_go (u, 0) = v - v mod 10 ^ 7.
Proof.
  intros Hr Hge. eexists. split; [apply (ldap_timestamp_exact _ v (decimal_of_print v) Hr)|].
  unfold ldap_unix_to_timestamp_go. rewrite ldap_epoch_val. unfold wrap64s. unfold_spec.
  destruct (Z.ltb_spec v 116444736000000000); [lia|]. zdiv.
Qed.

(* ------------------------------------------------------------------ key credential DateTime *)

Lemma datetime_seconds_between : wrap64s (fst date_1970 - fst date_1601) = 11644473600.
Proof. vm_compute. reflexivity. Qed.
Lemma datetime_nanos_between :
  wrap64u (wrap64s (unix_nano date_1970 - unix_nano date_1601)) = 11644473600000000000.
Proof. vm_compute. reflexivity. Qed.

Theorem new_datetime_exact now ticks :
  0 < ticks < 2 ^ 64 -> new_datetime_go now ticks = (ticks, datetime_time_exact ticks).
Proof.
  pows. intros Ht. unfold new_datetime_go.
  destruct (Z.eqb_spec ticks 0) as [->|_]; [lia|].
  rewrite datetime_seconds_between.
  rewrite (wrap64s_id (ticks / 10000000)) by (unfold in_i64; pows; zdiv).
  rewrite (wrap64s_id (ticks mod 10000000)) by (unfold in_i64; pows; zdiv).
  rewrite (wrap64s_id (ticks / 10000000 - 11644473600)) by (unfold in_i64; pows; zdiv).
  rewrite (wrap64s_id (ticks mod 10000000 * 100)) by (unfold in_i64; pows; zdiv).
  rewrite time_unix_spec; unfold e9, in_i64; pows; try zdiv.
  unfold_spec. f_equal. f_equal; zdiv.
Qed.

(* The tick count 0 stands for the current time.  That branch still goes through UnixNano and a
   uint64 sum of nanoseconds: the stored tick count is the exact one for a clock between
   1677-09-21 (int64 nanoseconds) and 2185-07-21 (1601-based nanoseconds reach 2^64). *)
Theorem new_datetime_now now :
  valid_time now ->
  - 2 ^ 63 <= fst now * 10 ^ 9 + snd now < 2 ^ 64 - 11644473600 * 10 ^ 9 ->
  new_datetime_go now 0 = (ticks_of_time filetime_epoch_spec now, now).
Proof.
  destruct now as [sec nsec]. intros Hv Hr. unfold new_datetime_go.
  change (0 =? 0) with true. cbv iota. rewrite datetime_nanos_between.
  unfold unix_nano, wrap64u, wrap64s, e9. unfold_spec. f_equal. zdiv.
Qed.

Theorem convert_from_binary_time_total now raw source version :
  convert_from_binary_time_go now raw source version <> Panic.
Proof.
  unfold convert_from_binary_time_go.
  destruct (N.ltb_spec (lenN raw) 8) as [Hs|Hl]; [discriminate|].
  unfold go_le_uint. unfold lenN in Hl.
  destruct (Nat.leb_spec 8 (length raw)) as [_|Hbad]; [|lia]. cbn [bind].
  destruct (_ || _); [discriminate|].
  destruct (version =? kc_version_2); destruct (source =? kc_source_ad); discriminate.
Qed.

Theorem convert_from_binary_time_short now raw source version :
  (lenN raw < 8)%N -> convert_from_binary_time_go now raw source version = Ok zero_datetime.
Proof.
  intros H. unfold convert_from_binary_time_go.
  destruct (N.ltb_spec (lenN raw) 8); [reflexivity|lia].
Qed.

Lemma convert_from_binary_time_le64 now n rest source version :
  (n < 2 ^ 64)%N ->
  convert_from_binary_time_go now (le64 n ++ rest) source version = Ok (new_datetime_go now (Z.of_N n)).
Proof.
  intros Hn. unfold convert_from_binary_time_go, le64.
  rewrite lenN_app, lenN_le_bytes.
  destruct (N.ltb_spec (N.of_nat 8 + lenN rest) 8) as [Hs|_]; [lia|].
  rewrite go_le_uint_app. cbn [bind].
  change (2 ^ (8 * N.of_nat 8))%N with (2 ^ 64)%N. rewrite N.mod_small by exact Hn.
  destruct (_ || _); [reflexivity|].
  destruct (version =? kc_version_2); destruct (source =? kc_source_ad); reflexivity.
Qed.

Theorem convert_from_binary_time_exact now ticks rest source version :
  0 < ticks < 2 ^ 64 ->
  convert_from_binary_time_go now (le64 (Z.to_N ticks) ++ rest) source version
  = Ok (ticks, datetime_time_exact ticks).
Proof.
  intros Ht. rewrite convert_from_binary_time_le64.
  - rewrite Z2N.id by lia. rewrite new_datetime_exact by exact Ht. reflexivity.
  - pows. change (2 ^ 64)%N with 18446744073709551616%N. lia.
Qed.

(* DateTime -> ToBytes -> ConvertFromBinaryTime gives the DateTime back *)
Theorem datetime_bytes_inverse now ticks source version :
  0 < ticks < 2 ^ 64 ->
  let dt := new_datetime_go now ticks in
  datetime_to_ticks dt = ticks /\
  convert_from_binary_time_go now (datetime_to_bytes dt) source version = Ok dt.
Proof.
  intros Ht dt. subst dt. rewrite new_datetime_exact by exact Ht.
  unfold datetime_to_ticks, datetime_to_bytes. cbn [fst]. split; [reflexivity|].
  rewrite <- (app_nil_r (le64 _)). apply convert_from_binary_time_exact. exact Ht.
Qed.

Theorem convert_to_binary_time_exact t source version :
  valid_time t -> in_u64 (ticks_of_time filetime_epoch_spec t) ->
  convert_to_binary_time_go t source version = le64 (Z.to_N (ticks_of_time filetime_epoch_spec t)).
Proof.
  intros Hv Hr. unfold convert_to_binary_time_go. f_equal. f_equal.
  rewrite ticks_of_time_split in * by exact Hv.
  destruct t as [sec nsec]. unfold wrap64u, wrap64s. unfold_spec. zdiv.
Qed.

(* ticks -> DateTime -> ConvertToBinaryTime gives the 8 bytes of the tick count back *)
Theorem convert_to_binary_time_inverse now ticks source version :
  0 < ticks < 2 ^ 64 ->
  convert_to_binary_time_go (snd (new_datetime_go now ticks)) source version = le64 (Z.to_N ticks).
Proof.
  intros Ht. rewrite new_datetime_exact by exact Ht. cbn [snd]. unfold datetime_time_exact.
  rewrite convert_to_binary_time_exact.
  - rewrite ticks_of_time_of_ticks. reflexivity.
  - apply time_of_ticks_valid.
  - rewrite ticks_of_time_of_ticks. unfold in_u64. lia.
Qed.

(* time -> ConvertToBinaryTime -> ConvertFromBinaryTime gives the instant rounded down to a tick *)
Theorem convert_binary_time_inverse now t source version :
  valid_time t -> 0 < ticks_of_time filetime_epoch_spec t < 2 ^ 64 ->
  convert_from_binary_time_go now (convert_to_binary_time_go t source version) source version
  = Ok (ticks_of_time filetime_epoch_spec t, floor_tick t).
Proof.
  intros Hv Hr. rewrite convert_to_binary_time_exact by (try assumption; unfold in_u64; lia).
  rewrite <- (app_nil_r (le64 _)). rewrite convert_from_binary_time_exact by exact Hr.
  unfold datetime_time_exact. rewrite time_of_ticks_of_time by exact Hv. reflexivity.
Qed.

(* ------------------------------------------------------------------ UUID v1 / v2 timestamps *)

Lemma uuid_get_time_exact_gen ts :
  in_u64 ts -> uuid_get_time_go 122192928000000000 ts = uuid_time_exact ts.
Proof.
  unfold in_u64. pows. intros Ht. unfold uuid_get_time_go.
  change (122192928000000000 / 10000000) with 12219292800.
  rewrite (wrap64s_id 12219292800) by (unfold in_i64; pows; lia).
  rewrite (wrap64s_id (ts / 10000000)) by (unfold in_i64; pows; zdiv).
  rewrite (wrap64s_id (ts mod 10000000)) by (unfold in_i64; pows; zdiv).
  rewrite (wrap64s_id (ts / 10000000 - 12219292800)) by (unfold in_i64; pows; zdiv).
  rewrite (wrap64s_id (ts mod 10000000 * 100)) by (unfold in_i64; pows; zdiv).
  rewrite time_unix_spec; unfold e9, in_i64; pows; try zdiv.
  unfold_spec. f_equal; zdiv.
Qed.

Lemma uuid_set_time_exact_gen t :
  valid_time t -> in_u64 (uuid_of_time_exact t) ->
  uuid_set_time_go 122192928000000000 t = uuid_of_time_exact t.
Proof.
  intros Hv Hr. unfold uuid_of_time_exact in *. rewrite ticks_of_time_split in * by exact Hv.
  destruct t as [sec nsec]. unfold uuid_set_time_go, wrap64u, wrap64s. unfold_spec. zdiv.
Qed.

Lemma uuid_inverse_ticks_gen ts :
  in_u64 ts -> uuid_set_time_go 122192928000000000 (uuid_get_time_go 122192928000000000 ts) = ts.
Proof.
  intros Ht. rewrite uuid_get_time_exact_gen by exact Ht. unfold uuid_time_exact.
  rewrite uuid_set_time_exact_gen.
  - apply ticks_of_time_of_ticks.
  - apply time_of_ticks_valid.
  - unfold uuid_of_time_exact. rewrite ticks_of_time_of_ticks. exact Ht.
Qed.

Lemma uuid_inverse_time_gen t :
  valid_time t -> in_u64 (uuid_of_time_exact t) ->
  uuid_get_time_go 122192928000000000 (uuid_set_time_go 122192928000000000 t) = floor_tick t.
Proof.
  intros Hv Hr. rewrite uuid_set_time_exact_gen by assumption.
  rewrite uuid_get_time_exact_gen by exact Hr.
  apply time_of_ticks_of_time. exact Hv.
Qed.

Lemma uuidv1_epoch_val : uuidv1_epoch = 122192928000000000.
Proof. reflexivity. Qed.
Lemma uuidv2_epoch_val : uuidv2_epoch = 122192928000000000.
Proof. reflexivity. Qed.

Theorem uuid_time_exact_thm ts :
  in_u64 ts -> uuidv1_get_time_go ts = uuid_time_exact ts /\ uuidv2_get_time_go ts = uuid_time_exact ts.
Proof.
  intros Ht. unfold uuidv1_get_time_go, uuidv2_get_time_go. rewrite uuidv1_epoch_val, uuidv2_epoch_val.
  split; apply uuid_get_time_exact_gen; exact Ht.
Qed.

Theorem uuid_set_time_exact_thm t :
  valid_time t -> in_u64 (uuid_of_time_exact t) ->
  uuidv1_set_time_go t = uuid_of_time_exact t /\ uuidv2_set_time_go t = uuid_of_time_exact t.
Proof.
  intros Hv Hr. unfold uuidv1_set_time_go, uuidv2_set_time_go. rewrite uuidv1_epoch_val, uuidv2_epoch_val.
  split; apply uuid_set_time_exact_gen; assumption.
Qed.

Theorem uuid_time_inverse_ticks ts :
  in_u64 ts ->
  uuidv1_set_time_go (uuidv1_get_time_go ts) = ts /\ uuidv2_set_time_go (uuidv2_get_time_go ts) = ts.
Proof.
  intros Ht. unfold uuidv1_set_time_go, uuidv2_set_time_go, uuidv1_get_time_go, uuidv2_get_time_go.
  rewrite uuidv1_epoch_val, uuidv2_epoch_val. split; apply uuid_inverse_ticks_gen; exact Ht.
Qed.

Theorem uuid_time_inverse_time t :
  valid_time t -> in_u64 (uuid_of_time_exact t) ->
  uuidv1_get_time_go (uuidv1_set_time_go t) = floor_tick t /\
  uuidv2_get_time_go (uuidv2_set_time_go t) = floor_tick t.
Proof.
  intros Hv Hr. unfold uuidv1_set_time_go, uuidv2_set_time_go, uuidv1_get_time_go, uuidv2_get_time_go.
  rewrite uuidv1_epoch_val, uuidv2_epoch_val. split; apply uuid_inverse_time_gen; assumption.
Qed.

(* ------------------------------------------------------------------ the quantifier's domain *)

(* Every instant from 1601-01-01T00:00:00Z up to and including the last one a signed 64-bit
   tick count reaches (30828-09-14T02:48:05.4775807Z) has a representable FILETIME. *)
Lemma years_1601_30828_representable t :
  valid_time t ->
  days_from_civil 1601 1 1 * 86400 <= fst t ->
  fst t * 10 ^ 9 + snd t <= (days_from_civil 30828 9 14 * 86400 + 2 * 3600 + 48 * 60 + 5) * 10 ^ 9 + 477580799 ->
  0 <= filetime_of_time_exact t < 2 ^ 63.
Proof.
  destruct t as [sec nsec].
  replace (days_from_civil 1601 1 1 * 86400) with (-11644473600) by (vm_compute; reflexivity).
  replace ((days_from_civil 30828 9 14 * 86400 + 2 * 3600 + 48 * 60 + 5) * 10 ^ 9 + 477580799)
    with 910692730085477580799 by (vm_compute; reflexivity).
  unfold_spec. intros Hv Hlo Hhi. zdiv.
Qed.

(* ------------------------------------------------------------------ totality in the C07 form *)

Lemma ldap_timestamp_no_panic s : ldap_timestamp_to_unix_go s <> Panic.
Proof. destruct (ldap_timestamp_total s) as [z ->]. discriminate. Qed.

Lemma ldap_duration_no_panic s : ldap_duration_to_seconds_go s <> Panic.
Proof. destruct (ldap_duration_total s) as [z ->]. discriminate. Qed.
