From Coq Require Import List NArith ZArith String Bool Lia.
From Coq Require Import ZifyN ZifyBool.
From Mant Require Import Model.Flags.
Import ListNotations.
Open Scope N_scope.

(* ---- bit facts ---- *)
Lemma land_pow2 w k : N.land w (2 ^ k) = if N.testbit w k then 2 ^ k else 0.
Proof.
  apply N.bits_inj. intro i. rewrite N.land_spec, N.pow2_bits_eqb.
  destruct (N.eqb_spec k i) as [->|Hne].
  - destruct (N.testbit w i) eqn:E; cbn [andb].
    + now rewrite N.pow2_bits_true.
    + now rewrite N.bits_0.
  - rewrite andb_false_r. destruct (N.testbit w k).
    + symmetry. now apply N.pow2_bits_false.
    + now rewrite N.bits_0.
Qed.

Lemma pow2_nonzero k : 2 ^ k <> 0.
Proof. apply N.pow_nonzero. discriminate. Qed.

Lemma test_single m cz (iseq : bool) w :
  single_bit m = true ->
  (if iseq then cz = m else cz = 0) ->
  test m cz iseq w = N.testbit w (N.log2 m).
Proof.
  unfold single_bit, test. intros Hm Hc. apply N.eqb_eq in Hm.
  assert (Hland : N.land w m = if N.testbit w (N.log2 m) then m else 0).
  { rewrite Hm at 1. rewrite land_pow2. now rewrite <- Hm. }
  assert (Hnz : m <> 0) by (rewrite Hm; apply pow2_nonzero).
  cbv zeta. rewrite Hland.
  destruct iseq; subst cz; destruct (N.testbit w (N.log2 m)).
  - apply N.eqb_refl.
  - apply N.eqb_neq. auto.
  - apply negb_true_iff. now apply N.eqb_neq.
  - reflexivity.
Qed.

(* ---- chains ---- *)
Lemma weak_of_ok e : chain_entry_ok e = true -> chain_entry_ok_weak e = true.
Proof.
  unfold chain_entry_ok, chain_entry_ok_weak. rewrite !andb_true_iff.
  intros [[[[H1 H2] H3] _] H5]. repeat split; assumption.
Qed.

Lemma table_weak_of_ok t : table_ok t = true -> table_ok_weak t = true.
Proof.
  unfold table_ok, table_ok_weak. rewrite !andb_true_iff. intros [[H1 H2] H3].
  repeat split; try assumption. rewrite forallb_forall in *. intros e He. apply weak_of_ok. auto.
Qed.

Lemma entry_holds_bit e w :
  chain_entry_ok_weak e = true -> entry_holds e w = N.testbit w (bit_of (ce_mask e)).
Proof.
  unfold chain_entry_ok_weak, entry_holds, bit_of. rewrite !andb_true_iff.
  intros [[[Hpos Hsb] Hc] _]. apply test_single; [exact Hsb|].
  unfold ce_cmp, ce_mask, ce_eq, ce_cmpz, ce_maskz in *.
  destruct e as [[[[[mi m] ci] c] iseq] l]. destruct iseq.
  - apply andb_true_iff in Hc. destruct Hc as [Hc _]. apply Z.eqb_eq in Hc. now subst.
  - apply Z.eqb_eq in Hc. now subst.
Qed.

Theorem decompose_exact_weak t :
  table_ok_weak t = true -> forall w, decompose t w = set_bit_names t w.
Proof.
  unfold table_ok_weak, decompose, set_bit_names. rewrite !andb_true_iff. intros [[Hall _] _] w.
  f_equal. apply filter_ext_in. intros e He. apply entry_holds_bit.
  rewrite forallb_forall in Hall. auto.
Qed.

Theorem decompose_exact t :
  table_ok t = true -> forall w, decompose t w = set_bit_names t w.
Proof. intros H. apply decompose_exact_weak. now apply table_weak_of_ok. Qed.

Lemma nodupb_NoDup {A} (eqb : A -> A -> bool) (l : list A) :
  (forall x y, eqb x y = true <-> x = y) -> nodupb eqb l = true -> NoDup l.
Proof.
  intros Heq. induction l as [|x l IH]; intros H; [constructor|].
  cbn [nodupb] in H. apply andb_true_iff in H. destruct H as [H1 H2]. constructor; [|auto].
  intros Hin. apply negb_true_iff in H1. assert (existsb (eqb x) l = true); [|congruence].
  apply existsb_exists. exists x. split; [exact Hin|]. now apply Heq.
Qed.

Lemma NoDup_map_filter {A B} (f : A -> B) (p : A -> bool) (l : list A) :
  NoDup (map f l) -> NoDup (map f (filter p l)).
Proof.
  induction l as [|x l IH]; intros H; [constructor|]. cbn [map] in H. inversion H as [|? ? Hn Hd]; subst.
  cbn [filter]. destruct (p x); [|auto]. cbn [map]. constructor; [|auto].
  intros Hin. apply Hn. apply in_map_iff in Hin. destruct Hin as [y [Hy Hin]].
  apply filter_In in Hin. apply in_map_iff. exists y. tauto.
Qed.

Lemma string_eqb_iff x y : String.eqb x y = true <-> x = y.
Proof. apply String.eqb_eq. Qed.

(* each named bit is reported at most once *)
Theorem decompose_nodup t : table_ok_weak t = true -> forall w, NoDup (decompose t w).
Proof.
  unfold table_ok_weak. rewrite !andb_true_iff. intros [[_ _] Hl] w. unfold decompose.
  apply NoDup_map_filter. eapply nodupb_NoDup; [apply string_eqb_iff | exact Hl].
Qed.

(* a name is reported iff it is the name of a table bit that is set *)
Theorem decompose_in t : table_ok_weak t = true -> forall w name,
  In name (decompose t w) <->
  exists e, In e t /\ ce_lit e = name /\ N.testbit w (N.log2 (ce_mask e)) = true.
Proof.
  intros Hok w name. rewrite decompose_exact_weak by exact Hok. unfold set_bit_names, bit_of.
  rewrite in_map_iff. split.
  - intros [e [He Hin]]. apply filter_In in Hin. exists e. tauto.
  - intros [e [Hin [He Hb]]]. exists e. split; [exact He|]. apply filter_In. tauto.
Qed.

(* distinct entries name distinct bits *)
Theorem masks_distinct t : table_ok_weak t = true -> NoDup (map ce_mask t).
Proof.
  unfold table_ok_weak. rewrite !andb_true_iff. intros [[_ Hm] _].
  eapply nodupb_NoDup; [|exact Hm]. intros x y. apply N.eqb_eq.
Qed.

(* ---- predicates ---- *)
Theorem pred_is_its_bit p : pred_ok p = true -> forall w,
  pred_holds p w = (if pred_positive p then N.testbit w (N.log2 (pe_mask p))
                    else negb (N.testbit w (N.log2 (pe_mask p)))).
Proof.
  unfold pred_ok. rewrite !andb_true_iff. intros [[Hpos Hsb] Hc] w.
  destruct p as [[[[[r me] mi] m] c] iseq].
  unfold pred_holds, pred_positive, pe_cmp, pe_mask, pe_eq, pe_cmpz, pe_maskz in *.
  set (M := Z.to_N m) in *.
  pose proof (test_single M M true w Hsb eq_refl) as Hb_pos.
  pose proof (test_single M 0 false w Hsb eq_refl) as Hb_neg.
  unfold test in *. cbv zeta in *.
  destruct (Z.eqb_spec c 0) as [->|Hc0].
  - change (Z.to_N 0) with 0. destruct iseq; cbn [negb].
    + rewrite <- Hb_neg. now rewrite negb_involutive.
    + exact Hb_neg.
  - cbn [orb] in Hc. apply Z.eqb_eq in Hc. subst c. fold M. destruct iseq.
    + exact Hb_pos.
    + now rewrite Hb_pos.
Qed.

Theorem pred_own_bit p : pred_ok p = true -> forall w w',
  N.testbit w (N.log2 (pe_mask p)) = N.testbit w' (N.log2 (pe_mask p)) ->
  pred_holds p w = pred_holds p w'.
Proof. intros Hok w w' H. rewrite !pred_is_its_bit by exact Hok. now rewrite H. Qed.

(* ---- name maps ---- *)
Lemma lookup_in t v n : lookup t v = Some n -> exists e, In e t /\ me_val e = v /\ me_text e = n.
Proof.
  induction t as [|e t IH]; [discriminate|]. cbn [lookup].
  destruct (Z.eqb_spec (me_val e) v) as [Hv|Hv].
  - intros [= <-]. exists e. split; [now left|auto].
  - intros H. destruct (IH H) as [e' [Hin He']]. exists e'. split; [now right|auto].
Qed.

Lemma in_lookup t e : NoDup (map me_val t) -> In e t -> lookup t (me_val e) = Some (me_text e).
Proof.
  induction t as [|x t IH]; intros Hnd Hin; [contradiction|]. cbn [lookup map] in *.
  inversion Hnd as [|? ? Hn Hd]; subst. destruct Hin as [->|Hin].
  - now rewrite Z.eqb_refl.
  - destruct (Z.eqb_spec (me_val x) (me_val e)) as [Hv|Hv]; [|auto].
    exfalso. apply Hn. rewrite Hv. now apply in_map.
Qed.

Lemma z_eqb_iff x y : Z.eqb x y = true <-> x = y.
Proof. apply Z.eqb_eq. Qed.

(* distinct values never share a name, and no name is a placeholder *)
Theorem names_unique t : names_ok t = true -> forall v1 v2 n,
  lookup t v1 = Some n -> lookup t v2 = Some n -> v1 = v2.
Proof.
  unfold names_ok. rewrite !andb_true_iff. intros [[_ Hv] Hn] v1 v2 n H1 H2.
  apply lookup_in in H1. apply lookup_in in H2.
  destruct H1 as [e1 [Hi1 [Hv1 Hn1]]]. destruct H2 as [e2 [Hi2 [Hv2 Hn2]]].
  assert (Hnd : NoDup (map me_text t)) by (eapply nodupb_NoDup; [apply string_eqb_iff|exact Hn]).
  assert (e1 = e2).
  { clear - Hnd Hi1 Hi2 Hn1 Hn2. induction t as [|x t IH]; [contradiction|].
    cbn [map] in Hnd. apply NoDup_cons_iff in Hnd. destruct Hnd as [Hnx Hd].
    destruct Hi1 as [E1|Hi1]; destruct Hi2 as [E2|Hi2].
    - congruence.
    - exfalso. apply Hnx. rewrite E1, Hn1, <- Hn2. now apply in_map.
    - exfalso. apply Hnx. rewrite E2, Hn2, <- Hn1. now apply in_map.
    - now apply IH. }
  subst. congruence.
Qed.

Theorem names_not_placeholder t : names_ok t = true -> forall v n,
  lookup t v = Some n -> placeholder n = false.
Proof.
  unfold names_ok. rewrite !andb_true_iff. intros [[Ha _] _] v n H.
  apply lookup_in in H. destruct H as [e [Hin [_ <-]]].
  rewrite forallb_forall in Ha. specialize (Ha e Hin). apply andb_true_iff in Ha.
  destruct Ha as [_ Ha]. now apply negb_true_iff.
Qed.

Theorem rows_complete_lookup cs t : rows_complete cs t = true -> forall c, In c cs ->
  exists n, lookup t (co_val c) = Some n.
Proof.
  unfold rows_complete. rewrite forallb_forall. intros H c Hc. specialize (H c Hc).
  apply existsb_exists in H. destruct H as [e [Hin Hv]]. apply Z.eqb_eq in Hv.
  clear Hc. induction t as [|x t IH]; [contradiction|]. cbn [lookup].
  destruct (Z.eqb_spec (me_val x) (co_val c)); [eauto|].
  destruct Hin as [->|Hin]; [congruence|auto].
Qed.

Theorem errors_complete_lookup cs t : errors_complete cs t = true -> forall c, In c cs ->
  co_val c <> 0%Z -> exists n, lookup t (co_val c) = Some n.
Proof.
  unfold errors_complete. rewrite forallb_forall. intros H c Hc Hnz. specialize (H c Hc).
  apply orb_true_iff in H. destruct H as [H|H]; [apply Z.eqb_eq in H; contradiction|].
  apply existsb_exists in H. destruct H as [e [Hin Hv]]. apply Z.eqb_eq in Hv.
  clear Hc. induction t as [|x t IH]; [contradiction|]. cbn [lookup].
  destruct (Z.eqb_spec (me_val x) (co_val c)); [eauto|].
  destruct Hin as [->|Hin]; [congruence|auto].
Qed.

(* sorting is a permutation-insensitive canonical order: the sorted output is sorted *)
Fixpoint sortedb (l : list string) : bool :=
  match l with
  | [] => true
  | x :: r => match r with [] => true | y :: _ => String.leb x y && sortedb r end
  end.
