(* C01: Manticore's processChunk (48 Go statements, ff/gg/hh/rol on uint32) is the RFC 1320 compression
   function, for every state and every block. *)
From Coq Require Import List NArith Lia Bool.
From Coq Require Import ZifyN ZifyNat ZifyBool.
From Mant Require Import Prim.Bytes Algo.Word Algo.MD4 Model.Md4Go.
Import ListNotations.
Open Scope N_scope.

(* ------------------------------------------------------------------ *)
(* 32-bit facts *)

Lemma bits_high x n : x < 2 ^ 32 -> 32 <= n -> N.testbit x n = false.
Proof.
  intros Hx Hn. rewrite <- (N.mod_small x (2 ^ 32)) by exact Hx.
  apply N.mod_pow2_bits_high. exact Hn.
Qed.

Lemma lor_lt a b n : a < 2 ^ n -> b < 2 ^ n -> N.lor a b < 2 ^ n.
Proof.
  intros Ha Hb.
  assert (E : N.lor a b = N.lor a b mod 2 ^ n).
  { rewrite <- !N.land_ones, N.land_lor_distr_l, !N.land_ones, !N.mod_small by assumption. reflexivity. }
  rewrite E. apply N.mod_lt. apply N.pow_nonzero. discriminate.
Qed.

Lemma shiftr_le x k : N.shiftr x k <= x.
Proof.
  rewrite N.shiftr_div_pow2.
  assert (H : 2 ^ k <> 0) by (apply N.pow_nonzero; discriminate).
  apply N.div_le_upper_bound; [exact H|]. nia.
Qed.

Lemma rotl32_lt x s : rotl32 x s < 2 ^ 32.
Proof.
  unfold rotl32. apply lor_lt; [apply w32_lt|].
  eapply N.le_lt_trans; [apply shiftr_le|apply w32_lt].
Qed.

(* the Go rotation applied to a truncated sum is the RFC's circular shift *)
Lemma rol_w32 v s : rol (w32 v) s = rotl32 v s.
Proof.
  unfold rol, rotl32. f_equal.
  rewrite !w32_spec, !N.shiftl_mul_pow2, N.mul_mod_idemp_l by discriminate. reflexivity.
Qed.

(* ------------------------------------------------------------------ *)
(* the three bit-level identities, for ALL 32-bit words *)

(* d ^ (b & (c ^ d))  =  F(b,c,d) = bc v not(b)d *)
Lemma go_F_eq b c d : b < 2 ^ 32 -> d < 2 ^ 32 ->
  N.lxor d (N.land b (N.lxor c d)) = md4_F b c d.
Proof.
  intros Hb Hd. apply N.bits_inj. intro n. unfold md4_F, not32, w32.
  repeat (rewrite N.lxor_spec || rewrite N.land_spec || rewrite N.lor_spec).
  change 0xFFFFFFFF with (N.ones 32).
  destruct (N.lt_ge_cases n 32) as [Hn|Hn].
  - rewrite N.ones_spec_low by exact Hn.
    destruct (N.testbit b n), (N.testbit c n), (N.testbit d n); reflexivity.
  - rewrite N.ones_spec_high by exact Hn.
    rewrite (bits_high b n Hb Hn), (bits_high d n Hd Hn).
    destruct (N.testbit c n); reflexivity.
Qed.

(* (b & c) | (d & (b | c))  =  G(b,c,d) = bc v bd v cd *)
Lemma go_G_eq b c d : N.lor (N.land b c) (N.land d (N.lor b c)) = md4_G b c d.
Proof.
  apply N.bits_inj. intro n. unfold md4_G.
  repeat (rewrite N.lxor_spec || rewrite N.land_spec || rewrite N.lor_spec).
  destruct (N.testbit b n), (N.testbit c n), (N.testbit d n); reflexivity.
Qed.

(* b ^ c ^ d  =  H(b,c,d) *)
Lemma go_H_eq b c d : N.lxor (N.lxor b c) d = md4_H b c d.
Proof. reflexivity. Qed.

Lemma ff_eq a b c d x s : b < 2 ^ 32 -> d < 2 ^ 32 ->
  ff a b c d x s = rotl32 (a + md4_F b c d + x + 0) s.
Proof. intros Hb Hd. unfold ff. rewrite rol_w32, go_F_eq, N.add_0_r by assumption. reflexivity. Qed.

Lemma gg_eq a b c d x s : gg a b c d x s = rotl32 (a + md4_G b c d + x + 0x5A827999) s.
Proof. unfold gg. rewrite rol_w32, go_G_eq. reflexivity. Qed.

Lemma hh_eq a b c d x s : hh a b c d x s = rotl32 (a + md4_H b c d + x + 0x6ED9EBA1) s.
Proof. unfold hh. rewrite rol_w32, go_H_eq. reflexivity. Qed.

(* ------------------------------------------------------------------ *)
(* the schedule: the 48 Go statements are the RFC's three round tables, with the register roles
   rotating [ABCD] [DABC] [CDAB] [BCDA] *)

Definition nextp (p : N) : N := match p with 0 => 1 | 1 => 2 | 2 => 3 | _ => 0 end.

Definition rot_stmt (f : N) (p : N) (ks : nat * N) : stmt :=
  let '(k, s) := ks in
  match p with
  | 0 => S_ f rA rA rB rC rD k s
  | 1 => S_ f rD rD rA rB rC k s
  | 2 => S_ f rC rC rD rA rB k s
  | _ => S_ f rB rB rC rD rA k s
  end.

Fixpoint rot_stmts (f : N) (p : N) (l : list (nat * N)) : list stmt :=
  match l with
  | [] => []
  | ks :: r => rot_stmt f p ks :: rot_stmts f (nextp p) r
  end.

Definition rfc_schedule : list stmt :=
  rot_stmts FF 0 md4_round1 ++ rot_stmts GG 0 md4_round2 ++ rot_stmts HH 0 md4_round3.

Lemma go_schedule_rfc : go_schedule = rfc_schedule.
Proof. reflexivity. Qed.

(* the Go variables (a, b, c, d) that correspond to the RFC's rotating 4-tuple in phase p *)
Definition unrot (p : N) (st : md4_state) : regs :=
  let '(x, y, z, w) := st in
  match p with
  | 0 => (x, y, z, w)
  | 1 => (y, z, w, x)
  | 2 => (z, w, x, y)
  | _ => (w, x, y, z)
  end.

Definition wf_regs (r : regs) : Prop :=
  let '(a, b, c, d) := r in a < 2 ^ 32 /\ b < 2 ^ 32 /\ c < 2 ^ 32 /\ d < 2 ^ 32.

Definition phase_ok (p : N) : Prop := p = 0 \/ p = 1 \/ p = 2 \/ p = 3.

Lemma nextp_ok p : phase_ok p -> phase_ok (nextp p).
Proof. unfold phase_ok. intros [->|[->|[->| ->]]]; cbn; auto. Qed.

(* which RFC function / constant a Go function code stands for *)
Definition fn_ok (f : N) (Fn : N -> N -> N -> N) (const : N) : Prop :=
  (f = FF /\ Fn = md4_F /\ const = 0) \/
  (f = GG /\ Fn = md4_G /\ const = 0x5A827999) \/
  (f = HH /\ Fn = md4_H /\ const = 0x6ED9EBA1).

Lemma go_fn_eq f Fn const a b c d x s : fn_ok f Fn const -> b < 2 ^ 32 -> d < 2 ^ 32 ->
  go_fn f a b c d x s = rotl32 (a + Fn b c d + x + const) s.
Proof.
  intros [(-> & -> & ->)|[(-> & -> & ->)|(-> & -> & ->)]] Hb Hd; cbn [go_fn FF GG HH].
  - apply ff_eq; assumption.
  - apply gg_eq.
  - apply hh_eq.
Qed.

Lemma step_eq f Fn const X p st ks : fn_ok f Fn const -> phase_ok p -> wf_regs st ->
  exec_stmt X (unrot p st) (rot_stmt f p ks) = unrot (nextp p) (md4_op Fn const X st ks)
  /\ wf_regs (md4_op Fn const X st ks).
Proof.
  intros Hf Hp Hwf. destruct st as [[[x y] z] w]. destruct ks as [k s].
  destruct Hwf as (Hx & Hy & Hz & Hw).
  split.
  - destruct Hp as [->|[->|[->| ->]]];
      cbn [exec_stmt rot_stmt unrot nextp S_ get_reg set_reg rA rB rC rD md4_op];
      rewrite (go_fn_eq f Fn const) by assumption; reflexivity.
  - cbn [md4_op wf_regs]. repeat split; try assumption. apply rotl32_lt.
Qed.

Lemma round_eq f Fn const X : fn_ok f Fn const -> forall l p st, phase_ok p -> wf_regs st ->
  fold_left (exec_stmt X) (rot_stmts f p l) (unrot p st)
  = unrot (fold_left (fun q _ => nextp q) l p) (fold_left (md4_op Fn const X) l st)
  /\ wf_regs (fold_left (md4_op Fn const X) l st).
Proof.
  intros Hf. induction l as [|ks l IH]; intros p st Hp Hwf.
  - cbn. auto.
  - cbn [rot_stmts fold_left].
    destruct (step_eq f Fn const X p st ks Hf Hp Hwf) as [E W].
    rewrite E. apply IH; [apply nextp_ok; exact Hp|exact W].
Qed.

Lemma wf_md4_compress st X : wf_regs (md4_compress st X).
Proof.
  unfold md4_compress. destruct st as [[[aa bb] cc] dd].
  destruct (fold_left _ md4_round3 _) as [[[a b] c] d].
  cbn [wf_regs]. repeat split; apply w32_lt.
Qed.

Lemma wf_md4_init : wf_regs md4_init.
Proof. cbn. repeat split; reflexivity. Qed.

Lemma unrot0 st : unrot 0 st = st.
Proof. destruct st as [[[x y] z] w]. reflexivity. Qed.

(* one round of 16 statements starting and ending in phase 0 *)
Lemma round16_eq f Fn const X l st : fn_ok f Fn const -> wf_regs st ->
  fold_left (fun q (_ : nat * N) => nextp q) l 0 = 0 ->
  fold_left (exec_stmt X) (rot_stmts f 0 l) st = fold_left (md4_op Fn const X) l st
  /\ wf_regs (fold_left (md4_op Fn const X) l st).
Proof.
  intros Hf Hwf Hp.
  destruct (round_eq f Fn const X Hf l 0 st ltac:(left; reflexivity) Hwf) as [E W].
  rewrite Hp, !unrot0 in E. auto.
Qed.

(* processChunk = RFC 1320 section 3.4, for every 32-bit state and every block *)
Theorem process_chunk_rfc h chunk : wf_regs h ->
  process_chunk h chunk = md4_compress h (words_le chunk).
Proof.
  intros Hwf. unfold process_chunk, md4_compress.
  set (X := words_le chunk).
  rewrite go_schedule_rfc. unfold rfc_schedule. rewrite !fold_left_app.
  destruct (round16_eq FF md4_F 0 X md4_round1 h ltac:(left; auto) Hwf eq_refl) as [E1 W1].
  rewrite E1. set (st1 := fold_left (md4_op md4_F 0 X) md4_round1 h) in *. clearbody st1.
  destruct (round16_eq GG md4_G 0x5A827999 X md4_round2 st1 ltac:(right; left; auto) W1 eq_refl) as [E2 W2].
  rewrite E2. set (st2 := fold_left (md4_op md4_G 0x5A827999 X) md4_round2 st1) in *. clearbody st2.
  destruct (round16_eq HH md4_H 0x6ED9EBA1 X md4_round3 st2 ltac:(right; right; auto) W2 eq_refl) as [E3 W3].
  rewrite E3. set (st3 := fold_left (md4_op md4_H 0x6ED9EBA1 X) md4_round3 st2) in *. clearbody st3.
  destruct h as [[[h0 h1] h2] h3]. destruct st3 as [[[a b] c] d].
  rewrite (N.add_comm h0), (N.add_comm h1), (N.add_comm h2), (N.add_comm h3). reflexivity.
Qed.
