(* C18 — proofs about the concurrent part: isolation of handler goroutines over all schedules,
   the LLMNR client's demultiplexer, and shutdown of the datagram loops. *)
From Coq Require Import List NArith Bool Lia Arith.
From Coq Require Import ZifyN ZifyNat ZifyBool.
From Mant Require Import Prim.R Prim.Val Prim.Bytes Gen.ConstsC18 Model.NbnsServer Model.NameSrvConc Spec.C18.
Import ListNotations.
Open Scope nat_scope.

(* ------------------------------------------------------------------ update_nth *)

Lemma update_nth_length {A} (f : A -> A) : forall i l, length (update_nth i f l) = length l.
Proof. induction i as [|i IH]; intros [|x l]; simpl; auto. Qed.

Lemma update_nth_Forall {A} (P : A -> Prop) (f : A -> A) :
  (forall x, P x -> P (f x)) -> forall i l, Forall P l -> Forall P (update_nth i f l).
Proof.
  intros Hf. induction i as [|i IH]; intros [|x l] H; simpl; auto; inversion H; subst; constructor; auto.
Qed.

Lemma nth_update_nth_eq {A} (f : A -> A) d : forall i l, i < length l -> nth i (update_nth i f l) d = f (nth i l d).
Proof. induction i as [|i IH]; intros [|x l] H; simpl in *; try lia; auto. apply IH. lia. Qed.

Lemma nth_update_nth_neq {A} (f : A -> A) d : forall i j l, i <> j -> nth j (update_nth i f l) d = nth j l d.
Proof.
  induction i as [|i IH]; intros [|j] [|x l] H; simpl; auto; try lia; try (apply IH; lia).
Qed.

(* ------------------------------------------------------------------ C18_isolation *)

Definition copy_inv (h : hthread) : Prop :=
  ht_arg h = ArgCopy (ht_for h) /\ (ht_seen h = None \/ ht_seen h = Some (ht_for h)).

Lemma firstn_own {A} (d x : list A) : firstn (length d) (d ++ x) = d.
Proof. rewrite firstn_app, Nat.sub_diag, firstn_all. cbn. apply app_nil_r. Qed.

Lemma rstep_copy_inv s e : Forall copy_inv (rs_threads s) -> Forall copy_inv (rs_threads (rstep true s e)).
Proof.
  intros H. destruct e as [d|i]; cbn.
  - apply Forall_app. split; [exact H|]. constructor; [|constructor].
    unfold copy_inv; cbn. rewrite firstn_own. auto.
  - apply update_nth_Forall; [|exact H].
    intros h [Harg Hseen]. unfold run_thread, copy_inv.
    destruct (ht_seen h) eqn:Hs; cbn; [rewrite Hs; auto|]. rewrite Harg. auto.
Qed.

Lemma rrun_copy_inv sched : forall s, Forall copy_inv (rs_threads s) ->
  Forall copy_inv (rs_threads (fold_left (rstep true) sched s)).
Proof. induction sched as [|e sched IH]; intros s H; cbn; auto. apply IH, rstep_copy_inv, H. Qed.

Lemma isolation_copy : forall bufsize sched, isolated (rrun true bufsize sched).
Proof.
  intros bufsize sched. unfold isolated, rrun.
  eapply Forall_impl; [|apply rrun_copy_inv; constructor].
  intros h [_ [->| ->]]; auto.
Qed.

(* every datagram received got its own handler, in order, whatever the schedule *)
Fixpoint received (bufsize : nat) (sched : list recv_ev) : list bytes :=
  match sched with
  | [] => []
  | EvRecv d :: r => firstn bufsize d :: received bufsize r
  | EvRun _ :: r => received bufsize r
  end.

Lemma rstep_buf_length copy s e : length (rs_buf (rstep copy s e)) = length (rs_buf s).
Proof.
  destruct e as [d|i]; cbn; auto. rewrite app_length, skipn_length, firstn_length. lia.
Qed.

Lemma handlers_match_datagrams copy sched : forall s,
  map ht_for (rs_threads (fold_left (rstep copy) sched s)) =
  map ht_for (rs_threads s) ++ received (length (rs_buf s)) sched.
Proof.
  induction sched as [|e sched IH]; intros s; cbn [fold_left received].
  - now rewrite app_nil_r.
  - rewrite IH, rstep_buf_length. destruct e as [d|i]; cbn.
    + rewrite map_app, <- app_assoc. reflexivity.
    + f_equal. clear. generalize (rs_threads s). induction i as [|i IHi]; intros [|h l]; cbn; auto.
      * f_equal. unfold run_thread. destruct (ht_seen h); reflexivity.
      * f_equal. apply IHi.
Qed.

(* a handler that has been scheduled after its start has parsed something *)
Lemma scheduled_handler_ran copy s i : i < length (rs_threads s) ->
  ht_seen (nth i (rs_threads (rstep copy s (EvRun i))) {| ht_for := []; ht_arg := ArgShared 0; ht_seen := None |}) <> None.
Proof.
  intros H. cbn. rewrite nth_update_nth_eq by exact H. unfold run_thread.
  destruct (ht_seen (nth i (rs_threads s) _)) eqn:E; cbn; [rewrite E|]; discriminate.
Qed.

(* with the shared slice, two datagrams and a late handler break isolation *)
Lemma isolation_shared_refuted :
  exists bufsize sched, ~ isolated (rrun false bufsize sched).
Proof.
  exists 8%nat, [EvRecv [1; 1]%N; EvRecv [2; 2]%N; EvRun 0].
  vm_compute. intros H. inversion H as [|h l Hh Hl]; subst. discriminate.
Qed.

(* ------------------------------------------------------------------ C18_llmnr_demux *)

Lemma dmap_get_In m id ch : dmap_get m id = Some ch -> In (id, ch) m.
Proof.
  induction m as [|[k v] m IH]; cbn; [discriminate|].
  destruct (N.eqb_spec k id); intros H; [inversion H; subst; auto|auto].
Qed.

Lemma dmap_get_del_neq m i id : i <> id -> dmap_get (dmap_del m i) id = dmap_get m id.
Proof.
  intros Hne. induction m as [|[k v] m IH]; cbn; [reflexivity|].
  destruct (N.eqb_spec k i); cbn.
  - subst k. destruct (N.eqb_spec i id); [congruence|]. exact IH.
  - destruct (N.eqb_spec k id); [reflexivity|exact IH].
Qed.

Lemma dmap_del_In m i kv : In kv (dmap_del m i) -> In kv m.
Proof. unfold dmap_del. intros H. apply filter_In in H. tauto. Qed.

Section Demux.
  Variables (id : N) (ch : nat).

  Definition dinv (s : dstate) : Prop :=
    (forall k v, In (k, v) (d_map s) -> v < length (d_chans s)) /\
    (forall k, In (k, ch) (d_map s) -> k = id) /\
    dmap_get (d_map s) id = Some ch.

  Definition keep (c : option (N * bytes)) (r : option (N * bytes)) : option (N * bytes) :=
    match c with Some x => Some x | None => r end.

  Lemma dstep_inv s e : dinv s -> undisturbed id [e] = true ->
    dinv (dstep s e) /\
    nth ch (d_chans (dstep s e)) None = keep (nth ch (d_chans s) None) (first_response id [e]).
  Proof.
    intros (Hb & Hu & Hg) Hund.
    assert (Hch : ch < length (d_chans s)) by (eapply Hb, dmap_get_In; eauto).
    destruct e as [i|i|i fl name]; cbn [undisturbed] in Hund; cbn [dstep first_response].
    - assert (Hne : i <> id) by (destruct (N.eqb_spec i id); [discriminate|auto]).
      split.
      + repeat split; cbn [d_map d_chans].
        * intros k v [E|Hin]; rewrite app_length; cbn.
          -- inversion E; subst. lia.
          -- apply dmap_del_In in Hin. apply Hb in Hin. lia.
        * intros k [E|Hin]; [inversion E; subst; lia|]. apply dmap_del_In in Hin. auto.
        * cbn. destruct (N.eqb_spec i id); [congruence|]. rewrite dmap_get_del_neq; auto.
      + cbn [d_chans]. rewrite app_nth1 by exact Hch. destruct (nth ch (d_chans s) None); reflexivity.
    - assert (Hne : i <> id) by (destruct (N.eqb_spec i id); [discriminate|auto]).
      split.
      + repeat split; cbn [d_map d_chans].
        * intros k v Hin. apply dmap_del_In in Hin. eauto.
        * intros k Hin. apply dmap_del_In in Hin. auto.
        * rewrite dmap_get_del_neq; auto.
      + cbn [d_chans]. destruct (nth ch (d_chans s) None); reflexivity.
    - destruct (llmnr_is_query fl) eqn:Hq; cbn [negb andb].
      + split; [repeat split; auto|]. destruct (nth ch (d_chans s) None); reflexivity.
      + destruct (dmap_get (d_map s) i) as [c|] eqn:Hgi.
        * split.
          -- repeat split; cbn [d_map d_chans]; auto.
             intros k v Hin. rewrite update_nth_length. eauto.
          -- cbn [d_chans]. destruct (N.eqb_spec i id) as [->|Hne].
             ++ rewrite Hg in Hgi. inversion Hgi; subst c.
                rewrite nth_update_nth_eq by exact Hch.
                destruct (nth ch (d_chans s) None); reflexivity.
             ++ assert (c <> ch).
                { intros ->. apply dmap_get_In in Hgi. apply Hu in Hgi. congruence. }
                rewrite nth_update_nth_neq by auto.
                destruct (nth ch (d_chans s) None); reflexivity.
        * split; [repeat split; auto|].
          destruct (N.eqb_spec i id) as [->|Hne]; [congruence|].
          destruct (nth ch (d_chans s) None); reflexivity.
  Qed.

  Lemma undisturbed_cons e post : undisturbed id (e :: post) = undisturbed id [e] && undisturbed id post.
  Proof. destruct e; cbn; rewrite ?andb_true_r; reflexivity. Qed.

  Lemma first_response_cons e post :
    first_response id (e :: post) = keep (first_response id [e]) (first_response id post).
  Proof. destruct e as [i|i|i fl name]; cbn; auto. destruct (negb (llmnr_is_query fl) && N.eqb i id); reflexivity. Qed.

  Lemma drun_inv post : forall s, dinv s -> undisturbed id post = true ->
    nth ch (d_chans (fold_left dstep post s)) None = keep (nth ch (d_chans s) None) (first_response id post).
  Proof.
    induction post as [|e post IH]; intros s Hinv Hund.
    - cbn. destruct (nth ch (d_chans s) None); reflexivity.
    - rewrite undisturbed_cons in Hund. apply andb_true_iff in Hund. destruct Hund as [H1 H2].
      destruct (dstep_inv s e Hinv H1) as [Hinv' Hnth].
      cbn [fold_left]. rewrite (IH _ Hinv' H2), Hnth, (first_response_cons e post).
      destruct (nth ch (d_chans s) None), (first_response id [e]); reflexivity.
  Qed.
End Demux.

Lemma dstep_bound s e : (forall k v, In (k, v) (d_map s) -> v < length (d_chans s)) ->
  (forall k v, In (k, v) (d_map (dstep s e)) -> v < length (d_chans (dstep s e))).
Proof.
  intros Hb. destruct e as [i|i|i fl name]; cbn [dstep].
  - cbn. intros k v [E|Hin]; rewrite app_length; cbn.
    + inversion E; subst; lia.
    + apply dmap_del_In in Hin. apply Hb in Hin. lia.
  - cbn. intros k v Hin. apply dmap_del_In in Hin. eauto.
  - destruct (llmnr_is_query fl); [exact Hb|]. destruct (dmap_get (d_map s) i); [|exact Hb].
    cbn. intros k v Hin. rewrite update_nth_length. eauto.
Qed.

Lemma drun_bound evs : forall s, (forall k v, In (k, v) (d_map s) -> v < length (d_chans s)) ->
  (forall k v, In (k, v) (d_map (fold_left dstep evs s)) -> v < length (d_chans (fold_left dstep evs s))).
Proof. induction evs as [|e evs IH]; intros s Hb; cbn; auto. apply IH, dstep_bound, Hb. Qed.

(* The query started by the Store after `pre` owns channel number |channels after pre|; as long as
   its id is neither stored again nor deleted, that channel holds exactly the FIRST response
   carrying its id - never a message with another id, never a query. *)
Lemma llmnr_demux : forall pre id post,
  undisturbed id post = true ->
  let ch := length (d_chans (drun pre)) in
  nth ch (d_chans (drun (pre ++ DStore id :: post))) None = first_response id post.
Proof.
  intros pre id post Hund ch. unfold drun. rewrite fold_left_app. cbn [fold_left].
  fold (drun pre). set (s0 := drun pre) in *.
  assert (Hb0 : forall k v, In (k, v) (d_map s0) -> v < length (d_chans s0)).
  { unfold s0, drun. apply drun_bound. cbn. intros k v []. }
  rewrite (drun_inv id ch post); [| |exact Hund].
  - cbn [dstep d_chans]. rewrite app_nth2 by (unfold ch; lia). unfold ch. rewrite Nat.sub_diag. reflexivity.
  - repeat split; cbn [dstep d_map d_chans].
    + intros k v [E|Hin]; rewrite app_length; cbn.
      * inversion E; subst. lia.
      * apply dmap_del_In in Hin. apply Hb0 in Hin. lia.
    + intros k [E|Hin]; [inversion E; auto|]. apply dmap_del_In in Hin. apply Hb0 in Hin. unfold ch in Hin. lia.
    + cbn. rewrite N.eqb_refl. reflexivity.
Qed.

Lemma first_response_id id post m name : first_response id post = Some (m, name) -> m = id.
Proof.
  induction post as [|e post IH]; cbn; [discriminate|].
  destruct e as [i|i|i fl nm]; auto.
  destruct (negb (llmnr_is_query fl) && N.eqb i id) eqn:E; auto.
  intros H. inversion H; subst. apply andb_true_iff in E. destruct E as [_ E]. now apply N.eqb_eq.
Qed.

(* the LLMNR server loop hands only queries to the handlers and the response writer marks responses *)
Lemma llmnr_query_bit : forall flags, llmnr_is_query flags = negb (N.testbit flags 15).
Proof.
  intros flags. unfold llmnr_is_query. change c18_LlmnrFlagQR with (2 ^ 15)%N.
  destruct (N.testbit flags 15) eqn:Hb; cbn [negb].
  - apply N.eqb_neq. intros H. assert (N.testbit (N.land flags (2 ^ 15)) 15 = true).
    { rewrite N.land_spec, Hb, N.pow2_bits_true. reflexivity. }
    rewrite H in H0. discriminate.
  - apply N.eqb_eq. apply N.bits_inj. intros n. rewrite N.land_spec, N.bits_0.
    destruct (N.eq_dec n 15) as [->|Hn]; [rewrite Hb; reflexivity|].
    rewrite N.pow2_bits_false by auto. apply andb_false_r.
Qed.

Lemma llmnr_response_marked : forall flags, llmnr_is_query (llmnr_set_response flags) = false.
Proof.
  intros flags. rewrite llmnr_query_bit. unfold llmnr_set_response.
  change c18_LlmnrFlagQR with (2 ^ 15)%N. rewrite N.lor_spec, N.pow2_bits_true, orb_true_r. reflexivity.
Qed.

(* ------------------------------------------------------------------ ranking argument for bounded liveness *)

Section Rank.
  Variables (St Ev : Type) (step : St -> Ev -> St) (inv : St -> Prop) (rank : St -> nat) (hit : Ev -> bool).
  Hypothesis inv_step : forall s e, inv s -> inv (step s e).
  Hypothesis rank_mono : forall s e, inv s -> rank (step s e) <= rank s.
  Hypothesis rank_dec : forall s e, inv s -> hit e = true -> 0 < rank s -> rank (step s e) < rank s.

  Lemma rank_run : forall sched s, inv s -> rank s <= length (filter hit sched) ->
    inv (fold_left step sched s) /\ rank (fold_left step sched s) = 0.
  Proof.
    induction sched as [|e sched IH]; intros s Hinv Hr; cbn [fold_left].
    - cbn in Hr. split; [auto|lia].
    - apply IH; [auto|]. cbn [filter] in Hr.
      pose proof (rank_mono s e Hinv). destruct (hit e) eqn:He; cbn [length] in Hr; [|lia].
      destruct (Nat.eq_dec (rank s) 0); [lia|]. pose proof (rank_dec s e Hinv He). lia.
  Qed.

  Lemma inv_run : forall sched s, inv s -> inv (fold_left step sched s).
  Proof. induction sched as [|e sched IH]; intros s H; cbn; auto. Qed.
End Rank.

(* ------------------------------------------------------------------ C18_shutdown_model: datagram loops *)

Definition uwf (s : ustate) : Prop :=
  match u_stop s with
  | SIdle => True
  | SQuitClosed => u_quit s = true
  | SConnClosed => u_quit s = true /\ u_conn_closed s = true
  | SDone => u_quit s = true /\ u_conn_closed s = true /\ u_loop s = LExited
  end.

Definition stop_rank (s : ustate) : nat :=
  match u_stop s with SIdle => 2 | SQuitClosed => 1 | _ => 0 end.
Definition loop_rank (s : ustate) : nat :=
  match u_loop s with LRead | LDispatch => 2 | LSelect => 1 | LExited => 0 end.
Definition wait_rank (s : ustate) : nat :=
  match u_stop s with SDone => 0 | _ => 1 end.

Ltac ucrush :=
  intros [pc q c n st h] e; unfold uwf, stop_rank, loop_rank, wait_rank;
  destruct e, pc, st, q, c; try destruct n; cbn; intuition (try congruence; try lia).

Lemma uwf_step : forall s e, uwf s -> uwf (ustep s e).
Proof. ucrush. Qed.

Lemma stop_rank_mono : forall s e, uwf s -> stop_rank (ustep s e) <= stop_rank s.
Proof. ucrush. Qed.
Lemma stop_rank_dec : forall s e, uwf s -> uev_eqb UStop e = true -> 0 < stop_rank s -> stop_rank (ustep s e) < stop_rank s.
Proof. ucrush. Qed.

Definition uinv2 (s : ustate) : Prop := uwf s /\ stop_rank s = 0.
Lemma uinv2_step : forall s e, uinv2 s -> uinv2 (ustep s e).
Proof. unfold uinv2. ucrush. Qed.
Lemma loop_rank_mono : forall s e, uinv2 s -> loop_rank (ustep s e) <= loop_rank s.
Proof. unfold uinv2. ucrush. Qed.
Lemma loop_rank_dec : forall s e, uinv2 s -> uev_eqb ULoop e = true -> 0 < loop_rank s -> loop_rank (ustep s e) < loop_rank s.
Proof. unfold uinv2. ucrush. Qed.

Definition uinv3 (s : ustate) : Prop := uwf s /\ stop_rank s = 0 /\ loop_rank s = 0.
Lemma uinv3_step : forall s e, uinv3 s -> uinv3 (ustep s e).
Proof. unfold uinv3. ucrush. Qed.
Lemma wait_rank_mono : forall s e, uinv3 s -> wait_rank (ustep s e) <= wait_rank s.
Proof. unfold uinv3. ucrush. Qed.
Lemma wait_rank_dec : forall s e, uinv3 s -> uev_eqb UStop e = true -> 0 < wait_rank s -> wait_rank (ustep s e) < wait_rank s.
Proof. unfold uinv3. ucrush. Qed.

(* Serve/readLoop/serve has returned once Stop/Close has made its two steps and the loop goroutine two more *)
Lemma loop_exits : forall s s1 s2, uwf s ->
  2 <= ucount UStop s1 -> 2 <= ucount ULoop s2 ->
  u_loop (urun s (s1 ++ s2)) = LExited /\ u_quit (urun s (s1 ++ s2)) = true.
Proof.
  intros s s1 s2 Hwf H1 H2. unfold urun. rewrite fold_left_app.
  destruct (rank_run _ _ ustep uwf stop_rank (uev_eqb UStop) uwf_step stop_rank_mono stop_rank_dec s1 s Hwf) as [Ha Hb].
  { unfold ucount in H1. pose proof (stop_rank_mono s UArrive Hwf). unfold stop_rank in *. destruct (u_stop s); lia. }
  set (sa := fold_left ustep s1 s) in *.
  destruct (rank_run _ _ ustep uinv2 loop_rank (uev_eqb ULoop) uinv2_step loop_rank_mono loop_rank_dec s2 sa (conj Ha Hb)) as [[Hc Hd] He].
  { unfold ucount in H2. unfold loop_rank. destruct (u_loop sa); lia. }
  set (sb := fold_left ustep s2 sa) in *.
  unfold loop_rank in He. unfold uwf, stop_rank in Hc, Hd.
  destruct (u_loop sb); try lia. split; [reflexivity|].
  destruct (u_stop sb); try lia; tauto.
Qed.

Lemma shutdown_udp : forall s s1 s2 s3, uwf s ->
  2 <= ucount UStop s1 -> 2 <= ucount ULoop s2 -> 1 <= ucount UStop s3 ->
  udp_stopped (urun s (s1 ++ s2 ++ s3)).
Proof.
  intros s s1 s2 s3 Hwf H1 H2 H3. unfold urun. rewrite !fold_left_app.
  destruct (rank_run _ _ ustep uwf stop_rank (uev_eqb UStop) uwf_step stop_rank_mono stop_rank_dec s1 s Hwf) as [Ha Hb].
  { unfold ucount in H1. unfold stop_rank. destruct (u_stop s); lia. }
  set (sa := fold_left ustep s1 s) in *.
  destruct (rank_run _ _ ustep uinv2 loop_rank (uev_eqb ULoop) uinv2_step loop_rank_mono loop_rank_dec s2 sa (conj Ha Hb)) as [[Hc Hd] He].
  { unfold ucount in H2. unfold loop_rank. destruct (u_loop sa); lia. }
  set (sb := fold_left ustep s2 sa) in *.
  destruct (rank_run _ _ ustep uinv3 wait_rank (uev_eqb UStop) uinv3_step wait_rank_mono wait_rank_dec s3 sb (conj Hc (conj Hd He))) as [[Hf [Hg Hh]] Hi].
  { unfold ucount in H3. unfold wait_rank. destruct (u_stop sb); lia. }
  set (sc := fold_left ustep s3 sb) in *.
  unfold udp_stopped. unfold loop_rank in Hh. unfold wait_rank in Hi.
  destruct (u_loop sc); try lia. destruct (u_stop sc); try lia. auto.
Qed.

(* safety: the loop only ever exits because quit was closed *)
Lemma loop_exit_needs_stop : forall sched s,
  (u_loop s = LExited -> u_quit s = true) ->
  u_loop (urun s sched) = LExited -> u_quit (urun s sched) = true.
Proof.
  unfold urun. induction sched as [|e sched IH]; intros s H; cbn [fold_left]; [exact H|].
  apply IH. clear IH. revert H. destruct s as [pc q c n st h]. destruct e, pc, st, q, c; try destruct n; cbn; intuition congruence.
Qed.

(* the loop is never stuck once Stop has done its part: from every state after Stop's two steps the
   next loop step makes progress (no deadlock) *)
Lemma no_deadlock_after_stop : forall s, uwf s -> stop_rank s = 0 -> u_loop s <> LExited ->
  loop_rank (ustep s ULoop) < loop_rank s.
Proof.
  intros s Hwf Hs Hne. apply loop_rank_dec; [split; auto|reflexivity|].
  unfold loop_rank. destruct (u_loop s); try lia. congruence.
Qed.
