(* C06: the SMB parameter block and data block, with their accumulators. *)
From Coq Require Import List Arith NArith ZArith Lia Bool.
From Coq Require Import ZifyN ZifyNat ZifyBool.
From Mant Require Import Prim.R Prim.Bytes Model.SmbTypes Model.SmbBlocks Spec.C06 Proofs.C06Layout.
Import ListNotations.
Open Scope N_scope.

(* ---------------- Parameters: round trip ---------------- *)

Lemma go_from_tail {A} (x : A) l : go_from (x :: l) 1 = Ok l.
Proof. apply (go_from_at [x] l 1). reflexivity. Qed.

Lemma lenN_flat_be16 ws : lenN (flat_map be16 ws) = 2 * lenN ws.
Proof.
  induction ws as [|w ws IH]; [reflexivity|].
  cbn [flat_map]. rewrite lenN_app, IH, lenN_cons. unfold be16. rewrite lenN_be_bytes. lia.
Qed.

Lemma read_words_spec ws : forall done pre suffix,
  lenN pre = done * 2 -> Forall (fun w => w < 65536) ws ->
  params_read_words (pre ++ flat_map be16 ws ++ suffix) done (length ws) = Ok ws.
Proof.
  induction ws as [|w ws IH]; intros done pre suffix Hpre Hws; [reflexivity|].
  inversion Hws as [|? ? Hw Hws']; subst.
  cbn [length params_read_words flat_map]. rewrite <- app_assoc.
  rewrite (go_slice_at pre (be16 w)); [|exact Hpre|unfold be16; rewrite lenN_be_bytes; lia].
  cbn [bind]. unfold be16 at 1. rewrite go_be_uint_exact. cbn [bind].
  change (2 ^ (8 * N.of_nat 2)) with 65536. rewrite N.mod_small by exact Hw.
  replace (pre ++ be16 w ++ flat_map be16 ws ++ suffix)
    with ((pre ++ be16 w) ++ flat_map be16 ws ++ suffix) by now rewrite <- app_assoc.
  rewrite IH; [reflexivity| |exact Hws'].
  rewrite lenN_app. unfold be16. rewrite lenN_be_bytes. lia.
Qed.

Theorem params_roundtrip : forall p suffix, dom_params p ->
  exists bs, params_marshal p = Ok bs /\ params_unmarshal (bs ++ suffix) = Ok (p, lenN bs).
Proof.
  intros [wc ws] suffix [Hwc [Hmax Hws]]. cbn [p_wc p_words] in *. subst wc.
  unfold params_marshal. cbn [p_wc p_words].
  unfold wrap8. rewrite N.mod_small by lia. rewrite N.eqb_refl. cbn [negb].
  eexists. split; [reflexivity|].
  unfold params_unmarshal.
  destruct ws as [|w ws].
  - change (lenN (@nil N)) with 0. change (0 <? 0) with false. cbv iota.
    cbn [app]. rewrite lenN_cons. destruct (N.eqb_spec (1 + lenN suffix) 0); [lia|].
    rewrite go_index_head. cbn [bind].
    rewrite go_from_tail. cbn [bind].
    change (0 <? 0) with false. cbv iota. reflexivity.
  - set (n := lenN (w :: ws)) in *.
    assert (Hn : 0 < n) by (unfold n; rewrite lenN_cons; lia).
    destruct (N.ltb_spec 0 n) as [_|]; [|lia].
    rewrite <- app_assoc. cbn [app]. rewrite lenN_cons.
    destruct (N.eqb_spec (1 + lenN (flat_map be16 (w :: ws) ++ suffix)) 0); [lia|].
    rewrite go_index_head. cbn [bind].
    rewrite go_from_tail. cbn [bind].
    destruct (N.ltb_spec 0 n) as [_|]; [|lia].
    rewrite lenN_app, lenN_flat_be16. fold n.
    destruct (N.ltb_spec (2 * n + lenN suffix) (n * 2)); [lia|].
    replace (N.to_nat n) with (length (w :: ws)) by (unfold n, lenN; lia).
    change (flat_map be16 (w :: ws) ++ suffix) with ([] ++ flat_map be16 (w :: ws) ++ suffix).
    rewrite (read_words_spec (w :: ws) 0 [] suffix); [|reflexivity|exact Hws].
    cbn [bind]. do 2 f_equal. rewrite lenN_cons, lenN_flat_be16. fold n. lia.
Qed.

(* ---------------- Parameters: totality ---------------- *)

Lemma read_words_total data : forall n i,
  (i + N.of_nat n) * 2 <= lenN data -> params_read_words data i n <> Panic.
Proof.
  induction n as [|n IH]; intros i H; [discriminate|].
  cbn [params_read_words].
  destruct (go_slice_ok_len data (i * 2) (2 + i * 2)) as [s [Hs Hl]]; [lia|lia|]. rewrite Hs. cbn [bind].
  destruct (go_be_uint_ok 2 s) as [v Hv]; [unfold lenN in Hl; lia|]. rewrite Hv. cbn [bind].
  assert (T : params_read_words data (i + 1) n <> Panic) by (apply IH; lia).
  destruct (params_read_words data (i + 1) n); [discriminate|discriminate|congruence].
Qed.

Theorem params_total : total params_unmarshal.
Proof.
  intros data. unfold params_unmarshal.
  destruct (N.eqb_spec (lenN data) 0) as [|H0]; [discriminate|].
  destruct (go_index_ok data 0) as [wc Hwc]; [lia|]. rewrite Hwc. cbn [bind].
  rewrite go_from_ok by lia. cbn [bind].
  destruct (0 <? wc); [|discriminate].
  destruct (N.ltb_spec (lenN (skipn (N.to_nat 1) data)) (wc * 2)) as [|H]; [discriminate|].
  assert (T : params_read_words (skipn (N.to_nat 1) data) 0 (N.to_nat wc) <> Panic)
    by (apply read_words_total; lia).
  destruct (params_read_words _ 0 (N.to_nat wc)); [discriminate|discriminate|congruence].
Qed.

(* ---------------- Parameters: accumulators ---------------- *)

(* uint16(b0)<<8 | uint16(b1) is b0*256 + b1 on bytes; and GetBytes splits it back (exhaustive over
   the 65536 byte pairs, lifted by forallb_forall) *)
Definition word_check (b0 b1 : N) : bool :=
  let w := N.lor (N.shiftl b0 8) b1 in
  (w =? b0 * 256 + b1) && (wrap8 (N.shiftr w 8) =? b0) && (wrap8 (N.land w 255) =? b1).

Lemma word_sweep : forallb (fun b0 => forallb (fun b1 => word_check b0 b1) bytes256) bytes256 = true.
Proof. vm_compute. reflexivity. Qed.

Lemma word_facts b0 b1 : b0 < 256 -> b1 < 256 ->
  let w := N.lor (N.shiftl b0 8) b1 in
  w = b0 * 256 + b1 /\ wrap8 (N.shiftr w 8) = b0 /\ wrap8 (N.land w 255) = b1.
Proof.
  intros H0 H1. pose proof (sweep2 word_check word_sweep b0 b1 H0 H1) as C. unfold word_check in C.
  apply andb_true_iff in C. destruct C as [C C3]. apply andb_true_iff in C. destruct C as [C1 C2].
  apply N.eqb_eq in C1, C2, C3. cbv zeta. auto.
Qed.

Lemma words_of_stream_ind (P : list N -> Prop) :
  P [] -> (forall b, P [b]) -> (forall b0 b1 rest, P rest -> P (b0 :: b1 :: rest)) -> forall l, P l.
Proof.
  intros H0 H1 H2. fix IH 1. intros [|b0 [|b1 rest]]; [exact H0|apply H1|apply H2, IH].
Qed.

Lemma words_of_stream_wf bs : wf_bytes bs -> Forall (fun w => w < 65536) (words_of_stream bs).
Proof.
  induction bs as [|b|b0 b1 rest IH] using words_of_stream_ind; intros H.
  - constructor.
  - inversion H; subst. repeat constructor. lia.
  - inversion H as [|? ? Hb0 H']; subst. inversion H' as [|? ? Hb1 H'']; subst.
    cbn [words_of_stream]. constructor; [|now apply IH].
    destruct (word_facts b0 b1 Hb0 Hb1) as [E _]. cbv zeta in E. rewrite E. lia.
Qed.

(* AddWordsFromBytesStream keeps the block inside the domain while at most 255 words are held; from
   NewParameters() any sequence of such calls therefore yields a block that round-trips. *)
Theorem params_add_stream_dom p bs :
  dom_params p -> wf_bytes bs -> lenN (p_words p) + lenN (words_of_stream bs) <= 255 ->
  dom_params (params_add_stream p bs).
Proof.
  intros [Hwc [Hmax Hws]] Hbs Hlen. unfold dom_params, params_add_stream. cbn [p_wc p_words].
  rewrite lenN_app. unfold wrap8. rewrite N.mod_small by lia.
  repeat split; [lia|]. apply Forall_app. split; [exact Hws|now apply words_of_stream_wf].
Qed.

Lemma params_new_dom : dom_params params_new.
Proof. unfold dom_params, params_new. cbn. repeat split; [lia|constructor]. Qed.

(* whatever the count, AddWordsFromBytesStream leaves WordCount = uint8(len(Words)), so Marshal succeeds *)
Theorem params_add_stream_marshal p bs : exists out, params_marshal (params_add_stream p bs) = Ok out.
Proof.
  unfold params_marshal, params_add_stream. cbn [p_wc p_words]. rewrite N.eqb_refl. cbn [negb]. eauto.
Qed.

(* GetBytes gives back an even-length stream that was added to an empty block *)
Theorem params_stream_bytes bs : wf_bytes bs -> Nat.even (length bs) = true ->
  params_get_bytes (params_add_stream params_new bs) = bs.
Proof.
  unfold params_get_bytes, params_add_stream, params_new. cbn [p_words app].
  induction bs as [|b|b0 b1 rest IH] using words_of_stream_ind; intros H Hev.
  - reflexivity.
  - discriminate.
  - inversion H as [|? ? Hb0 H']; subst. inversion H' as [|? ? Hb1 H'']; subst.
    cbn [words_of_stream flat_map app].
    destruct (word_facts b0 b1 Hb0 Hb1) as [_ [E1 E2]]. cbv zeta in E1, E2. rewrite E1, E2.
    rewrite IH; [reflexivity|exact H''|exact Hev].
Qed.

(* AddWord stores twice the number of words in WordCount: unless that number is a multiple of 256 the
   block it leaves behind cannot be marshalled (callers always run AddWordsFromBytesStream afterwards,
   which recomputes WordCount). Recorded as observed behaviour. *)
Theorem params_add_word_marshal p w :
  lenN (p_words p ++ [w]) mod 256 <> 0 -> params_marshal (params_add_word p w) = Err.
Proof.
  intros H. unfold params_marshal, params_add_word. cbn [p_wc p_words]. unfold wrap8.
  set (n := lenN (p_words p ++ [w])) in *.
  destruct (N.eqb_spec ((n * 2) mod 256) (n mod 256)) as [E|]; [|reflexivity].
  exfalso. apply H. clear H.
  pose proof (N.div_mod n 256) as D1. pose proof (N.div_mod (n * 2) 256) as D2.
  pose proof (N.mod_lt n 256) as L1. pose proof (N.mod_lt (n * 2) 256) as L2.
  lia.
Qed.

(* ---------------- Data ---------------- *)

Theorem data_roundtrip : roundtrip dom_data data_marshal data_unmarshal.
Proof.
  intros [bc bs] suffix [Hbc Hmax]. cbn [d_bc d_bytes] in *. subst bc.
  unfold data_marshal, data_unmarshal. cbn [d_bc d_bytes].
  assert (L : lenN ((le16 (lenN bs) ++ bs) ++ suffix) = 2 + lenN bs + lenN suffix).
  { rewrite !lenN_app. unfold le16. rewrite lenN_le_bytes. lia. }
  rewrite L. destruct (N.eqb_spec (2 + lenN bs + lenN suffix) 0); [lia|].
  destruct (N.ltb_spec (2 + lenN bs + lenN suffix) 2); [lia|].
  rewrite <- app_assoc. rewrite (go_upto_app (le16 (lenN bs))) by (unfold le16; now rewrite lenN_le_bytes).
  cbn [bind]. unfold le16 at 1. rewrite go_le_uint_exact. cbn [bind].
  change (2 ^ (8 * N.of_nat 2)) with 65536. rewrite N.mod_small by lia.
  rewrite (go_from_at (le16 (lenN bs)) (bs ++ suffix) 2) by (unfold le16; now rewrite lenN_le_bytes).
  cbn [bind].
  assert (L2 : lenN (le16 (lenN bs) ++ bs) = 2 + lenN bs).
  { rewrite lenN_app. unfold le16. now rewrite lenN_le_bytes. }
  rewrite L2.
  destruct (N.ltb_spec 0 (lenN bs)) as [Hpos|Hzero].
  - rewrite lenN_app. destruct (N.ltb_spec (lenN bs + lenN suffix) (lenN bs)); [lia|].
    rewrite (go_upto_app bs suffix) by reflexivity. reflexivity.
  - destruct bs as [|b bs]; [reflexivity|]. rewrite lenN_cons in Hzero. lia.
Qed.

Theorem data_total : total data_unmarshal.
Proof.
  intros data. unfold data_unmarshal.
  destruct (N.eqb_spec (lenN data) 0); [discriminate|].
  destruct (N.ltb_spec (lenN data) 2) as [|H2]; [discriminate|].
  rewrite go_upto_ok by lia. cbn [bind].
  destruct (go_le_uint_ok 2 (firstn (N.to_nat 2) data)) as [bc Hbc].
  { rewrite firstn_length. unfold lenN in H2. lia. }
  rewrite Hbc. cbn [bind]. rewrite go_from_ok by lia. cbn [bind].
  destruct (0 <? bc); [|discriminate].
  destruct (N.ltb_spec (lenN (skipn (N.to_nat 2) data)) bc); [discriminate|].
  rewrite go_upto_ok by lia. discriminate.
Qed.

(* Add keeps ByteCount = uint16(len(Bytes)); while at most 65535 bytes are held the block is in the
   domain and round-trips; beyond that ByteCount wraps (and the block no longer does). *)
Theorem data_add_dom d bs :
  lenN (d_bytes d) + lenN bs <= 65535 -> dom_data (data_add d bs).
Proof.
  intros H. unfold dom_data, data_add. cbn [d_bc d_bytes]. rewrite lenN_app.
  unfold wrap16. rewrite N.mod_small by lia. lia.
Qed.

Theorem data_set_dom d bs : lenN bs <= 65535 -> dom_data (data_set d bs).
Proof.
  intros H. unfold dom_data, data_set. cbn [d_bc d_bytes]. unfold wrap16. rewrite N.mod_small by lia. lia.
Qed.

Lemma data_new_dom : dom_data data_new.
Proof. unfold dom_data, data_new. cbn. lia. Qed.

Theorem data_add_count d bs :
  d_bc (data_add d bs) = (lenN (d_bytes d) + lenN bs) mod 65536.
Proof. unfold data_add. cbn [d_bc]. now rewrite lenN_app. Qed.
