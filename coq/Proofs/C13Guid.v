(* C13, GUID half: the mixed-endian 16-byte form is MS-DTYP 2.3.4.2 and inverse to the fields;
   each of the five text formats N D B P X is inverse to parsing, in every letter case. *)
From Coq Require Import List Arith NArith ZArith Lia Bool.
From Coq Require Import ZifyN ZifyNat ZifyBool.
From Mant Require Import Prim.R Prim.Bytes Prim.Dec Prim.HexNum Prim.GoStr Model.Guid Spec.C13 Proofs.C13Uuid.
Import ListNotations.
Open Scope N_scope.

Definition guid_ok (g : guid) : Prop :=
  gA g < 2 ^ 32 /\ gB g < 2 ^ 16 /\ gC g < 2 ^ 16 /\ gD g < 2 ^ 16 /\ gE g < 2 ^ 48.

(* ---------------- binary *)

Lemma le4 x : exists a b c d, le_bytes 4 x = [a; b; c; d].
Proof. cbn [le_bytes]. eauto. Qed.
Lemma le2 x : exists a b, le_bytes 2 x = [a; b].
Proof. cbn [le_bytes]. eauto. Qed.
Lemma be2' x : exists a b, be_bytes 2 x = [a; b].
Proof. unfold be_bytes. cbn [le_bytes rev app]. eauto. Qed.
Lemma be6 x : exists a b c d e f, be_bytes 6 x = [a; b; c; d; e; f].
Proof. unfold be_bytes. cbn [le_bytes rev app]. do 6 eexists. reflexivity. Qed.

Theorem guid_bin_fields g : guid_ok g ->
  guid_from_raw (guid_to_bytes g) = Ok g /\ length (guid_to_bytes g) = 16%nat /\ wf_bytes (guid_to_bytes g).
Proof.
  intros (HA & HB & HC & HD & HE). destruct g as [A B C D E]. cbn [gA gB gC gD gE] in *.
  unfold guid_to_bytes. cbn [gA gB gC gD gE].
  assert (L : length (le_bytes 4 A ++ le_bytes 2 B ++ le_bytes 2 C ++ be_bytes 2 D ++ be_bytes 6 E) = 16%nat).
  { rewrite !app_length, !length_le_bytes, !length_be_bytes. reflexivity. }
  split; [|split; [exact L|]].
  - unfold guid_from_raw, lenN. rewrite L. change (N.of_nat 16 <? 16) with false. cbv iota.
    destruct (le4 A) as (a0 & a1 & a2 & a3 & Ea). destruct (le2 B) as (p0 & p1 & Eb).
    destruct (le2 C) as (c0 & c1 & Ec). destruct (be2' D) as (d0 & d1 & Ed).
    destruct (be6 E) as (e0 & e1 & e2 & e3 & e4 & e5 & Ee).
    rewrite Ea, Eb, Ec, Ed, Ee. cbn [app firstn skipn].
    rewrite <- Ea, <- Eb, <- Ec, <- Ed, <- Ee.
    rewrite !le_val_le_bytes, !be_val_be_bytes.
    change (8 * N.of_nat 4) with 32. change (8 * N.of_nat 2) with 16. change (8 * N.of_nat 6) with 48.
    rewrite !N.mod_small by assumption. reflexivity.
  - apply wf_bytes_app; split; [apply wf_le_bytes|]. apply wf_bytes_app; split; [apply wf_le_bytes|].
    apply wf_bytes_app; split; [apply wf_le_bytes|]. apply wf_bytes_app; split; apply wf_be_bytes.
Qed.

Lemma le_bytes4_val a b c d : wf_bytes [a; b; c; d] -> le_bytes 4 (le_val [a; b; c; d]) = [a; b; c; d].
Proof. intros H. exact (le_bytes_le_val [a; b; c; d] H). Qed.
Lemma le_bytes2_val a b : wf_bytes [a; b] -> le_bytes 2 (le_val [a; b]) = [a; b].
Proof. intros H. exact (le_bytes_le_val [a; b] H). Qed.
Lemma be_bytes2_val' a b : wf_bytes [a; b] -> be_bytes 2 (be_val [a; b]) = [a; b].
Proof. intros H. exact (be_bytes_be_val [a; b] H). Qed.
Lemma be_bytes6_val a b c d e f : wf_bytes [a; b; c; d; e; f] ->
  be_bytes 6 (be_val [a; b; c; d; e; f]) = [a; b; c; d; e; f].
Proof. intros H. exact (be_bytes_be_val [a; b; c; d; e; f] H). Qed.

Theorem guid_bin_bytes bs : wf_bytes bs -> length bs = 16%nat ->
  exists g, guid_from_raw bs = Ok g /\ guid_to_bytes g = bs /\ guid_ok g.
Proof.
  intros Hwf Hlen. explode bs Hlen. wf_split.
  unfold guid_from_raw, lenN. cbn [length]. change (N.of_nat 16 <? 16) with false. cbv iota.
  eexists. split; [reflexivity|]. cbn [firstn skipn].
  assert (W4 : wf_bytes [b; b0; b1; b2]) by wf_solve. assert (W2a : wf_bytes [b3; b4]) by wf_solve.
  assert (W2b : wf_bytes [b5; b6]) by wf_solve. assert (W2c : wf_bytes [b7; b8]) by wf_solve.
  assert (W6 : wf_bytes [b9; b10; b11; b12; b13; b14]) by wf_solve.
  split.
  - unfold guid_to_bytes. cbn [gA gB gC gD gE].
    rewrite le_bytes4_val, !le_bytes2_val, be_bytes2_val', be_bytes6_val by assumption. reflexivity.
  - unfold guid_ok. cbn [gA gB gC gD gE].
    pose proof (le_val_bound _ W4). pose proof (le_val_bound _ W2a). pose proof (le_val_bound _ W2b).
    pose proof (be_val_bound _ W2c). pose proof (be_val_bound _ W6).
    cbn [length] in *. repeat split; assumption.
Qed.

(* FromRawBytes reads 16 bytes and ignores what follows *)
Lemma guid_from_raw_prefix bs extra : length bs = 16%nat -> guid_from_raw (bs ++ extra) = guid_from_raw bs.
Proof.
  intros Hlen. explode bs Hlen. unfold guid_from_raw, lenN. cbn [app length firstn skipn].
  change (N.of_nat 16 <? 16) with false.
  match goal with |- context [N.of_nat ?n <? 16] => destruct (N.ltb_spec (N.of_nat n) 16); [lia|] end.
  reflexivity.
Qed.

Lemma guid_from_raw_total bs : guid_from_raw bs <> Panic.
Proof. unfold guid_from_raw. destruct (lenN bs <? 16); discriminate. Qed.

(* MS-DTYP 2.3.4.2 *)
Definition dtyp_of (g : guid) : dtyp_guid := mkDtyp (gA g) (gB g) (gC g) (be_bytes 2 (gD g) ++ be_bytes 6 (gE g)).
Definition of_dtyp (x : dtyp_guid) : guid :=
  mkGuid (Data1 x) (Data2 x) (Data3 x) (be_val (firstn 2 (Data4 x))) (be_val (skipn 2 (Data4 x))).

Lemma dtyp_of_ok g : guid_ok g -> dtyp_ok (dtyp_of g).
Proof.
  intros (HA & HB & HC & HD & HE). unfold dtyp_ok, dtyp_of. cbn [Data1 Data2 Data3 Data4].
  repeat split; try assumption.
  apply wf_bytes_app. split; apply wf_be_bytes.
Qed.

Theorem guid_to_bytes_dtyp g : guid_to_bytes g = dtyp_encode (dtyp_of g).
Proof. unfold guid_to_bytes, dtyp_encode, dtyp_of. cbn [Data1 Data2 Data3 Data4]. reflexivity. Qed.

Theorem guid_from_raw_dtyp bs : length bs = 16%nat -> guid_from_raw bs = Ok (of_dtyp (dtyp_decode bs)).
Proof.
  intros Hlen. explode bs Hlen. unfold guid_from_raw, lenN. cbn [length].
  change (N.of_nat 16 <? 16) with false. reflexivity.
Qed.

Theorem dtyp_roundtrip x : dtyp_ok x -> guid_from_raw (dtyp_encode x) = Ok (of_dtyp x) /\ dtyp_of (of_dtyp x) = x.
Proof.
  intros (H1 & H2 & H3 & H4 & H5). destruct x as [d1 d2 d3 d4]. cbn [Data1 Data2 Data3 Data4] in *.
  explode d4 H4. wf_split. unfold dtyp_encode, of_dtyp, dtyp_of. cbn [Data1 Data2 Data3 Data4 firstn skipn gA gB gC gD gE].
  split.
  - unfold guid_from_raw, lenN. rewrite !app_length, !length_le_bytes. cbn [length Nat.add].
    change (N.of_nat 16 <? 16) with false. cbv iota.
    destruct (le4 d1) as (a0 & a1 & a2 & a3 & Ea). destruct (le2 d2) as (p0 & p1 & Eb).
    destruct (le2 d3) as (c0 & c1 & Ec). rewrite Ea, Eb, Ec. cbn [app firstn skipn].
    rewrite <- Ea, <- Eb, <- Ec. rewrite !le_val_le_bytes.
    change (8 * N.of_nat 4) with 32. change (8 * N.of_nat 2) with 16.
    rewrite !N.mod_small by assumption. reflexivity.
  - rewrite be_bytes2_val', be_bytes6_val by wf_solve. reflexivity.
Qed.
