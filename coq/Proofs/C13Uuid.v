(* C13, UUID half: the nibble-interleaved 16-byte form and the text form are inverse to each
   other for all 2^128 values and all field values within width; v1/v2/v8 fields; RFC 4122. *)
From Coq Require Import List Arith NArith ZArith Lia Bool.
From Coq Require Import ZifyN ZifyNat ZifyBool.
From Mant Require Import Prim.R Prim.Bytes Prim.Dec Prim.HexNum Prim.GoStr Model.Uuid Spec.C13.
Import ListNotations.
Open Scope N_scope.

Ltac Zify.zify_post_hook ::= Z.div_mod_to_equations.

(* ---------------- nibble arithmetic: the bit operations of the Go text as div/mod *)

Lemma lo4_spec b : lo4 b = b mod 16.
Proof. unfold lo4. change 15 with (N.ones 4). rewrite N.land_ones. reflexivity. Qed.

Lemma hi4_spec b : b < 256 -> hi4 b = b / 16.
Proof.
  intros H. unfold hi4. rewrite N.shiftr_land. change (N.shiftr 240 4) with (N.ones 4).
  rewrite N.land_ones, N.shiftr_div_pow2. change (2 ^ 4) with 16. apply N.mod_small. lia.
Qed.

Fixpoint all_below (n : nat) (P : N -> bool) : bool :=
  match n with O => true | S k => P (N.of_nat k) && all_below k P end.

Lemma all_below_spec n P : all_below n P = true -> forall x, x < N.of_nat n -> P x = true.
Proof.
  induction n as [|k IH]; intros H x Hx; [lia|].
  cbn [all_below] in H. apply andb_true_iff in H. destruct H as [H1 H2].
  destruct (N.eq_dec x (N.of_nat k)) as [->|Hne]; [exact H1|]. apply IH; [exact H2|lia].
Qed.

Lemma join4_spec h l : h < 16 -> l < 16 -> join4 h l = 16 * h + l.
Proof.
  intros Hh Hl.
  assert (S : all_below 16 (fun h => all_below 16 (fun l => join4 h l =? 16 * h + l)) = true)
    by (vm_compute; reflexivity).
  pose proof (all_below_spec _ _ S h Hh) as S1. cbv beta in S1.
  pose proof (all_below_spec _ _ S1 l Hl) as S2. cbv beta in S2. now apply N.eqb_eq in S2.
Qed.

Lemma pack4_spec h l : pack4 h l = 16 * (h mod 16) + l mod 16.
Proof.
  unfold pack4. change 15 with (N.ones 4). rewrite !N.land_ones. change (2 ^ 4) with 16.
  apply (join4_spec (h mod 16) (l mod 16)); apply N.mod_lt; lia.
Qed.

(* ---------------- lists of known length *)

Lemma len0 {A} (l : list A) : length l = 0%nat -> l = [].
Proof. destruct l; [reflexivity|discriminate]. Qed.
Lemma lenS {A} (l : list A) n : length l = S n -> exists x r, l = x :: r /\ length r = n.
Proof. destruct l as [|x r]; [discriminate|]. intros H. exists x, r. split; [reflexivity|]. now inversion H. Qed.

(* [explode l H]: replace a list of known length by its elements *)
Ltac explode l H :=
  repeat (let x := fresh "b" in let r := fresh "r" in let E := fresh "E" in
          apply lenS in H; destruct H as (x & r & E & H); subst l; rename r into l);
  apply len0 in H; subst l.

Lemma wf_cons b l : wf_bytes (b :: l) <-> b < 256 /\ wf_bytes l.
Proof. unfold wf_bytes. split; [intros H; inversion H; auto|intros [H1 H2]; constructor; auto]. Qed.

Ltac wf_split :=
  repeat match goal with
         | H : wf_bytes (_ :: _) |- _ => apply wf_cons in H; destruct H as [? H]
         | H : wf_bytes [] |- _ => clear H
         end.

(* ---------------- the generic UUID, binary *)

Theorem uuid_bin_bytes bs : wf_bytes bs -> length bs = 16%nat ->
  exists ver var d, uuid_unmarshal bs = Ok (ver, var, d) /\ uuid_marshal ver var d = bs
    /\ ver < 16 /\ var < 16 /\ wf_bytes d /\ length d = 15%nat /\ ver = rfc_version bs.
Proof.
  intros Hwf Hlen. explode bs Hlen. wf_split.
  unfold uuid_unmarshal. cbn [lenN length]. change (N.of_nat 16 <? 16) with false. cbv iota.
  do 3 eexists. split; [reflexivity|].
  unfold uuid_marshal, rfc_version, rfc_time_hi_and_version, octets.
  cbn [firstn skipn app byte_at nth].
  rewrite !lo4_spec, !pack4_spec.
  rewrite !(hi4_spec b5), !(hi4_spec b6), !(hi4_spec b7) by assumption.
  rewrite !join4_spec by lia.
  rewrite !hi4_spec by lia.
  unfold be_val. cbn [rev app le_val].
  change (2 ^ 12) with 4096.
  repeat split; try lia.
  - repeat f_equal; lia.
  - unfold wf_bytes. repeat constructor; lia.
Qed.

Theorem uuid_bin_fields ver var d : ver < 16 -> var < 16 -> wf_bytes d -> length d = 15%nat ->
  uuid_unmarshal (uuid_marshal ver var d) = Ok (ver, var, d)
  /\ length (uuid_marshal ver var d) = 16%nat /\ wf_bytes (uuid_marshal ver var d).
Proof.
  intros Hver Hvar Hwf Hlen. explode d Hlen. wf_split.
  unfold uuid_marshal. cbn [firstn skipn app byte_at nth].
  unfold uuid_unmarshal, lenN. cbn [length]. change (N.of_nat 16 <? 16) with false. cbv iota.
  cbn [firstn skipn app byte_at nth].
  rewrite !lo4_spec, !pack4_spec.
  rewrite !hi4_spec by lia.
  rewrite !join4_spec by lia.
  repeat split.
  - repeat f_equal; lia.
  - unfold wf_bytes. repeat constructor; lia.
Qed.

(* Unmarshal reads the first 16 bytes and ignores the rest *)
Lemma uuid_unmarshal_prefix bs extra : length bs = 16%nat ->
  uuid_unmarshal (bs ++ extra) = uuid_unmarshal bs.
Proof.
  intros Hlen. explode bs Hlen. unfold uuid_unmarshal, lenN.
  cbn [app length firstn skipn byte_at nth].
  change (N.of_nat 16 <? 16) with false.
  match goal with |- context [N.of_nat ?n <? 16] => destruct (N.ltb_spec (N.of_nat n) 16); [lia|] end.
  reflexivity.
Qed.

Lemma uuid_unmarshal_total bs : uuid_unmarshal bs <> Panic.
Proof. unfold uuid_unmarshal. destruct (lenN bs <? 16); discriminate. Qed.

(* ---------------- the generic UUID, text *)

Lemma hex_pad8_be4 a b c d : wf_bytes [a; b; c; d] -> hex_pad 8 (be_val [a; b; c; d]) = hex_of_bytes false [a; b; c; d].
Proof. intros H. exact (hex_pad_be_val [a; b; c; d] H). Qed.
Lemma hex_pad4_be2 a b : wf_bytes [a; b] -> hex_pad 4 (be_val [a; b]) = hex_of_bytes false [a; b].
Proof. intros H. exact (hex_pad_be_val [a; b] H). Qed.

Ltac wf_solve := unfold wf_bytes; repeat constructor; assumption.

(* String() prints exactly the RFC 4122 text of the 16 bytes *)
Theorem uuid_text_rfc bs : wf_bytes bs -> length bs = 16%nat -> uuid_text bs = rfc_text bs.
Proof.
  intros Hwf Hlen. explode bs Hlen. wf_split.
  unfold uuid_text, rfc_text, octets, hyphen. cbn [firstn skipn].
  rewrite hex_pad8_be4 by wf_solve. rewrite !hex_pad4_be2 by wf_solve. reflexivity.
Qed.

(* the same text with either letter case *)
Definition text_case (u : bool) (bs : list N) : list N :=
  hex_of_bytes u (octets bs 0 4) ++ [45] ++ hex_of_bytes u (octets bs 4 2) ++ [45] ++
  hex_of_bytes u (octets bs 6 2) ++ [45] ++ hex_of_bytes u (octets bs 8 2) ++ [45] ++
  hex_of_bytes u (octets bs 10 6).

Lemma rfc_text_case bs : rfc_text bs = text_case false bs.
Proof. reflexivity. Qed.

Lemma hex_digit_not_hyphen u d : d < 16 -> negb (hex_digit u d =? 45) = true.
Proof. intros H. unfold hex_digit. destruct (N.ltb_spec d 10); destruct u; lia. Qed.

Lemma hex_no_hyphen u l : wf_bytes l -> forallb (fun x => negb (x =? 45)) (hex_of_bytes u l) = true.
Proof.
  induction 1 as [|b l Hb Hl IH]; [reflexivity|].
  cbn [hex_of_bytes flat_map hex_of_byte app forallb]. fold (hex_of_bytes u l).
  rewrite !hex_digit_not_hyphen, IH; [reflexivity| |].
  - apply N.mod_lt; lia.
  - apply N.div_lt_upper_bound; lia.
Qed.

Lemma hex_of_bytes_app u a b : hex_of_bytes u (a ++ b) = hex_of_bytes u a ++ hex_of_bytes u b.
Proof. unfold hex_of_bytes. apply flat_map_app. Qed.

Lemma to_upper_hex_digit d : d < 16 -> to_upper (hex_digit false d) = hex_digit true d.
Proof.
  intros H. unfold to_upper, hex_digit. destruct (N.ltb_spec d 10).
  - destruct ((97 <=? 48 + d) && (48 + d <=? 122)) eqn:E; lia.
  - destruct ((97 <=? 87 + d) && (87 + d <=? 122)) eqn:E; lia.
Qed.

Lemma upper_hex l : wf_bytes l -> upper (hex_of_bytes false l) = hex_of_bytes true l.
Proof.
  induction 1 as [|b l Hb Hl IH]; [reflexivity|].
  cbn [hex_of_bytes flat_map hex_of_byte app upper map]. fold (hex_of_bytes false l) (hex_of_bytes true l).
  fold (upper (hex_of_bytes false l)). rewrite IH.
  rewrite !to_upper_hex_digit; [reflexivity| |].
  - apply N.mod_lt; lia.
  - apply N.div_lt_upper_bound; lia.
Qed.

Lemma upper_app a b : upper (a ++ b) = upper a ++ upper b.
Proof. apply map_app. Qed.

Lemma upper_text bs : wf_bytes bs -> upper (rfc_text bs) = text_case true bs.
Proof.
  intros H. unfold rfc_text, text_case, octets. rewrite !upper_app.
  rewrite !upper_hex by (apply wf_bytes_firstn, wf_bytes_skipn, H). reflexivity.
Qed.

Lemma remove_hyphen_text u bs : wf_bytes bs -> length bs = 16%nat ->
  remove_byte 45 (text_case u bs) = hex_of_bytes u bs.
Proof.
  intros Hwf Hlen. unfold text_case, octets. rewrite !remove_byte_app.
  change (remove_byte 45 [45]) with (@nil N). cbn [app].
  rewrite !remove_byte_none by (apply hex_no_hyphen, wf_bytes_firstn, wf_bytes_skipn, Hwf).
  rewrite <- !hex_of_bytes_app. f_equal.
  explode bs Hlen. reflexivity.
Qed.

Theorem uuid_from_text u bs : wf_bytes bs -> length bs = 16%nat ->
  uuid_from_string (text_case u bs) = uuid_unmarshal bs.
Proof.
  intros Hwf Hlen. unfold uuid_from_string, hyphen. rewrite remove_hyphen_text by assumption.
  unfold lenN. rewrite length_hex_of_bytes, Hlen. change (N.of_nat (2 * 16) =? 32) with true. cbn [negb].
  rewrite unhex_hex by exact Hwf. reflexivity.
Qed.

(* unhex inverts: what it accepts is the hex of its result, up to letter case *)
Lemma unhex_digit_inv a x : unhex_digit a = Some x -> x < 16 /\ hex_digit false x = to_lower a.
Proof.
  unfold unhex_digit, hex_digit, to_lower. intros H.
  destruct ((48 <=? a) && (a <=? 57)) eqn:E1.
  - inversion H; subst x. destruct (N.ltb_spec (a - 48) 10); destruct ((65 <=? a) && (a <=? 90)) eqn:E; lia.
  - destruct ((97 <=? a) && (a <=? 102)) eqn:E2.
    + inversion H; subst x. destruct (N.ltb_spec (a - 87) 10); destruct ((65 <=? a) && (a <=? 90)) eqn:E; lia.
    + destruct ((65 <=? a) && (a <=? 70)) eqn:E3; [|discriminate].
      inversion H; subst x. destruct (N.ltb_spec (a - 55) 10); destruct ((65 <=? a) && (a <=? 90)) eqn:E; lia.
Qed.

Lemma unhex_inv n : forall t m, (length t <= n)%nat -> unhex t = Some m ->
  wf_bytes m /\ hex_of_bytes false m = lower t /\ length t = (2 * length m)%nat.
Proof.
  induction n as [|n IH]; intros t m Hn H.
  - destruct t; [|simpl in Hn; lia]. inversion H; subst m. repeat split. constructor.
  - destruct t as [|a [|b r]].
    + inversion H; subst m. repeat split. constructor.
    + discriminate.
    + cbn [unhex] in H.
      destruct (unhex_digit a) as [x|] eqn:Ea; [|discriminate].
      destruct (unhex_digit b) as [y|] eqn:Eb; [|discriminate].
      destruct (unhex r) as [m'|] eqn:Er; [|discriminate].
      assert (Hm : m = 16 * x + y :: m') by congruence. subst m. clear H.
      destruct (unhex_digit_inv a x Ea) as [Hx Hxa]. destruct (unhex_digit_inv b y Eb) as [Hy Hyb].
      destruct (IH r m') as (W & T & L); [cbn [length] in Hn; lia|exact Er|].
      repeat split.
      * apply wf_cons. split; [lia|exact W].
      * cbn [hex_of_bytes flat_map hex_of_byte app lower map]. fold (hex_of_bytes false m') (lower r).
        rewrite T.
        assert (H1 : (16 * x + y) / 16 = x) by lia. assert (H2 : (16 * x + y) mod 16 = y) by lia.
        rewrite H1, H2, Hxa, Hyb. reflexivity.
      * cbn [length]. lia.
Qed.

Lemma rfc_text_hyphenate bs : length bs = 16%nat -> rfc_text bs = hyphenate (hex_of_bytes false bs).
Proof. intros Hlen. explode bs Hlen. reflexivity. Qed.

(* parse then print: the canonical (lower-case, 8-4-4-4-12) form of whatever was accepted *)
Theorem uuid_string_from_string s ver var d : uuid_from_string s = Ok (ver, var, d) ->
  uuid_string ver var d = hyphenate (lower (remove_byte 45 s)).
Proof.
  unfold uuid_from_string, hyphen. set (t := remove_byte 45 s).
  destruct (N.eqb_spec (lenN t) 32) as [Hl|]; [|discriminate]. cbn [negb].
  destruct (unhex t) as [m|] eqn:E; [|discriminate]. intros Hu.
  destruct (unhex_inv (length t) t m (le_n _) E) as (W & T & L).
  assert (Hm : length m = 16%nat) by (unfold lenN in Hl; lia).
  destruct (uuid_bin_bytes m W Hm) as (ver' & var' & d' & Hu' & Hm' & _).
  rewrite Hu in Hu'. inversion Hu'; subst ver' var' d'.
  unfold uuid_string. rewrite Hm', uuid_text_rfc by assumption.
  rewrite rfc_text_hyphenate by exact Hm. now rewrite T.
Qed.

Lemma uuid_from_string_total s : uuid_from_string s <> Panic.
Proof.
  unfold uuid_from_string. destruct (negb _); [discriminate|].
  destruct (unhex _); [apply uuid_unmarshal_total|discriminate].
Qed.
