(* C12, Group Policy Preferences: cpassword attributes are stored with the base64 padding removed;
   the re-padding rule of GPPPDecryptBase64 restores exactly what was removed, so the stripped
   form decrypts like the padded one. *)
From Coq Require Import List Arith NArith Lia Bool.
From Coq Require Import ZifyN ZifyNat ZifyBool.
From Mant Require Import Prim.R Prim.Bytes Algo.Base64 Algo.Utf16 Algo.Utf8 Proofs.AlgoProofs.
From Mant Require Import Model.Gppp Gen.ConstsC12 Spec.C12 Proofs.C12Gppp Proofs.C12Main.
Import ListNotations.
Open Scope N_scope.

Lemma b64_char_not_pad v : b64_char v <> b64_pad.
Proof. unfold b64_char, b64_pad. ncases; lia. Qed.

(* the shape of an encoding: characters that are not '=', then 0, 1 or 2 '=' up to a multiple of 4 *)
Lemma b64_encode_shape l :
  exists body pads,
    b64_encode l = body ++ pads /\ Forall (fun c => c <> b64_pad) body /\
    (pads = [] /\ lenN body mod 4 = 0 \/
     pads = [b64_pad] /\ lenN body mod 4 = 3 \/
     pads = [b64_pad; b64_pad] /\ lenN body mod 4 = 2).
Proof.
  induction l as [| a | a b | a b c r IH] using list_ind3.
  - exists [], []. repeat split; auto.
  - exists [b64_char (a / 4); b64_char (a mod 4 * 16)], [b64_pad; b64_pad].
    repeat split; [repeat constructor; apply b64_char_not_pad | right; right; split; reflexivity].
  - exists [b64_char (a / 4); b64_char (a mod 4 * 16 + b / 16); b64_char (b mod 16 * 4)], [b64_pad].
    repeat split; [repeat constructor; apply b64_char_not_pad | right; left; split; reflexivity].
  - destruct IH as (body & pads & He & Hb & Hp).
    exists (b64_char (a / 4) :: b64_char (a mod 4 * 16 + b / 16) :: b64_char (b mod 16 * 4 + c / 64)
            :: b64_char (c mod 64) :: body), pads.
    split; [cbn [b64_encode app]; now rewrite He|].
    split; [repeat (constructor; [apply b64_char_not_pad|]); exact Hb|].
    assert (Hlen : forall x, lenN body mod 4 = x ->
              lenN (b64_char (a / 4) :: b64_char (a mod 4 * 16 + b / 16) :: b64_char (b mod 16 * 4 + c / 64)
                    :: b64_char (c mod 64) :: body) mod 4 = x).
    { intros x Hx. rewrite !lenN_cons.
      replace (1 + (1 + (1 + (1 + lenN body)))) with (lenN body + 1 * 4) by lia.
      now rewrite N.mod_add by discriminate. }
    destruct Hp as [[-> H]|[[-> H]|[-> H]]]; [left|right; left|right; right]; split; auto.
Qed.

Lemma strip_rev_pads pads rest :
  Forall (fun c => c = b64_pad) pads -> strip_b64_pad_rev (pads ++ rest) = strip_b64_pad_rev rest.
Proof.
  induction 1 as [|c pads Hc Hp IH]; [reflexivity|].
  cbn [app strip_b64_pad_rev]. subst c. now rewrite N.eqb_refl.
Qed.

Lemma strip_rev_body body :
  Forall (fun c => c <> b64_pad) body -> strip_b64_pad_rev body = body.
Proof.
  intros H. destruct H as [|c body Hc Hb]; [reflexivity|].
  cbn [strip_b64_pad_rev]. destruct (N.eqb_spec c b64_pad); [contradiction|reflexivity].
Qed.

Lemma strip_body_pads body pads :
  Forall (fun c => c <> b64_pad) body -> Forall (fun c => c = b64_pad) pads ->
  strip_b64_pad (body ++ pads) = body.
Proof.
  intros Hb Hp. unfold strip_b64_pad. rewrite rev_app_distr.
  rewrite strip_rev_pads by (now apply Forall_rev).
  rewrite strip_rev_body by (now apply Forall_rev). apply rev_involutive.
Qed.

(* the re-padding rule restores the padding that storage removed *)
Theorem repad_strip l : gppp_repad (strip_b64_pad (b64_encode l)) = b64_encode l.
Proof.
  destruct (b64_encode_shape l) as (body & pads & He & Hb & Hp). rewrite He.
  assert (Hpads : Forall (fun c => c = b64_pad) pads).
  { destruct Hp as [[-> _]|[[-> _]|[-> _]]]; repeat constructor. }
  rewrite strip_body_pads by assumption.
  unfold gppp_repad.
  destruct Hp as [[-> H]|[[-> H]|[-> H]]]; rewrite H; cbn [N.eqb orb]; [now rewrite app_nil_r|reflexivity|reflexivity].
Qed.

(* hence a stored cpassword (padding stripped) decrypts to the password *)
Theorem gppp_roundtrip_stripped cps :
  Forall scalar_value cps ->
  exists enc,
    gppp_encrypt (utf8_encode cps) = Ok enc /\
    gppp_decrypt_b64 (strip_b64_pad enc) = Ok (utf8_encode cps).
Proof.
  intros Hcps. destruct (gppp_roundtrip_aes cps Hcps) as (enc & He & Hd & _).
  exists enc. split; [exact He|].
  pose proof (gppp_encrypt_is_aes256cbc (utf8_encode cps)) as Hspec. rewrite He in Hspec.
  injection Hspec as Henc.
  unfold gppp_decrypt_b64, gppp_decrypt_b64_with in *.
  rewrite Henc in *. rewrite repad_strip.
  rewrite repad_multiple_of_4 in Hd by apply b64_encode_len4. exact Hd.
Qed.
