(* C06: SMB_DIRECTORY_INFORMATION. *)
From Coq Require Import List Arith NArith Lia Bool.
From Coq Require Import ZifyN ZifyNat ZifyBool.
From Mant Require Import Prim.R Prim.Bytes Model.SmbTypes Spec.C06
  Proofs.C06Layout Proofs.C06Fixed Proofs.C06Strings.
Import ListNotations.
Open Scope N_scope.

(* The decoder on a concatenation of six pieces with the sizes Marshal produces. *)
Lemma dir_info_unmarshal_parts rkb attr tb db sb nb suffix rk ft dt sz nm :
  lenN rkb = 24 -> lenN tb = 8 -> lenN db = 2 -> lenN sb = 4 -> lenN nb = 14 ->
  (forall rest, resume_key_unmarshal (rkb ++ rest) = Ok (rk, 24)) ->
  (forall rest, filetime_unmarshal (tb ++ rest) = Ok (ft, 8)) ->
  date_unmarshal db = Ok (dt, 2) ->
  go_le_uint 4 sb = Ok sz ->
  oem_unmarshal nb = Ok (nm, 14) ->
  dir_info_unmarshal ((rkb ++ [attr] ++ tb ++ db ++ sb ++ nb) ++ suffix)
  = Ok (mk_di rk attr ft dt sz nm, 53).
Proof.
  intros Lrk Ltb Ldb Lsb Lnb Hrk Hft Hdt Hsz Hnm.
  remember ((rkb ++ [attr] ++ tb ++ db ++ sb ++ nb) ++ suffix) as data eqn:Edata.
  assert (Hlen : lenN data = 53 + lenN suffix).
  { subst data. rewrite !lenN_app, Lrk, Ltb, Ldb, Lsb, Lnb. change (lenN [attr]) with 1. lia. }
  assert (E1 : data = rkb ++ (attr :: tb ++ db ++ sb ++ nb ++ suffix)).
  { subst data. rewrite <- !app_assoc. reflexivity. }
  assert (E3 : data = (rkb ++ [attr]) ++ (tb ++ db ++ sb ++ nb ++ suffix)).
  { subst data. rewrite <- !app_assoc. reflexivity. }
  assert (E4 : data = (rkb ++ [attr] ++ tb) ++ db ++ (sb ++ nb ++ suffix)).
  { subst data. rewrite <- !app_assoc. reflexivity. }
  assert (E5 : data = (rkb ++ [attr] ++ tb ++ db) ++ sb ++ (nb ++ suffix)).
  { subst data. rewrite <- !app_assoc. reflexivity. }
  assert (E6 : data = (rkb ++ [attr] ++ tb ++ db ++ sb) ++ nb ++ suffix).
  { subst data. rewrite <- !app_assoc. reflexivity. }
  clear Edata. unfold dir_info_unmarshal.
  assert (S0 : go_from data 0 = Ok data) by (apply (go_from_at [] data 0); reflexivity).
  rewrite S0. cbn [bind].
  assert (S1 : resume_key_unmarshal data = Ok (rk, 24)) by (rewrite E1; apply Hrk).
  rewrite S1. cbn [bind].
  destruct (N.leb_spec (lenN data) 24); [lia|].
  assert (S2 : go_index data 24 = Ok attr) by (rewrite E1; apply go_index_at; exact Lrk).
  rewrite S2. cbn [bind].
  destruct (N.ltb_spec (lenN data) (24 + 1 + 2)); [lia|].
  assert (S3 : go_from data (24 + 1) = Ok (tb ++ db ++ sb ++ nb ++ suffix)).
  { rewrite E3. apply go_from_at. rewrite lenN_app, Lrk. reflexivity. }
  rewrite S3. cbn [bind]. rewrite Hft. cbn [bind].
  destruct (N.ltb_spec (lenN data) (24 + 1 + 8 + 2)); [lia|].
  assert (S4 : go_slice data (24 + 1 + 8) (24 + 1 + 8 + 2) = Ok db).
  { rewrite E4. apply go_slice_at; [rewrite !lenN_app, Lrk, Ltb; reflexivity | rewrite Ldb; reflexivity]. }
  rewrite S4. cbn [bind]. rewrite Hdt. cbn [bind].
  destruct (N.ltb_spec (lenN data) (24 + 1 + 8 + 2 + 4)); [lia|].
  assert (S5 : go_slice data (24 + 1 + 8 + 2) (24 + 1 + 8 + 2 + 4) = Ok sb).
  { rewrite E5. apply go_slice_at; [rewrite !lenN_app, Lrk, Ltb, Ldb; reflexivity | rewrite Lsb; reflexivity]. }
  rewrite S5. cbn [bind]. rewrite Hsz. cbn [bind].
  destruct (N.ltb_spec (lenN data) (24 + 1 + 8 + 2 + 4 + 14)); [lia|].
  assert (S6 : go_slice data (24 + 1 + 8 + 2 + 4) (24 + 1 + 8 + 2 + 4 + 14) = Ok nb).
  { rewrite E6. apply go_slice_at; [rewrite !lenN_app, Lrk, Ltb, Ldb, Lsb; reflexivity | rewrite Lnb; reflexivity]. }
  rewrite S6. cbn [bind]. rewrite Hnm. cbn [bind]. reflexivity.
Qed.

(* ---------------- the file name ---------------- *)

Lemma length_pad12 name : lenN name <= 12 -> lenN (pad12 name) = 12.
Proof. intros H. unfold pad12. rewrite lenN_app. unfold lenN in *. rewrite repeatN_length. lia. Qed.

Lemma nonzero_pad12 name : nonzero name -> nonzero (pad12 name).
Proof.
  intros H. unfold pad12, nonzero. apply Forall_app. split; [exact H|].
  induction (12 - length name)%nat as [|k IH]; cbn [repeatN]; constructor; [discriminate|exact IH].
Qed.

Definition name_bytes (name : list N) : list N := [4] ++ pad12 name ++ [0].

Lemma name_dom name : lenN name <= 12 -> nonzero name -> dom_string (mk_ss 4 12 (pad12 name)).
Proof.
  intros Hl Hn. unfold dom_string. cbn [ss_fmt ss_len ss_buf]. rewrite (length_pad12 name Hl).
  repeat split; try lia. intros _. now apply nonzero_pad12.
Qed.

Lemma name_ref name : ref_string_bytes (mk_ss 4 12 (pad12 name)) = name_bytes name.
Proof. reflexivity. Qed.

Lemma lenN_name_bytes name : lenN name <= 12 -> lenN (name_bytes name) = 14.
Proof.
  intros H. unfold name_bytes. rewrite !lenN_app, (length_pad12 name H). reflexivity.
Qed.

(* ---------------- round trip ---------------- *)

Definition di_bytes (d : dir_info) : list N :=
  rk_bytes (di_rk d) ++ [di_attr d] ++ filetime_marshal (di_time d) ++ date_marshal (di_date d)
  ++ le32 (di_size d) ++ name_bytes (ss_buf (di_name d)).

Lemma dir_info_marshal_spec d : dom_di d -> dir_info_marshal d = Ok (di_bytes d, norm_di d).
Proof.
  intros [Hrk [Hft [Hdt [Hsz [Hl Hnz]]]]]. unfold dir_info_marshal.
  rewrite (resume_key_marshal_spec _ Hrk). cbn [bind].
  destruct (N.ltb_spec 12 (lenN (ss_buf (di_name d)))); [lia|].
  rewrite (length_pad12 _ Hl). change (wrap16 12) with 12.
  unfold oem_marshal. cbn [ss_len ss_buf].
  rewrite (string_marshal_ref _ (name_dom _ Hl Hnz)), name_ref. cbn [bind]. reflexivity.
Qed.

Lemma dir_info_unmarshal_spec d suffix : dom_di d ->
  dir_info_unmarshal (di_bytes d ++ suffix) = Ok (norm_di d, 53).
Proof.
  intros [Hrk [Hft [Hdt [Hsz [Hl Hnz]]]]]. unfold di_bytes, norm_di.
  apply dir_info_unmarshal_parts.
  - now apply lenN_rk_bytes.
  - now apply lenN_filetime_marshal.
  - unfold date_marshal, le16. now rewrite lenN_le_bytes.
  - unfold le32. now rewrite lenN_le_bytes.
  - now apply lenN_name_bytes.
  - intros rest. now apply resume_key_unmarshal_spec.
  - intros rest. rewrite (filetime_roundtrip _ rest Hft). now rewrite (lenN_filetime_marshal _ Hft).
  - rewrite <- (app_nil_r (date_marshal (di_date d))). rewrite (date_roundtrip _ [] Hdt).
    unfold date_marshal, le16. now rewrite lenN_le_bytes.
  - unfold le32. rewrite go_le_uint_exact. change (2 ^ (8 * N.of_nat 4)) with (2 ^ 32).
    now rewrite N.mod_small.
  - unfold oem_unmarshal. rewrite <- (app_nil_r (name_bytes _)), <- name_ref.
    rewrite (string_unmarshal_ref _ [] (name_dom _ Hl Hnz)). rewrite name_ref.
    now rewrite (lenN_name_bytes _ Hl).
Qed.

Lemma lenN_di_bytes d : dom_di d -> lenN (di_bytes d) = 53.
Proof.
  intros [Hrk [Hft [Hdt [Hsz [Hl Hnz]]]]]. unfold di_bytes.
  rewrite !lenN_app, (lenN_rk_bytes _ Hrk), (lenN_filetime_marshal _ Hft), (lenN_name_bytes _ Hl).
  unfold date_marshal, le16, le32. rewrite !lenN_le_bytes. reflexivity.
Qed.

Theorem dir_info_roundtrip : roundtrip_st dom_di norm_di dir_info_marshal dir_info_unmarshal.
Proof.
  intros d suffix H. exists (di_bytes d). split; [now apply dir_info_marshal_spec|].
  rewrite (lenN_di_bytes d H). now apply dir_info_unmarshal_spec.
Qed.

(* ---------------- totality ---------------- *)

Theorem dir_info_total : total dir_info_unmarshal.
Proof.
  intros data. unfold dir_info_unmarshal.
  rewrite go_from_ok by lia. cbn [bind N.to_nat skipn].
  pose proof (resume_key_total data) as T0.
  destruct (resume_key_unmarshal data) as [[rk n0]| |]; [|discriminate|congruence]. cbn [bind].
  destruct (N.leb_spec (lenN data) n0) as [|H0]; [discriminate|].
  destruct (go_index_ok data n0 H0) as [attr Hattr]. rewrite Hattr. cbn [bind].
  destruct (N.ltb_spec (lenN data) (n0 + 1 + 2)) as [|H1]; [discriminate|].
  rewrite go_from_ok by lia. cbn [bind].
  pose proof (filetime_total (skipn (N.to_nat (n0 + 1)) data)) as T1.
  destruct (filetime_unmarshal _) as [[ft n1]| |]; [|discriminate|congruence]. cbn [bind].
  destruct (N.ltb_spec (lenN data) (n0 + 1 + n1 + 2)) as [|H2]; [discriminate|].
  destruct (go_slice_ok_len data (n0 + 1 + n1) (n0 + 1 + n1 + 2)) as [d2 [Hd2 _]]; [lia|lia|].
  rewrite Hd2. cbn [bind].
  pose proof (date_total d2) as T2.
  destruct (date_unmarshal d2) as [[dt n2]| |]; [|discriminate|congruence]. cbn [bind].
  destruct (N.ltb_spec (lenN data) (n0 + 1 + n1 + n2 + 4)) as [|H3]; [discriminate|].
  destruct (go_slice_ok_len data (n0 + 1 + n1 + n2) (n0 + 1 + n1 + n2 + 4)) as [d3 [Hd3 L3]]; [lia|lia|].
  rewrite Hd3. cbn [bind].
  destruct (go_le_uint_ok 4 d3) as [sz Hsz]; [unfold lenN in L3; lia|]. rewrite Hsz. cbn [bind].
  destruct (N.ltb_spec (lenN data) (n0 + 1 + n1 + n2 + 4 + 14)) as [|H4]; [discriminate|].
  destruct (go_slice_ok_len data (n0 + 1 + n1 + n2 + 4) (n0 + 1 + n1 + n2 + 4 + 14)) as [d4 [Hd4 _]]; [lia|lia|].
  rewrite Hd4. cbn [bind].
  pose proof (oem_total d4) as T4.
  destruct (oem_unmarshal d4) as [[nm n4]| |]; [discriminate|discriminate|congruence].
Qed.
