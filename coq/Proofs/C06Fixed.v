(* C06: the fixed-size types — FILETIME, lock ranges, pipe status, attribute word, AndX, NTLM version,
   packed date. *)
From Coq Require Import List Arith NArith Lia Bool.
From Coq Require Import ZifyN ZifyNat ZifyBool.
From Mant Require Import Prim.R Prim.Bytes Model.SmbTypes Spec.C06 Proofs.C06Layout.
Import ListNotations.
Open Scope N_scope.

(* ---------------- layout instances ---------------- *)

Theorem range32_roundtrip : roundtrip (dom_layout range32_layout) range32_marshal range32_unmarshal.
Proof. apply (layout_roundtrip range32_layout 10); [reflexivity|intros; reflexivity]. Qed.
Theorem range32_total : total range32_unmarshal.
Proof. apply (layout_total range32_layout 10); [reflexivity|intros; reflexivity]. Qed.

Theorem range64_roundtrip : roundtrip (dom_layout range64_layout) range64_marshal range64_unmarshal.
Proof. apply (layout_roundtrip range64_layout 20); [reflexivity|intros; reflexivity]. Qed.
Theorem range64_total : total range64_unmarshal.
Proof. apply (layout_total range64_layout 20); [reflexivity|intros; reflexivity]. Qed.

Theorem andx_roundtrip : roundtrip (dom_layout andx_layout) andx_marshal andx_unmarshal.
Proof. apply (layout_roundtrip andx_layout 4); [reflexivity|intros; reflexivity]. Qed.
Theorem andx_total : total andx_unmarshal.
Proof. apply (layout_total andx_layout 4); [reflexivity|intros; reflexivity]. Qed.

Theorem version_roundtrip : roundtrip (dom_layout version_layout) version_marshal version_unmarshal.
Proof. apply (layout_roundtrip version_layout 8); [reflexivity|intros; reflexivity]. Qed.
Theorem version_total : total version_unmarshal.
Proof. apply (layout_total version_layout 8); [reflexivity|intros; reflexivity]. Qed.

(* ---------------- FILETIME ---------------- *)

Lemma filetime_dom t : dom_filetime t -> dom_layout filetime_layout [fst t; snd t].
Proof. intros [H1 H2]. repeat constructor; assumption. Qed.

Lemma lenN_filetime_marshal t : dom_filetime t -> lenN (filetime_marshal t) = 8.
Proof. intros H. unfold filetime_marshal. now rewrite (lenN_put_fields _ _ (filetime_dom t H)). Qed.

Theorem filetime_roundtrip : roundtrip dom_filetime filetime_marshal filetime_unmarshal.
Proof.
  intros t suffix Hdom. unfold filetime_unmarshal.
  rewrite lenN_app, (lenN_filetime_marshal t Hdom).
  destruct (N.ltb_spec (8 + lenN suffix) 8); [lia|].
  unfold filetime_marshal. rewrite get_put_fields0 by now apply filetime_dom.
  cbn [bind fv nth]. now destruct t.
Qed.

Theorem filetime_total : total filetime_unmarshal.
Proof.
  intros data. unfold filetime_unmarshal. destruct (N.ltb_spec (lenN data) 8); [discriminate|].
  destruct (get_fields_ok filetime_layout data 0) as [vs Hvs]; [cbn; lia|]. rewrite Hvs. discriminate.
Qed.

(* ---------------- SMB_FILE_ATTRIBUTES ---------------- *)

Theorem fileattr_roundtrip : roundtrip (fun a => a < 65536) fileattr_marshal fileattr_unmarshal.
Proof.
  intros a suffix Ha. unfold fileattr_unmarshal, fileattr_marshal.
  cbn [put_fields fileattr_layout fld_bytes fst snd]. rewrite app_nil_r.
  rewrite lenN_app, lenN_be_bytes.
  destruct (N.ltb_spec (N.of_nat 2 + lenN suffix) 2); [lia|].
  rewrite go_be_uint_app. cbn [bind]. rewrite N.mod_small by exact Ha. reflexivity.
Qed.

Theorem fileattr_total : total fileattr_unmarshal.
Proof.
  intros data. unfold fileattr_unmarshal. destruct (N.ltb_spec (lenN data) 2) as [|H]; [discriminate|].
  destruct (go_be_uint_ok 2 data) as [v Hv]; [unfold lenN in H; lia|]. rewrite Hv. discriminate.
Qed.

(* ---------------- SMB_NMPIPE_STATUS ---------------- *)

(* On the visible complement: no trailing bytes. *)
Theorem nmpipe_roundtrip_exact : forall vs, dom_layout nmpipe_layout vs ->
  nmpipe_unmarshal (nmpipe_marshal vs) = Ok (vs, lenN (nmpipe_marshal vs)).
Proof.
  intros vs Hdom. unfold nmpipe_unmarshal, nmpipe_marshal.
  rewrite (lenN_put_fields _ _ Hdom). cbn [widths fold_right nmpipe_layout fst negb N.eqb].
  change (N.of_nat 1 + (N.of_nat 1 + 0) =? 2) with true. cbn [negb].
  rewrite <- (app_nil_r (put_fields _ vs)). rewrite get_put_fields0 by exact Hdom. reflexivity.
Qed.

(* Every encoding followed by at least one byte is rejected: the failing class, exactly. *)
Theorem nmpipe_trailing_rejected : forall vs suffix, dom_layout nmpipe_layout vs -> suffix <> [] ->
  nmpipe_unmarshal (nmpipe_marshal vs ++ suffix) = Err.
Proof.
  intros vs suffix Hdom Hs. unfold nmpipe_unmarshal, nmpipe_marshal.
  rewrite lenN_app, (lenN_put_fields _ _ Hdom). cbn [widths fold_right nmpipe_layout fst].
  destruct suffix as [|x suffix]; [congruence|]. rewrite lenN_cons.
  destruct (N.eqb_spec (N.of_nat 1 + (N.of_nat 1 + 0) + (1 + lenN suffix)) 2); [lia|reflexivity].
Qed.

Theorem nmpipe_roundtrip_refuted :
  ~ roundtrip (dom_layout nmpipe_layout) nmpipe_marshal nmpipe_unmarshal.
Proof.
  intros H. specialize (H [5; 129] [0]).
  assert (D : dom_layout nmpipe_layout [5; 129]) by (repeat constructor; unfold fld_ok; cbn; lia).
  specialize (H D). vm_compute in H. discriminate.
Qed.

Theorem nmpipe_total : total nmpipe_unmarshal.
Proof.
  intros data. unfold nmpipe_unmarshal. destruct (N.eqb_spec (lenN data) 2) as [H|]; [|discriminate].
  cbn [negb]. destruct (get_fields_ok nmpipe_layout data 0) as [vs Hvs]; [cbn; lia|]. rewrite Hvs. discriminate.
Qed.

(* ---------------- SMB_DATE ---------------- *)

Definition date_eqb (a b : smb_date) : bool :=
  (d_year a =? d_year b) && (d_month a =? d_month b) && (d_day a =? d_day b).

Lemma date_eqb_eq a b : date_eqb a b = true -> a = b.
Proof.
  destruct a as [y1 m1 dd1], b as [y2 m2 dd2]. unfold date_eqb. cbn [d_year d_month d_day]. intros H.
  apply andb_true_iff in H. destruct H as [H H3]. apply andb_true_iff in H. destruct H as [H1 H2].
  apply N.eqb_eq in H1, H2, H3. congruence.
Qed.

(* For each of the 65536 words: the shift/mask decoder agrees with the reference arithmetic and
   the encoder maps the decoded date back to the word.  Exhaustive sweep, lifted below. *)
Definition date_check (b0 b1 : N) : bool :=
  let w := b0 + 256 * b1 in
  date_eqb (date_of_word w) (date_ref_of_word w) && (date_word (date_of_word w) =? w).

Lemma date_sweep : forallb (fun b0 => forallb (fun b1 => date_check b0 b1) bytes256) bytes256 = true.
Proof. vm_compute. reflexivity. Qed.

Lemma date_word_facts w : w < 65536 ->
  date_of_word w = date_ref_of_word w /\ date_word (date_of_word w) = w.
Proof.
  intros H.
  assert (E : w = w mod 256 + 256 * (w / 256)) by (rewrite N.add_comm; apply N.div_mod; lia).
  assert (H0 : w mod 256 < 256) by (apply N.mod_lt; lia).
  assert (H1 : w / 256 < 256) by (apply N.div_lt_upper_bound; lia).
  pose proof (sweep2 date_check date_sweep _ _ H0 H1) as C. unfold date_check in C.
  rewrite <- E in C. apply andb_true_iff in C. destruct C as [C1 C2].
  split; [now apply date_eqb_eq | now apply N.eqb_eq].
Qed.

Lemma date_ref_bound d : dom_date d -> date_ref_word d < 65536.
Proof. destruct d as [y m dd]. unfold dom_date, date_ref_word. cbn [d_year d_month d_day]. lia. Qed.

Lemma date_ref_inverse d : dom_date d -> date_ref_of_word (date_ref_word d) = d.
Proof.
  destruct d as [y m dd]. unfold dom_date, date_ref_word, date_ref_of_word. cbn [d_year d_month d_day].
  intros [[Hy1 Hy2] [Hm Hd]].
  set (q := y - 1980). assert (Hq : y = 1980 + q) by lia. assert (Hq2 : q < 128) by lia.
  clearbody q. subst y. clear Hy1 Hy2.
  assert (A : (q * 512 + m * 32 + dd) / 512 = q).
  { symmetry. apply (N.div_unique _ 512 q (m * 32 + dd)); lia. }
  assert (B : (q * 512 + m * 32 + dd) / 32 = q * 16 + m).
  { symmetry. apply (N.div_unique _ 32 (q * 16 + m) dd); lia. }
  assert (C : (q * 16 + m) mod 16 = m).
  { symmetry. apply (N.mod_unique _ 16 q m); lia. }
  assert (D : (q * 512 + m * 32 + dd) mod 32 = dd).
  { symmetry. apply (N.mod_unique _ 32 (q * 16 + m) dd); lia. }
  rewrite A, B, C, D. reflexivity.
Qed.

(* the encoder's shifts and masks compute the reference word *)
Lemma date_word_ref d : dom_date d -> date_word d = date_ref_word d.
Proof.
  intros Hd. pose proof (date_ref_bound d Hd) as Hb.
  destruct (date_word_facts _ Hb) as [F1 F2].
  rewrite F1, (date_ref_inverse d Hd) in F2. exact F2.
Qed.

Lemma date_unmarshal_word w suffix : w < 65536 ->
  date_unmarshal (le16 w ++ suffix) = Ok (date_of_word w, 2).
Proof.
  intros H. unfold date_unmarshal, le16. rewrite lenN_app, lenN_le_bytes.
  destruct (N.ltb_spec (N.of_nat 2 + lenN suffix) 2); [lia|].
  rewrite go_upto_app by apply lenN_le_bytes. cbn [bind].
  rewrite go_le_uint_exact. cbn [bind]. rewrite N.mod_small by exact H. reflexivity.
Qed.

Theorem date_roundtrip : roundtrip dom_date date_marshal date_unmarshal.
Proof.
  intros d suffix Hd. unfold date_marshal.
  rewrite (date_word_ref d Hd). pose proof (date_ref_bound d Hd) as Hb.
  rewrite date_unmarshal_word by exact Hb.
  destruct (date_word_facts _ Hb) as [F1 _]. rewrite F1, (date_ref_inverse d Hd).
  unfold le16. now rewrite lenN_le_bytes.
Qed.

(* All 65536 words: each decodes (whatever follows) to a date of the domain that encodes to it. *)
Theorem date_words : forall w suffix, w < 65536 ->
  exists d, date_unmarshal (le16 w ++ suffix) = Ok (d, 2) /\ dom_date d /\ date_marshal d = le16 w.
Proof.
  intros w suffix H. exists (date_of_word w). split; [now apply date_unmarshal_word|].
  destruct (date_word_facts w H) as [F1 F2]. split.
  - rewrite F1. unfold dom_date, date_ref_of_word. cbn [d_year d_month d_day].
    assert (w / 512 < 128) by (apply N.div_lt_upper_bound; lia).
    assert ((w / 32) mod 16 < 16) by (apply N.mod_lt; lia).
    assert (w mod 32 < 32) by (apply N.mod_lt; lia). lia.
  - unfold date_marshal. now rewrite F2.
Qed.

Theorem date_total : total date_unmarshal.
Proof.
  intros data. unfold date_unmarshal. destruct (N.ltb_spec (lenN data) 2) as [|H]; [discriminate|].
  rewrite go_upto_ok by lia. cbn [bind].
  destruct (go_le_uint_ok 2 (firstn (N.to_nat 2) data)) as [v Hv].
  { rewrite firstn_length. unfold lenN in H. lia. }
  rewrite Hv. discriminate.
Qed.
