(* C09: the library's name codec against the RFC 1035 wire relation [wire_name]:
   - every name that is well-formed on the wire (any placement of strictly backward, possibly
     chained, pointers) decodes to its labels;
   - the plain encoding is such a wire form, and the library's encoder produces it;
   - a pointer that does not point strictly backwards is rejected;
   - decoding never panics and never runs out of fuel. *)
From Coq Require Import List NArith ZArith Lia Bool.
From Coq Require Import ZifyN ZifyNat ZifyBool.
From Mant Require Import Prim.R Prim.Bytes Gen.ConstsC09 Model.Llmnr Spec.C09 Proofs.C09Base.
Import ListNotations.
Open Scope N_scope.

(* ------------------------------------------------------------------ *)
(* bit facts about the length octet *)

Lemma lt_in_seq n k : n < N.of_nat k -> In n (map N.of_nat (seq 0 k)).
Proof. intros H. apply in_map_iff. exists (N.to_nat n). split; [lia|]. apply in_seq. lia. Qed.

Lemma land_label n : n < 64 -> N.land n 192 = 0.
Proof.
  intros H.
  assert (Hall : forallb (fun n => N.land n 192 =? 0) (map N.of_nat (seq 0 64)) = true) by (vm_compute; reflexivity).
  rewrite forallb_forall in Hall. apply N.eqb_eq, Hall, (lt_in_seq n 64). lia.
Qed.

Lemma land_pointer hi : hi < 64 -> N.land (192 + hi) 192 = 192.
Proof.
  intros H.
  assert (Hall : forallb (fun n => N.land (192 + n) 192 =? 192) (map N.of_nat (seq 0 64)) = true) by (vm_compute; reflexivity).
  rewrite forallb_forall in Hall. apply N.eqb_eq, Hall, (lt_in_seq hi 64). lia.
Qed.

Lemma pointer_value hi lo : hi < 64 -> lo < 256 -> N.land ((192 + hi) * 256 + lo) 16383 = hi * 256 + lo.
Proof.
  intros Hh Hl. change 16383 with (N.ones 14). rewrite N.land_ones.
  replace ((192 + hi) * 256 + lo) with (hi * 256 + lo + 3 * 2 ^ 14) by (change (2 ^ 14) with 16384; lia).
  rewrite N.mod_add by (change (2 ^ 14) with 16384; lia).
  apply N.mod_small. change (2 ^ 14) with 16384. lia.
Qed.

(* ------------------------------------------------------------------ *)
(* facts about wire_name *)

Lemma wire_name_pos_lt d start pos n fin : wire_name d start pos n fin -> pos < lenN d.
Proof. intros H; destruct H; eapply byte_at_lt; eassumption. Qed.

Lemma wire_name_label_len d start pos n fin :
  wire_name d start pos n fin -> Forall (fun l => 1 <= lenN l <= 63) n.
Proof. induction 1; auto. Qed.

Lemma wire_name_app_l d ext start pos n fin :
  wire_name d start pos n fin -> wire_name (d ++ ext) start pos n fin.
Proof.
  induction 1.
  - apply wn_end. now apply byte_at_app_l.
  - apply wn_label; auto using byte_at_app_l, bytes_at_app_l.
  - eapply wn_pointer; eauto using byte_at_app_l.
Qed.

(* the start of the enclosing name only matters for the pointer rule: a larger start allows more *)
Lemma wire_name_start_mono d start start' pos n fin :
  wire_name d start pos n fin -> start <= start' -> wire_name d start' pos n fin.
Proof.
  induction 1; intros Hle.
  - now apply wn_end.
  - apply wn_label; auto.
  - eapply wn_pointer; eauto. lia.
Qed.

(* what the library returns for a label list *)
Definition text (n : name) : list N := match n with [] => [dot] | _ => join_dot n end.

Lemma text_nonempty n : n <> [] -> text n = join_dot n.
Proof. destruct n; [congruence|reflexivity]. Qed.

Lemma join_not_dot l r : 1 <= lenN l -> nodot l -> bytes_eqb (join_dot (l :: r)) [dot] = false.
Proof.
  intros Hl Hd. destruct l as [|c l]; [unfold lenN in Hl; simpl in Hl; lia|].
  assert (Hc : c <> 46) by (intros ->; apply Hd; now left).
  destruct (bytes_eqb (join_dot ((c :: l) :: r)) [dot]) eqn:E; [|reflexivity].
  apply bytes_eqb_spec in E. destruct r; cbn [join_dot app] in E; unfold dot in E; inversion E; congruence.
Qed.

(* ------------------------------------------------------------------ *)
(* Theorem A: the library decodes every well-formed wire name *)

Definition rec_ok (rec : N -> R (list N * N)) (d : list N) (start : N) : Prop :=
  forall p n fin, p < start -> wire_name d p p n fin -> Forall nodot n -> rec p = Ok (text n, fin).

Lemma dn_loop_wire d start pos n fin :
  wire_name d start pos n fin -> Forall nodot n ->
  forall rec lf acc, rec_ok rec d start -> (N.to_nat (lenN d - pos) < lf)%nat ->
    dn_loop rec d start lf pos acc = Ok (text (acc ++ n), fin).
Proof.
  induction 1 as [start pos Hb | start pos l n fin Hlen Hb Hbs Hw IH | start pos hi lo n fin' Hhi Hlo Hb1 Hb2 Hlt Hw _];
    intros Hnd rec lf acc Hrec Hlf.
  - (* end *)
    destruct lf as [|lf]; [lia|]. cbn [dn_loop].
    pose proof (byte_at_lt _ _ _ Hb) as Hp.
    destruct (N.leb_spec (lenN d) pos); [lia|].
    rewrite (go_index_byte_at _ _ _ Hb). cbn [bind]. rewrite N.eqb_refl.
    rewrite app_nil_r. destruct acc; reflexivity.
  - (* label *)
    destruct lf as [|lf]; [lia|]. cbn [dn_loop].
    pose proof (byte_at_lt _ _ _ Hb) as Hp.
    destruct (bytes_at_some _ _ _ _ Hbs) as (Hle & _ & _).
    destruct (N.leb_spec (lenN d) pos); [lia|].
    rewrite (go_index_byte_at _ _ _ Hb). cbn [bind].
    destruct (N.eqb_spec (lenN l) 0); [lia|].
    unfold labelPointer, c09_label_pointer. rewrite land_label by lia. cbn [N.eqb].
    destruct (N.ltb_spec (lenN d) (pos + 1 + lenN l)); [lia|].
    rewrite (go_slice_bytes_at _ _ _ _ Hbs). cbn [bind].
    rewrite IH; [ | now inversion Hnd | exact Hrec | lia ].
    now rewrite <- app_assoc.
  - (* pointer *)
    destruct lf as [|lf]; [lia|]. cbn [dn_loop].
    pose proof (byte_at_lt _ _ _ Hb1) as Hp1. pose proof (byte_at_lt _ _ _ Hb2) as Hp2.
    destruct (N.leb_spec (lenN d) pos); [lia|].
    rewrite (go_index_byte_at _ _ _ Hb1). cbn [bind].
    destruct (N.eqb_spec (192 + hi) 0); [lia|].
    unfold labelPointer, c09_label_pointer. rewrite land_pointer by exact Hhi. rewrite N.eqb_refl.
    destruct (N.leb_spec (lenN d) (pos + 1)); [lia|].
    pose proof (be16_at_bytes _ _ _ _ Hb1 Hb2) as Hbe. unfold be16_at in Hbe.
    destruct (go_from d pos) as [tl| |]; cbn [bind] in Hbe; try discriminate.
    cbn [bind]. rewrite Hbe. cbn [bind].
    rewrite pointer_value by assumption.
    destruct (N.leb_spec start (hi * 256 + lo)); [lia|].
    rewrite (Hrec _ _ _ Hlt Hw Hnd). cbn [bind fst].
    destruct acc as [|a acc]; [reflexivity|].
    destruct n as [|l n].
    + cbn [text]. rewrite app_nil_r.
      replace (bytes_eqb [dot] [dot]) with true by (symmetry; now apply bytes_eqb_spec). reflexivity.
    + assert (Hl : 1 <= lenN l <= 63) by (apply wire_name_label_len in Hw; now inversion Hw).
      cbn [text]. rewrite join_not_dot; [|lia|now inversion Hnd].
      rewrite text_nonempty by (destruct acc; discriminate).
      rewrite (join_dot_app (a :: acc) (l :: n)) by discriminate. reflexivity.
Qed.

Lemma dn_wire pf : forall d start n fin,
  wire_name d start start n fin -> Forall nodot n -> (N.to_nat start < pf)%nat ->
  dn pf d start = Ok (text n, fin).
Proof.
  induction pf as [|pf IH]; intros d start n fin Hw Hnd Hpf; [lia|].
  cbn [dn]. pose proof (wire_name_pos_lt _ _ _ _ _ Hw) as Hp.
  destruct (N.leb_spec (lenN d) start); [lia|].
  rewrite (dn_loop_wire _ _ _ _ _ Hw Hnd); [reflexivity| |unfold lenN; lia].
  intros p n' fin' Hlt Hw' Hnd'. apply IH; auto. lia.
Qed.

Theorem decode_name_wire d start n fin :
  wire_name d start start n fin -> Forall nodot n -> decode_name d start = Ok (text n, fin).
Proof.
  intros Hw Hnd. unfold decode_name. apply dn_wire; auto.
  pose proof (wire_name_pos_lt _ _ _ _ _ Hw) as Hp. unfold lenN in Hp. lia.
Qed.

(* ------------------------------------------------------------------ *)
(* Theorem C: the plain encoding is a wire form, anywhere inside any surrounding octets *)

Lemma rfc_encode_name_cons l n : rfc_encode_name (l :: n) = lenN l :: l ++ rfc_encode_name n.
Proof. unfold rfc_encode_name. cbn [flat_map app]. now rewrite <- app_assoc. Qed.

Lemma lenN_rfc_encode_name n : lenN (rfc_encode_name n) = name_wire_len n.
Proof.
  induction n as [|l n IH]; [reflexivity|].
  rewrite rfc_encode_name_cons, lenN_cons, lenN_app, IH. unfold name_wire_len. cbn [fold_right]. lia.
Qed.

Lemma wire_name_plain n : Forall (fun l => 1 <= lenN l <= 63) n ->
  forall pre post start,
  wire_name (pre ++ rfc_encode_name n ++ post) start (lenN pre) n (lenN pre + lenN (rfc_encode_name n)).
Proof.
  induction 1 as [|l n Hl Hn IH]; intros pre post start.
  - change (rfc_encode_name []) with [0]. change (lenN [0]) with 1. apply wn_end.
    rewrite byte_at_app_r0. reflexivity.
  - rewrite rfc_encode_name_cons.
    apply wn_label; [exact Hl| | |].
    + rewrite byte_at_app_r0. reflexivity.
    + change (pre ++ (lenN l :: l ++ rfc_encode_name n) ++ post)
        with (pre ++ [lenN l] ++ (l ++ rfc_encode_name n) ++ post).
      rewrite (app_assoc pre [lenN l]). rewrite <- (app_assoc l).
      apply bytes_at_mid'; [rewrite lenN_app; reflexivity|reflexivity].
    + specialize (IH (pre ++ lenN l :: l) post start).
      replace ((pre ++ lenN l :: l) ++ rfc_encode_name n ++ post)
        with (pre ++ (lenN l :: l ++ rfc_encode_name n) ++ post) in IH
        by (rewrite <- !app_assoc; cbn [app]; now rewrite <- app_assoc).
      replace (lenN (pre ++ lenN l :: l)) with (lenN pre + 1 + lenN l) in IH
        by (rewrite lenN_app, lenN_cons; lia).
      replace (lenN pre + lenN (lenN l :: l ++ rfc_encode_name n))
        with (lenN pre + 1 + lenN l + lenN (rfc_encode_name n))
        by (rewrite lenN_cons, lenN_app; lia).
      exact IH.
Qed.

(* the library's encoder produces exactly the RFC 1035 plain form *)
Lemma encode_labels_rfc n : Forall (fun l => lenN l <= 63) n ->
  encode_labels n = Ok (flat_map (fun l => lenN l :: l) n).
Proof.
  induction 1 as [|l n Hl Hn IH]; [reflexivity|].
  cbn [encode_labels flat_map]. unfold MaxLabelLength, c09_max_label_length. destruct (N.ltb_spec 63 (lenN l)); [lia|].
  rewrite IH. reflexivity.
Qed.

Lemma labels_ok_len n : labels_ok n -> Forall (fun l => 1 <= lenN l <= 63) n.
Proof. intros [_ H]. eapply Forall_impl; [|exact H]. intros l [Hl _]. exact Hl. Qed.

Lemma join_dot_nonempty n : labels_ok n -> join_dot n <> [].
Proof.
  intros H. pose proof (labels_ok_len _ H) as Hl. destruct H as [Hne _].
  destruct n as [|l n]; [congruence|]. inversion Hl as [|? ? Hl1 _]; subst.
  destruct l as [|c l]; [unfold lenN in Hl1; simpl in Hl1; lia|].
  destruct n; cbn [join_dot app]; discriminate.
Qed.

Theorem encode_name_rfc n : labels_ok n -> encode_name (join_dot n) = Ok (rfc_encode_name n).
Proof.
  intros H. pose proof (join_dot_nonempty _ H) as Hne. unfold encode_name.
  destruct (join_dot n) as [|c s] eqn:E; [congruence|]. rewrite <- E.
  rewrite split_join; [|apply H|now apply labels_ok_nodot].
  rewrite encode_labels_rfc; [reflexivity|].
  eapply Forall_impl; [|apply (labels_ok_len _ H)]. intros l Hl. cbv beta in Hl. lia.
Qed.

Theorem name_roundtrip n pre post : labels_ok n ->
  decode_name (pre ++ rfc_encode_name n ++ post) (lenN pre)
  = Ok (join_dot n, lenN pre + lenN (rfc_encode_name n)).
Proof.
  intros H. rewrite (decode_name_wire _ _ n (lenN pre + lenN (rfc_encode_name n))).
  - rewrite text_nonempty by apply H. reflexivity.
  - apply wire_name_plain. now apply labels_ok_len.
  - now apply labels_ok_nodot.
Qed.

(* ------------------------------------------------------------------ *)
(* Pointers that do not point strictly backwards are rejected.
   [ptr_violation d start pos]: reading at [pos] in the name starting at [start] runs, after any
   number of labels and strictly backward pointers, into a pointer whose target is not before
   the start of the name that contains it (self, forward, or into the name itself). *)
Lemma dn_loop_violation d start pos :
  ptr_violation d start pos ->
  forall rec lf acc,
    (forall p, p < start -> ptr_violation d p p -> rec p = Err) ->
    (N.to_nat (lenN d - pos) < lf)%nat ->
    dn_loop rec d start lf pos acc = Err.
Proof.
  induction 1 as [start pos hi lo Hhi Hlo Hb1 Hb2 Hge | start pos len Hlen Hb Hle Hv IH
                 | start pos hi lo Hhi Hlo Hb1 Hb2 Hlt Hv _];
    intros rec lf acc Hrec Hlf; (destruct lf as [|lf]; [lia|]); cbn [dn_loop].
  - pose proof (byte_at_lt _ _ _ Hb1) as Hp1. pose proof (byte_at_lt _ _ _ Hb2) as Hp2.
    destruct (N.leb_spec (lenN d) pos); [lia|].
    rewrite (go_index_byte_at _ _ _ Hb1). cbn [bind].
    destruct (N.eqb_spec (192 + hi) 0); [lia|].
    unfold labelPointer, c09_label_pointer. rewrite land_pointer by exact Hhi. rewrite N.eqb_refl.
    destruct (N.leb_spec (lenN d) (pos + 1)); [lia|].
    pose proof (be16_at_bytes _ _ _ _ Hb1 Hb2) as Hbe. unfold be16_at in Hbe.
    destruct (go_from d pos) as [tl| |]; cbn [bind] in Hbe; try discriminate.
    cbn [bind]. rewrite Hbe. cbn [bind]. rewrite pointer_value by assumption.
    destruct (N.leb_spec start (hi * 256 + lo)); [reflexivity|lia].
  - pose proof (byte_at_lt _ _ _ Hb) as Hp.
    destruct (N.leb_spec (lenN d) pos); [lia|].
    rewrite (go_index_byte_at _ _ _ Hb). cbn [bind].
    destruct (N.eqb_spec len 0); [lia|].
    unfold labelPointer, c09_label_pointer. rewrite land_label by lia. cbn [N.eqb].
    destruct (N.ltb_spec (lenN d) (pos + 1 + len)); [lia|].
    rewrite go_slice_ok by lia. cbn [bind]. apply IH; [exact Hrec|lia].
  - pose proof (byte_at_lt _ _ _ Hb1) as Hp1. pose proof (byte_at_lt _ _ _ Hb2) as Hp2.
    destruct (N.leb_spec (lenN d) pos); [lia|].
    rewrite (go_index_byte_at _ _ _ Hb1). cbn [bind].
    destruct (N.eqb_spec (192 + hi) 0); [lia|].
    unfold labelPointer, c09_label_pointer. rewrite land_pointer by exact Hhi. rewrite N.eqb_refl.
    destruct (N.leb_spec (lenN d) (pos + 1)); [lia|].
    pose proof (be16_at_bytes _ _ _ _ Hb1 Hb2) as Hbe. unfold be16_at in Hbe.
    destruct (go_from d pos) as [tl| |]; cbn [bind] in Hbe; try discriminate.
    cbn [bind]. rewrite Hbe. cbn [bind]. rewrite pointer_value by assumption.
    destruct (N.leb_spec start (hi * 256 + lo)); [reflexivity|].
    rewrite (Hrec _ Hlt Hv). reflexivity.
Qed.

Lemma ptr_violation_pos_lt d start pos : ptr_violation d start pos -> pos < lenN d.
Proof. intros H; destruct H; eapply byte_at_lt; eassumption. Qed.

Lemma dn_violation pf : forall d start,
  ptr_violation d start start -> (N.to_nat start < pf)%nat -> dn pf d start = Err.
Proof.
  induction pf as [|pf IH]; intros d start Hv Hpf; [lia|].
  cbn [dn]. pose proof (ptr_violation_pos_lt _ _ _ Hv) as Hp.
  destruct (N.leb_spec (lenN d) start); [reflexivity|].
  apply dn_loop_violation; [exact Hv| |unfold lenN; lia].
  intros p Hlt Hv'. apply IH; [exact Hv'|lia].
Qed.

Theorem decode_name_violation d start : ptr_violation d start start -> decode_name d start = Err.
Proof.
  intros Hv. unfold decode_name. apply dn_violation; [exact Hv|].
  pose proof (ptr_violation_pos_lt _ _ _ Hv) as Hp. unfold lenN in Hp. lia.
Qed.

(* ------------------------------------------------------------------ *)
(* Totality: no panic, the fuel always suffices *)

Lemma go_index_no_panic {A} (d : list A) i : i < lenN d -> go_index d i <> Panic.
Proof.
  intros H. unfold go_index. destruct (N.ltb_spec i (lenN d)); [|lia].
  destruct (nth_error d (N.to_nat i)) eqn:E; [discriminate|].
  apply nth_error_None in E. unfold lenN in H. lia.
Qed.

Lemma go_from_ok {A} (d : list A) i : i <= lenN d -> go_from d i = Ok (skipn (N.to_nat i) d).
Proof. intros H. unfold go_from. destruct (N.leb_spec i (lenN d)); [reflexivity|lia]. Qed.

Lemma be_at_no_panic w d i : i + N.of_nat w <= lenN d ->
  (let* tl := go_from d i in go_be_uint w tl) <> Panic.
Proof.
  intros H. rewrite go_from_ok by lia. cbn [bind]. unfold go_be_uint.
  destruct (Nat.leb_spec w (length (skipn (N.to_nat i) d))) as [_|Hlt]; [discriminate|].
  rewrite skipn_length in Hlt. unfold lenN in H. lia.
Qed.

Lemma be16_at_no_panic d i : i + 2 <= lenN d -> be16_at d i <> Panic.
Proof. intros H. apply (be_at_no_panic 2). lia. Qed.
Lemma be32_at_no_panic d i : i + 4 <= lenN d -> be32_at d i <> Panic.
Proof. intros H. apply (be_at_no_panic 4). lia. Qed.

Lemma dn_loop_no_panic rec d start :
  (forall p, p < start -> rec p <> Panic) ->
  forall lf pos acc, (N.to_nat (lenN d - pos) < lf)%nat ->
    dn_loop rec d start lf pos acc <> Panic.
Proof.
  intros Hrec. induction lf as [|lf IH]; intros pos acc Hlf; [lia|].
  cbn [dn_loop]. destruct (N.leb_spec (lenN d) pos) as [|Hpos]; [discriminate|].
  pose proof (go_index_no_panic d pos Hpos) as Hi.
  destruct (go_index d pos) as [len| |]; cbn [bind]; [|discriminate|congruence].
  destruct (len =? 0); [destruct acc; discriminate|].
  destruct (N.land len labelPointer =? labelPointer).
  - destruct (N.leb_spec (lenN d) (pos + 1)) as [|Hp1]; [discriminate|].
    pose proof (be_at_no_panic 2 d pos) as Hbe.
    destruct (go_from d pos) as [tl| |]; cbn [bind] in *; [|discriminate|exfalso; apply Hbe; [lia|reflexivity]].
    destruct (go_be_uint 2 tl) as [w| |]; cbn [bind]; [|discriminate|exfalso; apply Hbe; [lia|reflexivity]].
    destruct (N.leb_spec start (N.land w 16383)) as [|Hlt]; [discriminate|].
    specialize (Hrec _ Hlt). destruct (rec (N.land w 16383)) as [sfx| |]; cbn [bind]; [|discriminate|congruence].
    destruct acc; [discriminate|]. destruct (bytes_eqb (fst sfx) [dot]); discriminate.
  - destruct (N.ltb_spec (lenN d) (pos + 1 + len)) as [|Hle]; [discriminate|].
    rewrite go_slice_ok by lia. cbn [bind]. apply IH. lia.
Qed.

Lemma dn_no_panic pf : forall d off, (N.to_nat off < pf)%nat -> dn pf d off <> Panic.
Proof.
  induction pf as [|pf IH]; intros d off Hpf; [lia|].
  cbn [dn]. destruct (N.leb_spec (lenN d) off) as [|Hoff]; [discriminate|].
  apply dn_loop_no_panic; [|unfold lenN; lia].
  intros p Hlt. apply IH. lia.
Qed.

Theorem decode_name_total d off : decode_name d off <> Panic.
Proof.
  unfold decode_name. destruct (N.ltb_spec off (lenN d)) as [Hlt|Hge].
  - apply dn_no_panic. unfold lenN in Hlt. lia.
  - cbn [dn]. destruct (N.leb_spec (lenN d) off); [discriminate|lia].
Qed.

(* results carry an end offset inside the data (used by the record decoders) *)
Lemma dn_loop_end rec d start lf : forall pos acc r,
  dn_loop rec d start lf pos acc = Ok r -> snd r <= lenN d.
Proof.
  induction lf as [|lf IH]; intros pos acc r; cbn [dn_loop]; [discriminate|].
  destruct (N.leb_spec (lenN d) pos) as [|Hpos]; [discriminate|].
  destruct (go_index d pos) as [len| |]; cbn [bind]; try discriminate.
  destruct (len =? 0).
  { destruct acc; intros H; inversion H; subst; cbn [snd]; lia. }
  destruct (N.land len labelPointer =? labelPointer).
  - destruct (N.leb_spec (lenN d) (pos + 1)) as [|Hp1]; [discriminate|].
    destruct (go_from d pos) as [tl| |]; cbn [bind]; try discriminate.
    destruct (go_be_uint 2 tl) as [w| |]; cbn [bind]; try discriminate.
    destruct (start <=? N.land w 16383); [discriminate|].
    destruct (rec (N.land w 16383)) as [sfx| |]; cbn [bind]; try discriminate.
    destruct acc; [|destruct (bytes_eqb (fst sfx) [dot])]; intros H; inversion H; subst; cbn [snd]; lia.
  - destruct (N.ltb_spec (lenN d) (pos + 1 + len)) as [|Hle]; [discriminate|].
    destruct (go_slice d (pos + 1) (pos + 1 + len)); cbn [bind]; try discriminate. apply IH.
Qed.

Lemma decode_name_end d off r : decode_name d off = Ok r -> snd r <= lenN d.
Proof.
  unfold decode_name. cbn [dn]. destruct (lenN d <=? off); [discriminate|]. apply dn_loop_end.
Qed.
