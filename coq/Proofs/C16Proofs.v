From Coq Require Import List Arith NArith Lia Bool.
From Coq Require Import ZifyN ZifyNat ZifyBool.
From Mant Require Import Prim.R Prim.Bytes Prim.Dec Model.Sid Model.Dn Spec.C16.
Import ListNotations.
Open Scope N_scope.

(* ---------------- SID ---------------- *)

Lemma lenN_concat_le4 subs : lenN (concat (map (le_bytes 4) subs)) = 4 * lenN subs.
Proof.
  induction subs as [|s subs IH]; [reflexivity|].
  cbn [map concat]. rewrite lenN_app, IH, lenN_cons. unfold lenN at 1. rewrite length_le_bytes. lia.
Qed.

Lemma go_index_ok {A} (l : list A) i : i < lenN l -> exists x, go_index l i = Ok x.
Proof.
  intros H. unfold go_index. destruct (N.ltb_spec i (lenN l)); [|lia].
  destruct (nth_error l (N.to_nat i)) eqn:E; [eauto|].
  apply nth_error_None in E. unfold lenN in H. lia.
Qed.

Lemma sid_subs_at_spec subs : forall done pre suffix,
  lenN pre = 8 + 4 * N.of_nat done ->
  Forall (fun s => s < 2 ^ 32) subs ->
  sid_subs_at (pre ++ concat (map (le_bytes 4) subs) ++ suffix) (seq done (length subs)) = Ok subs.
Proof.
  induction subs as [|s subs IH]; intros done pre suffix Hpre Hs; [reflexivity|].
  cbn [length seq sid_subs_at map concat].
  rewrite <- Hpre. rewrite go_from_app. cbn [bind].
  rewrite <- !app_assoc. rewrite go_le_uint_app. cbn [bind].
  inversion Hs as [|? ? Hs1 Hs2]; subst.
  replace (pre ++ le_bytes 4 s ++ concat (map (le_bytes 4) subs) ++ suffix)
    with ((pre ++ le_bytes 4 s) ++ concat (map (le_bytes 4) subs) ++ suffix)
    by now rewrite <- app_assoc.
  rewrite IH; [| |exact Hs2].
  - cbn [bind]. rewrite N.mod_small; [reflexivity|]. exact Hs1.
  - rewrite lenN_app, Hpre. unfold lenN. rewrite length_le_bytes. lia.
Qed.

Lemma sid_text_string auth subs : sid_text 1 auth subs = sid_string auth subs.
Proof. reflexivity. Qed.

Theorem parse_sid_spec auth subs suffix :
  auth < 2 ^ 48 -> Forall (fun s => s < 2 ^ 32) subs -> (length subs <= 255)%nat ->
  parse_sid (sid_encode auth subs ++ suffix) = Ok (sid_string auth subs).
Proof.
  intros Hauth Hsubs Hlen. unfold parse_sid, sid_encode.
  set (body := concat (map (le_bytes 4) subs)).
  assert (Hbody : lenN body = 4 * lenN subs) by apply lenN_concat_le4.
  assert (Hlen' : lenN (([1; lenN subs] ++ be_bytes 6 auth ++ body) ++ suffix)
                  = 8 + 4 * lenN subs + lenN suffix).
  { rewrite !lenN_app, Hbody, !lenN_cons, lenN_nil, lenN_be_bytes. lia. }
  rewrite Hlen'.
  destruct (N.ltb_spec (8 + 4 * lenN subs + lenN suffix) 8); [lia|].
  cbn [app go_index].
  change (go_index (1 :: lenN subs :: (be_bytes 6 auth ++ body) ++ suffix) 0) with
    (if 0 <? lenN (1 :: lenN subs :: (be_bytes 6 auth ++ body) ++ suffix) then Ok 1 else @Panic N).
  destruct (N.ltb_spec 0 (lenN (1 :: lenN subs :: (be_bytes 6 auth ++ body) ++ suffix)));
    [|rewrite !lenN_cons in *; lia].
  cbn [bind N.eqb negb Pos.eqb].
  change (go_index (1 :: lenN subs :: (be_bytes 6 auth ++ body) ++ suffix) 1) with
    (if 1 <? lenN (1 :: lenN subs :: (be_bytes 6 auth ++ body) ++ suffix) then Ok (lenN subs) else @Panic N).
  destruct (N.ltb_spec 1 (lenN (1 :: lenN subs :: (be_bytes 6 auth ++ body) ++ suffix)));
    [|rewrite !lenN_cons in *; lia].
  cbn [bind].
  destruct (N.ltb_spec (8 + 4 * lenN subs + lenN suffix) (8 + 4 * lenN subs)); [lia|].
  (* the authority *)
  replace (1 :: lenN subs :: (be_bytes 6 auth ++ body) ++ suffix)
    with ([1; lenN subs] ++ be_bytes 6 auth ++ (body ++ suffix))
    by (cbn [app]; now rewrite <- app_assoc).
  change 2 with (lenN [1; lenN subs]) at 1.
  replace 8 with (lenN [1; lenN subs] + lenN (be_bytes 6 auth)) at 3
    by (unfold lenN; rewrite length_be_bytes; reflexivity).
  rewrite go_slice_app_mid. cbn [bind].
  rewrite be_val_be_bytes. rewrite N.mod_small by exact Hauth.
  (* the sub-authorities *)
  unfold sid_subs. replace (N.to_nat (lenN subs)) with (length subs) by (unfold lenN; lia).
  replace ([1; lenN subs] ++ be_bytes 6 auth ++ body ++ suffix)
    with (([1; lenN subs] ++ be_bytes 6 auth) ++ body ++ suffix) by now rewrite <- app_assoc.
  unfold body. rewrite sid_subs_at_spec; [| |exact Hsubs].
  - cbn [bind]. reflexivity.
  - rewrite lenN_app. unfold lenN. rewrite length_be_bytes. reflexivity.
Qed.

(* Totality *)
Lemma go_from_ok {A} (l : list A) lo : lo <= lenN l -> go_from l lo = Ok (skipn (N.to_nat lo) l).
Proof. intros H. unfold go_from. destruct (N.leb_spec lo (lenN l)); [reflexivity|lia]. Qed.

Lemma sid_subs_at_total bs ks :
  (forall k, In k ks -> 8 + 4 * N.of_nat k + 4 <= lenN bs) -> sid_subs_at bs ks <> Panic.
Proof.
  induction ks as [|k ks IH]; intros H; [discriminate|].
  cbn [sid_subs_at].
  assert (Hk : 8 + 4 * N.of_nat k + 4 <= lenN bs) by (apply H; now left).
  rewrite go_from_ok by lia. cbn [bind].
  unfold go_le_uint. rewrite skipn_length.
  destruct (Nat.leb_spec 4 (length bs - N.to_nat (8 + 4 * N.of_nat k))) as [_|Hlt];
    [|unfold lenN in Hk; lia].
  cbn [bind].
  assert (Hr : sid_subs_at bs ks <> Panic) by (apply IH; intros k' Hk'; apply H; now right).
  destruct (sid_subs_at bs ks); [discriminate|discriminate|congruence].
Qed.

Theorem parse_sid_total bs : parse_sid bs <> Panic.
Proof.
  unfold parse_sid.
  destruct (N.ltb_spec (lenN bs) 8) as [|H8]; [discriminate|].
  destruct (go_index_ok bs 0) as [b0 Hb0]; [lia|]. rewrite Hb0. cbn [bind].
  destruct (negb (b0 =? 1)); [discriminate|].
  destruct (go_index_ok bs 1) as [cnt Hcnt]; [lia|]. rewrite Hcnt. cbn [bind].
  destruct (N.ltb_spec (lenN bs) (8 + 4 * cnt)) as [|Hc]; [discriminate|].
  rewrite go_slice_ok by lia. cbn [bind].
  assert (Hs : sid_subs bs (N.to_nat cnt) <> Panic).
  { unfold sid_subs. apply sid_subs_at_total. intros k Hk. apply in_seq in Hk. lia. }
  destruct (sid_subs bs (N.to_nat cnt)); [discriminate|discriminate|congruence].
Qed.

(* ---------------- DN ---------------- *)

(* [closedb esc p]: scanning p (entered in state esc) meets no unescaped comma and ends outside an escape. *)
Fixpoint closedb (esc : bool) (p : list N) : bool :=
  match p with
  | [] => negb esc
  | c :: p' =>
      if esc then closedb false p'
      else if c =? backslash then closedb true p'
      else if c =? comma then false
      else closedb false p'
  end.

Lemma split_go_closed p : forall esc cur rest,
  closedb esc p = true -> split_go esc (p ++ rest) cur = split_go false rest (cur ++ p).
Proof.
  induction p as [|c p IH]; intros esc cur rest H.
  - destruct esc; [discriminate|]. now rewrite app_nil_r.
  - cbn [app split_go closedb] in *. destruct esc.
    + rewrite IH by exact H. now rewrite <- app_assoc.
    + destruct (c =? backslash).
      * rewrite IH by exact H. now rewrite <- app_assoc.
      * destruct (c =? comma); [discriminate|]. rewrite IH by exact H. now rewrite <- app_assoc.
Qed.

Lemma split_go_join parts : parts <> [] ->
  Forall (fun p => closedb false p = true) parts ->
  forall cur, closedb false cur = true ->
  split_go false (join [comma] parts) cur =
  match parts with [] => [] | p :: ps => (cur ++ p) :: ps end.
Proof.
  induction parts as [|p ps IH]; intros Hne Hall cur Hcur; [congruence|].
  inversion Hall as [|? ? Hp Hps]; subst.
  destruct ps as [|q ps].
  - cbn [join]. rewrite <- (app_nil_r p) at 1. rewrite split_go_closed by exact Hp. reflexivity.
  - change (join [comma] (p :: q :: ps)) with (p ++ [comma] ++ join [comma] (q :: ps)).
    rewrite split_go_closed by exact Hp.
    cbn [app split_go]. change (comma =? backslash) with false. change (comma =? comma) with true.
    cbv iota. f_equal.
    rewrite IH; [reflexivity | discriminate | exact Hps | reflexivity].
Qed.

Lemma closedb_app a b : closedb false a = true -> closedb false b = true -> closedb false (a ++ b) = true.
Proof.
  assert (G : forall a esc, closedb esc a = true -> closedb false b = true -> closedb esc (a ++ b) = true).
  { clear a. induction a as [|c a IH]; intros esc Ha Hb.
    - destruct esc; [discriminate|exact Hb].
    - cbn [app closedb] in *. destruct esc; [now apply IH|].
      destruct (c =? backslash); [now apply IH|]. destruct (c =? comma); [discriminate|now apply IH]. }
  apply G.
Qed.

Lemma closedb_plain v : plain v = true -> closedb false v = true.
Proof.
  induction v as [|c v IH]; intros H; [reflexivity|].
  cbn [plain forallb] in H. apply andb_true_iff in H. destruct H as [Hc Hv].
  cbn [closedb]. unfold special in Hc. unfold backslash, comma.
  destruct (N.eqb_spec c 92); [subst; discriminate|].
  destruct (N.eqb_spec c 44); [subst; discriminate|]. now apply IH.
Qed.

Lemma hexdigit_not_sep n : n < 16 -> (hexdigit n =? backslash) = false /\ (hexdigit n =? comma) = false.
Proof.
  intros H. unfold hexdigit, backslash, comma.
  destruct (N.ltb_spec n 10); split; apply N.eqb_neq; lia.
Qed.

Lemma closedb_escape hx v : closedb false (escape_hx hx v) = true.
Proof.
  induction v as [|c v IH]; [reflexivity|].
  cbn [escape_hx flat_map]. fold (escape_hx hx v). destruct (hx c).
  { cbn [app closedb]. change (92 =? backslash) with true. cbv iota.
    destruct (hexdigit_not_sep (c mod 16)) as [E1 E2]; [apply N.mod_lt; discriminate|].
    rewrite E1, E2. exact IH. }
  destruct (special c) eqn:E.
  - cbn [app closedb]. change (92 =? backslash) with true. cbv iota. exact IH.
  - cbn [app closedb]. unfold special in E. unfold backslash, comma.
    destruct (N.eqb_spec c 92); [subst; discriminate|].
    destruct (N.eqb_spec c 44); [subst; discriminate|]. exact IH.
Qed.

Lemma closedb_render hx r : plain (fst r) = true -> closedb false (render_rdn_hx hx r) = true.
Proof.
  intros H. unfold render_rdn_hx. apply closedb_app; [now apply closedb_plain|].
  apply closedb_app; [reflexivity | apply closedb_escape].
Qed.

Lemma escape_plain hx v : plain v = true -> nohex hx v = true -> escape_hx hx v = v.
Proof.
  induction v as [|c v IH]; intros H Hn; [reflexivity|].
  cbn [plain forallb] in H. apply andb_true_iff in H. destruct H as [Hc Hv].
  cbn [nohex forallb] in Hn. apply andb_true_iff in Hn. destruct Hn as [Hnc Hnv].
  cbn [escape_hx flat_map]. fold (escape_hx hx v).
  destruct (hx c); [discriminate|]. destruct (special c); [discriminate|].
  cbn [app]. f_equal. now apply IH.
Qed.

(* HasPrefix "DC=" on a rendered RDN holds exactly for the attribute type "DC" *)
Lemma has_prefix_dc hx r : plain (fst r) = true ->
  has_prefix dc_prefix (render_rdn_hx hx r) = is_dc r.
Proof.
  destruct r as [a v]. cbn [fst snd]. unfold render_rdn_hx, is_dc, dc_prefix. cbn [fst snd].
  intros Hp.
  destruct a as [|a0 a]; [cbn [app has_prefix bytes_eqb]; change (68 =? 61) with false; reflexivity|].
  cbn [plain forallb] in Hp. apply andb_true_iff in Hp. destruct Hp as [H0 Hp].
  cbn [app has_prefix bytes_eqb].
  destruct (N.eqb_spec 68 a0) as [<-|Hn0].
  2:{ destruct (N.eqb_spec a0 68); [congruence|reflexivity]. }
  change (68 =? 68) with true. cbn [andb].
  destruct a as [|a1 a].
  { cbn [app has_prefix]. change (67 =? 61) with false. reflexivity. }
  cbn [forallb] in Hp. apply andb_true_iff in Hp. destruct Hp as [H1 Hp].
  cbn [app has_prefix].
  destruct (N.eqb_spec 67 a1) as [<-|Hn1].
  2:{ destruct (N.eqb_spec a1 67); [congruence|reflexivity]. }
  change (67 =? 67) with true. cbn [andb].
  destruct a as [|a2 a].
  { cbn [app has_prefix]. reflexivity. }
  cbn [forallb] in Hp. apply andb_true_iff in Hp. destruct Hp as [H2 Hp].
  cbn [app has_prefix]. unfold special in H2.
  destruct (N.eqb_spec 61 a2) as [<-|Hn2]; [discriminate|]. reflexivity.
Qed.

Lemma skipn3_render hx r : is_dc r = true -> plain (snd r) = true -> nohex hx (snd r) = true ->
  skipn 3 (render_rdn_hx hx r) = snd r.
Proof.
  destruct r as [a v]. unfold is_dc, render_rdn_hx. cbn [fst snd]. intros Ha Hv Hn.
  apply bytes_eqb_spec in Ha. subst a. cbn [app skipn]. now apply escape_plain.
Qed.

Lemma trim_join_dots (vs : list (list N)) :
  trim_suffix_dot (flat_map (fun v => v ++ [dot]) vs) = join [dot] vs.
Proof.
  assert (G : forall vs, vs <> [] -> flat_map (fun v => v ++ [dot]) vs = join [dot] vs ++ [dot]).
  { clear vs. induction vs as [|v vs IH]; intros Hne; [congruence|].
    destruct vs as [|w vs]; [cbn; now rewrite app_nil_r|].
    change (flat_map (fun v => v ++ [dot]) (v :: w :: vs)) with
      ((v ++ [dot]) ++ flat_map (fun v => v ++ [dot]) (w :: vs)).
    rewrite IH by discriminate.
    change (join [dot] (v :: w :: vs)) with (v ++ [dot] ++ join [dot] (w :: vs)).
    now rewrite <- !app_assoc. }
  destruct vs as [|v vs]; [reflexivity|].
  rewrite G by discriminate. unfold trim_suffix_dot. rewrite rev_app_distr. cbn [rev app].
  change (dot =? dot) with true. cbv iota. apply rev_involutive.
Qed.

Theorem domain_of_dn_hx_spec hx rs : dn_ok_hx hx rs -> domain_of_dn (render_dn_hx hx rs) = dns_domain rs.
Proof.
  intros Hok. unfold domain_of_dn, render_dn_hx, dns_domain.
  destruct rs as [|r0 rs0] eqn:Ers; [reflexivity|]. rewrite <- Ers in *.
  assert (Hparts : split_go false (join [comma] (map (render_rdn_hx hx) rs)) [] = map (render_rdn_hx hx) rs).
  { rewrite split_go_join.
    - destruct (map (render_rdn_hx hx) rs); reflexivity.
    - subst rs. discriminate.
    - apply Forall_map. eapply Forall_impl; [|exact Hok]. intros r [Hr _]. now apply closedb_render.
    - reflexivity. }
  change [44] with [comma]. rewrite Hparts.
  rewrite <- trim_join_dots. f_equal.
  clear Hparts Ers. induction Hok as [|r rs [Hr1 Hr2] Hrs IH]; [reflexivity|].
  cbn [map flat_map filter]. rewrite has_prefix_dc by exact Hr1.
  destruct (is_dc r) eqn:E.
  - cbn [map flat_map]. destruct (Hr2 eq_refl) as [Hp Hn]. rewrite skipn3_render by auto. now rewrite IH.
  - cbn [app]. exact IH.
Qed.

Lemma nohex_none v : nohex (fun _ => false) v = true.
Proof. induction v as [|c v IH]; [reflexivity|exact IH]. Qed.

Theorem domain_of_dn_spec rs : dn_ok rs -> domain_of_dn (render_dn rs) = dns_domain rs.
Proof.
  intros Hok. apply domain_of_dn_hx_spec. eapply Forall_impl; [|exact Hok].
  intros r [H1 H2]. split; [exact H1|]. intros E. split; [now apply H2|apply nohex_none].
Qed.
