(* C13, UUID versions 1, 2 and 8: field round trips and agreement with RFC 4122. *)
From Coq Require Import List Arith NArith ZArith Lia Bool.
From Coq Require Import ZifyN ZifyNat ZifyBool.
From Mant Require Import Prim.R Prim.Bytes Prim.Dec Prim.HexNum Prim.GoStr Model.Uuid Spec.C13 Proofs.C13Uuid.
Import ListNotations.
Open Scope N_scope.

Ltac Zify.zify_post_hook ::= Z.div_mod_to_equations.

Ltac pows :=
  change (2 ^ 12) with 4096 in *; change (2 ^ 16) with 65536 in *; change (2 ^ 32) with 4294967296 in *;
  change (2 ^ 48) with 281474976710656 in *; change (2 ^ 60) with 1152921504606846976 in *;
  change (2 ^ (8 * N.of_nat 4)) with 4294967296 in *; change (2 ^ (8 * N.of_nat 2)) with 65536 in *.

Lemma be4 x : exists a b c d, be_bytes 4 x = [a; b; c; d].
Proof. unfold be_bytes. cbn [le_bytes rev app]. eauto. Qed.
Lemma be2 x : exists a b, be_bytes 2 x = [a; b].
Proof. unfold be_bytes. cbn [le_bytes rev app]. eauto. Qed.

Lemma wf_app3 a b c : wf_bytes a -> wf_bytes b -> wf_bytes c -> wf_bytes (a ++ b ++ c).
Proof. intros. apply wf_bytes_app. split; [assumption|]. apply wf_bytes_app. now split. Qed.

(* ---------------- shared arithmetic of v1 and v2, on few variables *)

Lemma time_split tl tm th : tl < 2 ^ 32 -> tm < 2 ^ 16 -> th < 2 ^ 12 ->
  (th * 2 ^ 48 + tm * 2 ^ 32 + tl) mod 2 ^ 32 = tl
  /\ time_mid (th * 2 ^ 48 + tm * 2 ^ 32 + tl) = tm
  /\ time_high (th * 2 ^ 48 + tm * 2 ^ 32 + tl) = th
  /\ th * 2 ^ 48 + tm * 2 ^ 32 + tl < 2 ^ 60.
Proof. unfold time_mid, time_high. pows. intros. repeat split; lia. Qed.

Lemma time_join t : t < 2 ^ 60 -> time_high t * 2 ^ 48 + time_mid t * 2 ^ 32 + t mod 2 ^ 32 = t.
Proof. unfold time_mid, time_high. pows. intros. lia. Qed.

Lemma time_bounds t : t mod 2 ^ 32 < 2 ^ 32 /\ time_mid t < 2 ^ 16 /\ time_high t < 2 ^ 12.
Proof. unfold time_mid, time_high. pows. repeat split; lia. Qed.

(* the three bytes Data[6..8] against (timeHigh, 12-bit clock sequence) *)
Lemma nib_enc th cs : th < 4096 -> cs < 4096 ->
  let x := (th / 16) mod 256 in let y := 16 * (th mod 16) + (cs / 256) mod 16 in let z := cs mod 256 in
  16 * x + (y / 16) mod 16 = th /\ 256 * (y mod 16) + z = cs /\ x < 256 /\ y < 256 /\ z < 256.
Proof. intros. cbv zeta. repeat split; lia. Qed.

Lemma nib_dec d6 d7 d8 : d6 < 256 -> d7 < 256 -> d8 < 256 ->
  let th := 16 * d6 + (d7 / 16) mod 16 in let cs := 256 * (d7 mod 16) + d8 in
  (th / 16) mod 256 = d6 /\ 16 * (th mod 16) + (cs / 256) mod 16 = d7 /\ cs mod 256 = d8
  /\ th < 4096 /\ cs < 4096.
Proof. intros. cbv zeta. repeat split; lia. Qed.

Lemma cons_eq {A} (a b : A) l m : a = b -> l = m -> a :: l = b :: m.
Proof. congruence. Qed.
Ltac list_eq := repeat (apply cons_eq; [try reflexivity|]); try reflexivity.

Lemma ok_inj {A} (a b : A) : Ok a = Ok b -> a = b.
Proof. congruence. Qed.

Lemma be_val4_bound a b c d : wf_bytes [a; b; c; d] -> be_val [a; b; c; d] < 2 ^ 32.
Proof. intros H. exact (be_val_bound [a; b; c; d] H). Qed.
Lemma be_val2_bound a b : wf_bytes [a; b] -> be_val [a; b] < 2 ^ 16.
Proof. intros H. exact (be_val_bound [a; b] H). Qed.
Lemma be_bytes4_val a b c d : wf_bytes [a; b; c; d] -> be_bytes 4 (be_val [a; b; c; d]) = [a; b; c; d].
Proof. intros H. exact (be_bytes_be_val [a; b; c; d] H). Qed.
Lemma be_bytes2_val a b : wf_bytes [a; b] -> be_bytes 2 (be_val [a; b]) = [a; b].
Proof. intros H. exact (be_bytes_be_val [a; b] H). Qed.

(* ---------------- version 1 *)

Lemma v1_data_ok time cs node : wf_bytes node -> length node = 6%nat ->
  wf_bytes (v1_data time cs node) /\ length (v1_data time cs node) = 15%nat.
Proof.
  intros Hw Hl. unfold v1_data. split.
  - apply wf_app3; [apply wf_be_bytes|apply wf_be_bytes|].
    apply wf_bytes_app. split; [|exact Hw]. unfold wf_bytes. repeat constructor; lia.
  - rewrite !app_length, !length_be_bytes, Hl. reflexivity.
Qed.

(* the fields Unmarshal reads out of the 15 data bytes *)
Definition v1_of_data (d : list N) : N * N * list N :=
  (data_time_high d * 2 ^ 48 + be_val (firstn 2 (skipn 4 d)) * 2 ^ 32 + be_val (firstn 4 d),
   256 * (byte_at d 7 mod 16) + byte_at d 8, firstn 6 (skipn 9 d)).

Lemma v1_unmarshal_eq bs : v1_unmarshal bs =
  if lenN bs <? 16 then Err else
  let* u := uuid_unmarshal bs in
  let '(ver, var, d) := u in
  if negb (ver =? 1) then Err else
  let '(time, cs, node) := v1_of_data d in Ok (var, time, cs, node).
Proof. reflexivity. Qed.

Lemma v1_of_data_data time cs node : time < 2 ^ 60 -> cs < 2 ^ 12 -> length node = 6%nat ->
  v1_of_data (v1_data time cs node) = (time, cs, node).
Proof.
  intros Ht Hcs Hl. unfold v1_data, v1_of_data, data_time_high.
  destruct (be4 (time mod 2 ^ 32)) as (a0 & a1 & a2 & a3 & Ea). rewrite Ea.
  destruct (be2 (time_mid time)) as (m0 & m1 & Em). rewrite Em.
  explode node Hl. cbn [app firstn skipn byte_at nth].
  rewrite <- Ea, <- Em, !be_val_be_bytes.
  destruct (time_bounds time) as (B1 & B2 & B3).
  change (8 * N.of_nat 4) with 32. change (8 * N.of_nat 2) with 16.
  rewrite (N.mod_small (time mod 2 ^ 32)) by exact B1. rewrite (N.mod_small (time_mid time)) by exact B2.
  change (2 ^ 12) with 4096 in *.
  destruct (nib_enc (time_high time) cs B3 Hcs) as (N1 & N2 & _). cbv zeta in N1, N2.
  rewrite N1, N2, time_join by exact Ht. reflexivity.
Qed.

Lemma v1_data_of_data d : wf_bytes d -> length d = 15%nat ->
  let '(time, cs, node) := v1_of_data d in
  v1_data time cs node = d /\ time < 2 ^ 60 /\ cs < 2 ^ 12 /\ wf_bytes node /\ length node = 6%nat.
Proof.
  intros Hwf Hlen. explode d Hlen. wf_split.
  unfold v1_of_data, v1_data, data_time_high. cbn [firstn skipn byte_at nth].
  assert (W4 : wf_bytes [b; b0; b1; b2]) by wf_solve. assert (W2 : wf_bytes [b3; b4]) by wf_solve.
  pose proof (be_val4_bound _ _ _ _ W4) as B4. pose proof (be_val2_bound _ _ W2) as B2.
  destruct (nib_dec b5 b6 b7) as (N1 & N2 & N3 & N4 & N5); try assumption. cbv zeta in N1, N2, N3, N4, N5.
  set (th := 16 * b5 + (b6 / 16) mod 16) in *. set (cs := 256 * (b6 mod 16) + b7) in *.
  destruct (time_split (be_val [b; b0; b1; b2]) (be_val [b3; b4]) th B4 B2 N4) as (T1 & T2 & T3 & T4).
  rewrite T1, T2, T3, N1, N2, N3. rewrite be_bytes4_val, be_bytes2_val by assumption.
  repeat split; try assumption. wf_solve.
Qed.

Theorem v1_fields var time cs node :
  var < 16 -> time < 2 ^ 60 -> cs < 2 ^ 12 -> wf_bytes node -> length node = 6%nat ->
  v1_unmarshal (v1_marshal var time cs node) = Ok (var, time, cs, node)
  /\ length (v1_marshal var time cs node) = 16%nat /\ wf_bytes (v1_marshal var time cs node).
Proof.
  intros Hvar Ht Hcs Hw Hl. unfold v1_marshal.
  destruct (v1_data_ok time cs node Hw Hl) as [Dw Dl].
  destruct (uuid_bin_fields 1 var _ ltac:(lia) Hvar Dw Dl) as (Hu & Ul & Uw).
  split; [|split; assumption].
  rewrite v1_unmarshal_eq. unfold lenN. rewrite Ul. change (N.of_nat 16 <? 16) with false. cbv iota.
  rewrite Hu. cbn [bind]. change (negb (1 =? 1)) with false. cbv iota.
  rewrite v1_of_data_data by assumption. reflexivity.
Qed.

Theorem v1_bin bs var time cs node : wf_bytes bs -> length bs = 16%nat ->
  v1_unmarshal bs = Ok (var, time, cs, node) ->
  v1_marshal var time cs node = bs /\ var < 16 /\ time < 2 ^ 60 /\ cs < 2 ^ 12
  /\ wf_bytes node /\ length node = 6%nat.
Proof.
  intros Hwf Hlen. rewrite v1_unmarshal_eq.
  destruct (uuid_bin_bytes bs Hwf Hlen) as (ver & var' & d & Hu & Hm & Hver & Hvar & Dw & Dl & _).
  unfold lenN. rewrite Hlen. change (N.of_nat 16 <? 16) with false. cbv iota.
  rewrite Hu. cbn [bind]. destruct (N.eqb_spec ver 1) as [->|]; [|discriminate]. cbn [negb].
  pose proof (v1_data_of_data d Dw Dl) as D. destruct (v1_of_data d) as [[time' cs'] node'].
  intros Hok. apply ok_inj in Hok. injection Hok as -> -> -> ->.
  destruct D as (D1 & D2 & D3 & D4 & D5). unfold v1_marshal. rewrite D1. repeat split; assumption.
Qed.

(* agreement with the RFC 4122 field extractors *)
Lemma th_rfc b6 b7 b8 : b6 < 256 -> b7 < 256 -> b8 < 256 ->
  16 * (16 * (b6 mod 16) + b7 / 16) + ((16 * (b7 mod 16) + b8 mod 16) / 16) mod 16 = (b7 + 256 * b6) mod 4096.
Proof. intros. lia. Qed.

Lemma cs_rfc m7 m8 m9 : m7 < 256 -> m8 < 256 -> m9 < 256 ->
  let cs := 256 * ((16 * (m7 mod 16) + m8 mod 16) mod 16) + m9 in
  let rfc := 256 * (m8 mod 64) + m9 in
  cs = rfc mod 4096 /\ 4096 * ((m8 / 16) mod 4) + cs = rfc /\ ((m8 / 64 =? 2) = true <-> 8 <= m8 / 16 < 12).
Proof. intros. cbv zeta. rewrite N.eqb_eq. split; [lia|]. split; [lia|]. split; intros; lia. Qed.

Theorem v1_rfc bs var time cs node : wf_bytes bs -> length bs = 16%nat ->
  v1_unmarshal bs = Ok (var, time, cs, node) ->
  rfc_version bs = 1 /\ time = rfc_timestamp bs /\ node = rfc_node bs
  /\ cs = rfc_clock_seq bs mod 2 ^ 12 /\ 2 ^ 12 * (var mod 4) + cs = rfc_clock_seq bs
  /\ (rfc_variant_4122 bs = true <-> 8 <= var < 12).
Proof.
  intros Hwf Hlen. explode bs Hlen. wf_split.
  unfold v1_unmarshal, lenN. cbn [length]. change (N.of_nat 16 <? 16) with false. cbv iota.
  unfold uuid_unmarshal, lenN. cbn [length]. change (N.of_nat 16 <? 16) with false. cbv iota.
  cbn [bind firstn skipn app byte_at nth].
  rewrite !lo4_spec. rewrite !hi4_spec by assumption. rewrite !join4_spec by lia.
  destruct (N.eqb_spec (b5 / 16) 1) as [Hv|]; [|discriminate]. cbn [negb].
  match goal with |- Ok (?a, ?b, ?c, ?d) = _ -> _ => set (A := a); set (B := b); set (C := c); set (D := d) end.
  intros Hok. injection Hok as <- <- <- <-. subst A B C D.
  unfold rfc_version, rfc_timestamp, rfc_time_low, rfc_time_mid, rfc_time_hi_and_version, rfc_node,
    rfc_clock_seq, rfc_variant_4122, octets, octet, data_time_high.
  cbn [firstn skipn byte_at nth].
  assert (E67 : be_val [b5; b6] = b6 + 256 * b5) by (unfold be_val; cbn [rev app le_val]; lia).
  rewrite E67. rewrite th_rfc by assumption.
  destruct (cs_rfc b6 b7 b8) as (C1 & C2 & C3); try assumption. cbv zeta in C1, C2, C3.
  change (2 ^ 12) with 4096.
  split; [lia|]. split.
  { generalize (be_val [b3; b4]) (be_val [b; b0; b1; b2]) ((b6 + 256 * b5) mod 4096). intros. lia. }
  split; [reflexivity|]. split; [exact C1|]. split; [exact C2|exact C3].
Qed.

(* the clock sequence is NOT the RFC's 14-bit one: bits 12 and 13 end up in Variant *)
Definition v1_clockseq_is_rfc : Prop :=
  forall bs var time cs node, wf_bytes bs -> length bs = 16%nat ->
    v1_unmarshal bs = Ok (var, time, cs, node) -> cs = rfc_clock_seq bs.

Definition clockseq_witness : list N := [255; 255; 255; 255; 255; 255; 31; 255; 255; 255; 255; 255; 255; 255; 255; 255].

Theorem v1_clockseq_refuted : ~ v1_clockseq_is_rfc.
Proof.
  intros H.
  specialize (H clockseq_witness 15 1152921504606846975 4095 [255; 255; 255; 255; 255; 255]).
  assert (W : wf_bytes clockseq_witness) by (apply wf_bytesb_spec; vm_compute; reflexivity).
  specialize (H W eq_refl). vm_compute in H. specialize (H eq_refl). discriminate.
Qed.

(* building an RFC 4122 version-1 UUID: the two upper clock-sequence bits travel in Variant *)
Theorem v1_marshal_rfc ts cs14 node : ts < 2 ^ 60 -> cs14 < 2 ^ 14 -> wf_bytes node -> length node = 6%nat ->
  v1_marshal (8 + cs14 / 2 ^ 12) ts (cs14 mod 2 ^ 12) node = rfc_v1_encode ts cs14 node.
Proof.
  intros Ht Hc Hw Hl. explode node Hl.
  unfold v1_marshal, rfc_v1_encode, v1_data, uuid_marshal, time_mid, time_high, be_bytes.
  cbn [le_bytes rev app firstn skipn byte_at nth].
  rewrite !lo4_spec, !pack4_spec. rewrite !hi4_spec by lia.
  change (2 ^ 14) with 16384 in *. pows.
  assert (Hh : ts / 281474976710656 < 4096) by lia.
  set (h := ts / 281474976710656) in *. clearbody h.
  list_eq; lia.
Qed.

Lemma v1_unmarshal_total bs : v1_unmarshal bs <> Panic.
Proof.
  unfold v1_unmarshal. destruct (lenN bs <? 16); [discriminate|].
  pose proof (uuid_unmarshal_total bs). destruct (uuid_unmarshal bs) as [[[ver var] d]| |]; cbn [bind]; try congruence.
  destruct (negb _); discriminate.
Qed.
Lemma v1_from_bytes_total bs : v1_from_bytes bs <> Panic.
Proof. unfold v1_from_bytes. destruct (negb _); [discriminate|apply v1_unmarshal_total]. Qed.
Lemma uuid_hex_of_string_total s : uuid_hex_of_string s <> Panic.
Proof. unfold uuid_hex_of_string. destruct (negb _); [discriminate|]. destruct (unhex _); discriminate. Qed.
Lemma v1_from_string_total s : v1_from_string s <> Panic.
Proof.
  unfold v1_from_string. pose proof (uuid_hex_of_string_total s).
  destruct (uuid_hex_of_string s); cbn [bind]; try congruence. apply v1_from_bytes_total.
Qed.
Lemma set_node_total bs : set_node bs <> Panic.
Proof. unfold set_node. destruct (negb _); discriminate. Qed.

(* ---------------- version 2 *)

Lemma time_split0 tm th : tm < 2 ^ 16 -> th < 2 ^ 12 ->
  time_mid (th * 2 ^ 48 + tm * 2 ^ 32) = tm /\ time_high (th * 2 ^ 48 + tm * 2 ^ 32) = th
  /\ th * 2 ^ 48 + tm * 2 ^ 32 < 2 ^ 60 /\ (th * 2 ^ 48 + tm * 2 ^ 32) mod 2 ^ 32 = 0.
Proof. unfold time_mid, time_high. pows. intros. repeat split; lia. Qed.

Lemma time_join0 t : t < 2 ^ 60 -> t mod 2 ^ 32 = 0 -> time_high t * 2 ^ 48 + time_mid t * 2 ^ 32 = t.
Proof. unfold time_mid, time_high. pows. intros. lia. Qed.

Lemma nib2_enc th clock : th < 4096 -> clock < 16 ->
  let x := (th / 16) mod 256 in let y := 16 * (th mod 16) + clock mod 16 in
  16 * x + (y / 16) mod 16 = th /\ y mod 16 = clock /\ x < 256 /\ y < 256.
Proof. intros. cbv zeta. repeat split; lia. Qed.

Lemma nib2_dec d6 d7 : d6 < 256 -> d7 < 256 ->
  let th := 16 * d6 + (d7 / 16) mod 16 in let clock := d7 mod 16 in
  (th / 16) mod 256 = d6 /\ 16 * (th mod 16) + clock mod 16 = d7 /\ th < 4096 /\ clock < 16.
Proof. intros. cbv zeta. repeat split; lia. Qed.

Lemma v2_data_ok ldn time clock ld node : ld < 256 -> wf_bytes node -> length node = 6%nat ->
  wf_bytes (v2_data ldn time clock ld node) /\ length (v2_data ldn time clock ld node) = 15%nat.
Proof.
  intros Hld Hw Hl. unfold v2_data. split.
  - apply wf_app3; [apply wf_be_bytes|apply wf_be_bytes|].
    apply wf_bytes_app. split; [|exact Hw]. unfold wf_bytes. repeat constructor; lia.
  - rewrite !app_length, !length_be_bytes, Hl. reflexivity.
Qed.

Definition v2_of_data (d : list N) : N * N * N * N * list N :=
  (be_val (firstn 4 d), data_time_high d * 2 ^ 48 + be_val (firstn 2 (skipn 4 d)) * 2 ^ 32,
   byte_at d 7 mod 16, byte_at d 8, firstn 6 (skipn 9 d)).

Lemma v2_unmarshal_eq bs : v2_unmarshal bs =
  if lenN bs <? 16 then Err else
  let* u := uuid_unmarshal bs in
  let '(ver, var, d) := u in
  if negb (ver =? 2) then Err else
  let '(ldn, time, clock, ld, node) := v2_of_data d in Ok (var, ldn, time, clock, ld, node).
Proof. reflexivity. Qed.

(* within the field widths: the low 32 bits of Time are not transmitted (DCE puts the local id there) *)
Definition v2_time_ok (time : N) : Prop := time < 2 ^ 60 /\ time mod 2 ^ 32 = 0.

Lemma v2_of_data_data ldn time clock ld node :
  ldn < 2 ^ 32 -> v2_time_ok time -> clock < 16 -> length node = 6%nat ->
  v2_of_data (v2_data ldn time clock ld node) = (ldn, time, clock, ld, node).
Proof.
  intros Hldn [Ht Ht0] Hc Hl. unfold v2_data, v2_of_data, data_time_high.
  destruct (be4 ldn) as (a0 & a1 & a2 & a3 & Ea). rewrite Ea.
  destruct (be2 (time_mid time)) as (m0 & m1 & Em). rewrite Em.
  explode node Hl. cbn [app firstn skipn byte_at nth].
  rewrite <- Ea, <- Em, !be_val_be_bytes.
  destruct (time_bounds time) as (B1 & B2 & B3).
  change (8 * N.of_nat 4) with 32. change (8 * N.of_nat 2) with 16.
  rewrite (N.mod_small ldn) by exact Hldn. rewrite (N.mod_small (time_mid time)) by exact B2.
  change (2 ^ 12) with 4096 in *.
  destruct (nib2_enc (time_high time) clock B3 Hc) as (N1 & N2 & _). cbv zeta in N1, N2.
  rewrite N1, N2, time_join0 by assumption. reflexivity.
Qed.

Lemma v2_data_of_data d : wf_bytes d -> length d = 15%nat ->
  let '(ldn, time, clock, ld, node) := v2_of_data d in
  v2_data ldn time clock ld node = d /\ ldn < 2 ^ 32 /\ v2_time_ok time /\ clock < 16 /\ ld < 256
  /\ wf_bytes node /\ length node = 6%nat.
Proof.
  intros Hwf Hlen. explode d Hlen. wf_split.
  unfold v2_of_data, v2_data, data_time_high, v2_time_ok. cbn [firstn skipn byte_at nth].
  assert (W4 : wf_bytes [b; b0; b1; b2]) by wf_solve. assert (W2 : wf_bytes [b3; b4]) by wf_solve.
  pose proof (be_val4_bound _ _ _ _ W4) as B4. pose proof (be_val2_bound _ _ W2) as B2.
  destruct (nib2_dec b5 b6) as (N1 & N2 & N3 & N4); try assumption. cbv zeta in N1, N2, N3, N4.
  set (th := 16 * b5 + (b6 / 16) mod 16) in *.
  destruct (time_split0 (be_val [b3; b4]) th B2 N3) as (T1 & T2 & T3 & T4).
  rewrite T1, T2, N1, N2. rewrite be_bytes4_val, be_bytes2_val by assumption.
  repeat split; try assumption. wf_solve.
Qed.

Theorem v2_fields var ldn time clock ld node :
  var < 16 -> ldn < 2 ^ 32 -> v2_time_ok time -> clock < 16 -> ld < 256 -> wf_bytes node -> length node = 6%nat ->
  v2_unmarshal (v2_marshal var ldn time clock ld node) = Ok (var, ldn, time, clock, ld, node)
  /\ length (v2_marshal var ldn time clock ld node) = 16%nat /\ wf_bytes (v2_marshal var ldn time clock ld node).
Proof.
  intros Hvar Hldn Ht Hc Hld Hw Hl. unfold v2_marshal.
  destruct (v2_data_ok ldn time clock ld node Hld Hw Hl) as [Dw Dl].
  destruct (uuid_bin_fields 2 var _ ltac:(lia) Hvar Dw Dl) as (Hu & Ul & Uw).
  split; [|split; assumption].
  rewrite v2_unmarshal_eq. unfold lenN. rewrite Ul. change (N.of_nat 16 <? 16) with false. cbv iota.
  rewrite Hu. cbn [bind]. change (negb (2 =? 2)) with false. cbv iota.
  rewrite v2_of_data_data by assumption. reflexivity.
Qed.

Theorem v2_bin bs var ldn time clock ld node : wf_bytes bs -> length bs = 16%nat ->
  v2_unmarshal bs = Ok (var, ldn, time, clock, ld, node) ->
  v2_marshal var ldn time clock ld node = bs /\ var < 16 /\ ldn < 2 ^ 32 /\ v2_time_ok time /\ clock < 16
  /\ ld < 256 /\ wf_bytes node /\ length node = 6%nat.
Proof.
  intros Hwf Hlen. rewrite v2_unmarshal_eq.
  destruct (uuid_bin_bytes bs Hwf Hlen) as (ver & var' & d & Hu & Hm & Hver & Hvar & Dw & Dl & _).
  unfold lenN. rewrite Hlen. change (N.of_nat 16 <? 16) with false. cbv iota.
  rewrite Hu. cbn [bind]. destruct (N.eqb_spec ver 2) as [->|]; [|discriminate]. cbn [negb].
  pose proof (v2_data_of_data d Dw Dl) as D. destruct (v2_of_data d) as [[[[ldn' time'] clock'] ld'] node'].
  intros Hok. apply ok_inj in Hok. injection Hok as -> -> -> -> -> ->.
  destruct D as (D1 & D2 & D3 & D4 & D5 & D6 & D7). unfold v2_marshal. rewrite D1. repeat split; try assumption; apply D3.
Qed.

(* the DCE layout has 6 clock bits in byte 8; the model keeps 4 *)
Definition v2_clock_is_dce : Prop :=
  forall bs var ldn time clock ld node, wf_bytes bs -> length bs = 16%nat ->
    v2_unmarshal bs = Ok (var, ldn, time, clock, ld, node) -> clock = octet bs 8 mod 64.

Definition clock_witness : list N := [255; 255; 255; 255; 255; 255; 47; 255; 255; 255; 255; 255; 255; 255; 255; 255].

Theorem v2_clock_refuted : ~ v2_clock_is_dce.
Proof.
  intros H.
  specialize (H clock_witness 15 4294967295 1152921500311879680 15 255 [255; 255; 255; 255; 255; 255]).
  assert (W : wf_bytes clock_witness) by (apply wf_bytesb_spec; vm_compute; reflexivity).
  specialize (H W eq_refl). vm_compute in H. specialize (H eq_refl). discriminate.
Qed.

Theorem v2_dce bs var ldn time clock ld node : wf_bytes bs -> length bs = 16%nat ->
  v2_unmarshal bs = Ok (var, ldn, time, clock, ld, node) ->
  rfc_version bs = 2 /\ ldn = rfc_time_low bs /\ ld = octet bs 9 /\ node = rfc_node bs
  /\ time = rfc_timestamp bs - rfc_time_low bs /\ clock = (octet bs 8 mod 64) mod 16.
Proof.
  intros Hwf Hlen. explode bs Hlen. wf_split.
  unfold v2_unmarshal, lenN. cbn [length]. change (N.of_nat 16 <? 16) with false. cbv iota.
  unfold uuid_unmarshal, lenN. cbn [length]. change (N.of_nat 16 <? 16) with false. cbv iota.
  cbn [bind firstn skipn app byte_at nth].
  rewrite !lo4_spec. rewrite !hi4_spec by assumption. rewrite !join4_spec by lia.
  destruct (N.eqb_spec (b5 / 16) 2) as [Hv|]; [|discriminate]. cbn [negb].
  match goal with |- Ok (?a, ?b, ?c, ?d, ?e, ?f) = _ -> _ =>
    set (A := a); set (B := b); set (C := c); set (D := d); set (E := e); set (F := f) end.
  intros Hok. injection Hok as <- <- <- <- <- <-. subst A B C D E F.
  unfold rfc_version, rfc_timestamp, rfc_time_low, rfc_time_mid, rfc_time_hi_and_version, rfc_node,
    octets, octet, data_time_high.
  cbn [firstn skipn byte_at nth].
  assert (E67 : be_val [b5; b6] = b6 + 256 * b5) by (unfold be_val; cbn [rev app le_val]; lia).
  rewrite E67. rewrite th_rfc by assumption.
  change (2 ^ 12) with 4096.
  split; [lia|]. split; [reflexivity|]. split; [reflexivity|]. split; [reflexivity|]. split.
  { generalize (be_val [b3; b4]) (be_val [b; b0; b1; b2]) ((b6 + 256 * b5) mod 4096). intros. lia. }
  lia.
Qed.

Lemma v2_unmarshal_total bs : v2_unmarshal bs <> Panic.
Proof.
  unfold v2_unmarshal. destruct (lenN bs <? 16); [discriminate|].
  pose proof (uuid_unmarshal_total bs). destruct (uuid_unmarshal bs) as [[[ver var] d]| |]; cbn [bind]; try congruence.
  destruct (negb _); discriminate.
Qed.
Lemma v2_from_bytes_total bs : v2_from_bytes bs <> Panic.
Proof. unfold v2_from_bytes. destruct (negb _); [discriminate|apply v2_unmarshal_total]. Qed.
Lemma v2_from_string_total s : v2_from_string s <> Panic.
Proof.
  unfold v2_from_string. pose proof (uuid_hex_of_string_total s).
  destruct (uuid_hex_of_string s); cbn [bind]; try congruence. apply v2_from_bytes_total.
Qed.

(* ---------------- version 8 *)

Theorem v8_fields var d : var < 16 -> wf_bytes d -> length d = 15%nat ->
  v8_unmarshal (v8_marshal var d) = Ok (var, d)
  /\ length (v8_marshal var d) = 16%nat /\ wf_bytes (v8_marshal var d).
Proof.
  intros Hvar Dw Dl. unfold v8_marshal.
  destruct (uuid_bin_fields 8 var d ltac:(lia) Hvar Dw Dl) as (Hu & Ul & Uw).
  split; [|split; assumption].
  unfold v8_unmarshal, lenN. rewrite Ul. change (N.of_nat 16 <? 16) with false. cbv iota.
  rewrite Hu. reflexivity.
Qed.

Theorem v8_bin bs var d : wf_bytes bs -> length bs = 16%nat ->
  v8_unmarshal bs = Ok (var, d) -> v8_marshal var d = bs /\ var < 16 /\ wf_bytes d /\ length d = 15%nat
  /\ rfc_version bs = 8.
Proof.
  intros Hwf Hlen. unfold v8_unmarshal.
  destruct (uuid_bin_bytes bs Hwf Hlen) as (ver & var' & d' & Hu & Hm & Hver & Hvar & Dw & Dl & Hrfc).
  unfold lenN. rewrite Hlen. change (N.of_nat 16 <? 16) with false. cbv iota.
  rewrite Hu. cbn [bind]. destruct (N.eqb_spec ver 8) as [->|]; [|discriminate]. cbn [negb].
  intros Hok. apply ok_inj in Hok. injection Hok as -> ->. unfold v8_marshal. auto.
Qed.

Lemma v8_unmarshal_total bs : v8_unmarshal bs <> Panic.
Proof.
  unfold v8_unmarshal. destruct (lenN bs <? 16); [discriminate|].
  pose proof (uuid_unmarshal_total bs). destruct (uuid_unmarshal bs) as [[[ver var] d]| |]; cbn [bind]; try congruence.
  destruct (negb _); discriminate.
Qed.
Lemma v8_from_bytes_total bs : v8_from_bytes bs <> Panic.
Proof. unfold v8_from_bytes. destruct (negb _); [discriminate|apply v8_unmarshal_total]. Qed.
Lemma v8_from_string_total s : v8_from_string s <> Panic.
Proof.
  unfold v8_from_string. pose proof (uuid_hex_of_string_total s).
  destruct (uuid_hex_of_string s); cbn [bind]; try congruence. apply v8_from_bytes_total.
Qed.

(* ---------------- text of the version-specific types *)

(* FromString of the three versions = FromBytes of the 16 bytes, for the canonical text in either case *)
Lemma lower_hex_of_bytes u l : wf_bytes l -> lower (hex_of_bytes u l) = hex_of_bytes false l.
Proof.
  induction 1 as [|b l Hb Hl IH]; [reflexivity|].
  cbn [hex_of_bytes flat_map hex_of_byte app lower map]. fold (hex_of_bytes false l) (hex_of_bytes u l).
  fold (lower (hex_of_bytes u l)). rewrite IH.
  assert (L : forall d, d < 16 -> to_lower (hex_digit u d) = hex_digit false d).
  { intros d Hd. unfold to_lower, hex_digit. destruct u; destruct (N.ltb_spec d 10).
    - destruct ((65 <=? 48 + d) && (48 + d <=? 90)) eqn:E; lia.
    - destruct ((65 <=? 55 + d) && (55 + d <=? 90)) eqn:E; lia.
    - destruct ((65 <=? 48 + d) && (48 + d <=? 90)) eqn:E; lia.
    - destruct ((65 <=? 87 + d) && (87 + d <=? 90)) eqn:E; lia. }
  rewrite !L; [reflexivity| |].
  - apply N.mod_lt; lia.
  - apply N.div_lt_upper_bound; lia.
Qed.

Theorem hex_of_text u bs : wf_bytes bs -> length bs = 16%nat -> uuid_hex_of_string (text_case u bs) = Ok bs.
Proof.
  intros Hwf Hlen. unfold uuid_hex_of_string, hyphen. rewrite remove_hyphen_text by assumption.
  unfold lenN. rewrite length_hex_of_bytes, Hlen. change (N.of_nat (2 * 16) =? 32) with true. cbn [negb].
  rewrite lower_hex_of_bytes by exact Hwf. rewrite unhex_hex by exact Hwf. reflexivity.
Qed.
