(* C10 proofs, part 4: Unmarshal never panics (every slice expression is guarded by a length
   check) and the fuel of the label loop always suffices. *)
From Coq Require Import List Arith NArith Lia Bool.
From Coq Require Import ZifyN ZifyNat ZifyBool.
From Mant Require Import Prim.R Prim.Bytes Model.NbName Model.NbPacket Proofs.C10Name.
Import ListNotations.
Open Scope N_scope.

(* the call does not panic and, if it returns a value, the value satisfies P *)
Definition safe {A} (P : A -> Prop) (r : R A) : Prop :=
  match r with Ok a => P a | Err => True | Panic => False end.

Lemma safe_bind {A B} (P : A -> Prop) (Q : B -> Prop) (r : R A) (f : A -> R B) :
  safe P r -> (forall a, P a -> safe Q (f a)) -> safe Q (bind r f).
Proof. destruct r; cbn; auto. Qed.

Lemma safe_not_panic {A} (P : A -> Prop) (r : R A) : safe P r -> r <> Panic.
Proof. destruct r; cbn; intros H; [discriminate|discriminate|contradiction]. Qed.

Lemma not_panic_safe {A} (r : R A) : r <> Panic -> safe (fun _ => True) r.
Proof. destruct r; cbn; auto. Qed.

Lemma go_index_safe {A} (l : list A) i : i < lenN l -> safe (fun _ => True) (go_index l i).
Proof.
  intros H. unfold go_index. destruct (N.ltb_spec i (lenN l)); [|lia].
  destruct (nth_error l (N.to_nat i)) eqn:E; [exact I|].
  apply nth_error_None in E. unfold lenN in H. lia.
Qed.

Lemma go_slice_safe {A} (l : list A) lo hi :
  lo <= hi -> hi <= lenN l -> safe (fun s => lenN s = hi - lo) (go_slice l lo hi).
Proof.
  intros H1 H2. rewrite go_slice_ok by assumption. cbn [safe].
  unfold lenN in *. rewrite firstn_length, skipn_length. lia.
Qed.

Lemma go_be_uint_safe w l : (w <= length l)%nat -> safe (fun _ => True) (go_be_uint w l).
Proof. intros H. unfold go_be_uint. destruct (Nat.leb_spec w (length l)); [exact I|lia]. Qed.

Lemma read_u16_safe data off : off + 2 <= lenN data -> safe (fun _ => True) (read_u16 data off).
Proof.
  intros H. unfold read_u16. eapply safe_bind; [apply go_slice_safe; lia|].
  intros s Hs. apply go_be_uint_safe. unfold lenN in Hs. lia.
Qed.

Lemma read_u32_safe data off : off + 4 <= lenN data -> safe (fun _ => True) (read_u32 data off).
Proof.
  intros H. unfold read_u32. eapply safe_bind; [apply go_slice_safe; lia|].
  intros s Hs. apply go_be_uint_safe. unfold lenN in Hs. lia.
Qed.

Definition within (data : list N) {A} (r : A * N) : Prop := snd r <= lenN data.

Lemma read_labels_safe data : forall fuel off acc,
  off <= lenN data -> (N.to_nat (lenN data - off) < fuel)%nat ->
  safe (within data) (read_labels fuel data off acc).
Proof.
  induction fuel as [|f IH]; intros off acc Hoff Hfuel; [lia|].
  cbn [read_labels]. destruct (N.leb_spec (lenN data) off); [exact I|].
  eapply safe_bind; [apply go_index_safe; lia|]. intros l _.
  destruct (N.eqb_spec l 0); [cbn [safe]; unfold within; cbn [snd]; lia|].
  destruct (N.ltb_spec 63 l); [exact I|].
  destruct (N.ltb_spec (lenN data) (off + 1 + l)); [exact I|].
  eapply safe_bind; [apply go_slice_safe; lia|]. intros lab _.
  apply IH; lia.
Qed.

Lemma read_name_safe data off : off <= lenN data -> safe (within data) (read_name data off).
Proof.
  intros Hoff. unfold read_name.
  eapply safe_bind; [apply read_labels_safe; [exact Hoff|unfold lenN; lia]|].
  intros [labels off'] Hw. unfold within in Hw. cbn [snd] in Hw.
  eapply safe_bind; [apply not_panic_safe, first_level_decode_total|].
  intros nm _. cbn [safe]. exact Hw.
Qed.

Lemma read_questions_safe data : forall cnt off,
  off <= lenN data -> safe (within data) (read_questions cnt data off).
Proof.
  induction cnt as [|c IH]; intros off Hoff; [exact Hoff|].
  cbn [read_questions].
  eapply safe_bind; [apply read_name_safe; exact Hoff|].
  intros [nm off1] Hw. unfold within in Hw. cbn [snd] in Hw.
  destruct (N.ltb_spec (lenN data) (off1 + 4)); [exact I|].
  eapply safe_bind; [apply read_u16_safe; lia|]. intros ty _.
  eapply safe_bind; [apply read_u16_safe; lia|]. intros cl _.
  eapply safe_bind; [apply IH; lia|]. intros [rest off2] Hw2. exact Hw2.
Qed.

Lemma read_rrs_safe data : forall cnt off,
  off <= lenN data -> safe (within data) (read_rrs cnt data off).
Proof.
  induction cnt as [|c IH]; intros off Hoff; [exact Hoff|].
  cbn [read_rrs].
  eapply safe_bind; [apply read_name_safe; exact Hoff|].
  intros [nm off1] Hw. unfold within in Hw. cbn [snd] in Hw.
  destruct (N.ltb_spec (lenN data) (off1 + 10)); [exact I|].
  eapply safe_bind; [apply read_u16_safe; lia|]. intros ty _.
  eapply safe_bind; [apply read_u16_safe; lia|]. intros cl _.
  eapply safe_bind; [apply read_u32_safe; lia|]. intros ttl _.
  eapply safe_bind; [apply read_u16_safe; lia|]. intros rdl _.
  cbv zeta.
  destruct (N.ltb_spec (lenN data) (off1 + 10 + rdl)); [exact I|].
  eapply safe_bind; [apply go_slice_safe; lia|]. intros rd _.
  eapply safe_bind; [apply IH; lia|]. intros [rest off3] Hw3. exact Hw3.
Qed.

Theorem unmarshal_total data : unmarshal data <> Panic.
Proof.
  apply (safe_not_panic (fun _ => True)). unfold unmarshal.
  destruct (N.ltb_spec (lenN data) 12); [exact I|].
  eapply safe_bind; [apply read_u16_safe; lia|]. intros id _.
  eapply safe_bind; [apply read_u16_safe; lia|]. intros fl _.
  eapply safe_bind; [apply read_u16_safe; lia|]. intros qd _.
  eapply safe_bind; [apply read_u16_safe; lia|]. intros an _.
  eapply safe_bind; [apply read_u16_safe; lia|]. intros ns _.
  eapply safe_bind; [apply read_u16_safe; lia|]. intros ar _.
  eapply safe_bind; [apply read_questions_safe; lia|]. intros [qs o1] H1. unfold within in H1. cbn [snd] in H1.
  eapply safe_bind; [apply read_rrs_safe; lia|]. intros [ans o2] H2. unfold within in H2. cbn [snd] in H2.
  eapply safe_bind; [apply read_rrs_safe; lia|]. intros [nss o3] H3. unfold within in H3. cbn [snd] in H3.
  eapply safe_bind; [apply read_rrs_safe; lia|]. intros [ars o4] _. exact I.
Qed.

(* Unmarshal reports len(data) as consumed whenever it succeeds *)
Theorem unmarshal_consumed data n p : unmarshal data = Ok (n, p) -> n = lenN data.
Proof.
  unfold unmarshal. destruct (lenN data <? 12); [discriminate|].
  repeat (match goal with
          | |- bind ?r _ = Ok _ -> _ => destruct r as [[? ?]| |] eqn:?; cbn [bind]; try discriminate
          | |- bind ?r _ = Ok _ -> _ => destruct r as [?| |] eqn:?; cbn [bind]; try discriminate
          end).
  intros H. inversion H. reflexivity.
Qed.
