(* Proofs for network/ip/tcp_port.go: every pair of ports prints to a text that the regular
   expression accepts and that parses back to the same pair. *)
From Coq Require Import List NArith ZArith Lia Bool.
From Coq Require Import ZifyN ZifyNat ZifyBool.
From Mant Require Import Prim.R Prim.Bytes Prim.Dec Model.StrC20 Model.Ports Spec.C20 Proofs.C20Str.
Import ListNotations.
Open Scope N_scope.

(* the numbers start, start+1, ..., start+n-1 *)
Fixpoint nrange (n : nat) (start : N) : list N :=
  match n with O => [] | S k => start :: nrange k (N.succ start) end.

Lemma in_nrange n : forall start x, start <= x -> x < start + N.of_nat n -> In x (nrange n start).
Proof.
  induction n as [|k IH]; intros start x H1 H2; [lia|].
  cbn [nrange]. destruct (N.eq_dec x start) as [->|Hne]; [now left|].
  right. apply IH; lia.
Qed.

(* all 65536 ports: the decimal text of each one matches the port alternation of the expression *)
Lemma port_alt_print a : a < 65536 -> port_alt (print_dec a) = true.
Proof.
  intros Ha.
  assert (Hall : forallb (fun n => port_alt (print_dec n)) (nrange (N.to_nat 65536) 0) = true)
    by (vm_compute; reflexivity).
  rewrite forallb_forall in Hall. apply Hall. apply in_nrange; lia.
Qed.

(* and nothing from 65536 up to 99999 does (the five-digit numerals the expression must reject) *)
Lemma port_alt_print_over a : 65536 <= a -> a < 100000 -> port_alt (print_dec a) = false.
Proof.
  intros H1 H2.
  assert (Hall : forallb (fun n => negb (port_alt (print_dec n))) (nrange (N.to_nat 34464) 65536) = true)
    by (vm_compute; reflexivity).
  rewrite forallb_forall in Hall. apply negb_true_iff, Hall. apply in_nrange; lia.
Qed.

Lemma drop_while_head p s :
  match s with c :: _ => p c = false | [] => True end -> drop_while p s = s.
Proof. destruct s as [|c r]; [reflexivity|]. cbn [drop_while]. now intros ->. Qed.

Lemma take_while_app p ds rest :
  forallb p ds = true -> match rest with c :: _ => p c = false | [] => True end ->
  take_while p (ds ++ rest) = ds /\ drop_while p (ds ++ rest) = rest.
Proof.
  intros Hds Hrest. induction ds as [|d ds IH].
  - cbn [app]. destruct rest as [|c r]; [now split|]. cbn [take_while drop_while]. rewrite Hrest. now split.
  - cbn [forallb] in Hds. apply andb_true_iff in Hds. destruct Hds as [Hd Hds].
    cbn [app take_while drop_while]. rewrite Hd. destruct (IH Hds) as [-> ->]. now split.
Qed.

Lemma d09_is_digit c : d09 c = is_digit c.
Proof. reflexivity. Qed.

Lemma digit_not_space c : is_digit c = true -> re_space c = false.
Proof. unfold is_digit, re_space. intros H. lia. Qed.

Lemma print_dec_head n : exists c l, print_dec n = c :: l /\ is_digit c = true.
Proof.
  pose proof (print_dec_nonnil n) as Hne. pose proof (print_dec_digits n) as Hd.
  destruct (print_dec n) as [|c l]; [congruence|]. exists c, l. split; [reflexivity|].
  cbn [forallb] in Hd. now apply andb_true_iff in Hd.
Qed.

Lemma port_re_print a b : a < 65536 -> b < 65536 -> port_re (ports_string a b) = true.
Proof.
  intros Ha Hb. unfold port_re, ports_string. cbn [app].
  destruct (print_dec_head a) as (ca & la & Ea & Hca).
  destruct (print_dec_head b) as (cb & lb & Eb & Hcb).
  rewrite (drop_while_head re_space (print_dec a ++ 45 :: print_dec b))
    by (rewrite Ea; cbn [app]; now apply digit_not_space).
  destruct (take_while_app d09 (print_dec a) (45 :: print_dec b)) as [T1 D1];
    [apply print_dec_digits|reflexivity|].
  rewrite T1, D1. cbn [drop_while re_space N.eqb Pos.eqb orb].
  rewrite (drop_while_head re_space (print_dec b)) by (rewrite Eb; now apply digit_not_space).
  destruct (take_while_app d09 (print_dec b) []) as [T2 D2]; [apply print_dec_digits|exact I|].
  rewrite app_nil_r in T2, D2. rewrite T2, D2. cbn [drop_while].
  rewrite !port_alt_print by assumption. reflexivity.
Qed.

Lemma ports_roundtrip a b :
  port a -> port b -> ports_of_string (ports_string a b) = Ok (a, b).
Proof.
  unfold port. intros Ha Hb. unfold ports_of_string. rewrite port_re_print by assumption. cbn [negb].
  unfold ports_string. cbn [app]. rewrite split_on_app by (apply print_dec_nob; reflexivity).
  rewrite split_on_nosep by (apply print_dec_nob; reflexivity).
  unfold port_bound.
  assert (La : 0 <? lenN (print_dec a) = true).
  { pose proof (print_dec_nonnil a). destruct (print_dec a); [congruence|]. rewrite lenN_cons. lia. }
  assert (Lb : 0 <? lenN (print_dec b) = true).
  { pose proof (print_dec_nonnil b). destruct (print_dec b); [congruence|]. rewrite lenN_cons. lia. }
  rewrite La, Lb, !parse_uint10_print by (change (2 ^ 16) with 65536; assumption).
  destruct (N.ltb_spec 65535 a); [lia|]. destruct (N.ltb_spec 65535 b); [lia|].
  cbn [bind]. unfold wrap16. now rewrite !N.mod_small by lia.
Qed.

Lemma ports_of_string_total s : ports_of_string s <> Panic.
Proof.
  unfold ports_of_string. destruct (negb (port_re s)); [discriminate|].
  destruct (split_on 45 s) as [|p0 [|p1 [|? ?]]]; try discriminate.
  unfold port_bound.
  destruct (0 <? lenN p0); [destruct (parse_uint10 16 p0) as [n|]; [destruct (65535 <? n)|]|];
  destruct (0 <? lenN p1); try (destruct (parse_uint10 16 p1) as [n'|]; [destruct (65535 <? n')|]);
  cbn [bind]; discriminate.
Qed.

(* whatever is accepted is a pair of 16-bit ports *)
Lemma ports_of_string_ok s a b : ports_of_string s = Ok (a, b) -> port a /\ port b.
Proof.
  unfold ports_of_string. destruct (negb (port_re s)); [discriminate|].
  destruct (split_on 45 s) as [|p0 [|p1 [|? ?]]]; try discriminate.
  destruct (port_bound 0 p0) as [x| |]; cbn [bind]; try discriminate.
  destruct (port_bound 65535 p1) as [y| |]; cbn [bind]; try discriminate.
  intros H. inversion H; subst. unfold port, wrap16. split; apply N.mod_lt; lia.
Qed.
