(* Proofs for network/ip/tcp_port.go: every pair of ports prints to a text that the regular
   expression accepts and that parses back to the same pair. *)
From Coq Require Import List NArith ZArith Lia Bool.
From Coq Require Import ZifyN ZifyNat ZifyBool.
From Mant Require Import Prim.R Prim.Bytes Prim.Dec Model.StrC20 Model.Ip Model.Ports Spec.C20 Proofs.C20Str Proofs.C20Ip.
Import ListNotations.
Open Scope N_scope.

(* the numbers start, start+1, ..., start+n-1 *)
Fixpoint nrange (n : nat) (start : N) : list N :=
  match n with O => [] | S k => start :: nrange k (N.succ start) end.

Lemma in_nrange n : forall start x, start <= x -> x < start + N.of_nat n -> In x (nrange n start).
Proof.
  induction n as [|k IH]; intros start x H1 H2; [lia|].
  cbn [nrange]. destruct (N.eq_dec x start) as [->|Hne]; [now left|].
  right. apply IH; lia.
Qed.

(* all 65536 ports: the decimal text of each one matches the port alternation of the expression *)
Lemma port_alt_print a : a < 65536 -> port_alt (print_dec a) = true.
Proof.
  intros Ha.
  assert (Hall : forallb (fun n => port_alt (print_dec n)) (nrange (N.to_nat 65536) 0) = true)
    by (vm_compute; reflexivity).
  rewrite forallb_forall in Hall. apply Hall. apply in_nrange; lia.
Qed.

(* and nothing from 65536 up to 99999 does (the five-digit numerals the expression must reject) *)
Lemma port_alt_print_over a : 65536 <= a -> a < 100000 -> port_alt (print_dec a) = false.
Proof.
  intros H1 H2.
  assert (Hall : forallb (fun n => negb (port_alt (print_dec n))) (nrange (N.to_nat 34464) 65536) = true)
    by (vm_compute; reflexivity).
  rewrite forallb_forall in Hall. apply negb_true_iff, Hall. apply in_nrange; lia.
Qed.

Lemma drop_while_head p s :
  match s with c :: _ => p c = false | [] => True end -> drop_while p s = s.
Proof. destruct s as [|c r]; [reflexivity|]. cbn [drop_while]. now intros ->. Qed.

Lemma take_while_app p ds rest :
  forallb p ds = true -> match rest with c :: _ => p c = false | [] => True end ->
  take_while p (ds ++ rest) = ds /\ drop_while p (ds ++ rest) = rest.
Proof.
  intros Hds Hrest. induction ds as [|d ds IH].
  - cbn [app]. destruct rest as [|c r]; [now split|]. cbn [take_while drop_while]. rewrite Hrest. now split.
  - cbn [forallb] in Hds. apply andb_true_iff in Hds. destruct Hds as [Hd Hds].
    cbn [app take_while drop_while]. rewrite Hd. destruct (IH Hds) as [-> ->]. now split.
Qed.

Lemma d09_is_digit c : d09 c = is_digit c.
Proof. reflexivity. Qed.

Lemma digit_not_space c : is_digit c = true -> re_space c = false.
Proof. unfold is_digit, re_space. intros H. lia. Qed.

Lemma print_dec_head n : exists c l, print_dec n = c :: l /\ is_digit c = true.
Proof.
  pose proof (print_dec_nonnil n) as Hne. pose proof (print_dec_digits n) as Hd.
  destruct (print_dec n) as [|c l]; [congruence|]. exists c, l. split; [reflexivity|].
  cbn [forallb] in Hd. now apply andb_true_iff in Hd.
Qed.

Lemma port_re_print a b : a < 65536 -> b < 65536 -> port_re (ports_string a b) = true.
Proof.
  intros Ha Hb. unfold port_re, ports_string. cbn [app].
  destruct (print_dec_head a) as (ca & la & Ea & Hca).
  destruct (print_dec_head b) as (cb & lb & Eb & Hcb).
  rewrite (drop_while_head re_space (print_dec a ++ 45 :: print_dec b))
    by (rewrite Ea; cbn [app]; now apply digit_not_space).
  destruct (take_while_app d09 (print_dec a) (45 :: print_dec b)) as [T1 D1];
    [apply print_dec_digits|reflexivity|].
  rewrite T1, D1. cbn [drop_while re_space N.eqb Pos.eqb orb].
  rewrite (drop_while_head re_space (print_dec b)) by (rewrite Eb; now apply digit_not_space).
  destruct (take_while_app d09 (print_dec b) []) as [T2 D2]; [apply print_dec_digits|exact I|].
  rewrite app_nil_r in T2, D2. rewrite T2, D2. cbn [drop_while].
  rewrite !port_alt_print by assumption. reflexivity.
Qed.

Lemma ports_roundtrip a b :
  port a -> port b -> ports_of_string (ports_string a b) = Ok (a, b).
Proof.
  unfold port. intros Ha Hb. unfold ports_of_string. rewrite port_re_print by assumption. cbn [negb].
  unfold ports_string. cbn [app]. rewrite split_on_app by (apply print_dec_nob; reflexivity).
  rewrite split_on_nosep by (apply print_dec_nob; reflexivity).
  unfold port_bound.
  assert (La : 0 <? lenN (print_dec a) = true).
  { pose proof (print_dec_nonnil a). destruct (print_dec a); [congruence|]. rewrite lenN_cons. lia. }
  assert (Lb : 0 <? lenN (print_dec b) = true).
  { pose proof (print_dec_nonnil b). destruct (print_dec b); [congruence|]. rewrite lenN_cons. lia. }
  rewrite La, Lb, !parse_uint10_print by (change (2 ^ 16) with 65536; assumption).
  destruct (N.ltb_spec 65535 a); [lia|]. destruct (N.ltb_spec 65535 b); [lia|].
  cbn [bind]. unfold wrap16. now rewrite !N.mod_small by lia.
Qed.

Lemma ports_of_string_total s : ports_of_string s <> Panic.
Proof.
  unfold ports_of_string. destruct (negb (port_re s)); [discriminate|].
  destruct (split_on 45 s) as [|p0 [|p1 [|? ?]]]; try discriminate.
  unfold port_bound.
  destruct (0 <? lenN p0); [destruct (parse_uint10 16 p0) as [n|]; [destruct (65535 <? n)|]|];
  destruct (0 <? lenN p1); try (destruct (parse_uint10 16 p1) as [n'|]; [destruct (65535 <? n')|]);
  cbn [bind]; discriminate.
Qed.

(* whatever is accepted is a pair of 16-bit ports *)
Lemma ports_of_string_ok s a b : ports_of_string s = Ok (a, b) -> port a /\ port b.
Proof.
  unfold ports_of_string. destruct (negb (port_re s)); [discriminate|].
  destruct (split_on 45 s) as [|p0 [|p1 [|? ?]]]; try discriminate.
  destruct (port_bound 0 p0) as [x| |]; cbn [bind]; try discriminate.
  destruct (port_bound 65535 p1) as [y| |]; cbn [bind]; try discriminate.
  intros H. inversion H; subst. unfold port, wrap16. split; apply N.mod_lt; lia.
Qed.

(* ------------------------------------------------------------------ *)
(* Converse: the only texts NewTCPPortRangeFromString accepts are the canonical ones. *)

Lemma split_on_two sep s p0 p1 : split_on sep s = [p0; p1] -> s = p0 ++ sep :: p1.
Proof. intros H. rewrite <- (join_split sep s), H. reflexivity. Qed.

Definition digits10 : list N := [48; 49; 50; 51; 52; 53; 54; 55; 56; 57].

Fixpoint lists_len (n : nat) : list (list N) :=
  match n with
  | O => [[]]
  | S k => flat_map (fun d => map (cons d) (lists_len k)) digits10
  end.

Lemma d09_in c : d09 c = true -> In c digits10.
Proof.
  unfold d09, rng. intros H.
  assert (E : c = 48 \/ c = 49 \/ c = 50 \/ c = 51 \/ c = 52 \/ c = 53 \/ c = 54 \/ c = 55 \/ c = 56 \/ c = 57) by lia.
  unfold digits10. cbn [In]. intuition.
Qed.

Lemma in_lists_len ds : forallb d09 ds = true -> In ds (lists_len (length ds)).
Proof.
  induction ds as [|d ds IH]; intros H; [now left|].
  cbn [forallb] in H. apply andb_true_iff in H. destruct H as [Hd Hds].
  cbn [length lists_len]. apply in_flat_map. exists d. split; [now apply d09_in|].
  apply in_map. now apply IH.
Qed.

Lemma port_alt_digits ds : port_alt ds = true -> forallb d09 ds = true /\ (1 <= length ds <= 5)%nat.
Proof.
  unfold port_alt.
  destruct ds as [|a [|b [|c [|d [|e [|f ?]]]]]]; try discriminate; cbn [forallb length];
    unfold d09, rng; intros H; split; lia.
Qed.

Lemma in_upto5 (LL : nat -> list (list N)) ds :
  (1 <= length ds <= 5)%nat -> In ds (LL (length ds)) -> In ds (LL 1%nat ++ LL 2%nat ++ LL 3%nat ++ LL 4%nat ++ LL 5%nat).
Proof.
  intros Hl Hi. rewrite !in_app_iff.
  destruct (length ds) as [|[|[|[|[|[|n]]]]]]; try lia; tauto.
Qed.

(* a numeral accepted by the port alternation is the canonical decimal text of its value, below 65536 *)
Lemma port_alt_canonical ds :
  port_alt ds = true -> ds = print_dec (dec_val ds) /\ dec_val ds < 65536.
Proof.
  intros H. destruct (port_alt_digits ds H) as (Hd & Hl).
  assert (Hall : forallb (fun ds => implb (port_alt ds)
                   (bytes_eqb ds (print_dec (dec_val ds)) && (dec_val ds <? 65536)))
                   (lists_len 1 ++ lists_len 2 ++ lists_len 3 ++ lists_len 4 ++ lists_len 5) = true)
    by (vm_compute; reflexivity).
  rewrite forallb_forall in Hall. specialize (Hall ds).
  rewrite H in Hall. cbn [implb] in Hall.
  assert (Hin : In ds (lists_len 1 ++ lists_len 2 ++ lists_len 3 ++ lists_len 4 ++ lists_len 5)).
  { apply (in_upto5 lists_len); [exact Hl|]. now apply in_lists_len. }
  apply Hall in Hin. apply andb_true_iff in Hin. destruct Hin as [E1 E2].
  apply bytes_eqb_spec in E1. split; [exact E1|lia].
Qed.

Lemma port_bound_some dflt part n :
  port_bound dflt part = Ok n ->
  part = [] /\ n = dflt \/ (part <> [] /\ forallb is_digit part = true /\ dec_val part = n).
Proof.
  unfold port_bound. destruct part as [|c r].
  - cbn. intros H. inversion H. now left.
  - rewrite lenN_cons. destruct (N.ltb_spec 0 (1 + lenN r)) as [_|Hbad]; [|lia].
    unfold parse_uint10, parse_dec. destruct (forallb is_digit (c :: r)) eqn:Hd; [|discriminate].
    destruct (dec_val (c :: r) <? 2 ^ 16); [|discriminate].
    destruct (65535 <? dec_val (c :: r)); [discriminate|].
    intros Hok. inversion Hok. right. repeat split; congruence.
Qed.

Lemma port_re_parts s :
  port_re s = true ->
  exists s3, drop_while re_space (drop_while d09 (drop_while re_space s)) = 45 :: s3 /\
             port_alt (take_while d09 (drop_while re_space s)) = true /\
             port_alt (take_while d09 (drop_while re_space s3)) = true.
Proof.
  unfold port_re. destruct (drop_while re_space (drop_while d09 (drop_while re_space s))) as [|c s3];
    [discriminate|].
  intros H. apply andb_true_iff in H. destruct H as [H _].
  apply andb_true_iff in H. destruct H as [H A1].
  apply andb_true_iff in H. destruct H as [Hc A0]. apply N.eqb_eq in Hc. subst c.
  exists s3. repeat split; assumption.
Qed.

Lemma ports_canonical s a b : ports_of_string s = Ok (a, b) -> s = ports_string a b.
Proof.
  unfold ports_of_string. destruct (port_re s) eqn:Hre; [|discriminate]. cbn [negb].
  destruct (split_on 45 s) as [|p0 [|p1 [|? ?]]] eqn:Hsp; try discriminate.
  apply split_on_two in Hsp. subst s.
  destruct (port_bound 0 p0) as [x| |] eqn:B0; cbn [bind]; try discriminate.
  destruct (port_bound 65535 p1) as [y| |] eqn:B1; cbn [bind]; try discriminate.
  intros H. inversion H; subst a b. clear H.
  apply port_bound_some in B0. apply port_bound_some in B1.
  destruct (port_re_parts _ Hre) as (s3 & Hs3 & A0 & A1). clear Hre.
  destruct B0 as [[-> _]|(Hne0 & Hd0 & Hv0)].
  { (* empty start: the expression requires a digit *)
    assert (E : take_while d09 (drop_while re_space ([] ++ 45 :: p1)) = []) by reflexivity.
    rewrite E in A0. discriminate. }
  assert (Hh0 : match p0 ++ 45 :: p1 with c :: _ => re_space c = false | [] => True end).
  { destruct p0 as [|c r]; [congruence|]. cbn [app]. cbn [forallb] in Hd0.
    apply andb_true_iff in Hd0. now apply digit_not_space. }
  rewrite (drop_while_head re_space _ Hh0) in Hs3, A0.
  destruct (take_while_app d09 p0 (45 :: p1) Hd0 eq_refl) as [T1 D1]. rewrite T1 in A0. rewrite D1 in Hs3.
  assert (E3 : drop_while re_space (45 :: p1) = 45 :: p1) by reflexivity.
  rewrite E3 in Hs3. inversion Hs3; subst s3. clear Hs3 E3.
  destruct B1 as [[-> _]|(Hne1 & Hd1 & Hv1)].
  { discriminate. }
  assert (Hh1 : match p1 with c :: _ => re_space c = false | [] => True end).
  { destruct p1 as [|c r]; [exact I|]. cbn [forallb] in Hd1.
    apply andb_true_iff in Hd1. now apply digit_not_space. }
  rewrite (drop_while_head re_space _ Hh1) in A1.
  destruct (take_while_app d09 p1 [] Hd1 I) as [T2 _]. rewrite app_nil_r in T2. rewrite T2 in A1.
  destruct (port_alt_canonical p0 A0) as (E0 & L0). destruct (port_alt_canonical p1 A1) as (E1 & L1).
  unfold ports_string, wrap16. rewrite Hv0 in *. rewrite Hv1 in *.
  rewrite !N.mod_small by lia. cbn [app]. congruence.
Qed.
