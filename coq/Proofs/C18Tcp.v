(* C18 — shutdown of the TCP name server (accept loop + per-connection goroutines + tcpConns walk). *)
From Coq Require Import List NArith Bool Lia Arith.
From Mant Require Import Prim.R Prim.Val Prim.Bytes Model.NbnsServer Model.NameSrvConc Spec.C18 Proofs.C18Conc.
Import ListNotations.
Open Scope nat_scope.

(* a goroutine that has not stored its connection yet is still at its first instruction *)
Definition cK (c : conn) : Prop := c_stored c = false -> c_pc c = CStart.
(* after Stop has walked the map: a connection is closed, or its goroutine is about to look at quit *)
Definition cJ (c : conn) : Prop :=
  c_closed c = true \/ c_pc c = CStart \/ c_pc c = CSelect \/ c_pc c = CExited.
Definition cE (c : conn) : Prop := c_pc c = CExited.

Definition twf (s : tstate) : Prop :=
  Forall cK (t_conns s) /\
  match t_stop s with
  | TIdle => True
  | TQuit => t_quit s = true
  | TLis => t_quit s = true /\ t_lclosed s = true
  | TRange => t_quit s = true /\ t_lclosed s = true /\ Forall cJ (t_conns s)
  | TDone => t_quit s = true /\ t_lclosed s = true /\ Forall cJ (t_conns s) /\
             t_acc s = AExited /\ Forall cE (t_conns s)
  end.

Lemma all_exited_Forall cs : all_exited cs = true <-> Forall cE cs.
Proof.
  unfold all_exited. rewrite forallb_forall, Forall_forall. unfold cE.
  split; intros H c Hc; specialize (H c Hc); destruct (c_pc c); congruence.
Qed.

Definition send_c (c : conn) : conn := Build_conn (c_pc c) (c_stored c) (c_closed c) (S (c_avail c)).
Definition close_c (c : conn) : conn := Build_conn (c_pc c) (c_stored c) true (c_avail c).
Definition new_c : conn := Build_conn CStart false false 0.

Ltac ccrush := intros [pc st cl av]; unfold cK, cJ, cE, conn_step, conn_fail, range_close, send_c, close_c;
  cbn; destruct pc, st, cl; try destruct av; cbn; intuition congruence.

Lemma K_step q : forall c, cK c -> cK (conn_step q c). Proof. destruct q; ccrush. Qed.
Lemma K_fail : forall c, cK c -> cK (conn_fail c). Proof. ccrush. Qed.
Lemma K_send : forall c, cK c -> cK (send_c c). Proof. ccrush. Qed.
Lemma K_close : forall c, cK c -> cK (close_c c). Proof. ccrush. Qed.
Lemma K_range : forall c, cK c -> cK (range_close c). Proof. ccrush. Qed.
Lemma J_step : forall c, cJ c -> cJ (conn_step true c). Proof. ccrush. Qed.
Lemma J_fail : forall c, cJ c -> cJ (conn_fail c). Proof. ccrush. Qed.
Lemma J_send : forall c, cJ c -> cJ (send_c c). Proof. ccrush. Qed.
Lemma J_close : forall c, cJ c -> cJ (close_c c). Proof. ccrush. Qed.
Lemma J_range : forall c, cK c -> cJ (range_close c). Proof. ccrush. Qed.
Lemma E_step q : forall c, cE c -> cE (conn_step q c). Proof. destruct q; ccrush. Qed.
Lemma E_fail : forall c, cE c -> cE (conn_fail c). Proof. ccrush. Qed.
Lemma E_send : forall c, cE c -> cE (send_c c). Proof. ccrush. Qed.
Lemma E_close : forall c, cE c -> cE (close_c c). Proof. ccrush. Qed.

(* how a step can change the list of connections *)
Inductive conns_change (quit : bool) (cs : list conn) : list conn -> Prop :=
| cc_same : conns_change quit cs cs
| cc_spawn : conns_change quit cs (cs ++ [new_c])
| cc_step i : conns_change quit cs (update_nth i (conn_step quit) cs)
| cc_fail i : conns_change quit cs (update_nth i conn_fail cs)
| cc_send i : conns_change quit cs (update_nth i send_c cs)
| cc_close i : conns_change quit cs (update_nth i close_c cs).

Lemma tstep_conns s e : t_stop s <> TLis \/ e <> TStop ->
  conns_change (t_quit s) (t_conns s) (t_conns (tstep s e)).
Proof.
  destruct s as [acc q lc bl conns st]. intros H.
  destruct e; cbn [tstep t_conns t_quit];
    try (destruct acc; try destruct q; try destruct lc; try destruct bl; cbn; constructor; fail);
    try (constructor; fail).
  - destruct st; cbn; try constructor.
    + cbn in H. destruct H; congruence.
    + destruct acc; try constructor. destruct (all_exited conns); constructor.
Qed.

Lemma change_Forall (P : conn -> Prop) quit cs cs' :
  P new_c -> (forall c, P c -> P (conn_step quit c)) -> (forall c, P c -> P (conn_fail c)) ->
  (forall c, P c -> P (send_c c)) -> (forall c, P c -> P (close_c c)) ->
  conns_change quit cs cs' -> Forall P cs -> Forall P cs'.
Proof.
  intros Hn Hs Hf Hse Hc Hch H. destruct Hch; auto using update_nth_Forall.
  apply Forall_app. auto.
Qed.

Lemma change_length_noacc quit cs cs' : conns_change quit cs cs' -> cs' <> cs ++ [new_c] -> length cs' = length cs.
Proof. intros H Hne. destruct H; auto using update_nth_length. congruence. Qed.

(* scalar components *)
Lemma tstep_quit s e : t_quit s = true -> t_quit (tstep s e) = true.
Proof.
  destruct s as [acc q lc bl conns st]; cbn. intros ->.
  destruct e; cbn; try reflexivity;
    try (destruct acc; try destruct lc; try destruct bl; reflexivity).
  destruct st; try reflexivity. destruct acc; try reflexivity. destruct (all_exited conns); reflexivity.
Qed.

Lemma tstep_lclosed s e : t_lclosed s = true -> t_lclosed (tstep s e) = true.
Proof.
  destruct s as [acc q lc bl conns st]; cbn. intros ->.
  destruct e; cbn; try reflexivity;
    try (destruct acc; try destruct q; try destruct bl; reflexivity).
  destruct st; try reflexivity. destruct acc; try reflexivity. destruct (all_exited conns); reflexivity.
Qed.

Lemma tstep_stop_other s e : e <> TStop -> t_stop (tstep s e) = t_stop s /\
  (t_acc s = AExited -> t_acc (tstep s e) = AExited).
Proof.
  destruct s as [acc q lc bl conns st]; cbn. intros H.
  destruct e; cbn; try congruence; try (split; [reflexivity|]; auto);
    try (destruct acc; try destruct q; try destruct lc; try destruct bl; cbn; split; auto; congruence).
Qed.

Lemma tev_eq_dec_stop e : {e = TStop} + {e <> TStop}.
Proof. destruct e; try (right; discriminate). left; reflexivity. Qed.

Lemma twf_step : forall s e, twf s -> twf (tstep s e).
Proof.
  intros s e [HK Hst].
  destruct (tev_eq_dec_stop e) as [->|Hne].
  - (* Stop steps *)
    destruct s as [acc q lc bl conns st]. unfold twf in *. cbn in *.
    destruct st; cbn; auto.
    + destruct Hst as [-> ->]. repeat split; auto.
      * apply Forall_forall. intros c Hc. apply in_map_iff in Hc. destruct Hc as (c0 & <- & Hc0).
        apply K_range. rewrite Forall_forall in HK. auto.
      * apply Forall_forall. intros c Hc. apply in_map_iff in Hc. destruct Hc as (c0 & <- & Hc0).
        apply J_range. rewrite Forall_forall in HK. auto.
    + destruct Hst as (-> & -> & HJ). destruct acc; cbn; auto.
      destruct (all_exited conns) eqn:E; cbn; auto.
      repeat split; auto. apply all_exited_Forall. exact E.
  - pose proof (tstep_conns s e (or_intror Hne)) as Hch.
    destruct (tstep_stop_other s e Hne) as [Hstop Hacc].
    unfold twf. rewrite Hstop. split.
    + eapply change_Forall; eauto using K_step, K_fail, K_send, K_close. unfold cK, new_c; cbn; auto.
    + destruct (t_stop s) eqn:Est; auto.
      * apply tstep_quit; auto.
      * destruct Hst. split; [apply tstep_quit|apply tstep_lclosed]; auto.
      * destruct Hst as (Hq & Hl & HJ). split; [apply tstep_quit; auto|]. split; [apply tstep_lclosed; auto|].
        rewrite Hq in Hch.
        eapply change_Forall; eauto using J_step, J_fail, J_send, J_close. unfold cJ, new_c; cbn; auto.
      * destruct Hst as (Hq & Hl & HJ & Ha & HE). split; [apply tstep_quit; auto|]. split; [apply tstep_lclosed; auto|].
        rewrite Hq in Hch.
        assert (Hnospawn : t_conns (tstep s e) <> t_conns s ++ [new_c]).
        { destruct s as [acc q lc bl conns st]; cbn in *. subst acc.
          destruct e; cbn; try (intros X; apply (f_equal (@length conn)) in X; rewrite app_length in X;
                                rewrite ?update_nth_length in X; cbn in X; lia).
          - congruence.
          - destruct lc; cbn; intros X; apply (f_equal (@length conn)) in X; rewrite app_length in X; cbn in X; lia. }
        split; [|split; [auto|]].
        -- eapply change_Forall; eauto using J_step, J_fail, J_send, J_close. unfold cJ, new_c; cbn; auto.
        -- inversion Hch as [E0|E0|i E0|i E0|i E0|i E0]; try (rewrite <- E0 in *); auto;
             try (apply update_nth_Forall; auto using E_step, E_fail, E_send, E_close).
           congruence.
Qed.

(* ------------------------------------------------------------------ ranks *)

Definition hit_stop (e : tev) : bool := match e with TStop => true | _ => false end.
Definition hit_acc (e : tev) : bool := match e with TAcc => true | _ => false end.
Definition hit_conn (i : nat) (e : tev) : bool := match e with TConn j => Nat.eqb i j | _ => false end.

Definition tstop_rank (s : tstate) : nat := match t_stop s with TIdle => 3 | TQuit => 2 | TLis => 1 | _ => 0 end.
Definition acc_rank (s : tstate) : nat := match t_acc s with ASpawn => 2 | ASelect | AAccept => 1 | AExited => 0 end.
Definition conn_rank (c : conn) : nat :=
  match c_pc c with CStart | CHandle => 2 | CSelect | CRead | CWrite => 1 | CExited => 0 end.
Definition dconn : conn := Build_conn CExited true true 0.
Definition crank (i : nat) (s : tstate) : nat := conn_rank (nth i (t_conns s) dconn).
Definition twait_rank (s : tstate) : nat := match t_stop s with TDone => 0 | _ => 1 end.

Lemma tstop_rank_step s e :
  tstop_rank (tstep s e) <= tstop_rank s /\
  (hit_stop e = true -> 0 < tstop_rank s -> tstop_rank (tstep s e) < tstop_rank s).
Proof.
  destruct (tev_eq_dec_stop e) as [->|Hne].
  - destruct s as [acc q lc bl conns st]. unfold tstop_rank. destruct st; cbn; try (split; intros; lia).
    destruct acc; cbn; try (split; intros; lia). destruct (all_exited conns); cbn; split; intros; lia.
  - unfold tstop_rank. rewrite (proj1 (tstep_stop_other s e Hne)). split; [lia|].
    destruct e; cbn; congruence.
Qed.

Definition tinv2 (s : tstate) : Prop := twf s /\ tstop_rank s = 0.

Lemma tinv2_flags s : tinv2 s -> t_quit s = true /\ t_lclosed s = true /\ Forall cJ (t_conns s) /\ t_stop s <> TLis.
Proof.
  intros [[_ Hst] Hr]. unfold tstop_rank in Hr. destruct (t_stop s); try lia; repeat split; try tauto; congruence.
Qed.

Lemma tinv2_step s e : tinv2 s -> tinv2 (tstep s e).
Proof.
  intros [Hwf Hr]. split; [apply twf_step; auto|]. pose proof (proj1 (tstop_rank_step s e)). lia.
Qed.

Lemma acc_rank_step s e : t_quit s = true -> t_lclosed s = true ->
  acc_rank (tstep s e) <= acc_rank s /\
  (hit_acc e = true -> 0 < acc_rank s -> acc_rank (tstep s e) < acc_rank s).
Proof.
  destruct s as [acc q lc bl conns st]; cbn. intros -> ->. unfold acc_rank.
  destruct e, acc, st; try destruct bl; cbn; try destruct (all_exited conns); cbn;
    split; intros; try lia; try discriminate.
Qed.

Definition tinv3 (s : tstate) : Prop := twf s /\ tstop_rank s = 0 /\ t_acc s = AExited.

Lemma tstep_acc_exited s e : t_acc s = AExited -> t_acc (tstep s e) = AExited.
Proof.
  destruct (tev_eq_dec_stop e) as [->|Hne].
  - destruct s as [acc q lc bl conns st]; cbn. intros ->. destruct st; cbn; auto. destruct (all_exited conns); auto.
  - apply (proj2 (tstep_stop_other s e Hne)).
Qed.

Lemma tinv3_step s e : tinv3 s -> tinv3 (tstep s e).
Proof.
  intros (Hwf & Hr & Ha). destruct (tinv2_step s e (conj Hwf Hr)) as [H1 H2].
  split; [exact H1|]. split; [exact H2|]. apply tstep_acc_exited; exact Ha.
Qed.

Lemma no_spawn_after_exit s e : t_acc s = AExited -> t_conns (tstep s e) <> t_conns s ++ [new_c].
Proof.
  destruct s as [acc q lc bl conns st]; cbn. intros ->.
  assert (Hlen : forall l : list conn, length l = length conns -> l <> conns ++ [new_c]).
  { intros l Hl X. apply (f_equal (@length conn)) in X. rewrite app_length in X. cbn in X. lia. }
  destruct e; cbn; try (apply Hlen; rewrite ?update_nth_length; reflexivity).
  - destruct st; cbn; try (apply Hlen; rewrite ?map_length; reflexivity).
    destruct (all_exited conns); apply Hlen; reflexivity.
  - destruct lc; apply Hlen; reflexivity.
Qed.

Lemma tinv3_change s e : tinv3 s ->
  conns_change true (t_conns s) (t_conns (tstep s e)) /\ t_conns (tstep s e) <> t_conns s ++ [new_c].
Proof.
  intros (Hwf & Hr & Ha). destruct (tinv2_flags s (conj Hwf Hr)) as (Hq & _ & _ & Hst).
  split; [|apply no_spawn_after_exit; auto]. rewrite <- Hq. apply tstep_conns. left. exact Hst.
Qed.

Lemma tinv3_length s e : tinv3 s -> length (t_conns (tstep s e)) = length (t_conns s).
Proof. intros H. destruct (tinv3_change s e H) as [Hch Hns]. eapply change_length_noacc; eauto. Qed.

Lemma tinv3_run_length l : forall s, tinv3 s -> length (t_conns (trun s l)) = length (t_conns s).
Proof.
  unfold trun. induction l as [|e l IH]; intros s H; cbn; auto.
  rewrite IH by (apply tinv3_step; auto). apply tinv3_length; auto.
Qed.

Lemma conn_rank_step : forall c, cJ c ->
  conn_rank (conn_step true c) <= conn_rank c /\ (0 < conn_rank c -> conn_rank (conn_step true c) < conn_rank c).
Proof.
  intros [pc st cl av]; unfold cJ, conn_rank, conn_step; cbn.
  destruct pc, cl; try destruct av; cbn; intuition (try congruence; try lia).
Qed.
Lemma conn_rank_fail : forall c, conn_rank (conn_fail c) <= conn_rank c.
Proof. intros [pc st cl av]; unfold conn_rank, conn_fail; cbn. destruct pc; cbn; lia. Qed.

Lemma nth_update_nth_any (f : conn -> conn) i j cs :
  nth i (update_nth j f cs) dconn = if Nat.eqb i j && Nat.ltb i (length cs) then f (nth i cs dconn) else nth i cs dconn.
Proof.
  destruct (Nat.eqb_spec i j) as [->|Hne]; cbn [andb].
  - destruct (Nat.ltb_spec j (length cs)).
    + apply nth_update_nth_eq; auto.
    + rewrite !nth_overflow; auto. rewrite update_nth_length. auto.
  - apply nth_update_nth_neq. auto.
Qed.

Lemma crank_step i s e : tinv3 s ->
  crank i (tstep s e) <= crank i s /\
  (hit_conn i e = true -> 0 < crank i s -> crank i (tstep s e) < crank i s).
Proof.
  intros Hinv. pose proof Hinv as (Hwf & Hr & Ha).
  destruct (tinv2_flags s (conj Hwf Hr)) as (Hq & _ & HJ & Hst).
  destruct (tinv3_change s e Hinv) as [Hch Hns].
  assert (HJi : cJ (nth i (t_conns s) dconn)).
  { destruct (Nat.ltb_spec i (length (t_conns s))).
    - rewrite Forall_forall in HJ. apply HJ. apply nth_In. auto.
    - rewrite nth_overflow by auto. unfold cJ, dconn; cbn; auto. }
  assert (Hhit : hit_conn i e = true -> t_conns (tstep s e) = update_nth i (conn_step true) (t_conns s)).
  { destruct e; cbn; try discriminate. intros E. apply Nat.eqb_eq in E. subst i0.
    destruct s as [acc q lc bl conns st]; cbn in *. subst q. reflexivity. }
  unfold crank.
  split.
  - inversion Hch as [E0|E0|j E0|j E0|j E0|j E0]; try (rewrite <- E0); try lia; try congruence;
      rewrite nth_update_nth_any; destruct (Nat.eqb i j && Nat.ltb i (length (t_conns s))); try lia.
    + apply conn_rank_step; auto.
    + apply conn_rank_fail.
    + unfold conn_rank, send_c; cbn. lia.
    + unfold conn_rank, close_c; cbn. lia.
  - intros Hh Hpos. rewrite (Hhit Hh). rewrite nth_update_nth_any, Nat.eqb_refl. cbn [andb].
    destruct (Nat.ltb_spec i (length (t_conns s))).
    + apply conn_rank_step; auto.
    + rewrite nth_overflow in Hpos by auto. cbn in Hpos. lia.
Qed.

Definition tinv4 (s : tstate) : Prop := tinv3 s /\ Forall cE (t_conns s).

Lemma tinv4_step s e : tinv4 s -> tinv4 (tstep s e).
Proof.
  intros [H3 HE]. split; [apply tinv3_step; auto|].
  destruct (tinv3_change s e H3) as [Hch Hns].
  inversion Hch as [E0|E0|j E0|j E0|j E0|j E0]; try (rewrite <- E0); auto; try congruence;
    apply update_nth_Forall; auto using E_step, E_fail, E_send, E_close.
Qed.

Lemma twait_rank_step s e : tinv4 s ->
  twait_rank (tstep s e) <= twait_rank s /\
  (hit_stop e = true -> 0 < twait_rank s -> twait_rank (tstep s e) < twait_rank s).
Proof.
  intros [(Hwf & Hr & Ha) HE]. apply all_exited_Forall in HE.
  destruct (tev_eq_dec_stop e) as [->|Hne].
  - destruct s as [acc q lc bl conns st]. cbn [t_acc t_conns t_stop] in *. subst acc.
    unfold twait_rank, tstop_rank in *. cbn [t_stop] in *.
    destruct st; try lia; cbn [tstep t_stop].
    + rewrite HE. cbn [t_stop]. split; intros; lia.
    + split; intros; lia.
  - unfold twait_rank. rewrite (proj1 (tstep_stop_other s e Hne)). split; [lia|]. destruct e; cbn; congruence.
Qed.

Lemma shutdown_tcp : forall s s1 s2 s3 s4, twf s ->
  3 <= tcount_stop s1 -> 2 <= tcount_acc s2 ->
  (forall i, i < length (t_conns (trun s (s1 ++ s2))) -> 2 <= tcount_conn i s3) ->
  1 <= tcount_stop s4 ->
  tcp_stopped (trun s (s1 ++ s2 ++ s3 ++ s4)).
Proof.
  intros s s1 s2 s3 s4 Hwf H1 H2 H3 H4. unfold trun in *. rewrite !fold_left_app. rewrite fold_left_app in H3.
  (* phase 1: Stop closes quit, the listener, and walks the map *)
  destruct (rank_run _ _ tstep twf tstop_rank hit_stop twf_step
              (fun s e _ => proj1 (tstop_rank_step s e)) (fun s e _ => proj2 (tstop_rank_step s e)) s1 s Hwf) as [Ha Hb].
  { change (length (filter hit_stop s1)) with (tcount_stop s1). unfold tstop_rank. destruct (t_stop s); lia. }
  set (sa := fold_left tstep s1 s) in *.
  (* phase 2: the accept loop returns *)
  destruct (rank_run _ _ tstep tinv2 acc_rank hit_acc tinv2_step
              (fun s e H => proj1 (acc_rank_step s e (proj1 (tinv2_flags s H)) (proj1 (proj2 (tinv2_flags s H)))))
              (fun s e H => proj2 (acc_rank_step s e (proj1 (tinv2_flags s H)) (proj1 (proj2 (tinv2_flags s H)))))
              s2 sa (conj Ha Hb)) as [[Hc Hd] He].
  { change (length (filter hit_acc s2)) with (tcount_acc s2). unfold acc_rank. destruct (t_acc sa); lia. }
  set (sb := fold_left tstep s2 sa) in *.
  assert (H3b : tinv3 sb).
  { split; [exact Hc|]. split; [exact Hd|]. unfold acc_rank in He. destruct (t_acc sb); try lia. reflexivity. }
  (* phase 3: every connection goroutine returns *)
  set (sc := fold_left tstep s3 sb) in *.
  assert (H3c : tinv3 sc) by (apply (inv_run _ _ tstep tinv3 tinv3_step); auto).
  assert (Hlen : length (t_conns sc) = length (t_conns sb)) by (apply (tinv3_run_length s3 sb H3b)).
  assert (HEc : Forall cE (t_conns sc)).
  { apply Forall_forall. intros c Hin. apply (In_nth _ _ dconn) in Hin. destruct Hin as (i & Hi & <-).
    destruct (rank_run _ _ tstep tinv3 (crank i) (hit_conn i) tinv3_step
                (fun s e H => proj1 (crank_step i s e H)) (fun s e H => proj2 (crank_step i s e H)) s3 sb H3b) as [_ Hz].
    { rewrite Hlen in Hi. specialize (H3 i Hi). change (length (filter (hit_conn i) s3)) with (tcount_conn i s3).
      unfold crank, conn_rank. destruct (c_pc _); lia. }
    fold sc in Hz. unfold crank, conn_rank in Hz. unfold cE. destruct (c_pc (nth i (t_conns sc) dconn)); try lia. reflexivity. }
  (* phase 4: wg.Wait returns *)
  destruct (rank_run _ _ tstep tinv4 twait_rank hit_stop tinv4_step
              (fun s e H => proj1 (twait_rank_step s e H)) (fun s e H => proj2 (twait_rank_step s e H))
              s4 sc (conj H3c HEc)) as [[(Hf & Hg & Hh) Hi] Hj].
  { change (length (filter hit_stop s4)) with (tcount_stop s4). unfold twait_rank. destruct (t_stop sc); lia. }
  set (sd := fold_left tstep s4 sc) in *.
  unfold tcp_stopped. repeat split; auto.
  - apply all_exited_Forall. auto.
  - unfold twait_rank in Hj. destruct (t_stop sd); try lia. reflexivity.
Qed.
