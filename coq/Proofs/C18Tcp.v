(* C18 — shutdown of the TCP name server (accept loop + per-connection goroutines + tcpConns walk). *)
From Coq Require Import List NArith Bool Lia Arith.
From Mant Require Import Prim.R Prim.Val Prim.Bytes Model.NbnsServer Model.NameSrvConc Spec.C18 Proofs.C18Conc.
Import ListNotations.
Open Scope nat_scope.

(* a goroutine that has not stored its connection yet is still at its first instruction *)
Definition cK (c : conn) : Prop := c_stored c = false -> c_pc c = CStart.
(* after Stop has walked the map: a connection is closed, or its goroutine is about to look at quit *)
Definition cJ (c : conn) : Prop :=
  c_closed c = true \/ c_pc c = CStart \/ c_pc c = CSelect \/ c_pc c = CExited.
Definition cE (c : conn) : Prop := c_pc c = CExited.

Definition twf (s : tstate) : Prop :=
  Forall cK (t_conns s) /\
  match t_stop s with
  | TIdle => True
  | TQuit => t_quit s = true
  | TLis => t_quit s = true /\ t_lclosed s = true
  | TRange => t_quit s = true /\ t_lclosed s = true /\ Forall cJ (t_conns s)
  | TDone => t_quit s = true /\ t_lclosed s = true /\ Forall cJ (t_conns s) /\
             t_acc s = AExited /\ Forall cE (t_conns s)
  end.

Lemma all_exited_Forall cs : all_exited cs = true <-> Forall cE cs.
Proof.
  unfold all_exited. rewrite forallb_forall, Forall_forall. unfold cE.
  split; intros H c Hc; specialize (H c Hc); destruct (c_pc c); congruence.
Qed.

Definition send_c (c : conn) : conn := Build_conn (c_pc c) (c_stored c) (c_closed c) (S (c_avail c)).
Definition close_c (c : conn) : conn := Build_conn (c_pc c) (c_stored c) true (c_avail c).
Definition new_c : conn := Build_conn CStart false false 0.

Ltac ccrush := intros [pc st cl av]; unfold cK, cJ, cE, conn_step, conn_fail, range_close, send_c, close_c;
  cbn; destruct pc, st, cl; try destruct av; cbn; intuition congruence.

Lemma K_step q : forall c, cK c -> cK (conn_step q c). Proof. destruct q; ccrush. Qed.
Lemma K_fail : forall c, cK c -> cK (conn_fail c). Proof. ccrush. Qed.
Lemma K_send : forall c, cK c -> cK (send_c c). Proof. ccrush. Qed.
Lemma K_close : forall c, cK c -> cK (close_c c). Proof. ccrush. Qed.
Lemma K_range : forall c, cK c -> cK (range_close c). Proof. ccrush. Qed.
Lemma J_step : forall c, cJ c -> cJ (conn_step true c). Proof. ccrush. Qed.
Lemma J_fail : forall c, cJ c -> cJ (conn_fail c). Proof. ccrush. Qed.
Lemma J_send : forall c, cJ c -> cJ (send_c c). Proof. ccrush. Qed.
Lemma J_close : forall c, cJ c -> cJ (close_c c). Proof. ccrush. Qed.
Lemma J_range : forall c, cK c -> cJ (range_close c). Proof. ccrush. Qed.
Lemma E_step q : forall c, cE c -> cE (conn_step q c). Proof. destruct q; ccrush. Qed.
Lemma E_fail : forall c, cE c -> cE (conn_fail c). Proof. ccrush. Qed.
Lemma E_send : forall c, cE c -> cE (send_c c). Proof. ccrush. Qed.
Lemma E_close : forall c, cE c -> cE (close_c c). Proof. ccrush. Qed.

(* how a step can change the list of connections *)
Inductive conns_change (quit : bool) (cs : list conn) : list conn -> Prop :=
| cc_same : conns_change quit cs cs
| cc_spawn : conns_change quit cs (cs ++ [new_c])
| cc_step i : conns_change quit cs (update_nth i (conn_step quit) cs)
| cc_fail i : conns_change quit cs (update_nth i conn_fail cs)
| cc_send i : conns_change quit cs (update_nth i send_c cs)
| cc_close i : conns_change quit cs (update_nth i close_c cs).

Lemma tstep_conns s e : t_stop s <> TLis \/ e <> TStop ->
  conns_change (t_quit s) (t_conns s) (t_conns (tstep s e)).
Proof.
  destruct s as [acc q lc bl conns st]. intros H.
  destruct e; cbn [tstep t_conns t_quit];
    try (destruct acc; try destruct q; try destruct lc; try destruct bl; cbn; constructor; fail);
    try (constructor; fail).
  - destruct st; cbn; try constructor.
    + cbn in H. destruct H; congruence.
    + destruct acc; try constructor. destruct (all_exited conns); constructor.
Qed.

Lemma change_Forall (P : conn -> Prop) quit cs cs' :
  P new_c -> (forall c, P c -> P (conn_step quit c)) -> (forall c, P c -> P (conn_fail c)) ->
  (forall c, P c -> P (send_c c)) -> (forall c, P c -> P (close_c c)) ->
  conns_change quit cs cs' -> Forall P cs -> Forall P cs'.
Proof.
  intros Hn Hs Hf Hse Hc Hch H. destruct Hch; auto using update_nth_Forall.
  apply Forall_app. auto.
Qed.

Lemma change_length_noacc quit cs cs' : conns_change quit cs cs' -> cs' <> cs ++ [new_c] -> length cs' = length cs.
Proof. intros H Hne. destruct H; auto using update_nth_length. congruence. Qed.

(* scalar components *)
Lemma tstep_quit s e : t_quit s = true -> t_quit (tstep s e) = true.
Proof.
  destruct s as [acc q lc bl conns st]; cbn. intros ->.
  destruct e; cbn; try reflexivity;
    try (destruct acc; try destruct lc; try destruct bl; reflexivity).
  destruct st; try reflexivity. destruct acc; try reflexivity. destruct (all_exited conns); reflexivity.
Qed.

Lemma tstep_lclosed s e : t_lclosed s = true -> t_lclosed (tstep s e) = true.
Proof.
  destruct s as [acc q lc bl conns st]; cbn. intros ->.
  destruct e; cbn; try reflexivity;
    try (destruct acc; try destruct q; try destruct bl; reflexivity).
  destruct st; try reflexivity. destruct acc; try reflexivity. destruct (all_exited conns); reflexivity.
Qed.

Lemma tstep_stop_other s e : e <> TStop -> t_stop (tstep s e) = t_stop s /\
  (t_acc s = AExited -> t_acc (tstep s e) = AExited).
Proof.
  destruct s as [acc q lc bl conns st]; cbn. intros H.
  destruct e; cbn; try congruence; try (split; [reflexivity|]; auto);
    try (destruct acc; try destruct q; try destruct lc; try destruct bl; cbn; split; auto; congruence).
Qed.

Lemma tev_eq_dec_stop e : {e = TStop} + {e <> TStop}.
Proof. destruct e; try (right; discriminate). left; reflexivity. Qed.

Lemma twf_step : forall s e, twf s -> twf (tstep s e).
Proof.
  intros s e [HK Hst].
  destruct (tev_eq_dec_stop e) as [->|Hne].
  - (* Stop steps *)
    destruct s as [acc q lc bl conns st]. unfold twf in *. cbn in *.
    destruct st; cbn; auto.
    + destruct Hst as [-> ->]. repeat split; auto.
      * apply Forall_forall. intros c Hc. apply in_map_iff in Hc. destruct Hc as (c0 & <- & Hc0).
        apply K_range. rewrite Forall_forall in HK. auto.
      * apply Forall_forall. intros c Hc. apply in_map_iff in Hc. destruct Hc as (c0 & <- & Hc0).
        apply J_range. rewrite Forall_forall in HK. auto.
    + destruct Hst as (-> & -> & HJ). destruct acc; cbn; auto.
      destruct (all_exited conns) eqn:E; cbn; auto.
      repeat split; auto. apply all_exited_Forall. exact E.
  - pose proof (tstep_conns s e (or_intror Hne)) as Hch.
    destruct (tstep_stop_other s e Hne) as [Hstop Hacc].
    unfold twf. rewrite Hstop. split.
    + eapply change_Forall; eauto using K_step, K_fail, K_send, K_close. unfold cK, new_c; cbn; auto.
    + destruct (t_stop s) eqn:Est; auto.
      * apply tstep_quit; auto.
      * destruct Hst. split; [apply tstep_quit|apply tstep_lclosed]; auto.
      * destruct Hst as (Hq & Hl & HJ). split; [apply tstep_quit; auto|]. split; [apply tstep_lclosed; auto|].
        rewrite Hq in Hch.
        eapply change_Forall; eauto using J_step, J_fail, J_send, J_close. unfold cJ, new_c; cbn; auto.
      * destruct Hst as (Hq & Hl & HJ & Ha & HE). split; [apply tstep_quit; auto|]. split; [apply tstep_lclosed; auto|].
        rewrite Hq in Hch.
        assert (Hnospawn : t_conns (tstep s e) <> t_conns s ++ [new_c]).
        { destruct s as [acc q lc bl conns st]; cbn in *. subst acc.
          destruct e; cbn; try (intros X; apply (f_equal (@length conn)) in X; rewrite app_length in X;
                                rewrite ?update_nth_length in X; cbn in X; lia).
          - congruence.
          - destruct lc; cbn; intros X; apply (f_equal (@length conn)) in X; rewrite app_length in X; cbn in X; lia. }
        split; [|split; [auto|]].
        -- eapply change_Forall; eauto using J_step, J_fail, J_send, J_close. unfold cJ, new_c; cbn; auto.
        -- inversion Hch as [E0|E0|i E0|i E0|i E0|i E0]; try (rewrite <- E0 in *); auto;
             try (apply update_nth_Forall; auto using E_step, E_fail, E_send, E_close).
           congruence.
Qed.
