(* C13: corollaries combining the binary and the text results, as stated in Properties/C13.v. *)
From Coq Require Import List Arith NArith ZArith Lia Bool.
From Coq Require Import ZifyN ZifyNat ZifyBool.
From Mant Require Import Prim.R Prim.Bytes Prim.Dec Prim.HexNum Prim.GoStr Model.Uuid Model.Guid Spec.C13
  Proofs.C13Uuid Proofs.C13UuidV.
Import ListNotations.
Open Scope N_scope.

(* text of 16 arbitrary bytes, either letter case, into the generic parser *)
Theorem uuid_text_bytes bs : wf_bytes bs -> length bs = 16%nat ->
  uuid_text bs = rfc_text bs
  /\ uuid_from_string (rfc_text bs) = uuid_unmarshal bs
  /\ uuid_from_string (upper (rfc_text bs)) = uuid_unmarshal bs.
Proof.
  intros Hwf Hlen. split; [now apply uuid_text_rfc|]. split.
  - rewrite rfc_text_case. now apply uuid_from_text.
  - rewrite upper_text by exact Hwf. now apply uuid_from_text.
Qed.

Theorem uuid_text_fields ver var d : ver < 16 -> var < 16 -> wf_bytes d -> length d = 15%nat ->
  uuid_string ver var d = rfc_text (uuid_marshal ver var d)
  /\ uuid_from_string (uuid_string ver var d) = Ok (ver, var, d)
  /\ uuid_from_string (upper (uuid_string ver var d)) = Ok (ver, var, d).
Proof.
  intros Hver Hvar Hwf Hlen. destruct (uuid_bin_fields ver var d Hver Hvar Hwf Hlen) as (Hu & Ml & Mw).
  destruct (uuid_text_bytes _ Mw Ml) as (T1 & T2 & T3). unfold uuid_string. rewrite T1, T2, T3. auto.
Qed.

(* the version-specific parsers on the text of 16 bytes *)
Theorem vN_text_bytes bs : wf_bytes bs -> length bs = 16%nat ->
  (v1_from_string (rfc_text bs) = v1_from_bytes bs /\ v1_from_string (upper (rfc_text bs)) = v1_from_bytes bs) /\
  (v2_from_string (rfc_text bs) = v2_from_bytes bs /\ v2_from_string (upper (rfc_text bs)) = v2_from_bytes bs) /\
  (v8_from_string (rfc_text bs) = v8_from_bytes bs /\ v8_from_string (upper (rfc_text bs)) = v8_from_bytes bs).
Proof.
  intros Hwf Hlen. unfold v1_from_string, v2_from_string, v8_from_string.
  rewrite upper_text by exact Hwf. rewrite rfc_text_case. rewrite !hex_of_text by assumption.
  cbn [bind]. auto.
Qed.

Lemma from_bytes16 {A} (f : list N -> R A) bs : length bs = 16%nat ->
  (if negb (lenN bs =? 16) then Err else f bs) = f bs.
Proof. intros H. unfold lenN. rewrite H. reflexivity. Qed.

Theorem v1_text var time cs node :
  var < 16 -> time < 2 ^ 60 -> cs < 2 ^ 12 -> wf_bytes node -> length node = 6%nat ->
  v1_string var time cs node = rfc_text (v1_marshal var time cs node)
  /\ v1_from_string (v1_string var time cs node) = Ok (var, time, cs, node)
  /\ v1_from_string (upper (v1_string var time cs node)) = Ok (var, time, cs, node).
Proof.
  intros H1 H2 H3 H4 H5. destruct (v1_fields var time cs node H1 H2 H3 H4 H5) as (Hu & Ml & Mw).
  destruct (vN_text_bytes _ Mw Ml) as ((T1 & T2) & _).
  unfold v1_string. rewrite uuid_text_rfc by assumption. rewrite T1, T2.
  unfold v1_from_bytes. rewrite from_bytes16 by exact Ml. auto.
Qed.

Theorem v2_text var ldn time clock ld node :
  var < 16 -> ldn < 2 ^ 32 -> v2_time_ok time -> clock < 16 -> ld < 256 -> wf_bytes node -> length node = 6%nat ->
  v2_string var ldn time clock ld node = rfc_text (v2_marshal var ldn time clock ld node)
  /\ v2_from_string (v2_string var ldn time clock ld node) = Ok (var, ldn, time, clock, ld, node)
  /\ v2_from_string (upper (v2_string var ldn time clock ld node)) = Ok (var, ldn, time, clock, ld, node).
Proof.
  intros H1 H2 H3 H4 H5 H6 H7. destruct (v2_fields var ldn time clock ld node H1 H2 H3 H4 H5 H6 H7) as (Hu & Ml & Mw).
  destruct (vN_text_bytes _ Mw Ml) as (_ & (T1 & T2) & _).
  unfold v2_string. rewrite uuid_text_rfc by assumption. rewrite T1, T2.
  unfold v2_from_bytes. rewrite from_bytes16 by exact Ml. auto.
Qed.

Theorem v8_text var d : var < 16 -> wf_bytes d -> length d = 15%nat ->
  v8_string var d = rfc_text (v8_marshal var d)
  /\ v8_from_string (v8_string var d) = Ok (var, d)
  /\ v8_from_string (upper (v8_string var d)) = Ok (var, d).
Proof.
  intros H1 H2 H3. destruct (v8_fields var d H1 H2 H3) as (Hu & Ml & Mw).
  destruct (vN_text_bytes _ Mw Ml) as (_ & _ & (T1 & T2)).
  unfold v8_string. rewrite uuid_text_rfc by assumption. rewrite T1, T2.
  unfold v8_from_bytes. rewrite from_bytes16 by exact Ml. auto.
Qed.

(* parse then print for the version-specific types: the canonical form of whatever was accepted *)
Lemma hex_of_string_inv s m : uuid_hex_of_string s = Ok m ->
  wf_bytes m /\ length m = 16%nat /\ hex_of_bytes false m = lower (remove_byte 45 s).
Proof.
  unfold uuid_hex_of_string, hyphen. set (t := remove_byte 45 s).
  destruct (N.eqb_spec (lenN t) 32) as [Hl|]; [|discriminate]. cbn [negb].
  destruct (unhex (lower t)) as [m'|] eqn:E; [|discriminate]. intros Hm. apply ok_inj in Hm. subst m'.
  destruct (unhex_inv (length (lower t)) (lower t) m (le_n _) E) as (W & T & L).
  rewrite lower_idem in T. unfold lower in L. rewrite map_length in L. unfold lenN in Hl.
  repeat split; [exact W|lia|exact T].
Qed.

Lemma text_of_bytes m : wf_bytes m -> length m = 16%nat -> uuid_text m = hyphenate (hex_of_bytes false m).
Proof. intros W L. rewrite uuid_text_rfc by assumption. now apply rfc_text_hyphenate. Qed.

Theorem v1_text_canonical s var time cs node : v1_from_string s = Ok (var, time, cs, node) ->
  v1_string var time cs node = hyphenate (lower (remove_byte 45 s)).
Proof.
  unfold v1_from_string. destruct (uuid_hex_of_string s) as [m| |] eqn:E; cbn [bind]; try discriminate.
  destruct (hex_of_string_inv s m E) as (W & L & T). unfold v1_from_bytes. rewrite from_bytes16 by exact L.
  intros Hu. destruct (v1_bin m var time cs node W L Hu) as (Hm & _).
  unfold v1_string. rewrite Hm, text_of_bytes by assumption. now rewrite T.
Qed.

Theorem v2_text_canonical s var ldn time clock ld node :
  v2_from_string s = Ok (var, ldn, time, clock, ld, node) ->
  v2_string var ldn time clock ld node = hyphenate (lower (remove_byte 45 s)).
Proof.
  unfold v2_from_string. destruct (uuid_hex_of_string s) as [m| |] eqn:E; cbn [bind]; try discriminate.
  destruct (hex_of_string_inv s m E) as (W & L & T). unfold v2_from_bytes. rewrite from_bytes16 by exact L.
  intros Hu. destruct (v2_bin m var ldn time clock ld node W L Hu) as (Hm & _).
  unfold v2_string. rewrite Hm, text_of_bytes by assumption. now rewrite T.
Qed.

Theorem v8_text_canonical s var d : v8_from_string s = Ok (var, d) ->
  v8_string var d = hyphenate (lower (remove_byte 45 s)).
Proof.
  unfold v8_from_string. destruct (uuid_hex_of_string s) as [m| |] eqn:E; cbn [bind]; try discriminate.
  destruct (hex_of_string_inv s m E) as (W & L & T). unfold v8_from_bytes. rewrite from_bytes16 by exact L.
  intros Hu. destruct (v8_bin m var d W L Hu) as (Hm & _).
  unfold v8_string. rewrite Hm, text_of_bytes by assumption. now rewrite T.
Qed.
