(* CHALLENGE parsing: every well-formed CHALLENGE_MESSAGE parses to exactly the fields its
   descriptors designate; AV-pair lists parse to the last-wins map; totality of the decoders. *)
From Coq Require Import List Arith NArith ZArith Lia Bool.
From Coq Require Import ZifyN ZifyNat ZifyBool.
From Mant Require Import Prim.R Prim.Bytes Spec.C08 Model.NtlmSsp Gen.ConstsC08 Proofs.C08Layout.
Import ListNotations.
Open Scope N_scope.

Lemma go_slice_sub (data : list N) lo hi : lo <= hi -> hi <= lenN data -> go_slice data lo hi = Ok (sub data lo (hi - lo)).
Proof. intros. now rewrite go_slice_ok. Qed.

Lemma go_le_uint2_sub data o : o + 2 <= lenN data -> go_le_uint 2 (sub data o 2) = Ok (u16_at data o).
Proof.
  intros H. unfold go_le_uint, u16_at. pose proof (lenN_sub data o 2 H) as L. unfold lenN in L.
  destruct (Nat.leb_spec 2 (length (sub data o 2))); [|lia].
  rewrite firstn_all2 by lia. reflexivity.
Qed.
Lemma go_le_uint4_sub data o : o + 4 <= lenN data -> go_le_uint 4 (sub data o 4) = Ok (u32_at data o).
Proof.
  intros H. unfold go_le_uint, u32_at. pose proof (lenN_sub data o 4 H) as L. unfold lenN in L.
  destruct (Nat.leb_spec 4 (length (sub data o 4))); [|lia].
  rewrite firstn_all2 by lia. reflexivity.
Qed.

Lemma challenge_field_in_bounds data len off :
  off + len <= lenN data -> challenge_field data len off = Ok (sub data off len).
Proof.
  intros H. unfold challenge_field. destruct (N.ltb_spec 0 len) as [Hp|Hz]; cbn [andb].
  - destruct (N.leb_spec (off + len) (lenN data)); [|lia].
    rewrite go_slice_sub by lia. replace (off + len - off) with len by lia. reflexivity.
  - assert (len = 0) by lia. subst. reflexivity.
Qed.

Lemma wf_bytes_sub data o l : wf_bytes data -> wf_bytes (sub data o l).
Proof. intros H. unfold sub. now apply wf_bytes_firstn, wf_bytes_skipn. Qed.

Lemma version_roundtrip vb : lenN vb = 8 -> wf_bytes vb ->
  exists v, version_unmarshal vb = Ok v /\ version_marshal v = vb.
Proof.
  intros L W. unfold lenN in L.
  destruct vb as [|a [|b [|c [|d [|e [|f [|g [|h [|x vb]]]]]]]]]; cbn [length] in L; try lia.
  eexists. split; [reflexivity|].
  unfold version_marshal. cbn [v_major v_minor v_build v_reserved v_revision app].
  assert (Wcd : wf_bytes [c; d]).
  { unfold wf_bytes in *. repeat match goal with H : Forall _ (_ :: _) |- _ => inversion H; clear H; subst end.
    repeat constructor; assumption. }
  pose proof (le_bytes_le_val [c; d] Wcd) as E. cbn [length] in E.
  change (firstn (N.to_nat (7 - 4)) (skipn (N.to_nat 4) [a; b; c; d; e; f; g; h])) with [e; f; g].
  change (firstn 2 (firstn (N.to_nat (4 - 2)) (skipn (N.to_nat 2) [a; b; c; d; e; f; g; h]))) with [c; d].
  unfold le16. rewrite E. reflexivity.
Qed.

Theorem challenge_exact data : challenge_wf data ->
  exists c, parse_challenge data = Ok c /\
    let f := challenge_carried data in
    ch_flags c = cf_flags f /\ ch_server_challenge c = cf_server_challenge f /\
    ch_target_name c = cf_target_name f /\ ch_target_info c = cf_target_info f /\
    version_marshal (ch_version c) = cf_version f.
Proof.
  intros (W & L & Sig & Ty & B1 & B2). unfold parse_challenge.
  destruct (N.ltb_spec (lenN data) 56); [lia|].
  rewrite go_slice_sub by lia. cbn [bind]. change (8 - 0) with 8. rewrite Sig.
  change (bytes_eqb nlmp_signature c08_ntlm_signature) with true. cbn [negb].
  rewrite go_slice_sub by lia. cbn [bind]. change (12 - 8) with 4. rewrite go_le_uint4_sub by lia. cbn [bind].
  rewrite Ty. change (2 =? c08_ntlm_challenge) with true. cbn [negb].
  rewrite go_slice_sub by lia. cbn [bind]. change (14 - 12) with 2. rewrite go_le_uint2_sub by lia. cbn [bind].
  rewrite go_slice_sub by lia. cbn [bind]. change (20 - 16) with 4. rewrite go_le_uint4_sub by lia. cbn [bind].
  unfold in_bounds, desc_at in B1, B2. cbn [d_len d_off] in B1, B2.
  change (12 + 4) with 16 in B1. change (40 + 4) with 44 in B2.
  rewrite challenge_field_in_bounds by exact B1. cbn [bind].
  rewrite go_slice_sub by lia. cbn [bind]. change (24 - 20) with 4. rewrite go_le_uint4_sub by lia. cbn [bind].
  rewrite go_slice_sub by lia. cbn [bind]. change (32 - 24) with 8.
  rewrite go_slice_sub by lia. cbn [bind]. change (40 - 32) with 8.
  rewrite go_slice_sub by lia. cbn [bind]. change (42 - 40) with 2. rewrite go_le_uint2_sub by lia. cbn [bind].
  rewrite go_slice_sub by lia. cbn [bind]. change (48 - 44) with 4. rewrite go_le_uint4_sub by lia. cbn [bind].
  rewrite challenge_field_in_bounds by exact B2. cbn [bind].
  change c08_f_version with (2 ^ 25). rewrite has_flag_bit.
  destruct (N.leb_spec 56 (lenN data)); [|lia]. rewrite andb_true_r.
  unfold challenge_carried. cbn [cf_flags cf_server_challenge cf_target_name cf_target_info cf_version].
  unfold desc_at. cbn [d_len d_off]. change (12 + 4) with 16. change (40 + 4) with 44. unfold bit_version.
  destruct (N.testbit (u32_at data 20) 25) eqn:Ev.
  - rewrite go_slice_sub by lia. cbn [bind]. change (56 - 48) with 8.
    destruct (version_roundtrip (sub data 48 8)) as (v & Ev1 & Ev2);
      [apply lenN_sub; lia|now apply wf_bytes_sub|].
    rewrite Ev1. cbn [bind]. eexists. split; [reflexivity|].
    cbn [ch_flags ch_server_challenge ch_target_name ch_target_info ch_version]. repeat split. exact Ev2.
  - cbn [bind]. eexists. split; [reflexivity|].
    cbn [ch_flags ch_server_challenge ch_target_name ch_target_info ch_version]. repeat split.
Qed.

(* ---- the sender-side canonical layout is well formed and carries its fields ---- *)
Lemma lenN_lb2 x : lenN (le_bytes 2 x) = 2. Proof. apply lenN_le_bytes. Qed.
Lemma lenN_lb4 x : lenN (le_bytes 4 x) = 4. Proof. apply lenN_le_bytes. Qed.
Lemma lenN_nlsig : lenN nlmp_signature = 8. Proof. reflexivity. Qed.
Lemma lenN_z8 : lenN [0; 0; 0; 0; 0; 0; 0; 0] = 8. Proof. reflexivity. Qed.
Lemma lenN_nilN' : lenN (@nil N) = 0. Proof. reflexivity. Qed.
#[local] Hint Rewrite @lenN_app lenN_lb2 lenN_lb4 lenN_nlsig lenN_z8 lenN_nilN' : c08ch.

Ltac piece Hmsg ps k H :=
  pose proof (sub_concat ps k) as H; rewrite <- Hmsg in H; unfold ps in H;
  cbn [firstn nth concat] in H; autorewrite with c08ch in H.
Ltac use H := first [ refine (eq_trans _ H); f_equal; lia | symmetry; refine (eq_trans _ H); f_equal; lia ].

Lemma le_val_lb2 x : x < 65536 -> le_val (le_bytes 2 x) = x.
Proof. intros. apply le_val_small. exact H. Qed.
Lemma le_val_lb4 x : x < 4294967296 -> le_val (le_bytes 4 x) = x.
Proof. intros. apply le_val_small. exact H. Qed.

Theorem challenge_encode_spec flags sc tn ti ver :
  flags < 4294967296 -> lenN sc = 8 -> lenN ver = 8 -> lenN tn < 65536 -> lenN ti < 65536 ->
  wf_bytes sc -> wf_bytes ver -> wf_bytes tn -> wf_bytes ti ->
  let data := challenge_encode flags sc tn ti ver in
  challenge_wf data /\
  challenge_carried data =
    {| cf_flags := flags; cf_server_challenge := sc; cf_target_name := tn; cf_target_info := ti;
       cf_version := if N.testbit flags bit_version then ver else [0; 0; 0; 0; 0; 0; 0; 0] |}.
Proof.
  intros Hf Lsc Lver Ltn Lti Wsc Wver Wtn Wti. cbn zeta.
  set (data := challenge_encode flags sc tn ti ver).
  set (ps := [nlmp_signature; le_bytes 4 2; le_bytes 2 (lenN tn); le_bytes 2 (lenN tn); le_bytes 4 56;
              le_bytes 4 flags; sc; [0; 0; 0; 0; 0; 0; 0; 0]; le_bytes 2 (lenN ti); le_bytes 2 (lenN ti);
              le_bytes 4 (56 + lenN tn); ver; tn; ti]).
  assert (Hmsg : data = concat ps).
  { unfold data, challenge_encode, ps. cbn [concat]. rewrite ?app_nil_r. repeat rewrite <- app_assoc. reflexivity. }
  assert (Hlen : lenN data = 56 + lenN tn + lenN ti).
  { rewrite Hmsg. unfold ps. cbn [concat]. autorewrite with c08ch. rewrite Lsc, Lver. lia. }
  piece Hmsg ps 0%nat P0. piece Hmsg ps 1%nat P1. piece Hmsg ps 2%nat P2. piece Hmsg ps 4%nat P4.
  piece Hmsg ps 5%nat P5. piece Hmsg ps 6%nat P6. piece Hmsg ps 8%nat P8. piece Hmsg ps 10%nat P10.
  piece Hmsg ps 11%nat P11. piece Hmsg ps 12%nat P12. piece Hmsg ps 13%nat P13.
  rewrite ?Lsc, ?Lver in *.
  assert (U12 : u16_at data 12 = lenN tn).
  { unfold u16_at. replace (sub data 12 2) with (le_bytes 2 (lenN tn)) by use P2. now apply le_val_lb2. }
  assert (U16 : u32_at data 16 = 56).
  { unfold u32_at. replace (sub data 16 4) with (le_bytes 4 56) by use P4. reflexivity. }
  assert (U40 : u16_at data 40 = lenN ti).
  { unfold u16_at. replace (sub data 40 2) with (le_bytes 2 (lenN ti)) by use P8. now apply le_val_lb2. }
  assert (U44 : u32_at data 44 = 56 + lenN tn).
  { unfold u32_at. replace (sub data 44 4) with (le_bytes 4 (56 + lenN tn)) by use P10. apply le_val_lb4. lia. }
  assert (U20 : u32_at data 20 = flags).
  { unfold u32_at. replace (sub data 20 4) with (le_bytes 4 flags) by use P5. now apply le_val_lb4. }
  split.
  - unfold challenge_wf. split.
    { unfold data, challenge_encode. repeat (apply wf_bytes_app; split); try apply wf_le_bytes; try assumption;
        apply wf_bytesb_spec; reflexivity. }
    split; [lia|]. split; [use P0|].
    split. { unfold u32_at. replace (sub data 8 4) with (le_bytes 4 2) by use P1. reflexivity. }
    unfold in_bounds, desc_at. cbn [d_len d_off]. change (12 + 4) with 16. change (40 + 4) with 44.
    rewrite U12, U16, U40, U44. lia.
  - unfold challenge_carried, desc_at. cbn [d_len d_off]. change (12 + 4) with 16. change (40 + 4) with 44.
    rewrite U12, U16, U40, U44, U20. f_equal.
    + use P6.
    + use P12.
    + use P13.
    + destruct (N.testbit flags bit_version); [use P11|reflexivity].
Qed.

(* ---- AV pairs ---- *)
Definition av_get (m : list (N * list N)) (id : N) : option (list N) :=
  match find (fun e => fst e =? id) m with Some e => Some (snd e) | None => None end.
Definition av_fold (pairs m : list (N * list N)) : list (N * list N) :=
  fold_left (fun m p => av_put m (fst p) (snd p)) pairs m.

Lemma go_slice_at (ti pre b post : list N) o1 o2 :
  ti = pre ++ b ++ post -> o1 = lenN pre -> o2 = lenN pre + lenN b -> go_slice ti o1 o2 = Ok b.
Proof. intros -> -> ->. apply go_slice_app_mid. Qed.

Lemma go_le_uint2_lb x : go_le_uint 2 (le_bytes 2 x) = Ok (x mod 65536).
Proof. rewrite <- (app_nil_r (le_bytes 2 x)). now rewrite go_le_uint_app. Qed.

Lemma pti_step f pre id v more m :
  id < 65536 -> lenN v < 65536 ->
  parse_target_info_fuel (S f) (pre ++ av_pair_encode (id, v) ++ more) (lenN pre) m
  = if id =? 0 then Ok m
    else parse_target_info_fuel f (pre ++ av_pair_encode (id, v) ++ more) (lenN pre + 4 + lenN v) (av_put m id v).
Proof.
  intros Hid Hv. cbn [parse_target_info_fuel]. unfold av_pair_encode. cbn [fst snd].
  set (ti := pre ++ (le_bytes 2 id ++ le_bytes 2 (lenN v) ++ v) ++ more).
  assert (Lti : lenN ti = lenN pre + 4 + lenN v + lenN more).
  { unfold ti. rewrite !lenN_app, !lenN_lb2. lia. }
  destruct (N.ltb_spec (lenN pre) (lenN ti)); [|lia]. cbn [negb].
  destruct (N.ltb_spec (lenN ti) (lenN pre + 4)); [lia|].
  rewrite (go_slice_at ti pre (le_bytes 2 id) (le_bytes 2 (lenN v) ++ v ++ more));
    [|unfold ti; now rewrite <- !app_assoc|reflexivity|rewrite lenN_lb2; lia].
  cbn [bind]. rewrite go_le_uint2_lb. cbn [bind]. rewrite N.mod_small by lia.
  rewrite (go_slice_at ti (pre ++ le_bytes 2 id) (le_bytes 2 (lenN v)) (v ++ more));
    [|unfold ti; now rewrite <- !app_assoc|rewrite lenN_app, lenN_lb2; lia|rewrite lenN_app, !lenN_lb2; lia].
  cbn [bind]. rewrite go_le_uint2_lb. cbn [bind]. rewrite N.mod_small by lia.
  destruct (N.ltb_spec (lenN ti) (lenN pre + 4 + lenN v)); [lia|].
  change c08_msv_av_eol with 0.
  destruct (N.eqb_spec id 0) as [->|Hne]; cbn [negb bind]; [reflexivity|].
  rewrite (go_slice_at ti (pre ++ le_bytes 2 id ++ le_bytes 2 (lenN v)) v more);
    [|unfold ti; now rewrite <- !app_assoc|rewrite !lenN_app, !lenN_lb2; lia|rewrite !lenN_app, !lenN_lb2; lia].
  cbn [bind]. reflexivity.
Qed.

Lemma pti_loop pairs : forall fuel pre m rest,
  (length pairs < fuel)%nat -> Forall av_ok pairs ->
  parse_target_info_fuel fuel (pre ++ flat_map av_pair_encode pairs ++ av_eol ++ rest) (lenN pre) m
  = Ok (av_fold pairs m).
Proof.
  induction pairs as [|[id v] pairs IH]; intros fuel pre m rest Hf Hok.
  - destruct fuel as [|f]; [cbn in Hf; lia|]. cbn [flat_map app av_fold fold_left].
    change av_eol with (av_pair_encode (0, [])).
    rewrite pti_step by (cbn; lia). reflexivity.
  - destruct fuel as [|f]; [cbn in Hf; lia|]. inversion Hok as [|? ? [H0 [H1 H2]] Hok']; subst.
    cbn [fst snd] in *. cbn [flat_map]. rewrite <- !app_assoc.
    rewrite pti_step by lia. destruct (N.eqb_spec id 0); [lia|].
    replace (lenN pre + 4 + lenN v) with (lenN (pre ++ av_pair_encode (id, v)))
      by (unfold av_pair_encode; cbn [fst snd]; rewrite !lenN_app, !lenN_lb2; lia).
    replace (pre ++ av_pair_encode (id, v) ++ flat_map av_pair_encode pairs ++ av_eol ++ rest)
      with ((pre ++ av_pair_encode (id, v)) ++ flat_map av_pair_encode pairs ++ av_eol ++ rest)
      by now rewrite <- !app_assoc.
    rewrite IH; [reflexivity|cbn in Hf; lia|exact Hok'].
Qed.

Lemma av_get_put m id v k : av_get (av_put m id v) k = if id =? k then Some v else av_get m k.
Proof.
  unfold av_get. induction m as [|[a w] m IH]; cbn [av_put find fst snd].
  - destruct (N.eqb_spec id k); reflexivity.
  - destruct (N.eqb_spec a id) as [->|Hne]; cbn [find fst snd].
    + destruct (N.eqb_spec id k); reflexivity.
    + destruct (N.eqb_spec a k) as [->|Hk].
      * destruct (N.eqb_spec id k); [congruence|reflexivity].
      * exact IH.
Qed.

Lemma find_app {A} (f : A -> bool) l1 l2 :
  find f (l1 ++ l2) = match find f l1 with Some x => Some x | None => find f l2 end.
Proof. induction l1 as [|x l1 IH]; cbn [app find]; [reflexivity|]. destruct (f x); [reflexivity|exact IH]. Qed.

Lemma av_get_fold pairs : forall m k,
  av_get (av_fold pairs m) k = match av_value pairs k with Some v => Some v | None => av_get m k end.
Proof.
  induction pairs as [|[id v] pairs IH]; intros m k; [reflexivity|].
  cbn [av_fold fold_left fst snd]. fold (av_fold pairs (av_put m id v)). rewrite IH.
  unfold av_value. cbn [rev]. rewrite find_app. cbn [find fst].
  destruct (find (fun p => fst p =? k) (rev pairs)); [reflexivity|].
  rewrite av_get_put. destruct (id =? k); reflexivity.
Qed.

Theorem target_info_exact pairs rest : Forall av_ok pairs ->
  exists m, parse_target_info (av_encode pairs ++ rest) = Ok m /\ forall id, av_get m id = av_value pairs id.
Proof.
  intros Hok. exists (av_fold pairs []). split.
  - unfold parse_target_info, av_encode. rewrite <- app_assoc.
    pose proof (pti_loop pairs (S (length (flat_map av_pair_encode pairs ++ av_eol ++ rest))) [] [] rest) as E.
    cbn [app] in E. change (lenN (@nil N)) with 0 in E. apply E; [|exact Hok].
    rewrite app_length. assert (length pairs <= length (flat_map av_pair_encode pairs))%nat; [|lia].
    clear. induction pairs as [|p pairs IH]; [cbn; lia|]. cbn [flat_map length]. rewrite app_length.
    unfold av_pair_encode at 1. rewrite !app_length, !length_le_bytes. lia.
  - intros id. rewrite av_get_fold. destruct (av_value pairs id); reflexivity.
Qed.
