(* C07: the per-tree instances of the generic SMB totality theorem, the envelope, and the
   "allocation in proportion to the input" facts of the decoders that size a buffer from a wire field. *)
From Coq Require Import List Arith NArith ZArith Lia Bool String.
From Coq Require Import ZifyN ZifyNat ZifyBool.
From Mant Require Import Prim.R Prim.Bytes Model.SmbTypes Model.SmbBlocks Model.SmbLayout Model.SmbAnalysis
  Model.SmbSafe Model.SmbEnvelope Model.C07Known Spec.C05 Spec.C06 Proofs.C06Layout Proofs.C06Strings Proofs.C06Blocks
  Proofs.C03Proofs Proofs.C07Smb Gen.SmbLayouts.
Import ListNotations.
Open Scope N_scope.

(* every structure of the current tree is either proved total or on the committed list *)
Definition covered (c : cmd_desc) : bool := cmd_safe c || string_mem (cd_name c) c07_unproved.

Lemma smb_cover : forallb covered all_cmds = true.
Proof. vm_compute. reflexivity. Qed.

Lemma smb_cmd_total c : In c all_cmds -> string_mem (cd_name c) c07_unproved = false ->
  forall v0 data, cmd_unmarshal c v0 data <> Panic.
Proof.
  intros Hin Hk. pose proof smb_cover as H. rewrite forallb_forall in H. specialize (H c Hin).
  unfold covered in H. rewrite Hk, orb_false_r in H. now apply cmd_safe_total.
Qed.

(* the list is not vacuous the other way round either: how many structures are proved *)
Lemma smb_proved_count : List.length (filter cmd_safe all_cmds) = 106%nat.
Proof. vm_compute. reflexivity. Qed.

Lemma find_by_name_in cmds n c : find_by_name cmds n = Some c -> In c cmds.
Proof. unfold find_by_name. intros H. apply find_some in H. tauto. Qed.

(* Message.Unmarshal: header, factory, command.  It can only panic inside the Unmarshal of a structure
   the analysis does not cover. *)
Theorem message_total_mod data :
  message_unmarshal all_cmds req_table resp_table data = Panic ->
  exists c, In c all_cmds /\ string_mem (cd_name c) c07_unproved = true.
Proof.
  unfold message_unmarshal. destruct (N.ltb_spec (lenN data) header_size) as [|Hlen]; [discriminate|].
  rewrite go_upto_ok by exact Hlen. cbn [bind].
  pose proof (header_total (firstn (N.to_nat header_size) data)) as TH.
  destruct (header_unmarshal (firstn (N.to_nat header_size) data)) as [[h n]| |] eqn:EH; cbn [bind];
    [|discriminate|congruence].
  assert (n = header_size).
  { unfold header_unmarshal in EH. destruct (lenN _ <? header_size); [discriminate|].
    destruct (get_fields hdr_layout _ 0); try discriminate. cbn [bind] in EH. congruence. }
  subst n. rewrite go_from_ok by exact Hlen. cbn [bind].
  destruct (factory_dispatch all_cmds req_table resp_table (h_command h) (is_response (h_flags h))) as [c|] eqn:ED;
    [|discriminate].
  assert (Hin : In c all_cmds).
  { unfold factory_dispatch in ED. destruct (table_lookup _ _); [|discriminate]. eapply find_by_name_in; eassumption. }
  destruct (string_mem (cd_name c) c07_unproved) eqn:K; [intros _; eauto|].
  pose proof (smb_cmd_total c Hin K (zero_valuation c) (skipn (N.to_nat header_size) data)) as T.
  destruct (cmd_unmarshal c _ _); cbn [bind]; [discriminate|discriminate|congruence].
Qed.

(* ---------------- allocation in proportion to the input ---------------- *)
(* Each decoder that sizes a buffer from a length field on the wire (make([]T, n)) does so after
   comparing n with the bytes it was given: what it allocates is bounded by the input. *)

Lemma go_slice_len {A} (l : list A) lo hi s : go_slice l lo hi = Ok s -> lenN s <= lenN l.
Proof.
  unfold go_slice. destruct ((lo <=? hi) && (hi <=? lenN l)); [|discriminate]. intros E. inversion E.
  unfold lenN. rewrite firstn_length, skipn_length. lia.
Qed.

(* SMB_STRING: make([]UCHAR, s.Length) / make([]UCHAR, nullPos-1) *)
Theorem alloc_smb_string input s n : smb_string_unmarshal input = Ok (s, n) -> lenN (ss_buf s) <= lenN input.
Proof.
  destruct input as [|f l]; [discriminate|]. rewrite head_dispatch.
  assert (C : forall extra, ss_unmarshal_counted f (f :: l) extra = Ok (s, n) -> lenN (ss_buf s) <= lenN (f :: l)).
  { intros extra. unfold ss_unmarshal_counted. destruct (lenN (f :: l) <? 3); [discriminate|].
    destruct (go_slice (f :: l) 1 3) as [lb| |]; try discriminate. cbn [bind].
    destruct (go_le_uint 2 lb) as [len| |]; try discriminate. cbn [bind].
    destruct (lenN (f :: l) <? len + 3 + extra); [discriminate|].
    destruct (go_slice (f :: l) 3 (3 + len)) as [body| |] eqn:Eb; try discriminate. cbn [bind].
    intros E. inversion E; subst. cbn [ss_buf]. eapply go_slice_len; eassumption. }
  assert (Z : ss_unmarshal_nul f (f :: l) = Ok (s, n) -> lenN (ss_buf s) <= lenN (f :: l)).
  { unfold ss_unmarshal_nul. destruct (find_nul (skipn 1 (f :: l)) 1) as [p|]; [|discriminate].
    destruct (go_slice (f :: l) 1 p) as [body| |] eqn:Eb; try discriminate. cbn [bind].
    intros E. inversion E; subst. cbn [ss_buf]. eapply go_slice_len; eassumption. }
  destruct (f =? 1); [apply C|]. destruct (f =? 2); [exact Z|].
  destruct (f =? 3); [apply C|]. destruct (f =? 4); [exact Z|].
  destruct (f =? 5); [apply C|discriminate].
Qed.

Lemma read_words_len data : forall n i ws, params_read_words data i n = Ok ws -> List.length ws = n.
Proof.
  induction n as [|n IH]; intros i ws; cbn [params_read_words].
  - intros E. inversion E. reflexivity.
  - destruct (go_slice data (i * 2) (2 + i * 2)) as [s0| |]; try discriminate. cbn [bind].
    destruct (go_be_uint 2 s0) as [w| |]; try discriminate. cbn [bind].
    destruct (params_read_words data (i + 1) n) as [r| |] eqn:Er; try discriminate. cbn [bind].
    intros E. inversion E. cbn [List.length]. f_equal. eapply IH; eassumption.
Qed.

(* Parameters: make([]uint16, p.WordCount) *)
Theorem alloc_params data pp n : params_unmarshal data = Ok (pp, n) -> 2 * lenN (p_words pp) <= lenN data.
Proof.
  unfold params_unmarshal. destruct (N.eqb_spec (lenN data) 0) as [|H0]; [discriminate|].
  destruct (go_index data 0) as [wc| |]; try discriminate. cbn [bind].
  rewrite go_from_ok by lia. cbn [bind].
  assert (L : lenN (skipn (N.to_nat 1) data) = lenN data - 1) by (unfold lenN; rewrite skipn_length; lia).
  destruct (0 <? wc).
  - destruct (N.ltb_spec (lenN (skipn (N.to_nat 1) data)) (wc * 2)); [discriminate|].
    destruct (params_read_words _ 0 (N.to_nat wc)) as [ws| |] eqn:Ew; try discriminate. cbn [bind]. intros E.
    assert (Ep : mk_params wc ws = pp) by congruence. subst pp. cbn [p_words].
    apply read_words_len in Ew. unfold lenN in *. lia.
  - intros E. assert (Ep : mk_params wc [] = pp) by congruence. subst pp. cbn [p_words]. change (lenN (@nil N)) with 0. lia.
Qed.

(* Data: the byte block is a sub-slice of the input *)
Theorem alloc_data rest dd k : data_unmarshal rest = Ok (dd, k) -> lenN (d_bytes dd) <= lenN rest.
Proof. intros E. destruct (data_consumed_bound rest dd k E); lia. Qed.
