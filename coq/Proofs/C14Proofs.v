(* C14 — main proofs: a credential built from any RSA key, device and time stamps serialises to the
   MS-ADTS blob, parses back, re-serialises identically and passes its integrity check; a corrupted bit in
   the region covered by the key hash is accepted only if SHA-256 collides (or contains its own image). *)
From Coq Require Import List Arith NArith ZArith Lia Bool.
From Coq Require Import ZifyN ZifyNat ZifyBool.
From Mant Require Import Prim.R Prim.Bytes Prim.Dec Algo.SHA256 Algo.Base64 Model.Guid Model.WinTime Model.KeyCred
  Spec.C15 Spec.C14 Proofs.AlgoProofs Proofs.C15Proofs Proofs.C14Base Proofs.C14Codec.
Import ListNotations.
Open Scope N_scope.

Opaque sha256.

Ltac small_len := unfold lenN; cbn [length repeatN]; lia.

(* ------------------------------------------------------------------ building a credential *)

Definition rsa_of (c : cred) : rsa := mkRsa (sKeySize c) (sExponent c) (sModulus c) (sPrime1 c) (sPrime2 c).

(* what a caller of the package does: the identifier is derived from the key material, the structure comes
   from NewKeyCredential, the time stamps from NewDateTime *)
Definition kc_build (now : gotime) (c : cred) : R kcred :=
  new_key_credential (sVersion c) (compute_key_identifier (rsa_to_bytes (rsa_of c)) (sVersion c)) (rsa_of c)
    (sDevice c) (new_datetime_go now (sLastLogon c)) (new_datetime_go now (sCreation c)).

Definition fresh_cki (sz : N) : cki := mkCki 1 0 0 false 0 0 [] [] sz.
Definition dt_of (t : Z) : datetime := (t, datetime_time_exact t).

(* the structure holding the fields of c, a key hash h, raw bytes and a CustomKeyInformation raw size *)
Definition built (c : cred) (h raw : list N) (sz : N) : kcred :=
  mkKc (sVersion c) (spec_identifier c) h (rsa_of c) 1 [] 0 (fresh_cki sz) (sDevice c)
       (dt_of (sLastLogon c)) (dt_of (sCreation c)) raw.

(* the fields a user of the structure reads (RawBytes and the raw size of the custom key information are
   internal) *)
Definition kc_obs (k : kcred) :=
  (kVersion k, kIdentifier k, kKeyHash k, kRsa k, (kUsage k, kLegacy k, kSource k),
   (cVersion (kCki k), cFlags (kCki k)), kDevice k, kLastLogon k, kCreation k).

Lemma rsa_to_bytes_spec c : rsa_to_bytes (rsa_of c) = spec_rsa_blob c.
Proof. reflexivity. Qed.

Lemma identifier_spec c : compute_key_identifier (spec_rsa_blob c) (sVersion c) = spec_identifier c.
Proof. reflexivity. Qed.

Lemma ent_entry t d : ent t d = entry t d.
Proof. reflexivity. Qed.

Lemma write_entry_ok t d : lenN d <= 65535 -> write_entry t d = Ok (entry t d).
Proof. intros H. unfold write_entry. destruct (N.ltb_spec 65535 (lenN d)); [lia | reflexivity]. Qed.

Lemma lenN_sha256 m : lenN (sha256 m) = 32.
Proof. unfold lenN. now rewrite sha256_length. Qed.

Lemma lenN_spec_guid g : lenN (spec_guid g) = 16.
Proof. unfold spec_guid. rewrite !lenN_app, !lenN_le_bytes, !lenN_be_bytes. reflexivity. Qed.

Lemma lenN_spec_ticks t : lenN (spec_ticks t) = 8.
Proof. unfold spec_ticks. now rewrite lenN_le_bytes. Qed.

Lemma nonempty_app (a b : list N) : 0 < lenN a -> a ++ b <> [].
Proof. destruct a; [unfold lenN; cbn; lia | discriminate]. Qed.

Lemma cred_rsa_ok c : cred_ok c -> fits c -> rsa_ok (rsa_of c).
Proof.
  intros (_ & Hk & He & _) Hf. unfold fits in Hf. rewrite <- rsa_to_bytes_spec, lenN_rsa_to_bytes in Hf.
  unfold rsa_ok, rsa_of in *. cbn [rKeySize rExponent rModulus rPrime1 rPrime2] in *.
  change (2 ^ 32) with 4294967296 in *. lia.
Qed.

Lemma key_id_roundtrip c :
  id_to_binary (spec_identifier c) (sVersion c) = Ok (spec_key_id c).
Proof.
  rewrite <- identifier_spec. unfold compute_key_identifier, compute_hash. fold (spec_key_id c).
  apply id_roundtrip; [apply sha256_wf|]. right. unfold spec_key_id. now rewrite sha256_length.
Qed.

Lemma identifier_nonempty c : lenN (spec_identifier c) <> 0.
Proof.
  rewrite <- identifier_spec. apply id_from_binary_nonempty. unfold compute_hash. rewrite sha256_length. lia.
Qed.

(* ------------------------------------------------------------------ ToBytes is the MS-ADTS blob *)

Definition blob_with (c : cred) (h : list N) : list N :=
  le_bytes 4 (sVersion c) ++ entry 1 (spec_key_id c) ++ entry 2 h ++ spec_tail c.

Lemma blob_with_hash c : blob_with c (spec_key_hash c) = spec_blob c.
Proof. unfold blob_with, spec_blob, spec_head. now rewrite <- !app_assoc. Qed.

Lemma to_bytes_built c h raw sz :
  cred_ok c -> fits c -> lenN h <= 65535 -> sz <= 2 ->
  kc_to_bytes (built c h raw sz) = Ok (blob_with c (if lenN h =? 0 then repeatN 0 32 else h)).
Proof.
  intros Hok Hfit Hh Hsz. unfold kc_to_bytes, built.
  cbn [kVersion kIdentifier kKeyHash kRsa kUsage kLegacy kSource kCki kDevice kLastLogon kCreation].
  destruct (N.eqb_spec (lenN (spec_identifier c)) 0) as [H|_]; [now apply identifier_nonempty in H|].
  rewrite key_id_roundtrip. cbn [bind].
  rewrite write_entry_ok by (unfold spec_key_id; rewrite lenN_sha256; lia). cbn [bind].
  rewrite write_entry_ok by (destruct (lenN h =? 0); [small_len | exact Hh]). cbn [bind].
  rewrite rsa_to_bytes_spec. rewrite write_entry_ok by exact Hfit. cbn [bind].
  rewrite write_entry_ok by small_len. cbn [bind].
  change (lenN (@nil N) =? 0) with true. cbv iota. cbn [bind].
  rewrite write_entry_ok by small_len. cbn [bind].
  rewrite write_entry_ok by (rewrite lenN_guid_to_bytes; lia). cbn [bind].
  unfold fresh_cki. rewrite cki_fresh_to_bytes by exact Hsz. cbv zeta.
  change (lenN [1; 0] =? 0) with false. cbv iota.
  rewrite write_entry_ok by small_len. cbn [bind].
  rewrite write_entry_ok by (unfold datetime_to_bytes, le64; rewrite lenN_le_bytes; lia). cbn [bind].
  rewrite write_entry_ok by (unfold datetime_to_bytes, le64; rewrite lenN_le_bytes; lia). cbn [bind].
  reflexivity.
Qed.

(* ------------------------------------------------------------------ what the key hash covers *)

(* the entries after the key hash contain no entry of type KeyHash: the hash walk crosses them unchanged *)
Lemma hwalk_tail c acc : fits c -> hwalk (spec_tail c) acc = Ok acc.
Proof.
  intros Hfit. unfold spec_tail. rewrite <- !ent_entry.
  assert (Hrsa : 0 < lenN (spec_rsa_blob c)).
  { rewrite <- rsa_to_bytes_spec, lenN_rsa_to_bytes. lia. }
  rewrite hwalk_ent; [|exact Hfit | now apply nonempty_app]. change (3 =? 2) with false. cbv iota.
  rewrite hwalk_ent; [|small_len | discriminate]. change (4 =? 2) with false. cbv iota.
  rewrite hwalk_ent; [|small_len | discriminate]. change (5 =? 2) with false. cbv iota.
  rewrite hwalk_ent; [|rewrite lenN_spec_guid; lia | apply nonempty_app; rewrite lenN_spec_guid; lia].
  change (6 =? 2) with false. cbv iota.
  rewrite hwalk_ent; [|small_len | discriminate]. change (7 =? 2) with false. cbv iota.
  rewrite hwalk_ent; [|rewrite lenN_spec_ticks; lia | apply nonempty_app; rewrite lenN_spec_ticks; lia].
  change (8 =? 2) with false. cbv iota.
  rewrite <- (app_nil_r (ent 9 _)).
  rewrite hwalk_ent; [|rewrite lenN_spec_ticks; lia | apply nonempty_app; rewrite lenN_spec_ticks; lia].
  change (9 =? 2) with false. cbv iota. apply hwalk_short. cbn [length]. lia.
Qed.

(* the head of a blob (version, key identifier, key hash) followed by ANY bytes: the hash covers exactly
   those bytes, plus whatever follows further KeyHash entries found among them *)
Lemma covered_head v id h rest :
  0 < lenN id <= 65535 -> 0 < lenN h <= 65535 ->
  kc_covered (le_bytes 4 v ++ entry 1 id ++ entry 2 h ++ rest) = hwalk rest rest.
Proof.
  intros Hid Hh. rewrite kc_covered_eq by (rewrite lenN_app, lenN_le_bytes; lia).
  replace (skipn 4 (le_bytes 4 v ++ entry 1 id ++ entry 2 h ++ rest)) with (entry 1 id ++ entry 2 h ++ rest).
  2:{ change 4%nat with (length (le_bytes 4 v)). now rewrite skipn_app, skipn_all, Nat.sub_diag. }
  rewrite <- !ent_entry.
  rewrite hwalk_ent; [|lia | apply nonempty_app; lia]. change (1 =? 2) with false. cbv iota.
  rewrite hwalk_ent; [|lia | apply nonempty_app; lia]. reflexivity.
Qed.

Lemma covered_blob c h : fits c -> 0 < lenN h <= 65535 -> kc_covered (blob_with c h) = Ok (spec_tail c).
Proof.
  intros Hfit Hh. unfold blob_with. rewrite covered_head; [|unfold spec_key_id; rewrite lenN_sha256; lia | exact Hh].
  now apply hwalk_tail.
Qed.

(* ------------------------------------------------------------------ NewKeyCredential *)

Lemma dt_exact now t : (0 < t < 2 ^ 64)%Z -> new_datetime_go now t = dt_of t.
Proof. apply new_datetime_exact. Qed.

Lemma zeros32 : lenN (repeatN 0 32) = 32.
Proof. reflexivity. Qed.

Theorem build_spec now c :
  cred_ok c -> fits c ->
  kc_build now c = Ok (built c (spec_key_hash c) (blob_with c (repeatN 0 32)) 0).
Proof.
  intros Hok Hfit. pose proof Hok as (_ & _ & _ & _ & _ & _ & _ & Hll & Hcr).
  unfold kc_build, new_key_credential. rewrite !dt_exact by assumption.
  rewrite rsa_to_bytes_spec, identifier_spec.
  change (mkKc (sVersion c) (spec_identifier c) [] (rsa_of c) 1 [] 0 (mkCki 1 0 0 false 0 0 [] [] 0) (sDevice c)
            (dt_of (sLastLogon c)) (dt_of (sCreation c)) []) with (built c [] [] 0).
  unfold compute_key_hash. change (lenN (kRaw (built c [] [] 0)) <? 4) with true. cbv iota.
  rewrite to_bytes_built by (try assumption; cbn; lia).
  change (lenN (@nil N) =? 0) with true. cbv iota.
  rewrite covered_blob by (try assumption; rewrite zeros32; lia). cbn [bind fst snd]. reflexivity.
Qed.

(* ------------------------------------------------------------------ FromBytes *)

Lemma apply_entry_1 now k d : apply_entry now k 1 d = Ok (set_identifier k (id_from_binary d (kVersion k))).
Proof. reflexivity. Qed.
Lemma apply_entry_2 now k d : apply_entry now k 2 d = Ok (set_keyhash k d).
Proof. reflexivity. Qed.
Lemma apply_entry_3 now k d :
  apply_entry now k 3 d = match rsa_from_bytes d with Ok r => Ok (set_rsa k r) | Err => Ok k | Panic => Panic end.
Proof. reflexivity. Qed.
Lemma apply_entry_4 now k u : apply_entry now k 4 [u] = Ok (set_usage k u).
Proof. reflexivity. Qed.
Lemma apply_entry_5 now k s : apply_entry now k 5 [s] = Ok (set_source k s).
Proof. reflexivity. Qed.
Lemma apply_entry_6 now k d :
  apply_entry now k 6 d = match guid_from_raw d with Ok g => Ok (set_device k g) | Err => Ok k | Panic => Panic end.
Proof. reflexivity. Qed.
Lemma apply_entry_7 now k d :
  apply_entry now k 7 d = let* r := cki_from_bytes (kCki k) d in Ok (set_cki k (fst r)).
Proof. reflexivity. Qed.
Lemma apply_entry_8 now k d :
  apply_entry now k 8 d =
  let* dt := convert_from_binary_time_go now d (Z.of_N (kSource k)) (Z.of_N (kVersion k)) in Ok (set_lastlogon k dt).
Proof. reflexivity. Qed.
Lemma apply_entry_9 now k d :
  apply_entry now k 9 d =
  let* dt := convert_from_binary_time_go now d (Z.of_N (kSource k)) (Z.of_N (kVersion k)) in Ok (set_creation k dt).
Proof. reflexivity. Qed.

Lemma ticks_read now t src ver :
  (0 < t < 2 ^ 64)%Z -> convert_from_binary_time_go now (spec_ticks t) src ver = Ok (dt_of t).
Proof.
  intros Ht. unfold spec_ticks. rewrite <- (app_nil_r (le_bytes 8 _)).
  apply (convert_from_binary_time_exact now t [] src ver Ht).
Qed.

(* the head of a blob followed by ANY bytes: FromBytes reads version, identifier and hash, then walks the rest *)
Lemma from_bytes_head now v id h rest :
  v < 2 ^ 32 -> 0 < lenN id <= 65535 -> 0 < lenN h <= 65535 ->
  let raw := le_bytes 4 v ++ entry 1 id ++ entry 2 h ++ rest in
  kc_from_bytes now zero_kc raw =
  walk now (set_keyhash (set_identifier (set_version (set_raw zero_kc raw) v) (id_from_binary id v)) h) rest.
Proof.
  intros Hv Hid Hh raw. unfold kc_from_bytes.
  assert (H4 : 4 <= lenN raw) by (unfold raw; rewrite lenN_app, lenN_le_bytes; lia).
  rewrite ver_from_bytes_ok by exact H4.
  assert (Ef : firstn 4 raw = le_bytes 4 v).
  { unfold raw. change 4%nat with (length (le_bytes 4 v)) at 1. now rewrite firstn_app, firstn_all, Nat.sub_diag, app_nil_r. }
  rewrite Ef, le_val_le_bytes. change (2 ^ (8 * N.of_nat 4)) with (2 ^ 32). rewrite N.mod_small by exact Hv.
  cbn [bind]. rewrite go_from_ok by exact H4.
  assert (Es : skipn (N.to_nat 4) raw = entry 1 id ++ entry 2 h ++ rest).
  { unfold raw. change (N.to_nat 4) with (length (le_bytes 4 v)). now rewrite skipn_app, skipn_all, Nat.sub_diag. }
  rewrite Es. cbn [bind]. fold (walk now (set_version (set_raw zero_kc raw) v) (entry 1 id ++ entry 2 h ++ rest)).
  rewrite <- !ent_entry.
  rewrite walk_ent; [|lia | apply nonempty_app; lia]. rewrite apply_entry_1. cbn [bind].
  rewrite walk_ent; [|lia | apply nonempty_app; lia]. rewrite apply_entry_2. cbn [bind].
  reflexivity.
Qed.

(* the entries of a credential, read into any structure *)
Lemma walk_tail now k c :
  cred_ok c -> fits c ->
  walk now k (spec_tail c) =
  Ok (set_creation (set_lastlogon (set_cki (set_device (set_source (set_usage (set_rsa k (rsa_of c)) 1) 0) (sDevice c))
        (cset_flags (cset_version (cset_rawsize (kCki k) 2) 1) 0)) (dt_of (sLastLogon c))) (dt_of (sCreation c))).
Proof.
  intros Hok Hfit. pose proof Hok as (_ & _ & _ & _ & _ & _ & Hg & Hll & Hcr).
  unfold spec_tail. rewrite <- !ent_entry.
  assert (Hrsa : 0 < lenN (spec_rsa_blob c)).
  { rewrite <- rsa_to_bytes_spec, lenN_rsa_to_bytes. lia. }
  rewrite walk_ent; [|exact Hfit | now apply nonempty_app].
  rewrite apply_entry_3, <- rsa_to_bytes_spec, rsa_roundtrip by (now apply cred_rsa_ok). cbn [bind].
  rewrite walk_ent; [|small_len | discriminate]. rewrite apply_entry_4. cbn [bind].
  rewrite walk_ent; [|small_len | discriminate]. rewrite apply_entry_5. cbn [bind].
  rewrite walk_ent; [|rewrite lenN_spec_guid; lia | apply nonempty_app; rewrite lenN_spec_guid; lia].
  rewrite apply_entry_6. change (spec_guid (sDevice c)) with (guid_to_bytes (sDevice c)).
  rewrite guid_roundtrip by exact Hg. cbn [bind].
  rewrite walk_ent; [|small_len | discriminate]. rewrite apply_entry_7, cki_from_bytes_fresh. cbn [bind fst].
  rewrite walk_ent; [|rewrite lenN_spec_ticks; lia | apply nonempty_app; rewrite lenN_spec_ticks; lia].
  rewrite apply_entry_8, ticks_read by exact Hll. cbn [bind].
  rewrite <- (app_nil_r (ent 9 _)).
  rewrite walk_ent; [|rewrite lenN_spec_ticks; lia | apply nonempty_app; rewrite lenN_spec_ticks; lia].
  rewrite apply_entry_9, ticks_read by exact Hcr. cbn [bind].
  apply walk_short. cbn [length]. lia.
Qed.

Theorem from_bytes_spec now c :
  cred_ok c -> fits c ->
  kc_from_bytes now zero_kc (spec_blob c) = Ok (built c (spec_key_hash c) (spec_blob c) 2).
Proof.
  intros Hok Hfit. pose proof Hok as (Hv & _).
  rewrite <- blob_with_hash. unfold blob_with at 1.
  rewrite from_bytes_head; [|exact Hv | unfold spec_key_id; rewrite lenN_sha256; lia
                            | unfold spec_key_hash; rewrite lenN_sha256; lia].
  rewrite walk_tail by assumption. fold (blob_with c (spec_key_hash c)).
  fold (compute_hash (spec_rsa_blob c)) (compute_key_identifier (spec_rsa_blob c) (sVersion c)).
  unfold spec_key_id. fold (compute_hash (spec_rsa_blob c)).
  fold (compute_key_identifier (spec_rsa_blob c) (sVersion c)). rewrite identifier_spec.
  reflexivity.
Qed.

(* ------------------------------------------------------------------ CheckIntegrity *)

Lemma integrity_built c raw sz h :
  fits c -> 0 < lenN h <= 65535 -> raw = blob_with c h ->
  check_integrity (built c (spec_key_hash c) raw sz) = Ok (true, built c (spec_key_hash c) raw sz).
Proof.
  intros Hfit Hh ->. unfold check_integrity, compute_key_hash.
  set (k := built c (spec_key_hash c) (blob_with c h) sz).
  change (kRaw k) with (blob_with c h).
  destruct (N.ltb_spec (lenN (blob_with c h)) 4) as [H|_].
  { unfold blob_with in H. rewrite lenN_app, lenN_le_bytes in H. lia. }
  rewrite covered_blob by assumption. cbn [bind fst snd].
  change (kKeyHash k) with (spec_key_hash c). unfold compute_hash. fold (spec_key_hash c).
  assert (E : bytes_eqb (spec_key_hash c) (spec_key_hash c) = true) by now apply bytes_eqb_spec.
  now rewrite E.
Qed.

(* ------------------------------------------------------------------ the round trip *)

Theorem roundtrip now now' c :
  cred_ok c -> fits c ->
  exists k k',
    kc_build now c = Ok k /\
    kc_to_bytes k = Ok (spec_blob c) /\
    check_integrity k = Ok (true, k) /\
    kc_from_bytes now' zero_kc (spec_blob c) = Ok k' /\
    kc_obs k' = kc_obs k /\
    kc_to_bytes k' = Ok (spec_blob c) /\
    check_integrity k' = Ok (true, k') /\
    kc_obs k = (sVersion c, spec_identifier c, spec_key_hash c, rsa_of c, (1, [], 0), (1, 0), sDevice c,
                dt_of (sLastLogon c), dt_of (sCreation c)).
Proof.
  intros Hok Hfit.
  assert (Hh : 0 < lenN (spec_key_hash c) <= 65535) by (unfold spec_key_hash; rewrite lenN_sha256; lia).
  assert (Hne : (lenN (spec_key_hash c) =? 0) = false) by (destruct (N.eqb_spec (lenN (spec_key_hash c)) 0); [lia | reflexivity]).
  exists (built c (spec_key_hash c) (blob_with c (repeatN 0 32)) 0), (built c (spec_key_hash c) (spec_blob c) 2).
  split; [now apply build_spec|].
  split; [rewrite to_bytes_built by (try assumption; lia); now rewrite Hne, blob_with_hash|].
  split; [apply (integrity_built c _ 0 (repeatN 0 32)); [assumption | rewrite zeros32; lia | reflexivity]|].
  split; [now apply from_bytes_spec|].
  split; [reflexivity|].
  split; [rewrite to_bytes_built by (try assumption; lia); now rewrite Hne, blob_with_hash|].
  split; [apply (integrity_built c _ 2 (spec_key_hash c)); [assumption | exact Hh | now rewrite blob_with_hash]|].
  reflexivity.
Qed.

(* a key that the 16-bit entry length cannot describe is refused, not mis-encoded *)
Theorem oversize_refused now c :
  cred_ok c -> ~ fits c ->
  exists k, kc_build now c = Ok k /\ kKeyHash k = [] /\ kc_to_bytes k = Err.
Proof.
  intros Hok Hnf. pose proof Hok as (_ & _ & _ & _ & _ & _ & _ & Hll & Hcr).
  assert (Hbig : 65535 < lenN (spec_rsa_blob c)) by (unfold fits in Hnf; lia).
  assert (Eerr : forall h raw sz, lenN h <= 65535 -> kc_to_bytes (built c h raw sz) = Err).
  { intros h raw sz Hh. unfold kc_to_bytes, built.
    cbn [kVersion kIdentifier kKeyHash kRsa kUsage kLegacy kSource kCki kDevice kLastLogon kCreation].
    destruct (N.eqb_spec (lenN (spec_identifier c)) 0) as [H|_]; [now apply identifier_nonempty in H|].
    rewrite key_id_roundtrip. cbn [bind].
    rewrite write_entry_ok by (unfold spec_key_id; rewrite lenN_sha256; lia). cbn [bind].
    rewrite write_entry_ok by (destruct (lenN h =? 0); [small_len | exact Hh]). cbn [bind].
    rewrite rsa_to_bytes_spec. unfold write_entry at 1.
    destruct (N.ltb_spec 65535 (lenN (spec_rsa_blob c))); [reflexivity | lia]. }
  exists (built c [] [] 0). split; [|split; [reflexivity | apply Eerr; cbn; lia]].
  unfold kc_build, new_key_credential. rewrite !dt_exact by assumption.
  rewrite rsa_to_bytes_spec, identifier_spec.
  change (mkKc (sVersion c) (spec_identifier c) [] (rsa_of c) 1 [] 0 (mkCki 1 0 0 false 0 0 [] [] 0) (sDevice c)
            (dt_of (sLastLogon c)) (dt_of (sCreation c)) []) with (built c [] [] 0).
  unfold compute_key_hash. change (lenN (kRaw (built c [] [] 0)) <? 4) with true. cbv iota.
  rewrite Eerr by (cbn; lia). reflexivity.
Qed.
