(* Decidable obligations of C05 on the layouts regenerated from the Go source. *)
From Coq Require Import List NArith ZArith String Bool.
From Mant Require Import Prim.R Prim.Bytes Model.SmbTypes Model.SmbBlocks Model.SmbLayout Model.SmbAnalysis
  Model.SmbKnown Spec.C04 Spec.C05 Gen.SmbLayouts.
Import ListNotations.
Open Scope string_scope.

(* every integer emitted big-endian (or with a width other than the declared one) by the current tree is
   one of the recorded findings *)
Lemma enc_known_ok : incl_b (flat_map enc_mismatches all_cmds) known_enc = true.
Proof. vm_cast_no_check (@eq_refl bool true). Qed.

(* structures of the all-integer fragment that conform today: all multi-byte integers little-endian *)
Definition conforming (c : cmd_desc) : bool :=
  simple_fixed c && match int_fields (cd_marshal c) with Some fs => all_le fs | None => false end.

(* the full-strength statement is FALSE on the unchanged tree: FlushRequest.FID = 0x0102 goes out as 01 02 *)
Lemma be_refuted :
  match cmd_marshal cmd_FlushRequest cstate_new [("FID", FInt 258)] with
  | Ok (bs, _, _) => negb (bytes_eqb bs (cifs_encode_fixed [2%nat] [258%N]))
  | _ => false
  end = true.
Proof. vm_cast_no_check (@eq_refl bool true). Qed.

(* AndX offset and SMB_FILE_ATTRIBUTES are big-endian (both pinned by tests) *)
Lemma andx_refuted : andx_marshal [117; 0; 258]%N = [117; 0; 1; 2]%N.
Proof. vm_compute. reflexivity. Qed.
Lemma fileattr_refuted : fileattr_marshal 258%N = [1; 2]%N.
Proof. vm_compute. reflexivity. Qed.
