(* Structural facts about the reference algorithms of Algo/*.v: output lengths, byte
   well-formedness, decode-after-encode identities of the text codecs.  (The published test
   vectors are in Properties/ALGO.v.)  No cryptographic property is claimed. *)
From Coq Require Import List Arith NArith ZArith Lia Bool.
From Coq Require Import ZifyN ZifyNat ZifyBool.
From Mant Require Import Prim.Bytes.
From Mant Require Import Algo.Word Algo.MD4 Algo.MD5 Algo.SHA1 Algo.SHA256 Algo.HMAC Algo.PBKDF2
  Algo.DES Algo.AES Algo.RC4 Algo.CMAC Algo.Base64 Algo.Utf16 Algo.Utf8.
Import ListNotations.
Open Scope N_scope.

(* lia understands division and remainder by constants *)
Ltac Zify.zify_post_hook ::= Z.div_mod_to_equations.

(* case analysis on every N comparison in the goal *)
Ltac ncases :=
  repeat match goal with
    | |- context [if ?a =? ?b then _ else _] => destruct (N.eqb_spec a b)
    | |- context [if ?a <? ?b then _ else _] => destruct (N.ltb_spec a b)
    | |- context [if ?a <=? ?b then _ else _] => destruct (N.leb_spec a b)
    | |- context [?a <=? ?b] => destruct (N.leb_spec a b)
    | |- context [?a <? ?b] => destruct (N.ltb_spec a b)
    | |- context [?a =? ?b] => destruct (N.eqb_spec a b)
    end;
  cbn [andb orb negb].

(* ------------------------------------------------------------------ *)
(* hash output lengths and well-formedness *)

Lemma wf_bytes_app_intro a b : wf_bytes a -> wf_bytes b -> wf_bytes (a ++ b).
Proof. intros; apply wf_bytes_app; split; assumption. Qed.

Lemma md4_length msg : length (md4 msg) = 16%nat.
Proof. unfold md4, md4_output. destruct (md4_blocks _ _) as [[[a b] c] d]. reflexivity. Qed.

Lemma md4_wf msg : wf_bytes (md4 msg).
Proof.
  unfold md4, md4_output. destruct (md4_blocks _ _) as [[[a b] c] d].
  repeat apply wf_bytes_app_intro; apply wf_word_le.
Qed.

Lemma md4_pad_length msg : Nat.modulo (length (md4_pad msg)) 64 = 0%nat.
Proof. apply md_pad_le_length. Qed.

Lemma md5_length msg : length (md5 msg) = 16%nat.
Proof. unfold md5, md5_output. destruct (md5_blocks _ _) as [[[a b] c] d]. reflexivity. Qed.

Lemma md5_wf msg : wf_bytes (md5 msg).
Proof.
  unfold md5, md5_output. destruct (md5_blocks _ _) as [[[a b] c] d].
  repeat apply wf_bytes_app_intro; apply wf_word_le.
Qed.

Lemma sha1_length msg : length (sha1 msg) = 20%nat.
Proof. unfold sha1, sha1_output. destruct (sha1_blocks _ _) as [[[[a b] c] d] e]. reflexivity. Qed.

Lemma sha1_wf msg : wf_bytes (sha1 msg).
Proof.
  unfold sha1, sha1_output. destruct (sha1_blocks _ _) as [[[[a b] c] d] e].
  repeat apply wf_bytes_app_intro; apply wf_word_be.
Qed.

Lemma sha256_length msg : length (sha256 msg) = 32%nat.
Proof.
  unfold sha256, sha256_output. destruct (sha256_blocks _ _) as [[[[[[[a b] c] d] e] f] g] h]. reflexivity.
Qed.

Lemma sha256_wf msg : wf_bytes (sha256 msg).
Proof.
  unfold sha256, sha256_output. destruct (sha256_blocks _ _) as [[[[[[[a b] c] d] e] f] g] h].
  repeat apply wf_bytes_app_intro; apply wf_word_be.
Qed.

(* ------------------------------------------------------------------ *)
(* HMAC *)

Lemma hmac_length (H : list N -> list N) (n : nat) :
  (forall x, length (H x) = n) -> forall B key text, length (hmac H B key text) = n.
Proof. intros HH B key text. unfold hmac. apply HH. Qed.

Lemma hmac_wf (H : list N -> list N) :
  (forall x, wf_bytes (H x)) -> forall B key text, wf_bytes (hmac H B key text).
Proof. intros HH B key text. unfold hmac. apply HH. Qed.

Lemma hmac_md5_length key text : length (hmac_md5 key text) = 16%nat.
Proof. apply hmac_length, md5_length. Qed.
Lemma hmac_sha1_length key text : length (hmac_sha1 key text) = 20%nat.
Proof. apply hmac_length, sha1_length. Qed.
Lemma hmac_sha256_length key text : length (hmac_sha256 key text) = 32%nat.
Proof. apply hmac_length, sha256_length. Qed.
Lemma hmac_md5_wf key text : wf_bytes (hmac_md5 key text).
Proof. apply hmac_wf, md5_wf. Qed.
Lemma hmac_sha1_wf key text : wf_bytes (hmac_sha1 key text).
Proof. apply hmac_wf, sha1_wf. Qed.
Lemma hmac_sha256_wf key text : wf_bytes (hmac_sha256 key text).
Proof. apply hmac_wf, sha256_wf. Qed.

(* the padded HMAC key is exactly one block when the hash output fits in a block *)
Lemma hmac_key_length (H : list N -> list N) (n B : nat) key :
  (forall x, length (H x) = n) -> (n <= B)%nat -> length (hmac_key H B key) = B.
Proof.
  intros HH Hn. unfold hmac_key. rewrite app_length, length_zeros.
  destruct (Nat.ltb_spec B (length key)); [rewrite HH|]; lia.
Qed.

(* ------------------------------------------------------------------ *)
(* PBKDF2 *)

Section PBKDF2_facts.
  Variable prf : list N -> list N.
  Variable hLen : nat.
  Hypothesis prf_length : forall t, length (prf t) = hLen.

  Lemma pbkdf2_F_length S c i : length (pbkdf2_F prf S c i) = hLen.
  Proof.
    unfold pbkdf2_F.
    set (u1 := prf (S ++ be_bytes 4 i)).
    assert (Inv : length (fst (N.iter (c - 1) (pbkdf2_step prf) (u1, u1))) = hLen /\
                  length (snd (N.iter (c - 1) (pbkdf2_step prf) (u1, u1))) = hLen).
    { apply N.iter_invariant.
      - intros [u a] [Hu Ha]. cbn [fst snd pbkdf2_step] in *. split.
        + apply prf_length.
        + rewrite length_xor_bytes. exact Ha.
      - cbn [fst snd]. split; apply prf_length. }
    apply Inv.
  Qed.

  Lemma pbkdf2_blocks_length S c i l : length (pbkdf2_blocks prf S c i l) = (l * hLen)%nat.
  Proof.
    revert i; induction l as [|l IH]; intros i; cbn [pbkdf2_blocks].
    - reflexivity.
    - rewrite app_length, pbkdf2_F_length, IH. lia.
  Qed.

  Hypothesis prf_wf : forall t, wf_bytes (prf t).

  Lemma pbkdf2_F_wf S c i : wf_bytes (pbkdf2_F prf S c i).
  Proof.
    unfold pbkdf2_F.
    set (u1 := prf (S ++ be_bytes 4 i)).
    assert (Inv : wf_bytes (snd (N.iter (c - 1) (pbkdf2_step prf) (u1, u1)))).
    { apply (N.iter_invariant (c - 1) _ (pbkdf2_step prf) (fun ua => wf_bytes (snd ua))).
      - intros [u a] Ha. cbn [fst snd pbkdf2_step] in *. apply wf_xor_bytes; [exact Ha | apply prf_wf].
      - cbn [snd]. apply prf_wf. }
    exact Inv.
  Qed.

  Lemma pbkdf2_blocks_wf S c i l : wf_bytes (pbkdf2_blocks prf S c i l).
  Proof.
    revert i; induction l as [|l IH]; intros i; cbn [pbkdf2_blocks].
    - constructor.
    - apply wf_bytes_app_intro; [apply pbkdf2_F_wf | apply IH].
  Qed.
End PBKDF2_facts.

Lemma pbkdf2_length (PRF : list N -> list N -> list N) (hLen : nat) :
  (forall k t, length (PRF k t) = hLen) -> (0 < hLen)%nat ->
  forall P S c dkLen, length (pbkdf2 PRF hLen P S c dkLen) = dkLen.
Proof.
  intros HL Hpos P S c dkLen. unfold pbkdf2.
  rewrite firstn_length, (pbkdf2_blocks_length (PRF P) hLen (HL P)).
  apply Nat.min_l.
  assert (E := Nat.div_mod (dkLen + hLen - 1) hLen ltac:(lia)).
  assert (L := Nat.mod_upper_bound (dkLen + hLen - 1) hLen ltac:(lia)).
  nia.
Qed.

Lemma pbkdf2_wf (PRF : list N -> list N -> list N) (hLen : nat) :
  (forall k t, wf_bytes (PRF k t)) ->
  forall P S c dkLen, wf_bytes (pbkdf2 PRF hLen P S c dkLen).
Proof.
  intros HW P S c dkLen. unfold pbkdf2. apply wf_bytes_firstn. apply pbkdf2_blocks_wf. apply HW.
Qed.

(* PBKDF2 only depends on the PRF extensionally *)
Lemma N_iter_ext {A} (f g : A -> A) : (forall x, f x = g x) -> forall n x, N.iter n f x = N.iter n g x.
Proof.
  intros H n x. induction n as [|n IH] using N.peano_ind.
  - reflexivity.
  - rewrite !N.iter_succ, IH. apply H.
Qed.

Lemma pbkdf2_ext (PRF1 PRF2 : list N -> list N -> list N) :
  (forall k t, PRF1 k t = PRF2 k t) ->
  forall hLen P S c dkLen, pbkdf2 PRF1 hLen P S c dkLen = pbkdf2 PRF2 hLen P S c dkLen.
Proof.
  intros H hLen P S c dkLen. unfold pbkdf2. f_equal.
  generalize (Nat.div (dkLen + hLen - 1) hLen) as l. generalize 1 as i.
  intros i l; revert i; induction l as [|l IH]; intros i; cbn [pbkdf2_blocks]; [reflexivity|].
  rewrite IH. f_equal. unfold pbkdf2_F. rewrite H. f_equal.
  apply N_iter_ext. intros [u a]. unfold pbkdf2_step. cbn [fst snd]. now rewrite H.
Qed.

(* ------------------------------------------------------------------ *)
(* the keyed (precomputed) form of HMAC-SHA-1 equals HMAC-SHA-1 *)

Lemma words_be_block64 k rest : length k = 64%nat ->
  words_be (k ++ rest) = words_be k ++ words_be rest.
Proof.
  intros H.
  do 64 (destruct k as [|? k]; [discriminate H|]). destruct k; [|discriminate H].
  reflexivity.
Qed.

Lemma length_words_be_block64 k : length k = 64%nat -> length (words_be k) = 16%nat.
Proof.
  intros H.
  do 64 (destruct k as [|? k]; [discriminate H|]). destruct k; [|discriminate H].
  reflexivity.
Qed.

Lemma fold_blocks16_first {S} (f : S -> list N -> S) st blk rest : length blk = 16%nat ->
  fold_blocks16 f st (blk ++ rest) = fold_blocks16 f (f st blk) rest.
Proof.
  intros H.
  do 16 (destruct blk as [|? blk]; [discriminate H|]). destruct blk; [|discriminate H].
  reflexivity.
Qed.

Lemma sha1_prefix_block k m : length k = 64%nat ->
  sha1 (k ++ m) = sha1_finish (sha1_compress sha1_init (words_be k)) 64 m.
Proof.
  intros H. unfold sha1, sha1_finish, sha1_pad, sha1_blocks.
  rewrite md_pad_be_app, words_be_block64 by exact H.
  rewrite fold_blocks16_first by now apply length_words_be_block64.
  replace (lenN k) with 64 by (unfold lenN; rewrite H; reflexivity).
  reflexivity.
Qed.

Lemma hmac_sha1_keyed_eq key text : hmac_sha1_keyed key text = hmac_sha1 key text.
Proof.
  unfold hmac_sha1_keyed, hmac_sha1, hmac.
  assert (Hk : length (hmac_key sha1 64 key) = 64%nat)
    by (apply (hmac_key_length sha1 20 64 key sha1_length); lia).
  rewrite !sha1_prefix_block by (unfold hmac_ipad, hmac_opad; rewrite map_length; exact Hk).
  reflexivity.
Qed.

Lemma pbkdf2_hmac_sha1_length P S c dkLen : length (pbkdf2_hmac_sha1 P S c dkLen) = dkLen.
Proof. apply pbkdf2_length; [apply hmac_sha1_length | lia]. Qed.
Lemma pbkdf2_hmac_sha1_wf P S c dkLen : wf_bytes (pbkdf2_hmac_sha1 P S c dkLen).
Proof. apply pbkdf2_wf, hmac_sha1_wf. Qed.
Lemma pbkdf2_hmac_sha1_fast_eq P S c dkLen :
  pbkdf2_hmac_sha1_fast P S c dkLen = pbkdf2_hmac_sha1 P S c dkLen.
Proof. apply pbkdf2_ext, hmac_sha1_keyed_eq. Qed.
Lemma pbkdf2_hmac_sha256_length P S c dkLen : length (pbkdf2_hmac_sha256 P S c dkLen) = dkLen.
Proof. apply pbkdf2_length; [apply hmac_sha256_length | lia]. Qed.

(* ------------------------------------------------------------------ *)
(* DES: one block in, 8 well-formed bytes out (for every key schedule and every input) *)

Lemma des_crypt_length ks block : length (des_crypt ks block) = 8%nat.
Proof.
  unfold des_crypt. destruct (des_rounds _ _ _) as [L R].
  unfold permute, des_IP_inv. cbn [map bits_to_bytes length]. reflexivity.
Qed.

Lemma bits_to_bytes_wf l : wf_bytes (bits_to_bytes l).
Proof.
  unfold wf_bytes.
  assert (H : forall n l, (length l <= n)%nat -> Forall (fun b => b < 256) (bits_to_bytes l)).
  { induction n as [|n IH]; intros l0 Hl.
    - destruct l0; [constructor | cbn in Hl; lia].
    - destruct l0 as [|b7 [|b6 [|b5 [|b4 [|b3 [|b2 [|b1 [|b0 r]]]]]]]]; cbn [bits_to_bytes]; try constructor.
      + destruct b7, b6, b5, b4, b3, b2, b1, b0; cbn; lia.
      + apply IH. cbn [length] in Hl. lia. }
  apply (H (length l)). lia.
Qed.

Lemma des_crypt_wf ks block : wf_bytes (des_crypt ks block).
Proof. unfold des_crypt. destruct (des_rounds _ _ _) as [L R]. apply bits_to_bytes_wf. Qed.

Lemma des_encrypt_length key block : length (des_encrypt key block) = 8%nat.
Proof. apply des_crypt_length. Qed.
Lemma des_decrypt_length key block : length (des_decrypt key block) = 8%nat.
Proof. apply des_crypt_length. Qed.
Lemma des_encrypt_wf key block : wf_bytes (des_encrypt key block).
Proof. apply des_crypt_wf. Qed.
Lemma des_decrypt_wf key block : wf_bytes (des_decrypt key block).
Proof. apply des_crypt_wf. Qed.

(* str_to_key: 7 bytes -> 8 bytes, each of odd parity, parity bit aside equal to the 56 key bits *)
Lemma str_to_key_length k7 : length k7 = 7%nat -> length (str_to_key k7) = 8%nat.
Proof.
  intros H. destruct k7 as [|a [|b [|c [|d [|e [|f [|g [|h r]]]]]]]]; try discriminate H.
  reflexivity.
Qed.

Lemma expand7_wf l : wf_bytes (expand7 l).
Proof.
  unfold wf_bytes.
  assert (H : forall n l, (length l <= n)%nat -> Forall (fun b => b < 256) (expand7 l)).
  { induction n as [|n IH]; intros l0 Hl.
    - destruct l0; [constructor | cbn in Hl; lia].
    - destruct l0 as [|b7 [|b6 [|b5 [|b4 [|b3 [|b2 [|b1 r]]]]]]]; cbn [expand7]; try constructor.
      + destruct b7, b6, b5, b4, b3, b2, b1; cbn; lia.
      + apply IH. cbn [length] in Hl. lia. }
  apply (H (length l)). lia.
Qed.

Lemma str_to_key_wf k7 : wf_bytes (str_to_key k7).
Proof. apply expand7_wf. Qed.

(* ------------------------------------------------------------------ *)
(* AES: a 16-byte block stays a 16-byte block *)

Ltac list16 st H :=
  destruct st as [|? [|? [|? [|? [|? [|? [|? [|? [|? [|? [|? [|? [|? [|? [|? [|? [|? ?]]]]]]]]]]]]]]]]];
  try discriminate H.

Lemma length_add_round_key st rk : length (add_round_key st rk) = length st.
Proof. apply length_xor_bytes. Qed.
Lemma length_sub_bytes st : length (sub_bytes st) = length st.
Proof. apply map_length. Qed.
Lemma length_inv_sub_bytes st : length (inv_sub_bytes st) = length st.
Proof. apply map_length. Qed.
Lemma length_shift_rows st : length (shift_rows st) = 16%nat.
Proof. reflexivity. Qed.
Lemma length_inv_shift_rows st : length (inv_shift_rows st) = 16%nat.
Proof. reflexivity. Qed.
Lemma length_mix_columns st : length st = 16%nat -> length (mix_columns st) = 16%nat.
Proof. intros H. list16 st H. reflexivity. Qed.
Lemma length_inv_mix_columns st : length st = 16%nat -> length (inv_mix_columns st) = 16%nat.
Proof. intros H. list16 st H. reflexivity. Qed.

Lemma cipher_rounds_length rks st : length st = 16%nat -> length (cipher_rounds rks st) = 16%nat.
Proof.
  revert st; induction rks as [|rk rks IH]; intros st H; [exact H|].
  cbn [cipher_rounds]. destruct rks as [|rk' rks'].
  - rewrite length_add_round_key. apply length_shift_rows.
  - apply IH. rewrite length_add_round_key. apply length_mix_columns, length_shift_rows.
Qed.

Lemma aes_cipher_length rks block : length block = 16%nat -> length (aes_cipher rks block) = 16%nat.
Proof.
  intros H. destruct rks as [|rk0 rks]; [exact H|].
  cbn [aes_cipher]. apply cipher_rounds_length. now rewrite length_add_round_key.
Qed.

Lemma inv_cipher_rounds_length rrks st : length st = 16%nat -> length (inv_cipher_rounds rrks st) = 16%nat.
Proof.
  revert st; induction rrks as [|rk rks IH]; intros st H; [exact H|].
  cbn [inv_cipher_rounds]. destruct rks as [|rk' rks'].
  - rewrite length_add_round_key, length_inv_sub_bytes. apply length_inv_shift_rows.
  - apply IH. apply length_inv_mix_columns.
    rewrite length_add_round_key, length_inv_sub_bytes. apply length_inv_shift_rows.
Qed.

Lemma aes_inv_cipher_length rrks block : length block = 16%nat -> length (aes_inv_cipher rrks block) = 16%nat.
Proof.
  intros H. destruct rrks as [|rk0 rks]; [exact H|].
  cbn [aes_inv_cipher]. apply inv_cipher_rounds_length. now rewrite length_add_round_key.
Qed.

Lemma aes_encrypt_length key block : length block = 16%nat -> length (aes_encrypt key block) = 16%nat.
Proof. apply aes_cipher_length. Qed.
Lemma aes_decrypt_length key block : length block = 16%nat -> length (aes_decrypt key block) = 16%nat.
Proof. apply aes_inv_cipher_length. Qed.

(* CBC over a list of blocks preserves the number and the size of the blocks *)
Lemma cbc_encrypt_blocks_length E iv blocks :
  length (cbc_encrypt_blocks E iv blocks) = length blocks.
Proof. revert iv; induction blocks as [|p r IH]; intros iv; cbn; [reflexivity | now rewrite IH]. Qed.
Lemma cbc_decrypt_blocks_length D iv blocks :
  length (cbc_decrypt_blocks D iv blocks) = length blocks.
Proof. revert iv; induction blocks as [|p r IH]; intros iv; cbn; [reflexivity | now rewrite IH]. Qed.

(* ------------------------------------------------------------------ *)
(* RC4: the output has the length of the data *)

Lemma rc4_prga_length S i j data : length (rc4_prga S i j data) = length data.
Proof. revert S i j; induction data as [|x r IH]; intros S i j; cbn [rc4_prga length]; [reflexivity | now rewrite IH]. Qed.

Lemma rc4_length key data : length (rc4 key data) = length data.
Proof. apply rc4_prga_length. Qed.

(* ------------------------------------------------------------------ *)
(* CMAC: the tag is one block of the underlying cipher *)

Lemma cmac_length (E : list N -> list N) (bsz : nat) :
  (forall x, length (E x) = bsz) -> forall msg, length (cmac_spec E bsz msg) = bsz.
Proof.
  intros HE msg. unfold cmac_spec, cmac. destruct (cmac_subkeys E bsz) as [K1 K2].
  generalize (zeros bsz) as C. generalize (chunks bsz msg) as blocks.
  induction blocks as [|m r IH]; intros C; cbn [cmac_loop].
  - apply HE.
  - destruct r as [|m' r'].
    + destruct (Nat.eqb _ _); apply HE.
    + apply IH.
Qed.

Lemma cmac_wf (E : list N -> list N) (bsz : nat) :
  (forall x, wf_bytes (E x)) -> forall msg, wf_bytes (cmac_spec E bsz msg).
Proof.
  intros HE msg. unfold cmac_spec, cmac. destruct (cmac_subkeys E bsz) as [K1 K2].
  generalize (zeros bsz) as C. generalize (chunks bsz msg) as blocks.
  induction blocks as [|m r IH]; intros C; cbn [cmac_loop].
  - apply HE.
  - destruct r as [|m' r'].
    + destruct (Nat.eqb _ _); apply HE.
    + apply IH.
Qed.

Lemma cmac_des_length key msg : length (cmac_des key msg) = 8%nat.
Proof. unfold cmac_des. apply (cmac_length (des_crypt (des_subkeys key)) 8). intros x. apply des_crypt_length. Qed.
Lemma cmac_des_wf key msg : wf_bytes (cmac_des key msg).
Proof. unfold cmac_des. apply (cmac_wf (des_crypt (des_subkeys key)) 8). intros x. apply des_crypt_wf. Qed.

(* ------------------------------------------------------------------ *)
(* Base64: decode (encode x) = Some x for every byte string *)

Lemma list_ind3 {A} (P : list A -> Prop) :
  P [] -> (forall a, P [a]) -> (forall a b, P [a; b]) ->
  (forall a b c r, P r -> P (a :: b :: c :: r)) -> forall l, P l.
Proof.
  intros H0 H1 H2 H3.
  fix IH 1. intros [|a [|b [|c r]]]; [exact H0 | apply H1 | apply H2 | apply H3, IH].
Qed.

Lemma b64_val_char v : v < 64 -> b64_val (b64_char v) = Some v.
Proof.
  intros Hv. unfold b64_char.
  destruct (N.ltb_spec v 26); [|destruct (N.ltb_spec v 52); [|destruct (N.ltb_spec v 62); [|destruct (N.eqb_spec v 62)]]];
    unfold b64_val; ncases; try lia; f_equal; lia.
Qed.

Lemma b64_char_not_newline v : b64_is_newline (b64_char v) = false.
Proof.
  assert (H : 43 <= b64_char v) by (unfold b64_char; ncases; lia).
  unfold b64_is_newline. destruct (N.eqb_spec (b64_char v) 10); [lia|].
  destruct (N.eqb_spec (b64_char v) 13); [lia|]. reflexivity.
Qed.

Lemma b64_val_pad : b64_val b64_pad = None.
Proof. reflexivity. Qed.

Lemma b64_encode_no_newline l :
  Forall (fun c => negb (b64_is_newline c) = true) (b64_encode l).
Proof.
  induction l as [| a | a b | a b c r IH] using list_ind3; cbn [b64_encode];
    repeat constructor; try (rewrite b64_char_not_newline; reflexivity); exact IH.
Qed.

Lemma filter_all_true {A} (f : A -> bool) l : Forall (fun x => f x = true) l -> filter f l = l.
Proof. induction 1 as [|x l Hx Hl IH]; cbn; [reflexivity | now rewrite Hx, IH]. Qed.

Lemma b64_decode_strict_encode l : wf_bytes l -> b64_decode_strict (b64_encode l) = Some l.
Proof.
  induction l as [| a | a b | a b c r IH] using list_ind3; intros Hwf.
  - reflexivity.
  - inversion_clear Hwf as [|? ? Ha _].
    cbn [b64_encode b64_decode_strict].
    rewrite !b64_val_char by lia. rewrite b64_val_pad. rewrite N.eqb_refl. cbn [andb].
    do 2 f_equal. lia.
  - inversion_clear Hwf as [|? ? Ha Hwf']. inversion_clear Hwf' as [|? ? Hb _].
    cbn [b64_encode b64_decode_strict].
    rewrite !b64_val_char by lia. rewrite b64_val_pad. rewrite N.eqb_refl.
    f_equal. f_equal; [lia|]. f_equal. lia.
  - inversion_clear Hwf as [|? ? Ha Hwf']. inversion_clear Hwf' as [|? ? Hb Hwf''].
    inversion_clear Hwf'' as [|? ? Hc Hr].
    cbn [b64_encode b64_decode_strict].
    rewrite !b64_val_char by lia. rewrite (IH Hr).
    f_equal. f_equal; [lia|]. f_equal; [lia|]. f_equal. lia.
Qed.

Lemma b64_decode_encode l : wf_bytes l -> b64_decode (b64_encode l) = Some l.
Proof.
  intros H. unfold b64_decode. rewrite filter_all_true by apply b64_encode_no_newline.
  now apply b64_decode_strict_encode.
Qed.

(* the encoding has length 4 * ceil(n / 3) *)
Lemma b64_encode_length l : length (b64_encode l) = (4 * ((length l + 2) / 3))%nat.
Proof.
  induction l as [| a | a b | a b c r IH] using list_ind3; try reflexivity.
  cbn [b64_encode length]. rewrite IH.
  replace (S (S (S (length r))) + 2)%nat with (1 * 3 + (length r + 2))%nat by lia.
  rewrite Nat.div_add_l by discriminate. lia.
Qed.

(* ------------------------------------------------------------------ *)
(* UTF-16: decode (encode cps) = cps for every list of Unicode scalar values *)

Lemma scalar_valueb_spec c : scalar_valueb c = true <-> scalar_value c.
Proof. unfold scalar_valueb, scalar_value. ncases; intuition (try lia; try discriminate). Qed.

Lemma utf16_decode_encode_cp c rest :
  scalar_value c -> utf16_decode (utf16_encode_cp c ++ rest) = c :: utf16_decode rest.
Proof.
  intros Hc. unfold scalar_value in Hc. unfold utf16_encode_cp.
  destruct (N.ltb_spec c 0x10000) as [Hlt|Hge].
  - assert (Hh : is_high_surrogate c = false) by (unfold is_high_surrogate; ncases; lia).
    assert (Hl : is_low_surrogate c = false) by (unfold is_low_surrogate; ncases; lia).
    rewrite Hh, Hl. cbn [orb app utf16_decode]. now rewrite Hh, Hl.
  - destruct (N.leb_spec c 0x10FFFF) as [Hle|Hgt]; [|lia].
    set (c' := c - 0x10000).
    assert (Hc' : c' < 0x100000) by (unfold c'; lia).
    assert (Hh : is_high_surrogate (0xD800 + c' / 0x400) = true) by (unfold is_high_surrogate; ncases; lia).
    assert (Hl : is_low_surrogate (0xDC00 + c' mod 0x400) = true) by (unfold is_low_surrogate; ncases; lia).
    cbn [app utf16_decode]. rewrite Hh, Hl. f_equal. unfold c'. lia.
Qed.

Lemma utf16_decode_encode cps : Forall scalar_value cps -> utf16_decode (utf16_encode cps) = cps.
Proof.
  induction 1 as [|c cps Hc Hcps IH]; [reflexivity|].
  unfold utf16_encode in *. cbn [flat_map]. rewrite utf16_decode_encode_cp by exact Hc. now rewrite IH.
Qed.

(* every code unit produced by the encoder fits in 16 bits *)
Lemma utf16_encode_cp_units c : Forall (fun u => u < 0x10000) (utf16_encode_cp c).
Proof.
  unfold utf16_encode_cp, replacement_char.
  destruct (N.ltb_spec c 0x10000); [destruct (_ || _); repeat constructor; lia|].
  destruct (N.leb_spec c 0x10FFFF); repeat constructor; lia.
Qed.

Lemma utf16_encode_units cps : Forall (fun u => u < 0x10000) (utf16_encode cps).
Proof.
  unfold utf16_encode. induction cps as [|c cps IH]; cbn [flat_map]; [constructor|].
  apply Forall_app; split; [apply utf16_encode_cp_units | exact IH].
Qed.

Lemma units_of_le_to_le us : Forall (fun u => u < 0x10000) us -> units_of_le (units_to_le us) = us.
Proof.
  induction 1 as [|u us Hu Hus IH]; [reflexivity|].
  unfold units_to_le in *. cbn [flat_map unit_le app units_of_le]. rewrite IH. f_equal. lia.
Qed.

Lemma utf16le_decode_encode cps : Forall scalar_value cps -> utf16le_decode (utf16le_encode cps) = cps.
Proof.
  intros H. unfold utf16le_decode, utf16le_encode.
  rewrite units_of_le_to_le by apply utf16_encode_units. now apply utf16_decode_encode.
Qed.

Lemma units_to_le_wf us : wf_bytes (units_to_le us).
Proof.
  unfold wf_bytes, units_to_le. induction us as [|u us IH]; cbn [flat_map unit_le app]; [constructor|].
  constructor; [lia|]. constructor; [lia|]. exact IH.
Qed.

Lemma utf16le_encode_wf cps : wf_bytes (utf16le_encode cps).
Proof. apply units_to_le_wf. Qed.

Lemma units_to_le_length us : length (units_to_le us) = (2 * length us)%nat.
Proof.
  unfold units_to_le. induction us as [|u us IH]; cbn [flat_map unit_le app length]; [reflexivity|].
  rewrite IH. lia.
Qed.

(* for code points of the Basic Multilingual Plane the encoding is one unit per code point *)
Lemma utf16_encode_bmp cps :
  Forall (fun c => c < 0xD800 \/ (0xE000 <= c /\ c < 0x10000)) cps -> utf16_encode cps = cps.
Proof.
  induction 1 as [|c cps Hc Hcps IH]; [reflexivity|].
  unfold utf16_encode in *. cbn [flat_map]. rewrite IH. unfold utf16_encode_cp.
  destruct (N.ltb_spec c 0x10000); [|lia].
  replace (is_high_surrogate c || is_low_surrogate c) with false; [reflexivity|].
  unfold is_high_surrogate, is_low_surrogate. ncases; try reflexivity; lia.
Qed.

(* ------------------------------------------------------------------ *)
(* UTF-8: decode (encode cps) = Some cps for every list of Unicode scalar values *)

Lemma utf8_decode_encode_cp c rest :
  scalar_value c -> utf8_decode (utf8_encode_cp c ++ rest) = option_map (cons c) (utf8_decode rest).
Proof.
  intros Hc. unfold scalar_value in Hc. unfold utf8_encode_cp.
  destruct (N.ltb_spec c 0x80) as [H1|H1].
  { cbn [app utf8_decode]. destruct (N.ltb_spec c 0x80); [reflexivity|lia]. }
  destruct (N.ltb_spec c 0x800) as [H2|H2].
  { cbn [app utf8_decode].
    destruct (N.ltb_spec (0xC0 + c / 64) 0x80); [lia|].
    replace (in_range 0xC2 0xDF (0xC0 + c / 64)) with true by (unfold in_range; ncases; lia).
    replace (utf8_tail (0x80 + c mod 64)) with true by (unfold utf8_tail; ncases; lia).
    replace ((0xC0 + c / 64 - 0xC0) * 64 + (0x80 + c mod 64 - 0x80)) with c by lia.
    reflexivity. }
  destruct (N.ltb_spec c 0x10000) as [H3|H3].
  { replace ((0xD800 <=? c) && (c <? 0xE000)) with false by (ncases; lia).
    cbn [app utf8_decode].
    set (b0 := 0xE0 + c / 4096). set (b1 := 0x80 + (c / 64) mod 64). set (b2 := 0x80 + c mod 64).
    assert (Hb0 : 0xE0 <= b0 <= 0xEF) by (unfold b0; lia).
    destruct (N.ltb_spec b0 0x80); [lia|].
    replace (in_range 0xC2 0xDF b0) with false by (unfold in_range; ncases; lia).
    replace (in_range 0xE0 0xEF b0) with true by (unfold in_range; ncases; lia).
    replace (in_range (if b0 =? 0xE0 then 0xA0 else 0x80) (if b0 =? 0xED then 0x9F else 0xBF) b1) with true
      by (unfold in_range, b0, b1; ncases; lia).
    replace (utf8_tail b2) with true by (unfold utf8_tail, b2; ncases; lia).
    cbn [andb].
    replace ((b0 - 0xE0) * 4096 + (b1 - 0x80) * 64 + (b2 - 0x80)) with c by (unfold b0, b1, b2; lia).
    reflexivity. }
  destruct (N.leb_spec c 0x10FFFF) as [H4|H4]; [|lia].
  cbn [app utf8_decode].
  set (b0 := 0xF0 + c / 262144). set (b1 := 0x80 + (c / 4096) mod 64).
  set (b2 := 0x80 + (c / 64) mod 64). set (b3 := 0x80 + c mod 64).
  assert (Hb0 : 0xF0 <= b0 <= 0xF4) by (unfold b0; lia).
  destruct (N.ltb_spec b0 0x80); [lia|].
  replace (in_range 0xC2 0xDF b0) with false by (unfold in_range; ncases; lia).
  replace (in_range 0xE0 0xEF b0) with false by (unfold in_range; ncases; lia).
  replace (in_range 0xF0 0xF4 b0) with true by (unfold in_range; ncases; lia).
  replace (in_range (if b0 =? 0xF0 then 0x90 else 0x80) (if b0 =? 0xF4 then 0x8F else 0xBF) b1) with true
    by (unfold in_range, b0, b1; ncases; lia).
  replace (utf8_tail b2) with true by (unfold utf8_tail, b2; ncases; lia).
  replace (utf8_tail b3) with true by (unfold utf8_tail, b3; ncases; lia).
  cbn [andb].
  replace ((b0 - 0xF0) * 262144 + (b1 - 0x80) * 4096 + (b2 - 0x80) * 64 + (b3 - 0x80)) with c
    by (unfold b0, b1, b2, b3; lia).
  reflexivity.
Qed.

Lemma utf8_decode_encode cps : Forall scalar_value cps -> utf8_decode (utf8_encode cps) = Some cps.
Proof.
  induction 1 as [|c cps Hc Hcps IH]; [reflexivity|].
  unfold utf8_encode in *. cbn [flat_map]. rewrite utf8_decode_encode_cp by exact Hc. now rewrite IH.
Qed.

Lemma utf8_encode_cp_wf c : wf_bytes (utf8_encode_cp c).
Proof.
  unfold wf_bytes, utf8_encode_cp.
  destruct (N.ltb_spec c 0x80); [repeat constructor; lia|].
  destruct (N.ltb_spec c 0x800); [repeat constructor; lia|].
  destruct (N.ltb_spec c 0x10000); [destruct (_ && _); repeat constructor; lia|].
  destruct (N.leb_spec c 0x10FFFF); repeat constructor; lia.
Qed.

Lemma utf8_encode_wf cps : wf_bytes (utf8_encode cps).
Proof.
  unfold utf8_encode. induction cps as [|c cps IH]; cbn [flat_map]; [constructor|].
  apply wf_bytes_app_intro; [apply utf8_encode_cp_wf | exact IH].
Qed.

(* ------------------------------------------------------------------ *)
(* RC4 output bytes are bytes (for every key, even an ill-formed one) *)

Definition rc4_state_wf (S : list N) : Prop := Forall (fun b => b < 256) S.

Lemma rc4_get_wf S i : rc4_state_wf S -> rc4_get S i < 256.
Proof.
  intros H. unfold rc4_get. generalize (N.to_nat i) as n.
  induction H as [|x S Hx HS IH]; intros [|n]; cbn [nth]; auto; lia.
Qed.

Lemma rc4_set_wf S i v : rc4_state_wf S -> v < 256 -> rc4_state_wf (rc4_set S i v).
Proof.
  intros H Hv. unfold rc4_set, rc4_state_wf in *. generalize (N.to_nat i) as n.
  induction H as [|x S Hx HS IH]; intros [|n]; cbn [rc4_set_nat]; constructor; auto.
Qed.

Lemma rc4_swap_wf S i j : rc4_state_wf S -> rc4_state_wf (rc4_swap S i j).
Proof. intros H. unfold rc4_swap. auto using rc4_set_wf, rc4_get_wf. Qed.

Lemma rc4_iota_wf n from : from + N.of_nat n <= 256 -> rc4_state_wf (rc4_iota n from).
Proof.
  revert from; induction n as [|n IH]; intros from H; cbn [rc4_iota]; constructor; [lia|].
  apply IH. lia.
Qed.

Lemma rc4_ksa_loop_wf n key keylen i j S : rc4_state_wf S -> rc4_state_wf (rc4_ksa_loop n key keylen i j S).
Proof.
  revert i j S; induction n as [|n IH]; intros i j S H; cbn [rc4_ksa_loop]; [exact H|].
  apply IH, rc4_swap_wf, H.
Qed.

Lemma rc4_ksa_wf key : rc4_state_wf (rc4_ksa key).
Proof. unfold rc4_ksa. apply rc4_ksa_loop_wf. apply rc4_iota_wf. reflexivity. Qed.

Lemma rc4_prga_wf S i j data : rc4_state_wf S -> wf_bytes data -> wf_bytes (rc4_prga S i j data).
Proof.
  intros HS Hd. revert S i j HS. induction Hd as [|x r Hx Hr IH]; intros S i j HS; cbn [rc4_prga].
  - constructor.
  - constructor.
    + apply lxor_byte; [exact Hx|]. apply rc4_get_wf, rc4_swap_wf, HS.
    + apply IH, rc4_swap_wf, HS.
Qed.

Lemma rc4_wf key data : wf_bytes data -> wf_bytes (rc4 key data).
Proof. intros H. apply rc4_prga_wf; [apply rc4_ksa_wf | exact H]. Qed.

(* ------------------------------------------------------------------ *)
(* AES output bytes are bytes when key and block are *)

Lemma nth_Forall {A} (P : A -> Prop) l n d : Forall P l -> P d -> P (nth n l d).
Proof. intros H Hd. revert n; induction H as [|x l Hx Hl IH]; intros [|n]; cbn [nth]; auto. Qed.

Lemma aes_sbox_wf : Forall (Forall (fun b => b < 256)) aes_sbox.
Proof. unfold aes_sbox. repeat constructor. Qed.
Lemma aes_inv_sbox_wf : Forall (Forall (fun b => b < 256)) aes_inv_sbox.
Proof. unfold aes_inv_sbox. repeat constructor. Qed.

Lemma box_lookup_wf box b : Forall (Forall (fun b => b < 256)) box -> box_lookup box b < 256.
Proof.
  intros H. unfold box_lookup.
  apply (nth_Forall (fun b => b < 256)); [|reflexivity].
  apply (nth_Forall (Forall (fun b => b < 256))); [exact H | constructor].
Qed.

Lemma sub_byte_wf b : sub_byte b < 256.
Proof. apply box_lookup_wf, aes_sbox_wf. Qed.
Lemma inv_sub_byte_wf b : inv_sub_byte b < 256.
Proof. apply box_lookup_wf, aes_inv_sbox_wf. Qed.

Lemma map_wf (f : N -> N) l : (forall b, f b < 256) -> wf_bytes (map f l).
Proof. intros H. unfold wf_bytes. induction l; cbn [map]; constructor; auto. Qed.

(* finite sweep over all byte values, lifted to a universally quantified statement *)
Lemma in_rc4_iota b n from : from <= b < from + N.of_nat n -> In b (rc4_iota n from).
Proof.
  revert from; induction n as [|n IH]; intros from H; cbn [rc4_iota]; [lia|].
  destruct (N.eq_dec from b) as [->|Hne]; [left; reflexivity|].
  right. apply IH. lia.
Qed.

Lemma byte_sweep (P : N -> bool) :
  forallb P (rc4_iota 256 0) = true -> forall b, b < 256 -> P b = true.
Proof.
  intros H b Hb. rewrite forallb_forall in H. apply H. apply in_rc4_iota. cbn. lia.
Qed.

Lemma xtime_wf b : b < 256 -> xtime b < 256.
Proof.
  intros Hb. apply N.ltb_lt.
  apply (byte_sweep (fun b => xtime b <? 256)); [vm_compute; reflexivity | exact Hb].
Qed.

Lemma gmul_loop_wf n a b : a < 256 -> gmul_loop n a b < 256.
Proof.
  revert a b; induction n as [|n IH]; intros a b Ha; cbn [gmul_loop]; [reflexivity|].
  apply lxor_byte; [destruct (N.odd b); [exact Ha | reflexivity] | apply IH, xtime_wf, Ha].
Qed.

Lemma gmul_wf a b : a < 256 -> gmul a b < 256.
Proof. apply gmul_loop_wf. Qed.

Lemma rcon_pow_wf n : rcon_pow n < 256.
Proof. induction n as [|n IH]; cbn [rcon_pow]; [reflexivity | now apply xtime_wf]. Qed.

Lemma rcon_wf i : wf_bytes (rcon i).
Proof. unfold rcon. repeat constructor. apply rcon_pow_wf. Qed.

Lemma key_words_wf key : wf_bytes key -> Forall wf_bytes (key_words key).
Proof.
  intros H.
  assert (G : forall n l, (length l <= n)%nat -> wf_bytes l -> Forall wf_bytes (key_words l)).
  { induction n as [|n IH]; intros l Hl Hw.
    - destruct l; [constructor | cbn in Hl; lia].
    - destruct l as [|a [|b [|c [|d r]]]]; cbn [key_words]; try constructor.
      + inversion_clear Hw as [|? ? Ha Hw1]. inversion_clear Hw1 as [|? ? Hb Hw2].
        inversion_clear Hw2 as [|? ? Hc Hw3]. inversion_clear Hw3 as [|? ? Hd Hw4].
        repeat constructor; assumption.
      + apply IH; [cbn [length] in Hl; lia|].
        do 4 (inversion_clear Hw as [|? ? _ Hw']; rename Hw' into Hw). exact Hw. }
  apply (G (length key)); [lia | exact H].
Qed.

Lemma rot_word_wf w : wf_bytes w -> wf_bytes (rot_word w).
Proof.
  intros H. destruct w as [|a r]; [constructor|]. cbn [rot_word].
  inversion_clear H. apply wf_bytes_app_intro; [assumption | repeat constructor; assumption].
Qed.

Lemma sub_word_wf w : wf_bytes (sub_word w).
Proof. apply map_wf, sub_byte_wf. Qed.

Lemma expand_loop_wf n Nk i racc : Forall wf_bytes racc -> Forall wf_bytes (expand_loop n Nk i racc).
Proof.
  revert i racc; induction n as [|n IH]; intros i racc H; cbn [expand_loop]; [exact H|].
  apply IH. constructor; [|exact H].
  assert (Ht : wf_bytes (hd [] racc)) by (destruct H; [constructor | assumption]).
  apply wf_xor_bytes.
  - apply (nth_Forall wf_bytes); [exact H | constructor].
  - destruct (Nat.eqb _ 0).
    + apply wf_xor_bytes; [apply sub_word_wf | apply rcon_wf].
    + destruct (_ && _); [apply sub_word_wf | exact Ht].
Qed.

Lemma round_keys_of_wf ws : Forall wf_bytes ws -> Forall wf_bytes (round_keys_of ws).
Proof.
  intros H.
  assert (G : forall n l, (length l <= n)%nat -> Forall wf_bytes l -> Forall wf_bytes (round_keys_of l)).
  { induction n as [|n IH]; intros l Hl Hw.
    - destruct l; [constructor | cbn in Hl; lia].
    - destruct l as [|a [|b [|c [|d r]]]]; cbn [round_keys_of]; try constructor.
      + inversion_clear Hw as [|? ? Ha Hw1]. inversion_clear Hw1 as [|? ? Hb Hw2].
        inversion_clear Hw2 as [|? ? Hc Hw3]. inversion_clear Hw3 as [|? ? Hd Hw4].
        repeat apply wf_bytes_app_intro; assumption.
      + apply IH; [cbn [length] in Hl; lia|].
        do 4 (inversion_clear Hw as [|? ? _ Hw']; rename Hw' into Hw). exact Hw. }
  apply (G (length ws)); [lia | exact H].
Qed.

Lemma aes_round_keys_wf key : wf_bytes key -> Forall wf_bytes (aes_round_keys key).
Proof.
  intros H. unfold aes_round_keys, key_expansion. apply round_keys_of_wf.
  apply Forall_rev. apply expand_loop_wf. apply Forall_rev. now apply key_words_wf.
Qed.

Lemma select_wf tbl st : wf_bytes st -> wf_bytes (select tbl st).
Proof.
  intros H. unfold select, wf_bytes. induction tbl as [|i tbl IH]; cbn [map]; constructor; [|exact IH].
  apply (nth_Forall (fun b => b < 256)); [exact H | reflexivity].
Qed.

Lemma xor4_wf a b c d : a < 256 -> b < 256 -> c < 256 -> d < 256 -> xor4 a b c d < 256.
Proof. intros. unfold xor4. auto using lxor_byte. Qed.

Lemma map_columns_wf f st :
  (forall a b c d, a < 256 -> b < 256 -> c < 256 -> d < 256 -> wf_bytes (f a b c d)) ->
  wf_bytes st -> wf_bytes (map_columns f st).
Proof.
  intros Hf H.
  assert (G : forall n l, (length l <= n)%nat -> wf_bytes l -> wf_bytes (map_columns f l)).
  { induction n as [|n IH]; intros l Hl Hw.
    - destruct l; [constructor | cbn in Hl; lia].
    - destruct l as [|a [|b [|c [|d r]]]]; cbn [map_columns]; try constructor.
      inversion_clear Hw as [|? ? Ha Hw1]. inversion_clear Hw1 as [|? ? Hb Hw2].
      inversion_clear Hw2 as [|? ? Hc Hw3]. inversion_clear Hw3 as [|? ? Hd Hw4].
      apply wf_bytes_app_intro; [apply Hf; assumption|].
      apply IH; [cbn [length] in Hl; lia | exact Hw4]. }
  apply (G (length st)); [lia | exact H].
Qed.

Lemma mix_columns_wf st : wf_bytes st -> wf_bytes (mix_columns st).
Proof.
  apply map_columns_wf. intros a b c d Ha Hb Hc Hd. unfold mix_column.
  repeat constructor; apply xor4_wf; try assumption; apply gmul_wf; reflexivity.
Qed.

Lemma inv_mix_columns_wf st : wf_bytes st -> wf_bytes (inv_mix_columns st).
Proof.
  apply map_columns_wf. intros a b c d Ha Hb Hc Hd. unfold inv_mix_column.
  repeat constructor; apply xor4_wf; apply gmul_wf; reflexivity.
Qed.

Lemma cipher_rounds_wf rks st : Forall wf_bytes rks -> wf_bytes st -> wf_bytes (cipher_rounds rks st).
Proof.
  intros Hr; revert st; induction Hr as [|rk rks Hrk Hrks IH]; intros st H; [exact H|].
  cbn [cipher_rounds]. destruct rks as [|rk' rks'].
  - apply wf_xor_bytes; [|exact Hrk]. apply select_wf, map_wf, sub_byte_wf.
  - apply IH. apply wf_xor_bytes; [|exact Hrk]. apply mix_columns_wf, select_wf, map_wf, sub_byte_wf.
Qed.

Lemma aes_cipher_wf rks block : Forall wf_bytes rks -> wf_bytes block -> wf_bytes (aes_cipher rks block).
Proof.
  intros Hr H. destruct Hr as [|rk0 rks Hrk0 Hrks]; [exact H|].
  cbn [aes_cipher]. apply cipher_rounds_wf; [exact Hrks|]. now apply wf_xor_bytes.
Qed.

Lemma inv_cipher_rounds_wf rrks st : Forall wf_bytes rrks -> wf_bytes st -> wf_bytes (inv_cipher_rounds rrks st).
Proof.
  intros Hr; revert st; induction Hr as [|rk rks Hrk Hrks IH]; intros st H; [exact H|].
  cbn [inv_cipher_rounds]. destruct rks as [|rk' rks'].
  - apply wf_xor_bytes; [|exact Hrk]. apply map_wf, inv_sub_byte_wf.
  - apply IH. apply inv_mix_columns_wf. apply wf_xor_bytes; [|exact Hrk]. apply map_wf, inv_sub_byte_wf.
Qed.

Lemma aes_inv_cipher_wf rrks block : Forall wf_bytes rrks -> wf_bytes block -> wf_bytes (aes_inv_cipher rrks block).
Proof.
  intros Hr H. destruct Hr as [|rk0 rks Hrk0 Hrks]; [exact H|].
  cbn [aes_inv_cipher]. apply inv_cipher_rounds_wf; [exact Hrks|]. now apply wf_xor_bytes.
Qed.

Lemma aes_encrypt_wf key block : wf_bytes key -> wf_bytes block -> wf_bytes (aes_encrypt key block).
Proof. intros Hk Hb. apply aes_cipher_wf; [now apply aes_round_keys_wf | exact Hb]. Qed.
Lemma aes_decrypt_wf key block : wf_bytes key -> wf_bytes block -> wf_bytes (aes_decrypt key block).
Proof. intros Hk Hb. apply aes_inv_cipher_wf; [apply Forall_rev; now apply aes_round_keys_wf | exact Hb]. Qed.

Lemma cmac_aes_length key msg : length (cmac_aes key msg) = 16%nat.
Proof.
  unfold cmac_aes.
  (* the tag is the output of the cipher on a 16-byte block; every block fed to E has 16 bytes *)
  unfold cmac_spec, cmac. destruct (cmac_subkeys _ 16) as [K1 K2].
  assert (HC : length (zeros 16) = 16%nat) by reflexivity. revert HC.
  generalize (zeros 16) as C.
  assert (Hch : Forall (fun b => (length b <= 16)%nat) (chunks 16 msg)).
  { unfold chunks. generalize (length msg) as fuel. intros fuel; revert msg.
    induction fuel as [|fuel IH]; intros msg; cbn [chunks_fuel]; [constructor|].
    destruct msg as [|x msg']; [constructor|]. constructor; [|apply IH].
    rewrite firstn_length. lia. }
  induction Hch as [|m r Hm Hr IH]; intros C HC; cbn [cmac_loop].
  - apply aes_cipher_length. rewrite !length_xor_bytes. reflexivity.
  - destruct r as [|m' r'].
    + destruct (Nat.eqb_spec (length m) 16) as [E|NE]; apply aes_cipher_length; rewrite !length_xor_bytes.
      * exact E.
      * rewrite app_length. cbn [length]. rewrite length_zeros. lia.
    + apply IH. apply aes_cipher_length. rewrite length_xor_bytes. exact HC.
Qed.

(* ------------------------------------------------------------------ *)
(* block-wise absorption: facts for reasoning about streaming (Write/Sum) implementations *)

Lemma mod_SSSS n : Nat.modulo (S (S (S (S n)))) 4 = Nat.modulo n 4.
Proof. replace (S (S (S (S n)))) with (n + 1 * 4)%nat by lia. apply Nat.mod_add. discriminate. Qed.

Lemma words_le_app a b :
  Nat.modulo (length a) 4 = 0%nat -> words_le (a ++ b) = words_le a ++ words_le b.
Proof.
  assert (G : forall n a, (length a <= n)%nat -> Nat.modulo (length a) 4 = 0%nat ->
                          words_le (a ++ b) = words_le a ++ words_le b).
  { induction n as [|n IH]; intros l Hl Hm.
    - destruct l; [reflexivity | cbn in Hl; lia].
    - destruct l as [|x0 [|x1 [|x2 [|x3 r]]]]; try reflexivity; try (cbn in Hm; discriminate Hm).
      cbn [length] in Hm, Hl. rewrite mod_SSSS in Hm.
      cbn [app words_le]. rewrite IH; [reflexivity | lia | exact Hm]. }
  apply (G (length a)). lia.
Qed.

Lemma words_be_app a b :
  Nat.modulo (length a) 4 = 0%nat -> words_be (a ++ b) = words_be a ++ words_be b.
Proof.
  assert (G : forall n a, (length a <= n)%nat -> Nat.modulo (length a) 4 = 0%nat ->
                          words_be (a ++ b) = words_be a ++ words_be b).
  { induction n as [|n IH]; intros l Hl Hm.
    - destruct l; [reflexivity | cbn in Hl; lia].
    - destruct l as [|x0 [|x1 [|x2 [|x3 r]]]]; try reflexivity; try (cbn in Hm; discriminate Hm).
      cbn [length] in Hm, Hl. rewrite mod_SSSS in Hm.
      cbn [app words_be]. rewrite IH; [reflexivity | lia | exact Hm]. }
  apply (G (length a)). lia.
Qed.

Lemma length_words_le l : length (words_le l) = Nat.div (length l) 4.
Proof.
  assert (G : forall n l, (length l <= n)%nat -> length (words_le l) = Nat.div (length l) 4).
  { induction n as [|n IH]; intros l0 Hl.
    - destruct l0; [reflexivity | cbn in Hl; lia].
    - destruct l0 as [|x0 [|x1 [|x2 [|x3 r]]]]; try reflexivity.
      cbn [length words_le] in *. rewrite IH by lia.
      replace (S (S (S (S (length r))))) with (1 * 4 + length r)%nat by lia.
      rewrite Nat.div_add_l by discriminate. reflexivity. }
  apply (G (length l)). lia.
Qed.

Lemma length_words_be l : length (words_be l) = Nat.div (length l) 4.
Proof.
  assert (G : forall n l, (length l <= n)%nat -> length (words_be l) = Nat.div (length l) 4).
  { induction n as [|n IH]; intros l0 Hl.
    - destruct l0; [reflexivity | cbn in Hl; lia].
    - destruct l0 as [|x0 [|x1 [|x2 [|x3 r]]]]; try reflexivity.
      cbn [length words_be] in *. rewrite IH by lia.
      replace (S (S (S (S (length r))))) with (1 * 4 + length r)%nat by lia.
      rewrite Nat.div_add_l by discriminate. reflexivity. }
  apply (G (length l)). lia.
Qed.

Lemma mod_16_add n : Nat.modulo (16 + n) 16 = Nat.modulo n 16.
Proof. replace (16 + n)%nat with (n + 1 * 16)%nat by lia. apply Nat.mod_add. discriminate. Qed.

Lemma fold_blocks16_app {St} (f : St -> list N -> St) st a b :
  Nat.modulo (length a) 16 = 0%nat ->
  fold_blocks16 f st (a ++ b) = fold_blocks16 f (fold_blocks16 f st a) b.
Proof.
  assert (G : forall n a st, (length a <= n)%nat -> Nat.modulo (length a) 16 = 0%nat ->
                             fold_blocks16 f st (a ++ b) = fold_blocks16 f (fold_blocks16 f st a) b).
  { induction n as [|n IH]; intros l st0 Hl Hm.
    - destruct l; [reflexivity | cbn in Hl; lia].
    - do 16 (destruct l as [|? l]; [first [reflexivity | (cbn in Hm; discriminate Hm)] |]).
      cbn [length] in Hm, Hl.
      change (S (S (S (S (S (S (S (S (S (S (S (S (S (S (S (S (length l)))))))))))))))))
        with (16 + length l)%nat in Hm.
      rewrite mod_16_add in Hm.
      cbn [app fold_blocks16]. apply IH; [lia | exact Hm]. }
  apply (G (length a)). lia.
Qed.

(* the digest in terms of whole blocks absorbed so far and a remainder: the shape of a
   streaming implementation (state after the full blocks, then padding of the tail) *)
Lemma md4_split a b : Nat.modulo (length a) 64 = 0%nat ->
  md4 (a ++ b) =
  md4_output (md4_blocks (md4_blocks md4_init (words_le a)) (words_le (md_pad_le_from (lenN a) b))).
Proof.
  intros H. unfold md4, md4_pad, md4_blocks.
  assert (H4 : Nat.modulo (length a) 4 = 0%nat).
  { assert (E := Nat.div_mod (length a) 64 ltac:(discriminate)). rewrite H in E.
    replace (length a) with ((16 * Nat.div (length a) 64) * 4)%nat by lia. apply Nat.mod_mul. discriminate. }
  rewrite md_pad_le_app, words_le_app by exact H4.
  rewrite fold_blocks16_app; [reflexivity|].
  rewrite length_words_le.
  assert (E := Nat.div_mod (length a) 64 ltac:(discriminate)). rewrite H in E.
  replace (length a) with ((16 * Nat.div (length a) 64) * 4)%nat by lia.
  rewrite Nat.div_mul by discriminate. rewrite Nat.mul_comm. apply Nat.mod_mul. discriminate.
Qed.
