(* C07, SMB command decoders: soundness of the guard analysis Model/SmbSafe.v.
   If [cmd_safe c = true] then, for EVERY input and every initial field assignment, the interpreter of
   the regenerated description never takes a slice out of bounds: cmd_unmarshal c v0 data <> Panic. *)
From Coq Require Import List Arith NArith ZArith Lia Bool String.
From Coq Require Import ZifyN ZifyNat ZifyBool.
From Mant Require Import Prim.R Prim.Bytes Model.SmbTypes Model.SmbBlocks Model.SmbLayout Model.SmbAnalysis
  Model.SmbSafe Model.SmbDialects Spec.C06 Proofs.C06Layout Proofs.C06Strings Proofs.C06Fixed Proofs.C06Blocks Proofs.C05Proofs.
Import ListNotations.
Open Scope N_scope.

(* ---------------- expressions ---------------- *)

Lemma lexp_eqb_eq a : forall b, lexp_eqb a b = true -> a = b.
Proof.
  induction a; destruct b; cbn [lexp_eqb]; intros H; try discriminate;
    try (apply N.eqb_eq in H; now subst); try (apply String.eqb_eq in H; now subst); try reflexivity;
    apply andb_true_iff in H; destruct H as [H1 H2]; f_equal; auto.
Qed.

Lemma simple_nonneg e st sl : simple e = true -> (0 <= leval e st sl)%Z.
Proof.
  induction e; cbn [simple leval]; intros H; try discriminate; try lia;
    apply andb_true_iff in H; destruct H as [H1 H2]; specialize (IHe1 H1); specialize (IHe2 H2); nia.
Qed.

Lemma simple_sl e st sl sl' : simple e = true -> leval e st sl = leval e st sl'.
Proof.
  induction e; cbn [simple leval]; intros H; try discriminate; try reflexivity;
    apply andb_true_iff in H; destruct H as [H1 H2]; now rewrite (IHe1 H1), (IHe2 H2).
Qed.

Lemma simple_not_rest e : simple e = true -> e <> ERest.
Proof. intros H E. subst. discriminate. Qed.

(* ---------------- valuations ---------------- *)

Lemma vget_vset_other v : forall f g x, String.eqb g f = false -> vget (vset v f x) g = vget v g.
Proof.
  induction v as [|[h y] v IH]; intros f g x H; cbn [vset vget].
  - rewrite String.eqb_sym in H. now rewrite H.
  - destruct (String.eqb h f) eqn:E.
    + cbn [vget]. apply String.eqb_eq in E. subst h. rewrite String.eqb_sym in H. now rewrite H.
    + cbn [vget]. destruct (String.eqb h g); [reflexivity|]. now apply IH.
Qed.

Lemma leval_vset e : forall st fld x sl, mentions_field e fld = false ->
  leval e (with_v st (vset (us_v st) fld x)) sl = leval e st sl.
Proof.
  induction e; intros st fld x sl H; cbn [mentions_field] in H; cbn [leval with_v us_v us_env us_read us_off];
    try reflexivity.
  - unfold vint. cbn [us_v]. now rewrite vget_vset_other.
  - unfold vlen. cbn [us_v]. now rewrite vget_vset_other.
  - apply orb_false_iff in H. destruct H as [H1 H2]. now rewrite IHe1, IHe2.
  - apply orb_false_iff in H. destruct H as [H1 H2]. now rewrite IHe1, IHe2.
  - apply orb_false_iff in H. destruct H as [H1 H2]. now rewrite IHe1, IHe2.
Qed.

(* leval only looks at the components of the state it mentions *)
Lemma leval_ext e : forall st st' sl,
  us_off st' = us_off st -> us_v st' = us_v st ->
  (mentions_read e = false \/ us_read st' = us_read st) ->
  (forall x, mentions_var e x = true -> env_get (us_env st') x = env_get (us_env st) x) ->
  leval e st' sl = leval e st sl.
Proof.
  induction e; intros st st' sl Ho Hv Hr He; cbn [leval mentions_read mentions_var] in *.
  - reflexivity.
  - unfold vint. now rewrite Hv.
  - unfold vlen. now rewrite Hv.
  - f_equal. apply He. apply String.eqb_refl.
  - destruct Hr as [Hr|Hr]; [discriminate|now rewrite Hr].
  - now rewrite Ho.
  - rewrite (IHe1 st st' sl), (IHe2 st st' sl); auto.
    + destruct Hr as [Hr|Hr]; [apply orb_false_iff in Hr; tauto|tauto].
    + intros x Hx. apply He. rewrite Hx. apply orb_true_r.
    + destruct Hr as [Hr|Hr]; [apply orb_false_iff in Hr; tauto|tauto].
    + intros x Hx. apply He. rewrite Hx. reflexivity.
  - rewrite (IHe1 st st' sl), (IHe2 st st' sl); auto.
    + destruct Hr as [Hr|Hr]; [apply orb_false_iff in Hr; tauto|tauto].
    + intros x Hx. apply He. rewrite Hx. apply orb_true_r.
    + destruct Hr as [Hr|Hr]; [apply orb_false_iff in Hr; tauto|tauto].
    + intros x Hx. apply He. rewrite Hx. reflexivity.
  - rewrite (IHe1 st st' sl), (IHe2 st st' sl); auto.
    + destruct Hr as [Hr|Hr]; [apply orb_false_iff in Hr; tauto|tauto].
    + intros x Hx. apply He. rewrite Hx. apply orb_true_r.
    + destruct Hr as [Hr|Hr]; [apply orb_false_iff in Hr; tauto|tauto].
    + intros x Hx. apply He. rewrite Hx. reflexivity.
Qed.

(* ---------------- meaning of a fact ---------------- *)

Definition sem (f : fact) (p d : sbuf) (st : ustate) : Prop :=
  match f with
  | FNone => True
  | FZero => us_off st = 0
  | FGe s e => simple e = true /\
               (Z.of_N (us_off st) + leval e st 0 <= Z.of_N (slen (stream_of s p d)))%Z
  end.

Lemma stream_eqb_true a b : stream_eqb a b = true -> a = b.
Proof. destruct a, b; cbn; intros H; try discriminate; reflexivity. Qed.

Lemma covers_le g a st : simple g = true -> covers g a = true ->
  simple a = true /\ (leval a st 0 <= leval g st 0)%Z.
Proof.
  intros Hg H. unfold covers in H. apply orb_true_iff in H. destruct H as [H|H].
  - apply lexp_eqb_eq in H. subst. split; [assumption|lia].
  - destruct g; try discriminate. destruct a; try discriminate. cbn [simple leval]. split; [reflexivity|lia].
Qed.

Lemma entails_sound f s a p d st : sem f p d st -> entails f s a = true ->
  simple a = true /\ (Z.of_N (us_off st) + leval a st 0 <= Z.of_N (slen (stream_of s p d)))%Z.
Proof.
  destruct f as [| |s' g]; cbn [entails sem]; intros Hs H; try discriminate.
  - destruct a as [n| | | | | | | |]; try discriminate. destruct n; try discriminate.
    split; [reflexivity|]. cbn [leval]. lia.
  - apply andb_true_iff in H. destruct H as [H1 H2]. apply stream_eqb_true in H1. subst s'.
    destruct Hs as [Hg Hle]. destruct (covers_le g a st Hg H2) as [Ha Hl]. split; [exact Ha|lia].
Qed.

Lemma in_range_sound f s p d st : sem f p d st -> in_range f s = true ->
  us_off st <= slen (stream_of s p d).
Proof.
  destruct f as [| |s' g]; cbn [in_range sem]; intros Hs H; try discriminate.
  - lia.
  - apply stream_eqb_true in H. subst s'. destruct Hs as [Hg Hle].
    pose proof (simple_nonneg g st 0 Hg). lia.
Qed.

(* ---------------- windows ---------------- *)

Lemma window_ok S st e : simple e = true ->
  (Z.of_N (us_off st) + leval e st 0 <= Z.of_N (slen S))%Z ->
  exists w, window S st e = Ok w /\ Z.of_N (lenN w) = leval e st 0.
Proof.
  intros Hs Hle. pose proof (simple_nonneg e st (slen S) Hs) as Hnn.
  rewrite (simple_sl e st 0 (slen S) Hs) in Hle.
  rewrite (simple_sl e st 0 (slen S) Hs).
  assert (W : forall z, (0 <= z)%Z -> (Z.of_N (us_off st) + z <= Z.of_N (slen S))%Z ->
     exists w, (if (Z.of_N (us_off st) + z <? 0)%Z then Panic
                else go_slice (fst S ++ snd S) (us_off st) (Z.to_N (Z.of_N (us_off st) + z))) = Ok w /\
               Z.of_N (lenN w) = z).
  { intros z Hz Hzle. destruct (Z.ltb_spec (Z.of_N (us_off st) + z) 0) as [Hneg|_]; [lia|].
    destruct (go_slice_ok_len (fst S ++ snd S) (us_off st) (Z.to_N (Z.of_N (us_off st) + z))) as [w [Hw Hl]];
      [lia|rewrite lenN_app; unfold slen in Hzle; lia|].
    exists w. split; [exact Hw|lia]. }
  unfold window. destruct e; try discriminate; apply W; assumption.
Qed.

Lemma window_rest_ok S st : us_off st <= slen S ->
  exists w, window S st ERest = Ok w /\ lenN w = slen S - us_off st.
Proof.
  intros H. unfold window. unfold slen in *. rewrite go_from_ok by exact H.
  eexists. split; [reflexivity|]. unfold lenN in *. rewrite skipn_length. lia.
Qed.

(* ---------------- nested decoders ---------------- *)

Lemma fixed_nested_bound {V} (dec : list N -> R (V * N)) k :
  (forall data v n, dec data = Ok (v, n) -> n = k /\ k <= lenN data) ->
  forall data v n, dec data = Ok (v, n) -> n <= lenN data.
Proof. intros H data v n E. destruct (H data v n E). lia. Qed.

Lemma filetime_bound data v n : filetime_unmarshal data = Ok (v, n) -> n <= lenN data.
Proof.
  unfold filetime_unmarshal. destruct (N.ltb_spec (lenN data) 8); [discriminate|].
  destruct (get_fields filetime_layout data 0); try discriminate. cbn [bind]. intros E. inversion E. lia.
Qed.
Lemma date_bound data v n : date_unmarshal data = Ok (v, n) -> n <= lenN data.
Proof.
  unfold date_unmarshal. destruct (N.ltb_spec (lenN data) 2); [discriminate|].
  destruct (go_upto data 2) as [h| |]; try discriminate. cbn [bind].
  destruct (go_le_uint 2 h); try discriminate. cbn [bind]. intros E. inversion E. lia.
Qed.
Lemma fileattr_bound data v n : fileattr_unmarshal data = Ok (v, n) -> n <= lenN data.
Proof.
  unfold fileattr_unmarshal. destruct (N.ltb_spec (lenN data) 2); [discriminate|].
  destruct (go_be_uint 2 data); try discriminate. cbn [bind]. intros E. inversion E. lia.
Qed.
Lemma nmpipe_bound data v n : nmpipe_unmarshal data = Ok (v, n) -> n <= lenN data.
Proof.
  unfold nmpipe_unmarshal. destruct (N.eqb_spec (lenN data) 2); cbn [negb]; [|discriminate].
  destruct (get_fields nmpipe_layout data 0); try discriminate. cbn [bind]. intros E. inversion E. lia.
Qed.

Lemma resume_key_bound data r n : resume_key_unmarshal data = Ok (r, n) -> n <= lenN data.
Proof.
  unfold resume_key_unmarshal. destruct (smb_string_unmarshal data) as [[s k]| |] eqn:Es; try discriminate. cbn [bind].
  destruct (lenN (ss_buf s) <? 21); [discriminate|].
  destruct (go_index (ss_buf s) 0); try discriminate. cbn [bind].
  destruct (go_slice (ss_buf s) 1 17); try discriminate. cbn [bind].
  destruct (go_slice (ss_buf s) 17 21); try discriminate. cbn [bind].
  intros E. assert (k = n) by congruence. subst k. eapply string_consumed_bound; eassumption.
Qed.

Lemma find_zero_bound l : forall i z, find_zero l i = Some z -> i <= z /\ z < i + lenN l.
Proof.
  induction l as [|b l IHl]; intros i z0 Hf; [discriminate|]. cbn [find_zero] in Hf.
  destruct (b =? 0).
  - injection Hf as <-. rewrite lenN_cons. lia.
  - apply IHl in Hf. rewrite lenN_cons. lia.
Qed.

Lemma dialects_loop_bound fuel : forall data pos acc ds k, pos <= lenN data ->
  dialects_loop fuel data pos acc = Ok (ds, k) -> k <= lenN data.
Proof.
  induction fuel as [|f IH]; intros data pos acc ds k Hpos; [discriminate|]. cbn [dialects_loop].
  destruct (N.ltb_spec pos (lenN data)) as [Hlt|]; [|intros E; assert (pos = k) by congruence; lia].
  destruct (go_index data pos) as [fmt| |]; try discriminate. cbn [bind].
  destruct (negb (fmt =? dialect_format)); [discriminate|].
  destruct (find_zero (skipn (N.to_nat (pos + 1)) data) (pos + 1)) as [z|] eqn:Ez; [|discriminate].
  apply find_zero_bound in Ez. assert (z < lenN data) by (unfold lenN in *; rewrite skipn_length in Ez; lia).
  destruct (go_slice data (pos + 1) z); try discriminate. cbn [bind]. apply IH. lia.
Qed.

Lemma dialects_bound data ds k : dialects_unmarshal data = Ok (ds, k) -> k <= lenN data.
Proof. apply dialects_loop_bound. lia. Qed.

Lemma bind_pair_total {A B} (r : R (A * N)) (g : A -> N -> R B) :
  r <> Panic -> (forall a n, g a n <> Panic) -> (let* (a, n) := r in g a n) <> Panic.
Proof. intros H1 H2. destruct r as [[a n]| |]; cbn [bind]; [apply H2|discriminate|congruence]. Qed.

Lemma nested_total t data : known_nested t = true -> nested_unmarshal t data <> Panic.
Proof.
  destruct t as [| | | |n]; cbn [known_nested]; try discriminate. unfold nested_unmarshal.
  destruct (String.eqb n "SMB_STRING"). { intros _. apply bind_pair_total; [apply string_total|discriminate]. }
  destruct (String.eqb n "OEM_STRING"). { intros _. apply bind_pair_total; [apply oem_total|discriminate]. }
  destruct (String.eqb n "FILETIME"); cbn [orb].
  { intros _. apply bind_pair_total; [apply filetime_total|discriminate]. }
  destruct (String.eqb n "SMB_TIME"); cbn [orb].
  { intros _. apply bind_pair_total; [apply filetime_total|discriminate]. }
  destruct (String.eqb n "SMB_DATE"); cbn [orb]. { intros _. apply bind_pair_total; [apply date_total|discriminate]. }
  destruct (String.eqb n "SMB_FILE_ATTRIBUTES"); cbn [orb].
  { intros _. apply bind_pair_total; [apply fileattr_total|discriminate]. }
  destruct (String.eqb n "SMB_NMPIPE_STATUS"); cbn [orb].
  { intros _. apply bind_pair_total; [apply nmpipe_total|discriminate]. }
  destruct (String.eqb n "SMB_RESUME_KEY"); cbn [orb].
  { intros _. apply bind_pair_total; [apply resume_key_total|discriminate]. }
  destruct (String.eqb n "Dialects"); cbn [orb].
  { intros _. apply bind_pair_total; [apply dialects_total|discriminate]. }
  discriminate.
Qed.

Lemma bind_pair_ok {A B} (r : R (A * N)) (g : A -> N -> B) y :
  (let* (a, n) := r in Ok (g a n)) = Ok y -> exists a n, r = Ok (a, n) /\ y = g a n.
Proof. destruct r as [[a n]| |]; cbn [bind]; intros E; try discriminate. inversion E. eauto. Qed.

Lemma nested_bound t data x k : nested_unmarshal t data = Ok (x, k) -> k <= lenN data.
Proof.
  destruct t as [| | | |n]; cbn [nested_unmarshal]; try discriminate.
  destruct (String.eqb n "SMB_STRING").
  { intros E. apply (bind_pair_ok _ (fun s k => (ss_to s, k))) in E. destruct E as [s [k' [E1 E2]]].
    inversion E2; subst. eapply string_consumed_bound; eassumption. }
  destruct (String.eqb n "OEM_STRING").
  { intros E. apply (bind_pair_ok _ (fun s k => (FStruct [ss_to s], k))) in E. destruct E as [s [k' [E1 E2]]].
    inversion E2; subst. eapply string_consumed_bound; eassumption. }
  destruct (String.eqb n "FILETIME" || String.eqb n "SMB_TIME").
  { intros E. apply (bind_pair_ok _ (fun p k => (FStruct [FInt (fst p); FInt (snd p)], k))) in E.
    destruct E as [s [k' [E1 E2]]]. inversion E2; subst. eapply filetime_bound; eassumption. }
  destruct (String.eqb n "SMB_DATE").
  { intros E. apply (bind_pair_ok _ (fun d k => (FStruct [FInt (d_year d); FInt (d_month d); FInt (d_day d)], k))) in E.
    destruct E as [s [k' [E1 E2]]]. inversion E2; subst. eapply date_bound; eassumption. }
  destruct (String.eqb n "SMB_FILE_ATTRIBUTES").
  { intros E. apply (bind_pair_ok _ (fun a k => (FStruct [FInt a], k))) in E.
    destruct E as [s [k' [E1 E2]]]. inversion E2; subst. eapply fileattr_bound; eassumption. }
  destruct (String.eqb n "SMB_NMPIPE_STATUS").
  { intros E. apply (bind_pair_ok _ (fun vs k => (FStruct [FInt (fv vs 0); FInt (fv vs 1)], k))) in E.
    destruct E as [s [k' [E1 E2]]]. inversion E2; subst. eapply nmpipe_bound; eassumption. }
  destruct (String.eqb n "SMB_RESUME_KEY").
  { intros E. apply (bind_pair_ok _ (fun r k => (rk_to r, k))) in E.
    destruct E as [s [k' [E1 E2]]]. inversion E2; subst. eapply resume_key_bound; eassumption. }
  destruct (String.eqb n "Dialects").
  { intros E. apply (bind_pair_ok _ (fun ds k => (dialects_to ds, k))) in E.
    destruct E as [s [k' [E1 E2]]]. inversion E2; subst. eapply dialects_bound; eassumption. }
  discriminate.
Qed.

(* ---------------- facts survive the assignments that cannot change them ---------------- *)

Lemma forget_field_sem f fld p d st x : sem f p d st ->
  sem (forget_field f fld) p d (with_v st (vset (us_v st) fld x)).
Proof.
  destruct f as [| |s g]; cbn [forget_field sem]; intros H; [exact I|exact H|].
  destruct (mentions_field g fld) eqn:M; [exact I|]. cbn [sem]. destruct H as [Hs Hle]. split; [exact Hs|].
  rewrite leval_vset by exact M. exact Hle.
Qed.

Lemma mentions_var_neq g : forall x y, mentions_var g x = false -> mentions_var g y = true -> String.eqb y x = false.
Proof.
  intros x y Hx Hy. destruct (String.eqb y x) eqn:E; [|reflexivity].
  apply String.eqb_eq in E. subst. congruence.
Qed.

Lemma forget_var_sem f x n p d st : sem f p d st ->
  sem (forget_var f x) p d
      {| us_off := us_off st; us_read := us_read st; us_env := (x, n) :: us_env st; us_v := us_v st |}.
Proof.
  destruct f as [| |s g]; cbn [forget_var sem]; intros H; [exact I|exact H|].
  destruct (mentions_var g x) eqn:M; [exact I|]. cbn [sem us_off]. destruct H as [Hs Hle]. split; [exact Hs|].
  rewrite (leval_ext g st _ 0); [exact Hle|reflexivity|reflexivity|right; reflexivity|].
  intros y Hy. cbn [us_env env_get]. now rewrite (mentions_var_neq g x y M Hy).
Qed.

Lemma after_adv_sem f a p d st : simple a = true -> sem f p d st ->
  sem (after_adv f a) p d
      {| us_off := Z.to_N (Z.of_N (us_off st) + leval a st 0); us_read := us_read st;
         us_env := us_env st; us_v := us_v st |}.
Proof.
  intros Ha. pose proof (simple_nonneg a st 0 Ha) as Hnn.
  destruct f as [| |s g]; cbn [after_adv sem]; intros H; [exact I| |].
  - destruct a as [n| | | | | | | |]; try exact I. destruct n; [|exact I]. cbn [sem us_off leval]. lia.
  - destruct H as [Hs Hle]. destruct (lexp_eqb g a) eqn:E.
    + apply lexp_eqb_eq in E. subst g. cbn [sem us_off leval]. split; [reflexivity|lia].
    + destruct g as [x| | | | | | | |]; try exact I. destruct a as [y| | | | | | | |]; try exact I.
      destruct (N.leb_spec y x); [|exact I]. cbn [sem us_off leval] in *. split; [reflexivity|lia].
Qed.

(* ---------------- one read operation ---------------- *)

Lemma access_ok f s e p d st : sem f p d st ->
  match e with
  | ERest => in_range f s = true
  | _ => simple e && entails f s e = true
  end ->
  exists w, window (stream_of s p d) st e = Ok w /\
            (Z.of_N (us_off st) + Z.of_N (lenN w) <= Z.of_N (slen (stream_of s p d)))%Z.
Proof.
  intros Hs H.
  assert (G : simple e && entails f s e = true ->
              exists w, window (stream_of s p d) st e = Ok w /\
                        (Z.of_N (us_off st) + Z.of_N (lenN w) <= Z.of_N (slen (stream_of s p d)))%Z).
  { intros H'. apply andb_true_iff in H'. destruct H' as [H1 H2].
    destruct (entails_sound f s e p d st Hs H2) as [_ Hle].
    destruct (window_ok (stream_of s p d) st e H1 Hle) as [w [Hw Hl]]. exists w. split; [exact Hw|lia]. }
  destruct e; try (apply G; exact H).
  pose proof (in_range_sound f s p d st Hs H) as Hr.
  destruct (window_rest_ok (stream_of s p d) st Hr) as [w [Hw Hl]]. exists w. split; [exact Hw|lia].
Qed.

Lemma step_sound p d f u f' st : sem f p d st -> safe_step f u = Some f' ->
  uop_step p d st u <> Panic /\
  forall st', uop_step p d st u = Ok (UCont st') -> sem f' p d st'.
Proof.
  intros Hs Hstep. destruct u as [c u'|s e|s fld w en acc|s fld e|s fld w en e|s fld t e|s fld t|s|a|x e|s|txt];
    cbn [safe_step uop_step] in *.
  - (* UIf: handled by step_sound2 *) discriminate.
  - (* UGuard *)
    inversion Hstep; subst f'; clear Hstep.
    destruct (Z.ltb_spec (Z.of_N (slen (stream_of s p d)))
                         (Z.of_N (us_off st) + leval e st (slen (stream_of s p d)))) as [|Hge].
    + split; [discriminate|intros st' E; discriminate].
    + split; [discriminate|]. intros st' E. inversion E; subst st'.
      destruct (simple e) eqn:Se; [|exact Hs]. cbn [sem]. split; [exact Se|].
      rewrite (simple_sl e st 0 (slen (stream_of s p d)) Se). lia.
  - (* UInt *)
    destruct acc as [a| | | | | | | |]; try discriminate.
    destruct (entails f s (EConst a) && (N.of_nat w <=? a)) eqn:E; [|discriminate].
    inversion Hstep; subst f'; clear Hstep. apply andb_true_iff in E. destruct E as [E1 E2].
    destruct (entails_sound f s (EConst a) p d st Hs E1) as [Sa Hle].
    destruct (window_ok (stream_of s p d) st (EConst a) Sa Hle) as [win [Hw Hl]]. rewrite Hw. cbn [bind leval] in *.
    assert (Hlen : (w <= List.length win)%nat) by (unfold lenN in Hl; lia).
    assert (exists n, (match en with LE => go_le_uint w win | BE => go_be_uint w win end) = Ok n) as [n Hn].
    { destruct en; [apply go_le_uint_ok|apply go_be_uint_ok]; exact Hlen. }
    rewrite Hn. cbn [bind]. split; [discriminate|]. intros st' E. inversion E; subst st'.
    apply forget_field_sem. exact Hs.
  - (* UBytes *)
    assert (A : exists w, window (stream_of s p d) st e = Ok w).
    { destruct (access_ok f s e p d st Hs) as [w [Hw _]]; [|eauto].
      destruct e; try (destruct (_ && _) eqn:E; [reflexivity|discriminate]).
      destruct (in_range f s); [reflexivity|discriminate]. }
    destruct A as [win Hw]. rewrite Hw. cbn [bind]. split; [discriminate|].
    intros st' E. inversion E; subst st'.
    assert (f' = forget_field f fld).
    { destruct e; try (destruct (_ && _); [inversion Hstep; reflexivity|discriminate]).
      destruct (in_range f s); [inversion Hstep; reflexivity|discriminate]. }
    subst f'. apply forget_field_sem. exact Hs.
  - (* UIntArr *)
    destruct (simple e && entails f s e) eqn:E; [|discriminate]. inversion Hstep; subst f'; clear Hstep.
    assert (A : exists w0, window (stream_of s p d) st e = Ok w0).
    { destruct (access_ok f s e p d st Hs) as [w0 [Hw _]]; [|eauto].
      destruct e; try exact E. apply andb_true_iff in E. destruct E as [E _]. discriminate. }
    destruct A as [win Hw]. rewrite Hw. cbn [bind]. split; [discriminate|].
    intros st' E'. inversion E'; subst st'. apply forget_field_sem. exact Hs.
  - (* UNested *)
    destruct (known_nested t) eqn:K; cbn [negb] in Hstep; [|discriminate].
    assert (A : (match e with ERest => in_range f s = true | _ => simple e && entails f s e = true end) /\
                f' = FGe s ERead).
    { destruct e; try (destruct (_ && _) eqn:E; [inversion Hstep; split; reflexivity|discriminate]).
      destruct (in_range f s); [inversion Hstep; split; reflexivity|discriminate]. }
    destruct A as [A ->]. destruct (access_ok f s e p d st Hs A) as [win [Hw Hl]]. rewrite Hw. cbn [bind].
    pose proof (nested_total t win K) as T.
    destruct (nested_unmarshal t win) as [[x k]| |] eqn:En; cbn [bind]; [|split; [discriminate|intros; discriminate]|congruence].
    split; [discriminate|]. intros st' E. inversion E; subst st'. cbn [sem us_off leval us_read].
    split; [reflexivity|]. pose proof (nested_bound t win x k En). lia.
  - (* UNested0 *)
    destruct (known_nested t) eqn:K; cbn [negb] in Hstep; [|discriminate].
    inversion Hstep; subst f'; clear Hstep.
    pose proof (nested_total t (fst (stream_of s p d)) K) as T.
    destruct (nested_unmarshal t (fst (stream_of s p d))) as [[x k]| |] eqn:En; cbn [bind];
      [|split; [discriminate|intros; discriminate]|congruence].
    split; [discriminate|]. intros st' E. inversion E; subst st'.
    destruct f as [| |s' g]; try exact I. cbn [sem us_off leval us_read] in *. split; [reflexivity|].
    pose proof (nested_bound t _ x k En). unfold slen. lia.
  - (* UEmptyRet *)
    inversion Hstep; subst f'. destruct (slen (stream_of s p d) =? 0).
    + split; [discriminate|intros st' E; discriminate].
    + split; [discriminate|]. intros st' E. inversion E; subst st'. exact Hs.
  - (* UAdv *)
    destruct (simple a) eqn:Sa; [|discriminate]. inversion Hstep; subst f'.
    split; [discriminate|]. intros st' E. inversion E; subst st'. apply after_adv_sem; assumption.
  - (* ULet *)
    inversion Hstep; subst f'. split; [discriminate|]. intros st' E. inversion E; subst st'.
    apply forget_var_sem. exact Hs.
  - (* UReset *)
    inversion Hstep; subst f'. split; [discriminate|]. intros st' E. inversion E; subst st'. reflexivity.
  - discriminate.
Qed.

(* meaning of an analysis state: the unconditional fact holds, and the conditional one holds when its condition does *)
Definition sem2 (a : astate) (p d : sbuf) (st : ustate) : Prop :=
  sem (fst a) p d st /\
  match snd a with
  | Some (c, fc) => ucond_holds st c = true -> sem fc p d st
  | None => True
  end.

Lemma ucond_eqb_eq a b : ucond_eqb a b = true -> a = b.
Proof. destruct a, b; cbn [ucond_eqb]; intros H. apply N.eqb_eq in H. now subst. Qed.

Lemma base_of_sem a c p d st : sem2 a p d st -> ucond_holds st c = true -> sem (base_of a c) p d st.
Proof.
  intros [H1 H2] Hc. unfold base_of. destruct (snd a) as [[c' fc]|]; [|exact H1].
  destruct (ucond_eqb c c') eqn:E; [|exact H1]. apply ucond_eqb_eq in E. subst c'. exact (H2 Hc).
Qed.

Lemma forget_field_weaken f fld p d st : sem f p d st -> sem (forget_field f fld) p d st.
Proof.
  intros H. destruct f as [| |s e]; try exact H. cbn [forget_field].
  destruct (mentions_field e fld); [exact I|exact H].
Qed.

Lemma step_sound2 p d a u a' st : sem2 a p d st -> safe_step2 a u = Some a' ->
  uop_step p d st u <> Panic /\
  forall st', uop_step p d st u = Ok (UCont st') -> sem2 a' p d st'.
Proof.
  intros Hs Hstep.
  assert (Plain : forall f', safe_step (fst a) u = Some f' -> a' = (f', None) ->
            uop_step p d st u <> Panic /\ forall st', uop_step p d st u = Ok (UCont st') -> sem2 a' p d st').
  { intros f' E ->. destruct (step_sound p d (fst a) u f' st (proj1 Hs) E) as [T C].
    split; [exact T|]. intros st' Est. split; [apply C; exact Est|exact I]. }
  destruct u as [c u'|s e|s fld w en acc|s fld e|s fld w en e|s fld t e|s fld t|s|al|x e|s|txt];
    try (revert Hstep; cbn [safe_step2];
         destruct (safe_step (fst a) _) as [f'|] eqn:E; intros Hstep; [|discriminate]; inversion Hstep; subst a';
         apply (Plain f'); reflexivity).
  - (* UIf *)
    revert Hstep. cbn [safe_step2]. destruct (cond_body u') eqn:Cb; [|discriminate].
    destruct (safe_step (base_of a c) u') as [fc'|] eqn:E; intros Hstep; [|discriminate]. inversion Hstep; subst a'; clear Hstep.
    cbn [uop_step]. destruct (ucond_holds st c) eqn:Hc.
    + (* the block is entered *)
      destruct (step_sound p d (base_of a c) u' fc' st (base_of_sem a c p d st Hs Hc) E) as [T C].
      split; [exact T|]. intros st' Est. split; cbn [fst snd].
      * (* what still holds unconditionally *)
        destruct u' as [c2 u2|s e|s fld w en acc|s fld e|s fld w en e|s fld t e|s fld t|s|al|x e|s|txt]; cbn [cond_body] in Cb; try discriminate;
          cbn [uncond_after]; try exact I.
        -- (* UGuard: the state is unchanged *)
           cbn [uop_step] in Est.
           destruct (Z.ltb _ _) in Est; [discriminate|]. inversion Est; subst st'. exact (proj1 Hs).
        -- (* UInt *)
           cbn [uop_step] in Est.
           destruct (window _ _ _) as [win| |]; cbn [bind] in Est; try discriminate.
           destruct (match en with LE => go_le_uint w win | BE => go_be_uint w win end) as [n| |]; cbn [bind] in Est; try discriminate.
           inversion Est; subst st'. apply forget_field_sem. exact (proj1 Hs).
        -- (* UBytes *)
           cbn [uop_step] in Est.
           destruct (window _ _ _) as [win| |]; cbn [bind] in Est; try discriminate.
           inversion Est; subst st'. apply forget_field_sem. exact (proj1 Hs).
        -- (* UIntArr *)
           cbn [uop_step] in Est.
           destruct (window _ _ _) as [win| |]; cbn [bind] in Est; try discriminate.
           inversion Est; subst st'. apply forget_field_sem. exact (proj1 Hs).
      * intros _. apply C. exact Est.
    + (* the block is skipped: the state is unchanged *)
      split; [discriminate|]. intros st' Est. inversion Est; subst st'. split; cbn [fst snd].
      * destruct u' as [c2 u2|s e|s fld w en acc|s fld e|s fld w en e|s fld t e|s fld t|s|al|x e|s|txt]; cbn [cond_body] in Cb; try discriminate;
          cbn [uncond_after]; try exact I; try exact (proj1 Hs); apply forget_field_weaken; exact (proj1 Hs).
      * intros Hc'. congruence.
  - (* ULet *)
    revert Hstep. cbn [safe_step2]. destruct (String.eqb x wc_var); [discriminate|].
    destruct (safe_step (fst a) (ULet x e)) as [f'|] eqn:E; intros Hstep; [|discriminate]. inversion Hstep; subst a'.
    apply (Plain f'); reflexivity.
Qed.

Lemma uops_sound p d us : forall a st, sem2 a p d st -> safe_uops a us = true -> uops_run p d st us <> Panic.
Proof.
  induction us as [|u us IH]; intros a st Hs H; cbn [safe_uops uops_run] in *; [discriminate|].
  destruct (safe_step2 a u) as [a'|] eqn:E; [|discriminate].
  destruct (step_sound2 p d a u a' st Hs E) as [T C].
  destruct (uop_step p d st u) as [[st'|st']| |]; cbn [bind]; [|discriminate|discriminate|congruence].
  apply (IH a' st'); [apply C; reflexivity|exact H].
Qed.

(* ---------------- the two blocks in front of the fields ---------------- *)

Lemma params_consumed_bound data pp n : params_unmarshal data = Ok (pp, n) -> n <= lenN data.
Proof.
  unfold params_unmarshal. destruct (N.eqb_spec (lenN data) 0) as [|H0]; [discriminate|].
  destruct (go_index data 0) as [wc| |]; try discriminate. cbn [bind].
  rewrite go_from_ok by lia. cbn [bind].
  assert (L : lenN (skipn (N.to_nat 1) data) = lenN data - 1) by (unfold lenN; rewrite skipn_length; lia).
  destruct (0 <? wc).
  - destruct (N.ltb_spec (lenN (skipn (N.to_nat 1) data)) (wc * 2)); [discriminate|].
    destruct (params_read_words _ 0 (N.to_nat wc)); try discriminate. cbn [bind]. intros E.
    assert (En : 1 + wc * 2 = n) by congruence. lia.
  - intros E. assert (En : 1 = n) by congruence. lia.
Qed.

Lemma data_consumed_bound rest dd k : data_unmarshal rest = Ok (dd, k) ->
  lenN (d_bytes dd) = 0 \/ 2 + lenN (d_bytes dd) <= lenN rest.
Proof.
  unfold data_unmarshal. destruct (lenN rest =? 0); [discriminate|].
  destruct (N.ltb_spec (lenN rest) 2); [discriminate|].
  destruct (go_upto rest 2) as [h| |]; try discriminate. cbn [bind].
  destruct (go_le_uint 2 h) as [bc| |]; try discriminate. cbn [bind].
  rewrite go_from_ok by lia. cbn [bind].
  assert (L : lenN (skipn (N.to_nat 2) rest) = lenN rest - 2) by (unfold lenN; rewrite skipn_length; lia).
  destruct (0 <? bc).
  - destruct (N.ltb_spec (lenN (skipn (N.to_nat 2) rest)) bc); [discriminate|].
    rewrite go_upto_ok by lia. cbn [bind]. intros E.
    assert (Ed : mk_data bc (firstn (N.to_nat bc) (skipn (N.to_nat 2) rest)) = dd) by congruence.
    subst dd. cbn [d_bytes]. right. unfold lenN in *. rewrite firstn_length, skipn_length. lia.
  - intros E. assert (Ed : mk_data bc [] = dd) by congruence. subst dd. left. reflexivity.
Qed.

Theorem cmd_safe_total c : cmd_safe c = true -> forall v0 data, cmd_unmarshal c v0 data <> Panic.
Proof.
  intros Hsafe v0 data. unfold cmd_unmarshal.
  pose proof (params_total data) as TP.
  destruct (params_unmarshal data) as [[pp n]| |] eqn:EP; cbn [bind]; [|discriminate|congruence].
  rewrite go_from_ok by (eapply params_consumed_bound; eassumption). cbn [bind].
  set (rest := skipn (N.to_nat n) data).
  pose proof (data_total rest) as TD.
  destruct (data_unmarshal rest) as [[dd k]| |] eqn:ED; cbn [bind]; [|discriminate|congruence].
  match goal with |- (if ?b then _ else _) <> _ => destruct b end; [discriminate|].
  assert (DH : exists dh, (if lenN (data_get_bytes dd) =? 0 then Ok []
                           else go_from rest (2 + lenN (data_get_bytes dd))) = Ok dh).
  { unfold data_get_bytes. destruct (N.eqb_spec (lenN (d_bytes dd)) 0); [eauto|].
    destruct (data_consumed_bound rest dd k ED) as [|Hb]; [contradiction|]. rewrite go_from_ok by exact Hb. eauto. }
  destruct DH as [dh ->]. cbn [bind].
  match goal with |- (let* st := uops_run ?p ?d ?st0 ?us in _) <> _ =>
    pose proof (uops_sound p d us (FZero, None) st0 (conj eq_refl I) Hsafe) as TU;
    destruct (uops_run p d st0 us); cbn [bind]; [discriminate|discriminate|congruence]
  end.
Qed.
