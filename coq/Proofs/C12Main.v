(* C12: final forms of the theorems (corollaries and instances), restated in Properties/C12.v. *)
From Coq Require Import List Arith NArith Lia Bool.
From Coq Require Import ZifyN ZifyNat ZifyBool.
From Mant Require Import Prim.R Prim.Bytes Algo.Word Algo.AES Algo.DES Algo.RC4 Algo.CMAC Algo.Base64 Algo.Utf16 Algo.Utf8.
From Mant Require Import Proofs.AlgoProofs.
From Mant Require Import Model.Rc4Go Model.CmacGo Model.Pkcs7 Model.Gppp Gen.ConstsC12 Spec.C12.
From Mant Require Import Proofs.C12Rc4 Proofs.C12Cmac Proofs.C12Pkcs7 Proofs.C12Gppp Proofs.C12AesInv.
Import ListNotations.
Open Scope N_scope.

(* ---------------- CMAC corollaries ---------------- *)

Section CmacCorollaries.
  Variable E : list N -> list N.
  Variable n : nat.
  Hypothesis E_len : forall x, length x = n -> length (E x) = n.
  Hypothesis E_wf : forall x, length x = n -> wf_bytes x -> wf_bytes (E x).
  Variable d0 : cmst.
  Hypothesis Hnew : cm_new E n = Ok d0.

  (* any way of cutting the message into Write calls *)
  Theorem cmac_chunking chunks inp :
    fst (cm_sum E (cm_run E d0 (map OpWrite chunks)) inp) = inp ++ cmac_spec E n (stream_of chunks).
  Proof. rewrite (cmac_stream_spec E n E_len E_wf d0 _ inp Hnew). now rewrite written_writes. Qed.

  (* an earlier Sum call, anywhere, with any argument, does not change a later result *)
  Theorem cmac_sum_invisible ops1 inp' ops2 inp :
    fst (cm_sum E (cm_run E d0 (ops1 ++ OpSum inp' :: ops2)) inp) =
    fst (cm_sum E (cm_run E d0 (ops1 ++ ops2)) inp).
  Proof. rewrite !(cmac_stream_spec E n E_len E_wf d0 _ inp Hnew). now rewrite written_sum. Qed.

  (* after Reset the object answers like a fresh one *)
  Theorem cmac_reset_fresh ops1 ops2 inp :
    fst (cm_sum E (cm_run E d0 (ops1 ++ OpReset :: ops2)) inp) =
    fst (cm_sum E (cm_run E d0 ops2) inp).
  Proof. rewrite !(cmac_stream_spec E n E_len E_wf d0 _ inp Hnew). now rewrite written_reset. Qed.
End CmacCorollaries.

(* ---------------- CMAC instances: the hypotheses hold for AES and DES ---------------- *)

Lemma aes_E_len key x : length x = 16%nat -> length (aes_cipher (aes_round_keys key) x) = 16%nat.
Proof. apply aes_cipher_length. Qed.

Lemma aes_E_wf key : wf_bytes key ->
  forall x, length x = 16%nat -> wf_bytes x -> wf_bytes (aes_cipher (aes_round_keys key) x).
Proof. intros Hk x _ Hx. apply aes_cipher_wf; [now apply aes_round_keys_wf | exact Hx]. Qed.

Theorem cmac_aes_stream key ops inp :
  wf_bytes key ->
  exists d0, cm_new (aes_cipher (aes_round_keys key)) 16 = Ok d0 /\
    fst (cm_sum (aes_cipher (aes_round_keys key)) (cm_run (aes_cipher (aes_round_keys key)) d0 ops) inp)
    = inp ++ cmac_aes key (written ops).
Proof.
  intros Hk. set (E := aes_cipher (aes_round_keys key)).
  pose proof (cm_new_spec E 16 (or_intror eq_refl) (aes_E_len key) (aes_E_wf key Hk)) as Hnew.
  eexists. split; [exact Hnew|].
  apply (cmac_stream_spec E 16 (aes_E_len key) (aes_E_wf key Hk) _ ops inp Hnew).
Qed.

Theorem cmac_des_stream key ops inp :
  exists d0, cm_new (des_crypt (des_subkeys key)) 8 = Ok d0 /\
    fst (cm_sum (des_crypt (des_subkeys key)) (cm_run (des_crypt (des_subkeys key)) d0 ops) inp)
    = inp ++ cmac_des key (written ops).
Proof.
  set (E := des_crypt (des_subkeys key)).
  assert (HL : forall x, length x = 8%nat -> length (E x) = 8%nat) by (intros; apply des_crypt_length).
  assert (HW : forall x, length x = 8%nat -> wf_bytes x -> wf_bytes (E x)) by (intros; apply des_crypt_wf).
  pose proof (cm_new_spec E 8 (or_introl eq_refl) HL HW) as Hnew.
  eexists. split; [exact Hnew|].
  apply (cmac_stream_spec E 8 HL HW _ ops inp Hnew).
Qed.

(* ---------------- GPP instance ---------------- *)

Lemma aes_block_dec_enc b :
  length b = 16%nat -> wf_bytes b ->
  aes_block_dec c12_gppp_aes_key (aes_block_enc c12_gppp_aes_key b) = b.
Proof. intros Hl Hw. unfold aes_block_dec, aes_block_enc. apply aes_decrypt_encrypt; [apply gppp_key_wf|exact Hl|exact Hw]. Qed.

Theorem gppp_roundtrip_aes :
  forall cps, Forall scalar_value cps ->
  exists enc,
    gppp_encrypt (utf8_encode cps) = Ok enc /\
    gppp_decrypt_b64 enc = Ok (utf8_encode cps) /\
    exists ct, b64_decode enc = Some ct /\ gppp_decrypt_bytes ct = Ok (utf8_encode cps).
Proof.
  intros cps Hcps.
  exact (gppp_roundtrip aes_block_enc aes_block_dec c12_gppp_aes_key eq_refl
           (aes_block_enc_len c12_gppp_aes_key) aes_block_enc_wf aes_block_dec_enc cps Hcps).
Qed.

Theorem gppp_decrypt_bytes_total ct : gppp_decrypt_bytes ct <> Panic.
Proof. apply gppp_decrypt_bytes_with_total. Qed.

Theorem gppp_decrypt_b64_total s : gppp_decrypt_b64 s <> Panic.
Proof. apply gppp_decrypt_b64_with_total. Qed.

Theorem gppp_encrypt_total s : exists enc, gppp_encrypt s = Ok enc.
Proof. eexists. apply gppp_encrypt_is_aes256cbc. Qed.
