(* C10 proofs, part 3: packet.go against RFC 1002 4.2.
   A. Marshal of a legitimate packet writes exactly the bytes of the RFC 1002 writer.
   B. Unmarshal reads every packet of the RFC 1002 writer (uncompressed names).
   C. Consequences: round trip, the RFC reader reads the library's packets. *)
From Coq Require Import List Arith NArith Lia Bool.
From Coq Require Import ZifyN ZifyNat ZifyBool.
From Mant Require Import Prim.R Prim.Bytes Model.NbName Model.NbPacket Spec.C10 Spec.C10View
  Proofs.C10Name Proofs.C10Spec.
Import ListNotations.
Open Scope N_scope.

(* ================================================================== A. Marshal *)

Lemma lenN_encoded_pad name : (length name <= 16)%nat -> lenN (flat_map half_ascii (nb_pad name)) = 32.
Proof. intros H. unfold lenN. rewrite length_encoded, length_nb_pad by exact H. reflexivity. Qed.

Lemma flat_map_wrap8 ls :
  Forall (fun l => lenN l < 256) ls ->
  flat_map (fun l => wrap8 (lenN l) :: l) ls = flat_map rfc_label_wire ls.
Proof.
  induction 1 as [|l ls Hl Hls IH]; [reflexivity|].
  cbn [flat_map]. rewrite IH. unfold rfc_label_wire, wrap8. rewrite N.mod_small by exact Hl. reflexivity.
Qed.

Lemma scope_labels_short s : scope_ok s -> Forall (fun l => lenN l < 256) (scope_labels s).
Proof.
  unfold scope_ok. intros H. eapply Forall_impl; [|exact H].
  intros l (_ & Hlen & _). unfold lenN. lia.
Qed.

Lemma append_name_rfc n : nbname_ok n -> append_name (Some n) = Ok (rfc_name_wire (view_name n)).
Proof.
  destruct n as [name scope]. intros (Hname & Hscope & Hoct). cbn [nb_name nb_scope] in *.
  unfold append_name. rewrite first_level_encode_rfc by assumption. cbn [bind].
  unfold rfc1001_encode, rfc_name_wire, view_name. cbn [rn_raw rn_scope nb_name nb_scope].
  destruct Hname as (Hwf & Hlen & Hstar).
  pose proof (encoded_no_dot _ (wf_nb_pad name Hwf)) as Hnd.
  pose proof (lenN_encoded_pad name Hlen) as H32.
  set (E := flat_map half_ascii (nb_pad name)) in *.
  destruct scope as [|c r].
  - rewrite app_nil_r, H32. cbn [N.add N.ltb N.compare Pos.add Pos.compare Pos.compare_cont Pos.succ].
    rewrite split_dot_nodot by exact Hnd.
    rewrite flat_map_wrap8 by (constructor; [lia|constructor]). reflexivity.
  - unfold name_wire_octets in Hoct.
    assert (Hl : 255 <? lenN (E ++ 46 :: c :: r) + 2 = false).
    { rewrite lenN_app, lenN_cons, H32. lia. }
    rewrite Hl. fold dot. rewrite split_dot_app by exact Hnd.
    rewrite <- scope_labels_split_dot by discriminate.
    rewrite flat_map_wrap8; [reflexivity|].
    constructor; [lia|]. now apply scope_labels_short.
Qed.

Lemma marshal_list_ok {A} (f : A -> R (list N)) (g : A -> list N) l :
  Forall (fun x => f x = Ok (g x)) l -> marshal_list f l = Ok (flat_map g l).
Proof.
  induction 1 as [|x l Hx Hl IH]; [reflexivity|].
  cbn [marshal_list flat_map]. rewrite Hx, IH. reflexivity.
Qed.

Lemma marshal_question_rfc q : question_ok q -> marshal_question q = Ok (rfc_question_wire (view_question q)).
Proof.
  destruct q as [[n|] ty cl]; intros (Hn & Ht & Hc); cbn [q_name oname_ok] in *; [|contradiction].
  unfold marshal_question. cbn [q_name q_type q_class]. rewrite append_name_rfc by exact Hn. reflexivity.
Qed.

Lemma marshal_rr_rfc r : rr_ok r -> marshal_rr r = Ok (rfc_rr_wire (view_rr r)).
Proof.
  destruct r as [[n|] ty cl ttl rdl rd]; intros (Hn & Ht & Hc & Httl & Hrdl & Hlen & Hrd);
    cbn [rr_name oname_ok rr_rdlength rr_rdata] in *; [|contradiction].
  unfold marshal_rr. cbn [rr_name rr_type rr_class rr_ttl rr_rdlength rr_rdata].
  rewrite append_name_rfc by exact Hn. subst rdl. reflexivity.
Qed.

Lemma lenN_map {A B} (f : A -> B) l : lenN (map f l) = lenN l.
Proof. unfold lenN. now rewrite map_length. Qed.

Lemma flat_map_map {A B C} (f : A -> B) (g : B -> list C) l : flat_map g (map f l) = flat_map (fun x => g (f x)) l.
Proof. induction l as [|x l IH]; [reflexivity|]. cbn [map flat_map]. now rewrite IH. Qed.

Theorem marshal_rfc p : packet_ok p -> marshal p = Ok (rfc1002_encode (packet_view p)).
Proof.
  intros (Hid & Hfl & Hqd & Han & Hns & Har & _ & _ & _ & _ & Fq & Fa & Fn & Fr).
  unfold marshal.
  rewrite (marshal_list_ok marshal_question (fun q => rfc_question_wire (view_question q)))
    by (eapply Forall_impl; [|exact Fq]; apply marshal_question_rfc).
  rewrite !(marshal_list_ok marshal_rr (fun r => rfc_rr_wire (view_rr r)))
    by (eapply Forall_impl; [|eassumption]; apply marshal_rr_rfc).
  cbn [bind]. unfold rfc1002_encode, packet_view, marshal_header.
  cbn [rp_id rp_flags rp_questions rp_answers rp_authority rp_additional].
  rewrite !lenN_map, !flat_map_map, Hqd, Han, Hns, Har.
  unfold be16. rewrite <- !app_assoc. reflexivity.
Qed.

(* the view of a legitimate packet is a well-formed RFC packet *)
Lemma view_name_wf n : nbname_ok n -> rfc_name_wf (view_name n).
Proof.
  destruct n as [name scope]. intros ((Hwf & Hlen & _) & Hscope & _). cbn [nb_name nb_scope] in *.
  unfold rfc_name_wf, view_name. cbn [rn_raw rn_scope nb_name nb_scope].
  split; [now apply wf_nb_pad|]. split; [now apply length_nb_pad|].
  unfold scope_ok in Hscope. eapply Forall_impl; [|exact Hscope]. intros l (H1 & H2 & _). now split.
Qed.

Theorem packet_view_wf p : packet_ok p -> rfc_packet_wf (packet_view p).
Proof.
  intros (Hid & Hfl & Hqd & Han & Hns & Har & Lq & La & Ln & Lr & Fq & Fa & Fn & Fr).
  unfold rfc_packet_wf, packet_view. cbn [rp_id rp_flags rp_questions rp_answers rp_authority rp_additional].
  rewrite !lenN_map.
  assert (Hrr : forall l, Forall rr_ok l -> Forall rfc_rr_wf (map view_rr l)).
  { intros l Hl. apply Forall_map. eapply Forall_impl; [|exact Hl].
    intros [[n|] ty cl ttl rdl rd] (Hn & Ht & Hc & Httl & Hrdl & Hlen & Hrd); cbn in Hn; [|contradiction].
    unfold rfc_rr_wf, view_rr. cbn. repeat split; try assumption; now apply view_name_wf. }
  repeat split; try assumption; try (now apply Hrr).
  apply Forall_map. eapply Forall_impl; [|exact Fq].
  intros [[n|] ty cl] (Hn & Ht & Hc); cbn in Hn; [|contradiction].
  unfold rfc_question_wf, view_question. cbn. repeat split; try assumption; now apply view_name_wf.
Qed.

(* ================================================================== B. Unmarshal *)

Lemma go_index_app {A} (a : list A) x r : go_index (a ++ x :: r) (lenN a) = Ok x.
Proof.
  unfold go_index. rewrite lenN_app, lenN_cons.
  destruct (N.ltb_spec (lenN a) (lenN a + (1 + lenN r))); [|lia].
  unfold lenN. rewrite Nat2N.id, nth_error_app2, Nat.sub_diag by lia. reflexivity.
Qed.

Lemma go_slice_split {A} (data a b c : list A) lo hi :
  data = a ++ b ++ c -> lo = lenN a -> hi = lenN a + lenN b -> go_slice data lo hi = Ok b.
Proof. intros -> -> ->. apply go_slice_app_mid. Qed.

Lemma read_u16_at data a x c off :
  data = a ++ be_bytes 2 x ++ c -> off = lenN a -> x < 65536 -> read_u16 data off = Ok x.
Proof.
  intros Hd Ho Hx. unfold read_u16.
  rewrite (go_slice_split data a (be_bytes 2 x) c) by (auto; rewrite lenN_be_bytes; lia).
  cbn [bind]. rewrite <- (app_nil_r (be_bytes 2 x)), go_be_uint_app.
  rewrite N.mod_small; [reflexivity|exact Hx].
Qed.

Lemma read_u32_at data a x c off :
  data = a ++ be_bytes 4 x ++ c -> off = lenN a -> x < 4294967296 -> read_u32 data off = Ok x.
Proof.
  intros Hd Ho Hx. unfold read_u32.
  rewrite (go_slice_split data a (be_bytes 4 x) c) by (auto; rewrite lenN_be_bytes; lia).
  cbn [bind]. rewrite <- (app_nil_r (be_bytes 4 x)), go_be_uint_app.
  rewrite N.mod_small; [reflexivity|exact Hx].
Qed.

Ltac data_eq := subst; rewrite <- ?app_assoc; cbn [app]; reflexivity.
Ltac off_eq := subst; repeat (rewrite lenN_app || rewrite lenN_cons || rewrite lenN_be_bytes || rewrite lenN_nil);
  cbn [N.of_nat Pos.of_succ_nat Pos.succ]; lia.

Lemma read_labels_wire labels : forall fuel data pre rest acc,
  Forall label_wf labels -> (length labels < fuel)%nat ->
  data = pre ++ flat_map rfc_label_wire labels ++ 0 :: rest ->
  read_labels fuel data (lenN pre) acc
  = Ok (acc ++ labels, lenN pre + lenN (flat_map rfc_label_wire labels) + 1).
Proof.
  induction labels as [|l ls IH]; intros fuel data pre rest acc Hwf Hfuel Hdata.
  - destruct fuel as [|f]; [simpl in Hfuel; lia|].
    cbn [flat_map app] in Hdata. cbn [read_labels].
    assert (H1 : lenN data <=? lenN pre = false) by (subst data; rewrite lenN_app, lenN_cons; lia).
    rewrite H1. subst data. rewrite go_index_app. cbn [bind N.eqb].
    rewrite app_nil_r. cbn [flat_map]. rewrite lenN_nil. f_equal. f_equal. lia.
  - destruct fuel as [|f]; [simpl in Hfuel; lia|].
    apply Forall_cons_iff in Hwf. destruct Hwf as [[Hne Hlen] Hwf'].
    cbn [flat_map rfc_label_wire] in Hdata.
    assert (Hdata' : data = pre ++ lenN l :: l ++ flat_map rfc_label_wire ls ++ 0 :: rest) by data_eq.
    cbn [read_labels].
    assert (H1 : lenN data <=? lenN pre = false) by (rewrite Hdata', lenN_app, lenN_cons; lia).
    rewrite H1. rewrite Hdata' at 1. rewrite go_index_app. cbn [bind].
    assert (H0 : lenN l =? 0 = false) by (destruct l; [contradiction|rewrite lenN_cons; lia]).
    assert (H2 : 63 <? lenN l = false) by (unfold lenN; lia).
    assert (H3 : lenN data <? lenN pre + 1 + lenN l = false)
      by (rewrite Hdata', lenN_app, lenN_cons, lenN_app; lia).
    rewrite H0, H2, H3.
    rewrite (go_slice_split data (pre ++ [lenN l]) l (flat_map rfc_label_wire ls ++ 0 :: rest))
      by (try data_eq; off_eq).
    cbn [bind].
    replace (lenN pre + 1 + lenN l) with (lenN (pre ++ lenN l :: l)) by off_eq.
    rewrite (IH f data (pre ++ lenN l :: l) rest (acc ++ [l])); [|exact Hwf'|simpl in Hfuel; lia|data_eq].
    rewrite <- app_assoc. cbn [app flat_map rfc_label_wire]. f_equal. f_equal. off_eq.
Qed.

Lemma join_dot_dotted ls : join_dot ls = dotted ls.
Proof.
  destruct ls as [|l ls]; [reflexivity|]. revert l.
  induction ls as [|m ls IH]; intros l.
  - cbn. now rewrite app_nil_r.
  - cbn [join_dot dotted flat_map] in *. rewrite IH. cbn [app]. reflexivity.
Qed.

Lemma nb_pad_16 raw : length raw = 16%nat -> nb_pad raw = raw.
Proof. intros H. unfold nb_pad. rewrite H. cbn [Nat.sub repeatN]. apply app_nil_r. Qed.

Lemma join_dot_encoded raw scope :
  length raw = 16%nat -> Forall label_wf scope ->
  join_dot (flat_map half_ascii raw :: scope) = rfc1001_encode raw (join_dot scope).
Proof.
  intros Hlen Hscope. unfold rfc1001_encode. rewrite nb_pad_16 by exact Hlen.
  destruct scope as [|l ls]; [cbn; now rewrite app_nil_r|].
  change (join_dot (flat_map half_ascii raw :: l :: ls)) with (flat_map half_ascii raw ++ dot :: join_dot (l :: ls)).
  inversion Hscope as [|? ? [Hne _] _]; subst.
  destruct (join_dot (l :: ls)) eqn:E; [|reflexivity].
  exfalso. destruct l as [|c l]; [contradiction|]. destruct ls; cbn in E; discriminate.
Qed.

Lemma read_name_wire data pre n rest :
  rfc_name_wf n -> data = pre ++ rfc_name_wire n ++ rest ->
  read_name data (lenN pre) = Ok (lib_name n, lenN pre + lenN (rfc_name_wire n)).
Proof.
  destruct n as [raw scope]. intros (Hwf & Hlen & Hscope) Hdata. cbn [rn_raw rn_scope] in *.
  unfold read_name, rfc_name_wire in *. cbn [rn_raw rn_scope] in *.
  set (labels := flat_map half_ascii raw :: scope) in *.
  assert (Hlw : Forall label_wf labels).
  { constructor; [|exact Hscope]. split; [destruct raw; discriminate|]. rewrite length_encoded, Hlen. lia. }
  rewrite (read_labels_wire labels (S (length data)) data pre rest []); [|exact Hlw| |data_eq].
  - cbn [bind app]. unfold labels. rewrite join_dot_encoded by assumption.
    rewrite first_level_decode_rfc by (auto; lia). cbn [bind].
    unfold lib_name. cbn [rn_raw rn_scope]. rewrite join_dot_dotted.
    f_equal. f_equal. rewrite lenN_app, lenN_cons, lenN_nil. lia.
  - pose proof (length_flat_map_labels labels). subst data. rewrite !app_length. lia.
Qed.

Lemma read_questions_wire qs : forall data pre rest,
  Forall rfc_question_wf qs -> data = pre ++ flat_map rfc_question_wire qs ++ rest ->
  read_questions (length qs) data (lenN pre)
  = Ok (map lib_question qs, lenN pre + lenN (flat_map rfc_question_wire qs)).
Proof.
  induction qs as [|q qs IH]; intros data pre rest Hwf Hdata.
  - cbn. f_equal. f_equal. lia.
  - apply Forall_cons_iff in Hwf. destruct Hwf as [(Hn & Ht & Hc) Hwf'].
    cbn [length read_questions flat_map] in *. unfold rfc_question_wire at 1 in Hdata.
    set (nw := rfc_name_wire (rq_name q)) in *.
    set (tail := flat_map rfc_question_wire qs ++ rest) in *.
    assert (Hdata' : data = pre ++ nw ++ be_bytes 2 (rq_type q) ++ be_bytes 2 (rq_class q) ++ tail) by data_eq.
    rewrite (read_name_wire data pre (rq_name q) (be_bytes 2 (rq_type q) ++ be_bytes 2 (rq_class q) ++ tail))
      by (auto; exact Hdata').
    cbn [bind]. fold nw.
    assert (H1 : lenN data <? lenN pre + lenN nw + 4 = false) by (rewrite Hdata'; rewrite !lenN_app, !lenN_be_bytes; lia).
    rewrite H1.
    rewrite (read_u16_at data (pre ++ nw) (rq_type q) (be_bytes 2 (rq_class q) ++ tail)) by (try data_eq; try off_eq; auto).
    cbn [bind].
    rewrite (read_u16_at data ((pre ++ nw) ++ be_bytes 2 (rq_type q)) (rq_class q) tail) by (try data_eq; try off_eq; auto).
    cbn [bind].
    replace (lenN pre + lenN nw + 4) with (lenN (pre ++ nw ++ be_bytes 2 (rq_type q) ++ be_bytes 2 (rq_class q))) by off_eq.
    rewrite (IH data _ rest Hwf') by (unfold tail in *; data_eq).
    cbn [bind map]. unfold lib_question at 2. f_equal. f_equal.
    unfold rfc_question_wire at 2. fold nw. off_eq.
Qed.

Lemma read_rrs_wire rrs : forall data pre rest,
  Forall rfc_rr_wf rrs -> data = pre ++ flat_map rfc_rr_wire rrs ++ rest ->
  read_rrs (length rrs) data (lenN pre)
  = Ok (map lib_rr rrs, lenN pre + lenN (flat_map rfc_rr_wire rrs)).
Proof.
  induction rrs as [|r rrs IH]; intros data pre rest Hwf Hdata.
  - cbn. f_equal. f_equal. lia.
  - apply Forall_cons_iff in Hwf. destruct Hwf as [(Hn & Ht & Hc & Httl & Hrdl & Hrd) Hwf'].
    cbn [length read_rrs flat_map] in *. unfold rfc_rr_wire at 1 in Hdata.
    set (nw := rfc_name_wire (rr_rname r)) in *.
    set (tail := flat_map rfc_rr_wire rrs ++ rest) in *.
    set (ty := be_bytes 2 (rr_rtype r)) in *. set (cl := be_bytes 2 (rr_rclass r)) in *.
    set (ttl := be_bytes 4 (rr_rttl r)) in *. set (rdl := be_bytes 2 (lenN (rr_rrdata r))) in *.
    assert (Hdata' : data = pre ++ nw ++ ty ++ cl ++ ttl ++ rdl ++ rr_rrdata r ++ tail) by data_eq.
    assert (Lty : lenN ty = 2) by apply lenN_be_bytes. assert (Lcl : lenN cl = 2) by apply lenN_be_bytes.
    assert (Lttl : lenN ttl = 4) by apply lenN_be_bytes. assert (Lrdl : lenN rdl = 2) by apply lenN_be_bytes.
    rewrite (read_name_wire data pre (rr_rname r) (ty ++ cl ++ ttl ++ rdl ++ rr_rrdata r ++ tail))
      by (auto; exact Hdata').
    cbn [bind]. fold nw.
    assert (H1 : lenN data <? lenN pre + lenN nw + 10 = false) by (rewrite Hdata'; rewrite !lenN_app; lia).
    rewrite H1.
    rewrite (read_u16_at data (pre ++ nw) (rr_rtype r) (cl ++ ttl ++ rdl ++ rr_rrdata r ++ tail))
      by (try (rewrite Hdata'; unfold ty; rewrite <- ?app_assoc; reflexivity); try (rewrite lenN_app; lia); auto).
    cbn [bind].
    rewrite (read_u16_at data (pre ++ nw ++ ty) (rr_rclass r) (ttl ++ rdl ++ rr_rrdata r ++ tail))
      by (try (rewrite Hdata'; unfold cl; rewrite <- ?app_assoc; reflexivity); try (rewrite !lenN_app; lia); auto).
    cbn [bind].
    rewrite (read_u32_at data (pre ++ nw ++ ty ++ cl) (rr_rttl r) (rdl ++ rr_rrdata r ++ tail))
      by (try (rewrite Hdata'; unfold ttl; rewrite <- ?app_assoc; reflexivity); try (rewrite !lenN_app; lia); auto).
    cbn [bind].
    rewrite (read_u16_at data (pre ++ nw ++ ty ++ cl ++ ttl) (lenN (rr_rrdata r)) (rr_rrdata r ++ tail))
      by (try (rewrite Hdata'; unfold rdl; rewrite <- ?app_assoc; reflexivity); try (rewrite !lenN_app; lia); auto).
    cbn [bind].
    assert (H2 : lenN data <? lenN pre + lenN nw + 10 + lenN (rr_rrdata r) = false)
      by (rewrite Hdata'; rewrite !lenN_app; lia).
    rewrite H2.
    rewrite (go_slice_split data (pre ++ nw ++ ty ++ cl ++ ttl ++ rdl) (rr_rrdata r) tail)
      by (try (rewrite Hdata'; rewrite <- ?app_assoc; reflexivity); rewrite !lenN_app; lia).
    cbn [bind].
    replace (lenN pre + lenN nw + 10 + lenN (rr_rrdata r))
      with (lenN (pre ++ nw ++ ty ++ cl ++ ttl ++ rdl ++ rr_rrdata r)) by (rewrite !lenN_app; lia).
    rewrite (IH data _ rest Hwf') by (rewrite Hdata'; unfold tail; rewrite <- ?app_assoc; reflexivity).
    cbn [bind map]. unfold lib_rr at 2. f_equal. f_equal.
    unfold rfc_rr_wire at 2. fold nw ty cl ttl rdl. rewrite !lenN_app. lia.
Qed.

Theorem unmarshal_rfc v : rfc_packet_wf v ->
  unmarshal (rfc1002_encode v) = Ok (lenN (rfc1002_encode v), lib_packet v).
Proof.
  intros (Hid & Hfl & Hq & Ha & Hn & Hr & Hqs & Han & Hns & Har).
  unfold unmarshal.
  set (data := rfc1002_encode v).
  set (b1 := be_bytes 2 (rp_id v)). set (b2 := be_bytes 2 (rp_flags v)).
  set (b3 := be_bytes 2 (lenN (rp_questions v))). set (b4 := be_bytes 2 (lenN (rp_answers v))).
  set (b5 := be_bytes 2 (lenN (rp_authority v))). set (b6 := be_bytes 2 (lenN (rp_additional v))).
  set (wq := flat_map rfc_question_wire (rp_questions v)). set (wa := flat_map rfc_rr_wire (rp_answers v)).
  set (wn := flat_map rfc_rr_wire (rp_authority v)). set (wr := flat_map rfc_rr_wire (rp_additional v)).
  assert (Hdata : data = b1 ++ b2 ++ b3 ++ b4 ++ b5 ++ b6 ++ wq ++ wa ++ wn ++ wr) by reflexivity.
  assert (L1 : lenN b1 = 2) by apply lenN_be_bytes. assert (L2 : lenN b2 = 2) by apply lenN_be_bytes.
  assert (L3 : lenN b3 = 2) by apply lenN_be_bytes. assert (L4 : lenN b4 = 2) by apply lenN_be_bytes.
  assert (L5 : lenN b5 = 2) by apply lenN_be_bytes. assert (L6 : lenN b6 = 2) by apply lenN_be_bytes.
  clearbody data.
  assert (H12 : lenN data <? 12 = false) by (rewrite Hdata, !lenN_app; lia).
  rewrite H12.
  rewrite (read_u16_at data [] (rp_id v) (b2 ++ b3 ++ b4 ++ b5 ++ b6 ++ wq ++ wa ++ wn ++ wr)) by (auto).
  cbn [bind].
  rewrite (read_u16_at data b1 (rp_flags v) (b3 ++ b4 ++ b5 ++ b6 ++ wq ++ wa ++ wn ++ wr)) by (auto).
  cbn [bind].
  rewrite (read_u16_at data (b1 ++ b2) (lenN (rp_questions v)) (b4 ++ b5 ++ b6 ++ wq ++ wa ++ wn ++ wr))
    by (try (rewrite Hdata, <- ?app_assoc; reflexivity); try (rewrite !lenN_app; lia); auto).
  cbn [bind].
  rewrite (read_u16_at data (b1 ++ b2 ++ b3) (lenN (rp_answers v)) (b5 ++ b6 ++ wq ++ wa ++ wn ++ wr))
    by (try (rewrite Hdata, <- ?app_assoc; reflexivity); try (rewrite !lenN_app; lia); auto).
  cbn [bind].
  rewrite (read_u16_at data (b1 ++ b2 ++ b3 ++ b4) (lenN (rp_authority v)) (b6 ++ wq ++ wa ++ wn ++ wr))
    by (try (rewrite Hdata, <- ?app_assoc; reflexivity); try (rewrite !lenN_app; lia); auto).
  cbn [bind].
  rewrite (read_u16_at data (b1 ++ b2 ++ b3 ++ b4 ++ b5) (lenN (rp_additional v)) (wq ++ wa ++ wn ++ wr))
    by (try (rewrite Hdata, <- ?app_assoc; reflexivity); try (rewrite !lenN_app; lia); auto).
  cbn [bind].
  rewrite !to_nat_lenN.
  replace 12 with (lenN (b1 ++ b2 ++ b3 ++ b4 ++ b5 ++ b6)) by (rewrite !lenN_app; lia).
  rewrite (read_questions_wire (rp_questions v) data _ (wa ++ wn ++ wr) Hqs)
    by (rewrite Hdata, <- ?app_assoc; reflexivity).
  cbn [bind]. fold wq.
  replace (lenN (b1 ++ b2 ++ b3 ++ b4 ++ b5 ++ b6) + lenN wq) with (lenN (b1 ++ b2 ++ b3 ++ b4 ++ b5 ++ b6 ++ wq))
    by (rewrite !lenN_app; lia).
  rewrite (read_rrs_wire (rp_answers v) data _ (wn ++ wr) Han) by (rewrite Hdata, <- ?app_assoc; reflexivity).
  cbn [bind]. fold wa.
  replace (lenN (b1 ++ b2 ++ b3 ++ b4 ++ b5 ++ b6 ++ wq) + lenN wa)
    with (lenN (b1 ++ b2 ++ b3 ++ b4 ++ b5 ++ b6 ++ wq ++ wa)) by (rewrite !lenN_app; lia).
  rewrite (read_rrs_wire (rp_authority v) data _ wr Hns) by (rewrite Hdata, <- ?app_assoc; reflexivity).
  cbn [bind]. fold wn.
  replace (lenN (b1 ++ b2 ++ b3 ++ b4 ++ b5 ++ b6 ++ wq ++ wa) + lenN wn)
    with (lenN (b1 ++ b2 ++ b3 ++ b4 ++ b5 ++ b6 ++ wq ++ wa ++ wn)) by (rewrite !lenN_app; lia).
  rewrite (read_rrs_wire (rp_additional v) data _ [] Har)
    by (rewrite Hdata, <- ?app_assoc, ?app_nil_r; reflexivity).
  cbn [bind]. reflexivity.
Qed.

(* ================================================================== C. Consequences *)

Lemma dotted_split_dot s : dotted (split_dot s) = s.
Proof.
  induction s as [|c r IH]; [reflexivity|].
  cbn [split_dot]. destruct (split_dot r) as [|h t] eqn:E; [now apply split_dot_nonnil in E|].
  destruct (N.eqb_spec c dot) as [->|Hc].
  - cbn [dotted app flat_map] in *. rewrite IH. reflexivity.
  - cbn [dotted app] in *. now rewrite IH.
Qed.

Lemma dotted_scope_labels s : dotted (scope_labels s) = s.
Proof.
  destruct s as [|c r]; [reflexivity|]. rewrite scope_labels_split_dot by discriminate. apply dotted_split_dot.
Qed.

Lemma lib_view_name n : lib_name (view_name n) = read_back_name n.
Proof.
  destruct n as [name scope]. unfold lib_name, view_name, read_back_name. cbn [rn_raw rn_scope nb_name nb_scope].
  now rewrite strip_padding_pad, dotted_scope_labels.
Qed.

Theorem lib_packet_view p : packet_ok p -> lib_packet (packet_view p) = read_back p.
Proof.
  intros (Hid & Hfl & Hqd & Han & Hns & Har & _ & _ & _ & _ & Fq & Fa & Fn & Fr).
  unfold lib_packet, packet_view, read_back.
  cbn [rp_id rp_flags rp_questions rp_answers rp_authority rp_additional].
  rewrite !lenN_map, <- Hqd, <- Han, <- Hns, <- Har, !map_map.
  assert (Hrr : forall l, Forall rr_ok l -> map (fun x => lib_rr (view_rr x)) l = map read_back_rr l).
  { intros l Hl. apply map_ext_in. intros r Hr. rewrite Forall_forall in Hl. specialize (Hl r Hr).
    destruct r as [[n|] ty cl ttl rdl rd]; destruct Hl as (Hn & _ & _ & _ & Hrdl & _); cbn in Hn, Hrdl; [|contradiction].
    unfold lib_rr, view_rr, read_back_rr. cbn. now rewrite lib_view_name, Hrdl. }
  rewrite !Hrr by assumption. f_equal; [now destruct (p_hdr p)|].
  apply map_ext_in. intros q Hq. rewrite Forall_forall in Fq. specialize (Fq q Hq).
  destruct q as [[n|] ty cl]; destruct Fq as (Hn & _); cbn in Hn; [|contradiction].
  unfold lib_question, view_question, read_back_question. cbn. now rewrite lib_view_name.
Qed.

Theorem packet_roundtrip p : packet_ok p ->
  exists bs, marshal p = Ok bs /\ unmarshal bs = Ok (lenN bs, read_back p).
Proof.
  intros Hp. exists (rfc1002_encode (packet_view p)). split; [now apply marshal_rfc|].
  rewrite unmarshal_rfc by now apply packet_view_wf. now rewrite lib_packet_view.
Qed.

Lemma read_back_name_nts n : no_trailing_space (nb_name n) -> read_back_name n = n.
Proof.
  destruct n as [name scope]. unfold read_back_name, no_trailing_space. cbn [nb_name nb_scope].
  intros H. now rewrite strip_padding_nts.
Qed.

Lemma read_back_nts p : packet_nts p -> read_back p = p.
Proof.
  intros (Hq & Hr). apply Forall_app in Hr. destruct Hr as (Ha & Hr). apply Forall_app in Hr. destruct Hr as (Hn & Hr).
  assert (Hrr : forall l, Forall (fun r => oname_nts (rr_name r)) l -> map read_back_rr l = l).
  { intros l Hl. rewrite <- (map_id l) at 2. apply map_ext_in. intros r Hin. rewrite Forall_forall in Hl.
    specialize (Hl r Hin). destruct r as [[n|] ty cl ttl rdl rd]; cbn in *; [|reflexivity].
    unfold read_back_rr. cbn. now rewrite read_back_name_nts. }
  destruct p as [h qs an ns ar]. unfold read_back. cbn [p_hdr p_qs p_an p_ns p_ar] in *.
  rewrite !Hrr by assumption. f_equal.
  rewrite <- (map_id qs) at 2. apply map_ext_in. intros q Hin. rewrite Forall_forall in Hq.
  specialize (Hq q Hin). destruct q as [[n|] ty cl]; cbn in *; [|reflexivity].
  unfold read_back_question. cbn. now rewrite read_back_name_nts.
Qed.

Theorem packet_roundtrip_exact p : packet_ok p -> packet_nts p ->
  exists bs, marshal p = Ok bs /\ unmarshal bs = Ok (lenN bs, p).
Proof.
  intros Hp Hn. destruct (packet_roundtrip p Hp) as (bs & H1 & H2). exists bs. split; [exact H1|].
  now rewrite H2, read_back_nts.
Qed.

Theorem rfc_reads_lib p : packet_ok p ->
  exists bs, marshal p = Ok bs /\ rfc1002_parse bs = Some (packet_view p, []).
Proof.
  intros Hp. exists (rfc1002_encode (packet_view p)). split; [now apply marshal_rfc|].
  apply rfc1002_parse_encode. now apply packet_view_wf.
Qed.
