(* C13, GUID text: what FromString accepts is exactly the five formats; no parser panics. *)
From Coq Require Import List Arith NArith ZArith Lia Bool.
From Coq Require Import ZifyN ZifyNat ZifyBool.
From Mant Require Import Prim.R Prim.Bytes Prim.Dec Prim.HexNum Prim.GoStr Model.Guid Spec.C13
  Proofs.C13Uuid Proofs.C13Guid Proofs.C13GuidText.
Import ListNotations.
Open Scope N_scope.

Ltac inv_pat H :=
  repeat (first [ apply match_pat_lit_inv in H; destruct H as (?r & ?E & H)
                | apply match_pat_hex_inv in H; destruct H as (?x & ?r & ?E & ?L & ?X & H) ]);
  apply match_pat_nil_inv in H.

(* ---------------- inverting the expressions *)

Lemma match_n_inv d : match_pat pat_n d = true -> is_hex32 d.
Proof.
  intros H. unfold pat_n in H. inv_pat H. subst. rewrite app_nil_r. split; assumption.
Qed.

Lemma match_d_inv d : match_pat pat_d d = true -> exists h, is_hex32 h /\ d = hyphenate h.
Proof.
  intros H. unfold pat_d in H. inv_pat H. subst. rewrite app_nil_r.
  match goal with |- context [?a ++ hy ++ ?b ++ hy ++ ?c ++ hy ++ ?d ++ hy ++ ?e] =>
    destruct (pieces_hex32 a b c d e) as (Hh & E1 & E2 & E3 & E4 & E5); try assumption;
    exists (a ++ b ++ c ++ d ++ e) end.
  split; [exact Hh|]. unfold hyphenate. rewrite E1, E2, E3, E4, E5. reflexivity.
Qed.

Lemma match_enclosed_inv op cl d : match_pat ([TLit [op]] ++ pat_d ++ [TLit [cl]]) d = true ->
  exists h, is_hex32 h /\ d = [op] ++ hyphenate h ++ [cl].
Proof.
  intros H. unfold pat_d in H. cbn [app] in H. inv_pat H. subst.
  match goal with |- context [?a ++ hy ++ ?b ++ hy ++ ?c ++ hy ++ ?d ++ hy ++ ?e ++ _] =>
    destruct (pieces_hex32 a b c d e) as (Hh & E1 & E2 & E3 & E4 & E5); try assumption;
    exists (a ++ b ++ c ++ d ++ e) end.
  split; [exact Hh|]. unfold hyphenate. rewrite E1, E2, E3, E4, E5.
  unfold hy. cbn [app]. repeat (rewrite <- app_assoc; cbn [app]). reflexivity.
Qed.

Lemma match_x_pieces d : match_pat pat_x d = true ->
  exists p8 p4a p4b y0 y1 y2 y3 y4 y5 y6 y7,
    d = x_string p8 p4a p4b y0 y1 y2 y3 y4 y5 y6 y7 /\
    length p8 = 8%nat /\ length p4a = 4%nat /\ length p4b = 4%nat /\
    Forall (fun y => length y = 2%nat /\ forallb is_lhex y = true) [y0; y1; y2; y3; y4; y5; y6; y7] /\
    forallb is_lhex p8 = true /\ forallb is_lhex p4a = true /\ forallb is_lhex p4b = true.
Proof.
  intros H. unfold pat_x in H. inv_pat H. subst. do 11 eexists.
  split; [unfold x_string; reflexivity|].
  repeat split; try eassumption. repeat constructor; assumption.
Qed.

Lemma pieces_x p8 p4a p4b y0 y1 y2 y3 y4 y5 y6 y7 :
  length p8 = 8%nat -> length p4a = 4%nat -> length p4b = 4%nat ->
  Forall (fun y => length y = 2%nat /\ forallb is_lhex y = true) [y0; y1; y2; y3; y4; y5; y6; y7] ->
  forallb is_lhex p8 = true -> forallb is_lhex p4a = true -> forallb is_lhex p4b = true ->
  let h := p8 ++ p4a ++ p4b ++ y0 ++ y1 ++ y2 ++ y3 ++ y4 ++ y5 ++ y6 ++ y7 in
  is_hex32 h /\ fmt_x h = x_string p8 p4a p4b y0 y1 y2 y3 y4 y5 y6 y7.
Proof.
  intros L8 L4a L4b Hy H8 H4a H4b h.
  repeat match goal with H : Forall _ (_ :: _) |- _ => inversion H; clear H; subst end.
  repeat match goal with H : _ /\ _ |- _ => destruct H end.
  split.
  - split.
    + unfold h. rewrite !app_length.
      repeat match goal with H : length _ = _ |- _ => rewrite H; clear H end. reflexivity.
    + unfold h. rewrite !forallb_app.
      repeat match goal with H : forallb is_lhex _ = true |- _ => rewrite H; clear H end. reflexivity.
  - repeat match goal with H : forallb is_lhex _ = true |- _ => clear H end. subst h.
    repeat match goal with H : length ?x = _ |- _ => explode x H end.
    reflexivity.
Qed.

Lemma match_x_inv d : match_pat pat_x d = true -> exists h, is_hex32 h /\ d = fmt_x h.
Proof.
  intros H. destruct (match_x_pieces d H) as (p8 & p4a & p4b & y0 & y1 & y2 & y3 & y4 & y5 & y6 & y7 & E & F).
  destruct F as (L8 & L4a & L4b & Hy & H8 & H4a & H4b).
  destruct (pieces_x p8 p4a p4b y0 y1 y2 y3 y4 y5 y6 y7) as [Hh Hx]; try assumption.
  eexists. split; [exact Hh|]. now rewrite Hx.
Qed.

(* ---------------- FromString accepts the five formats and nothing else *)

Theorem guid_from_string_inv s g : guid_from_string s = Ok g ->
  exists f h, is_hex32 h /\ prep s = fmt_of f h /\ g = g_of_hex h.
Proof.
  intros Hs.
  assert (K : forall f h, is_hex32 h -> prep s = fmt_of f h ->
            exists f h, is_hex32 h /\ prep s = fmt_of f h /\ g = g_of_hex h).
  { intros f h Hh Hp. exists f, h. split; [exact Hh|]. split; [exact Hp|].
    destruct (parse_of_prep f s h Hh Hp) as [P _]. rewrite P in Hs. now injection Hs. }
  destruct (match_pat pat_n (prep s)) eqn:Mn.
  { apply (K FN (prep s)); [now apply match_n_inv|reflexivity]. }
  destruct (match_pat pat_d (prep s)) eqn:Md.
  { destruct (match_d_inv _ Md) as (h & Hh & E). now apply (K FD h). }
  destruct (match_pat pat_b (prep s)) eqn:Mb.
  { destruct (match_enclosed_inv _ _ _ Mb) as (h & Hh & E). now apply (K FB h). }
  destruct (match_pat pat_p (prep s)) eqn:Mp.
  { destruct (match_enclosed_inv _ _ _ Mp) as (h & Hh & E). now apply (K FP h). }
  destruct (match_pat pat_x (prep s)) eqn:Mx.
  { destruct (match_x_inv _ Mx) as (h & Hh & E). now apply (K FX h). }
  unfold guid_from_string in Hs. rewrite Mn, Md, Mb, Mp, Mx in Hs. discriminate.
Qed.

(* so: whatever FromString accepts prints back, in the same format, as the trimmed lower-cased input *)
Theorem guid_parse_print s g : guid_from_string s = Ok g ->
  guid_ok g /\ exists f, guid_to f g = prep s /\ guid_from f s = Ok g.
Proof.
  intros Hs. destruct (guid_from_string_inv s g Hs) as (f & h & Hh & Hp & ->).
  destruct (print_of_hex h Hh) as (Q1 & Q2 & Q3 & Q4 & Q5 & Q6).
  split; [exact Q6|]. exists f. split.
  - rewrite Hp. destruct f; assumption.
  - now destruct (parse_of_prep f s h Hh Hp).
Qed.

(* ---------------- totality *)

Lemma bindnp {A B} (r : R A) (f : A -> R B) : r <> Panic -> (forall a, f a <> Panic) -> bind r f <> Panic.
Proof. intros H1 H2. apply bind_not_panic; auto. Qed.

Ltac binds := repeat (apply bindnp; [apply parse_uint_hex_total|intros ?]); try discriminate.

Lemma guid_from_n_total s : guid_from_n s <> Panic.
Proof. unfold guid_from_n. destruct (negb _); [discriminate|]. binds. Qed.

Lemma guid_from_d_total s : guid_from_d s <> Panic.
Proof.
  unfold guid_from_d.
  destruct (split_byte 45 (prep s)) as [|p0 [|p1 [|p2 [|p3 [|p4 [|p5 r]]]]]]; try discriminate. binds.
Qed.

Lemma guid_from_enclosed_total op cl s : guid_from_enclosed op cl s <> Panic.
Proof. unfold guid_from_enclosed. destruct (_ || _); [discriminate|apply guid_from_d_total]. Qed.

Lemma guid_from_x_total s : guid_from_x s <> Panic.
Proof.
  destruct (match_pat pat_x (prep s)) eqn:M.
  - destruct (match_x_inv _ M) as (h & Hh & E). rewrite (from_x_core s h Hh E). discriminate.
  - unfold guid_from_x. rewrite M. discriminate.
Qed.

Lemma guid_from_string_total s : guid_from_string s <> Panic.
Proof.
  unfold guid_from_string.
  destruct (match_pat pat_n _); [apply guid_from_n_total|].
  destruct (match_pat pat_d _); [apply guid_from_d_total|].
  destruct (match_pat pat_b _); [apply guid_from_enclosed_total|].
  destruct (match_pat pat_p _); [apply guid_from_enclosed_total|].
  destruct (match_pat pat_x _); [apply guid_from_x_total|discriminate].
Qed.
