(* C02 — NTLMv2: the responses built by crypto/ntlmv2 and by the spnego/ntlm helpers are accepted by the
   independent verifier of Spec/C02.v; the hashcat line re-parses and verifies. *)
From Coq Require Import List Arith NArith Lia Bool.
From Coq Require Import ZifyN ZifyNat ZifyBool.
From Mant Require Import Prim.R Prim.Bytes Prim.Dec Prim.C02Text Algo.MD4 Algo.MD5 Algo.HMAC Algo.DES
  Gen.ConstsC02 Model.Ntlmv1 Model.Ntlmv2 Spec.C02 Proofs.AlgoProofs Proofs.C02Text Proofs.C02V1.
Import ListNotations.
Open Scope N_scope.

(* ---- lists ---- *)
Lemma bytes_eqb_refl a : bytes_eqb a a = true.
Proof. now apply bytes_eqb_spec. Qed.

Lemma firstn_app_exact {A} (a b : list A) n : length a = n -> firstn n (a ++ b) = a.
Proof. intros <-. rewrite firstn_app, firstn_all, Nat.sub_diag. cbn [firstn]. apply app_nil_r. Qed.

Lemma skipn_app_exact {A} (a b : list A) n : length a = n -> skipn n (a ++ b) = b.
Proof. intros <-. rewrite skipn_app, skipn_all, Nat.sub_diag. reflexivity. Qed.

Lemma skipn_app_le {A} (a b : list A) n : (n <= length a)%nat -> skipn n (a ++ b) = skipn n a ++ b.
Proof. intros H. rewrite skipn_app. replace (n - length a)%nat with O by lia. reflexivity. Qed.

Ltac list8 l H :=
  destruct l as [|? [|? [|? [|? [|? [|? [|? [|? [|? ?]]]]]]]]]; try discriminate H.

(* ---- AV_PAIR lists ---- *)
Lemma av_list_rest_app f : forall b r tail f',
  av_list_rest f b = Some r -> (f <= f')%nat -> av_list_rest f' (b ++ tail) = Some (r ++ tail).
Proof.
  induction f as [|f IH]; intros b r tail f' H Hf; [discriminate H|].
  destruct f' as [|f']; [lia|].
  destruct b as [|i0 [|i1 [|l0 [|l1 r0]]]]; try discriminate H.
  cbn [av_list_rest app] in *.
  set (len := N.to_nat (l0 + 256 * l1)) in *.
  rewrite app_length.
  destruct (Nat.ltb_spec (length r0) len) as [|Hlen]; [discriminate H|].
  destruct (Nat.ltb_spec (length r0 + length tail) len); [lia|].
  destruct (i0 + 256 * i1 =? 0).
  - destruct (len =? 0)%nat; [|discriminate H]. now injection H as <-.
  - rewrite skipn_app_le by exact Hlen. apply IH; [exact H | lia].
Qed.

Lemma av_pairs_rest_app ti tail : target_info_wf ti = true -> av_pairs_rest (ti ++ tail) = Some tail.
Proof.
  unfold target_info_wf, av_pairs_rest. intros H.
  destruct (av_list_rest (length ti) ti) as [[|x r]|] eqn:E; try discriminate H.
  rewrite (av_list_rest_app _ _ _ tail (length (ti ++ tail)) E) by (rewrite app_length; lia).
  reflexivity.
Qed.

Lemma av_pairs_rest_eol r : av_pairs_rest (0 :: 0 :: 0 :: 0 :: r) = Some r.
Proof. reflexivity. Qed.

(* one pair (AvId id <> 0, value v of at most 65535 bytes) in front of a list *)
Lemma av_step f i0 i1 l0 l1 r :
  av_list_rest (S f) (i0 :: i1 :: l0 :: l1 :: r) =
  (if (length r <? N.to_nat (l0 + 256 * l1))%nat then None
   else if i0 + 256 * i1 =? 0 then (if (N.to_nat (l0 + 256 * l1) =? 0)%nat then Some r else None)
   else av_list_rest f (skipn (N.to_nat (l0 + 256 * l1)) r)).
Proof. reflexivity. Qed.

Lemma av_list_rest_pair f id v rest :
  0 < id < 65536 -> lenN v <= 65535 ->
  av_list_rest (S (S f))
    (id mod 256 :: (id / 256) mod 256 :: (lenN v mod 65536) mod 256 :: (lenN v mod 65536 / 256) mod 256
     :: v ++ 0 :: 0 :: 0 :: 0 :: rest) = Some rest.
Proof.
  intros Hid Hv.
  assert (E1 : id mod 256 + 256 * (id / 256 mod 256) = id).
  { pose proof (N.div_mod id 256). assert (id / 256 < 256) by (apply N.div_lt_upper_bound; lia).
    rewrite (N.mod_small (id / 256)) by lia. lia. }
  assert (E2 : lenN v mod 65536 mod 256 + 256 * (lenN v mod 65536 / 256 mod 256) = lenN v).
  { rewrite (N.mod_small (lenN v) 65536) by lia.
    pose proof (N.div_mod (lenN v) 256). assert (lenN v / 256 < 256) by (apply N.div_lt_upper_bound; lia).
    rewrite (N.mod_small (lenN v / 256)) by lia. lia. }
  rewrite av_step, E1, E2. unfold lenN. rewrite Nat2N.id, app_length.
  destruct (Nat.ltb_spec (length v + length (0 :: 0 :: 0 :: 0 :: rest)) (length v)); [lia|].
  destruct (N.eqb_spec id 0); [lia|].
  rewrite skipn_app_exact by reflexivity. reflexivity.
Qed.

Lemma av_pairs_rest_pair id v rest :
  0 < id < 65536 -> lenN v <= 65535 ->
  av_pairs_rest (le16 id ++ le16 (wrap16 (lenN v)) ++ v ++ 0 :: 0 :: 0 :: 0 :: rest) = Some rest.
Proof.
  intros Hid Hv. unfold av_pairs_rest, le16, wrap16. cbn [le_bytes app length].
  rewrite app_length. cbn [length].
  replace (length v + S (S (S (S (length rest)))))%nat with (S (S (length v + S (S (length rest)))))%nat by lia.
  now apply av_list_rest_pair.
Qed.

(* ---- the blob ---- *)
Lemma blob_wf_intro ts8 cc avs :
  length ts8 = 8%nat -> length cc = 8%nat ->
  (av_pairs_rest avs = Some [] \/ av_pairs_rest avs = Some [0; 0; 0; 0]) ->
  blob_wf ([1; 1; 0; 0; 0; 0; 0; 0] ++ ts8 ++ cc ++ [0; 0; 0; 0] ++ avs) cc = true.
Proof.
  intros Ht Hc Ha. list8 ts8 Ht. list8 cc Hc.
  cbn [app blob_wf firstn skipn length Nat.leb]. rewrite bytes_eqb_refl. cbn [andb].
  destruct Ha as [-> | ->]; reflexivity.
Qed.

Section Upper.
Variable upper : list N -> list N.

Lemma verify_v2_intro password user domain sc blob cc :
  blob_wf blob cc = true ->
  verify_v2 upper password user domain sc
    (hmac_md5 (ntowfv2 upper password user domain) (sc ++ blob) ++ blob) cc = true.
Proof.
  intros Hb. unfold verify_v2.
  rewrite firstn_app_exact by apply hmac_md5_length.
  rewrite skipn_app_exact by apply hmac_md5_length.
  rewrite bytes_eqb_refl, Hb. reflexivity.
Qed.

(* ================= crypto/ntlmv2 ================= *)
Lemma new_ntlmv2_key_spec domain user password :
  new_ntlmv2_key upper domain user password = ntowfv2 upper password user domain.
Proof. reflexivity. Qed.

Definition ntlmv2_blob_bytes (domain cc : list N) (ts : N) : list N :=
  [1; 1; 0; 0; 0; 0; 0; 0] ++ le64 (wrap64 ts) ++ cc ++ [0; 0; 0; 0]
  ++ (le16 2 ++ le16 (wrap16 (lenN (go_utf16le domain))) ++ go_utf16le domain ++ [0; 0; 0; 0] ++ [0; 0; 0; 0]).

Lemma ntlmv2_blob_ok domain cc ts :
  lenN (go_utf16le domain) <= 65535 -> ntlmv2_blob domain cc ts = Ok (ntlmv2_blob_bytes domain cc ts).
Proof.
  intros H. unfold ntlmv2_blob, ntlmv2_blob_bytes.
  destruct (N.ltb_spec 65535 (lenN (go_utf16le domain))); [lia|].
  cbn [repeatN le16 le_bytes]. rewrite <- !app_assoc. reflexivity.
Qed.

Lemma ntlmv2_blob_err domain cc ts :
  65535 < lenN (go_utf16le domain) -> ntlmv2_blob domain cc ts = Err.
Proof.
  intros H. unfold ntlmv2_blob. destruct (N.ltb_spec 65535 (lenN (go_utf16le domain))); [reflexivity|lia].
Qed.

Lemma ntlmv2_blob_wf domain cc ts :
  length cc = 8%nat -> lenN (go_utf16le domain) <= 65535 ->
  blob_wf (ntlmv2_blob_bytes domain cc ts) cc = true.
Proof.
  intros Hc Hd. unfold ntlmv2_blob_bytes. apply blob_wf_intro; [apply length_le_bytes | exact Hc |].
  right. apply (av_pairs_rest_pair 2 (go_utf16le domain) [0; 0; 0; 0]); [lia | exact Hd].
Qed.

Theorem ntlmv2_hash_verifies domain user password sc cc ts :
  length cc = 8%nat -> lenN (go_utf16le domain) <= 65535 ->
  exists resp, ntlmv2_hash upper domain user password sc cc ts = Ok resp /\
               verify_v2 upper password user domain sc resp cc = true.
Proof.
  intros Hc Hd. unfold ntlmv2_hash. rewrite (ntlmv2_blob_ok domain cc ts Hd). cbn [bind].
  eexists. split; [reflexivity|].
  apply verify_v2_intro, ntlmv2_blob_wf; assumption.
Qed.

Theorem ntlmv2_hash_too_long domain user password sc cc ts :
  65535 < lenN (go_utf16le domain) -> ntlmv2_hash upper domain user password sc cc ts = Err.
Proof. intros H. unfold ntlmv2_hash. rewrite (ntlmv2_blob_err domain cc ts H). reflexivity. Qed.

Theorem ntlmv2_hash_total domain user password sc cc ts :
  ntlmv2_hash upper domain user password sc cc ts <> Panic.
Proof.
  unfold ntlmv2_hash, ntlmv2_blob. destruct (65535 <? lenN (go_utf16le domain)); discriminate.
Qed.

(* ---- hashcat ---- *)
Lemma split_colon_app a rest : ~ In 58 a -> split_colon (a ++ 58 :: rest) = a :: split_colon rest.
Proof.
  induction a as [|x a IH]; intros H; [reflexivity|].
  cbn [app split_colon]. destruct (N.eqb_spec x 58) as [->|_]; [exfalso; apply H; now left|].
  rewrite IH by (intros Hin; apply H; now right). reflexivity.
Qed.

Lemma split_colon_last a : ~ In 58 a -> split_colon a = [a].
Proof.
  induction a as [|x a IH]; intros H; [reflexivity|].
  cbn [split_colon]. destruct (N.eqb_spec x 58) as [->|_]; [exfalso; apply H; now left|].
  rewrite IH by (intros Hin; apply H; now right). reflexivity.
Qed.

Lemma hex_digit_not_colon d : hex_digit false d <> 58.
Proof. unfold hex_digit. destruct (N.ltb_spec d 10); lia. Qed.

Lemma hex_no_colon l : ~ In 58 (hex_of_bytes false l).
Proof.
  unfold hex_of_bytes. intros H. apply in_flat_map in H. destruct H as [b [_ H]].
  unfold hex_of_byte in H. cbn [In] in H.
  destruct H as [H | [H | []]]; exact (hex_digit_not_colon _ H).
Qed.

Lemma ntlmv2_blob_bytes_wf domain cc ts : wf_bytes cc -> wf_bytes (ntlmv2_blob_bytes domain cc ts).
Proof.
  intros Hc. unfold ntlmv2_blob_bytes.
  repeat (apply wf_bytes_app_intro);
    try apply wf_le_bytes; try apply go_utf16le_wf; try exact Hc;
    repeat constructor; lia.
Qed.

Theorem to_hashcat_verifies domain user password sc cc ts :
  ~ In 58 user -> ~ In 58 domain ->
  length sc = 8%nat -> wf_bytes sc -> length cc = 8%nat -> wf_bytes cc ->
  lenN (go_utf16le domain) <= 65535 ->
  exists line, to_hashcat upper domain user password sc cc ts = Ok line /\
               hashcat_verify upper password line cc = true.
Proof.
  intros Hu Hd Hsl Hsw Hcl Hcw Hdl.
  unfold to_hashcat, ntlmv2_hash. rewrite (ntlmv2_blob_ok domain cc ts Hdl). cbn [bind].
  set (blob := ntlmv2_blob_bytes domain cc ts).
  set (proof := hmac_md5 (hmac_md5 (nt_hash password) (go_utf16le (upper user ++ domain))) (sc ++ blob)).
  assert (Hpl : length proof = 16%nat) by apply hmac_md5_length.
  assert (Hup : go_upto (proof ++ blob) 16 = Ok proof).
  { unfold go_upto. rewrite lenN_app. destruct (N.leb_spec 16 (lenN proof + lenN blob)).
    - change (N.to_nat 16) with 16%nat. now rewrite firstn_app_exact.
    - unfold lenN in *. lia. }
  assert (Hfr : go_from (proof ++ blob) 16 = Ok blob).
  { unfold go_from. rewrite lenN_app. destruct (N.leb_spec 16 (lenN proof + lenN blob)).
    - change (N.to_nat 16) with 16%nat. now rewrite skipn_app_exact.
    - unfold lenN in *. lia. }
  rewrite Hup. cbn [bind]. rewrite Hfr. cbn [bind].
  eexists. split; [reflexivity|].
  unfold hashcat_verify.
  change (user ++ [58; 58] ++ domain ++ [58] ++ hex_of_bytes false sc ++ [58]
          ++ hex_of_bytes false proof ++ [58] ++ hex_of_bytes false blob)
    with (user ++ 58 :: [] ++ 58 :: domain ++ 58 :: hex_of_bytes false sc ++ 58
          :: hex_of_bytes false proof ++ 58 :: hex_of_bytes false blob).
  rewrite (split_colon_app user) by exact Hu.
  rewrite (split_colon_app []) by (intros []).
  rewrite (split_colon_app domain) by exact Hd.
  rewrite (split_colon_app (hex_of_bytes false sc)) by apply hex_no_colon.
  rewrite (split_colon_app (hex_of_bytes false proof)) by apply hex_no_colon.
  rewrite split_colon_last by apply hex_no_colon.
  rewrite !length_hex_of_bytes, Hsl, Hpl. cbn [Nat.mul Nat.add Nat.eqb andb].
  rewrite (unhex_hex false sc Hsw).
  rewrite (unhex_hex false proof) by apply hmac_md5_wf.
  rewrite (unhex_hex false blob) by (apply ntlmv2_blob_bytes_wf; exact Hcw).
  apply verify_v2_intro, ntlmv2_blob_wf; assumption.
Qed.

Theorem to_hashcat_total domain user password sc cc ts :
  to_hashcat upper domain user password sc cc ts <> Panic.
Proof.
  unfold to_hashcat, ntlmv2_hash, ntlmv2_blob.
  destruct (65535 <? lenN (go_utf16le domain)); [discriminate|]. cbn [bind].
  match goal with |- context [go_upto (?p ++ ?b) 16] => set (proof := p); set (blob := b) end.
  assert (Hpl : length proof = 16%nat) by apply hmac_md5_length.
  unfold go_upto, go_from. rewrite lenN_app.
  destruct (N.leb_spec 16 (lenN proof + lenN blob)); [cbn [bind]; discriminate|].
  unfold lenN in *. lia.
Qed.

(* ================= spnego/ntlm ================= *)
Lemma ssp_ntowfv2_spec user password domain :
  ssp_ntowfv2 upper user password domain = ntowfv2 upper password user (upper domain).
Proof. reflexivity. Qed.

Lemma ssp_blob_wf cc ti ts :
  length cc = 8%nat -> (ti = [] \/ target_info_wf ti = true) -> blob_wf (ssp_blob cc ti ts) cc = true.
Proof.
  intros Hc Ht. unfold ssp_blob.
  change ([1; 1] ++ [0; 0; 0; 0; 0; 0] ++ le64 (wrap64 ts) ++ cc ++ [0; 0; 0; 0] ++ ti ++ [0; 0; 0; 0])
    with ([1; 1; 0; 0; 0; 0; 0; 0] ++ le64 (wrap64 ts) ++ cc ++ [0; 0; 0; 0] ++ (ti ++ [0; 0; 0; 0])).
  apply blob_wf_intro; [apply length_le_bytes | exact Hc |].
  destruct Ht as [-> | Ht]; [left; reflexivity | right; now apply av_pairs_rest_app].
Qed.

Theorem ssp_v2_response_verifies sc ti user password domain cc lmcc ts :
  length cc = 8%nat -> length lmcc = 8%nat -> (ti = [] \/ target_info_wf ti = true) ->
  let '(lm, nt) := ssp_v2_response upper sc ti user password domain cc lmcc ts in
  verify_v2 upper password user (upper domain) sc nt cc = true /\
  verify_lmv2 upper password user (upper domain) sc lm = true.
Proof.
  intros Hc Hl Ht. unfold ssp_v2_response, ssp_proof. rewrite ssp_ntowfv2_spec. split.
  - apply verify_v2_intro, ssp_blob_wf; assumption.
  - unfold verify_lmv2. rewrite app_length, hmac_md5_length, Hl.
    rewrite firstn_app_exact by apply hmac_md5_length.
    rewrite skipn_app_exact by apply hmac_md5_length.
    rewrite bytes_eqb_refl. reflexivity.
Qed.

Theorem ssp_v1_response_spec sc password :
  length sc = 8%nat ->
  ssp_v1_response upper sc password = Ok (desl (lm_hash upper password) sc, desl (ntowfv1 password) sc).
Proof.
  intros Hs. unfold ssp_v1_response.
  destruct (v1_password_agree upper password sc Hs) as [nth [pw [c [E [_ [Hn Hl]]]]]].
  rewrite E. cbn [bind]. rewrite Hl. cbn [bind]. rewrite Hn. reflexivity.
Qed.

(* what CreateAuthenticateMessage puts in LmChallengeResponse / NtChallengeResponse *)
Theorem auth_payloads_verify flags sc ti user password domain ws cc lmcc ts lm nt :
  length sc = 8%nat -> length cc = 8%nat -> length lmcc = 8%nat ->
  (ti = [] \/ target_info_wf ti = true) ->
  auth_payloads upper flags sc ti user password domain ws cc lmcc ts = Ok (lm, nt) ->
  if has_flag flags c02_f_ess
  then verify_v2 upper password user (upper domain) sc nt cc = true /\
       verify_lmv2 upper password user (upper domain) sc lm = true
  else nt = desl (ntowfv1 password) sc /\ lm = desl (lm_hash upper password) sc.
Proof.
  intros Hs Hc Hl Ht. unfold auth_payloads.
  destruct (has_flag flags c02_f_ess).
  - cbn [bind]. pose proof (ssp_v2_response_verifies sc ti user password domain cc lmcc ts Hc Hl Ht) as Hv.
    destruct (ssp_v2_response upper sc ti user password domain cc lmcc ts) as [lm' nt'].
    destruct (_ || _); [discriminate|]. intros H. injection H as <- <-. exact Hv.
  - rewrite (ssp_v1_response_spec sc password Hs). cbn [bind].
    generalize (desl (lm_hash upper password) sc) (desl (ntowfv1 password) sc). intros a b.
    destruct (_ || _); [discriminate|]. intros H. injection H as <- <-. split; reflexivity.
Qed.

Theorem auth_payloads_total flags sc ti user password domain ws cc lmcc ts :
  auth_payloads upper flags sc ti user password domain ws cc lmcc ts <> Panic.
Proof.
  unfold auth_payloads. destruct (has_flag flags c02_f_ess).
  - cbn [bind]. destruct (ssp_v2_response _ _ _ _ _ _ _ _ _). destruct (_ || _); discriminate.
  - unfold ssp_v1_response, new_with_password.
    destruct (negb (lenN sc =? 8)); [discriminate|]. cbn [bind].
    pose proof (lm_response_total upper password sc) as H1.
    destruct (lm_response upper password sc) as [l| |]; [|discriminate|congruence]. cbn [bind].
    pose proof (nt_response_total (nt_hash password) sc) as H2.
    destruct (nt_response (nt_hash password) sc) as [n| |]; [|discriminate|congruence]. cbn [bind].
    destruct (_ || _); discriminate.
Qed.

(* a message is produced whenever every payload fits its 16-bit length *)
Theorem auth_payloads_v2_ok flags sc ti user password domain ws cc lmcc ts :
  has_flag flags c02_f_ess = true -> length cc = 8%nat -> length lmcc = 8%nat ->
  lenN ti <= 65535 - 48 ->
  let enc s := if has_flag flags c02_f_unicode then go_utf16le s else s in
  lenN (enc (upper domain)) <= 65535 -> lenN (enc user) <= 65535 -> lenN (enc (upper ws)) <= 65535 ->
  exists lm nt, auth_payloads upper flags sc ti user password domain ws cc lmcc ts = Ok (lm, nt).
Proof.
  intros He Hc Hl Hti enc Hd Hu Hw. subst enc. cbv beta in Hd, Hu, Hw.
  unfold auth_payloads. rewrite He. cbn [bind].
  unfold ssp_v2_response, ssp_proof, ssp_blob, le64.
  match goal with |- context [if ?c then Err else _] => assert (E : c = false) end.
  { unfold lenN in *. rewrite !app_length, !hmac_md5_length, length_le_bytes, Hc, Hl. cbn [length]. lia. }
  rewrite E. eauto.
Qed.

End Upper.
