(* C09: the independent reference decoder reads every wire form (so in particular the library's
   output); its step budget suffices for every well-formed name. *)
From Coq Require Import List NArith ZArith Lia Bool.
From Coq Require Import ZifyN ZifyNat ZifyBool.
From Mant Require Import Prim.R Prim.Bytes Model.Llmnr Spec.C09 Proofs.C09Base Proofs.C09Name Proofs.C09Msg.
Import ListNotations.
Open Scope N_scope.

Lemma rfc_walk_wire d start pos n fin :
  wire_name d start pos n fin ->
  forall fuel, (length n + N.to_nat start + 1 < fuel)%nat -> rfc_walk fuel d pos = Some (n, fin).
Proof.
  induction 1 as [start pos Hb | start pos l n fin Hlen Hb Hbs Hw IH | start pos hi lo n fin' Hhi Hlo Hb1 Hb2 Hlt Hw IH];
    intros fuel Hf; (destruct fuel as [|f]; [lia|]); cbn [rfc_walk].
  - rewrite Hb. rewrite N.eqb_refl. reflexivity.
  - rewrite Hb. destruct (N.eqb_spec (lenN l) 0); [lia|].
    destruct (N.ltb_spec (lenN l) 64); [|lia]. rewrite Hbs.
    rewrite IH by (cbn [length] in Hf; lia). reflexivity.
  - rewrite Hb1. destruct (N.eqb_spec (192 + hi) 0); [lia|].
    destruct (N.ltb_spec (192 + hi) 64); [lia|].
    destruct (N.leb_spec 192 (192 + hi)); [|lia]. rewrite Hb2.
    replace (192 + hi - 192) with hi by lia.
    rewrite IH by lia. reflexivity.
Qed.

Lemma name_wire_len_labels n :
  Forall (fun l => 1 <= lenN l <= 63) n -> 2 * N.of_nat (length n) + 1 <= name_wire_len n.
Proof.
  unfold name_wire_len. induction 1 as [|l n Hl Hn IH]; cbn [fold_right length]; lia.
Qed.

Theorem rfc_decode_name_wire d start n fin :
  wire_name d start start n fin -> name_wire_len n <= 255 -> rfc_decode_name d start = Some (n, fin).
Proof.
  intros Hw Hlen. unfold rfc_decode_name.
  pose proof (wire_name_pos_lt _ _ _ _ _ Hw) as Hp.
  pose proof (name_wire_len_labels _ (wire_name_label_len _ _ _ _ _ Hw)) as Hn.
  rewrite (rfc_walk_wire _ _ _ _ _ Hw) by (unfold lenN, name, label in *; lia).
  destruct (N.leb_spec (name_wire_len n) 255); [reflexivity|lia].
Qed.

Lemma rfc_decode_question_wire d off q fin :
  wire_question d off q fin -> question_ok name_ok q -> rfc_decode_question d off = Some (q, fin).
Proof.
  intros (e & Hw & Ht & Hc & ->) ((_ & Hlen) & _).
  unfold rfc_decode_question. rewrite (rfc_decode_name_wire _ _ _ _ Hw Hlen), Ht, Hc.
  destruct q; reflexivity.
Qed.

Lemma rfc_decode_rr_wire d off r fin :
  wire_rr d off r fin -> rr_ok name_ok r -> rfc_decode_rr d off = Some (r, fin).
Proof.
  intros (e & Hw & Ht & Hc & Httl & Hrdl & Hrd & ->) ((_ & Hlen) & _).
  unfold rfc_decode_rr. rewrite (rfc_decode_name_wire _ _ _ _ Hw Hlen), Ht, Hc, Httl, Hrdl, Hrd.
  destruct r; reflexivity.
Qed.

Lemma rfc_decode_list_wire {A} (W : list N -> N -> A -> N -> Prop) (ok : A -> Prop)
      (dec : list N -> N -> option (A * N)) d :
  (forall off x fin, W d off x fin -> ok x -> dec d off = Some (x, fin)) ->
  forall off l fin, wire_list W d off l fin -> Forall ok l ->
    rfc_decode_list dec d (length l) off = Some (l, fin).
Proof.
  intros Hdec off l fin Hw. induction Hw as [off | off x mid l fin Hx Hl IH]; intros Hok.
  - reflexivity.
  - inversion Hok as [|? ? Hokx Hokl]; subst. cbn [length rfc_decode_list].
    rewrite (Hdec _ _ _ Hx Hokx), (IH Hokl). reflexivity.
Qed.

Theorem rfc_decode_msg_wire d m : wire_msg d m -> msg_ok name_ok m -> rfc_decode_msg d = Some m.
Proof.
  intros (Hid & Hfl & Hqd & Han & Hns & Har & o1 & o2 & o3 & o4 & W1 & W2 & W3 & W4)
         (_ & _ & _ & _ & _ & _ & Q & A1 & A2 & A3).
  unfold rfc_decode_msg. rewrite Hid, Hfl, Hqd, Han, Hns, Har. rewrite !to_nat_lenN.
  rewrite (rfc_decode_list_wire wire_question (question_ok name_ok) rfc_decode_question d
             (rfc_decode_question_wire d) _ _ _ W1 Q).
  rewrite (rfc_decode_list_wire wire_rr (rr_ok name_ok) rfc_decode_rr d (rfc_decode_rr_wire d) _ _ _ W2 A1).
  rewrite (rfc_decode_list_wire wire_rr (rr_ok name_ok) rfc_decode_rr d (rfc_decode_rr_wire d) _ _ _ W3 A2).
  rewrite (rfc_decode_list_wire wire_rr (rr_ok name_ok) rfc_decode_rr d (rfc_decode_rr_wire d) _ _ _ W4 A3).
  destruct m; reflexivity.
Qed.

(* weakening the name condition *)
Lemma msg_ok_weaken (P P' : name -> Prop) m : (forall n, P n -> P' n) -> msg_ok P m -> msg_ok P' m.
Proof.
  intros HP (Hid & Hfl & Lq & La & Ln & Lr & Q & A1 & A2 & A3).
  assert (HR : forall l, Forall (rr_ok P) l -> Forall (rr_ok P') l).
  { intros l H. eapply Forall_impl; [|exact H]. intros r (H1 & H2). split; auto. }
  repeat split; auto.
  eapply Forall_impl; [|exact Q]. intros q (H1 & H2). split; auto.
Qed.

Lemma name_ok_labels n : name_ok n -> labels_ok n.
Proof. intros [H _]. exact H. Qed.

Lemma text_name_ok_name s : text_name_ok s -> name_ok (split_dot s).
Proof. intros [H1 H2]. split; [now apply text_labels_ok_labels|exact H2]. Qed.

(* The reference decoder parses the library's output to the same content *)
Theorem rfc_reads_lib m : lib_msg_ok text_name_ok m ->
  exists b, encode_message m = Ok b /\ rfc_decode_msg b = Some (abs_msg m).
Proof.
  intros Hok.
  assert (Hok' : msg_ok name_ok (abs_msg m)) by (eapply abs_msg_ok; [apply text_name_ok_name|exact Hok]).
  assert (Hok'' : msg_ok labels_ok (abs_msg m)) by (eapply msg_ok_weaken; [apply name_ok_labels|exact Hok']).
  exists (rfc_encode_msg (abs_msg m)). split.
  - rewrite <- encode_message_normalize, <- lib_abs_msg. now apply encode_message_rfc.
  - apply rfc_decode_msg_wire; [now apply wire_msg_plain|exact Hok'].
Qed.

(* stated from the abstract side: for every valid content, the library's encoding of it is the
   RFC encoding and the reference decoder returns the content *)
Theorem rfc_reads_lib_abs m : msg_ok name_ok m ->
  encode_message (lib_msg m) = Ok (rfc_encode_msg m) /\ rfc_decode_msg (rfc_encode_msg m) = Some m.
Proof.
  intros Hok.
  assert (Hok' : msg_ok labels_ok m) by (eapply msg_ok_weaken; [apply name_ok_labels|exact Hok]).
  split; [now apply encode_message_rfc|].
  apply rfc_decode_msg_wire; [now apply wire_msg_plain|exact Hok].
Qed.
