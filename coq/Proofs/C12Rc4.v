(* C12, RC4: the uint8-wrapping code of crypto/rc4 (Model/Rc4Go.v) is textbook RC4 (Algo/RC4.v),
   and XORKeyStream is a stream: any chunking of the data gives the same bytes and state. *)
From Coq Require Import List Arith NArith Lia Bool.
From Coq Require Import ZifyN ZifyNat ZifyBool.
From Mant Require Import Prim.R Prim.Bytes Algo.RC4 Model.Rc4Go Spec.C12.
Import ListNotations.
Open Scope N_scope.

(* ---- the S-box primitives are the reference ones ---- *)

Lemma sb_get_eq s i : sb_get s i = rc4_get s i.
Proof. reflexivity. Qed.

Lemma sb_set_nat_eq s i v : sb_set_nat s i v = rc4_set_nat s i v.
Proof. revert i; induction s as [|x s IH]; intros [|i]; cbn [sb_set_nat rc4_set_nat]; rewrite ?IH; reflexivity. Qed.

Lemma sb_set_eq s i v : sb_set s i v = rc4_set s i v.
Proof. apply sb_set_nat_eq. Qed.

Lemma sb_swap_eq s i j : sb_swap s i j = rc4_swap s i j.
Proof. unfold sb_swap, rc4_swap. cbv zeta. now rewrite !sb_set_eq, !sb_get_eq. Qed.

Lemma sb_iota_eq n from : from + N.of_nat n <= 256 -> sb_iota n from = rc4_iota n from.
Proof.
  revert from; induction n as [|n IH]; intros from H; cbn [sb_iota rc4_iota]; [reflexivity|].
  unfold u8. rewrite N.mod_small by lia. f_equal. apply IH. lia.
Qed.

Lemma sb_init_eq : sb_init = rc4_identity.
Proof. apply sb_iota_eq. cbn. lia. Qed.

(* ---- uint8 arithmetic: the two successive wraps of  j += c.s[i] + key[i%k]  are one mod 256 ---- *)

Lemma u8_add_add j a b : u8 (j + u8 (a + b)) = (j + a + b) mod 256.
Proof. unfold u8. rewrite N.add_mod_idemp_r by discriminate. f_equal. lia. Qed.

Lemma ksa_go_eq n key k i j s : ksa_go n key k i j s = rc4_ksa_loop n key k i j s.
Proof.
  revert i j s; induction n as [|n IH]; intros i j s; cbn [ksa_go rc4_ksa_loop]; [reflexivity|].
  cbv zeta. rewrite u8_add_add, sb_get_eq, sb_swap_eq. apply IH.
Qed.

Lemma prga_go_out s i j src : fst (prga_go s i j src) = rc4_prga s i j src.
Proof.
  revert s i j; induction src as [|v r IH]; intros s i j; cbn [prga_go rc4_prga]; [reflexivity|].
  cbv zeta. unfold u8 at 1 2. rewrite !sb_get_eq, !sb_swap_eq.
  specialize (IH (rc4_swap s ((i + 1) mod 256) ((j + rc4_get s ((i + 1) mod 256)) mod 256))
                 ((i + 1) mod 256) ((j + rc4_get s ((i + 1) mod 256)) mod 256)).
  destruct (prga_go _ _ _ r) as [out fin]. cbn [fst] in *. rewrite IH. reflexivity.
Qed.

(* ---- NewRC4WithKey ---- *)

Lemma rc4go_new_ok key :
  (1 <= length key <= 256)%nat ->
  rc4go_new key = Ok (mk_rc4st (rc4_ksa key) 0 0 key).
Proof.
  intros H. unfold rc4go_new, rc4_ksa, lenN.
  destruct (N.ltb_spec (N.of_nat (length key)) 1); [lia|].
  destruct (N.ltb_spec 256 (N.of_nat (length key))); [lia|]. cbn [orb].
  now rewrite ksa_go_eq, sb_init_eq.
Qed.

Lemma rc4go_new_err key :
  ~ (1 <= length key <= 256)%nat -> rc4go_new key = Err.
Proof.
  intros H. unfold rc4go_new, lenN.
  destruct (N.ltb_spec (N.of_nat (length key)) 1); [reflexivity|].
  destruct (N.ltb_spec 256 (N.of_nat (length key))); [reflexivity|]. lia.
Qed.

(* C12_rc4_spec *)
Theorem rc4go_spec key data :
  (1 <= length key <= 256)%nat ->
  exists st, rc4go_new key = Ok st /\ fst (rc4go_xks st data) = rc4 key data.
Proof.
  intros H. eexists. split; [apply rc4go_new_ok, H|].
  unfold rc4go_xks, rc4. cbn [st_s st_i st_j st_key].
  rewrite <- prga_go_out. destruct (prga_go _ _ _ data) as [out [[s i] j]]. reflexivity.
Qed.

Theorem rc4go_keysize key : (exists st, rc4go_new key = Ok st) <-> (1 <= length key <= 256)%nat.
Proof.
  split.
  - intros [st Hst]. destruct (Nat.le_gt_cases 1 (length key)) as [H1|H1];
      [destruct (Nat.le_gt_cases (length key) 256) as [H2|H2]; [lia|]|];
      rewrite rc4go_new_err in Hst by lia; discriminate.
  - intros H. eexists. apply rc4go_new_ok, H.
Qed.

(* ---- chunking ---- *)

Lemma prga_go_app s i j a b :
  prga_go s i j (a ++ b) =
  let '(o1, (s1, i1, j1)) := prga_go s i j a in
  let '(o2, fin) := prga_go s1 i1 j1 b in
  (o1 ++ o2, fin).
Proof.
  revert s i j; induction a as [|v a IH]; intros s i j.
  - cbn [app prga_go]. destruct (prga_go s i j b) as [o2 fin]. reflexivity.
  - cbn [app prga_go]. cbv zeta. rewrite IH.
    destruct (prga_go _ _ _ a) as [o1 [[s1 i1] j1]].
    destruct (prga_go s1 i1 j1 b) as [o2 fin]. reflexivity.
Qed.

(* C12_rc4_chunking, two pieces *)
Theorem rc4go_xks_app st a b :
  rc4go_xks st (a ++ b) =
  let '(o1, st1) := rc4go_xks st a in
  let '(o2, st2) := rc4go_xks st1 b in
  (o1 ++ o2, st2).
Proof.
  unfold rc4go_xks. rewrite prga_go_app.
  destruct (prga_go _ _ _ a) as [o1 [[s1 i1] j1]]. cbn [st_s st_i st_j st_key].
  destruct (prga_go s1 i1 j1 b) as [o2 [[s2 i2] j2]]. reflexivity.
Qed.

Lemma rc4go_xks_nil st : rc4go_xks st [] = ([], st).
Proof. destruct st. reflexivity. Qed.

(* C12_rc4_chunking, any number of pieces *)
Theorem rc4go_stream_concat st chunks :
  rc4go_stream st chunks = rc4go_xks st (stream_of chunks).
Proof.
  unfold stream_of. revert st; induction chunks as [|c r IH]; intros st; cbn [rc4go_stream concat].
  - now rewrite rc4go_xks_nil.
  - rewrite rc4go_xks_app. destruct (rc4go_xks st c) as [o1 st1]. now rewrite IH.
Qed.

Corollary rc4go_stream_spec key chunks :
  (1 <= length key <= 256)%nat ->
  exists st, rc4go_new key = Ok st /\ fst (rc4go_stream st chunks) = rc4 key (stream_of chunks).
Proof.
  intros H. destruct (rc4go_spec key (stream_of chunks) H) as [st [H1 H2]].
  exists st. split; [exact H1|]. now rewrite rc4go_stream_concat.
Qed.

(* ---- the key stream does not depend on the data: decryption is encryption ---- *)

Lemma prga_go_state_indep s i j a b :
  length a = length b -> snd (prga_go s i j a) = snd (prga_go s i j b).
Proof.
  revert s i j b; induction a as [|x a IH]; intros s i j [|y b] H; try discriminate; [reflexivity|].
  cbn [prga_go]. cbv zeta.
  specialize (IH (sb_swap s (u8 (i + 1)) (u8 (j + sb_get s (u8 (i + 1))))) (u8 (i + 1))
                 (u8 (j + sb_get s (u8 (i + 1)))) b ltac:(cbn in H; lia)).
  destruct (prga_go _ _ _ a) as [oa fa]. destruct (prga_go _ _ _ b) as [ob fb]. exact IH.
Qed.

Lemma prga_go_involutive s i j data :
  fst (prga_go s i j (fst (prga_go s i j data))) = data.
Proof.
  revert s i j; induction data as [|v r IH]; intros s i j; [reflexivity|].
  cbn [prga_go]. cbv zeta.
  set (i1 := u8 (i + 1)). set (j1 := u8 (j + sb_get s i1)). set (s1 := sb_swap s i1 j1).
  specialize (IH s1 i1 j1).
  destruct (prga_go s1 i1 j1 r) as [out fin] eqn:E1. cbn [fst] in *.
  cbn [prga_go]. cbv zeta. fold i1 j1 s1.
  destruct (prga_go s1 i1 j1 out) as [out2 fin2] eqn:E2. cbn [fst] in *.
  rewrite N.lxor_assoc, N.lxor_nilpotent, N.lxor_0_r. now rewrite IH.
Qed.

Theorem rc4go_involutive st data :
  fst (rc4go_xks st (fst (rc4go_xks st data))) = data.
Proof.
  unfold rc4go_xks.
  pose proof (prga_go_involutive (st_s st) (st_i st) (st_j st) data) as H.
  destruct (prga_go _ _ _ data) as [out [[s i] j]]. cbn [fst] in *.
  destruct (prga_go _ _ _ out) as [out2 [[s2 i2] j2]]. exact H.
Qed.

(* the output has the length of the input *)
Lemma prga_go_length s i j data : length (fst (prga_go s i j data)) = length data.
Proof. rewrite prga_go_out. revert s i j; induction data; intros; cbn; auto. Qed.

(* ---- XORKeyStream with an explicit destination ---- *)

Theorem rc4go_xks_dst_spec st dst src :
  rc4go_xks_dst st dst src =
  if (length dst <? length src)%nat then Panic
  else Ok (fst (rc4go_xks st src) ++ skipn (length src) dst, snd (rc4go_xks st src)).
Proof.
  unfold rc4go_xks_dst, lenN.
  destruct (N.ltb_spec (N.of_nat (length dst)) (N.of_nat (length src)));
    destruct (Nat.ltb_spec (length dst) (length src)); try lia; [reflexivity|].
  destruct (rc4go_xks st src). reflexivity.
Qed.
