(* C17, schedules: a lock-protected execution is equivalent to a sequential one.

   Each method call of a thread is two events: [Begin t o] — the thread enters the method body
   and sees the shared state — and [End t] — the body's effect computed from WHAT THE THREAD SAW
   is stored and the call returns its result.  Without a lock this is the usual lost-update
   semantics (see [lost_update]).  The semantics of sync.RWMutex is not proved about the Go
   runtime: it is the Section hypothesis [mutex] — the scheduler only produces traces in which
   a writer (Lock) begins when nobody is inside, and a reader (RLock) begins when only readers
   are inside.  That every method body is bracketed by Lock/defer Unlock (RLock/RUnlock for the
   only reader, QueryName) is read from the source at every run (oracle c17.lock-discipline). *)
From Coq Require Import List Arith NArith ZArith Lia Bool.
From Mant Require Import Prim.Bytes Model.NameTable.
Import ListNotations.

Section Atomic.
  Variables (S Op Out : Type).
  Variable step : S -> Op -> S * Out.
  Variable reader : Op -> bool.
  Hypothesis reader_pure : forall s o, reader o = true -> fst (step s o) = s.

  Inductive ev := Begin (t : nat) (o : Op) | End (t : nat).

  Record cstate := mkc {
    shared : S;
    pend : list (nat * (S * Op));          (* threads inside a method: what they saw, what they do *)
    log : list (nat * Op * Out)            (* completed calls in order of completion *)
  }.

  Definition is_t (t : nat) (p : nat * (S * Op)) : bool := Nat.eqb (fst p) t.

  Definition exec1 (c : cstate) (e : ev) : option cstate :=
    match e with
    | Begin t o =>
        match find (is_t t) (pend c) with
        | Some _ => None                    (* a thread runs one call at a time *)
        | None => Some (mkc (shared c) ((t, (shared c, o)) :: pend c) (log c))
        end
    | End t =>
        match find (is_t t) (pend c) with
        | None => None
        | Some (_, (seen, o)) =>
            let '(s', x) := step seen o in
            Some (mkc (if reader o then shared c else s')
                      (filter (fun p => negb (is_t t p)) (pend c))
                      (log c ++ [(t, o, x)]))
        end
    end.

  Fixpoint exec (c : cstate) (tr : list ev) : option cstate :=
    match tr with
    | [] => Some c
    | e :: tr' => match exec1 c e with Some c' => exec c' tr' | None => None end
    end.

  (* sync.RWMutex: Lock succeeds when nobody holds the lock, RLock when only readers hold it *)
  Definition admissible (c : cstate) (e : ev) : bool :=
    match e with
    | Begin _ o =>
        if reader o then forallb (fun p => reader (snd (snd p))) (pend c)
        else match pend c with [] => true | _ => false end
    | End _ => true
    end.

  Fixpoint respects (c : cstate) (tr : list ev) : Prop :=
    match tr with
    | [] => True
    | e :: tr' => admissible c e = true /\
                  match exec1 c e with Some c' => respects c' tr' | None => True end
    end.

  Fixpoint seq_run (s : S) (os : list Op) : S * list Out :=
    match os with
    | [] => (s, [])
    | o :: os' =>
        let '(s1, x) := step s o in
        let '(s2, xs) := seq_run s1 os' in
        (s2, x :: xs)
    end.

  Lemma seq_run_snoc s os o :
    seq_run s (os ++ [o]) =
    (fst (step (fst (seq_run s os)) o), snd (seq_run s os) ++ [snd (step (fst (seq_run s os)) o)]).
  Proof.
    revert s. induction os as [|o' os IH]; intros s; cbn [app seq_run fst snd].
    - destruct (step s o). reflexivity.
    - destruct (step s o') as [s1 x]. rewrite IH. destruct (seq_run s1 os) as [s2 xs]. reflexivity.
  Qed.

  Definition ops_of (l : list (nat * Op * Out)) : list Op := map (fun e => snd (fst e)) l.
  Definition outs_of (l : list (nat * Op * Out)) : list Out := map snd l.

  (* everyone inside sees the current state; a writer inside is alone; the log explains the state *)
  Definition good (s0 : S) (c : cstate) : Prop :=
    (forall p, In p (pend c) -> fst (snd p) = shared c) /\
    (forall p, In p (pend c) -> reader (snd (snd p)) = false -> pend c = [p]) /\
    seq_run s0 (ops_of (log c)) = (shared c, outs_of (log c)).

  Lemma find_is_t_In t l p : find (is_t t) l = Some p -> In p l /\ fst p = t.
  Proof.
    intros H. apply find_some in H. destruct H as [H1 H2]. split; [exact H1|].
    unfold is_t in H2. now apply Nat.eqb_eq in H2.
  Qed.

  Lemma good_step s0 c e c' :
    good s0 c -> admissible c e = true -> exec1 c e = Some c' -> good s0 c'.
  Proof.
    intros [Hsee [Halone Hlog]] Hadm Hex. destruct e as [t o|t]; cbn [exec1 admissible] in *.
    - destruct (find (is_t t) (pend c)); [discriminate|]. inversion Hex; subst; clear Hex.
      cbn [shared pend log]. split; [|split; [|exact Hlog]].
      + intros p [<-|Hin]; [reflexivity|auto].
      + intros p [<-|Hin] Hw; cbn [snd] in *.
        * rewrite Hw in Hadm. destruct (pend c); [reflexivity|discriminate].
        * destruct (reader o) eqn:Hr.
          -- rewrite forallb_forall in Hadm. rewrite (Hadm _ Hin) in Hw. discriminate.
          -- destruct (pend c); [destruct Hin|discriminate].
    - destruct (find (is_t t) (pend c)) as [[t' [seen o]]|] eqn:Hf; [|discriminate].
      apply find_is_t_In in Hf. destruct Hf as [Hin Ht]. cbn [fst] in Ht. subst t'.
      pose proof (Hsee _ Hin) as Hseen. cbn [fst snd] in Hseen. subst seen.
      destruct (step (shared c) o) as [s' x] eqn:Hst. inversion Hex; subst; clear Hex.
      unfold good. cbn [shared pend log]. destruct (reader o) eqn:Hr.
      + split; [|split].
        * intros p Hp. apply filter_In in Hp. apply Hsee. tauto.
        * intros p Hp Hw. apply filter_In in Hp. destruct Hp as [Hp _].
          pose proof (Halone _ Hp Hw) as Hone. rewrite Hone in Hin. destruct Hin as [Heq|[]].
          subst p. cbn [snd] in Hw. congruence.
        * unfold ops_of, outs_of in *. rewrite !map_app. cbn [map fst snd].
          rewrite seq_run_snoc, Hlog. cbn [fst snd]. rewrite Hst. cbn [fst snd].
          pose proof (reader_pure (shared c) o Hr) as Hp. rewrite Hst in Hp. cbn [fst] in Hp. now subst s'.
      + pose proof (Halone _ Hin Hr) as Hone. rewrite Hone. cbn [filter]. unfold is_t. cbn [fst]. rewrite Nat.eqb_refl. cbn [negb].
        split; [intros p []|split; [intros p []|]].
        unfold ops_of, outs_of in *. rewrite !map_app. cbn [map fst snd].
        rewrite seq_run_snoc, Hlog. cbn [fst snd]. rewrite Hst. reflexivity.
  Qed.

  Lemma good_exec s0 tr : forall c c',
    good s0 c -> respects c tr -> exec c tr = Some c' -> good s0 c'.
  Proof.
    induction tr as [|e tr IH]; intros c c' Hg Hr Hex; cbn [exec respects] in *.
    - now inversion Hex; subst.
    - destruct Hr as [Hadm Hr]. destruct (exec1 c e) as [c1|] eqn:H1; [|discriminate].
      apply (IH c1 c'); [eapply good_step; eauto | exact Hr | exact Hex].
  Qed.

  Definition cinit (s0 : S) : cstate := mkc s0 [] [].

  Lemma good_init s0 : good s0 (cinit s0).
  Proof. split; [intros p []|split; [intros p []|reflexivity]]. Qed.

  (* what the Go scheduler can produce, and the guarantee of the mutex about it *)
  Variable sched : list ev -> Prop.
  Variable s0 : S.
  Hypothesis mutex : forall tr, sched tr -> respects (cinit s0) tr.

  (* The completed calls, in the order of their completion, run one after the other from the
     initial state, return exactly the results the threads observed and leave exactly the shared
     state of the concurrent execution.  (That order keeps every thread's program order and
     puts a call that returned before another began first: it is a linearization.) *)
  Theorem atomic tr c :
    sched tr -> exec (cinit s0) tr = Some c ->
    seq_run s0 (ops_of (log c)) = (shared c, outs_of (log c)).
  Proof.
    intros Hs Hex. apply mutex in Hs.
    apply (good_exec s0 tr (cinit s0) c (good_init s0) Hs Hex).
  Qed.

  (* and every thread still inside a method sees the current table *)
  Theorem atomic_view tr c p :
    sched tr -> exec (cinit s0) tr = Some c -> In p (pend c) -> fst (snd p) = shared c.
  Proof.
    intros Hs Hex. apply mutex in Hs.
    apply (good_exec s0 tr (cinit s0) c (good_init s0) Hs Hex).
  Qed.
End Atomic.

Arguments Begin {Op}.
Arguments End {Op}.
Arguments shared {S Op Out}.
Arguments pend {S Op Out}.
Arguments log {S Op Out}.
Arguments cinit {S Op Out}.
Arguments exec {S Op Out}.
Arguments respects {S Op Out}.
Arguments seq_run {S Op Out}.
Arguments ops_of {Op Out}.
Arguments outs_of {Op Out}.

(* ------------------------------------------------------------------ the name table *)

(* a call with the clock reading it takes inside its critical section *)
Definition nt_step (t : table) (c : Z * op) : table * out := step (fst c) t (snd c).
Definition nt_reader (c : Z * op) : bool := match snd c with Query _ => true | _ => false end.

Lemma nt_reader_pure t c : nt_reader c = true -> fst (nt_step t c) = t.
Proof.
  destruct c as [now o]. unfold nt_reader, nt_step. cbn [fst snd]. destruct o; try discriminate.
  intros _. cbn [step]. destruct (tget t n) as [r|]; [destruct (r_status r =? st_active)%N|]; reflexivity.
Qed.

Lemma nt_seq_run t h : seq_run nt_step t h = run t h.
Proof.
  revert t. induction h as [|[now o] h IH]; intros t; [reflexivity|].
  cbn [seq_run run]. unfold nt_step at 1. cbn [fst snd]. destruct (step now t o) as [t1 x].
  rewrite IH. reflexivity.
Qed.

Definition nt_init : cstate table (Z * op) out := cinit empty.
Definition nt_exec := exec nt_step nt_reader.
Definition nt_respects := respects nt_step nt_reader.

Theorem nt_atomic (sched : list (ev (Z * op)) -> Prop) :
  (forall tr, sched tr -> nt_respects nt_init tr) ->
  forall tr c, sched tr -> nt_exec nt_init tr = Some c ->
  run empty (ops_of (log c)) = (shared c, outs_of (log c)).
Proof.
  intros Hm tr c Hs Hex. rewrite <- nt_seq_run.
  exact (atomic table (Z * op) out nt_step nt_reader nt_reader_pure sched empty Hm tr c Hs Hex).
Qed.

(* The hypothesis is needed: two unlocked group registrations lose one owner, which no sequential
   order of the two calls explains. *)
Definition lost_trace : list (ev (Z * op)) :=
  [Begin 1 (0%Z, Register [71%N] ty_group [10; 0; 0; 1]%N 5%Z);
   Begin 2 (1%Z, Register [71%N] ty_group [10; 0; 0; 2]%N 5%Z);
   End 1; End 2].

Lemma lost_update :
  exists c, nt_exec nt_init lost_trace = Some c /\
            outs_of (log c) = [OOk; OOk] /\
            fst (run empty (ops_of (log c))) <> shared c /\
            ~ nt_respects nt_init lost_trace.
Proof.
  eexists. split; [vm_compute; reflexivity|]. split; [reflexivity|]. split.
  - vm_compute. discriminate.
  - cbn. intros [_ [H _]]. discriminate.
Qed.

(* The hypothesis is satisfiable: a trace with overlapping readers and exclusive writers. *)
Definition good_trace : list (ev (Z * op)) :=
  [Begin 1 (0%Z, Register [71%N] ty_group [10; 0; 0; 1]%N 5%Z); End 1;
   Begin 2 (1%Z, Query [71%N]); Begin 3 (2%Z, Query [71%N]); End 2; End 3;
   Begin 2 (3%Z, Register [71%N] ty_group [10; 0; 0; 2]%N 5%Z); End 2].

Lemma good_trace_respects : nt_respects nt_init good_trace.
Proof. cbn. repeat split. Qed.

Lemma good_trace_runs :
  exists c, nt_exec nt_init good_trace = Some c /\
            outs_of (log c) = [OOk; OOwners [[10; 0; 0; 1]%N] ty_group; OOwners [[10; 0; 0; 1]%N] ty_group; OOk].
Proof. eexists. split; vm_compute; reflexivity. Qed.
