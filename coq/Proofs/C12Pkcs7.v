(* C12, PKCS#7: Pad produces RFC 5652 6.3 padding; Unpad (the constant-time accumulator loop)
   accepts exactly the validly padded buffers and strips exactly the padding; it never panics. *)
From Coq Require Import List Arith NArith Lia Bool.
From Coq Require Import ZifyN ZifyNat ZifyBool.
From Mant Require Import Prim.R Prim.Bytes Model.Pkcs7 Spec.C12.
Import ListNotations.
Open Scope N_scope.

Lemma repeatN_repeat {A} (x : A) n : repeatN x n = repeat x n.
Proof. induction n; cbn; congruence. Qed.

Lemma rev_repeat {A} (x : A) n : rev (repeat x n) = repeat x n.
Proof.
  induction n as [|n IH]; [reflexivity|]. cbn [repeat rev]. rewrite IH.
  now rewrite <- repeat_cons.
Qed.

(* ---- the accumulator loop computes a conjunction ---- *)

(* what the loop checks: every inspected position i is out of range (padLen <= i) or holds padLen *)
Fixpoint loop_check (cnt : nat) (rbuf : list N) (i p : N) : bool :=
  match cnt with
  | O => true
  | S cnt' =>
      match rbuf with
      | [] => true
      | b :: rbuf' => ((p <=? i) || (p =? b)) && loop_check cnt' rbuf' (i + 1) p
      end
  end.

Definition bit (b : bool) : N := if b then 1 else 0.

Lemma unpad_loop_spec cnt rbuf i p g :
  unpad_loop cnt rbuf i p (bit g) = bit (g && loop_check cnt rbuf i p).
Proof.
  revert rbuf i g; induction cnt as [|cnt IH]; intros rbuf i g; cbn [unpad_loop loop_check].
  - now rewrite andb_true_r.
  - destruct rbuf as [|b rbuf]; [now rewrite andb_true_r|].
    replace (N.land (bit g) (ct_select (ct_le p i) 1 (ct_byte_eq p b)))
      with (bit (g && ((p <=? i) || (p =? b)))).
    + rewrite IH. now rewrite andb_assoc.
    + unfold ct_select, ct_le, ct_byte_eq.
      destruct g, (p <=? i), (p =? b); reflexivity.
Qed.

Lemma loop_check_out_of_range cnt rbuf i p : p <= i -> loop_check cnt rbuf i p = true.
Proof.
  revert rbuf i; induction cnt as [|cnt IH]; intros rbuf i H; cbn [loop_check]; [reflexivity|].
  destruct rbuf as [|b rbuf]; [reflexivity|].
  destruct (N.leb_spec p i); [|lia]. cbn [orb andb]. apply IH. lia.
Qed.

Lemma loop_check_repeat cnt n rest i p :
  p <= i + N.of_nat n -> loop_check cnt (repeat p n ++ rest) i p = true.
Proof.
  revert cnt i; induction n as [|n IH]; intros cnt i H.
  - apply loop_check_out_of_range. lia.
  - destruct cnt as [|cnt]; [reflexivity|]. cbn [repeat app loop_check].
    rewrite N.eqb_refl, orb_true_r. cbn [andb]. apply IH. lia.
Qed.

(* a passed check forces the first (p - i) inspected bytes to be p *)
Lemma loop_check_firstn cnt rbuf i p n :
  loop_check cnt rbuf i p = true -> i + N.of_nat n = p -> (n <= cnt)%nat -> (n <= length rbuf)%nat ->
  firstn n rbuf = repeat p n.
Proof.
  revert cnt rbuf i; induction n as [|n IH]; intros cnt rbuf i Hc Hp Hn Hl; [reflexivity|].
  destruct cnt as [|cnt]; [lia|]. destruct rbuf as [|b rbuf]; [cbn in Hl; lia|].
  cbn [loop_check] in Hc. apply andb_true_iff in Hc. destruct Hc as [H1 H2].
  destruct (N.leb_spec p i); [lia|]. cbn [orb] in H1. apply N.eqb_eq in H1. subst b.
  cbn [firstn repeat]. f_equal. apply (IH cnt rbuf (i + 1)); cbn in Hl; [exact H2|lia..].
Qed.

(* ---- Unpad ---- *)

Lemma unpad_unfold buffer p rest :
  rev buffer = p :: rest ->
  pkcs7_unpad buffer =
    let len := lenN buffer in
    let cnt := N.to_nat (if len <? 255 then len else 255) in
    if loop_check cnt (rev buffer) 0 p && (1 <=? p) && (p <=? len)
    then go_upto buffer (len - p) else Err.
Proof.
  intros Hrev. unfold pkcs7_unpad. rewrite Hrev. rewrite <- Hrev. cbv zeta.
  change 1 with (bit true) at 1. rewrite unpad_loop_spec. cbn [andb].
  unfold ct_le.
  destruct (loop_check _ _ _ _), (1 <=? p), (p <=? lenN buffer); reflexivity.
Qed.

(* C12_pkcs7_rejects, "if": a validly padded buffer is accepted and exactly the padding goes *)
Theorem unpad_padded m p :
  1 <= p <= 255 -> pkcs7_unpad (m ++ repeat p (N.to_nat p)) = Ok m.
Proof.
  intros Hp. set (n := N.to_nat p).
  assert (Hn : n = S (pred n)) by lia.
  assert (Hrev : rev (m ++ repeat p n) = p :: (repeat p (pred n) ++ rev m)).
  { rewrite rev_app_distr, rev_repeat. rewrite Hn at 1. reflexivity. }
  rewrite (unpad_unfold _ _ _ Hrev). cbv zeta.
  rewrite rev_app_distr, rev_repeat.
  rewrite loop_check_repeat by lia.
  unfold lenN. rewrite app_length, repeat_length.
  destruct (N.leb_spec 1 p); [|lia].
  destruct (N.leb_spec p (N.of_nat (length m + n))); [|lia]. cbn [andb].
  unfold go_upto, lenN. rewrite app_length, repeat_length.
  destruct (N.leb_spec (N.of_nat (length m + n) - p) (N.of_nat (length m + n))); [|lia].
  replace (N.to_nat (N.of_nat (length m + n) - p)) with (length m + 0)%nat by lia.
  rewrite firstn_app_2. cbn [firstn]. now rewrite app_nil_r.
Qed.

(* C12_pkcs7_rejects, "only if": whatever Unpad accepts is validly padded *)
Theorem unpad_ok_padded buf m :
  wf_bytes buf -> pkcs7_unpad buf = Ok m -> pkcs7_padded buf m.
Proof.
  intros Hwf H.
  destruct (rev buf) as [|p rest] eqn:Hrev; [unfold pkcs7_unpad in H; rewrite Hrev in H; discriminate|].
  rewrite (unpad_unfold _ _ _ Hrev) in H. cbv zeta in H.
  assert (Hp256 : p < 256).
  { assert (Hin : In p (rev buf)) by (rewrite Hrev; left; reflexivity).
    apply in_rev in Hin. unfold wf_bytes in Hwf. rewrite Forall_forall in Hwf. now apply Hwf. }
  destruct (loop_check _ _ _ _) eqn:Hc; [|discriminate].
  destruct (N.leb_spec 1 p) as [H1|]; [|discriminate].
  destruct (N.leb_spec p (lenN buf)) as [H2|]; [|discriminate]. cbn [andb] in H.
  unfold go_upto in H. destruct (N.leb_spec (lenN buf - p) (lenN buf)); [|lia].
  injection H as <-.
  exists p. split; [lia|].
  set (n := N.to_nat p).
  assert (Hf : firstn n (rev buf) = repeat p n).
  { apply (loop_check_firstn _ _ 0 p n Hc); unfold n, lenN in *; try lia.
    - destruct (N.ltb_spec (N.of_nat (length buf)) 255); lia.
    - rewrite rev_length. lia. }
  rewrite firstn_rev in Hf.
  assert (Hs : skipn (length buf - n) buf = repeat p n).
  { rewrite <- (rev_involutive (skipn _ buf)), Hf. apply rev_repeat. }
  replace (N.to_nat (lenN buf - p)) with (length buf - n)%nat by (unfold lenN, n in *; lia).
  rewrite <- Hs. symmetry. apply firstn_skipn.
Qed.

Theorem unpad_iff buf m :
  wf_bytes buf -> (pkcs7_unpad buf = Ok m <-> pkcs7_padded buf m).
Proof.
  intros Hwf. split; [now apply unpad_ok_padded|].
  intros [p [Hp ->]]. now apply unpad_padded.
Qed.

(* C12_total_unpad *)
Theorem unpad_total buf : pkcs7_unpad buf <> Panic.
Proof.
  destruct (rev buf) as [|p rest] eqn:Hrev; [unfold pkcs7_unpad; rewrite Hrev; discriminate|].
  rewrite (unpad_unfold _ _ _ Hrev). cbv zeta.
  destruct (_ && _ && _); [|discriminate].
  unfold go_upto. destruct (N.leb_spec (lenN buf - p) (lenN buf)); [discriminate|lia].
Qed.

(* ---- Pad ---- *)

Theorem pad_spec m b :
  1 <= b <= 255 -> pkcs7_pad m b = Ok (pkcs7_pad_spec b m).
Proof.
  intros Hb. unfold pkcs7_pad, pkcs7_pad_spec, pkcs7_padding.
  destruct (N.ltb_spec b 1); [lia|].
  assert (Hm := N.mod_lt (lenN m) b ltac:(lia)).
  rewrite repeatN_repeat. rewrite (N.mod_small (b - _) 256) by lia. reflexivity.
Qed.

Theorem pad_zero m : pkcs7_pad m 0 = Err.
Proof. reflexivity. Qed.

(* the padded length is a multiple of the block size, and 1..b bytes were added *)
Theorem pad_spec_length m b :
  1 <= b -> lenN (pkcs7_pad_spec b m) mod b = 0 /\ lenN m < lenN (pkcs7_pad_spec b m) <= lenN m + b.
Proof.
  intros Hb. unfold pkcs7_pad_spec, pkcs7_padding. rewrite lenN_app.
  assert (Hm := N.mod_lt (lenN m) b ltac:(lia)).
  assert (Hr : lenN (repeat (b - lenN m mod b) (N.to_nat (b - lenN m mod b))) = b - lenN m mod b).
  { unfold lenN at 1. rewrite repeat_length. apply N2Nat.id. }
  rewrite Hr. split; [|lia].
  rewrite (N.div_mod (lenN m) b) at 1 by lia.
  replace (b * (lenN m / b) + lenN m mod b + (b - lenN m mod b)) with ((lenN m / b + 1) * b) by lia.
  apply N.mod_mul. lia.
Qed.

(* C12_pkcs7_inverse *)
Theorem unpad_pad m b :
  1 <= b <= 255 -> exists padded, pkcs7_pad m b = Ok padded /\ pkcs7_unpad padded = Ok m.
Proof.
  intros Hb. eexists. split; [apply pad_spec, Hb|].
  unfold pkcs7_pad_spec, pkcs7_padding.
  assert (Hm := N.mod_lt (lenN m) b ltac:(lia)).
  apply unpad_padded. lia.
Qed.

Lemma pad_spec_padded m b : 1 <= b <= 255 -> pkcs7_padded (pkcs7_pad_spec b m) m.
Proof.
  intros Hb. unfold pkcs7_pad_spec, pkcs7_padding.
  assert (Hm := N.mod_lt (lenN m) b ltac:(lia)).
  exists (b - lenN m mod b). split; [lia|reflexivity].
Qed.
