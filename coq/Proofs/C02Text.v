(* C02 — the text primitives: on valid UTF-8 (RFC 3629 section 4) go_runes is the RFC 3629 decoder, hence
   go_utf16le is "decode UTF-8, encode UTF-16LE" (RFC 2781) — the UNICODE() of MS-NLMP. *)
From Coq Require Import List Arith NArith Lia Bool.
From Coq Require Import ZifyN ZifyNat ZifyBool.
From Mant Require Import Prim.Bytes Prim.C02Text Algo.Utf16 Algo.Utf8 Proofs.AlgoProofs.
Import ListNotations.
Open Scope N_scope.

Ltac fin IH Hl :=
  match goal with
  | H : option_map _ (utf8_decode ?r) = Some _ |- _ =>
      let E := fresh "E" in
      destruct (utf8_decode r) eqn:E; cbn [option_map] in H; [|discriminate H];
      injection H as <-; f_equal; apply IH; [cbn [length] in Hl; lia | exact E]
  end.

Lemma go_runes_utf8_decode_n n : forall s cps,
  (length s <= n)%nat -> utf8_decode s = Some cps -> go_runes s = cps.
Proof.
  induction n as [|n IH]; intros s cps Hl H.
  - destruct s; [cbn in H; injection H as <-; reflexivity | cbn [length] in Hl; lia].
  - destruct s as [|b0 t]; [cbn in H; injection H as <-; reflexivity|].
    cbn [utf8_decode go_runes] in *.
    destruct (b0 <? 128); [fin IH Hl|].
    destruct (in_range 194 223 b0).
    { destruct t as [|b1 t1]; [discriminate H|].
      destruct (utf8_tail b1); [fin IH Hl | discriminate H]. }
    destruct (in_range 224 239 b0).
    { destruct t as [|b1 [|b2 t2]]; try discriminate H.
      destruct (in_range _ _ b1 && utf8_tail b2); [fin IH Hl | discriminate H]. }
    destruct (in_range 240 244 b0); [|discriminate H].
    destruct t as [|b1 [|b2 [|b3 t3]]]; try discriminate H.
    destruct (in_range _ _ b1 && utf8_tail b2 && utf8_tail b3); [fin IH Hl | discriminate H].
Qed.

Theorem go_runes_utf8_decode s cps : utf8_decode s = Some cps -> go_runes s = cps.
Proof. apply (go_runes_utf8_decode_n (length s)). lia. Qed.

(* a string that is the UTF-8 encoding of a text (Unicode scalar values) denotes that text *)
Theorem go_runes_utf8_encode cps : Forall scalar_value cps -> go_runes (utf8_encode cps) = cps.
Proof. intros H. apply go_runes_utf8_decode, utf8_decode_encode, H. Qed.

Theorem go_utf16le_valid s cps : utf8_decode s = Some cps -> go_utf16le s = utf16le_encode cps.
Proof. intros H. unfold go_utf16le. now rewrite (go_runes_utf8_decode s cps H). Qed.

(* ASCII strings: one 16-bit unit per byte *)
Lemma go_runes_ascii s : Forall (fun b => b < 128) s -> go_runes s = s.
Proof.
  induction 1 as [|b s Hb Hs IH]; [reflexivity|]. cbn [go_runes].
  destruct (N.ltb_spec b 128); [|lia]. now rewrite IH.
Qed.

Lemma go_utf16le_wf s : wf_bytes (go_utf16le s).
Proof. apply utf16le_encode_wf. Qed.
