(* C14 — component codecs: RSA key material, GUID, CustomKeyInformation, identifiers, DN-with-binary. *)
From Coq Require Import List Arith NArith ZArith Lia Bool.
From Coq Require Import ZifyN ZifyNat ZifyBool.
From Mant Require Import Prim.R Prim.Bytes Prim.Dec Algo.SHA256 Algo.Base64 Model.Guid Model.WinTime Model.KeyCred
  Spec.C14 Proofs.AlgoProofs Proofs.C15Proofs Proofs.C14Base.
Import ListNotations.
Open Scope N_scope.

Opaque sha256.

(* ------------------------------------------------------------------ reading at an offset *)

Lemma go_slice_at {A} (a b c : list A) lo hi :
  lenN a = lo -> lo + lenN b = hi -> go_slice (a ++ b ++ c) lo hi = Ok b.
Proof. intros <- <-. apply go_slice_app_mid. Qed.

Lemma rd32_at pre n rest lo :
  lenN pre = lo -> n < 2 ^ 32 -> rd32 (pre ++ le32 n ++ rest) lo = Ok n.
Proof.
  intros Hlo Hn. unfold rd32. rewrite (go_slice_at pre (le32 n) rest); [|exact Hlo|].
  - cbn [bind]. unfold le32. rewrite <- (app_nil_r (le_bytes 4 n)). rewrite go_le_uint_app.
    change (2 ^ (8 * N.of_nat 4)) with (2 ^ 32). now rewrite N.mod_small.
  - unfold le32. rewrite lenN_le_bytes. lia.
Qed.

(* ------------------------------------------------------------------ RSAKeyMaterial *)

Lemma exp_fold_be32 e : e < 2 ^ 32 -> exp_fold (be32 e) = e.
Proof.
  intros He. change (2 ^ 32) with 4294967296 in He.
  unfold be32, be_bytes. cbn [le_bytes rev app]. unfold exp_fold. cbn [fold_left]. unfold wrap32.
  Z.to_euclidean_division_equations. lia.
Qed.

Definition rsa_ok (r : rsa) : Prop :=
  rKeySize r < 2 ^ 32 /\ rExponent r < 2 ^ 32 /\
  lenN (rModulus r) < 2 ^ 32 /\ lenN (rPrime1 r) < 2 ^ 32 /\ lenN (rPrime2 r) < 2 ^ 32.

Lemma lenN_rsa_to_bytes r :
  lenN (rsa_to_bytes r) = 28 + lenN (rModulus r) + lenN (rPrime1 r) + lenN (rPrime2 r).
Proof.
  unfold rsa_to_bytes, le32, be32. rewrite !lenN_app, !lenN_le_bytes, lenN_be_bytes.
  change (lenN rsa_magic) with 4. lia.
Qed.

(* BCRYPT_RSAKEY_BLOB: every key size, exponent, modulus and prime pair is read back as written *)
Theorem rsa_roundtrip r : rsa_ok r -> rsa_from_bytes (rsa_to_bytes r) = Ok r.
Proof.
  intros (Hk & He & Hm & H1 & H2). destruct r as [ks e m p1 p2]. cbn [rKeySize rExponent rModulus rPrime1 rPrime2] in *.
  pose proof (lenN_rsa_to_bytes (mkRsa ks e m p1 p2)) as HL. cbn [rModulus rPrime1 rPrime2] in HL.
  unfold rsa_from_bytes. set (value := rsa_to_bytes (mkRsa ks e m p1 p2)) in *.
  destruct (N.ltb_spec (lenN value) 24) as [H|_]; [lia|].
  assert (Emagic : go_upto value 4 = Ok rsa_magic).
  { unfold value, rsa_to_bytes. change 4 with (lenN rsa_magic). apply go_upto_app. }
  rewrite Emagic. cbn [bind]. change (bytes_eqb rsa_magic rsa_magic) with true. cbn [negb].
  assert (E4 : rd32 value 4 = Ok ks).
  { unfold value, rsa_to_bytes. cbn [rKeySize]. apply rd32_at; [reflexivity | exact Hk]. }
  assert (E8 : rd32 value 8 = Ok 4).
  { unfold value, rsa_to_bytes. cbn [rKeySize]. rewrite (app_assoc rsa_magic).
    apply rd32_at; [|reflexivity]. unfold le32. rewrite lenN_app, lenN_le_bytes. reflexivity. }
  assert (E12 : rd32 value 12 = Ok (lenN m)).
  { unfold value, rsa_to_bytes. cbn [rKeySize rModulus].
    rewrite (app_assoc rsa_magic), (app_assoc (rsa_magic ++ _)).
    apply rd32_at; [|exact Hm]. unfold le32. rewrite !lenN_app, !lenN_le_bytes. reflexivity. }
  assert (E16 : rd32 value 16 = Ok (lenN p1)).
  { unfold value, rsa_to_bytes. cbn [rKeySize rModulus rPrime1].
    rewrite (app_assoc rsa_magic), (app_assoc (rsa_magic ++ _)), (app_assoc ((rsa_magic ++ _) ++ _)).
    apply rd32_at; [|exact H1]. unfold le32. rewrite !lenN_app, !lenN_le_bytes. reflexivity. }
  assert (E20 : rd32 value 20 = Ok (lenN p2)).
  { unfold value, rsa_to_bytes. cbn [rKeySize rModulus rPrime1 rPrime2].
    rewrite (app_assoc rsa_magic), (app_assoc (rsa_magic ++ _)), (app_assoc ((rsa_magic ++ _) ++ _)),
      (app_assoc (((rsa_magic ++ _) ++ _) ++ _)).
    apply rd32_at; [|exact H2]. unfold le32. rewrite !lenN_app, !lenN_le_bytes. reflexivity. }
  rewrite E4, E8, E12, E16, E20. cbn [bind].
  destruct (N.ltb_spec (lenN value - 24) (4 + lenN m + lenN p1 + lenN p2)) as [H|_]; [lia|].
  cbv zeta.
  set (hdr := rsa_magic ++ le32 ks ++ le32 4 ++ le32 (lenN m) ++ le32 (lenN p1) ++ le32 (lenN p2)).
  assert (Hh : lenN hdr = 24).
  { unfold hdr, le32. rewrite !lenN_app, !lenN_le_bytes. reflexivity. }
  assert (Ev : value = hdr ++ be32 e ++ m ++ p1 ++ p2).
  { unfold value, rsa_to_bytes, hdr. cbn [rKeySize rExponent rModulus rPrime1 rPrime2]. now rewrite <- !app_assoc. }
  assert (Lb : lenN (be32 e) = 4) by (unfold be32; now rewrite lenN_be_bytes).
  assert (S1 : go_slice value 24 (24 + 4) = Ok (be32 e)).
  { rewrite Ev. apply go_slice_at; [exact Hh | lia]. }
  assert (S2 : go_slice value (24 + 4) (24 + 4 + lenN m) = Ok m).
  { rewrite Ev, (app_assoc hdr). apply go_slice_at; [rewrite lenN_app; lia | lia]. }
  assert (S3 : go_slice value (24 + 4 + lenN m) (24 + 4 + lenN m + lenN p1) = Ok p1).
  { rewrite Ev, (app_assoc hdr), (app_assoc (hdr ++ _)). apply go_slice_at; [rewrite !lenN_app; lia | lia]. }
  assert (S4 : go_slice value (24 + 4 + lenN m + lenN p1) (24 + 4 + lenN m + lenN p1 + lenN p2) = Ok p2).
  { rewrite Ev, (app_assoc hdr), (app_assoc (hdr ++ _)), (app_assoc ((hdr ++ _) ++ _)).
    rewrite <- (app_nil_r p2) at 1. apply go_slice_at; [rewrite !lenN_app; lia | lia]. }
  rewrite S1. cbn [bind]. rewrite S2. cbn [bind]. rewrite S3. cbn [bind]. rewrite S4. cbn [bind].
  now rewrite exp_fold_be32.
Qed.

(* ------------------------------------------------------------------ device GUID ([MS-DTYP] 2.3.4.2) *)

Lemma guid_roundtrip g : guid_wf g -> guid_from_raw (guid_to_bytes g) = Ok g.
Proof.
  intros (HA & HB & HC & HD & HE). destruct g as [A B C D E]. cbn [gA gB gC gD gE] in *.
  unfold guid_to_bytes. cbn [gA gB gC gD gE].
  assert (L : length (le_bytes 4 A ++ le_bytes 2 B ++ le_bytes 2 C ++ be_bytes 2 D ++ be_bytes 6 E) = 16%nat).
  { rewrite !app_length, !length_le_bytes, !length_be_bytes. reflexivity. }
  unfold guid_from_raw, lenN. rewrite L. change (N.of_nat 16 <? 16) with false. cbv iota.
  assert (Ea : exists a0 a1 a2 a3, le_bytes 4 A = [a0; a1; a2; a3]) by (cbn [le_bytes]; eauto).
  assert (Eb : exists b0 b1, le_bytes 2 B = [b0; b1]) by (cbn [le_bytes]; eauto).
  assert (Ec : exists c0 c1, le_bytes 2 C = [c0; c1]) by (cbn [le_bytes]; eauto).
  assert (Ed : exists d0 d1, be_bytes 2 D = [d0; d1]) by (unfold be_bytes; cbn [le_bytes rev app]; eauto).
  assert (Ee : exists e0 e1 e2 e3 e4 e5, be_bytes 6 E = [e0; e1; e2; e3; e4; e5])
    by (unfold be_bytes; cbn [le_bytes rev app]; do 6 eexists; reflexivity).
  destruct Ea as (a0 & a1 & a2 & a3 & Ea). destruct Eb as (b0 & b1 & Eb). destruct Ec as (c0 & c1 & Ec).
  destruct Ed as (d0 & d1 & Ed). destruct Ee as (e0 & e1 & e2 & e3 & e4 & e5 & Ee).
  rewrite Ea, Eb, Ec, Ed, Ee. cbn [app firstn skipn].
  rewrite <- Ea, <- Eb, <- Ec, <- Ed, <- Ee.
  rewrite !le_val_le_bytes, !be_val_be_bytes.
  change (8 * N.of_nat 4) with 32. change (8 * N.of_nat 2) with 16. change (8 * N.of_nat 6) with 48.
  rewrite !N.mod_small by assumption. reflexivity.
Qed.

Lemma lenN_guid_to_bytes g : lenN (guid_to_bytes g) = 16.
Proof. unfold guid_to_bytes. rewrite !lenN_app, !lenN_le_bytes, !lenN_be_bytes. reflexivity. Qed.

(* ------------------------------------------------------------------ CustomKeyInformation *)

(* the structure of a fresh credential (Version 1, Flags 0) is written as 01 00 and read back *)
Lemma cki_fresh_to_bytes sz : sz <= 2 -> cki_to_bytes (mkCki 1 0 0 false 0 0 [] [] sz) = [1; 0].
Proof.
  intros H. unfold cki_to_bytes. cbn [cRawSize cVersion cFlags cVolume cNotify cFek cStrength cReserved cExt].
  destruct (N.leb_spec 3 sz); [lia|]. destruct (N.leb_spec 4 sz); [lia|]. destruct (N.leb_spec 5 sz); [lia|].
  destruct (N.leb_spec 9 sz); [lia|]. destruct (N.leb_spec 19 sz); [lia|]. destruct (N.ltb_spec 19 sz); [lia|].
  reflexivity.
Qed.

Lemma cki_from_bytes_fresh c :
  cki_from_bytes c [1; 0] = Ok (cset_flags (cset_version (cset_rawsize c 2) 1) 0, false).
Proof. reflexivity. Qed.

(* ------------------------------------------------------------------ identifiers *)

Lemma trim_right_cons c x r : x <> c -> trim_right c (x :: r) = x :: trim_right c r.
Proof.
  intros H. cbn [trim_right]. destruct (trim_right c r); [|reflexivity].
  destruct (N.eqb_spec x c); [contradiction | reflexivity].
Qed.

Lemma b64_char_not_pad v : b64_char v <> 61.
Proof. unfold b64_char. ncases; lia. Qed.

(* an encoding that ends in exactly one '=' is what TrimRight(s, "=") + "=" gives back *)
Lemma trim_pad_b64 l : (length l mod 3 = 2)%nat -> trim_right 61 (b64_encode l) ++ [61] = b64_encode l.
Proof.
  induction l as [| a | a b | a b c r IH] using list_ind3; intros H.
  - discriminate.
  - discriminate.
  - cbn [b64_encode]. rewrite !trim_right_cons by apply b64_char_not_pad. reflexivity.
  - cbn [b64_encode]. rewrite !trim_right_cons by apply b64_char_not_pad. cbn [app]. rewrite IH; [reflexivity|].
    cbn [length] in H. replace (S (S (S (length r)))) with (length r + 1 * 3)%nat in H by lia.
    now rewrite Nat.mod_add in H.
Qed.

Theorem id_roundtrip b v :
  wf_bytes b -> (is_hex_version v = true \/ (length b mod 3 = 2)%nat) ->
  id_to_binary (id_from_binary b v) v = Ok b.
Proof.
  intros Hwf H. unfold id_to_binary, id_from_binary. destruct (is_hex_version v).
  - now rewrite unhex_hex.
  - destruct H as [H|H]; [discriminate|]. rewrite trim_pad_b64 by exact H. now rewrite b64_decode_encode.
Qed.

Lemma id_from_binary_nonempty b v : (0 < length b)%nat -> lenN (id_from_binary b v) <> 0.
Proof.
  intros H. unfold id_from_binary, lenN. destruct (is_hex_version v).
  - rewrite length_hex_of_bytes. lia.
  - rewrite b64_encode_length. assert ((length b + 2) / 3 > 0)%nat; [|lia].
    apply Nat.div_str_pos. lia.
Qed.

(* ------------------------------------------------------------------ DN with binary *)

Lemma cut_app a rest : ~ In 58 a -> cut 58 (a ++ 58 :: rest) = Some (a, rest).
Proof.
  induction a as [|x a IH]; intros H.
  - reflexivity.
  - cbn [app cut]. destruct (N.eqb_spec x 58) as [->|_]; [exfalso; apply H; now left|].
    rewrite IH; [reflexivity|]. intros Hin. apply H. now right.
Qed.

Lemma dec_fuel_digits_in fuel n acc c :
  In c (dec_fuel fuel n acc) -> In c acc \/ (48 <= c <= 57).
Proof.
  revert n acc. induction fuel as [|f IH]; intros n acc H; [now left|].
  rewrite dec_fuel_S in H.
  assert (Hd : forall c, In c ((48 + n mod 10) :: acc) -> In c acc \/ 48 <= c <= 57).
  { intros c0 [<-|Hc]; [right; pose proof (N.mod_lt n 10); lia | now left]. }
  destruct (n / 10 =? 0); [now apply Hd|].
  destruct (IH _ _ H) as [Hc|Hc]; [now apply Hd | now right].
Qed.

Lemma print_dec_no_colon n : ~ In 58 (print_dec n).
Proof. unfold print_dec. intros H. apply dec_fuel_digits_in in H. destruct H as [[]|H]; lia. Qed.

Lemma hex_digit_no_colon u d : d < 16 -> hex_digit u d <> 58.
Proof. intros H. unfold hex_digit. destruct (N.ltb_spec d 10); [lia|]. destruct u; lia. Qed.

Lemma hex_no_colon u l : wf_bytes l -> ~ In 58 (hex_of_bytes u l).
Proof.
  induction 1 as [|b l Hb Hl IH]; [intros []|].
  cbn [hex_of_bytes flat_map hex_of_byte app]. fold (hex_of_bytes u l).
  intros [H|[H|H]]; [| |now apply IH].
  - revert H. apply hex_digit_no_colon. apply N.div_lt_upper_bound; lia.
  - revert H. apply hex_digit_no_colon. apply N.mod_lt. lia.
Qed.

Lemma parse_int64_print n : n < 2 ^ 63 -> parse_int64 (print_dec n) = Ok (Z.of_N n).
Proof.
  intros Hn. unfold parse_int64.
  pose proof (parse_print_dec n) as Hp.
  destruct (print_dec n) as [|c r] eqn:E; [discriminate|].
  assert (Hc : 48 <= c <= 57).
  { assert (Hin : In c (print_dec n)) by (rewrite E; now left).
    unfold print_dec in Hin. apply dec_fuel_digits_in in Hin. destruct Hin as [[]|]; assumption. }
  destruct (N.eqb_spec c 45); [lia|]. destruct (N.eqb_spec c 43); [lia|]. cbn [orb].
  rewrite Hp. change (2 ^ 63) with 9223372036854775808 in Hn.
  destruct (Z.leb_spec (-9223372036854775808) (Z.of_N n)); [|lia].
  destruct (Z.leb_spec (Z.of_N n) 9223372036854775807); [|lia]. reflexivity.
Qed.

(* every distinguished name — colons included — and every binary value (below 2^62 bytes, so that the
   character count fits Go's int) comes back from its string form *)
Theorem dn_roundtrip dn bin :
  wf_bytes bin -> lenN bin < 2 ^ 62 -> dn_parse (dn_to_string dn bin) = Ok (dn, bin).
Proof.
  intros Hwf Hlen. unfold dn_parse, dn_to_string.
  change ([66; 58] ++ ?x) with ([66] ++ 58 :: x).
  rewrite cut_app by (intros [H|[]]; discriminate).
  change ([58] ++ ?x) with (58 :: x).
  rewrite cut_app by apply print_dec_no_colon.
  change ([58] ++ ?x) with (58 :: x).
  rewrite cut_app by (now apply hex_no_colon).
  change (2 ^ 62) with 4611686018427387904 in Hlen.
  rewrite parse_int64_print by (change (2 ^ 63) with 9223372036854775808; lia). cbn [bind].
  rewrite unhex_hex by exact Hwf. rewrite Z.eqb_refl. reflexivity.
Qed.

Lemma dn_to_string_spec dn bin : dn_to_string dn bin = spec_dn_string dn bin.
Proof. unfold dn_to_string, spec_dn_string. now rewrite N.mul_comm. Qed.
