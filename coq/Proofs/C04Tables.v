(* Decidable obligations of C04 on the layouts regenerated from the Go source on this run. *)
From Coq Require Import List NArith ZArith String Bool.
From Mant Require Import Prim.R Prim.Bytes Model.SmbTypes Model.SmbBlocks Model.SmbLayout Model.SmbAnalysis
  Model.SmbKnown Spec.C04 Gen.SmbLayouts.
Import ListNotations.
Open Scope string_scope.

(* every static Marshal/Unmarshal mismatch of the current tree is one of the recorded findings *)
Lemma rt_known_ok : incl_b (flat_map rt_mismatches all_cmds) known_rt = true.
Proof. vm_cast_no_check (@eq_refl bool true). Qed.

(* the factories construct exactly the structures that were translated *)
Definition table_names (t : list (string * N * string)) : list string := map (fun r => snd r) t.
Lemma factories_known :
  forallb (fun n => existsb (fun c => String.eqb (cd_name c) n) all_cmds) (table_names req_table ++ table_names resp_table) = true.
Proof. vm_cast_no_check (@eq_refl bool true). Qed.

(* the full-strength statement fails on the unchanged tree: an AndX structure does not read back the
   AndX words it emits (witness: ReadAndxRequest with FID = 0x0102) *)
Definition andx_witness : valuation :=
  [("FID", FInt 258); ("Offset", FInt 0); ("MaxCountOfBytesToReturn", FInt 0);
   ("MinCountOfBytesToReturn", FInt 0); ("Timeout", FInt 0); ("Remaining", FInt 0)].
Lemma andx_refuted :
  match cmd_marshal cmd_ReadAndxRequest cstate_new andx_witness with
  | Ok (bs, _, _) => match cmd_unmarshal cmd_ReadAndxRequest (zero_valuation cmd_ReadAndxRequest) bs with
                     | Ok v => negb (N.eqb (vint v "FID") 258)
                     | _ => true
                     end
  | _ => false
  end = true.
Proof. vm_cast_no_check (@eq_refl bool true). Qed.

(* encoding the same structure twice gives different bytes (accumulators survive): CloseResponse *)
Lemma repeat_refuted :
  match cmd_marshal cmd_FlushRequest cstate_new [("FID", FInt 1)] with
  | Ok (b1, cs, v) => match cmd_marshal cmd_FlushRequest cs v with
                      | Ok (b2, _, _) => negb (bytes_eqb b1 b2)
                      | _ => true
                      end
  | _ => false
  end = true.
Proof. vm_cast_no_check (@eq_refl bool true). Qed.
