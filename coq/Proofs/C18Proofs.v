(* C18 — proofs about the sequential part: opcode routing, response-for-request, totality,
   truncation and framing. *)
From Coq Require Import List NArith Bool Lia Arith.
From Coq Require Import ZifyN ZifyNat ZifyBool.
From Mant Require Import Prim.R Prim.Val Prim.Bytes Gen.ConstsC18 Model.NbnsServer Model.NameSrvConc Spec.C18.
Import ListNotations.
Open Scope N_scope.

(* ------------------------------------------------------------------ finite sweeps *)

Definition nrange (k : nat) : list N := map N.of_nat (seq 0 k).

Lemma in_nrange n k : n < N.of_nat k -> In n (nrange k).
Proof.
  intros H. unfold nrange. apply in_map_iff. exists (N.to_nat n). split; [lia|].
  apply in_seq. lia.
Qed.

Definition svc_eqb (a b : service) : bool :=
  match a, b with
  | SvcQuery, SvcQuery | SvcRegistration, SvcRegistration | SvcRelease, SvcRelease
  | SvcRefresh, SvcRefresh | SvcNone, SvcNone => true
  | _, _ => false
  end.

Lemma svc_eqb_eq a b : svc_eqb a b = true -> a = b.
Proof. destruct a, b; simpl; congruence. Qed.

Definition sweep (chk : bool -> N -> N -> bool) : bool :=
  forallb (fun r => forallb (fun op => forallb (fun o => chk r op o) (nrange 2048)) (nrange 16)) [true; false].

Lemma sweep_all chk : sweep chk = true ->
  forall r op other, op < 16 -> other < 2048 -> chk r op other = true.
Proof.
  unfold sweep. intros H r op other Hop Hother.
  rewrite forallb_forall in H.
  assert (Hr : In r [true; false]) by (destruct r; simpl; auto).
  specialize (H r Hr). rewrite forallb_forall in H.
  specialize (H op (in_nrange op 16 Hop)). rewrite forallb_forall in H.
  exact (H other (in_nrange other 2048 Hother)).
Qed.

(* ------------------------------------------------------------------ C18_opcode_routing *)

Definition route_chk (r : bool) (op other : N) : bool :=
  svc_eqb (service_of_handler (route (flags_word r op other))) (rfc1002_service r op).

Lemma route_sweep : sweep route_chk = true.
Proof. vm_compute. reflexivity. Qed.

Lemma opcode_routing : forall response opcode other, opcode < 16 -> other < 2048 ->
  service_of_handler (route (flags_word response opcode other)) = rfc1002_service response opcode.
Proof.
  intros r op other Hop Hother. apply svc_eqb_eq.
  exact (sweep_all route_chk route_sweep r op other Hop Hother).
Qed.

(* every 16-bit flags word is flags_word of its fields *)
Lemma flags_word_decompose flags : flags < 65536 ->
  flags = flags_word (N.testbit flags 15) ((flags / 2048) mod 16) (flags mod 2048).
Proof.
  intros H. unfold flags_word.
  assert (Hb : N.testbit flags 15 = (32768 <=? flags)).
  { rewrite N.testbit_eqb. change (2 ^ 15) with 32768.
    destruct (N.leb_spec 32768 flags) as [Hle|Hlt].
    - assert (flags / 32768 = 1) by (symmetry; apply N.div_unique with (r := flags - 32768); lia).
      rewrite H0. reflexivity.
    - rewrite N.div_small by lia. reflexivity. }
  rewrite Hb.
  pose proof (N.div_mod flags 2048 ltac:(lia)) as Hd.
  pose proof (N.mod_lt flags 2048 ltac:(lia)) as Hm.
  assert (Hq : flags / 2048 < 32) by (apply N.div_lt_upper_bound; lia).
  destruct (N.leb_spec 32768 flags) as [Hle|Hlt].
  - assert (16 <= flags / 2048) by (apply N.div_le_lower_bound; lia).
    assert ((flags / 2048) mod 16 = flags / 2048 - 16).
    { symmetry. apply N.mod_unique with (q := 1); lia. }
    lia.
  - assert (flags / 2048 < 16) by (apply N.div_lt_upper_bound; lia).
    rewrite (N.mod_small (flags / 2048) 16) by lia. lia.
Qed.

Lemma opcode_routing_flags : forall flags, flags < 65536 ->
  service_of_handler (route flags) = rfc1002_service (N.testbit flags 15) ((flags / 2048) mod 16).
Proof.
  intros flags H. rewrite (flags_word_decompose flags H) at 1.
  apply opcode_routing.
  - apply N.mod_lt. lia.
  - apply N.mod_lt. lia.
Qed.

(* the mask the tree had before the fix does not route registration (nor WACK, nor opcode 1) *)
Lemma opcode_routing_mask_F000_refuted :
  service_of_handler (route_with 61440 (flags_word false 5 0)) <> rfc1002_service false 5 /\
  service_of_handler (route_with 61440 (flags_word false 7 0)) <> rfc1002_service false 7 /\
  service_of_handler (route_with 61440 (flags_word false 1 0)) <> rfc1002_service false 1.
Proof. vm_compute. repeat split; discriminate. Qed.

Definition guard_chk (r : bool) (op other : N) : bool :=
  Bool.eqb (is_name_query (flags_word r op other)) (negb r && (op =? 0)).

Lemma guard_sweep : sweep guard_chk = true.
Proof. vm_compute. reflexivity. Qed.

Lemma query_guard : forall response opcode other, opcode < 16 -> other < 2048 ->
  is_name_query (flags_word response opcode other) = true <-> (response = false /\ opcode = 0).
Proof.
  intros r op other Hop Hother.
  pose proof (sweep_all guard_chk guard_sweep r op other Hop Hother) as H.
  unfold guard_chk in H. apply Bool.eqb_prop in H. rewrite H.
  destruct r; simpl; split; intros; try lia; intuition (try discriminate; lia).
Qed.

(* ------------------------------------------------------------------ handle_query *)

Lemma owners_of_query t name os ty : query t name = Ok (os, ty) -> owners_of t name = os.
Proof. unfold owners_of. intros ->. reflexivity. Qed.

Lemma handle_query_spec t qs : forall fl ans an fl' ans' an',
  handle_query t qs fl ans an = (fl', ans', an') ->
  exists extra,
    ans' = ans ++ extra /\
    extra = fst (expected_answers t qs) /\
    Forall (fun a => exists q, In q qs /\ answers_question t q a) extra /\
    (an = u16 (lenN ans) -> an' = u16 (lenN ans')).
Proof.
  induction qs as [|q qs IH]; intros fl ans an fl' ans' an' H; cbn [handle_query] in H.
  - inversion H; subst. exists []. rewrite app_nil_r. repeat split; auto.
  - cbn [expected_answers].
    destruct (query t (nb_name (q_name q))) as [[os ty]| |] eqn:Hq.
    + apply IH in H. destruct H as (extra & -> & Hex & Hall & Han).
      exists (map (answer_rr q) os ++ extra). rewrite app_assoc.
      destruct (expected_answers t qs) as [rest e] eqn:He. cbn [fst] in *. subst extra.
      repeat split; auto.
      apply Forall_app. split.
      * apply Forall_forall. intros a Ha. apply in_map_iff in Ha. destruct Ha as (o & <- & Ho).
        exists q. split; [left; reflexivity|].
        unfold answers_question, answer_rr; cbn. rewrite (owners_of_query _ _ _ _ Hq). auto.
      * eapply Forall_impl; [|exact Hall]. cbn. intros a (q' & Hin & Haq). exists q'. split; [right|]; auto.
    + inversion H; subst. exists []. rewrite app_nil_r. repeat split; auto.
    + inversion H; subst. exists []. rewrite app_nil_r. repeat split; auto.
Qed.

(* flags: the handlers only OR bits into the initial 0x8400 *)
Definition flag_values : list N :=
  [resp_flags0; N.lor resp_flags0 group_bit;
   N.lor resp_flags0 c18_RcodeNameError; N.lor (N.lor resp_flags0 group_bit) c18_RcodeNameError].

Lemma handle_query_flags t qs : forall fl ans an fl' ans' an',
  handle_query t qs fl ans an = (fl', ans', an') ->
  fl = resp_flags0 \/ fl = N.lor resp_flags0 group_bit ->
  (snd (expected_answers t qs) = false /\ (fl' = resp_flags0 \/ fl' = N.lor resp_flags0 group_bit)) \/
  (snd (expected_answers t qs) = true /\
   (fl' = N.lor resp_flags0 c18_RcodeNameError \/ fl' = N.lor (N.lor resp_flags0 group_bit) c18_RcodeNameError)).
Proof.
  induction qs as [|q qs IH]; intros fl ans an fl' ans' an' H Hfl; cbn [handle_query expected_answers] in *.
  - inversion H; subst. left. auto.
  - destruct (query t (nb_name (q_name q))) as [[os ty]| |] eqn:Hq.
    + destruct (expected_answers t qs) as [rest e] eqn:He. cbn [snd] in *.
      eapply IH in H; [exact H|].
      destruct (ty =? 1); [right|exact Hfl].
      destruct Hfl as [->| ->]; [reflexivity|].
      rewrite <- N.lor_assoc, N.lor_diag. reflexivity.
    + inversion H; subst. right. split; [reflexivity|]. destruct Hfl as [->| ->]; auto.
    + inversion H; subst. right. split; [reflexivity|]. destruct Hfl as [->| ->]; auto.
Qed.

Lemma handle_registration_flags : forall rrs t rf fl t' fl',
  handle_registration t rf rrs fl = (t', fl') -> fl' = fl \/ fl' = N.lor fl c18_RcodeConflict.
Proof.
  induction rrs as [|r rrs IH]; intros t rf fl t' fl' H; cbn [handle_registration] in H.
  - inversion H; auto.
  - destruct (register _ _ _ _); [eapply IH; eauto| |]; inversion H; auto.
Qed.

Lemma handle_release_flags : forall rrs t fl t' fl',
  handle_release t rrs fl = Ok (t', fl') -> fl' = fl \/ fl' = N.lor fl c18_RcodeServerError.
Proof.
  induction rrs as [|r rrs IH]; intros t fl t' fl' H; cbn [handle_release] in H.
  - inversion H; auto.
  - destruct (release _ _ _); [eapply IH; eauto| |]; inversion H; auto.
Qed.

Lemma handle_refresh_flags : forall rrs t fl t' fl',
  handle_refresh t rrs fl = (t', fl') -> fl' = fl \/ fl' = N.lor fl c18_RcodeServerError.
Proof.
  induction rrs as [|r rrs IH]; intros t fl t' fl' H; cbn [handle_refresh] in H.
  - inversion H; auto.
  - destruct (refresh _ _ _); [eapply IH; eauto| |]; inversion H; auto.
Qed.

(* ------------------------------------------------------------------ C18_response_is_for_request *)

Lemma rfr_empty t req id fl :
  id = h_id (p_hdr req) -> N.testbit fl 15 = true ->
  response_for_request t req (mk_response id fl 0 []).
Proof.
  intros -> Hb. unfold response_for_request, mk_response; cbn.
  repeat split; auto.
Qed.

Lemma response_is_for_request : forall t req resp t',
  respond t req = Ok (resp, t') -> response_for_request t req resp.
Proof.
  intros t req resp t' H. unfold respond in H.
  destruct (route (h_flags (p_hdr req))) eqn:Hr.
  - destruct (handle_query t (p_questions req) resp_flags0 [] 0) as [[fl ans] an] eqn:Hq.
    inversion H; subst resp t'; clear H.
    pose proof (handle_query_flags _ _ _ _ _ _ _ _ Hq (or_introl eq_refl)) as Hfl.
    apply handle_query_spec in Hq. destruct Hq as (extra & Hans & _ & Hall & Han).
    cbn [app] in Hans. subst ans.
    unfold response_for_request, mk_response; cbn.
    repeat split; auto.
    destruct Hfl as [[_ [->| ->]]|[_ [->| ->]]]; vm_compute; reflexivity.
  - destruct (handle_registration t _ _ _) as [t1 fl] eqn:Hh. inversion H; subst.
    apply rfr_empty; [reflexivity|].
    apply handle_registration_flags in Hh. destruct Hh as [->| ->]; vm_compute; reflexivity.
  - destruct (handle_release t _ _) as [[t1 fl]| |] eqn:Hh; try discriminate. inversion H; subst.
    apply rfr_empty; [reflexivity|].
    apply handle_release_flags in Hh. destruct Hh as [->| ->]; vm_compute; reflexivity.
  - destruct (handle_refresh t _ _) as [t1 fl] eqn:Hh. inversion H; subst.
    apply rfr_empty; [reflexivity|].
    apply handle_refresh_flags in Hh. destruct Hh as [->| ->]; vm_compute; reflexivity.
  - inversion H; subst. apply rfr_empty; [reflexivity|]. vm_compute; reflexivity.
Qed.

(* the complete answer of a name query, and nothing for the other services *)
Lemma response_answers : forall t req resp t',
  respond t req = Ok (resp, t') ->
  (route (h_flags (p_hdr req)) = HQuery ->
     p_answers resp = fst (expected_answers t (p_questions req)) /\ t' = t /\
     rcode (h_flags (p_hdr resp)) = (if snd (expected_answers t (p_questions req)) then c18_RcodeNameError else 0)) /\
  (route (h_flags (p_hdr req)) <> HQuery -> p_answers resp = []).
Proof.
  intros t req resp t' H. unfold respond in H.
  destruct (route (h_flags (p_hdr req))) eqn:Hr; (split; [intros Hq; try discriminate|intros Hn; try congruence]).
  - destruct (handle_query t (p_questions req) resp_flags0 [] 0) as [[fl ans] an] eqn:Hh.
    inversion H; subst resp t'; clear H. cbn.
    pose proof (handle_query_flags _ _ _ _ _ _ _ _ Hh (or_introl eq_refl)) as Hfl.
    apply handle_query_spec in Hh. destruct Hh as (extra & Hans & Hex & _ & _).
    cbn [app] in Hans. subst ans extra. repeat split; auto.
    destruct Hfl as [[-> [->| ->]]|[-> [->| ->]]]; vm_compute; reflexivity.
  - destruct (handle_registration t _ _ _) as [t1 fl]. inversion H; subst. reflexivity.
  - destruct (handle_release t _ _) as [[t1 fl]| |]; try discriminate. inversion H; subst. reflexivity.
  - destruct (handle_refresh t _ _) as [t1 fl]. inversion H; subst. reflexivity.
  - inversion H; subst. reflexivity.
Qed.

Lemma answer_count_exact : forall t req resp t',
  respond t req = Ok (resp, t') -> lenN (p_answers resp) < 65536 ->
  h_an (p_hdr resp) = lenN (p_answers resp).
Proof.
  intros t req resp t' H Hlt. apply response_is_for_request in H.
  destruct H as (_ & _ & _ & Han & _). rewrite Han. unfold u16. apply N.mod_small. exact Hlt.
Qed.

(* ------------------------------------------------------------------ totality *)

Definition table_ok (t : table) : Prop := Forall (fun kv => nr_owners (snd kv) <> []) t.

Lemma tbl_get_ok t k r : table_ok t -> tbl_get t k = Some r -> nr_owners r <> [].
Proof.
  induction t as [|[k' v] t IH]; intros Hok H; cbn [tbl_get] in H; [discriminate|].
  inversion Hok; subst. destruct (beq k' k); [inversion H; subst; auto|auto].
Qed.

Lemma tbl_del_ok t k : table_ok t -> table_ok (tbl_del t k).
Proof.
  unfold table_ok, tbl_del. intros H. apply Forall_forall. intros x Hx.
  apply filter_In in Hx. rewrite Forall_forall in H. apply H. tauto.
Qed.

Lemma tbl_set_ok t k v : table_ok t -> nr_owners v <> [] -> table_ok (tbl_set t k v).
Proof. intros H Hv. unfold tbl_set. constructor; [exact Hv|apply tbl_del_ok; exact H]. Qed.

Lemma register_ok t name ty o t' : table_ok t -> register t name ty o = Ok t' -> table_ok t'.
Proof.
  intros Hok H. unfold register in H.
  destruct (tbl_get t name) as [r|] eqn:Hg.
  - destruct ((nr_type r =? 1) && (ty =? 1)).
    + destruct (existsb _ _); inversion H; subst; auto.
      apply tbl_set_ok; auto. cbn. intros E. apply app_eq_nil in E. destruct E; discriminate.
    + destruct ((nr_type r =? 0) || (ty =? 0)); [discriminate|]. inversion H; subst.
      apply tbl_set_ok; auto. cbn. discriminate.
  - inversion H; subst. apply tbl_set_ok; auto. cbn. discriminate.
Qed.

Lemma release_ok t name o t' : table_ok t -> release t name o = Ok t' -> table_ok t'.
Proof.
  intros Hok H. unfold release in H.
  destruct (tbl_get t name) as [r|] eqn:Hg; [|discriminate].
  destruct (nr_type r =? 1).
  - destruct (remove_first _ _) as [[|x os]|]; inversion H; subst.
    + apply tbl_del_ok; auto.
    + apply tbl_set_ok; auto. cbn. discriminate.
  - destruct (nr_owners r) as [|o1 os]; [discriminate|].
    destruct (ip_equal o1 o); inversion H; subst. apply tbl_del_ok; auto.
Qed.

Lemma release_total t name o : table_ok t -> release t name o <> Panic.
Proof.
  intros Hok. unfold release.
  destruct (tbl_get t name) as [r|] eqn:Hg; [|discriminate].
  destruct (nr_type r =? 1).
  - destruct (remove_first _ _) as [[|x os]|]; discriminate.
  - pose proof (tbl_get_ok _ _ _ Hok Hg) as Hne.
    destruct (nr_owners r) as [|o1 os]; [congruence|]. destruct (ip_equal o1 o); discriminate.
Qed.

Lemma refresh_ok t name o t' : table_ok t -> refresh t name o = Ok t' -> table_ok t'.
Proof.
  intros Hok H. unfold refresh in H. destruct (tbl_get t name) as [r|]; [|discriminate].
  destruct (existsb _ _); inversion H; subst; auto.
Qed.

Lemma mark_conflict_ok t name t' : table_ok t -> mark_conflict t name = Ok t' -> table_ok t'.
Proof.
  intros Hok H. unfold mark_conflict in H. destruct (tbl_get t name) as [r|] eqn:Hg; [|discriminate].
  inversion H; subst. apply tbl_set_ok; auto. cbn. eapply tbl_get_ok; eauto.
Qed.

Lemma handle_registration_ok : forall rrs t rf fl t' fl',
  table_ok t -> handle_registration t rf rrs fl = (t', fl') -> table_ok t'.
Proof.
  induction rrs as [|r rrs IH]; intros t rf fl t' fl' Hok H; cbn [handle_registration] in H.
  - inversion H; subst; auto.
  - destruct (register _ _ _ _) eqn:Hr; try (inversion H; subst; auto; fail).
    eapply IH; [|exact H]. eapply register_ok; eauto.
Qed.

Lemma handle_release_ok : forall rrs t fl,
  table_ok t -> handle_release t rrs fl <> Panic /\
  (forall t' fl', handle_release t rrs fl = Ok (t', fl') -> table_ok t').
Proof.
  induction rrs as [|r rrs IH]; intros t fl Hok; cbn [handle_release].
  - split; [discriminate|]. intros t' fl' H. inversion H; subst; auto.
  - destruct (release t _ _) eqn:Hr.
    + apply IH. eapply release_ok; eauto.
    + split; [discriminate|]. intros t' fl' H. inversion H; subst; auto.
    + exfalso. eapply release_total; eauto.
Qed.

Lemma handle_refresh_ok : forall rrs t fl t' fl',
  table_ok t -> handle_refresh t rrs fl = (t', fl') -> table_ok t'.
Proof.
  induction rrs as [|r rrs IH]; intros t fl t' fl' Hok H; cbn [handle_refresh] in H.
  - inversion H; subst; auto.
  - destruct (refresh _ _ _) eqn:Hr; try (inversion H; subst; auto; fail).
    eapply IH; [|exact H]. eapply refresh_ok; eauto.
Qed.

Lemma respond_total t req : table_ok t ->
  exists resp t', respond t req = Ok (resp, t') /\ table_ok t'.
Proof.
  intros Hok. unfold respond. destruct (route _).
  - destruct (handle_query _ _ _ _ _) as [[fl ans] an]. eauto.
  - destruct (handle_registration _ _ _ _) as [t1 fl] eqn:Hh. do 2 eexists. split; [reflexivity|].
    eapply handle_registration_ok; eauto.
  - destruct (handle_release_ok (p_answers req) t resp_flags0 Hok) as [Hnp Hpres].
    destruct (handle_release _ _ _) as [[t1 fl]| |] eqn:Hh.
    + do 2 eexists. split; [reflexivity|]. eapply Hpres; eauto.
    + exfalso. clear -Hh. revert t Hh. induction (p_answers req) as [|r rrs IH]; intros t Hh; cbn [handle_release] in Hh.
      * discriminate.
      * destruct (release _ _ _); try discriminate. eapply IH; eauto.
    + congruence.
  - destruct (handle_refresh _ _ _) as [t1 fl] eqn:Hh. do 2 eexists. split; [reflexivity|].
    eapply handle_refresh_ok; eauto.
  - eauto.
Qed.

(* tables reachable through the servers and the table API from the empty table *)
Inductive reachable : table -> Prop :=
| reach_empty : reachable []
| reach_respond t req resp t' : reachable t -> respond t req = Ok (resp, t') -> reachable t'
| reach_register t n ty o t' : reachable t -> register t n ty o = Ok t' -> reachable t'
| reach_release t n o t' : reachable t -> release t n o = Ok t' -> reachable t'
| reach_refresh t n o t' : reachable t -> refresh t n o = Ok t' -> reachable t'
| reach_conflict t n t' : reachable t -> mark_conflict t n = Ok t' -> reachable t'.

Lemma reachable_ok t : reachable t -> table_ok t.
Proof.
  induction 1.
  - constructor.
  - destruct (respond_total t req IHreachable) as (r1 & t1 & Hr & Hok). rewrite H0 in Hr. inversion Hr; subst; auto.
  - eapply register_ok; eauto.
  - eapply release_ok; eauto.
  - eapply refresh_ok; eauto.
  - eapply mark_conflict_ok; eauto.
Qed.

Lemma respond_never_panics t req : reachable t -> respond t req <> Panic.
Proof.
  intros Hr. destruct (respond_total t req (reachable_ok t Hr)) as (r1 & t1 & -> & _). discriminate.
Qed.

Section CodecTotal.
  Variable unmarshal : bytes -> R packet.
  Variable marshal : packet -> R bytes.
  Hypothesis unmarshal_total : forall b, unmarshal b <> Panic.
  Hypothesis marshal_total : forall p, marshal p <> Panic.

  Lemma handle_message_total t data : reachable t -> handle_message unmarshal marshal t data <> Panic.
  Proof.
    intros Hr. unfold handle_message.
    destruct (unmarshal data) eqn:Hu; [|discriminate|exfalso; eapply unmarshal_total; eauto].
    destruct (respond_total t a (reachable_ok t Hr)) as (r1 & t1 & -> & _).
    destruct (marshal r1) eqn:Hm; [discriminate|discriminate|exfalso; eapply marshal_total; eauto].
  Qed.

  Lemma udp_handle_packet_total t data : reachable t -> udp_handle_packet unmarshal marshal t data <> Panic.
  Proof.
    intros Hr. unfold udp_handle_packet.
    pose proof (handle_message_total t data Hr) as H.
    destruct (handle_message unmarshal marshal t data) as [[o t']| |]; congruence.
  Qed.

  Lemma handle_message_reachable t data o t' :
    reachable t -> handle_message unmarshal marshal t data = Ok (o, t') -> reachable t'.
  Proof.
    intros Hr H. unfold handle_message in H.
    destruct (unmarshal data); try (inversion H; subst; auto; fail); try discriminate.
    destruct (respond t a) as [[resp t1]| |] eqn:Hresp; try (inversion H; subst; auto; fail); try discriminate.
    assert (reachable t1) by (eapply reach_respond; eauto).
    destruct (marshal resp); inversion H; subst; auto.
  Qed.

  Lemma tcp_conn_total : forall fuel t stream, reachable t -> tcp_conn unmarshal marshal fuel t stream <> Panic.
  Proof.
    induction fuel as [|fuel IH]; intros t stream Hr; cbn [tcp_conn]; [discriminate|].
    destruct stream as [|hi [|lo rest]]; try discriminate.
    destruct (Nat.ltb _ _); [discriminate|].
    pose proof (handle_message_total t (firstn (N.to_nat (hi * 256 + lo)) rest) Hr) as Hnp.
    destruct (handle_message _ _ t _) as [[[resp|] t1]| |] eqn:Hh; try discriminate; try congruence.
    destruct (tcp_frame resp); [|discriminate].
    assert (Hr1 : reachable t1) by (eapply handle_message_reachable; eauto).
    specialize (IH t1 (skipn (N.to_nat (hi * 256 + lo)) rest) Hr1).
    destruct (tcp_conn _ _ fuel t1 _) as [[out t2]| |]; try discriminate. congruence.
  Qed.
End CodecTotal.

(* ------------------------------------------------------------------ UDP truncation, TCP framing *)

Lemma udp_finish_short wire : lenN wire <= c18_MaxUDPSize -> udp_finish wire = wire.
Proof. intros H. unfold udp_finish. destruct (N.ltb_spec c18_MaxUDPSize (lenN wire)); [lia|reflexivity]. Qed.

Lemma firstn_length_N {A} n (l : list A) : lenN (firstn n l) = N.min (N.of_nat n) (lenN l).
Proof. unfold lenN. rewrite firstn_length. lia. Qed.

(* a cut datagram has the maximum size, keeps the transaction id and has TC set in its header *)
Lemma udp_finish_long wire : c18_MaxUDPSize < lenN wire -> wf_bytes wire ->
  lenN (udp_finish wire) = c18_MaxUDPSize /\
  firstn 2 (udp_finish wire) = firstn 2 wire /\
  N.testbit (be_val (firstn 2 (skipn 2 (udp_finish wire)))) 9 = true.
Proof.
  intros Hlen Hwf. unfold udp_finish.
  destruct (N.ltb_spec c18_MaxUDPSize (lenN wire)) as [_|]; [|lia].
  change c18_MaxUDPSize with 576 in *. change c18_FlagTruncated with 512.
  destruct wire as [|b0 [|b1 [|b2 [|b3 rest]]]]; try (unfold lenN in Hlen; simpl in Hlen; lia).
  set (fl := be_val (firstn 2 (skipn 2 (b0 :: b1 :: b2 :: b3 :: rest)))).
  assert (Hbb : length (be_bytes 2 (N.lor fl 512)) = 2%nat) by apply length_be_bytes.
  destruct (be_bytes 2 (N.lor fl 512)) as [|c0 [|c1 [|]]] eqn:Hbe; try (simpl in Hbb; lia).
  remember (N.to_nat 576) as k eqn:Hk.
  assert (Hk' : k = (4 + 572)%nat) by (subst k; reflexivity). clear Hk.
  destruct k as [|[|[|[|k]]]]; try lia.
  cbn [firstn skipn app].
  split; [|split].
  - unfold lenN in *. cbn [length] in *. rewrite firstn_length. lia.
  - reflexivity.
  - rewrite <- Hbe. rewrite be_val_be_bytes.
    assert (Hfl : fl < 65536).
    { unfold fl. cbn [firstn skipn]. inversion Hwf as [|? ? H0 Hwf1]; subst. inversion Hwf1 as [|? ? H1 Hwf2]; subst.
      inversion Hwf2 as [|? ? H2 Hwf3]; subst. inversion Hwf3 as [|? ? H3 _]; subst.
      unfold be_val. cbn [rev app le_val]. lia. }
    assert (Hlor : N.lor fl 512 < 2 ^ 16).
    { apply N.log2_lt_pow2.
      - assert (N.testbit (N.lor fl 512) 9 = true) by (rewrite N.lor_spec; apply orb_true_r).
        destruct (N.lor fl 512); [discriminate|lia].
      - rewrite N.log2_lor.
        destruct (N.eq_dec fl 0) as [->|Hnz]; [reflexivity|].
        assert (N.log2 fl < 16) by (apply N.log2_lt_pow2; lia).
        change (N.log2 512) with 9. lia. }
    change (8 * N.of_nat 2) with 16. rewrite N.mod_small by exact Hlor.
    rewrite N.lor_spec. apply orb_true_r.
Qed.

(* deframing: the reader of the 2-byte length-prefixed stream *)
Fixpoint deframe (fuel : nat) (stream : bytes) : option (list bytes) :=
  match fuel with
  | O => match stream with [] => Some [] | _ => None end
  | S fuel' =>
      match stream with
      | [] => Some []
      | hi :: lo :: rest =>
          let n := N.to_nat (hi * 256 + lo) in
          if Nat.ltb (length rest) n then None
          else option_map (cons (firstn n rest)) (deframe fuel' (skipn n rest))
      | _ => None
      end
  end.

Lemma be_bytes_2 n : n < 65536 -> be_bytes 2 n = [n / 256; n mod 256].
Proof.
  intros H. unfold be_bytes. cbn [le_bytes rev app].
  rewrite (N.mod_small (n / 256) 256); [reflexivity|]. apply N.div_lt_upper_bound; lia.
Qed.

Lemma tcp_frame_some msg : lenN msg <= c18_MaxTCPMessageSize ->
  tcp_frame msg = Some ([lenN msg / 256; lenN msg mod 256] ++ msg).
Proof.
  intros H. unfold tcp_frame. change c18_MaxTCPMessageSize with 65535 in *.
  destruct (N.ltb_spec 65535 (lenN msg)); [lia|]. rewrite be_bytes_2 by lia. reflexivity.
Qed.

Lemma tcp_frame_none msg : c18_MaxTCPMessageSize < lenN msg -> tcp_frame msg = None.
Proof. intros H. unfold tcp_frame. destruct (N.ltb_spec c18_MaxTCPMessageSize (lenN msg)); [reflexivity|lia]. Qed.

(* whatever the server writes deframes to exactly the messages it framed *)
Lemma deframe_frames : forall msgs frames,
  map tcp_frame msgs = map Some frames ->
  deframe (length msgs) (concat frames) = Some msgs.
Proof.
  induction msgs as [|m msgs IH]; intros frames H.
  - destruct frames; [reflexivity|discriminate].
  - destruct frames as [|f frames]; [discriminate|]. cbn [map] in H. inversion H as [[Hf Hrest]]. clear H.
    unfold tcp_frame in Hf. change c18_MaxTCPMessageSize with 65535 in Hf.
    destruct (N.ltb_spec 65535 (lenN m)) as [|Hle]; [discriminate|]. inversion Hf; subst f; clear Hf.
    rewrite (N.mod_small (lenN m / 256) 256) by (apply N.div_lt_upper_bound; lia).
    cbn [concat app length deframe].
    pose proof (N.div_mod (lenN m) 256 ltac:(lia)) as Hdm.
    replace (lenN m / 256 * 256 + lenN m mod 256) with (lenN m) by lia.
    assert (Hn : N.to_nat (lenN m) = length m) by (unfold lenN; lia).
    rewrite !Hn. rewrite app_length.
    destruct (Nat.ltb_spec (length m + length (concat frames)) (length m)) as [Hlt|_]; [lia|].
    rewrite firstn_app, Nat.sub_diag, firstn_all, firstn_O, app_nil_r.
    rewrite skipn_app, Nat.sub_diag, skipn_all. cbn [skipn app].
    rewrite (IH frames Hrest). reflexivity.
Qed.
