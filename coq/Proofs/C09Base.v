(* C09: basic facts about reading the wire (byte_at, bytes_at, u16_at, u32_at), their bridge to the
   Go-faithful primitives used by the model, and text <-> label-list conversions. *)
From Coq Require Import List NArith ZArith Lia Bool.
From Coq Require Import ZifyN ZifyNat ZifyBool.
From Mant Require Import Prim.R Prim.Bytes Model.Llmnr Spec.C09.
Import ListNotations.
Open Scope N_scope.

(* ------------------------------------------------------------------ *)
(* byte_at / bytes_at *)

Lemma byte_at_lt d i b : byte_at d i = Some b -> i < lenN d.
Proof.
  unfold byte_at, lenN. intros H.
  assert (Hn : (N.to_nat i < length d)%nat) by (apply nth_error_Some; congruence). lia.
Qed.

Lemma byte_at_app_l d ext i b : byte_at d i = Some b -> byte_at (d ++ ext) i = Some b.
Proof.
  intros H. pose proof (byte_at_lt _ _ _ H) as Hl. unfold byte_at in *.
  rewrite nth_error_app1; [exact H | unfold lenN in Hl; lia].
Qed.

Lemma byte_at_app_r pre d i : byte_at (pre ++ d) (lenN pre + i) = byte_at d i.
Proof.
  unfold byte_at, lenN. rewrite nth_error_app2 by lia. f_equal. lia.
Qed.

Lemma byte_at_app_r0 pre d : byte_at (pre ++ d) (lenN pre) = byte_at d 0.
Proof. rewrite <- (byte_at_app_r pre d 0). f_equal. lia. Qed.

Lemma byte_at_cons_0 x d : byte_at (x :: d) 0 = Some x.
Proof. reflexivity. Qed.

Lemma byte_at_cons_S x d i : byte_at (x :: d) (1 + i) = byte_at d i.
Proof. change (x :: d) with ([x] ++ d). apply (byte_at_app_r [x] d i). Qed.

Lemma bytes_at_some d i n l :
  bytes_at d i n = Some l -> i + n <= lenN d /\ lenN l = n /\ l = firstn (N.to_nat n) (skipn (N.to_nat i) d).
Proof.
  unfold bytes_at. destruct (N.leb_spec (i + n) (lenN d)) as [Hle|Hgt]; [|discriminate].
  intros H. inversion H; subst. split; [exact Hle|]. split; [|reflexivity].
  unfold lenN in *. rewrite firstn_length, skipn_length. lia.
Qed.

Lemma bytes_at_app_l d ext i n l : bytes_at d i n = Some l -> bytes_at (d ++ ext) i n = Some l.
Proof.
  intros H. destruct (bytes_at_some _ _ _ _ H) as (Hle & _ & Hl). unfold bytes_at.
  rewrite lenN_app. destruct (N.leb_spec (i + n) (lenN d + lenN ext)); [|lia].
  f_equal. subst l. unfold lenN in Hle.
  rewrite skipn_app, firstn_app, skipn_length.
  replace (N.to_nat n - (length d - N.to_nat i))%nat with 0%nat by lia.
  simpl firstn at 2. now rewrite app_nil_r.
Qed.

Lemma bytes_at_mid pre l post : bytes_at (pre ++ l ++ post) (lenN pre) (lenN l) = Some l.
Proof.
  unfold bytes_at. rewrite !lenN_app. destruct (N.leb_spec (lenN pre + lenN l) (lenN pre + (lenN l + lenN post))); [|lia].
  f_equal. unfold lenN. rewrite !Nat2N.id. rewrite skipn_app, skipn_all, Nat.sub_diag. simpl.
  rewrite firstn_app, firstn_all, Nat.sub_diag. simpl. now rewrite app_nil_r.
Qed.

Lemma bytes_at_mid' pre l post i n :
  i = lenN pre -> n = lenN l -> bytes_at (pre ++ l ++ post) i n = Some l.
Proof. intros -> ->. apply bytes_at_mid. Qed.

(* ------------------------------------------------------------------ *)
(* bridge to the Go primitives *)

Lemma go_index_byte_at d i b : byte_at d i = Some b -> go_index d i = Ok b.
Proof.
  intros H. pose proof (byte_at_lt _ _ _ H) as Hl. unfold go_index, byte_at in *.
  destruct (N.ltb_spec i (lenN d)); [|lia]. now rewrite H.
Qed.

Lemma go_slice_bytes_at d i n l : bytes_at d i n = Some l -> go_slice d i (i + n) = Ok l.
Proof.
  intros H. destruct (bytes_at_some _ _ _ _ H) as (Hle & _ & Hl).
  rewrite go_slice_ok by lia. f_equal. subst l. f_equal. lia.
Qed.

Lemma firstn2_skipn d i a b :
  byte_at d i = Some a -> byte_at d (i + 1) = Some b ->
  firstn 2 (skipn (N.to_nat i) d) = [a; b].
Proof.
  unfold byte_at. replace (N.to_nat (i + 1)) with (S (N.to_nat i)) by lia.
  generalize (N.to_nat i) as k. intros k. revert d. induction k as [|k IH]; intros d Ha Hb.
  - destruct d as [|x [|y d]]; simpl in *; try discriminate. congruence.
  - destruct d as [|x d]; simpl in *; try discriminate. now apply IH.
Qed.

Lemma be16_at_bytes d i a b :
  byte_at d i = Some a -> byte_at d (i + 1) = Some b -> be16_at d i = Ok (a * 256 + b).
Proof.
  intros Ha Hb. pose proof (byte_at_lt _ _ _ Hb) as Hl.
  unfold be16_at, go_from. destruct (N.leb_spec i (lenN d)); [|lia]. cbn [bind].
  unfold go_be_uint. unfold lenN in Hl.
  destruct (Nat.leb_spec 2 (length (skipn (N.to_nat i) d))) as [_|Hlt]; [|rewrite skipn_length in Hlt; lia].
  rewrite (firstn2_skipn _ _ _ _ Ha Hb). f_equal. unfold be_val. cbn [rev app le_val]. lia.
Qed.

Lemma be16_at_u16 d i v : u16_at d i = Some v -> be16_at d i = Ok v.
Proof.
  unfold u16_at. destruct (byte_at d i) as [a|] eqn:Ha; [|discriminate].
  destruct (byte_at d (i + 1)) as [b|] eqn:Hb; [|discriminate].
  intros H; inversion H; subst. now apply be16_at_bytes.
Qed.

Lemma u16_at_lt d i v : u16_at d i = Some v -> i + 2 <= lenN d.
Proof.
  unfold u16_at. destruct (byte_at d i) as [a|] eqn:Ha; [|discriminate].
  destruct (byte_at d (i + 1)) as [b|] eqn:Hb; [|discriminate].
  intros _. apply byte_at_lt in Hb. lia.
Qed.

Lemma firstn4_skipn d i a b c e :
  byte_at d i = Some a -> byte_at d (i + 1) = Some b -> byte_at d (i + 2) = Some c -> byte_at d (i + 3) = Some e ->
  firstn 4 (skipn (N.to_nat i) d) = [a; b; c; e].
Proof.
  unfold byte_at. replace (N.to_nat (i + 1)) with (S (N.to_nat i)) by lia.
  replace (N.to_nat (i + 2)) with (S (S (N.to_nat i))) by lia.
  replace (N.to_nat (i + 3)) with (S (S (S (N.to_nat i)))) by lia.
  generalize (N.to_nat i) as k. intros k. revert d. induction k as [|k IH]; intros d Ha Hb Hc He.
  - destruct d as [|x [|y [|z [|w d]]]]; simpl in *; try discriminate. congruence.
  - destruct d as [|x d]; simpl in *; try discriminate. now apply IH.
Qed.

Lemma be32_at_u32 d i v : u32_at d i = Some v -> be32_at d i = Ok v.
Proof.
  unfold u32_at, u16_at.
  destruct (byte_at d i) as [a|] eqn:Ha; [|discriminate].
  destruct (byte_at d (i + 1)) as [b|] eqn:Hb; [|discriminate].
  destruct (byte_at d (i + 2)) as [c|] eqn:Hc; [|discriminate].
  replace (i + 2 + 1) with (i + 3) by lia.
  destruct (byte_at d (i + 3)) as [e|] eqn:He; [|discriminate].
  intros H; inversion H; subst. pose proof (byte_at_lt _ _ _ He) as Hl.
  unfold be32_at, go_from. destruct (N.leb_spec i (lenN d)); [|lia]. cbn [bind].
  unfold go_be_uint. unfold lenN in Hl.
  destruct (Nat.leb_spec 4 (length (skipn (N.to_nat i) d))) as [_|Hlt]; [|rewrite skipn_length in Hlt; lia].
  rewrite (firstn4_skipn _ _ _ _ _ _ Ha Hb Hc He). f_equal. unfold be_val. cbn [rev app le_val]. lia.
Qed.

(* u16_at / u32_at under extension and inside an encoding *)
Lemma u16_at_app_l d ext i v : u16_at d i = Some v -> u16_at (d ++ ext) i = Some v.
Proof.
  unfold u16_at. destruct (byte_at d i) as [a|] eqn:Ha; [|discriminate].
  destruct (byte_at d (i + 1)) as [b|] eqn:Hb; [|discriminate].
  intros H. now rewrite (byte_at_app_l _ ext _ _ Ha), (byte_at_app_l _ ext _ _ Hb).
Qed.

Lemma u32_at_app_l d ext i v : u32_at d i = Some v -> u32_at (d ++ ext) i = Some v.
Proof.
  unfold u32_at. destruct (u16_at d i) as [a|] eqn:Ha; [|discriminate].
  destruct (u16_at d (i + 2)) as [b|] eqn:Hb; [|discriminate].
  intros H. now rewrite (u16_at_app_l _ ext _ _ Ha), (u16_at_app_l _ ext _ _ Hb).
Qed.

Lemma be2_eq v : v < 65536 -> be_bytes 2 v = [v / 256; v mod 256].
Proof.
  intros Hv. unfold be_bytes. cbn [le_bytes rev app].
  f_equal. apply N.mod_small. apply N.div_lt_upper_bound; lia.
Qed.

Lemma u16_at_mid pre v post i :
  v < 65536 -> i = lenN pre -> u16_at (pre ++ be_bytes 2 v ++ post) i = Some v.
Proof.
  intros Hv ->. unfold u16_at. rewrite be2_eq by exact Hv.
  rewrite byte_at_app_r0. cbn [app]. rewrite byte_at_cons_0.
  rewrite byte_at_app_r. rewrite (byte_at_cons_S _ _ 0), byte_at_cons_0.
  f_equal. pose proof (N.div_mod v 256). lia.
Qed.

Lemma be4_eq v : v < 4294967296 -> be_bytes 4 v = be_bytes 2 (v / 65536) ++ be_bytes 2 (v mod 65536).
Proof.
  intros Hv. unfold be_bytes. cbn [le_bytes rev app].
  assert (H1 : v / 256 / 256 = v / 65536) by (rewrite N.div_div by lia; reflexivity).
  assert (H2 : v / 256 / 256 / 256 = v / 65536 / 256) by (rewrite H1; reflexivity).
  assert (H3 : v mod 65536 mod 256 = v mod 256).
  { change 65536 with (256 * 256). rewrite N.mod_mul_r by lia.
    rewrite (N.mul_comm 256 (_ mod 256)), N.mod_add by lia. apply N.mod_mod. lia. }
  assert (H4 : v mod 65536 / 256 mod 256 = v / 256 mod 256).
  { change 65536 with (256 * 256). rewrite N.mod_mul_r by lia.
    rewrite (N.mul_comm 256 (_ mod 256)), N.div_add by lia.
    rewrite (N.div_small (v mod 256) 256) by (apply N.mod_lt; lia). rewrite N.add_0_l. apply N.mod_mod. lia. }
  rewrite H2, H1, H3, H4.
  rewrite (N.mod_small (v / 65536 / 256) 256)
    by (apply N.div_lt_upper_bound; [lia|]; apply N.div_lt_upper_bound; lia).
  reflexivity.
Qed.

Lemma u32_at_mid pre v post i :
  v < 4294967296 -> i = lenN pre -> u32_at (pre ++ be_bytes 4 v ++ post) i = Some v.
Proof.
  intros Hv ->. unfold u32_at. rewrite be4_eq by exact Hv. rewrite <- app_assoc.
  assert (Hhi : v / 65536 < 65536) by (apply N.div_lt_upper_bound; lia).
  assert (Hlo : v mod 65536 < 65536) by (apply N.mod_lt; lia).
  rewrite u16_at_mid by (try exact Hhi; reflexivity).
  rewrite (app_assoc pre), (u16_at_mid (pre ++ be_bytes 2 (v / 65536)))
    by (try exact Hlo; rewrite lenN_app, lenN_be_bytes; reflexivity).
  f_equal. pose proof (N.div_mod v 65536). lia.
Qed.

(* ------------------------------------------------------------------ *)
(* names as text *)

Lemma name_text_join n : name_text n = join_dot n.
Proof.
  induction n as [|l r IH]; [reflexivity|]. destruct r as [|l2 r]; [reflexivity|].
  change (name_text (l :: l2 :: r)) with (l ++ 46 :: name_text (l2 :: r)).
  change (join_dot (l :: l2 :: r)) with (l ++ dot :: join_dot (l2 :: r)). now rewrite IH.
Qed.

Definition nodot (l : list N) : Prop := ~ In 46 l.

Lemma split_dot_nodot l : nodot l -> split_dot l = [l].
Proof.
  induction l as [|c l IH]; intros H; [reflexivity|].
  cbn [split_dot]. unfold dot. destruct (N.eqb_spec c 46) as [->|Hne].
  - exfalso. apply H. now left.
  - rewrite IH; [reflexivity|]. intros Hin. apply H. now right.
Qed.

Lemma split_dot_app_dot l s : nodot l -> split_dot (l ++ dot :: s) = l :: split_dot s.
Proof.
  induction l as [|c l IH]; intros H.
  - cbn [app split_dot]. now rewrite N.eqb_refl.
  - cbn [app split_dot]. unfold dot at 1. destruct (N.eqb_spec c 46) as [->|Hne].
    + exfalso. apply H. now left.
    + rewrite IH; [reflexivity|]. intros Hin. apply H. now right.
Qed.

Lemma split_join n : n <> [] -> Forall nodot n -> split_dot (join_dot n) = n.
Proof.
  induction n as [|l [|l2 r] IH]; intros Hne Hf; [congruence| |].
  - cbn [join_dot]. apply split_dot_nodot. now inversion Hf.
  - cbn [join_dot] in *. inversion Hf as [|? ? Hl Hr]; subst.
    rewrite split_dot_app_dot by exact Hl. f_equal. apply IH; [discriminate|exact Hr].
Qed.

Lemma split_dot_nonempty s : split_dot s <> [].
Proof.
  destruct s as [|c s]; cbn [split_dot]; [discriminate|].
  destruct (c =? dot); [discriminate|]. destruct (split_dot s); discriminate.
Qed.

Lemma join_split s : join_dot (split_dot s) = s.
Proof.
  induction s as [|c s IH]; [reflexivity|].
  cbn [split_dot]. unfold dot at 1. destruct (N.eqb_spec c 46) as [->|Hne].
  - pose proof (split_dot_nonempty s) as Hn. destruct (split_dot s) as [|a r] eqn:E; [congruence|].
    cbn [join_dot app]. unfold dot. now rewrite <- IH.
  - pose proof (split_dot_nonempty s) as Hn. destruct (split_dot s) as [|a r] eqn:E; [congruence|].
    destruct r as [|b r]; cbn [join_dot] in *; [now rewrite IH|]. cbn [app]. now rewrite <- IH.
Qed.

Lemma split_dot_all_nodot s : Forall nodot (split_dot s).
Proof.
  induction s as [|c s IH]; cbn [split_dot].
  - constructor; [intros []|constructor].
  - unfold dot at 1. destruct (N.eqb_spec c 46) as [->|Hne].
    + constructor; [intros []|exact IH].
    + destruct (split_dot s) as [|a r]; [constructor; [|constructor]|].
      * intros [H|[]]. congruence.
      * inversion IH; subst. constructor; [|assumption]. intros [H|H]; [congruence|contradiction].
Qed.

Lemma join_dot_cons x r : r <> [] -> join_dot (x :: r) = x ++ dot :: join_dot r.
Proof. destruct r; [congruence|reflexivity]. Qed.

Lemma join_dot_app a b : a <> [] -> b <> [] -> join_dot (a ++ b) = join_dot a ++ dot :: join_dot b.
Proof.
  induction a as [|x a IH]; intros Ha Hb; [congruence|].
  destruct a as [|y a].
  - cbn [app]. rewrite join_dot_cons by exact Hb. reflexivity.
  - change ((x :: y :: a) ++ b) with (x :: ((y :: a) ++ b)).
    rewrite join_dot_cons by discriminate. rewrite IH by (try discriminate; exact Hb).
    rewrite (join_dot_cons x (y :: a)) by discriminate. now rewrite <- app_assoc.
Qed.

Lemma labels_ok_nodot n : labels_ok n -> Forall nodot n.
Proof. intros [_ H]. eapply Forall_impl; [|exact H]. intros l [_ Hl]. exact Hl. Qed.
