(* Totality: no input makes a decoding entry point of the spnego / ntlm packages panic. *)
From Coq Require Import List Arith NArith ZArith Lia Bool.
From Coq Require Import ZifyN ZifyNat ZifyBool.
From Mant Require Import Prim.R Prim.Bytes Spec.C08 Model.C08Asn1 Model.Spnego Model.NtlmSsp Gen.ConstsC08
  Proofs.C08Layout Proofs.C08Challenge.
Import ListNotations.
Open Scope N_scope.

Lemma go_index_ok' {A} (l : list A) i : i < lenN l -> exists x, go_index l i = Ok x.
Proof.
  intros H. unfold go_index. destruct (N.ltb_spec i (lenN l)); [|lia].
  destruct (nth_error l (N.to_nat i)) eqn:E; [eauto|].
  apply nth_error_None in E. unfold lenN in H. lia.
Qed.

Theorem version_unmarshal_total data : version_unmarshal data <> Panic.
Proof.
  unfold version_unmarshal. destruct (N.ltb_spec (lenN data) 8); [discriminate|].
  destruct (go_index_ok' data 0) as [x0 ->]; [lia|]. cbn [bind].
  destruct (go_index_ok' data 1) as [x1 ->]; [lia|]. cbn [bind].
  rewrite go_slice_sub by lia. cbn [bind]. change (4 - 2) with 2. rewrite go_le_uint2_sub by lia. cbn [bind].
  rewrite go_slice_sub by lia. cbn [bind].
  destruct (go_index_ok' data 7) as [x7 ->]; [lia|]. cbn [bind]. discriminate.
Qed.

Lemma challenge_field_total data len off : exists b, challenge_field data len off = Ok b.
Proof.
  unfold challenge_field. destruct (N.ltb_spec 0 len); cbn [andb]; [|eauto].
  destruct (N.leb_spec (off + len) (lenN data)); [|eauto].
  rewrite go_slice_sub by lia. eauto.
Qed.

Theorem parse_challenge_total data : parse_challenge data <> Panic.
Proof.
  unfold parse_challenge. destruct (N.ltb_spec (lenN data) 56); [discriminate|].
  rewrite go_slice_sub by lia. cbn [bind].
  destruct (negb (bytes_eqb (sub data 0 (8 - 0)) c08_ntlm_signature)); [discriminate|].
  rewrite go_slice_sub by lia. cbn [bind]. change (12 - 8) with 4. rewrite go_le_uint4_sub by lia. cbn [bind].
  destruct (negb (u32_at data 8 =? c08_ntlm_challenge)); [discriminate|].
  rewrite go_slice_sub by lia. cbn [bind]. change (14 - 12) with 2. rewrite go_le_uint2_sub by lia. cbn [bind].
  rewrite go_slice_sub by lia. cbn [bind]. change (20 - 16) with 4. rewrite go_le_uint4_sub by lia. cbn [bind].
  destruct (challenge_field_total data (u16_at data 12) (u32_at data 16)) as [tn ->]. cbn [bind].
  rewrite go_slice_sub by lia. cbn [bind]. change (24 - 20) with 4. rewrite go_le_uint4_sub by lia. cbn [bind].
  rewrite go_slice_sub by lia. cbn [bind].
  rewrite go_slice_sub by lia. cbn [bind].
  rewrite go_slice_sub by lia. cbn [bind]. change (42 - 40) with 2. rewrite go_le_uint2_sub by lia. cbn [bind].
  rewrite go_slice_sub by lia. cbn [bind]. change (48 - 44) with 4. rewrite go_le_uint4_sub by lia. cbn [bind].
  destruct (challenge_field_total data (u16_at data 40) (u32_at data 44)) as [ti ->]. cbn [bind].
  destruct (has_flag (u32_at data 20) c08_f_version && (56 <=? lenN data)).
  - rewrite go_slice_sub by lia. cbn [bind].
    pose proof (version_unmarshal_total (sub data 48 (56 - 48))) as Hv.
    destruct (version_unmarshal (sub data 48 (56 - 48))); [discriminate|discriminate|congruence].
  - discriminate.
Qed.

Theorem parse_target_info_fuel_total fuel : forall ti off m, parse_target_info_fuel fuel ti off m <> Panic.
Proof.
  induction fuel as [|f IH]; intros ti off m; cbn [parse_target_info_fuel]; [discriminate|].
  destruct (negb (off <? lenN ti)); [discriminate|].
  destruct (N.ltb_spec (lenN ti) (off + 4)); [discriminate|].
  rewrite go_slice_sub by lia. cbn [bind]. replace (off + 2 - off) with 2 by lia.
  rewrite go_le_uint2_sub by lia. cbn [bind].
  rewrite go_slice_sub by lia. cbn [bind]. replace (off + 4 - (off + 2)) with 2 by lia.
  rewrite go_le_uint2_sub by lia. cbn [bind].
  destruct (N.ltb_spec (lenN ti) (off + 4 + u16_at ti (off + 2))); [discriminate|].
  destruct (negb (u16_at ti off =? c08_msv_av_eol)).
  - rewrite go_slice_sub by lia. cbn [bind]. destruct (u16_at ti off =? c08_msv_av_eol); [discriminate|apply IH].
  - cbn [bind]. destruct (u16_at ti off =? c08_msv_av_eol); [discriminate|apply IH].
Qed.

Theorem parse_target_info_total ti : parse_target_info ti <> Panic.
Proof. apply parse_target_info_fuel_total. Qed.

Lemma skip_gss_header_total tok : skip_gss_header tok <> Panic.
Proof.
  unfold skip_gss_header. destruct (N.ltb_spec (lenN tok) 2); [discriminate|].
  destruct (go_index_ok' tok 0) as [b0 ->]; [lia|]. cbn [bind].
  destruct (negb (b0 =? c08_gss_api_spnego)); [discriminate|].
  destruct (go_index_ok' tok 1) as [b1 ->]; [lia|]. cbn [bind].
  set (offset := if negb (N.land b1 128 =? 0) then 2 + N.land b1 127 else 2).
  destruct (N.ltb_spec (lenN tok) offset); [discriminate|].
  unfold go_from. destruct (N.leb_spec offset (lenN tok)); [discriminate|lia].
Qed.

Theorem extract_ntlm_token_total tok : extract_ntlm_token tok <> Panic.
Proof.
  unfold extract_ntlm_token. pose proof (skip_gss_header_total tok) as H.
  destruct (skip_gss_header tok) as [body| |]; [|discriminate|congruence]. cbn [bind].
  destruct (unmarshal_oid body) as [[o rest]|]; [|discriminate].
  assert (Hr : extract_from_resp rest <> Panic).
  { unfold extract_from_resp. destruct (unmarshal_neg_token_resp rest) as [r|]; [|discriminate].
    destruct (ntr_token r); discriminate. }
  destruct (unmarshal_neg_token_init rest) as [i|]; [|exact Hr].
  destruct (nti_mech_token i); [discriminate|exact Hr].
Qed.

Theorem parse_neg_token_resp_total tok : parse_neg_token_resp tok <> Panic.
Proof.
  unfold parse_neg_token_resp. pose proof (skip_gss_header_total tok) as H.
  destruct (skip_gss_header tok) as [body| |]; [|discriminate|congruence]. cbn [bind].
  destruct (unmarshal_oid body) as [[o rest]|]; [|discriminate].
  destruct (unmarshal_neg_token_resp rest); discriminate.
Qed.

From Mant Require Import Model.SpnegoAuth.

Lemma create_neg_token_init_total tok : create_neg_token_init tok <> Panic.
Proof.
  unfold create_neg_token_init. destruct (marshal_neg_token_init tok); [|discriminate].
  destruct (marshal_oid c08_spnego_oid); discriminate.
Qed.

Lemma create_authenticate_total flags lm nt user domain ws : create_authenticate flags lm nt user domain ws <> Panic.
Proof.
  unfold create_authenticate. destruct (authenticate_names flags user domain ws) as [[db ub] wb].
  match goal with |- (if ?c then _ else _) <> _ => destruct c end; discriminate.
Qed.

Theorem process_challenge_token_total lm_of nt_of tok user domain ws :
  process_challenge_token lm_of nt_of tok user domain ws <> Panic.
Proof.
  unfold process_challenge_token.
  pose proof (parse_neg_token_resp_total tok) as H1.
  destruct (parse_neg_token_resp tok) as [resp| |]; [|discriminate|congruence]. cbn [bind].
  destruct (ntr_state resp =? 2)%Z; [discriminate|].
  pose proof (extract_ntlm_token_total tok) as H2.
  destruct (extract_ntlm_token tok) as [inner| |]; [|discriminate|congruence]. cbn [bind].
  pose proof (parse_challenge_total inner) as H3.
  destruct (parse_challenge inner) as [ch| |]; [|discriminate|congruence]. cbn [bind].
  pose proof (create_authenticate_total (ch_flags ch) (lm_of ch) (nt_of ch) user domain ws) as H4.
  destruct (create_authenticate (ch_flags ch) (lm_of ch) (nt_of ch) user domain ws) as [auth| |];
    [|discriminate|congruence]. cbn [bind].
  apply create_neg_token_init_total.
Qed.
