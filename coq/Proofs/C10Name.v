(* C10 proofs, part 1: first-level encoding (name.go) against RFC 1001 14.1. *)
From Coq Require Import List Arith NArith Lia Bool.
From Coq Require Import ZifyN ZifyNat ZifyBool.
From Mant Require Import Prim.R Prim.Bytes Gen.ConstsC10 Model.NbName Spec.C10.
Import ListNotations.
Open Scope N_scope.

(* the constants of name.go, as read from the source by go2coq on this run, are the RFC's:
   16-byte names, 32 characters, 'A' *)
Lemma source_constants :
  c10_NetBIOSNameLength = 16 /\ c10_EncodedNameLength = 32 /\ c10_ASCII_A = 65.
Proof. repeat split; reflexivity. Qed.

(* ------------------------------------------------------------------ all 256 byte values *)

Definition all_bytes : list N := map N.of_nat (seq 0 256).

Lemma in_all_bytes b : b < 256 -> In b all_bytes.
Proof.
  intros H. unfold all_bytes. apply in_map_iff. exists (N.to_nat b). split; [lia|].
  apply in_seq. lia.
Qed.

(* a boolean fact checked on each of the 256 byte values holds for every byte *)
Lemma byte_sweep (P : N -> bool) : forallb P all_bytes = true -> forall b, b < 256 -> P b = true.
Proof. intros H b Hb. rewrite forallb_forall in H. apply H, in_all_bytes, Hb. Qed.

(* the library's shift-and-mask nibble map is the RFC's, for every byte *)
Lemma enc_byte_half_ascii b : b < 256 -> enc_byte b = half_ascii b.
Proof.
  intros Hb.
  assert (H : bytes_eqb (enc_byte b) (half_ascii b) = true).
  { revert b Hb. apply byte_sweep. vm_compute. reflexivity. }
  now apply bytes_eqb_spec.
Qed.

(* one step of the decoding loop *)
Definition pair_bad (h lo : N) : bool := (15 <? wrap8 (h + 256 - 65)) || (15 <? wrap8 (lo + 256 - 65)).
Definition pair_val (h lo : N) : N :=
  wrap8 (N.lor (wrap8 (N.shiftl (wrap8 (h + 256 - 65)) 4)) (wrap8 (lo + 256 - 65))).

Lemma decode_pairs_step h lo r :
  decode_pairs (h :: lo :: r) =
  if pair_bad h lo then Err else let* r' := decode_pairs r in Ok (pair_val h lo :: r').
Proof. reflexivity. Qed.

Lemma pair_half_ascii b : b < 256 ->
  pair_bad (65 + b / 16) (65 + b mod 16) = false /\ pair_val (65 + b / 16) (65 + b mod 16) = b.
Proof.
  intros Hb.
  assert (H : negb (pair_bad (65 + b / 16) (65 + b mod 16)) && (pair_val (65 + b / 16) (65 + b mod 16) =? b) = true).
  { revert b Hb. apply byte_sweep. vm_compute. reflexivity. }
  apply andb_true_iff in H. destruct H as [H1 H2]. apply negb_true_iff in H1. apply N.eqb_eq in H2. auto.
Qed.

(* the decoding loop accepts exactly the pairs of characters 'A'..'P' and computes the RFC value:
   checked for all 256 x 256 pairs of byte values *)
Lemma pair_un_half_ascii c1 c2 : c1 < 256 -> c2 < 256 ->
  match un_half_ascii c1 c2 with
  | Some b => pair_bad c1 c2 = false /\ pair_val c1 c2 = b
  | None => pair_bad c1 c2 = true
  end.
Proof.
  intros H1 H2.
  pose (P := fun c1 c2 => match un_half_ascii c1 c2 with
                          | Some b => negb (pair_bad c1 c2) && (pair_val c1 c2 =? b)
                          | None => pair_bad c1 c2 end).
  assert (H : P c1 c2 = true).
  { revert c2 H2. apply byte_sweep. revert c1 H1. apply (byte_sweep (fun c1 => forallb (P c1) all_bytes)).
    vm_compute. reflexivity. }
  unfold P in H. destruct (un_half_ascii c1 c2); [|exact H].
  apply andb_true_iff in H. destruct H as [Ha Hb]. apply negb_true_iff in Ha. apply N.eqb_eq in Hb. auto.
Qed.

Lemma decode_pairs_half_ascii l : wf_bytes l -> decode_pairs (flat_map half_ascii l) = Ok l.
Proof.
  induction 1 as [|b l Hb Hl IH]; [reflexivity|].
  cbn [flat_map half_ascii app]. rewrite decode_pairs_step.
  destruct (pair_half_ascii b Hb) as [H1 H2]. rewrite H1, IH, H2. reflexivity.
Qed.

(* the library decoder agrees with the RFC inverse mapping on every even-length string of bytes *)
Lemma decode_pairs_rfc l : wf_bytes l ->
  match rfc1001_decode32 l with
  | Some bs => decode_pairs l = Ok bs
  | None => Nat.even (length l) = true -> decode_pairs l = Err
  end.
Proof.
  revert l. fix IH 1. intros [|c1 [|c2 r]] Hwf.
  - reflexivity.
  - cbn. discriminate.
  - inversion Hwf as [|? ? Hc1 Hwf']; subst. inversion Hwf' as [|? ? Hc2 Hr]; subst.
    cbn [rfc1001_decode32]. rewrite decode_pairs_step.
    pose proof (pair_un_half_ascii c1 c2 Hc1 Hc2) as Hp.
    specialize (IH r Hr).
    destruct (un_half_ascii c1 c2) as [b|].
    + destruct Hp as [Hp1 Hp2]. rewrite Hp1.
      destruct (rfc1001_decode32 r) as [bs|].
      * rewrite IH, Hp2. reflexivity.
      * intros He. cbn [length Nat.even] in He. rewrite (IH He). reflexivity.
    + rewrite Hp. reflexivity.
Qed.

(* ------------------------------------------------------------------ characters of the encoded form *)

Lemma half_ascii_range b : b < 256 -> Forall (fun c => 65 <= c <= 80) (half_ascii b).
Proof.
  intros Hb. unfold half_ascii.
  assert (b / 16 < 16) by (apply N.div_lt_upper_bound; lia).
  assert (b mod 16 < 16) by (apply N.mod_lt; lia).
  repeat constructor; lia.
Qed.

Lemma encoded_range l : wf_bytes l -> Forall (fun c => 65 <= c <= 80) (flat_map half_ascii l).
Proof.
  induction 1 as [|b l Hb Hl IH]; [constructor|].
  cbn [flat_map]. apply Forall_app. split; [now apply half_ascii_range|exact IH].
Qed.

Lemma length_encoded l : length (flat_map half_ascii l) = (2 * length l)%nat.
Proof. induction l as [|b l IH]; [reflexivity|]. cbn [flat_map half_ascii app length]. lia. Qed.

Definition no_dot (l : list N) : Prop := Forall (fun c => c <> dot) l.

Lemma encoded_no_dot l : wf_bytes l -> no_dot (flat_map half_ascii l).
Proof.
  intros H. apply encoded_range in H. unfold no_dot, dot.
  eapply Forall_impl; [|exact H]. cbn beta. intros c Hc. lia.
Qed.

(* ------------------------------------------------------------------ padding and trimming *)

Lemma length_repeatN {A} (x : A) n : length (repeatN x n) = n.
Proof. apply repeatN_length. Qed.

Lemma wf_repeatN x n : x < 256 -> wf_bytes (repeatN x n).
Proof. intros Hx. induction n; simpl; constructor; auto. Qed.

Lemma length_nb_pad name : (length name <= 16)%nat -> length (nb_pad name) = 16%nat.
Proof. intros H. unfold nb_pad. rewrite app_length, length_repeatN. lia. Qed.

Lemma wf_nb_pad name : wf_bytes name -> wf_bytes (nb_pad name).
Proof. intros H. unfold nb_pad. apply wf_bytes_app. split; [exact H|]. apply wf_repeatN. lia. Qed.

Lemma pad16_nb_pad name : pad16 name = nb_pad name.
Proof. reflexivity. Qed.

Lemma trim_right_sp_snoc l c :
  trim_right_sp (l ++ [c]) = if c =? space then trim_right_sp l else l ++ [c].
Proof.
  induction l as [|x l IH].
  - cbn [app trim_right_sp is_nil]. rewrite andb_true_r. destruct (c =? space); reflexivity.
  - cbn [app trim_right_sp]. rewrite IH. destruct (c =? space) eqn:E; [reflexivity|].
    destruct (l ++ [c]) eqn:E2; [destruct l; discriminate|].
    cbn [is_nil]. rewrite andb_false_r. reflexivity.
Qed.

Lemma trim_right_sp_pad l k : trim_right_sp (l ++ repeatN space k) = trim_right_sp l.
Proof.
  revert l. induction k as [|k IH]; intros l.
  - cbn [repeatN]. now rewrite app_nil_r.
  - cbn [repeatN]. replace (l ++ space :: repeatN space k) with ((l ++ [space]) ++ repeatN space k)
      by now rewrite <- app_assoc.
    rewrite IH, trim_right_sp_snoc. reflexivity.
Qed.

(* the model's TrimRight is the specification's strip_padding *)
Lemma strip_padding_snoc l c :
  strip_padding (l ++ [c]) = if c =? 32 then strip_padding l else l ++ [c].
Proof.
  unfold strip_padding. rewrite rev_app_distr. cbn [rev app].
  destruct (c =? 32); [reflexivity|]. cbn [rev]. now rewrite rev_involutive.
Qed.

Lemma trim_right_sp_strip l : trim_right_sp l = strip_padding l.
Proof.
  induction l as [|c l IH] using rev_ind; [reflexivity|].
  rewrite trim_right_sp_snoc, strip_padding_snoc. unfold space. now rewrite IH.
Qed.

Lemma strip_padding_nts l : last l 0 <> 32 -> strip_padding l = l.
Proof.
  destruct l as [|c l] using rev_ind; [reflexivity|].
  rewrite last_last. intros H. rewrite strip_padding_snoc.
  destruct (N.eqb_spec c 32); [contradiction|reflexivity].
Qed.

Lemma strip_padding_pad l : strip_padding (nb_pad l) = strip_padding l.
Proof. rewrite <- !trim_right_sp_strip. apply (trim_right_sp_pad l). Qed.

(* padding the stripped name gives the same 16 bytes: nothing is lost on the wire *)
Lemma strip_padding_length l : (length (strip_padding l) <= length l)%nat.
Proof.
  induction l as [|c l IH] using rev_ind; [simpl; lia|].
  rewrite strip_padding_snoc. destruct (c =? 32); rewrite app_length; simpl; lia.
Qed.

Lemma repeatN_snoc {A} (x : A) k : repeatN x (S k) = repeatN x k ++ [x].
Proof. induction k as [|k IH]; [reflexivity|]. cbn [repeatN app] in *. now rewrite <- IH. Qed.

Lemma strip_padding_decomp l : exists k, l = strip_padding l ++ repeatN 32 k.
Proof.
  induction l as [|c l IH] using rev_ind; [exists 0%nat; reflexivity|].
  rewrite strip_padding_snoc. destruct (N.eqb_spec c 32) as [->|Hc].
  - destruct IH as [k Hk]. exists (S k). rewrite repeatN_snoc, app_assoc, <- Hk. reflexivity.
  - exists 0%nat. cbn [repeatN]. now rewrite app_nil_r.
Qed.

Lemma repeatN_add {A} (x : A) a b : repeatN x a ++ repeatN x b = repeatN x (a + b).
Proof. induction a as [|a IH]; [reflexivity|]. cbn [repeatN app Nat.add]. now rewrite IH. Qed.

Lemma nb_pad_strip l : (length l <= 16)%nat -> nb_pad (strip_padding l) = nb_pad l.
Proof.
  intros Hl. destruct (strip_padding_decomp l) as [k Hk].
  revert Hk. generalize (strip_padding l). intros s Hk. subst l.
  unfold nb_pad. rewrite <- app_assoc, repeatN_add. f_equal. f_equal.
  rewrite app_length, length_repeatN in *. lia.
Qed.

(* ------------------------------------------------------------------ splitting at dots *)

Lemma split_first_dot_nodot enc : no_dot enc -> split_first_dot enc = (enc, None).
Proof.
  induction 1 as [|c enc Hc Henc IH]; [reflexivity|].
  cbn [split_first_dot]. destruct (N.eqb_spec c dot); [contradiction|]. now rewrite IH.
Qed.

Lemma split_first_dot_app enc s : no_dot enc -> split_first_dot (enc ++ dot :: s) = (enc, Some s).
Proof.
  induction 1 as [|c enc Hc Henc IH].
  - cbn [app split_first_dot]. now rewrite N.eqb_refl.
  - cbn [app split_first_dot]. destruct (N.eqb_spec c dot); [contradiction|]. now rewrite IH.
Qed.

Lemma split_dot_nonnil s : split_dot s <> [].
Proof.
  destruct s as [|c r]; [discriminate|]. cbn [split_dot].
  destruct (c =? dot); [discriminate|]. destruct (split_dot r); discriminate.
Qed.

Lemma split_dot_nodot enc : no_dot enc -> split_dot enc = [enc].
Proof.
  induction 1 as [|c enc Hc Henc IH]; [reflexivity|].
  cbn [split_dot]. destruct (N.eqb_spec c dot); [contradiction|]. now rewrite IH.
Qed.

Lemma split_dot_app enc s : no_dot enc -> split_dot (enc ++ dot :: s) = enc :: split_dot s.
Proof.
  induction 1 as [|c enc Hc Henc IH].
  - cbn [app split_dot]. now rewrite N.eqb_refl.
  - cbn [app split_dot]. destruct (N.eqb_spec c dot); [contradiction|]. now rewrite IH.
Qed.

(* the specification's reading of a scope text as labels is strings.Split *)
Lemma scope_split_split_dot s : forall cur,
  scope_split cur s = match split_dot s with h :: t => (rev cur ++ h) :: t | [] => [] end.
Proof.
  induction s as [|c r IH]; intros cur.
  - cbn [scope_split split_dot]. now rewrite app_nil_r.
  - cbn [scope_split split_dot]. fold dot. destruct (c =? dot).
    + rewrite app_nil_r. f_equal. rewrite IH. cbn [rev app].
      destruct (split_dot r) eqn:E; [now apply split_dot_nonnil in E|reflexivity].
    + rewrite IH. destruct (split_dot r) eqn:E; [now apply split_dot_nonnil in E|].
      cbn [rev]. now rewrite <- app_assoc.
Qed.

Lemma scope_labels_split_dot s : s <> [] -> scope_labels s = split_dot s.
Proof.
  intros H. destruct s as [|c r]; [contradiction|]. unfold scope_labels.
  rewrite scope_split_split_dot. destruct (split_dot (c :: r)) eqn:E; [now apply split_dot_nonnil in E|reflexivity].
Qed.

(* ------------------------------------------------------------------ Validate accepts what the RFCs allow *)

Lemma is_ldh_true c : letter_digit_hyphen c -> is_ldh c = true.
Proof. unfold letter_digit_hyphen, is_ldh. intros H. lia. Qed.

Lemma label_ok_true l : rfc_label l -> label_ok l = true.
Proof.
  intros (Hne & Hlen & Hall & Hhd & Hlast). unfold label_ok.
  assert (H1 : is_nil l = false) by (destruct l; [contradiction|reflexivity]).
  assert (H2 : (lenN l <=? 63) = true) by (unfold lenN; lia).
  assert (H3 : forallb is_ldh l = true).
  { apply forallb_forall. intros c Hc. apply is_ldh_true. rewrite Forall_forall in Hall. auto. }
  rewrite H1, H2, H3. cbn [negb andb].
  destruct (N.eqb_spec (hd 0 l) 45); [contradiction|]. destruct (N.eqb_spec (last l 0) 45); [contradiction|].
  reflexivity.
Qed.

Lemma valid_domain_name_true s : s <> [] -> scope_ok s -> is_valid_domain_name s = true.
Proof.
  intros Hne Hok. unfold is_valid_domain_name, scope_ok in *.
  rewrite scope_labels_split_dot in Hok by exact Hne.
  destruct s; [contradiction|]. cbn [is_nil negb andb].
  apply forallb_forall. intros l Hl. apply label_ok_true. rewrite Forall_forall in Hok. auto.
Qed.

Lemma validate_true name scope : name_ok name -> scope_ok scope -> validate (mk_nbname name scope) = true.
Proof.
  intros (Hwf & Hlen & Hstar) Hscope. unfold validate, c10_NetBIOSNameLength. cbn [nb_name nb_scope].
  destruct (N.ltb_spec 16 (lenN name)); [unfold lenN in *; lia|].
  destruct (N.eqb_spec (hd 0 name) 42); [contradiction|].
  destruct scope as [|c r]; [reflexivity|]. cbn [is_nil negb].
  apply valid_domain_name_true; [discriminate|exact Hscope].
Qed.

(* ------------------------------------------------------------------ the main name theorems *)

Theorem first_level_encode_rfc name scope :
  name_ok name -> scope_ok scope ->
  first_level_encode (mk_nbname name scope) = Ok (rfc1001_encode name scope).
Proof.
  intros Hname Hscope. unfold first_level_encode. rewrite validate_true by assumption.
  cbn [negb nb_name nb_scope]. rewrite pad16_nb_pad. f_equal. unfold rfc1001_encode.
  assert (E : flat_map enc_byte (nb_pad name) = flat_map half_ascii (nb_pad name)).
  { destruct Hname as (Hwf & _ & _). apply wf_nb_pad in Hwf. revert Hwf. generalize (nb_pad name).
    induction 1 as [|b l Hb Hl IH]; [reflexivity|]. cbn [flat_map]. now rewrite IH, enc_byte_half_ascii. }
  rewrite E. destruct scope; cbn [is_nil]; [now rewrite app_nil_r|reflexivity].
Qed.

(* decoding the RFC form of ANY name of at most 16 bytes (any scope text at all) gives the name
   without its trailing 0x20 bytes, and the scope *)
Theorem first_level_decode_rfc name scope :
  wf_bytes name -> (length name <= 16)%nat ->
  first_level_decode (rfc1001_encode name scope) = Ok (mk_nbname (strip_padding name) scope).
Proof.
  intros Hwf Hlen. unfold first_level_decode, rfc1001_encode, c10_EncodedNameLength.
  pose proof (wf_nb_pad name Hwf) as Hwfp.
  pose proof (encoded_no_dot _ Hwfp) as Hnd.
  assert (Hl : lenN (flat_map half_ascii (nb_pad name)) = 32).
  { unfold lenN. rewrite length_encoded, length_nb_pad by exact Hlen. reflexivity. }
  destruct scope as [|c r].
  - rewrite app_nil_r, split_first_dot_nodot by exact Hnd. rewrite Hl. cbn [N.eqb Pos.eqb negb].
    rewrite decode_pairs_half_ascii by exact Hwfp. cbn [bind].
    rewrite trim_right_sp_strip, strip_padding_pad. reflexivity.
  - fold dot. rewrite split_first_dot_app by exact Hnd. rewrite Hl. cbn [N.eqb Pos.eqb negb].
    rewrite decode_pairs_half_ascii by exact Hwfp. cbn [bind].
    rewrite trim_right_sp_strip, strip_padding_pad. reflexivity.
Qed.

Theorem first_level_roundtrip name scope :
  name_ok name -> scope_ok scope ->
  exists enc, first_level_encode (mk_nbname name scope) = Ok enc
              /\ enc = rfc1001_encode name scope
              /\ first_level_decode enc = Ok (mk_nbname (strip_padding name) scope).
Proof.
  intros Hname Hscope. exists (rfc1001_encode name scope).
  split; [now apply first_level_encode_rfc|]. split; [reflexivity|].
  destruct Hname as (Hwf & Hlen & _). now apply first_level_decode_rfc.
Qed.

Theorem first_level_roundtrip_exact name scope :
  name_ok name -> scope_ok scope -> last name 0 <> 32 ->
  exists enc, first_level_encode (mk_nbname name scope) = Ok enc
              /\ first_level_decode enc = Ok (mk_nbname name scope).
Proof.
  intros Hname Hscope Hnts. destruct (first_level_roundtrip name scope Hname Hscope) as (enc & H1 & _ & H2).
  exists enc. split; [exact H1|]. rewrite H2, strip_padding_nts by exact Hnts. reflexivity.
Qed.

(* the full-strength statement (every valid name decodes back to itself) is false *)
Theorem first_level_exact_refuted :
  exists name scope enc, name_ok name /\ scope_ok scope
    /\ first_level_encode (mk_nbname name scope) = Ok enc
    /\ first_level_decode enc <> Ok (mk_nbname name scope).
Proof.
  (* "FRED" followed by twelve spaces *)
  exists [70; 82; 69; 68; 32; 32; 32; 32; 32; 32; 32; 32; 32; 32; 32; 32], [].
  eexists. split; [|split; [|split]].
  - split; [|split]; [apply wf_bytesb_spec; reflexivity|simpl; lia|simpl; lia].
  - constructor.
  - vm_compute. reflexivity.
  - vm_compute. discriminate.
Qed.

(* ... although nothing is lost on the wire: the name that comes back encodes to the same characters *)
Theorem strip_same_encoding name scope :
  (length name <= 16)%nat -> rfc1001_encode (strip_padding name) scope = rfc1001_encode name scope.
Proof. intros H. unfold rfc1001_encode. now rewrite nb_pad_strip. Qed.

(* ------------------------------------------------------------------ totality and strictness of the decoder *)

Lemma decode_pairs_even l : Nat.even (length l) = true -> decode_pairs l <> Panic.
Proof.
  revert l. fix IH 1. intros [|c1 [|c2 r]] He.
  - discriminate.
  - discriminate.
  - rewrite decode_pairs_step. cbn [length Nat.even] in He. specialize (IH r He).
    destruct (pair_bad c1 c2); [discriminate|]. destruct (decode_pairs r); [discriminate|discriminate|contradiction].
Qed.

Theorem first_level_decode_total s : first_level_decode s <> Panic.
Proof.
  unfold first_level_decode, c10_EncodedNameLength. destruct (split_first_dot s) as [enc rest].
  destruct (N.eqb_spec (lenN enc) 32) as [E|E]; cbn [negb]; [|discriminate].
  assert (He : Nat.even (length enc) = true).
  { unfold lenN in E. replace (length enc) with 32%nat by lia. reflexivity. }
  pose proof (decode_pairs_even enc He). destruct (decode_pairs enc); [discriminate|discriminate|contradiction].
Qed.

(* the decoder accepts a string exactly when its part before the first "." is 32 characters 'A'..'P',
   and then returns the bytes RFC 1001 assigns to them (trailing 0x20 stripped) *)
Theorem first_level_decode_strict s : wf_bytes s ->
  let (enc, rest) := split_first_dot s in
  match (if lenN enc =? 32 then rfc1001_decode32 enc else None) with
  | Some raw => first_level_decode s
                = Ok (mk_nbname (strip_padding raw) (match rest with Some r => r | None => [] end))
  | None => first_level_decode s = Err
  end.
Proof.
  intros Hwf. unfold first_level_decode, c10_EncodedNameLength.
  assert (Hwf_enc : wf_bytes (fst (split_first_dot s))).
  { clear -Hwf. induction Hwf as [|c r Hc Hr IH]; [constructor|].
    cbn [split_first_dot]. destruct (c =? dot); [constructor|].
    destruct (split_first_dot r). cbn [fst] in *. constructor; assumption. }
  destruct (split_first_dot s) as [enc rest]. cbn [fst] in Hwf_enc.
  destruct (N.eqb_spec (lenN enc) 32) as [E|E]; cbn [negb]; [|reflexivity].
  pose proof (decode_pairs_rfc enc Hwf_enc) as Hd.
  destruct (rfc1001_decode32 enc) as [raw|].
  - rewrite Hd. cbn [bind]. now rewrite trim_right_sp_strip.
  - rewrite Hd; [reflexivity|]. unfold lenN in E. replace (length enc) with 32%nat by lia. reflexivity.
Qed.

(* the nibble map, for every byte value: the library's encoding of one byte is the RFC's two
   characters, and the library's decoding of those two characters is the byte *)
Theorem nibble_map b : b < 256 ->
  enc_byte b = half_ascii b /\ decode_pairs (half_ascii b) = Ok [b] /\ Forall (fun c => 65 <= c <= 80) (half_ascii b).
Proof.
  intros Hb. split; [now apply enc_byte_half_ascii|]. split; [|now apply half_ascii_range].
  apply (decode_pairs_half_ascii [b]). constructor; [exact Hb|constructor].
Qed.
