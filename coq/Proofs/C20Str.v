(* Lemmas about the Go string helpers of Model/StrC20.v: Split, ParseUint after %d / %x, TrimSpace. *)
From Coq Require Import List NArith ZArith Lia Bool.
From Coq Require Import ZifyN ZifyNat ZifyBool.
From Mant Require Import Prim.R Prim.Bytes Prim.Dec Model.StrC20.
Import ListNotations.
Open Scope N_scope.

(* ------------------------------------------------------------------ *)
(* strings.Split *)

(* [nob c l]: the byte c does not occur in l *)
Definition nob (c : N) (l : list N) : bool := forallb (fun x => negb (x =? c)) l.

Lemma nob_app c a b : nob c (a ++ b) = nob c a && nob c b.
Proof. apply forallb_app. Qed.

Lemma nob_cons c x l : nob c (x :: l) = negb (x =? c) && nob c l.
Proof. reflexivity. Qed.

Lemma split_on_nonnil sep s : split_on sep s <> [].
Proof.
  induction s as [|c r IH]; cbn [split_on]; [discriminate|].
  destruct (c =? sep); [discriminate|]. destruct (split_on sep r); discriminate.
Qed.

Lemma split_on_nosep sep a : nob sep a = true -> split_on sep a = [a].
Proof.
  induction a as [|c a IH]; intros H; [reflexivity|].
  rewrite nob_cons in H. apply andb_true_iff in H. destruct H as [Hc Ha].
  cbn [split_on]. apply negb_true_iff in Hc. rewrite Hc, (IH Ha). reflexivity.
Qed.

Lemma split_on_app sep a b :
  nob sep a = true -> split_on sep (a ++ sep :: b) = a :: split_on sep b.
Proof.
  induction a as [|c a IH]; intros H.
  - cbn [app split_on]. now rewrite N.eqb_refl.
  - rewrite nob_cons in H. apply andb_true_iff in H. destruct H as [Hc Ha].
    cbn [app split_on]. apply negb_true_iff in Hc. rewrite Hc, (IH Ha). reflexivity.
Qed.

Lemma contains_byte_nob c s : contains_byte c s = negb (nob c s).
Proof.
  unfold contains_byte, nob. induction s as [|x s IH]; [reflexivity|].
  cbn [existsb forallb]. rewrite IH, negb_andb, negb_involutive, (N.eqb_sym c x). reflexivity.
Qed.

(* a class of bytes that excludes c *)
Lemma nob_of_class (p : N -> bool) c l : forallb p l = true -> p c = false -> nob c l = true.
Proof.
  intros Hl Hc. unfold nob. apply forallb_forall. intros x Hx.
  rewrite forallb_forall in Hl. specialize (Hl x Hx).
  destruct (N.eqb_spec x c) as [->|]; [congruence|reflexivity].
Qed.

(* ------------------------------------------------------------------ *)
(* %d then ParseUint(_, 10, bits) *)

Lemma print_dec_digits n : forallb is_digit (print_dec n) = true.
Proof. unfold print_dec. now apply dec_fuel_digits. Qed.

Lemma print_dec_nob c n : is_digit c = false -> nob c (print_dec n) = true.
Proof. intros H. eapply nob_of_class; [apply print_dec_digits|exact H]. Qed.

Lemma print_dec_nonnil n : print_dec n <> [].
Proof. unfold print_dec. apply dec_fuel_nonempty. Qed.

Lemma parse_uint10_print bits n : n < 2 ^ bits -> parse_uint10 bits (print_dec n) = Some n.
Proof.
  intros H. unfold parse_uint10. rewrite parse_print_dec.
  destruct (N.ltb_spec n (2 ^ bits)); [reflexivity|lia].
Qed.

(* ------------------------------------------------------------------ *)
(* %x then ParseUint(_, 16, bits) *)

Lemma hexc_val_digit d : d < 16 -> hexc_val (hex_digit false d) = d.
Proof. intros H. unfold hexc_val. now rewrite unhex_hex_digit. Qed.

Lemma is_hexc_digit d : d < 16 -> is_hexc (hex_digit false d) = true.
Proof. intros H. unfold is_hexc. now rewrite unhex_hex_digit. Qed.

Lemma hex_val_app a b :
  fold_left (fun a c => 16 * a + hexc_val c) b a = a * 16 ^ N.of_nat (length b) + hex_val b.
Proof.
  unfold hex_val. revert a. induction b as [|d b IH]; intros a.
  - simpl. lia.
  - cbn [fold_left length]. rewrite IH. rewrite (IH (16 * 0 + hexc_val d)).
    replace (N.of_nat (S (length b))) with (1 + N.of_nat (length b)) by lia.
    rewrite N.pow_add_r. lia.
Qed.

Lemma hex_fuel_S f n acc :
  hex_fuel (S f) n acc =
  if n / 16 =? 0 then hex_digit false (n mod 16) :: acc
  else hex_fuel f (n / 16) (hex_digit false (n mod 16) :: acc).
Proof. reflexivity. Qed.

Lemma hex_fuel_val fuel n acc :
  n < 2 ^ N.of_nat fuel ->
  hex_val (hex_fuel (S fuel) n acc) = n * 16 ^ N.of_nat (length acc) + hex_val acc.
Proof.
  revert n acc. induction fuel as [|f IH]; intros n acc Hn.
  - simpl in Hn. assert (n = 0) by lia. subst. reflexivity.
  - assert (Hm : n mod 16 < 16) by (apply N.mod_lt; lia).
    rewrite hex_fuel_S. destruct (N.eqb_spec (n / 16) 0) as [Hz|Hnz].
    + unfold hex_val at 1. cbn [fold_left]. rewrite hex_val_app.
      rewrite (hexc_val_digit _ Hm).
      assert (n mod 16 = n). { pose proof (N.div_mod n 16). lia. }
      rewrite H. unfold hex_val. lia.
    + rewrite IH.
      * cbn [length]. replace (N.of_nat (S (length acc))) with (1 + N.of_nat (length acc)) by lia.
        rewrite N.pow_add_r. unfold hex_val at 1. cbn [fold_left]. rewrite hex_val_app.
        rewrite (hexc_val_digit _ Hm).
        pose proof (N.div_mod n 16). unfold hex_val. lia.
      * replace (N.of_nat (S f)) with (1 + N.of_nat f) in Hn by lia.
        rewrite N.pow_add_r in Hn. change (2 ^ 1) with 2 in Hn.
        pose proof (N.div_mod n 16). lia.
Qed.

Lemma hex_val_print_hex n : hex_val (print_hex n) = n.
Proof.
  unfold print_hex. rewrite hex_fuel_val by apply size_bound.
  unfold hex_val. cbn [length fold_left]. change (N.of_nat 0) with 0. rewrite N.pow_0_r. lia.
Qed.

Lemma hex_fuel_hexc fuel n acc :
  forallb is_hexc acc = true -> forallb is_hexc (hex_fuel fuel n acc) = true.
Proof.
  revert n acc. induction fuel as [|f IH]; intros n acc Ha; [exact Ha|].
  rewrite hex_fuel_S.
  assert (Hd : forallb is_hexc (hex_digit false (n mod 16) :: acc) = true).
  { cbn [forallb]. rewrite Ha, is_hexc_digit; [reflexivity|]. apply N.mod_lt. lia. }
  destruct (n / 16 =? 0); [exact Hd | now apply IH].
Qed.

Lemma hex_fuel_nonempty fuel n acc : hex_fuel (S fuel) n acc <> [].
Proof.
  revert n acc. induction fuel as [|f IH]; intros n acc.
  - rewrite hex_fuel_S. destruct (n / 16 =? 0); discriminate.
  - rewrite hex_fuel_S. destruct (n / 16 =? 0); [discriminate|]. apply (IH (n / 16)).
Qed.

Lemma print_hex_hexc n : forallb is_hexc (print_hex n) = true.
Proof. unfold print_hex. now apply hex_fuel_hexc. Qed.

Lemma print_hex_nonnil n : print_hex n <> [].
Proof. unfold print_hex. apply hex_fuel_nonempty. Qed.

Theorem parse_print_hex n : parse_hex (print_hex n) = Some n.
Proof.
  unfold parse_hex. pose proof (print_hex_nonnil n) as Hne.
  destruct (print_hex n) as [|c l] eqn:E; [congruence|].
  rewrite <- E, print_hex_hexc. f_equal. apply hex_val_print_hex.
Qed.

Lemma parse_uint16_print bits n : n < 2 ^ bits -> parse_uint16 bits (print_hex n) = Some n.
Proof.
  intros H. unfold parse_uint16. rewrite parse_print_hex.
  destruct (N.ltb_spec n (2 ^ bits)); [reflexivity|lia].
Qed.

Lemma print_hex_nob c n : is_hexc c = false -> nob c (print_hex n) = true.
Proof. intros H. eapply nob_of_class; [apply print_hex_hexc|exact H]. Qed.

(* ------------------------------------------------------------------ *)
(* strings.TrimSpace, generically in the token set *)

Lemma strip_prefix_app t x : strip_prefix t (t ++ x) = Some x.
Proof. induction t as [|a t IH]; [reflexivity|]. cbn [app strip_prefix]. now rewrite N.eqb_refl. Qed.

Lemma strip_prefix_some t s r : strip_prefix t s = Some r -> s = t ++ r.
Proof.
  revert s. induction t as [|a t IH]; intros s H.
  - cbn in H. now inversion H.
  - destruct s as [|b s]; [discriminate|]. cbn [strip_prefix] in H.
    destruct (N.eqb_spec a b) as [->|]; [|discriminate]. cbn [app]. f_equal. now apply IH.
Qed.

Lemma strip_any_some toks s r : strip_any toks s = Some r -> exists t, In t toks /\ s = t ++ r.
Proof.
  induction toks as [|t ts IH]; [discriminate|]. cbn [strip_any].
  destruct (strip_prefix t s) as [r'|] eqn:E.
  - intros H. inversion H; subst. exists t. split; [now left|]. now apply strip_prefix_some.
  - intros H. destruct (IH H) as (t' & Hin & Hs). exists t'. split; [now right|exact Hs].
Qed.

Lemma strip_any_none toks s t x : strip_any toks s = None -> In t toks -> s <> t ++ x.
Proof.
  induction toks as [|t' ts IH]; [contradiction|]. cbn [strip_any].
  destruct (strip_prefix t' s) as [r'|] eqn:E; [discriminate|].
  intros H [->|Hin] Hs.
  - subst s. rewrite strip_prefix_app in E. discriminate.
  - exact (IH H Hin Hs).
Qed.

Section Trim.
  Variable toks : list (list N).
  (* tokens are non-empty and no token is a prefix of another one (UTF-8 is a prefix code);
     [heads]/[tails]: bytes at the first / at a later position of a token *)
  Hypothesis toks_nonnil : forall t, In t toks -> t <> [].
  Hypothesis toks_strip : forall t x, In t toks -> strip_any toks (t ++ x) = Some x.

  Lemma strip_any_shorter s r : strip_any toks s = Some r -> (length r < length s)%nat.
  Proof.
    intros H. destruct (strip_any_some _ _ _ H) as (t & Hin & ->).
    rewrite app_length. specialize (toks_nonnil t Hin). destruct t; [congruence|]. simpl. lia.
  Qed.

  Lemma trim_fuel_any f1 : forall f2 s,
    (length s <= f1)%nat -> (length s <= f2)%nat -> trim_fuel toks f1 s = trim_fuel toks f2 s.
  Proof.
    induction f1 as [|f1 IH]; intros f2 s H1 H2.
    - destruct s; [|simpl in H1; lia]. destruct f2; [reflexivity|]. cbn [trim_fuel].
      destruct (strip_any toks []) as [r|] eqn:E; [|reflexivity].
      apply strip_any_shorter in E. simpl in E. lia.
    - destruct f2 as [|f2].
      + destruct s; [|simpl in H2; lia]. cbn [trim_fuel].
        destruct (strip_any toks []) as [r|] eqn:E; [|reflexivity].
        apply strip_any_shorter in E. simpl in E. lia.
      + cbn [trim_fuel]. destruct (strip_any toks s) as [r|] eqn:E; [|reflexivity].
        apply strip_any_shorter in E. apply IH; lia.
  Qed.

  Lemma trim_fuel_enough fuel s :
    (length s <= fuel)%nat -> trim_fuel toks fuel s = trim_fuel toks (length s) s.
  Proof. intros H. apply trim_fuel_any; lia. Qed.

  (* the loop equation *)
  Lemma trim_left_unfold s :
    trim_left_toks toks s =
    match strip_any toks s with Some r => trim_left_toks toks r | None => s end.
  Proof.
    unfold trim_left_toks. destruct s as [|c s'].
    - cbn [length trim_fuel]. destruct (strip_any toks []) as [r|] eqn:E; [|reflexivity].
      apply strip_any_shorter in E. simpl in E. lia.
    - cbn [length trim_fuel]. destruct (strip_any toks (c :: s')) as [r|] eqn:E; [|reflexivity].
      apply trim_fuel_enough. apply strip_any_shorter in E. cbn [length] in E. lia.
  Qed.

  (* white space in front disappears *)
  Lemma trim_left_pad ws x :
    Forall (fun t => In t toks) ws -> trim_left_toks toks (concat ws ++ x) = trim_left_toks toks x.
  Proof.
    induction 1 as [|t ws Ht Hws IH]; [reflexivity|].
    cbn [concat]. rewrite <- app_assoc, trim_left_unfold, toks_strip by exact Ht. exact IH.
  Qed.

  (* [heads_tails]: a byte that starts a token never occurs inside a token at a later position *)
  Variable is_tail : N -> bool.
  Hypothesis tails_spec : forall t a b, In t toks -> t = a ++ b -> a <> [] ->
                                        match b with c :: _ => is_tail c = true | [] => True end.

  Definition clean_head (x : list N) : Prop := match x with c :: _ => is_tail c = false | [] => True end.

  (* appending something that does not start with a token-interior byte cannot create a token *)
  Lemma strip_any_none_app s x :
    strip_any toks s = None -> s <> [] -> clean_head x -> strip_any toks (s ++ x) = None.
  Proof.
    intros Hs Hne Hx. destruct (strip_any toks (s ++ x)) as [r|] eqn:E; [exfalso|reflexivity].
    destruct (strip_any_some _ _ _ E) as (t & Hin & Heq).
    apply app_eq_app in Heq. destruct Heq as (l & [[Hs' Hr]|[Ht Hx']]).
    - (* s = t ++ l : t is a prefix of s *) exact (strip_any_none _ _ _ _ Hs Hin Hs').
    - (* t = s ++ l, x = l ++ r *)
      pose proof (tails_spec t s l Hin Ht Hne) as Hl.
      destruct l as [|c l'].
      + rewrite app_nil_r in Ht. subst t. apply (strip_any_none _ _ _ [] Hs Hin). now rewrite app_nil_r.
      + subst x. cbn in Hx. congruence.
  Qed.

  Lemma trim_left_app s x :
    clean_head x ->
    trim_left_toks toks (s ++ x) =
    match trim_left_toks toks s with [] => trim_left_toks toks x | u => u ++ x end.
  Proof.
    intros Hx. remember (length s) as n eqn:Hn. revert s Hn.
    induction n as [n IH] using lt_wf_ind. intros s Hn.
    rewrite (trim_left_unfold s). destruct (strip_any toks s) as [r|] eqn:E.
    - destruct (strip_any_some _ _ _ E) as (t & Hin & ->).
      rewrite <- app_assoc, trim_left_unfold, toks_strip by exact Hin.
      apply (IH (length r)); [|reflexivity].
      subst n. rewrite app_length. specialize (toks_nonnil t Hin). destruct t; [congruence|simpl; lia].
    - destruct s as [|c s']; [reflexivity|].
      rewrite trim_left_unfold, strip_any_none_app; [reflexivity|exact E|discriminate|exact Hx].
  Qed.
End Trim.

(* --- the two concrete token sets *)

Lemma In_space_token_cases (P : list N -> Prop) :
  Forall P space_tokens -> forall t, In t space_tokens -> P t.
Proof. intros H t Hin. rewrite Forall_forall in H. now apply H. Qed.

Lemma space_nonnil t : In t space_tokens -> t <> [].
Proof.
  revert t. apply (In_space_token_cases (fun t => t <> [])). repeat constructor; discriminate.
Qed.

Lemma space_strip t x : In t space_tokens -> strip_any space_tokens (t ++ x) = Some x.
Proof.
  revert t. apply (In_space_token_cases (fun t => strip_any space_tokens (t ++ x) = Some x)).
  repeat constructor.
Qed.

Lemma rev_space_nonnil t : In t rev_space_tokens -> t <> [].
Proof.
  unfold rev_space_tokens. rewrite in_map_iff. intros (u & <- & Hu) H.
  apply (space_nonnil u Hu). destruct u; [reflexivity|]. cbn in H. now destruct (rev u).
Qed.

Lemma rev_space_strip t x : In t rev_space_tokens -> strip_any rev_space_tokens (t ++ x) = Some x.
Proof.
  assert (H : Forall (fun t => strip_any rev_space_tokens (t ++ x) = Some x) rev_space_tokens)
    by (repeat constructor).
  rewrite Forall_forall in H. apply H.
Qed.

(* bytes that occur in a white-space token after its first byte *)
Definition space_tail (c : N) : bool := (128 <=? c) && (c <=? 191).

Lemma space_tails t a b : In t space_tokens -> t = a ++ b -> a <> [] ->
  match b with c :: _ => space_tail c = true | [] => True end.
Proof.
  revert t a b.
  assert (H : Forall (fun t => forall a b, t = a ++ b -> a <> [] ->
                      match b with c :: _ => space_tail c = true | [] => True end) space_tokens).
  { repeat constructor; intros a b Heq Ha;
      (destruct a as [|a0 a]; [congruence|]);
      repeat (destruct a as [|? a]; cbn in Heq; inversion Heq; subst; try reflexivity; try exact I). }
  intros t a b Hin. rewrite Forall_forall in H. now apply H.
Qed.

Lemma space_head_clean t r : In t space_tokens -> clean_head space_tail (t ++ r).
Proof.
  revert t. apply (In_space_token_cases (fun t => clean_head space_tail (t ++ r))).
  repeat constructor.
Qed.

Lemma concat_space_clean ws :
  Forall (fun t => In t space_tokens) ws -> clean_head space_tail (concat ws).
Proof.
  induction 1 as [|t ws Ht Hws IH]; [exact I|]. cbn [concat]. now apply space_head_clean.
Qed.

Definition ws_tokens (w : list N) : Prop :=
  exists toks, Forall (fun t => In t space_tokens) toks /\ w = concat toks.

Lemma trim_left_space_nil w : ws_tokens w -> trim_left_toks space_tokens w = [].
Proof.
  intros (toks & Ht & ->). rewrite <- (app_nil_r (concat toks)).
  rewrite (trim_left_pad _ space_nonnil space_strip) by exact Ht. reflexivity.
Qed.

Lemma rev_concat_tokens toks :
  Forall (fun t => In t space_tokens) toks ->
  exists toks', Forall (fun t => In t rev_space_tokens) toks' /\ rev (concat toks) = concat toks'.
Proof.
  induction 1 as [|t ts Ht Hts (toks' & Hf & He)].
  - exists []. split; [constructor|reflexivity].
  - exists (toks' ++ [rev t]). split.
    + apply Forall_app. split; [exact Hf|]. constructor; [|constructor].
      unfold rev_space_tokens. now apply in_map.
    + cbn [concat]. rewrite rev_app_distr, He, concat_app. cbn [concat]. now rewrite app_nil_r.
Qed.

(* Surrounding white space does not change what TrimSpace returns, for every string s. *)
Theorem trim_space_pad w1 s w2 :
  ws_tokens w1 -> ws_tokens w2 -> trim_space (w1 ++ s ++ w2) = trim_space s.
Proof.
  intros (t1 & Ht1 & ->) (t2 & Ht2 & ->). unfold trim_space.
  rewrite (trim_left_pad _ space_nonnil space_strip) by exact Ht1.
  rewrite (trim_left_app _ space_nonnil space_strip _ space_tails) by now apply concat_space_clean.
  destruct (trim_left_toks space_tokens s) as [|c u] eqn:E.
  - rewrite trim_left_space_nil; [reflexivity|]. now exists t2.
  - rewrite rev_app_distr. destruct (rev_concat_tokens t2 Ht2) as (t2' & Hf & ->).
    now rewrite (trim_left_pad _ rev_space_nonnil rev_space_strip).
Qed.

(* A string that neither starts nor ends with a white-space token is left alone. *)
Lemma trim_space_fixed s :
  strip_any space_tokens s = None -> strip_any rev_space_tokens (rev s) = None -> trim_space s = s.
Proof.
  intros H1 H2. unfold trim_space.
  rewrite (trim_left_unfold _ space_nonnil space_strip), H1.
  rewrite (trim_left_unfold _ rev_space_nonnil rev_space_strip), H2. apply rev_involutive.
Qed.

(* bytes that start / end a white-space token *)
Definition space_first (c : N) : bool :=
  ((9 <=? c) && (c <=? 13)) || (c =? 32) || (c =? 194) || (c =? 225) || (c =? 226) || (c =? 227).
Definition space_last (c : N) : bool :=
  ((9 <=? c) && (c <=? 13)) || (c =? 32) || space_tail c.

Lemma strip_any_first s :
  match s with c :: _ => space_first c = false | [] => True end -> strip_any space_tokens s = None.
Proof.
  intros H. destruct (strip_any space_tokens s) as [r|] eqn:E; [exfalso|reflexivity].
  destruct (strip_any_some _ _ _ E) as (t & Hin & ->). clear E. revert t Hin H.
  apply (In_space_token_cases (fun t => match t ++ r with c :: _ => space_first c = false | [] => True end -> False)).
  repeat constructor; cbn; discriminate.
Qed.

Lemma strip_any_last s :
  match s with c :: _ => space_last c = false | [] => True end -> strip_any rev_space_tokens s = None.
Proof.
  intros H. destruct (strip_any rev_space_tokens s) as [r|] eqn:E; [exfalso|reflexivity].
  destruct (strip_any_some _ _ _ E) as (t & Hin & ->). clear E. revert t Hin H.
  assert (Hall : Forall (fun t => match t ++ r with c :: _ => space_last c = false | [] => True end -> False)
                        rev_space_tokens) by (repeat constructor; cbn; discriminate).
  rewrite Forall_forall in Hall. exact Hall.
Qed.

(* commutation with a byte map that respects the token bytes (ASCII case mapping does) *)
Section TrimMap.
  Variable f : N -> N.
  Variable toks : list (list N).
  Hypothesis f_tok : forall t a b, In t toks -> In a t -> (a =? f b) = (a =? b).

  Lemma strip_prefix_map t s :
    (forall a b, In a t -> (a =? f b) = (a =? b)) ->
    strip_prefix t (map f s) = option_map (map f) (strip_prefix t s).
  Proof.
    revert s. induction t as [|a t IH]; intros s Hf; [reflexivity|].
    destruct s as [|b s]; [reflexivity|]. cbn [map strip_prefix].
    rewrite (Hf a b) by now left. destruct (a =? b); [|reflexivity].
    apply IH. intros a' b' Hin. apply Hf. now right.
  Qed.

  Lemma strip_any_map s :
    strip_any toks (map f s) = option_map (map f) (strip_any toks s).
  Proof.
    revert f_tok. induction toks as [|t ts IH]; intros Hf; [reflexivity|].
    cbn [strip_any]. rewrite strip_prefix_map by (intros a b Ha; apply (Hf t); [now left|exact Ha]).
    destruct (strip_prefix t s); [reflexivity|].
    apply IH. intros t' a b Ht'. apply Hf. now right.
  Qed.

  Lemma trim_fuel_map fuel s : trim_fuel toks fuel (map f s) = map f (trim_fuel toks fuel s).
  Proof.
    revert s. induction fuel as [|n IH]; intros s; [reflexivity|].
    cbn [trim_fuel]. rewrite strip_any_map. destruct (strip_any toks s); cbn [option_map]; [apply IH|reflexivity].
  Qed.

  Lemma trim_left_map s : trim_left_toks toks (map f s) = map f (trim_left_toks toks s).
  Proof. unfold trim_left_toks. rewrite map_length. apply trim_fuel_map. Qed.
End TrimMap.

Definition keeps_space_bytes (f : N -> N) : Prop :=
  forall a b, (a <? 65) || (127 <? a) = true -> (a =? f b) = (a =? b).

Lemma space_bytes_low t a : In t space_tokens -> In a t -> (a <? 65) || (127 <? a) = true.
Proof.
  revert t. apply (In_space_token_cases (fun t => In a t -> (a <? 65) || (127 <? a) = true)).
  repeat constructor; cbn [In]; intros H; repeat (destruct H as [<-|H]; [reflexivity|]); contradiction.
Qed.

Lemma trim_space_map f s : keeps_space_bytes f -> trim_space (map f s) = map f (trim_space s).
Proof.
  intros Hf. unfold trim_space.
  rewrite (trim_left_map f space_tokens).
  - rewrite <- map_rev, (trim_left_map f rev_space_tokens), map_rev; [reflexivity|].
    intros t a b Ht Ha. unfold rev_space_tokens in Ht. apply in_map_iff in Ht.
    destruct Ht as (u & <- & Hu). apply in_rev in Ha. apply Hf. now apply (space_bytes_low u).
  - intros t a b Ht Ha. apply Hf. now apply (space_bytes_low t).
Qed.

Lemma to_upper_keeps : keeps_space_bytes to_upper.
Proof.
  intros a b Ha. unfold to_upper.
  destruct ((97 <=? b) && (b <=? 122)) eqn:E; [|reflexivity].
  destruct (N.eqb_spec a (b - 32)), (N.eqb_spec a b); try reflexivity; lia.
Qed.

Lemma to_lower_keeps : keeps_space_bytes to_lower.
Proof.
  intros a b Ha. unfold to_lower.
  destruct ((65 <=? b) && (b <=? 90)) eqn:E; [|reflexivity].
  destruct (N.eqb_spec a (b + 32)), (N.eqb_spec a b); try reflexivity; lia.
Qed.
