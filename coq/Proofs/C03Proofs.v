From Coq Require Import List Arith NArith ZArith String Bool Lia.
From Coq Require Import ZifyN ZifyNat ZifyBool.
From Mant Require Import Prim.R Prim.Bytes Model.SmbTypes Model.SmbBlocks Model.SmbLayout Model.SmbAnalysis
  Model.SmbEnvelope Spec.C06 Spec.C04 Spec.C05 Spec.C03 Proofs.C06Layout Proofs.C04Proofs.
Import ListNotations.
Open Scope N_scope.
Open Scope list_scope.

(* ---- header ---- *)
Lemma firstn_pad {A} (l pad : list A) n : List.length l = n -> firstn n (l ++ pad) = l.
Proof. intros <-. rewrite firstn_app, firstn_all, Nat.sub_diag. simpl. now rewrite app_nil_r. Qed.

Lemma le_bytes_1 n : n < 256 -> le_bytes 1 n = [n].
Proof. intros H. cbn [le_bytes]. now rewrite N.mod_small. Qed.

Lemma hdr_dom h : wf_header h -> dom_layout hdr_layout (hdr_values h).
Proof.
  intros (Hp & Hpw & Hc & Hs & Hf & Hf2 & Hph & Hsl & Hsw & Hr & Ht & Hpl & Hu & Hm).
  unfold hdr_layout, hdr_values, dom_layout.
  rewrite (firstn_pad _ _ 4 Hp), (firstn_pad _ _ 8 Hsl).
  repeat constructor; unfold fld_ok; cbn [fst]; try (change (2 ^ (8 * N.of_nat 1)) with 256; assumption);
    try (change (2 ^ (8 * N.of_nat 2)) with 65536; assumption);
    try (change (2 ^ (8 * N.of_nat 4)) with (2 ^ 32); assumption).
  - rewrite <- Hp. now apply le_val_bound.
  - rewrite <- Hsl. now apply le_val_bound.
Qed.

Lemma hdr_bytes h : wf_header h -> put_fields hdr_layout (hdr_values h) = cifs_header h.
Proof.
  intros (Hp & Hpw & Hc & Hs & Hf & Hf2 & Hph & Hsl & Hsw & Hr & Ht & Hpl & Hu & Hm).
  unfold hdr_layout, hdr_values, cifs_header. cbn [put_fields fld_bytes fst snd].
  rewrite (firstn_pad _ _ 4 Hp), (firstn_pad _ _ 8 Hsl).
  rewrite <- Hp at 1. rewrite le_bytes_le_val by exact Hpw.
  rewrite <- Hsl at 1. rewrite le_bytes_le_val by exact Hsw.
  rewrite (le_bytes_1 _ Hc), (le_bytes_1 _ Hf). rewrite app_nil_r. reflexivity.
Qed.

Lemma cifs_header_length h : wf_header h -> lenN (cifs_header h) = 32.
Proof.
  intros H. rewrite <- hdr_bytes by exact H. rewrite lenN_put_fields by now apply hdr_dom. reflexivity.
Qed.

Theorem header_layout h : wf_header h -> header_marshal h = Ok (cifs_header h).
Proof.
  intros H. unfold header_marshal. rewrite hdr_bytes by exact H. rewrite cifs_header_length by exact H.
  reflexivity.
Qed.

Lemma header_of_hdr_values h : wf_header h -> header_of_values (hdr_values h) = h.
Proof.
  intros (Hp & Hpw & Hc & Hs & Hf & Hf2 & Hph & Hsl & Hsw & Hr & Ht & Hpl & Hu & Hm).
  unfold header_of_values, hdr_values, fv. cbn [nth].
  rewrite (firstn_pad _ _ 4 Hp), (firstn_pad _ _ 8 Hsl).
  rewrite <- Hp at 1. rewrite le_bytes_le_val by exact Hpw.
  rewrite <- Hsl at 1. rewrite le_bytes_le_val by exact Hsw.
  destruct h; reflexivity.
Qed.

Theorem header_roundtrip h suffix : wf_header h ->
  header_unmarshal (cifs_header h ++ suffix) = Ok (h, 32).
Proof.
  intros H. unfold header_unmarshal. rewrite lenN_app, cifs_header_length by exact H.
  unfold header_size. destruct (N.ltb_spec (32 + lenN suffix) 32); [lia|].
  rewrite <- hdr_bytes by exact H. rewrite get_put_fields0 by now apply hdr_dom.
  cbn [bind]. now rewrite header_of_hdr_values.
Qed.

Theorem header_total data : header_unmarshal data <> Panic.
Proof.
  unfold header_unmarshal, header_size. destruct (N.ltb_spec (lenN data) 32); [discriminate|].
  destruct (get_fields_ok hdr_layout data 0) as [vs Hvs]; [cbn; lia|]. rewrite Hvs. discriminate.
Qed.

(* ---- dispatch: a finite fact lifted to every code below 256 ---- *)
Lemma in_all_codes code : code < 256 -> In code all_codes.
Proof.
  intros H. unfold all_codes. apply in_map_iff. exists (N.to_nat code). split; [lia|].
  apply in_seq. lia.
Qed.

Theorem dispatch_sound cmds rq rs :
  forallb (fun code => dispatch_ok_at cmds rq rs code false && dispatch_ok_at cmds rq rs code true) all_codes = true ->
  forall code reply c, code < 256 -> factory_dispatch cmds rq rs code reply = Some c ->
  cd_code c = code /\ cd_request c = negb reply.
Proof.
  intros Hall code reply c Hcode Hd. rewrite forallb_forall in Hall.
  specialize (Hall code (in_all_codes code Hcode)). apply andb_true_iff in Hall. destruct Hall as [Hf Ht].
  assert (Hok : dispatch_ok_at cmds rq rs code reply = true) by (destruct reply; assumption).
  unfold dispatch_ok_at in Hok. rewrite Hd in Hok. apply andb_true_iff in Hok. destruct Hok as [H1 H2].
  apply N.eqb_eq in H1. apply Bool.eqb_prop in H2. auto.
Qed.

(* ---- framing ---- *)
Theorem cmd_framing c cs v bs cs' v' :
  cmd_marshal c cs v = Ok (bs, cs', v') ->
  lenN (p_words (cs_params cs')) <= 255 -> lenN (d_bytes (cs_data cs')) <= 65535 ->
  let words := p_words (cs_params cs') in
  let data := d_bytes (cs_data cs') in
  bs = [lenN words] ++ flat_map be16 words ++ le16 (lenN data) ++ data /\
  lenN bs = 1 + 2 * lenN words + 2 + lenN data.
Proof.
  unfold cmd_marshal. intros H Hw Hd.
  destruct (mops_run _ _) as [st| |] eqn:Est; cbn [bind] in H; try discriminate.
  remember (params_add_stream _ (ms_p st)) as p1 eqn:Ep1.
  remember (data_add (cs_data cs) (ms_d st)) as d1 eqn:Ed1.
  destruct (params_marshal p1) as [pb| |] eqn:Epm; cbn [bind] in H; try discriminate.
  injection H as Hbs Hcs Hv. subst cs'. cbn [cs_params cs_data] in *. subst bs.
  unfold params_marshal in Epm.
  destruct (negb (p_wc p1 =? wrap8 (lenN (p_words p1)))) eqn:Ewc; [discriminate|].
  apply negb_false_iff, N.eqb_eq in Ewc. injection Epm as <-.
  unfold wrap8 in Ewc. rewrite N.mod_small in Ewc by lia. rewrite Ewc.
  assert (Hfm : (if 0 <? lenN (p_words p1) then flat_map be16 (p_words p1) else []) = flat_map be16 (p_words p1)).
  { destruct (N.ltb_spec 0 (lenN (p_words p1))); [reflexivity|].
    destruct (p_words p1); [reflexivity|]. rewrite lenN_cons in *. lia. }
  rewrite Hfm.
  assert (Hbc : d_bc d1 = lenN (d_bytes d1)).
  { rewrite Ed1 in *. unfold data_add in *. cbn [d_bc d_bytes] in *. unfold wrap16. apply N.mod_small. lia. }
  unfold data_marshal. rewrite Hbc. cbv zeta. split.
  - reflexivity.
  - change (lenN (p_words p1) :: flat_map be16 (p_words p1)) with ([lenN (p_words p1)] ++ flat_map be16 (p_words p1)).
    rewrite !lenN_app, lenN_cons, lenN_nil. unfold le16. rewrite lenN_le_bytes.
    assert (Hl : lenN (flat_map be16 (p_words p1)) = 2 * lenN (p_words p1)).
    { clear. induction (p_words p1) as [|w ws IH]; [reflexivity|].
      cbn [flat_map]. rewrite lenN_app, IH, lenN_cons. unfold be16. rewrite lenN_be_bytes. lia. }
    rewrite Hl. lia.
Qed.

Section Msg.
  Variable cmds : list cmd_desc.

  Theorem message_framing h c v bs v' :
    wf_header h -> message_marshal h c v = Ok (bs, v') ->
    exists hb cb cs',
      bs = hb ++ cb /\ hb = cifs_header h /\ lenN hb = 32 /\ cmd_marshal c cstate_new v = Ok (cb, cs', v').
  Proof.
    intros Hh H. unfold message_marshal in H. rewrite header_layout in H by exact Hh. cbn [bind] in H.
    destruct (cmd_marshal c cstate_new v) as [[[cb cs'] v'']| |] eqn:E; cbn [bind] in H; try discriminate.
    injection H as <- <-. exists (cifs_header h), cb, cs'. repeat split; auto.
    now apply cifs_header_length.
  Qed.

  (* once the command's derived fields are settled, every further Marshal yields identical bytes *)
  Theorem message_repeatable h c v bs :
    message_marshal h c v = Ok (bs, v) -> forall n, message_marshal_n n h c v = repeat (Ok bs) n.
  Proof.
    intros H n. induction n as [|n IH]; [reflexivity|].
    cbn [message_marshal_n repeat]. rewrite H. now rewrite IH.
  Qed.
End Msg.

(* structures of the all-integer fragment settle at once: Marshal leaves the fields as they are *)
Theorem message_repeatable_fixed h c fs ns :
  wf_header h -> simple_fixed c = true -> int_fields (cd_marshal c) = Some fs -> values_fit fs ns ->
  exists bs, forall n, message_marshal_n n h c (int_valuation fs ns) = repeat (Ok bs) n.
Proof.
  intros Hh Hc Hfs Hfit.
  destruct (simple_fixed_roundtrips c Hc fs Hfs ns Hfit) as [cb [cs' [Hm _]]].
  exists (cifs_header h ++ cb). apply message_repeatable.
  unfold message_marshal. rewrite header_layout by exact Hh. cbn [bind]. rewrite Hm. reflexivity.
Qed.
