(* C06: the per-type statements in the form used by Properties/C06.v (explicit field bounds). *)
From Coq Require Import List Arith NArith Lia Bool.
From Coq Require Import ZifyN ZifyNat ZifyBool.
From Mant Require Import Prim.R Prim.Bytes Model.SmbTypes Model.SmbBlocks Spec.C06
  Proofs.C06Layout Proofs.C06Fixed Proofs.C06Strings Proofs.C06DirInfo Proofs.C06Blocks.
Import ListNotations.
Open Scope N_scope.

Lemma fld_ok_1 e v : v < 256 -> fld_ok (1%nat, e) v.
Proof. intros H. unfold fld_ok. cbn [fst]. change (2 ^ (8 * N.of_nat 1)) with 256. exact H. Qed.
Lemma fld_ok_2 e v : v < 65536 -> fld_ok (2%nat, e) v.
Proof. intros H. unfold fld_ok. cbn [fst]. change (2 ^ (8 * N.of_nat 2)) with 65536. exact H. Qed.
Lemma fld_ok_4 e v : v < 2 ^ 32 -> fld_ok (4%nat, e) v.
Proof. intros H. unfold fld_ok. cbn [fst]. change (2 ^ (8 * N.of_nat 4)) with (2 ^ 32). exact H. Qed.

Ltac layout_dom := repeat (first [apply Forall2_nil | apply Forall2_cons]);
  first [apply fld_ok_1 | apply fld_ok_2 | apply fld_ok_4]; assumption.

Theorem range32_rt pid off len suffix :
  pid < 65536 -> off < 2 ^ 32 -> len < 2 ^ 32 ->
  range32_unmarshal (range32_marshal [pid; off; len] ++ suffix) = Ok ([pid; off; len], 10).
Proof.
  intros H1 H2 H3. assert (D : dom_layout range32_layout [pid; off; len]) by layout_dom.
  rewrite (range32_roundtrip _ suffix D). unfold range32_marshal. now rewrite (lenN_put_fields _ _ D).
Qed.

Theorem range64_rt pid pad oh ol lh ll suffix :
  pid < 65536 -> pad < 65536 -> oh < 2 ^ 32 -> ol < 2 ^ 32 -> lh < 2 ^ 32 -> ll < 2 ^ 32 ->
  range64_unmarshal (range64_marshal [pid; pad; oh; ol; lh; ll] ++ suffix) = Ok ([pid; pad; oh; ol; lh; ll], 20).
Proof.
  intros H1 H2 H3 H4 H5 H6. assert (D : dom_layout range64_layout [pid; pad; oh; ol; lh; ll]) by layout_dom.
  rewrite (range64_roundtrip _ suffix D). unfold range64_marshal. now rewrite (lenN_put_fields _ _ D).
Qed.

Theorem andx_rt cmd res off suffix :
  cmd < 256 -> res < 256 -> off < 65536 ->
  andx_unmarshal (andx_marshal [cmd; res; off] ++ suffix) = Ok ([cmd; res; off], 4).
Proof.
  intros H1 H2 H3. assert (D : dom_layout andx_layout [cmd; res; off]) by layout_dom.
  rewrite (andx_roundtrip _ suffix D). unfold andx_marshal. now rewrite (lenN_put_fields _ _ D).
Qed.

Theorem version_rt major minor build r0 r1 r2 rev suffix :
  major < 256 -> minor < 256 -> build < 65536 -> r0 < 256 -> r1 < 256 -> r2 < 256 -> rev < 256 ->
  version_unmarshal (version_marshal [major; minor; build; r0; r1; r2; rev] ++ suffix)
  = Ok ([major; minor; build; r0; r1; r2; rev], 8).
Proof.
  intros H1 H2 H3 H4 H5 H6 H7.
  assert (D : dom_layout version_layout [major; minor; build; r0; r1; r2; rev]) by layout_dom.
  rewrite (version_roundtrip _ suffix D). unfold version_marshal. now rewrite (lenN_put_fields _ _ D).
Qed.

Theorem filetime_rt lo hi suffix : lo < 2 ^ 32 -> hi < 2 ^ 32 ->
  filetime_unmarshal (filetime_marshal (lo, hi) ++ suffix) = Ok ((lo, hi), 8).
Proof.
  intros H1 H2. assert (D : dom_filetime (lo, hi)) by (split; assumption).
  rewrite (filetime_roundtrip _ suffix D). now rewrite (lenN_filetime_marshal _ D).
Qed.

Theorem fileattr_rt a suffix : a < 65536 ->
  fileattr_unmarshal (fileattr_marshal a ++ suffix) = Ok (a, 2).
Proof. intros H. now rewrite (fileattr_roundtrip a suffix H). Qed.

(* all 65536 pipe-status words, without trailing bytes *)
Theorem nmpipe_rt icount flags : icount < 256 -> flags < 256 ->
  nmpipe_unmarshal (nmpipe_marshal [icount; flags]) = Ok ([icount; flags], 2).
Proof.
  intros H1 H2. assert (D : dom_layout nmpipe_layout [icount; flags]) by layout_dom.
  rewrite (nmpipe_roundtrip_exact _ D). unfold nmpipe_marshal. now rewrite (lenN_put_fields _ _ D).
Qed.

Theorem nmpipe_trailing icount flags suffix : icount < 256 -> flags < 256 -> suffix <> [] ->
  nmpipe_unmarshal (nmpipe_marshal [icount; flags] ++ suffix) = Err.
Proof.
  intros H1 H2 H3. assert (D : dom_layout nmpipe_layout [icount; flags]) by layout_dom.
  now apply nmpipe_trailing_rejected.
Qed.

Theorem nmpipe_refuted :
  ~ (forall icount flags suffix, icount < 256 -> flags < 256 ->
       nmpipe_unmarshal (nmpipe_marshal [icount; flags] ++ suffix) = Ok ([icount; flags], 2)).
Proof. intros H. specialize (H 5 129 [0]). vm_compute in H. discriminate (H eq_refl eq_refl). Qed.

Theorem date_rt y m d suffix : 1980 <= y <= 2107 -> m < 16 -> d < 32 ->
  date_unmarshal (date_marshal (mk_date y m d) ++ suffix) = Ok (mk_date y m d, 2).
Proof.
  intros H1 H2 H3. assert (D : dom_date (mk_date y m d)) by (unfold dom_date; cbn; lia).
  rewrite (date_roundtrip _ suffix D). unfold date_marshal, le16. now rewrite lenN_le_bytes.
Qed.

(* the encoder produces the packed word of MS-CIFS 2.2.1.4.1 *)
Theorem date_encoding y m d : 1980 <= y <= 2107 -> m < 16 -> d < 32 ->
  date_marshal (mk_date y m d) = le16 ((y - 1980) * 512 + m * 32 + d).
Proof.
  intros H1 H2 H3. assert (D : dom_date (mk_date y m d)) by (unfold dom_date; cbn; lia).
  unfold date_marshal. now rewrite (date_word_ref _ D).
Qed.

(* strings with the canonical encoding made explicit *)
Theorem string_rt s suffix : dom_string s ->
  smb_string_marshal s = Ok (ref_string_bytes s, s) /\
  smb_string_unmarshal (ref_string_bytes s ++ suffix) = Ok (s, lenN (ref_string_bytes s)).
Proof. intros H. split; [now apply string_marshal_ref | now apply string_unmarshal_ref]. Qed.

Theorem data_rt bs suffix : lenN bs <= 65535 ->
  data_unmarshal (data_marshal (mk_data (lenN bs) bs) ++ suffix) = Ok (mk_data (lenN bs) bs, 2 + lenN bs).
Proof.
  intros H. assert (D : dom_data (mk_data (lenN bs) bs)) by (split; [reflexivity|exact H]).
  rewrite (data_roundtrip _ suffix D). unfold data_marshal. cbn [d_bc d_bytes].
  rewrite lenN_app. unfold le16. now rewrite lenN_le_bytes.
Qed.

Theorem params_rt ws suffix : lenN ws <= 255 -> Forall (fun w => w < 65536) ws ->
  exists bs, params_marshal (mk_params (lenN ws) ws) = Ok bs /\ lenN bs = 1 + 2 * lenN ws /\
             params_unmarshal (bs ++ suffix) = Ok (mk_params (lenN ws) ws, 1 + 2 * lenN ws).
Proof.
  intros H1 H2. assert (D : dom_params (mk_params (lenN ws) ws)) by (repeat split; assumption).
  destruct (params_roundtrip _ suffix D) as [bs [Hm Hu]]. exists bs.
  assert (L : lenN bs = 1 + 2 * lenN ws).
  { unfold params_marshal in Hm. cbn [p_wc p_words] in Hm. unfold wrap8 in Hm.
    rewrite N.mod_small, N.eqb_refl in Hm by lia. cbn [negb] in Hm. inversion Hm; subst bs.
    rewrite lenN_cons.
    destruct (N.ltb_spec 0 (lenN ws)); [now rewrite lenN_flat_be16|].
    destruct ws; [reflexivity|rewrite lenN_cons in *; lia]. }
  rewrite L in Hu. auto.
Qed.

(* any sequence of AddWordsFromBytesStream / Add calls from the empty block, within the count limits *)
Theorem params_streams_dom (streams : list (list N)) :
  Forall wf_bytes streams ->
  lenN (flat_map words_of_stream streams) <= 255 ->
  dom_params (fold_left params_add_stream streams params_new).
Proof.
  intros Hwf Hlen.
  assert (G : forall ss p, Forall wf_bytes ss -> dom_params p ->
              lenN (p_words p) + lenN (flat_map words_of_stream ss) <= 255 ->
              dom_params (fold_left params_add_stream ss p)).
  { induction ss as [|s ss IH]; intros p Hs Hp Hl; [exact Hp|].
    inversion Hs as [|? ? Hs1 Hs2]; subst. cbn [fold_left flat_map] in *. rewrite lenN_app in Hl.
    apply IH; [exact Hs2| apply params_add_stream_dom; [exact Hp|exact Hs1|lia] |].
    unfold params_add_stream. cbn [p_words]. rewrite lenN_app. lia. }
  apply G; [exact Hwf|apply params_new_dom|cbn; lia].
Qed.

Theorem data_adds_dom (chunks : list (list N)) :
  lenN (concat chunks) <= 65535 -> dom_data (fold_left data_add chunks data_new).
Proof.
  intros Hlen.
  assert (G : forall cs d, dom_data d -> lenN (d_bytes d) + lenN (concat cs) <= 65535 ->
              dom_data (fold_left data_add cs d)).
  { induction cs as [|c cs IH]; intros d Hd Hl; [exact Hd|].
    cbn [fold_left concat] in *. rewrite lenN_app in Hl.
    apply IH; [apply data_add_dom; lia|]. unfold data_add. cbn [d_bytes]. rewrite lenN_app. lia. }
  apply G; [apply data_new_dom|cbn; lia].
Qed.
